/-
  Property C01 — Fuzzy equality decides exactly the documented tolerance formula.
  Only property theorems live here; helper lemmas are in FcProofs/Lemmas.

  Model:  `Fc.fuzzyCheck`   (FcModel/Predicates.lean — FuzzyEquality._check, fuzzy_equal,
                             find_first_fuzzy_unequal, tolerance resolution)
  Spec:   `Fc.Spec.fuzzySpec`, `Fc.Spec.docFormula`, `Fc.Spec.exactFormula`
-/
import FcProofs.Lemmas.Fuzzy
import FcProofs.Lemmas.SourceFormula
import FcProofs.Lemmas.Slack
namespace Fc
open Spec

/-- hypothesis of the C01 theorems: two float64 arrays; array-valued tolerances are
    per-component (their shape is the entry shape of the operands) -/
structure C01Hyp (rel abs : Tol) (a b : NdArr) : Prop where
  fa : a.dtype = .flt f64
  fb : b.dtype = .flt f64
  relShape : rel.wellShaped (if a.shape.length ≥ b.shape.length then a.shape else b.shape)
  absShape : abs.wellShaped (if a.shape.length ≥ b.shape.length then a.shape else b.shape)

def verdictOfSpec : Option Bool → Verdict
  | some v => .ok v
  | none => .err

/-- **C01 (model = spec).**  For all float64 arrays of any shapes, all tolerances (numbers,
    per-component arrays, scaled / default dynamic ones): the modelled `FuzzyEquality` verdict
    is exactly the spec — incompatible shapes ⇒ unequal; tolerance undefined ⇒ error; otherwise
    the conjunction of the documented formula over *all* entries. -/
theorem C01_model_eq_spec (rel abs : Tol) (a b : NdArr) (h : C01Hyp rel abs a b) :
    fuzzyCheck rel abs a b = verdictOfSpec (fuzzySpec rel abs a b) := by
  obtain ⟨hiff, hshape⟩ := reshapePair_spec a.shape b.shape
  unfold fuzzyCheck fuzzySpec
  cases hp : reshapePair a.shape b.shape with
  | mk s1 s2 =>
    rw [hp] at hiff hshape
    simp only at hiff hshape ⊢
    by_cases hc : s1 = s2
    · have hcomp : shapesCompatible a.shape b.shape = true := hiff.mp hc
      have hs1 := hshape hc
      subst hc
      simp only [ne_eq, not_true_eq_false, if_false, hcomp, Bool.not_true, Bool.false_eq_true]
      rw [h.fa, h.fb]
      simp only [not_true_eq_false, if_false]
      have hr := resolveTol_spec rel { a with shape := s1 } { b with shape := s1 }
        (by simpa [hs1] using h.relShape)
      have ht := resolveTol_spec abs { a with shape := s1 } { b with shape := s1 }
        (by simpa [hs1] using h.absShape)
      rw [← hs1]
      have e1 : ({ dtype := DType.flt f64, shape := s1, data := a.data } : NdArr) = { a with shape := s1 } := by
        rw [← h.fa]
      have e2 : ({ dtype := DType.flt f64, shape := s1, data := b.data } : NdArr) = { b with shape := s1 } := by
        rw [← h.fb]
      rw [e1, e2]
      cases hrr : resolveTol f64 rel { a with shape := s1 } { b with shape := s1 } with
      | none =>
        rw [hrr] at hr
        simp only at hr
        rw [hr]
        simp [verdictOfSpec]
      | some r =>
        rw [hrr] at hr
        simp only at hr
        cases htt : resolveTol f64 abs { a with shape := s1 } { b with shape := s1 } with
        | none =>
          rw [htt] at ht
          simp only at ht
          rw [hr.1, ht]
          simp [verdictOfSpec]
        | some t =>
          rw [htt] at ht
          simp only at ht
          rw [hr.1, ht.1]
          simp only [verdictOfSpec]
          unfold findFuzzy
          simp only [hr.2, ht.2, and_self, if_true]
          rw [allFuzzy_f64]
    · have hcomp : shapesCompatible a.shape b.shape = false := by
        cases hh : shapesCompatible a.shape b.shape with
        | false => rfl
        | true => exact absurd (hiff.mpr hh) hc
      simp [hc, hcomp, verdictOfSpec]

/-- **C01 (the spec is the documented statement).**  The spec answers "equal" iff the shapes are
    equal up to one trailing axis of length 1, both tolerances are defined, and **every** scalar
    pair satisfies `|a-b| <= max(rel*max(|a|,|b|), abs)` with the tolerance that applies to its
    component. `n = 0` is included (vacuous). -/
theorem C01_iff (rel abs : Tol) (a b : NdArr) :
    fuzzySpec rel abs a b = some true ↔
      shapesCompatible a.shape b.shape = true ∧
      ∃ r t,
        specTol f64 rel
          { a with shape := if a.shape.length ≥ b.shape.length then a.shape else b.shape }
          { b with shape := if a.shape.length ≥ b.shape.length then a.shape else b.shape } = some r ∧
        specTol f64 abs
          { a with shape := if a.shape.length ≥ b.shape.length then a.shape else b.shape }
          { b with shape := if a.shape.length ≥ b.shape.length then a.shape else b.shape } = some t ∧
        ∀ i, i < a.data.length →
          docFormula f64 (a.data.getD i 0) (b.data.getD i 0) (r i) (t i) = true := by
  unfold fuzzySpec
  cases hc : shapesCompatible a.shape b.shape with
  | false => simp
  | true =>
    simp only [Bool.not_true, Bool.false_eq_true, if_false, true_and]
    constructor
    · intro h
      split at h
      · rename_i r t hr ht
        refine ⟨r, t, hr, ht, ?_⟩
        simp only [Option.some.injEq, List.all_eq_true, List.mem_range] at h
        exact h
      · simp at h
    · rintro ⟨r, t, hr, ht, hall⟩
      rw [hr, ht]
      simp only [Option.some.injEq, List.all_eq_true, List.mem_range]
      exact hall

/-- **C01 (shape rule, any dtype).**  A "true" verdict implies compatible shapes … -/
theorem C01_shape (rel abs : Tol) (a b : NdArr) :
    fuzzyCheck rel abs a b = .ok true → shapesCompatible a.shape b.shape = true := by
  obtain ⟨hiff, _⟩ := reshapePair_spec a.shape b.shape
  unfold fuzzyCheck
  cases hp : reshapePair a.shape b.shape with
  | mk s1 s2 =>
    rw [hp] at hiff
    simp only at hiff ⊢
    by_cases hc : s1 = s2
    · intro _; exact hiff.mp hc
    · simp [hc]

/-- … and incompatible shapes are answered "unequal", never by an exception. -/
theorem C01_shape_reject (rel abs : Tol) (a b : NdArr)
    (h : shapesCompatible a.shape b.shape = false) : fuzzyCheck rel abs a b = .ok false := by
  obtain ⟨hiff, _⟩ := reshapePair_spec a.shape b.shape
  unfold fuzzyCheck
  cases hp : reshapePair a.shape b.shape with
  | mk s1 s2 =>
    rw [hp] at hiff
    simp only at hiff ⊢
    have hc : s1 ≠ s2 := by
      intro hc
      have := hiff.mp hc
      rw [h] at this
      exact Bool.noConfusion this
    simp [hc]

/-- **C01 (exact ⇒ floating, no slack; boundary counts as equal).**  If the documented inequality
    holds in exact arithmetic — in particular on the boundary `|a-b| = threshold` — then the
    formula as evaluated in round-to-nearest binary64 holds too, for every magnitude.
    (`abs` is a binary64 number: it is representable.) -/
theorem C01_exact_implies_float (a b : Int) (rel abs : Nat)
    (habs : rndMag f64 abs 0 = some abs)
    (h : exactFormula a b rel abs = true) : docFormula f64 a b rel abs = true := by
  unfold exactFormula at h
  unfold docFormula
  have h' : (b - a).natAbs * 2 ^ UNIT ≤ max (max a.natAbs b.natAbs * rel) (abs * 2 ^ UNIT) := by
    simpa using h
  rcases Nat.le_total (max a.natAbs b.natAbs * rel) (abs * 2 ^ UNIT) with hle | hle
  · -- the absolute tolerance dominates
    have hd : (b - a).natAbs ≤ abs := by
      have : (b - a).natAbs * 2 ^ UNIT ≤ abs * 2 ^ UNIT := by
        rw [Nat.max_eq_right hle] at h'; exact h'
      exact Nat.le_of_mul_le_mul_right this (two_pow_pos' UNIT)
    have := rndMag_mono f64 0 hd
    rw [habs] at this
    exact leInf_trans this (leInf_maxInf_right _ _)
  · have hd : (b - a).natAbs * 2 ^ UNIT ≤ max a.natAbs b.natAbs * rel := by
      rw [Nat.max_eq_left hle] at h'; exact h'
    have := rndMag_mono f64 UNIT hd
    have hs : rndMag f64 ((b - a).natAbs * 2 ^ UNIT) UNIT = rndMag f64 (b - a).natAbs 0 := by
      have := rndMag_scale f64 (b - a).natAbs 0 UNIT
      simpa using this
    rw [hs] at this
    exact leInf_trans this (leInf_maxInf_left _ _)

/-- boundary case spelled out: equality in the exact inequality counts as equal -/
theorem C01_boundary (a b : Int) (rel abs : Nat) (habs : rndMag f64 abs 0 = some abs)
    (h : (b - a).natAbs * 2 ^ UNIT = max (max a.natAbs b.natAbs * rel) (abs * 2 ^ UNIT)) :
    docFormula f64 a b rel abs = true :=
  C01_exact_implies_float a b rel abs habs (by unfold exactFormula; simp [h])

/-- **C01 (float ⇒ exact up to one rounding on each side).**  If the documented formula holds as
    evaluated in binary64 and the threshold product is finite, then it holds in exact arithmetic
    up to the explicit slack  `|a-b|·(2^53 − 1) ≤ max(rel·max(|a|,|b|)·(2^53 + 1) + 2^52 quanta,
    abs·2^53)`  — i.e. relative 2^-53 on either side plus half the smallest subnormal.
    (Constants: 9007199254740991 = 2^53 − 1, …992 = 2^53, …993 = 2^53 + 1, 4503599627370496 = 2^52;
    all quantities scaled by 2^UNIT to stay in ℕ.)  Together with `C01_exact_implies_float`
    this pins the verdict to the exact inequality on both sides of the boundary. -/
theorem C01_float_implies_exact_slack (a b : Int) (rel abs : Nat)
    (hfin : rndMag f64 (max a.natAbs b.natAbs * rel) UNIT ≠ none)
    (h : docFormula f64 a b rel abs = true) :
    (b - a).natAbs * 2 ^ UNIT * 9007199254740991 ≤
      max (max a.natAbs b.natAbs * rel * 9007199254740993 + 2 ^ UNIT * 4503599627370496)
          (abs * (2 ^ UNIT * 9007199254740992)) := by
  unfold docFormula at h
  have hp : rndMag f64 (max a.natAbs b.natAbs * rel) UNIT = some (rndRaw f64 (max a.natAbs b.natAbs * rel) UNIT) := by
    unfold rndMag at hfin ⊢
    simp only at hfin ⊢
    split
    · rename_i hov; simp [hov] at hfin
    · rfl
  rw [hp] at h
  have hd : rndMag f64 (b - a).natAbs 0 = some (rndRaw f64 (b - a).natAbs 0) := by
    unfold rndMag
    simp only
    split
    · rename_i hov
      unfold rndMag at h
      simp [hov, maxInf, leInf] at h
    · rfl
  rw [hd] at h
  have h2 : rndRaw f64 (b - a).natAbs 0 ≤ max (rndRaw f64 (max a.natAbs b.natAbs * rel) UNIT) abs := by
    simpa [maxInf, leInf] using h
  exact slack_core _ _ _ _ _ (2 ^ UNIT) (rnd_lower_f64 _) (rnd_upper_f64 _) h2

/-- **C01 (other float formats, Python-float tolerances).**  For a format other than binary64
    (float32 / float16 arrays) numpy keeps the arithmetic in the array's format and first rounds
    the Python-float tolerances to it: the scalar kernel is the documented formula evaluated in
    that format with the rounded tolerances.  (`docFormula` is reflexive, symmetric and monotone
    for every format — `docFormula_refl/_symm/_mono`.) -/
theorem C01_weak_kernel (F : Fmt) (hF : F ≠ f64) (a b : Int) (rel abs r t : Nat)
    (hr : rndMag F rel 0 = some r) (ht : rndMag F abs 0 = some t) :
    fuzzyEq1 F a b rel true abs true = docFormula F a b r t := by
  unfold fuzzyEq1 threshold docFormula
  simp [hF, hr, ht]

/-- **C01 (tie to the source text).**  The body of `_numpy_utils.fuzzy_equal` as *translated from
    the current source text on this run* (`Fc.Gen.fuzzyEqualBody`, FcGen/Tables.lean), evaluated
    with binary64 lane semantics on any finite operands and tolerances, is the documented formula —
    hence (by `fuzzyEq1_f64`) the model's scalar kernel.  A source change of the formula breaks
    this obligation. -/
theorem C01_source_formula (a b : Int) (rel abs : Nat) :
    evalBody [("first", .num (.fin a)), ("second", .num (.fin b)),
              ("rel_tol", .num (.fin rel)), ("abs_tol", .num (.fin abs))] Gen.fuzzyEqualBody
      = some (.bool (docFormula f64 a b rel abs)) := by
  simp [Gen.fuzzyEqualBody, evalBody, NExpr.eval, Env.get, List.find?, evalNum, evalNum2, evalCmp]
  rw [xvAbs_sub, xvMax_abs, xvMul_nonneg]
  unfold docFormula
  cases rndMag f64 (b - a).natAbs 0 <;> cases rndMag f64 (max a.natAbs b.natAbs * rel) UNIT <;>
    simp [xvMax, xvLe, leInf, maxInf]
  · rename_i p
    by_cases h : p ≤ abs <;> simp [h]
  · rename_i d p
    by_cases h : p ≤ abs
    · simp [h] <;> (intros; omega)
    · simp [h] <;> (intros; omega)

end Fc
