/-
  Property C09 / C01, mixed operands — an integer array next to a float64 array.

  `DefaultEquality` sees a float on one side (`has_floats`) and takes the fuzzy route
  (`C09_float_side_fuzzy`); numpy's promotion converts the integer operand entry-wise to binary64
  (`int × float64 → float64`), after which the comparison is the float64 comparison of C01.

  Model: the `.int/.flt` and `.flt/.int` branches of `Fc.fuzzyCheck`, `Fc.defaultCheck`,
         `Fc.intsToF64`, `Fc.intToF64`                    (FcModel/Predicates.lean)
  Spec:  `Fc.Spec.fuzzySpec` on `Fc.Spec.convIntArr` of the integer operand
         (FcModel/Spec/Predicates.lean, Spec/ClusterA.lean)

  Hypothesis `arrNoMin`: no entry of a signed integer operand is the type minimum.  The model
  converts first and takes absolute values afterwards; numpy's `abs` on the *integer* array wraps
  on the type minimum (finding F13), so on such operands the model is not meant to reproduce the
  code and the theorems below deliberately do not speak (the driver reports `hyp=0`).
-/
import FcProofs.Lemmas.ClusterAMixed
import FcProofs.Props.C01
import FcProofs.Props.C09
namespace Fc
open Spec

/-- hypothesis of the mixed-operand theorems: `x` is an integer array without the type minimum
    whose conversion is `x'`; `x'` and the float64 operand meet the C01 hypothesis -/
structure C09MixedHyp (x x' : NdArr) : Prop where
  conv : convIntArr x = some x'
  noMin : arrNoMin x = true

/-- **C09/C01 (integer array vs float64 array).**  The modelled `FuzzyEquality` on an integer
    array `a` (no type minimum) and a float64 array `b` is the float64 spec of C01 on the
    entry-wise converted array: shapes compatible, tolerances defined, documented formula at every
    entry of `(float64(a), b)`. -/
theorem C09_mixed_int_left (rel abs : Tol) (a a' b : NdArr) (hm : C09MixedHyp a a')
    (h : C01Hyp rel abs a' b) :
    fuzzyCheck rel abs a b = verdictOfSpec (fuzzySpec rel abs a' b) := by
  obtain ⟨sg, bits, d, hdt, hd, rfl⟩ := convIntArr_some hm.conv
  rw [fuzzyCheck_int_flt rel abs a b sg bits hdt h.fb d hd]
  exact C01_model_eq_spec rel abs _ b h

/-- the same with the integer array as second operand -/
theorem C09_mixed_int_right (rel abs : Tol) (a b b' : NdArr) (hm : C09MixedHyp b b')
    (h : C01Hyp rel abs a b') :
    fuzzyCheck rel abs a b = verdictOfSpec (fuzzySpec rel abs a b') := by
  obtain ⟨sg, bits, d, hdt, hd, rfl⟩ := convIntArr_some hm.conv
  rw [fuzzyCheck_flt_int rel abs a b sg bits h.fa hdt d hd]
  exact C01_model_eq_spec rel abs a _ h

/-- **C09 (float side ⇒ fuzzy, composed).**  `DefaultEquality` on an integer array next to a
    float64 array: one side holds floats, so the fuzzy formula decides — on the converted
    integers. -/
theorem C09_mixed_default_left (rel abs : Tol) (a a' b : NdArr) (hm : C09MixedHyp a a')
    (h : C01Hyp rel abs a' b) :
    defaultCheck rel abs a b = verdictOfSpec (fuzzySpec rel abs a' b) := by
  have hb : b.dtype.hasFloats = true := by rw [h.fb]; rfl
  rw [C09_float_side_fuzzy rel abs a b (Or.inr hb)]
  exact C09_mixed_int_left rel abs a a' b hm h

theorem C09_mixed_default_right (rel abs : Tol) (a b b' : NdArr) (hm : C09MixedHyp b b')
    (h : C01Hyp rel abs a b') :
    defaultCheck rel abs a b = verdictOfSpec (fuzzySpec rel abs a b') := by
  have ha : a.dtype.hasFloats = true := by rw [h.fa]; rfl
  rw [C09_float_side_fuzzy rel abs a b (Or.inl ha)]
  exact C09_mixed_int_right rel abs a b b' hm h

/-- **the conversion.**  Every array of a ≤ 64-bit integer type converts (no overflow), shape and
    length are kept, and position `i` holds `float64(x[i])` (one rounding). -/
theorem C09_mixed_conv_total (x : NdArr) (sg : Bool) (bits : Nat) (hdt : x.dtype = .int sg bits)
    (hr : ∀ v ∈ x.data, v.natAbs ≤ 2 ^ 64) :
    ∃ x', convIntArr x = some x' ∧ x'.dtype = .flt f64 ∧ x'.shape = x.shape ∧
      x'.data.length = x.data.length ∧
      ∀ i, i < x.data.length → intToF64 (x.data.getD i 0) = some (x'.data.getD i 0) := by
  obtain ⟨d, hd⟩ := intsToF64_finite x.data hr
  obtain ⟨hlen, hall⟩ := intsToF64_spec x.data d hd
  refine ⟨{ x with dtype := .flt f64, data := d }, ?_, rfl, rfl, hlen, hall⟩
  unfold convIntArr
  rw [hdt]
  simp only [hd, Option.map_some]

/-- **small integers convert exactly.**  If every entry has magnitude ≤ 2^53 the converted array
    holds the integers' values themselves (value `v` = `v·2^1074` units): the verdict is the C01
    spec on the VALUES — nothing is lost by the promotion. -/
theorem C09_mixed_conv_exact (x : NdArr) (sg : Bool) (bits : Nat) (hdt : x.dtype = .int sg bits)
    (hr : ∀ v ∈ x.data, v.natAbs ≤ 2 ^ 53) :
    convIntArr x = some { x with dtype := .flt f64, data := x.data.map fun v => v * 2 ^ UNIT } := by
  unfold convIntArr
  rw [hdt]
  simp only [intsToF64_small x.data hr, Option.map_some]

/-- values of a signed `bits`-bit type with `bits ≤ 64` (resp. unsigned) satisfy the range
    hypothesis of `C09_mixed_conv_total` -/
theorem C09_mixed_range (bits : Nat) (h64 : bits ≤ 64) (v : Int)
    (h : intInRange bits v = true ∨ uintInRange bits v = true) : v.natAbs ≤ 2 ^ 64 := by
  rcases h with h | h
  · unfold intInRange at h
    simp only [Bool.and_eq_true, decide_eq_true_eq] at h
    have e : intHalf bits = ((2 ^ (bits - 1) : Nat) : Int) := by unfold intHalf; push_cast; rfl
    have hp : 2 ^ (bits - 1) ≤ 2 ^ 64 := Nat.pow_le_pow_right (by decide) (by omega)
    rw [e] at h
    omega
  · unfold uintInRange at h
    simp only [Bool.and_eq_true, decide_eq_true_eq] at h
    have e : (2 : Int) ^ bits = ((2 ^ bits : Nat) : Int) := by push_cast; rfl
    have hp : 2 ^ bits ≤ 2 ^ 64 := Nat.pow_le_pow_right (by decide) h64
    rw [e] at h
    omega

end Fc
