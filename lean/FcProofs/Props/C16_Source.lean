/-
  FcProofs.Props.C16_Source — C16, tie to the source text by TRANSLATION (see C04_Source.lean).
  Translated body: `Fc.Gen.c16IsCompatibleWithSrc` (harness/fcv/tables/pylite_c16.py) of
  `mesh/_cell_type.py: CellType.is_compatible_with`; model: `Fc.C03.compatibleId` (FcModel/MeshEqual.lean).
  The module-level dict `_COMPATIBLES` is the zero-argument external `global _COMPATIBLES`; the theorem
  assumes it holds the directed pairs `Gen.C16.compatIdPairs` (extracted from the module-level
  `_insert_compatibles` calls by harness/fcv/tables/celltypes.py) as a dict id -> list of ids.
-/
import FcGen.Tables
import FcProofs.Lemmas.PyLiteC16
set_option linter.unusedSimpArgs false
namespace Fc
open PyLite PyLite.C16

/-- `c1.is_compatible_with(c2)` is the model's `compatibleId` for every pair of VTK ids and EVERY table
    `ps` of directed compatibility pairs: same id, or `c2.id in _COMPATIBLES.get(c1._id, [])`. -/
theorem C16_source_is_compatible_with_table (X : Ext) (ps : List (Nat × Nat))
    (hX : X "global _COMPATIBLES" [] = .ok (compatDict ps)) (i1 i2 : Nat) :
    Gen.c16IsCompatibleWithSrc.run X [ctVal i1, ctVal i2] = .ok (.bool (i1 == i2 || ps.contains (i1, i2))) := by
  simp only [Gen.c16IsCompatibleWithSrc, ctVal]
  by_cases h : i1 = i2
  · subst h
    pylite_eval
  · have hne : ((i1 : Int) == (i2 : Int)) = false := by simp; omega
    have hne' : (i1 == i2) = false := by simpa using h
    have key := compatDict_get_mem ps i1 i2
    pylite_eval [hX, compatDict, hne, hne', h]
    revert key
    cases dictLookup _ _ with
    | ok o => cases o <;> simp [Val.asList, Res.bind, Res.map] <;> intro hk <;> simp [hk]
    | raise e => simp
    | stuck => simp

/-- … with the table of the current source: the model's `compatibleId`. -/
theorem C16_source_is_compatible_with (X : Ext)
    (hX : X "global _COMPATIBLES" [] = .ok (compatDict Gen.C16.compatIdPairs)) (i1 i2 : Nat) :
    Gen.c16IsCompatibleWithSrc.run X [ctVal i1, ctVal i2] = .ok (.bool (C03.compatibleId i1 i2)) :=
  C16_source_is_compatible_with_table X _ hX i1 i2

end Fc
