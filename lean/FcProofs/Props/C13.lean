/-
  Property C13 — written files read back to exactly the data that was written.
  Only property theorems live here; helper lemmas are in FcProofs/Lemmas/{Base64W,BytesW,CellsW,CellDataW,CsvW}.

  Model:  `Fc.W.makeDataArray / writeVtu` (VTUWriter), `Fc.W.readItems / cornersOf / gatherRows / readVtu`
          (VTK-XML reader on such files), `Fc.W.csvWrite / csvRead` (FcModel/{VtuWriter,Csv}.lean)
  Spec:   `Fc.W.Spec.normalise` (FcModel/Spec/C13.lean)

  Full statement (DESIGN §7), proved as `C13_vtu_roundtrip` / `C13_vtu_roundtrip_bind`:
      hyp F → sizeOk F → (writeVtu id F).bind readVtu = normalise F   (and both sides are defined).
  The other theorems are the links of that chain, each at full generality of its own hypotheses: the element
  encoding for every payload length and dtype, the header arithmetic, the type tables, the cell layout per type,
  the cell-data split, the `np.unique` order, point padding; and the CSV token layer.
  The XML layer is not modelled (a file is the record of its data-array elements; the harness compares files
  element by element); arrays are logical row-major item lists (numpy's `flatten()` is trusted, see NOTES_C13).
-/
import FcProofs.Lemmas.BytesW
import FcProofs.Lemmas.FileW
import FcProofs.Lemmas.CellDataW
import FcProofs.Lemmas.CsvW
import FcProofs.Lemmas.C13Roundtrip
import FcModel.Spec.C13
namespace Fc
open Fc.W

/-- **C13 (base64).** For every byte string the decoder loop of CPython inverts the encoder
    (induction over the quanta of three bytes; both padding cases). -/
theorem C13_b64_roundtrip (x : Bytes) (h : ∀ b ∈ x, b < 256) : b64dec (b64enc x) = some x :=
  b64dec_b64enc x h

/-- **C13 (writer = spec encoding).** The element written for an array holds
    `base64( uint64(number of payload bytes) ++ payload )` — the UInt64 header is the true length of the
    row-major little-endian payload, the component count is the number of scalars per entry. -/
theorem C13_writer_is_spec (name : String) (a : WArr) (v : String) (hw : a.wf = true) (hr : a.rows ≠ 0)
    (hv : dtypeToVtk a.dt = some v) :
    makeDataArray name a none =
      some ⟨name, v, prod a.tail,
            b64enc (leBytes 8 (itemsToBytes (dtypeSize a.dt) a.items).length ++ itemsToBytes (dtypeSize a.dt) a.items)⟩ := by
  unfold makeDataArray numComps
  simp only [hr, if_false, hv, encodeText]
  unfold WArr.wf at hw
  simp only [Bool.and_eq_true, beq_iff_eq] at hw
  rw [itemsToBytes_length, hw.1.2]

/-- **C13 (data-array round trip).** For every array of every registered dtype and every length
    (the empty one included), every component count: reading the written element back yields the dtype and
    exactly the written bit patterns. -/
theorem C13_dataarray_roundtrip (name : String) (a : WArr) (given : Option Nat) (e : DataArr)
    (hw : a.wf = true) (hn : a.items.length * dtypeSize a.dt < 256 ^ 8)
    (hg : ∀ k, given = some k → k = prod a.tail)
    (hty : ∀ v, dtypeToVtk a.dt = some v → vtkToDtype v = some a.dt)
    (he : makeDataArray name a given = some e) :
    readItems e = some (a.dt, a.items) ∧ e.name = name ∧ e.ncomps = prod a.tail :=
  readItems_makeDataArray name a given e hw hn hg hty he

/-- **C13 (numeric types preserved).** Every numpy dtype of the writer's table (regenerated from
    `_helpers._VTK_TYPE_TO_DTYPE`) maps to a VTK type name that the reader maps back to the same dtype,
    and has a non-zero item size in the model: both float precisions and all eight integer types. -/
theorem C13_types_preserved :
    ∀ p ∈ Fc.Gen.wVtkTypeToDtype, dtypeToVtk p.2 = some p.1 ∧ vtkToDtype p.1 = some p.2 ∧ dtypeSize p.2 ≠ 0 := by
  decide

/-- the ten numeric dtypes are all registered -/
theorem C13_all_dtypes_registered :
    ∀ d ∈ ["int8", "int16", "int32", "int64", "uint8", "uint16", "uint32", "uint64", "float32", "float64"],
      ∃ v, dtypeToVtk d = some v ∧ vtkToDtype v = some d :=
  all_dtypes_registered

/-- **C13 (every array of a written file).**  Whenever the writer produces a file for field data `F`
    (no assumption on `F` beyond the well-formedness of the single arrays: any number of point fields of any
    registered dtypes and shapes, any points, at least one cell), then in that file
    * the point-data elements carry, in order, the names, component counts and — read back — the dtypes and exact
      bit patterns of the point fields;
    * the `Coordinates` element reads back to the padded points;
    * `connectivity`, `offsets`, `types` read back to the flat corner list, the running sums of the corner counts
      and the type indices of the cell sequence — the arrays `C13_cells_roundtrip` starts from.
    (Phase 1 called this `…_partial`; the full composition is `C13_vtu_roundtrip` below — this statement is kept
    because it does not need `hyp`.) -/
theorem C13_vtu_arrays_roundtrip (F : WFields) (file : VtuFile) (hw : writeVtu id F = some file)
    (hpf : ∀ f ∈ F.pf, ArrOk f.2) (hpt : ArrOk (pointArray id F)) (hcs : allCells F.cells ≠ [])
    (hconn : ArrOk ⟨F.conntype, ((allCells F.cells).flatMap (·.2)).length, [], (allCells F.cells).flatMap (·.2)⟩)
    (hoffs : ArrOk ⟨"int64", (runningSums 0 ((allCells F.cells).map (·.2.length))).length, [],
                    runningSums 0 ((allCells F.cells).map (·.2.length))⟩)
    (htys : ∀ tys, mapM' (fun (c : String × List Nat) => cellTypeIndex c.1) (allCells F.cells) = some tys →
                   ArrOk ⟨"int64", tys.length, [], tys⟩) :
    file.pointData.map (fun e => (e.name, e.ncomps, readItems e))
        = F.pf.map (fun f => (f.1, prod f.2.tail, some (f.2.dt, f.2.items))) ∧
    file.numPoints = F.points.length ∧
    readItems file.points = some ((pointArray id F).dt, (pointArray id F).items) ∧
    readItems file.conn = some (F.conntype, (allCells F.cells).flatMap (·.2)) ∧
    readItems file.offsets = some ("int64", runningSums 0 ((allCells F.cells).map (·.2.length))) ∧
    ∃ tys, mapM' (fun (c : String × List Nat) => cellTypeIndex c.1) (allCells F.cells) = some tys ∧
      readItems file.types = some ("int64", tys) := by
  obtain ⟨h1, h3, h4, h5, ⟨tys, h6, h7⟩, hn⟩ := writeVtu_parts F file hw
  have hcsb : (!(allCells F.cells).isEmpty) = true := by
    cases hc : allCells F.cells with
    | nil => exact absurd hc hcs
    | cons _ _ => rfl
  rw [hcsb] at h4 h5 h7
  have one : ∀ (name : String) (a : WArr) (given : Option Nat) (e : DataArr), ArrOk a →
      (∀ k, given = some k → k = prod a.tail) → makeDataArray name a given = some e →
      readItems e = some (a.dt, a.items) ∧ e.name = name ∧ e.ncomps = prod a.tail :=
    fun name a given e hok hg he => hok.read name given e hg he
  refine ⟨?_, hn, ?_, ?_, ?_, tys, h6, ?_⟩
  · apply mapM'_map_eq _ _ _ F.pf file.pointData h1
    intro f hf e he
    obtain ⟨r1, r2, r3⟩ := one f.1 f.2 none e (hpf f hf) (by intro k hk; cases hk) he
    rw [r1, r2, r3]
  · exact (one _ _ none _ hpt (by intro k hk; cases hk) h3).1
  · exact (one _ _ (some 1) _ hconn (by intro k hk; cases hk; rfl) h4).1
  · exact (one _ _ (some 1) _ hoffs (by intro k hk; cases hk; rfl) h5).1
  · exact (one _ _ (some 1) _ (htys tys h6) (by intro k hk; cases hk; rfl) h7).1

/-- **C13 (cell types preserved).** Every cell type of `_CELL_TYPE_INDEX_TO_STR` (regenerated from the
    source) is written as an index that the reader maps back to the same type. -/
theorem C13_celltypes_preserved :
    ∀ p ∈ Fc.Gen.wCellTypeIndexToStr, cellTypeIndex p.2 = some p.1 ∧ cellTypeName p.1 = some p.2 :=
  celltypes_preserved

/-- **C13 (cells per type).** Let the mesh consist of blocks with pairwise distinct types, the block of type
    `t` having rows of `k` corners each (and at least one).  From the `connectivity`, `offsets`, `types` arrays the
    writer produces (cells block by block in mesh order, offsets = running sums) the reader's
    `_cell_type_corners_array(t)` returns exactly the rows of the block of type `t`, in mesh order —
    whatever the other blocks contain. -/
theorem C13_cells_roundtrip (t k : Nat) (pre suf : List (Nat × List (List Nat))) (rows : List (List Nat))
    (hpre : ∀ b ∈ pre, b.1 ≠ t) (hsuf : ∀ b ∈ suf, b.1 ≠ t)
    (hk : ∀ r ∈ rows, r.length = k) (hne : rows ≠ []) :
    let all := (pre ++ (t, rows) :: suf).flatMap fun b => b.2.map fun r => (b.1, r)
    cornersOf (all.flatMap (·.2)) (runningSums 0 (all.map (·.2.length))) (all.map (·.1)) t = some rows :=
  cornersOf_blocks t k pre suf rows hpre hsuf hk hne

/-- **C13 (cell data split).** A cell-data array written block by block (`k` scalars per cell, the blocks in
    mesh order, pairwise distinct types) is split by the reader's index map (`entire[index_map[t]]`) into
    exactly the values written for the block of type `t`. -/
theorem C13_celldata_roundtrip (t k : Nat) (pre suf : List (Nat × Nat × List Nat)) (n : Nat) (vals : List Nat)
    (hpre : ∀ b ∈ pre, b.1 ≠ t) (hsuf : ∀ b ∈ suf, b.1 ≠ t)
    (hlen : ∀ b ∈ pre, b.2.2.length = b.2.1 * k) (hv : vals.length = n * k) :
    let blocks := pre ++ (t, n, vals) :: suf
    gatherRows k (blocks.flatMap (·.2.2)) (typeIndices (blocks.flatMap fun b => List.replicate b.2.1 b.1) t) = vals :=
  gather_block t k pre suf n vals hpre hsuf hlen hv

/-- **C13 (points padded).** A point with one, two or three coordinates is written as three coordinates:
    its own, then zeros (bit pattern 0 = +0.0). -/
theorem C13_points_padded (p : List Nat) (h : p.length ≤ 3) :
    (make3d id p).length = 3 ∧ (make3d id p).take p.length = p ∧ ∀ i, p.length ≤ i → i < 3 → (make3d id p).getD i 7 = 0 := by
  match p, h with
  | [], _ => exact ⟨rfl, rfl, by intro i _ h2; match i, h2 with | 0, _ => rfl | 1, _ => rfl | 2, _ => rfl⟩
  | [a], _ => exact ⟨rfl, rfl, by intro i h1 h2; match i, h1, h2 with | 1, _, _ => rfl | 2, _, _ => rfl⟩
  | [a, b], _ => exact ⟨rfl, rfl, by intro i h1 h2; match i, h1, h2 with | 2, _, _ => rfl⟩
  | [a, b, c], _ => exact ⟨rfl, rfl, by intro i h1 h2; simp at h1; omega⟩

/-- **C13 (`np.unique` order).** The reader's list of cell types (`np.unique(types)`) is the strictly ascending
    list of the type ids that occur: any strictly ascending list with the same members is equal to it. -/
theorem C13_unique_order (types L : List Nat) (hs : L.Pairwise (· < ·)) (hm : ∀ t, t ∈ L ↔ t ∈ types) :
    uniqueTypes types = L :=
  uniqueTypes_eq types L hs hm

/-- **C13 (what must be read back: the cells).** Under `hyp`, the cell blocks of `normalise F` are exactly the
    non-empty blocks of `F` (same names, same rows in mesh order), listed in strictly ascending order of their VTK
    type ids — a statement about the spec that does not mention how it sorts. -/
theorem C13_normalise_cells (F : WFields) (h : Spec.hyp F = true) (R : RFields) (hR : Spec.normalise F = some R) :
    (∀ b, b ∈ R.cells ↔ (b ∈ F.cells ∧ b.2 ≠ [])) ∧
    (R.cells.map fun b => (cellTypeIndex b.1).getD 0).Pairwise (· < ·) :=
  normalise_cells F (facts_of_hyp F h) R hR

/-- **C13 (file-level round trip, full statement).**  For every mesh-fields value `F` inside the hypothesis
    (`Spec.hyp`: 1–3 coordinate columns, float64 points or 3-d float32 points, any number of blocks of pairwise
    distinct known cell types — empty blocks allowed, a mesh without cells allowed —, one corner count per block,
    connectivity of any registered integer dtype, any number of point fields and of cell fields of all ten numeric
    dtypes with arbitrary tails (scalar / vector / tensor …), every cell-field name present exactly once on every
    block with one dtype and tail; `Spec.sizeOk`: no array with 2^61 or more scalars)
    * the writer produces a file,
    * `normalise F` is defined, and
    * reading the written file back yields exactly `normalise F`: the padded points and their dtype, per cell type
      (ascending VTK id = `np.unique` order) the corner rows in mesh order, every point field with name / dtype /
      component count / exact bit patterns in order, every cell field with name / dtype / component count and, per
      cell type, exactly the bits written for that type's cells. -/
theorem C13_vtu_roundtrip (F : WFields) (h : Spec.hyp F = true) (hs : Spec.sizeOk F = true) :
    ∃ file R, writeVtu id F = some file ∧ Spec.normalise F = some R ∧ readVtu file = some R :=
  vtu_roundtrip F h hs

/-- the same in the form of DESIGN §7 -/
theorem C13_vtu_roundtrip_bind (F : WFields) (h : Spec.hyp F = true) (hs : Spec.sizeOk F = true) :
    (writeVtu id F).bind readVtu = Spec.normalise F ∧ (Spec.normalise F).isSome = true := by
  obtain ⟨file, R, hw, hn, hr⟩ := vtu_roundtrip F h hs
  rw [hw, hn]
  exact ⟨hr, rfl⟩

/-- **C13 (CSV, token level).** For every table with at least one column whose names and cell tokens are
    non-empty and free of the delimiter and the newline: the text written by `_write_table` is split by the
    reader into exactly the same names and the same rows of cell tokens.  (Numeric identity of the cells then
    rests on CPython's `str(float)`/`float(str)` round trip and numpy's parser — trusted, compared at run time.) -/
theorem C13_csv_roundtrip (names : List Token) (rows : List (List Token)) (h : csvHyp names rows = true) :
    csvRead (csvWrite names rows) = some (names, rows) := by
  unfold csvHyp at h
  simp only [Bool.and_eq_true, List.all_eq_true, Bool.not_eq_true', beq_iff_eq] at h
  obtain ⟨⟨hne, hnames⟩, hrows⟩ := h
  have tok_facts : ∀ t : Token, tokenOk t = true → t ≠ [] ∧ (∀ c ∈ t, c ≠ 44) ∧ (∀ c ∈ t, c ≠ 10) := by
    intro t ht
    unfold tokenOk at ht
    simp only [Bool.and_eq_true, Bool.not_eq_true', List.all_eq_true, bne_iff_ne, ne_eq] at ht
    refine ⟨?_, fun c hc => (ht.2 c hc).1, fun c hc => (ht.2 c hc).2⟩
    intro e; rw [e] at ht; simp at ht
  have names_ne : names ≠ [] := by intro e; rw [e] at hne; simp at hne
  -- all lines: header first
  let lines : List (List Token) := names :: rows
  have hline : ∀ l ∈ lines, l ≠ [] ∧ (∀ t ∈ l, tokenOk t = true) := by
    intro l hl
    rcases List.mem_cons.mp hl with e | hl'
    · subst e; exact ⟨names_ne, hnames⟩
    · have := hrows l hl'
      refine ⟨?_, this.2⟩
      intro e; rw [e] at this; simp at this
      exact names_ne (List.eq_nil_of_length_eq_zero this.symm)
  have htext : csvWrite names rows = (lines.map (joinWith 44)).flatMap fun l => l ++ [10] := by
    unfold csvWrite
    simp [lines, List.flatMap_map]
  have hfree : ∀ l ∈ lines.map (joinWith 44), ∀ c ∈ l, c ≠ 10 := by
    intro l hl
    obtain ⟨r, hr, e⟩ := List.mem_map.mp hl
    subst e
    exact joinWith_free 44 10 (by decide) r (fun t ht => (tok_facts t ((hline r hr).2 t ht)).2.2)
  have hnonempty : ∀ l ∈ lines.map (joinWith 44), l.isEmpty = false := by
    intro l hl
    obtain ⟨r, hr, e⟩ := List.mem_map.mp hl
    subst e
    have := joinWith_ne_nil 44 r (hline r hr).1 (fun t ht => (tok_facts t ((hline r hr).2 t ht)).1)
    cases hj : joinWith 44 r with
    | nil => exact absurd hj this
    | cons a b => rfl
  unfold csvRead
  rw [htext, splitOn_lines 10 _ hfree, List.filter_append]
  have hf1 : (lines.map (joinWith 44)).filter (fun l => !l.isEmpty) = lines.map (joinWith 44) := by
    rw [List.filter_eq_self]; intro l hl; simp [hnonempty l hl]
  rw [hf1]
  simp only [lines, List.map_cons, List.filter_cons, List.isEmpty_nil, Bool.not_true, Bool.false_eq_true, if_false,
    List.filter_nil, List.append_nil]
  have hsplit : ∀ r ∈ lines, splitOn 44 (joinWith 44 r) = r := by
    intro r hr
    exact splitOn_joinWith 44 r (hline r hr).1 (fun t ht => (tok_facts t ((hline r hr).2 t ht)).2.1)
  rw [hsplit names (by simp [lines])]
  have hmap : (rows.map (joinWith 44)).map (splitOn 44) = rows := by
    rw [List.map_map]
    conv => rhs; rw [← List.map_id rows]
    apply List.map_congr_left
    intro r hr
    exact hsplit r (by simp [lines, hr])
  rw [hmap]
  have hall : (rows.all fun r => r.length == names.length) = true := by
    rw [List.all_eq_true]; intro r hr; simp [(hrows r hr).1]
  rw [hall]
  rfl

/-- **C13 (CSV, the hypothesis is sharp).**  For a rectangular table with at least one column whose names and
    cell tokens are non-empty and newline-free: the text written by `_write_table` is read back as the same names
    and the same rows of tokens **if and only if** no name and no cell token contains the delimiter.  (A delimiter
    inside a token changes the number of pieces of its line: the header changes, or the row is a `ValueError`.) -/
theorem C13_csv_roundtrip_iff (names : List Token) (rows : List (List Token)) (hne : names ≠ [])
    (hrect : ∀ r ∈ rows, r.length = names.length)
    (htok : ∀ l ∈ names :: rows, ∀ t ∈ l, t ≠ [] ∧ ∀ c ∈ t, c ≠ 10) :
    csvRead (csvWrite names rows) = some (names, rows) ↔ ∀ l ∈ names :: rows, ∀ t ∈ l, ∀ c ∈ t, c ≠ 44 := by
  have hrne : ∀ r ∈ rows, r ≠ [] := by
    intro r hr e
    have := hrect r hr
    rw [e] at this
    exact hne (List.eq_nil_of_length_eq_zero this.symm)
  rw [csvRead_csvWrite_form names rows hne hrne htok]
  constructor
  · intro h
    split at h
    · simp only [Option.some.injEq, Prod.mk.injEq] at h
      intro l hl
      rcases List.mem_cons.mp hl with e | hl'
      · rw [e]; exact sep_free_of_split_join 44 names hne h.1
      · exact sep_free_of_split_join 44 l (hrne l hl')
          (map_eq_self (fun r => splitOn 44 (joinWith 44 r)) rows h.2 l hl')
    · cases h
  · intro h
    have hn : splitOn 44 (joinWith 44 names) = names := splitOn_joinWith 44 names hne (h names (by simp))
    have hr : (rows.map fun r => splitOn 44 (joinWith 44 r)) = rows := by
      conv => rhs; rw [← List.map_id rows]
      apply List.map_congr_left
      intro r hr
      exact splitOn_joinWith 44 r (hrne r hr) (h r (by simp [hr]))
    rw [hn, hr]
    have hall : (rows.all fun r => r.length == names.length) = true := by
      rw [List.all_eq_true]; intro r hr; simp [hrect r hr]
    rw [hall]
    rfl

/-- **C13 (CSV, no two tables share a text).** Inside the hypothesis of the round trip, `_write_table` is
    injective: different names or different cell tokens give different files. -/
theorem C13_csv_write_injective (names names' : List Token) (rows rows' : List (List Token))
    (h : csvHyp names rows = true) (h' : csvHyp names' rows' = true)
    (e : csvWrite names rows = csvWrite names' rows') : names = names' ∧ rows = rows' := by
  have h1 := C13_csv_roundtrip names rows h
  have h2 := C13_csv_roundtrip names' rows' h'
  rw [e, h2] at h1
  simp only [Option.some.injEq, Prod.mk.injEq] at h1
  exact ⟨h1.1.symm, h1.2.symm⟩

end Fc
