/-
  FcProofs.Props.C09_Source — C09, tie to the source text by TRANSLATION (see C04_Source.lean).
  The dispatch of `DefaultEquality.__call__` (`Fc.Gen.c09DefaultEqualityCallSrc`,
  harness/fcv/tables/pylite_c09.py) against the model's `defaultCheck` (FcModel/Predicates.lean).
-/
import FcGen.Tables
import FcModel.Predicates
import FcProofs.Lemmas.PyLite
set_option linter.unusedSimpArgs false
namespace Fc
open PyLite

/-- `DefaultEquality.__call__` dispatches exactly like the model's `defaultCheck`: the fuzzy check when
    either operand has floats, the exact check otherwise.

    The functions it calls are external to the translation; the theorem holds for EVERY meaning `X` of
    them and every presentation `va`, `vb` of the two arrays `a`, `b` that satisfies what is assumed:
    `as_array` returns an array unchanged, `has_floats` reports `dtype.hasFloats`, and the two
    predicates `FuzzyEquality.__call__(self, ·, ·)` / `ExactEquality()(·, ·)` produce (under an arbitrary
    presentation `enc` of verdicts — value or exception) the model's `fuzzyCheck` / `exactCheck`. -/
theorem C09_source_default_equality_call (X : Ext) (enc : Verdict → Res Val) (self va vb : Val)
    (rel abs : Tol) (a b : NdArr)
    (hAsA : X "as_array" [va] = .ok va) (hAsB : X "as_array" [vb] = .ok vb)
    (hFlA : X "has_floats" [va] = .ok (.bool a.dtype.hasFloats))
    (hFlB : X "has_floats" [vb] = .ok (.bool b.dtype.hasFloats))
    (hFuzzy : X "FuzzyEquality.__call__" [self, va, vb] = enc (fuzzyCheck rel abs a b))
    (hExact : X "ExactEquality()" [va, vb] = enc (exactCheck a b)) :
    Gen.c09DefaultEqualityCallSrc.run X [self, va, vb] = enc (defaultCheck rel abs a b) := by
  simp only [Gen.c09DefaultEqualityCallSrc, defaultCheck]
  cases ha : a.dtype.hasFloats <;> cases hb : b.dtype.hasFloats <;>
    pylite_eval [hAsA, hAsB, hFlA, hFlB, hFuzzy, hExact, ha, hb] <;>
    cases enc _ <;> rfl

end Fc
