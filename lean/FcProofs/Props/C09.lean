/-
  Property C09 — Integer and string data are compared exactly, whatever tolerances are set.

  Model:  `Fc.defaultCheck`, `Fc.exactCheck`  (DefaultEquality.__call__, ExactEquality._check,
          has_floats, find_first_unequal)        Spec: `Fc.Spec.exactSpec`
-/
import FcProofs.Lemmas.Shapes
namespace Fc
open Spec

/-- `ExactEquality` answers exactly the spec: shapes compatible and all entries identical -/
theorem C09_exact_is_spec (a b : NdArr) : exactCheck a b = .ok (exactSpec a b) := by
  obtain ⟨hiff, _⟩ := reshapePair_spec a.shape b.shape
  unfold exactCheck exactSpec
  cases hp : reshapePair a.shape b.shape with
  | mk s1 s2 =>
    rw [hp] at hiff
    simp only at hiff ⊢
    by_cases hc : s1 = s2
    · have := hiff.mp hc
      simp [hc, this]
    · have : shapesCompatible a.shape b.shape = false := by
        cases hh : shapesCompatible a.shape b.shape with
        | false => rfl
        | true => exact absurd (hiff.mpr hh) hc
      simp [hc, this]

/-- **C09 (exact for integers and strings, for ALL tolerances).**  If neither side holds
    floating-point values, the default predicate's verdict is "shapes match and every entry is
    identical" — whatever relative/absolute tolerances (numbers of any size, arrays, scaled,
    default) the predicate was constructed with. -/
theorem C09_int_str_exact (rel abs : Tol) (a b : NdArr)
    (ha : a.dtype.hasFloats = false) (hb : b.dtype.hasFloats = false) :
    defaultCheck rel abs a b = .ok (exactSpec a b) := by
  unfold defaultCheck
  simp only [ha, hb, Bool.false_eq_true, or_self, if_false]
  exact C09_exact_is_spec a b

/-- user-supplied tolerances never change the verdict on integer / string data -/
theorem C09_tolerance_irrelevant (rel abs rel' abs' : Tol) (a b : NdArr)
    (ha : a.dtype.hasFloats = false) (hb : b.dtype.hasFloats = false) :
    defaultCheck rel abs a b = defaultCheck rel' abs' a b := by
  rw [C09_int_str_exact rel abs a b ha hb, C09_int_str_exact rel' abs' a b ha hb]

/-- two different integers / strings are never accepted: a "true" verdict forces entrywise identity -/
theorem C09_accept_implies_identical (rel abs : Tol) (a b : NdArr)
    (ha : a.dtype.hasFloats = false) (hb : b.dtype.hasFloats = false)
    (h : defaultCheck rel abs a b = .ok true) :
    shapesCompatible a.shape b.shape = true ∧ a.data.length = b.data.length ∧
      ∀ i : Nat, a.data[i]? = b.data[i]? := by
  rw [C09_int_str_exact rel abs a b ha hb] at h
  have h' : exactSpec a b = true := by
    injection h
  unfold exactSpec at h'
  simp only [Bool.and_eq_true, beq_iff_eq] at h'
  refine ⟨h'.1, by rw [h'.2], fun i => by rw [h'.2]⟩

/-- … and identical data of compatible shape is always accepted -/
theorem C09_identical_accepted (rel abs : Tol) (a b : NdArr)
    (ha : a.dtype.hasFloats = false) (hb : b.dtype.hasFloats = false)
    (hs : shapesCompatible a.shape b.shape = true) (hd : a.data = b.data) :
    defaultCheck rel abs a b = .ok true := by
  rw [C09_int_str_exact rel abs a b ha hb]
  unfold exactSpec
  simp [hs, hd]

/-- as soon as one side holds floats the fuzzy formula is used (C01 then applies) -/
theorem C09_float_side_fuzzy (rel abs : Tol) (a b : NdArr)
    (h : a.dtype.hasFloats = true ∨ b.dtype.hasFloats = true) :
    defaultCheck rel abs a b = fuzzyCheck rel abs a b := by
  unfold defaultCheck
  simp [h]

/-- an exact comparison of floats accepts only identical values (as numbers: +0.0 = -0.0) -/
theorem C09_exact_on_floats (a b : NdArr) :
    exactCheck a b = .ok true ↔ (shapesCompatible a.shape b.shape = true ∧ a.data = b.data) := by
  rw [C09_exact_is_spec]
  unfold exactSpec
  constructor
  · intro h
    have h' : (shapesCompatible a.shape b.shape && a.data == b.data) = true := by injection h
    simpa [Bool.and_eq_true, beq_iff_eq] using h'
  · rintro ⟨h1, h2⟩
    simp [h1, h2]

end Fc
