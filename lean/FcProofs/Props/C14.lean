/-
  FcProofs.Props.C14 — diff output is reference minus source on matching entities.

  Model: FcModel/Diff.lean (`meshDiffTo`, `tableDiffTo`, `writeDiff`).  `src.diff_to(ref) = _subtract(ref, src)`.
  All theorems hold for arbitrary field lists, array sizes and values (induction over the field lists in
  FcProofs/Lemmas/DiffDict.lean); mesh equality and `sort` are parameters owned by C16/C03 and C02/C08.
-/
import FcProofs.Lemmas.DiffHyp
namespace Fc
open Fc.C14

/-- **C14 (mesh).**  For `d = src.diff_to(ref)` on comparable data sets: the call succeeds, `d` lives on the
    reference's mesh, and for every field name `n` the point field of `d` is: `ref_n − src_n` (entrywise
    rounded difference, see `C14_entrywise`) if `n` is on both sides, an all-NaN float64 array of the field's
    shape if it is on one side only, absent otherwise.  Cell fields: the same per (name, cell type) — a value
    on the cells of type `ct` is computed from the two fields *on that type* —, restricted to the cell types
    of the reference mesh. -/
theorem C14_mesh_values (src ref : MeshFields) (h : C14Hyp src ref) :
    ∃ d, meshDiffTo true src ref = some d ∧ d.mesh = ref.mesh ∧
      (∀ n, dictGet n (d.pointFields.map fun f => (f.name, f.values)) =
              specEntry (dictGet n (pointList ref)) (dictGet n (pointList src))) ∧
      (∀ f : DCellField, f ∈ d.cellFields ↔
          (f.ctype ∈ ref.mesh.cellTypes ∧
           specEntry (dictGet (f.name, f.ctype) (cellList ref)) (dictGet (f.name, f.ctype) (cellList src)) = some f.values)) := by
  obtain ⟨pe, hpe, hpn, hpl⟩ := diffEntries_spec (pointList ref) (pointList src) h.points
  obtain ⟨ce, hce, hcn, hcl⟩ := diffEntries_spec (cellList ref) (cellList src) h.cells
  have hpd : dictFromList pe = pe := dictFromList_nodup pe hpn
  have hcd : dictFromList ce = ce := dictFromList_nodup ce hcn
  -- the cell fields can be assembled
  have hnames : ∀ n ct v, dictGet (n, ct) ce = some v → n ∈ distinctKeys (ce.map (·.1.1)) := by
    intro n ct v hv
    rw [mem_distinctKeys]
    exact List.mem_map.mpr ⟨((n, ct), v), dictGet_mem hv, rfl⟩
  have hcov : ∀ n ∈ distinctKeys (ce.map (·.1.1)), ∀ ct ∈ ref.mesh.cellTypes, (dictGet (n, ct) ce).isSome = true := by
    intro n hn ct hct
    rw [mem_distinctKeys] at hn
    obtain ⟨⟨⟨n', ct'⟩, v⟩, hmem, hn'⟩ := List.mem_map.mp hn
    simp only at hn'
    subst hn'
    have hg := dictGet_of_mem_nodup hcn hmem
    have h1 : (specEntry (dictGet (n', ct') (cellList ref)) (dictGet (n', ct') (cellList src))).isSome = true := by
      rw [← hcl, hg]; rfl
    rw [specEntry_isSome h.cells] at h1
    have h2 := h.cover n' ct' (by simpa [Bool.or_eq_true] using h1) ct hct
    rw [hcl, specEntry_isSome h.cells]
    simpa [Bool.or_eq_true] using h2
  obtain ⟨cfs, hcfs, hmemc⟩ := assembleCells_spec ref.mesh.cellTypes _ ce hnames hcov
  refine ⟨⟨ref.mesh, pe.map (fun kv => ⟨kv.1, kv.2⟩), cfs⟩, ?_, rfl, ?_, ?_⟩
  · simp only [meshDiffTo, subtractMesh, Bool.not_true, Bool.false_eq_true, if_false]
    have e1 : diffEntries (ref.pointFields.map fun f => (f.name, f.values)) (src.pointFields.map fun f => (f.name, f.values)) = some pe := hpe
    have e2 : diffEntries (ref.cellFields.map fun f => ((f.name, f.ctype), f.values))
        (src.cellFields.map fun f => ((f.name, f.ctype), f.values)) = some ce := hce
    rw [e1, e2]
    simp only [hpd, hcd, hcfs]
  · intro n
    have : (pe.map (fun kv => (⟨kv.1, kv.2⟩ : DPointField))).map (fun f => (f.name, f.values)) = pe := by
      simp [Function.comp_def]
    rw [this]
    exact hpl n
  · intro f
    rw [hmemc f, hcl]

/-- **entries of a common field**: the diff array has the reference's shape, the promoted dtype, and entry
    `i` is `ref_i − src_i` computed once in the promoted type -/
theorem C14_entrywise (ref src : NdArr) (d : DArr) (h : subArr ref src = some d) :
    ∃ res, promote ref.dtype src.dtype = some res ∧ d.dtype = res ∧ d.shape = ref.shape ∧
      d.data.length = min ref.data.length src.data.length ∧
      ∀ i (h1 : i < ref.data.length) (h2 : i < src.data.length),
        d.data[i]? = some (subEntry res ref.dtype src.dtype ref.data[i] src.data[i]) :=
  subArr_spec ref src d h

/-- for two float arrays of the same format the entry is the correctly rounded exact difference:
    `rndVal F n` = `rndInt F n 0` (round to nearest even in format `F`), overflow made explicit as ±inf -/
theorem C14_float_entry (F : Fmt) (x y : Int) :
    subEntry (.flt F) (.flt F) (.flt F) x y = rndVal F (x - y) ∧
    (∀ r, rndInt F (x - y) 0 = some r → rndVal F (x - y) = .fin r) ∧
    (rndInt F (x - y) 0 = none → rndVal F (x - y) = .inf (decide (x - y < 0))) := by
  refine ⟨by simp [subEntry, convTo, subVal], ?_, ?_⟩
  · intro r h; simp [rndVal, h]
  · intro h; simp [rndVal, h]

/-- one-sided fields: all-NaN float64 of the field's own shape -/
theorem C14_one_sided_nan (a : NdArr) :
    (nanLike a).dtype = .flt f64 ∧ (nanLike a).shape = a.shape ∧ (nanLike a).data.length = a.data.length ∧
      ∀ v ∈ (nanLike a).data, v = DVal.nan := by
  refine ⟨rfl, rfl, by simp [nanLike], ?_⟩
  intro v hv
  simp [nanLike] at hv
  exact hv.2

/-- **C14 (sign), one field.**  Swapping the roles of source and reference negates every entry of a common
    float field (finite → negated, ±inf → ∓inf, NaN → NaN); one-sided fields stay NaN. -/
theorem C14_sign_field (r s : Option NdArr)
    (hboth : ∀ a1 a2, r = some a1 → s = some a2 →
      a1.shape = a2.shape ∧ stdDType a1.dtype ∧ stdDType a2.dtype ∧ ∃ F, promote a1.dtype a2.dtype = some (.flt F)) :
    specEntry s r = (specEntry r s).map DArr.neg := by
  rcases r with _ | a1 <;> rcases s with _ | a2 <;> simp [specEntry, nanLike_neg]
  obtain ⟨hs, h1, h2, F, hF⟩ := hboth a1 a2 rfl rfl
  exact subArr_swap_neg a1 a2 F hs h1 h2 hF

/-- **C14 (sign), data sets.**  Point fields of `ref.diff_to(src)` are the negated point fields of
    `src.diff_to(ref)` when the common fields have float results. -/
theorem C14_sign (src ref : MeshFields) (h : C14Hyp src ref) (h' : C14Hyp ref src)
    (hflt : ∀ n a1 a2, dictGet n (pointList ref) = some a1 → dictGet n (pointList src) = some a2 →
      stdDType a1.dtype ∧ stdDType a2.dtype ∧ ∃ F, promote a1.dtype a2.dtype = some (.flt F)) :
    ∃ d d', meshDiffTo true src ref = some d ∧ meshDiffTo true ref src = some d' ∧
      ∀ n, dictGet n (d'.pointFields.map fun f => (f.name, f.values)) =
            (dictGet n (d.pointFields.map fun f => (f.name, f.values))).map DArr.neg := by
  obtain ⟨d, hd, _, hp, _⟩ := C14_mesh_values src ref h
  obtain ⟨d', hd', _, hp', _⟩ := C14_mesh_values ref src h'
  refine ⟨d, d', hd, hd', ?_⟩
  intro n
  rw [hp n, hp' n]
  apply C14_sign_field
  intro a1 a2 e1 e2
  obtain ⟨s1, s2, F⟩ := hflt n a1 a2 e1 e2
  exact ⟨(h.points.common n a1 a2 e1 e2).1, s1, s2, F⟩

/-- `x − x = 0`: the difference of an array with itself is exactly zero everywhere -/
theorem C14_self_zero (a : NdArr) (hn : numericDType a.dtype) :
    subArr a a = some ⟨a.dtype, a.shape, List.replicate a.data.length (.fin 0)⟩ := by
  have hz : ∀ (res d : DType) (l : List Int), (res = d) → numericDType d →
      List.zipWith (subEntry res d d) l l = List.replicate l.length (.fin 0) := by
    intro res d l e hd
    subst e
    induction l with
    | nil => rfl
    | cons x xs ih =>
      simp only [List.zipWith_cons_cons, List.length_cons, List.replicate_succ, List.cons.injEq]
      refine ⟨?_, ih⟩
      cases res with
      | flt F => simp [subEntry, convTo, subVal, rndVal_zero]
      | int s b => simp [subEntry, convTo, subVal, wrapInt_zero s b hd]
      | str => exact absurd hd (by simp [numericDType])
  cases hdt : a.dtype with
  | flt F =>
    have : promote (.flt F) (.flt F) = some (.flt F) := by simp [promote, maxFmt]
    simp only [subArr, hdt, this]
    rw [hz (.flt F) (.flt F) a.data rfl (by simp [numericDType])]
  | int s b =>
    have : promote (.int s b) (.int s b) = some (.int s b) := by simp [promote]
    simp only [subArr, hdt, this]
    rw [hdt] at hn
    rw [hz (.int s b) (.int s b) a.data rfl hn]
  | str => rw [hdt] at hn; exact absurd hn (by simp [numericDType])

/-- **C14 (identical ⇒ zero).**  Named hypothesis `Canon`: after the CLI's treatment (`sort` on both sides
    when the meshes differ — canonicity of `sort` is C02's theorem) the two data sets are comparable, their
    meshes compare equal and every common point field holds *identical* numeric arrays.  Then the diff that
    `--diff` writes holds exactly zero in every common point field. -/
theorem C14_identical_zero (sortF : MeshFields → MeshFields) (meshEq : MeshFields → MeshFields → Bool)
    (noReorder : Bool) (res ref : MeshFields)
    (hEq : meshEq (writeDiffInputs sortF meshEq noReorder res ref).2 (writeDiffInputs sortF meshEq noReorder res ref).1 = true)
    (hyp : C14Hyp (writeDiffInputs sortF meshEq noReorder res ref).1 (writeDiffInputs sortF meshEq noReorder res ref).2)
    (canon : ∀ n a1 a2, dictGet n (pointList (writeDiffInputs sortF meshEq noReorder res ref).2) = some a1 →
        dictGet n (pointList (writeDiffInputs sortF meshEq noReorder res ref).1) = some a2 → a1 = a2 ∧ numericDType a1.dtype) :
    ∃ d, writeDiff sortF meshEq noReorder res ref = some d ∧
      ∀ n a1 a2, dictGet n (pointList (writeDiffInputs sortF meshEq noReorder res ref).2) = some a1 →
        dictGet n (pointList (writeDiffInputs sortF meshEq noReorder res ref).1) = some a2 →
        dictGet n (d.pointFields.map fun f => (f.name, f.values)) =
          some ⟨a1.dtype, a1.shape, List.replicate a1.data.length (.fin 0)⟩ := by
  obtain ⟨d, hd, _, hp, _⟩ := C14_mesh_values _ _ hyp
  refine ⟨d, ?_, ?_⟩
  · simp only [writeDiff, hEq]
    exact hd
  · intro n a1 a2 h1 h2
    obtain ⟨e, hnum⟩ := canon n a1 a2 h1 h2
    subst e
    rw [hp n, h1, h2]
    simp only [specEntry]
    exact C14_self_zero a1 hnum

/-- **C14 (tables).**  `d = src.diff_to(ref)` has `max(rows)` rows and one float64 column per column name of
    either side; entry `i` of column `k` is `ref_k[i] − src_k[i]` (converted to float64) on the common rows of
    a common column and NaN everywhere else — in particular on the tail when the row counts differ and in
    every one-sided column (`Spec.tableAt`). -/
theorem C14_table_values (src ref : TableFields) (h : C14TabHyp src ref) :
    ∃ t, tableDiffTo src ref = some t ∧ t.nrows = max ref.nrows src.nrows ∧
      ∀ k, dictGet k t.cols =
        if (dictGet k ref.cols).isSome || (dictGet k src.cols).isSome then
          some ⟨.flt f64, [max ref.nrows src.nrows], (List.range (max ref.nrows src.nrows)).map (Spec.tableAt ref src k)⟩
        else none := by
  obtain ⟨ha, hb, hc, hp, hs⟩ := findMatches_spec ref.cols src.cols h.nd1 h.nd2
  obtain ⟨hnn, hnm⟩ := findMatches_names ref.cols src.cols h.nd1 h.nd2
  generalize hm : findMatches (fun (a b : String × NdArr) => a.1 == b.1) ref.cols src.cols = m at ha hb hc hp hs hnn hnm
  have hndM : (keysOf (matchedKV m)).Nodup :=
    (List.nodup_append.mp ((List.Perm.nodup_iff hp).mpr h.nd1)).1
  -- matched pairs are pairs of lookups
  have hlook : ∀ p ∈ m.matched, dictGet p.1.1 ref.cols = some p.1.2 ∧ dictGet p.1.1 src.cols = some p.2.2 := by
    intro p hpm
    have hmem : (p.1.1, (p.1.2, p.2.2)) ∈ matchedKV m :=
      List.mem_map_of_mem (f := fun p : (String × NdArr) × (String × NdArr) => (p.1.1, (p.1.2, p.2.2))) hpm
    have hg := dictGet_of_mem_nodup hndM hmem
    rw [ha] at hg
    rcases h1 : dictGet p.1.1 ref.cols with _ | a1
    · rw [h1] at hg; simp at hg
    · rcases h2 : dictGet p.1.1 src.cols with _ | a2
      · rw [h1, h2] at hg; simp at hg
      · rw [h1, h2] at hg
        simp at hg
        rw [← hg.1, ← hg.2]
        exact ⟨rfl, rfl⟩
  have hprom : ∀ p ∈ m.matched, (promote p.1.2.dtype p.2.2.dtype).isSome = true := by
    intro p hpm
    obtain ⟨e1, e2⟩ := hlook p hpm
    exact h.common _ _ _ e1 e2
  obtain ⟨ds, hds, hkds, hlds⟩ := subColumns_spec (max ref.nrows src.nrows) m.matched hprom
  have hndds : (keysOf ds).Nodup := by
    rw [hkds]
    have : m.matched.map (·.1.1) = keysOf (matchedKV m) := by simp [keysOf, matchedKV]
    rw [this]; exact hndM
  let n := max ref.nrows src.nrows
  let nanCol : DArr := ⟨.flt f64, [n], List.replicate n .nan⟩
  let names := m.matched.map (·.1.1) ++ m.orphansSource.map (·.1) ++ m.orphansReference.map (·.1)
  have hinit : dictFromList (names.map fun k => (k, nanCol)) = names.map fun k => (k, nanCol) := by
    apply dictFromList_nodup
    rw [keysOf_map_const]; exact hnn
  refine ⟨⟨n, ds.foldl (fun d kv => dictInsert kv.1 kv.2 d) (names.map fun k => (k, nanCol))⟩, ?_, rfl, ?_⟩
  · simp only [tableDiffTo, subtractTable, hm, hds]
    rw [hinit]
  · intro k
    simp only
    rw [dictGet_foldl_insert k ds _ hndds, hlds k]
    have hak := ha k
    simp only [matchedKV] at hak
    rw [hak]
    have hinitk : dictGet k (names.map fun k => (k, nanCol)) = if k ∈ names then some nanCol else none := by
      by_cases hk : k ∈ names
      · rw [if_pos hk]
        apply dictGet_of_mem_nodup
        · rw [keysOf_map_const]; exact hnn
        · exact List.mem_map.mpr ⟨k, hk, rfl⟩
      · rw [if_neg hk]
        apply (dictGet_none_iff _ _).mpr
        rw [keysOf_map_const]; exact hk
    rw [hinitk]
    have hnanEq : ∀ (f : Nat → DVal), (∀ i, f i = .nan) → (List.range n).map f = List.replicate n .nan := by
      intro f hf
      apply List.ext_getElem?
      intro i
      by_cases hi : i < n <;> simp [hi, hf]
    rcases h1 : dictGet k ref.cols with _ | a1 <;> rcases h2 : dictGet k src.cols with _ | a2
    · have hk : k ∉ names := by rw [hnm k, h1, h2]; simp
      simp [hk]
    · have hk : k ∈ names := by rw [hnm k, h1, h2]; simp
      have e : (List.range n).map (Spec.tableAt ref src k) = List.replicate n .nan :=
        hnanEq _ (fun i => by simp [Spec.tableAt, h1, h2])
      simp [hk, nanCol, n, e] at e ⊢
    · have hk : k ∈ names := by rw [hnm k, h1, h2]; simp
      have e : (List.range n).map (Spec.tableAt ref src k) = List.replicate n .nan :=
        hnanEq _ (fun i => by simp [Spec.tableAt, h1, h2])
      simp [hk, nanCol, n, e] at e ⊢
    · obtain ⟨res, hres⟩ := Option.isSome_iff_exists.mp (h.common k a1 a2 h1 h2)
      have hl1 := h.len1 k a1 h1
      have hl2 := h.len2 k a2 h2
      have hsc := subColumn_spec (max ref.nrows src.nrows) a1 a2 res hres (by rw [hl1, hl2])
      have e : (List.range (max ref.nrows src.nrows)).map (Spec.tableAt ref src k) = (List.range (max ref.nrows src.nrows)).map fun i =>
          if i < a1.data.length ∧ i < a2.data.length then
            toF64 res (subEntry res a1.dtype a2.dtype (a1.data.getD i 0) (a2.data.getD i 0))
          else .nan := by
        apply List.map_congr_left
        intro i _
        simp [Spec.tableAt, h1, h2, hres, Spec.diffAt]
      simp only [Option.bind_some, Option.map_some, hsc, Option.orElse_some, Option.isSome_some, Bool.or_true, if_true]
      rw [← e]

end Fc
