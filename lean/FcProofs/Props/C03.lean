/-
  Property C03 — A passing mesh comparison implies equality up to reordering (no false PASS).
  Only property theorems live here; helper lemmas are in FcProofs/Lemmas/MeshEqual.lean.

  Model:  `Fc.C03.meshEqualWith` / `Fc.C03.meshEqual` / `Fc.C03.permutedEqual`   (FcModel/MeshEqual.lean — `mesh_equal`,
          `_without_compatibles`, `_find_compatible`, sorted corner arrays, FuzzyEquality / ExactEquality)
          `Fc.C03.ladder`                                           (FcModel/Spec/C03.lean — the retry ladder
          of `MeshFieldsComparator.__call__` over abstract transformations)
  Spec:   `Fc.C03.meshEqualSpec`, `Fc.C03.Partner`, `Fc.C03.CellsMatch`, the single-site modifications
          `Fc.C03.setCoord`, `Fc.C03.dropBlock`, …
  Table:  `Fc.Gen.C16.compatPairs` — regenerated from fieldcompare/mesh/_cell_type.py on every run; the
          facts used about it (`compatPairs_symm`, `compatPairs_functional`) are re-proved by `decide`.

  Hypothesis of all theorems: `wfEq` (decidable; evaluated by the driver on every case) — every point
  has `dim` coordinates, the type blocks have pairwise different types (a Python dict), each block is a
  rectangular array.
-/
import FcProofs.Lemmas.MeshEqual
namespace Fc
open Fc.Spec Fc.C03

/-- **C03 (model = spec).**  For all well-formed meshes and all tolerances the modelled `mesh_equal` never
    raises and answers exactly the declarative statement `meshEqualSpec`: same shape of the point arrays and
    the documented formula on every coordinate pair, type sets equal up to compatible pairs in both
    directions, and for every type the partner block has the same number of cells with cell-wise equal
    corner sets. -/
theorem C03_model_eq_spec (rel abs : Nat) (A B : Mesh) (hA : (wfEq A) = true) (hB : (wfEq B) = true) :
    meshEqualWith rel abs A B = .ok (meshEqualSpec rel abs A B) :=
  meshEqualWith_eq_spec rel abs A B hA hB

/-- **C03 (mesh_equal is sound, full strength, both directions over the type sets).**
    `mesh_equal` answers "equal" only if
    * both meshes have the same number of points and of coordinate columns,
    * every coordinate pair satisfies `|a-b| <= max(rel*max(|a|,|b|), abs)` (as evaluated in binary64),
    * every cell type of A has a partner type in B (the same type, or the compatible type — pixel~quad,
      voxel~hexahedron — where each exists on its own side only) whose block has the same number of cells,
      cell `k` of A connecting the same points as cell `k` of B (rows are permutations of each other),
    * and conversely every cell type of B has such a partner in A (no one-sided type block). -/
theorem C03_mesh_equal_sound (rel abs : Nat) (A B : Mesh) (hA : (wfEq A) = true) (hB : (wfEq B) = true)
    (h : meshEqualWith rel abs A B = .ok true) :
    (A.numPoints = B.numPoints ∧ A.dim = B.dim ∧
      ∀ i j, i < A.numPoints → j < A.dim → docFormula f64 (coord A i j) (coord B i j) rel abs = true) ∧
    (∀ c ∈ A.cellTypes, ∃ t ∈ B.cellTypes, Partner A B c t ∧ CellsMatch (A.cellsOf c) (B.cellsOf t)) ∧
    (∀ t ∈ B.cellTypes, ∃ c ∈ A.cellTypes, Partner A B c t ∧ CellsMatch (A.cellsOf c) (B.cellsOf t)) := by
  rw [meshEqualWith_eq_spec rel abs A B hA hB] at h
  exact meshEqualSpec_elim rel abs A B (by simpa using h)

/-- **C03 (… and complete): the converse of `C03_mesh_equal_sound`.**  Whenever the conditions hold the
    answer is "equal" — `mesh_equal` is exactly index-wise equality up to tolerance and corner order. -/
theorem C03_mesh_equal_complete (rel abs : Nat) (A B : Mesh) (hA : (wfEq A) = true) (hB : (wfEq B) = true)
    (hp : A.numPoints = B.numPoints ∧ A.dim = B.dim ∧
      ∀ i j, i < A.numPoints → j < A.dim → docFormula f64 (coord A i j) (coord B i j) rel abs = true)
    (hAB : ∀ c ∈ A.cellTypes, ∃ t ∈ B.cellTypes, Partner A B c t ∧ CellsMatch (A.cellsOf c) (B.cellsOf t))
    (hBA : ∀ t ∈ B.cellTypes, ∃ c ∈ A.cellTypes, Partner A B c t) :
    meshEqualWith rel abs A B = .ok true := by
  rw [meshEqualWith_eq_spec rel abs A B hA hB]
  congr 1
  unfold meshEqualSpec
  have ht : typesSpec A.cellTypes B.cellTypes = true := by
    rw [typesSpec_iff]
    constructor
    · intro c hc
      obtain ⟨t, ht, hpar, _⟩ := hAB c hc
      rcases hpar with rfl | ⟨_, h2, h3⟩
      · exact Or.inl ht
      · exact Or.inr ⟨t, ht, h2, h3⟩
    · intro t ht
      obtain ⟨c, hc, hpar⟩ := hBA t ht
      rcases hpar with rfl | ⟨h1, _, h3⟩
      · exact Or.inl hc
      · exact Or.inr ⟨c, hc, h1, h3⟩
  have hc : cellsSpec A B = true := by
    rw [cellsSpec_iff]
    intro c hc
    obtain ⟨t, htm, hpar, hm⟩ := hAB c hc
    obtain ⟨t', htt, htm', hcase⟩ := targetType_of_typesSpec _ _ ht c hc
    have : t = t' := partner_unique A B c t t' htm htm' hpar hcase
    subst this
    exact ⟨t, htt, sameCells_of_cellsMatch _ _ hm⟩
  rw [(pointsSpec_iff rel abs A B).mpr hp, ht, hc]
  rfl

/-! ### single-site modifications (corollaries): any of them forces the verdict "unequal" -/

/-- a coordinate that differs beyond the tolerance, at any point and any column -/
theorem C03_single_site_coordinate (rel abs : Nat) (A B : Mesh) (hA : (wfEq A) = true) (hB : (wfEq B) = true)
    (i j : Nat) (hi : i < A.numPoints) (hj : j < A.dim)
    (hfar : docFormula f64 (coord A i j) (coord B i j) rel abs = false) :
    meshEqualWith rel abs A B ≠ .ok true := by
  intro h
  have := (C03_mesh_equal_sound rel abs A B hA hB h).1.2.2 i j hi hj
  rw [hfar] at this
  exact Bool.noConfusion this

/-- an added or removed cell: the partner blocks differ in their number of cells -/
theorem C03_single_site_cell_count (rel abs : Nat) (A B : Mesh) (hA : (wfEq A) = true) (hB : (wfEq B) = true)
    (c t : String) (hc : c ∈ A.cellTypes) (ht : t ∈ B.cellTypes) (hpar : Partner A B c t)
    (hne : (A.cellsOf c).length ≠ (B.cellsOf t).length) :
    meshEqualWith rel abs A B ≠ .ok true := by
  intro h
  obtain ⟨t', ht', hpar', hm⟩ := (C03_mesh_equal_sound rel abs A B hA hB h).2.1 c hc
  have : t = t' := partner_unique A B c t t' ht ht' hpar hpar'
  subst this
  exact hne hm.1

/-- a rewired corner: some cell of A does not connect the same points as the cell of B at the same place -/
theorem C03_single_site_rewired (rel abs : Nat) (A B : Mesh) (hA : (wfEq A) = true) (hB : (wfEq B) = true)
    (c t : String) (hc : c ∈ A.cellTypes) (ht : t ∈ B.cellTypes) (hpar : Partner A B c t)
    (k : Nat) (hk : k < (A.cellsOf c).length)
    (hdiff : ¬ ((A.cellsOf c).getD k []).Perm ((B.cellsOf t).getD k [])) :
    meshEqualWith rel abs A B ≠ .ok true := by
  intro h
  obtain ⟨t', ht', hpar', hm⟩ := (C03_mesh_equal_sound rel abs A B hA hB h).2.1 c hc
  have : t = t' := partner_unique A B c t t' ht ht' hpar hpar'
  subst this
  exact hdiff (hm.2 k hk)

/-- a cell type that exists in the source only (no identical and no compatible one-sided type in the target) -/
theorem C03_single_site_type_block_source (rel abs : Nat) (A B : Mesh) (hA : (wfEq A) = true) (hB : (wfEq B) = true)
    (c : String) (hc : c ∈ A.cellTypes) (hnone : ∀ t ∈ B.cellTypes, ¬ Partner A B c t) :
    meshEqualWith rel abs A B ≠ .ok true := by
  intro h
  obtain ⟨t, ht, hpar, _⟩ := (C03_mesh_equal_sound rel abs A B hA hB h).2.1 c hc
  exact hnone t ht hpar

/-- … and a cell type that exists in the target only (the direction the pinned code missed, F2) -/
theorem C03_single_site_type_block_target (rel abs : Nat) (A B : Mesh) (hA : (wfEq A) = true) (hB : (wfEq B) = true)
    (t : String) (ht : t ∈ B.cellTypes) (hnone : ∀ c ∈ A.cellTypes, ¬ Partner A B c t) :
    meshEqualWith rel abs A B ≠ .ok true := by
  intro h
  obtain ⟨c, hc, hpar, _⟩ := (C03_mesh_equal_sound rel abs A B hA hB h).2.2 t ht
  exact hnone c hc hpar

/-- the modification spelled out as an operation: moving coordinate `j` of point `i` of any mesh to a value
    beyond the tolerance makes the mesh unequal to the original, in both roles -/
theorem C03_single_site_moved_point (rel abs : Nat) (A : Mesh) (hA : (wfEq A) = true) (i j : Nat) (x : Int)
    (hi : i < A.numPoints) (hj : j < A.dim) (hfar : docFormula f64 (coord A i j) x rel abs = false) :
    meshEqualWith rel abs A (setCoord A i j x) ≠ .ok true ∧
    meshEqualWith rel abs (setCoord A i j x) A ≠ .ok true := by
  have hB := wfEq_setCoord A hA i j x
  have hrow : j < (A.points.getD i []).length := by
    have hlen := wfEq_points A hA (A.points.getD i []) (by
      rw [List.getD_eq_getElem?_getD, List.getElem?_eq_getElem hi]; exact List.getElem_mem hi)
    omega
  have hx : coord (setCoord A i j x) i j = x := coord_setCoord A i j x hi hrow
  constructor
  · exact C03_single_site_coordinate rel abs A _ hA hB i j hi hj (by rw [hx]; exact hfar)
  · refine C03_single_site_coordinate rel abs _ A hB hA i j ?_ hj (by rw [hx, docFormula_symm]; exact hfar)
    unfold Mesh.numPoints at hi ⊢
    unfold setCoord
    simpa using hi

/-- … and dropping a whole type block (all triangles of a hybrid mesh missing) makes the mesh unequal to the
    original, in both roles -/
theorem C03_single_site_dropped_block (rel abs : Nat) (A : Mesh) (hA : (wfEq A) = true) (ct : String)
    (hct : ct ∈ A.cellTypes) :
    meshEqualWith rel abs A (dropBlock A ct) ≠ .ok true ∧
    meshEqualWith rel abs (dropBlock A ct) A ≠ .ok true := by
  have hB := wfEq_dropBlock A hA ct
  have hnone : ∀ t ∈ (dropBlock A ct).cellTypes, ¬ (t = ct ∨ (ct ∉ (dropBlock A ct).cellTypes ∧ t ∉ A.cellTypes ∧
      compatible ct t = true)) := by
    intro t ht hpar
    have htm := (cellTypes_dropBlock A ct t).mp ht
    rcases hpar with h | ⟨_, h2, _⟩
    · exact htm.2 h
    · exact h2 htm.1
  constructor
  · exact C03_single_site_type_block_source rel abs A _ hA hB ct hct hnone
  · refine C03_single_site_type_block_target rel abs _ A hB hA ct hct ?_
    intro c hc hpar
    have hcm := (cellTypes_dropBlock A ct c).mp hc
    rcases hpar with h | ⟨h1, _, _⟩
    · exact hcm.2 h.symm
    · exact h1 hcm.1

/-- removing any cell of any mesh makes it unequal to the original, in both roles -/
theorem C03_single_site_removed_cell (rel abs : Nat) (A : Mesh) (hA : wfEq A = true) (ct : String) (c : Nat)
    (hct : ct ∈ A.cellTypes) (hc : c < (A.cellsOf ct).length) :
    meshEqualWith rel abs (removeCell A ct c) A ≠ .ok true ∧
    meshEqualWith rel abs A (removeCell A ct c) ≠ .ok true := by
  have hB : wfEq (removeCell A ct c) = true := by
    apply wfEq_mapBlock A hA
    intro rows hu _
    exact uniform_of_width _ _ (fun r hr => hu r (List.mem_of_mem_eraseIdx hr))
  have hty : (removeCell A ct c).cellTypes = A.cellTypes := cellTypes_mapBlock A ct _
  have hcells : (removeCell A ct c).cellsOf ct = (A.cellsOf ct).eraseIdx c := cellsOf_mapBlock A ct _ hct
  have hlen : ((removeCell A ct c).cellsOf ct).length ≠ (A.cellsOf ct).length := by
    rw [hcells, List.length_eraseIdx_of_lt hc]; omega
  constructor
  · exact C03_single_site_cell_count rel abs _ A hB hA ct ct (hty ▸ hct) hct (Or.inl rfl) hlen
  · exact C03_single_site_cell_count rel abs A _ hA hB ct ct hct (hty ▸ hct) (Or.inl rfl) (fun e => hlen e.symm)

/-- adding a cell (of the block's corner count) to any mesh makes it unequal to the original, in both roles -/
theorem C03_single_site_added_cell (rel abs : Nat) (A : Mesh) (hA : wfEq A = true) (ct : String) (row : List Nat)
    (hct : ct ∈ A.cellTypes) (hrow : ∀ b ∈ A.cells, ∀ r ∈ b.2, b.1 = ct → r.length = row.length) :
    meshEqualWith rel abs (addCell A ct row) A ≠ .ok true ∧
    meshEqualWith rel abs A (addCell A ct row) ≠ .ok true := by
  have hty : (addCell A ct row).cellTypes = A.cellTypes := cellTypes_mapBlock A ct _
  have hcells : (addCell A ct row).cellsOf ct = A.cellsOf ct ++ [row] := cellsOf_mapBlock A ct _ hct
  have hlen : ((addCell A ct row).cellsOf ct).length ≠ (A.cellsOf ct).length := by
    rw [hcells]; simp
  -- well-formedness of the enlarged mesh: blocks of type `ct` get a row of the common width
  have hB : wfEq (addCell A ct row) = true := by
    rw [wfEq_iff] at hA ⊢
    obtain ⟨h1, h2, h3⟩ := hA
    refine ⟨h1, by rw [hty]; exact h2, ?_⟩
    intro b hb
    unfold addCell mapBlock at hb
    simp only at hb
    obtain ⟨b0, hb0, rfl⟩ := List.mem_map.mp hb
    split
    · rename_i hbc
      have hbc' : b0.1 = ct := by simpa using hbc
      apply uniform_of_width _ row.length
      intro r hr
      rcases List.mem_append.mp hr with hr | hr
      · exact hrow b0 hb0 r hr hbc'
      · simp only [List.mem_singleton] at hr; rw [hr]
    · exact h3 b0 hb0
  have hA' : wfEq A = true := by assumption
  constructor
  · exact C03_single_site_cell_count rel abs _ A hB hA' ct ct (hty ▸ hct) hct (Or.inl rfl) hlen
  · exact C03_single_site_cell_count rel abs A _ hA' hB ct ct hct (hty ▸ hct) (Or.inl rfl) (fun e => hlen e.symm)

/-- rewiring corner `k` of cell `c` to a point `p` such that the cell no longer connects the same points
    makes the mesh unequal to the original, in both roles -/
theorem C03_single_site_rewired_corner (rel abs : Nat) (A : Mesh) (hA : wfEq A = true) (ct : String) (c k p : Nat)
    (hct : ct ∈ A.cellTypes) (hc : c < (A.cellsOf ct).length)
    (hreal : ¬ (((A.cellsOf ct).getD c []).set k p).Perm ((A.cellsOf ct).getD c [])) :
    meshEqualWith rel abs (rewire A ct c k p) A ≠ .ok true ∧
    meshEqualWith rel abs A (rewire A ct c k p) ≠ .ok true := by
  have hB : wfEq (rewire A ct c k p) = true := by
    apply wfEq_mapBlock A hA
    intro rows hu _
    apply uniform_of_width _ ((rows.head?.map List.length).getD 0)
    intro r hr
    by_cases hcl : c < rows.length
    · rcases List.mem_or_eq_of_mem_set hr with hr | rfl
      · exact hu r hr
      · rw [List.length_set, List.getD_eq_getElem?_getD, List.getElem?_eq_getElem hcl]
        exact hu _ (List.getElem_mem hcl)
    · rw [List.set_eq_of_length_le (by omega)] at hr
      exact hu r hr
  have hty : (rewire A ct c k p).cellTypes = A.cellTypes := cellTypes_mapBlock A ct _
  have hcells : (rewire A ct c k p).cellsOf ct = (A.cellsOf ct).set c (((A.cellsOf ct).getD c []).set k p) :=
    cellsOf_mapBlock A ct _ hct
  have hrow : ((rewire A ct c k p).cellsOf ct).getD c [] = ((A.cellsOf ct).getD c []).set k p := by
    rw [hcells, List.getD_eq_getElem?_getD, List.getElem?_set_self hc]; rfl
  have hlen : ((rewire A ct c k p).cellsOf ct).length = (A.cellsOf ct).length := by rw [hcells, List.length_set]
  constructor
  · exact C03_single_site_rewired rel abs _ A hB hA ct ct (hty ▸ hct) hct (Or.inl rfl) c (hlen ▸ hc)
      (by rw [hrow]; exact hreal)
  · exact C03_single_site_rewired rel abs A _ hA hB ct ct hct (hty ▸ hct) (Or.inl rfl) c hc
      (by rw [hrow]; exact fun h => hreal h.symm)

/-! ### the retry ladder -/

/-- **C03 (ladder).**  Whatever the flags and whatever the outcome of the individual rungs, the result of
    `MeshFieldsComparator.__call__` is the result of ONE `FieldDataComparator` run on a pair `(S', R')` where
    `S'` is obtained from the source and `R'` from the reference by the ladder's transformations only:
    for every relation `Rel` that is reflexive, transitive and respected by `extend`, `permute`
    (= strip_orphan_points ∘ sort_points) and `sort_cells` — in particular "has the same geometric content
    up to relabeling / zero padding", which C08 / C17 prove of these transformations and which enters here as
    the named hypotheses `hext`, `hperm`, `hsort` — `Rel S' source` and `Rel R' reference` hold.
    Hence a passing comparison (`suite = true`) is a passing domain check plus passing field predicates on
    content-preserving relabelings of the two inputs. -/
theorem C03_ladder_sound {α : Type} (ops : LadderOps α) (fl : LadderFlags) (Rel : α → α → Prop)
    (hrefl : ∀ x, Rel x x) (htrans : ∀ x y z, Rel x y → Rel y z → Rel x z)
    (hext : ∀ d x, Rel (ops.extend d x) x)
    (hperm : ∀ x, Rel (ops.permute x) x) (hsort : ∀ x, Rel (ops.sortCells x) x) (S R : α) :
    Rel (ladder ops fl S R).src S ∧ Rel (ladder ops fl S R).ref R ∧
    ((ladder ops fl S R).domainEq, (ladder ops fl S R).suite) =
      ops.compare (ladder ops fl S R).src (ladder ops fl S R).ref :=
  ladder_inv ops fl Rel hrefl htrans hext hperm hsort S R

/-- **C03 (ladder + mesh_equal).**  Instantiation for explicit / permuted mesh views with the modelled domain
    check: if the comparison passes, then there are relabelings `S'`, `R'` of source and reference (in the
    sense of `Rel`) on which the domain check passed — so all conclusions of `C03_mesh_equal_sound` hold
    between `S'` and `R'` index by index — and on which every matched field passed its predicate.
    `tolS`/`tolR` = the tolerances the comparison used (`meshEqual`: the smaller of both; `permutedEqual`:
    the receiver's) are existentially quantified. -/
theorem C03_ladder_pass {α : Type} (ops : LadderOps α) (fl : LadderFlags) (Rel : α → α → Prop)
    (mesh : α → Mesh) (fields : α → MeshFields)
    (hrefl : ∀ x, Rel x x) (htrans : ∀ x y z, Rel x y → Rel y z → Rel x z)
    (hext : ∀ d x, Rel (ops.extend d x) x)
    (hperm : ∀ x, Rel (ops.permute x) x) (hsort : ∀ x, Rel (ops.sortCells x) x)
    (hwf : ∀ x, (wfEq (mesh x)) = true)
    (hcmp : ∀ x y, (ops.compare x y).2 = true →
      (∃ rel abs, meshEqualWith rel abs (mesh x) (mesh y) = .ok true) ∧ fieldsPass (fields x) (fields y) = true)
    (S R : α) (hpass : (ladder ops fl S R).suite = true) :
    ∃ S' R', Rel S' S ∧ Rel R' R ∧ fieldsPass (fields S') (fields R') = true ∧
      ∃ rel abs,
        ((mesh S').numPoints = (mesh R').numPoints ∧ (mesh S').dim = (mesh R').dim ∧
          ∀ i j, i < (mesh S').numPoints → j < (mesh S').dim →
            docFormula f64 (coord (mesh S') i j) (coord (mesh R') i j) rel abs = true) ∧
        (∀ c ∈ (mesh S').cellTypes, ∃ t ∈ (mesh R').cellTypes, Partner (mesh S') (mesh R') c t ∧
          CellsMatch ((mesh S').cellsOf c) ((mesh R').cellsOf t)) ∧
        (∀ t ∈ (mesh R').cellTypes, ∃ c ∈ (mesh S').cellTypes, Partner (mesh S') (mesh R') c t ∧
          CellsMatch ((mesh S').cellsOf c) ((mesh R').cellsOf t)) := by
  obtain ⟨h1, h2, h3⟩ := C03_ladder_sound ops fl Rel hrefl htrans hext hperm hsort S R
  have hs : (ops.compare (ladder ops fl S R).src (ladder ops fl S R).ref).2 = true := by
    rw [← h3]; exact hpass
  obtain ⟨⟨rel, abs, heq⟩, hf⟩ := hcmp _ _ hs
  exact ⟨_, _, h1, h2, hf, rel, abs, C03_mesh_equal_sound rel abs _ _ (hwf _) (hwf _) heq⟩

end Fc
