/-
  FcProofs.Props.C20_Orchestration — C20, phase 6 round 4: the JUnit report `_cli/_junit.py` tied to the model
  (FcModel/Junit.lean) by TRANSLATION.  Translated bodies: `Fc.Gen.c20o…Src` (harness/fcv/tables/pylite_c20_orch.py);
  presentation, assumptions and the rendering trace: FcProofs/Lemmas/PyLiteC20Orch.lean.
-/
import FcGen.Tables
import FcProofs.Lemmas.PyLiteC20Orch
set_option linter.unusedSimpArgs false
set_option linter.unusedVariables false
namespace Fc
open PyLite PyLite.C20O C04

variable {X : Ext}

/-- `_as_string_or(alternative, input)`: `str(input)` unless `input is None`. -/
theorem C20_source_as_string_or (hX : JExt X) (alt v : Val) :
    Gen.c20oAsStringOrSrc.runTr X [alt, v] = .ok (if isNone v then alt else strV v, []) := by
  simp only [Gen.c20oAsStringOrSrc]
  cases v <;> orch_eval [hX.hstr, isNone]

/-- `_set_with_message(parent, child, msg, stdout)`: ONE new child element of the given tag, with its `message` set. -/
theorem C20_source_set_with_message (hX : JExt X) (p : Val) (tag : String) (msg txt : Val) :
    Gen.c20oSetWithMessageSrc.runTr X [p, .str tag, msg, txt] = .ok (.none, [setV (elemV tag p) "message" msg]) := by
  simp only [Gen.c20oSetWithMessageSrc]
  cases txt <;> orch_eval [hX.hsub, hX.hset, elemV, isNone]

/-- **`_add_test_case(tree, test, classname)`**: one `testcase` element with name / classname / status / time, and the outcome
    children of the MODEL (`junitChildren`: failed → `failure`; error → `failure` AND `error`; skipped → `skipped`; passed → none),
    each with its message, in order. -/
theorem C20_source_add_test_case (hX : JExt X) (tree cn : Val) (t : Test) :
    Gen.c20oAddTestCaseSrc.runTr X [tree, testV t, cn] =
      .ok (.none, caseTrace tree cn ⟨t.name, junitChildren t.status⟩ t.status) := by
  have haso := fun a v x st => callRet_of_runTr (C20_source_as_string_or hX a v) x st
  have hswm := fun p tag m txt x st => callRet_of_runTr (C20_source_set_with_message hX p tag m txt) x st
  obtain ⟨n, s⟩ := t
  simp only [Gen.c20oAddTestCaseSrc, testV, tsV]
  cases s <;>
    orch_eval [haso, hswm, hX.hsub, hX.hset, hX.hstr, hX.hrepl, hX.hrcc, elemV, recordSet, TestStatus.name, TestStatus.truthy,
      caseTrace, junitChildren, Gen.cliJunitChildren, Gen.cliTestStatusFalsy, msgOf, tsV, strV, setV]

/-- … explicitly (the model's `junitChildren` is a table regenerated from the SAME source, so a changed child tag would change model
    and code alike — mutant K3 of notes/PHASE6_A4.md): the children are `childrenSpec` of the status. -/
theorem C20_source_add_test_case_explicit (hX : JExt X) (tree cn : Val) (t : Test) :
    Gen.c20oAddTestCaseSrc.runTr X [tree, testV t, cn] =
      .ok (.none, caseTrace tree cn ⟨t.name, childrenSpec t.status⟩ t.status) := by
  have haso := fun a v x st => callRet_of_runTr (C20_source_as_string_or hX a v) x st
  have hswm := fun p tag m txt x st => callRet_of_runTr (C20_source_set_with_message hX p tag m txt) x st
  obtain ⟨n, s⟩ := t
  simp only [Gen.c20oAddTestCaseSrc, testV, tsV]
  cases s <;>
    orch_eval [haso, hswm, hX.hsub, hX.hset, hX.hstr, hX.hrepl, hX.hrcc, elemV, recordSet, TestStatus.name, TestStatus.truthy,
      caseTrace, childrenSpec, Gen.cliTestStatusFalsy, msgOf, tsV, strV, setV]

/-- the whole trace that renders a `JSuite` whose cases come from the tests `ts` -/
def C20.junitTrace (tree tsv cn : Val) (j : JSuite) (ts : List Test) : List Val :=
  headerTrace tree tsv j ++ ts.flatMap fun t => caseTrace tree cn ⟨t.name, junitChildren t.status⟩ t.status

end Fc
