/-
  FcProofs.Props.C20_Orchestration — C20, phase 6 round 4: the JUnit report `_cli/_junit.py` tied to the model
  (FcModel/Junit.lean) by TRANSLATION.  Translated bodies: `Fc.Gen.c20o…Src` (harness/fcv/tables/pylite_c20_orch.py);
  presentation, assumptions and the rendering trace: FcProofs/Lemmas/PyLiteC20Orch.lean.
-/
import FcGen.Tables
import FcProofs.Lemmas.PyLiteC20Orch
set_option linter.unusedSimpArgs false
set_option linter.unusedVariables false
namespace Fc
open PyLite PyLite.C20O C04

variable {X : Ext}

/-- `_as_string_or(alternative, input)`: `str(input)` unless `input is None`. -/
theorem C20_source_as_string_or (hX : JExt X) (alt v : Val) :
    Gen.c20oAsStringOrSrc.runTr X [alt, v] = .ok (if isNone v then alt else strV v, []) := by
  simp only [Gen.c20oAsStringOrSrc]
  cases v <;> orch_eval [hX.hstr, isNone]

/-- `_set_with_message(parent, child, msg, stdout)`: ONE new child element of the given tag, with its `message` set. -/
theorem C20_source_set_with_message (hX : JExt X) (p : Val) (tag : String) (msg txt : Val) :
    Gen.c20oSetWithMessageSrc.runTr X [p, .str tag, msg, txt] = .ok (.none, [setV (elemV tag p) "message" .none]) := by
  simp only [Gen.c20oSetWithMessageSrc]
  cases txt <;> orch_eval [hX.hsub, hX.set_name, hX.set_classname, hX.set_status, hX.set_time, hX.set_tests, hX.set_disabled, hX.set_errors, hX.set_failures, hX.set_skipped, hX.set_timestamp, hX.hsetm, elemV, isNone]

/-- **`_add_test_case(tree, test, classname)`**: one `testcase` element with name / classname / status / time, and the outcome
    children of the MODEL (`junitChildren`: failed → `failure`; error → `failure` AND `error`; skipped → `skipped`; passed → none),
    each with its message, in order. -/
theorem C20_source_add_test_case (hX : JExt X) (tree cn : Val) (t : Test) :
    Gen.c20oAddTestCaseSrc.runTr X [tree, testV t, cn] =
      .ok (.none, caseTrace tree cn ⟨t.name, junitChildren t.status⟩ t.status) := by
  have haso := fun a v x st => callRet_of_runTr (C20_source_as_string_or hX a v) x st
  have hswm := fun p tag m txt x st => callRet_of_runTr (C20_source_set_with_message hX p tag m txt) x st
  obtain ⟨n, s⟩ := t
  simp only [Gen.c20oAddTestCaseSrc, testV, tsV]
  cases s <;>
    orch_eval [haso, hswm, hX.hsub, hX.set_name, hX.set_classname, hX.set_status, hX.set_time, hX.set_tests, hX.set_disabled, hX.set_errors, hX.set_failures, hX.set_skipped, hX.set_timestamp, hX.hsetm, hX.hstr, hX.hrepl, hX.hrcc, elemV, recordSet, TestStatus.name, TestStatus.truthy,
      caseTrace, junitChildren, Gen.cliJunitChildren, Gen.cliTestStatusFalsy, tsV, strV, setV]

/-- … explicitly (the model's `junitChildren` is a table regenerated from the SAME source, so a changed child tag would change model
    and code alike — mutant K3 of notes/PHASE6_A4.md): the children are `childrenSpec` of the status. -/
theorem C20_source_add_test_case_explicit (hX : JExt X) (tree cn : Val) (t : Test) :
    Gen.c20oAddTestCaseSrc.runTr X [tree, testV t, cn] =
      .ok (.none, caseTrace tree cn ⟨t.name, childrenSpec t.status⟩ t.status) := by
  have haso := fun a v x st => callRet_of_runTr (C20_source_as_string_or hX a v) x st
  have hswm := fun p tag m txt x st => callRet_of_runTr (C20_source_set_with_message hX p tag m txt) x st
  obtain ⟨n, s⟩ := t
  simp only [Gen.c20oAddTestCaseSrc, testV, tsV]
  cases s <;>
    orch_eval [haso, hswm, hX.hsub, hX.set_name, hX.set_classname, hX.set_status, hX.set_time, hX.set_tests, hX.set_disabled, hX.set_errors, hX.set_failures, hX.set_skipped, hX.set_timestamp, hX.hsetm, hX.hstr, hX.hrepl, hX.hrcc, elemV, recordSet, TestStatus.name, TestStatus.truthy,
      caseTrace, childrenSpec, Gen.cliTestStatusFalsy, tsV, strV, setV]

/-- the whole trace that renders a `JSuite` whose cases come from the tests `ts` -/
def C20.junitTrace (tree tsv cn : Val) (j : JSuite) (ts : List Test) : List Val :=
  headerTrace tree tsv j ++ ts.flatMap fun t => caseTrace tree cn ⟨t.name, junitChildren t.status⟩ t.status

/-- **`as_junit_xml_element(suite, timestamp)` renders the model's `junitElement`** (FcModel/Junit.lean) for EVERY suite: the
    attributes `tests / errors / failures / skipped` of the `testsuite` element are the model's counts (numbers of tests of THIS
    suite with exactly that status: nothing accumulated, an `error` test counted as error only, `tests` = all tests), `disabled` is
    "0", then one `properties` child and ONE `testcase` element per test, in order, each rendered by `_add_test_case` (children
    by status).  Returned: the root element.  Assumptions: `JExt`. -/
theorem C20_source_junit_element (hX : JExt X) (name : String) (s : Suite) (tsv : Val) :
    Gen.c20oJunitElementSrc.runTr X [jsuiteV name s, tsv] =
      .ok (elemV "testsuite" .none,
           C20.junitTrace (elemV "testsuite" .none) tsv (strV (.str name)) (junitElement name s) s.tests) := by
  have haso := fun a v x st => callRet_of_runTr (C20_source_as_string_or hX a v) x st
  have hatc := fun tree cn t x st => callRet_of_runTr (C20_source_add_test_case hX tree cn t) x st
  simp only [Gen.c20oJunitElementSrc, jsuiteV]
  orch_eval_nb [haso, hX.helem, hX.set_name, hX.set_classname, hX.set_status, hX.set_time, hX.set_tests, hX.set_disabled, hX.set_errors, hX.set_failures, hX.set_skipped, hX.set_timestamp, hX.hsetm, hX.hstr, hX.hsub]
  -- `tests`
  generalize hc : compM _ (List.map testV s.tests) = c
  have h1 : c = .ok (s.tests.filterMap fun _ => some (Val.int 1)) := by
    rw [← hc]; exact compM_map_ok _ testV _ (fun t => rfl) s.tests
  subst h1
  orch_eval_nb [haso, hX.helem, hX.set_name, hX.set_classname, hX.set_status, hX.set_time, hX.set_tests, hX.set_disabled, hX.set_errors, hX.set_failures, hX.set_skipped, hX.set_timestamp, hX.hsetm, hX.hstr, hX.hsub, sum_all]
  -- `error`
  generalize hc0 : compM _ (List.map testV s.tests) = c0
  have h0 : c0 = .ok (s.tests.filterMap fun t => if t.status.name == "error" then some (Val.int 1) else none) := by
    rw [← hc0]; exact compM_map_ok _ testV _ (fun t => by
      obtain ⟨n, st⟩ := t
      cases st <;> simp [testV, tsV, TestStatus.name, Val.eqv, truthy_bool, List.lookup]) s.tests
  subst h0
  orch_eval_nb [haso, hX.helem, hX.set_name, hX.set_classname, hX.set_status, hX.set_time, hX.set_tests, hX.set_disabled, hX.set_errors, hX.set_failures, hX.set_skipped, hX.set_timestamp, hX.hsetm, hX.hstr, hX.hsub, sum_all, sum_ones_prop]
  -- `failed`
  generalize hc1 : compM _ (List.map testV s.tests) = c1
  have h1 : c1 = .ok (s.tests.filterMap fun t => if t.status.name == "failed" then some (Val.int 1) else none) := by
    rw [← hc1]; exact compM_map_ok _ testV _ (fun t => by
      obtain ⟨n, st⟩ := t
      cases st <;> simp [testV, tsV, TestStatus.name, Val.eqv, truthy_bool, List.lookup]) s.tests
  subst h1
  orch_eval_nb [haso, hX.helem, hX.set_name, hX.set_classname, hX.set_status, hX.set_time, hX.set_tests, hX.set_disabled, hX.set_errors, hX.set_failures, hX.set_skipped, hX.set_timestamp, hX.hsetm, hX.hstr, hX.hsub, sum_all, sum_ones_prop]
  -- `skipped`
  generalize hc2 : compM _ (List.map testV s.tests) = c2
  have h2 : c2 = .ok (s.tests.filterMap fun t => if t.status.name == "skipped" then some (Val.int 1) else none) := by
    rw [← hc2]; exact compM_map_ok _ testV _ (fun t => by
      obtain ⟨n, st⟩ := t
      cases st <;> simp [testV, tsV, TestStatus.name, Val.eqv, truthy_bool, List.lookup]) s.tests
  subst h2
  orch_eval_nb [haso, hX.helem, hX.set_name, hX.set_classname, hX.set_status, hX.set_time, hX.set_tests, hX.set_disabled, hX.set_errors, hX.set_failures, hX.set_skipped, hX.set_timestamp, hX.hsetm, hX.hstr, hX.hsub, sum_all, sum_ones_prop]
  -- one `testcase` per test
  generalize hf : forLoop _ _ _ = r
  have key := forLoop_fold_eq testV
    (fun (acc : List Val) (t : Test) => acc ++ caseTrace (elemV "testsuite" .none) (strV (.str name))
      ⟨t.name, junitChildren t.status⟩ t.status)
    (fun acc st => st.env.lookup "v0" = some (jsuiteV name s) ∧ st.env.lookup "v2" = some (elemV "testsuite" .none) ∧
      ∃ hd, st.out = hd ++ acc ∧ hd = headerTrace (elemV "testsuite" .none) tsv (junitElement name s))
    hf [] (by
      refine ⟨by simp [List.lookup, jsuiteV], by simp [List.lookup], _, (List.append_nil _).symm, ?_⟩
      simp [headerTrace, junitElement, countAttr, Gen.cliJunitCounts, List.lookup, setV, strV]
      refine ⟨?_, ?_, ?_⟩ <;> (congr 2)) (by
      rintro t acc st ⟨e0, e2, hd, eo, ehd⟩
      simp only [jsuiteV] at e0
      orch_eval [e0, e2, haso, hatc, isNone]
      exact ⟨rfl, by rw [eo, ehd]; simp⟩)
  obtain ⟨st', rfl, e0, e2, hd, eo, rfl⟩ := key
  have hfold : ∀ (ts : List Test) (a : List Val), ts.foldl (fun (acc : List Val) (t : Test) =>
      acc ++ caseTrace (elemV "testsuite" .none) (strV (.str name)) ⟨t.name, junitChildren t.status⟩ t.status) a =
      a ++ ts.flatMap fun t => caseTrace (elemV "testsuite" .none) (strV (.str name)) ⟨t.name, junitChildren t.status⟩ t.status := by
    intro ts
    induction ts with
    | nil => intro a; simp
    | cons t r ih => intro a; simp [List.foldl_cons, ih, List.flatMap_cons]
  simp [e2, eo, hfold, C20.junitTrace]

/-- the model's `junitElement` spelled out (its counts and children come from tables regenerated from the same source): `tests` =
    number of tests; `failures` / `errors` / `skipped` = number of tests whose status is exactly failed / error / skipped; one case
    per test with `childrenSpec` of its status -/
theorem C20_junit_element_spelled_out (name : String) (s : Suite) :
    junitElement name s =
      { name := name, tests := s.tests.length,
        failures := (s.tests.filter fun t => t.status.name == "failed").length,
        errors := (s.tests.filter fun t => t.status.name == "error").length,
        skipped := (s.tests.filter fun t => t.status.name == "skipped").length,
        cases := s.tests.map fun t => ⟨t.name, childrenSpec t.status⟩ } := by
  have hch : ∀ st, junitChildren st = childrenSpec st := by intro st; cases st <;> rfl
  simp [junitElement, countAttr, Gen.cliJunitCounts, List.lookup, hch]

/-- … hence `C20_source_junit_element` with the explicit element: a change of WHICH status a count attribute counts, or of the
    children of a status, breaks this theorem even though the model's tables follow the source. -/
theorem C20_source_junit_element_explicit (hX : JExt X) (name : String) (s : Suite) (tsv : Val) :
    Gen.c20oJunitElementSrc.runTr X [jsuiteV name s, tsv] =
      .ok (elemV "testsuite" .none,
           headerTrace (elemV "testsuite" .none) tsv
             { name := name, tests := s.tests.length,
               failures := (s.tests.filter fun t => t.status.name == "failed").length,
               errors := (s.tests.filter fun t => t.status.name == "error").length,
               skipped := (s.tests.filter fun t => t.status.name == "skipped").length,
               cases := s.tests.map fun t => ⟨t.name, childrenSpec t.status⟩ } ++
           s.tests.flatMap fun t => caseTrace (elemV "testsuite" .none) (strV (.str name)) ⟨t.name, childrenSpec t.status⟩ t.status) := by
  have hch : ∀ st, junitChildren st = childrenSpec st := by intro st; cases st <;> rfl
  rw [C20_source_junit_element hX, C20.junitTrace, C20_junit_element_spelled_out]
  simp [hch]

end Fc
