/-
  Property C17 — space-dimension matching only adds zeros.
  Only property theorems live here; helper lemmas are in FcProofs/Lemmas.

  Model:  `Fc.extendSpaceDim`, `Fc.compareDimMatch`, `Fc.runComparison`, `Fc.domainEqual`,
          `Fc.pointsEqual` (FcModel/Extend.lean)
  Spec:   `Fc.Spec.paddedCopy`, `Fc.Spec.dimMatchSpec` (FcModel/Spec/C17.lean)
-/
import FcProofs.Props.C01
import FcModel.Extend
import FcModel.Spec.C17
namespace Fc
open Spec

/-- **C17 (disabled ⇒ no match).**  Two meshes of different space dimension never pass the points
    stage of `mesh_equal`: the coordinate arrays have shapes `(n, d)` and `(m, e)` with `d ≠ e`,
    which `FuzzyEquality` answers "unequal" (C01's shape rule), whatever the tolerances. -/
theorem C17_disabled (rel abs : Nat) (a b : Mesh) (h : a.dim ≠ b.dim) :
    pointsEqual rel abs a b = false := by
  unfold pointsEqual
  have hs : shapesCompatible a.pointsArr.shape b.pointsArr.shape = false := by
    cases hc : shapesCompatible a.pointsArr.shape b.pointsArr.shape with
    | false => rfl
    | true =>
      exfalso
      rcases (shapesCompatible_iff _ _).mp hc with h1 | h1 | h1
      · simp [Mesh.pointsArr] at h1; exact h h1.2
      · have := congrArg List.length h1; simp [Mesh.pointsArr] at this
      · have := congrArg List.length h1; simp [Mesh.pointsArr] at this
  rw [C01_shape_reject _ _ _ _ hs]
  decide

end Fc
