/-
  Property C17 — space-dimension matching only adds zeros.
  Only property theorems live here; helper lemmas are in FcProofs/Lemmas/C17.lean (and those of C08).

  Model:  `Fc.extendSpaceDim`, `Fc.compareDimMatch` (the rung of MeshFieldsComparator.__call__),
          `Fc.runComparison`, `Fc.domainEqual`, `Fc.pointsEqual` (FcModel/Extend.lean),
          `Fc.fuzzyCheck` (FcModel/Predicates.lean)
  Spec:   `Fc.Spec.paddedCopy`, `Fc.Spec.dimMatchSpec` (FcModel/Spec/C17.lean)

  What is a parameter here: the cell stages of `mesh_equal` (`cellsEq`, properties C03/C16), the
  reordering rungs that follow the dimension rung (`rest`, property C02), and reflexivity of
  the equality predicates on the arrays at hand (property C10) — named hypotheses below.
-/
import FcProofs.Props.C01
import FcProofs.Props.C08
import FcProofs.Lemmas.C17
import FcModel.Spec.C17
namespace Fc
open Spec

/-- **C17 (disabled ⇒ the domain check fails).**  Two meshes of different space dimension never
    pass the points stage of `mesh_equal`: the coordinate arrays have shapes `(n, d)` and `(m, e)`
    with `d ≠ e`, which `FuzzyEquality` answers "unequal" (C01's shape rule), whatever the
    tolerances, the numbers of points and the coordinates. -/
theorem C17_disabled (rel abs : Nat) (a b : Mesh) (h : a.dim ≠ b.dim) :
    pointsEqual rel abs a b = false := by
  unfold pointsEqual
  have hs : shapesCompatible a.pointsArr.shape b.pointsArr.shape = false := by
    cases hc : shapesCompatible a.pointsArr.shape b.pointsArr.shape with
    | false => rfl
    | true =>
      exfalso
      rcases (shapesCompatible_iff _ _).mp hc with h1 | h1 | h1
      · simp [Mesh.pointsArr] at h1; exact h h1.2
      · have := congrArg List.length h1; simp [Mesh.pointsArr] at this
      · have := congrArg List.length h1; simp [Mesh.pointsArr] at this
  rw [C01_shape_reject _ _ _ _ hs]
  decide

/-- **C17 (disabled ⇒ no extension, verdict left to rungs that cannot repair it).**  With
    `disable_space_dimension_matching` the comparator does not extend anything: its verdict is that
    of the reordering rungs on the ORIGINAL data sets, … -/
theorem C17_disabled_no_extension (rel abs : Nat) (cellsEq : Mesh → Mesh → Bool)
    (pred : NdArr → NdArr → Verdict) (rest : MeshFields → MeshFields → Bool) (s r : MeshFields)
    (h : s.mesh.dim ≠ r.mesh.dim) :
    compareDimMatch (runComparison (domainEqual rel abs cellsEq) pred) rest true s r = some (rest s r) := by
  unfold compareDimMatch runComparison domainEqual
  simp [C17_disabled rel abs s.mesh r.mesh h]

/-- … and every reordering rung works on `PermutedMesh` views, which keep the number of
    coordinate columns: the domain check of every later rung fails as well, so the suite fails. -/
theorem C17_disabled_permuted (rel abs : Nat) (cellsEq : Mesh → Mesh → Bool)
    (pred : NdArr → NdArr → Verdict) (s r s' r' : MeshFields)
    (pp pp' : Option (List Nat)) (cp cp' : Option CellPerms)
    (h : s.mesh.dim ≠ r.mesh.dim)
    (hs : applyPermuted pp cp s = some s') (hr : applyPermuted pp' cp' r = some r') :
    runComparison (domainEqual rel abs cellsEq) pred s' r' = (false, false) := by
  have hd : s'.mesh.dim ≠ r'.mesh.dim := by
    rw [applyPermuted_dim hs, applyPermuted_dim hr]; exact h
  unfold runComparison domainEqual
  simp [C17_disabled rel abs s'.mesh r'.mesh hd]

/-- **C17 (a data set equals its zero-padded copy, either role).**
    `g` is what `extend_space_dimension_to(sd, f)` returns for `d = dim f < sd` — by `C08_extend`
    the zero-padded copy `Spec.extendSpec sd f` (points, vector and tensor fields padded, scalars
    and cells untouched).  With matching enabled the comparator extends the lower-dimensional side
    to `max(d, sd) = sd`, leaves the other side alone, and then compares `g` with `g`: the verdict is
    PASS as soon as the equality predicates are reflexive on the arrays of `g`
    (hypotheses `hpts`, `hcells`, `hfields`: reflexivity of `FuzzyEquality` on the coordinate array —
    property C10 —, of the cell stage of `mesh_equal` — C16 —, and of the field predicate — C10). -/
theorem C17_pad_equal (rel abs : Nat) (cellsEq : Mesh → Mesh → Bool) (pred : NdArr → NdArr → Verdict)
    (rest : MeshFields → MeshFields → Bool) (f g : MeshFields) (sd : Nat)
    (hlt : f.mesh.dim < sd) (hg : extendSpaceDim sd f = some g)
    (hpts : fuzzyCheck (.num rel) (.num abs) g.mesh.pointsArr g.mesh.pointsArr = .ok true)
    (hcells : cellsEq g.mesh g.mesh = true)
    (hfields : ∀ p ∈ g.namedFields, pred p.2 p.2 = .ok true) :
    compareDimMatch (runComparison (domainEqual rel abs cellsEq) pred) rest false f g = some true ∧
    compareDimMatch (runComparison (domainEqual rel abs cellsEq) pred) rest false g f = some true := by
  have hgd : g.mesh.dim = sd := (C08_extend_mesh f g sd hg).2.1
  have hne : f.mesh.dim ≠ g.mesh.dim := by omega
  have hgg : extendSpaceDim sd g = some g := by
    unfold extendSpaceDim; simp [hgd]
  have hrun : runComparison (domainEqual rel abs cellsEq) pred g g = (true, true) := by
    unfold runComparison domainEqual pointsEqual
    simp only [hpts, hcells, beq_self_eq_true, Bool.and_self, if_true, findFieldMatches_self]
    simp only [List.all_map, Prod.mk.injEq, true_and]
    simp only [List.all_eq_true]
    intro x hx
    simp [hfields x hx]
  have hfalse1 : (runComparison (domainEqual rel abs cellsEq) pred f g).1 = false := by
    simp [runComparison, domainEqual, C17_disabled rel abs f.mesh g.mesh hne]
  have hfalse2 : (runComparison (domainEqual rel abs cellsEq) pred g f).1 = false := by
    simp [runComparison, domainEqual, C17_disabled rel abs g.mesh f.mesh (Ne.symm hne)]
  exact ⟨compareDimMatch_pad _ rest f g g sd hfalse1 hne (by omega) hg hgg hrun,
         compareDimMatch_pad _ rest g f g sd hfalse2 (Ne.symm hne) (by omega) hgg hg hrun⟩

/-- the same, phrased with the specification: `g` is the zero-padded copy `Spec.paddedCopy sd f`
    (fields whose component count fits the mesh dimension; no length-1 tensor axes) -/
theorem C17_pad_equal_spec (rel abs : Nat) (cellsEq : Mesh → Mesh → Bool) (pred : NdArr → NdArr → Verdict)
    (rest : MeshFields → MeshFields → Bool) (f g : MeshFields) (sd : Nat) (hwf : WFP f)
    (hp : ∀ pf ∈ f.pointFields, NoUnitAxis f.mesh.dim sd pf.values)
    (hc : ∀ cf ∈ f.cellFields, NoUnitAxis f.mesh.dim sd cf.values)
    (hlt : f.mesh.dim < sd) (hg : paddedCopy sd f = some g)
    (hpts : fuzzyCheck (.num rel) (.num abs) g.mesh.pointsArr g.mesh.pointsArr = .ok true)
    (hcells : cellsEq g.mesh g.mesh = true)
    (hfields : ∀ p ∈ g.namedFields, pred p.2 p.2 = .ok true) :
    compareDimMatch (runComparison (domainEqual rel abs cellsEq) pred) rest false f g = some true ∧
    compareDimMatch (runComparison (domainEqual rel abs cellsEq) pred) rest false g f = some true :=
  C17_pad_equal rel abs cellsEq pred rest f g sd hlt
    (by rw [C08_extend f hwf sd hp hc]; exact hg) hpts hcells hfields

/-- **C17 (a non-zero extra entry beyond tolerance is rejected) — scalar kernel.**
    `0` against `z`, either order: `|0 − z| ≤ max(rel·|z|, abs)` is false when `|z| > abs` and
    `rel·|z|` stays below a binary64 number `y < |z|` (for `rel = 0` take `y = 0`; for `rel ≤ 1/2`
    and even `|z|` take `y = |z|/2`, see `C17_nonzero_rejected_half`).  `z` is a binary64 number.
    The unconditional statement "for every rel < 1" of the design is FALSE in the subnormal
    range (`z` = 1 unit, `rel = 0.75`: the product rounds up to `z`; Witness file). -/
theorem C17_nonzero_rejected (z : Int) (rel abs y : Nat) (relWeak absWeak : Bool)
    (hz : rndMag f64 z.natAbs 0 = some z.natAbs)
    (hy : rndMag f64 y 0 = some y) (hprod : z.natAbs * rel ≤ y * 2 ^ UNIT)
    (hyz : y < z.natAbs) (habs : abs < z.natAbs) :
    fuzzyEq1 f64 0 z rel relWeak abs absWeak = false ∧ fuzzyEq1 f64 z 0 rel relWeak abs absWeak = false :=
  zero_vs_rejected z rel abs y relWeak absWeak hz hy hprod hyz habs

/-- relative tolerance 0 (exact up to `abs`): any `|z| > abs` is rejected -/
theorem C17_nonzero_rejected_abs (z : Int) (abs : Nat) (relWeak absWeak : Bool)
    (hz : rndMag f64 z.natAbs 0 = some z.natAbs) (habs : abs < z.natAbs) :
    fuzzyEq1 f64 0 z 0 relWeak abs absWeak = false ∧ fuzzyEq1 f64 z 0 0 relWeak abs absWeak = false :=
  zero_vs_rejected z 0 abs 0 relWeak absWeak hz (rndMag_zero f64 0) (by simp) (by omega) habs

/-- relative tolerance at most 1/2 and `|z| = 2·y` with `y` a binary64 number (every normal
    binary64 `z` above the smallest binade qualifies): rejected as soon as `|z| > abs` -/
theorem C17_nonzero_rejected_half (z : Int) (rel abs y : Nat) (relWeak absWeak : Bool)
    (hz : rndMag f64 z.natAbs 0 = some z.natAbs) (hy : rndMag f64 y 0 = some y)
    (hzy : z.natAbs = 2 * y) (hy0 : 0 < y) (hrel : 2 * rel ≤ 2 ^ UNIT) (habs : abs < z.natAbs) :
    fuzzyEq1 f64 0 z rel relWeak abs absWeak = false ∧ fuzzyEq1 f64 z 0 rel relWeak abs absWeak = false := by
  apply zero_vs_rejected z rel abs y relWeak absWeak hz hy _ (by omega) habs
  rw [hzy]
  calc 2 * y * rel = y * (2 * rel) := by ac_rfl
    _ ≤ y * 2 ^ UNIT := Nat.mul_le_mul_left y hrel

/-- **C17 (… at array level).**  Two float64 arrays of one shape (coordinate arrays after the
    extension, or a padded vector/tensor field) that contain, at some position, `0` on one side and
    a `z` beyond tolerance on the other never compare equal under `FuzzyEquality(rel, abs)`,
    in either order — so the domain check / the field comparison fails. -/
theorem C17_nonzero_rejected_array (a b : NdArr) (rel abs y : Nat) (i : Nat) (z : Int)
    (ha : a.dtype = .flt f64) (hb : b.dtype = .flt f64) (hshape : a.shape = b.shape)
    (hia : i < a.data.length) (hib : i < b.data.length)
    (h0 : a.data.getD i 0 = 0) (hzi : b.data.getD i 0 = z)
    (hz : rndMag f64 z.natAbs 0 = some z.natAbs)
    (hy : rndMag f64 y 0 = some y) (hprod : z.natAbs * rel ≤ y * 2 ^ UNIT)
    (hyz : y < z.natAbs) (habs : abs < z.natAbs) :
    fuzzyCheck (.num rel) (.num abs) a b = .ok false ∧ fuzzyCheck (.num rel) (.num abs) b a = .ok false := by
  obtain ⟨k1, k2⟩ := zero_vs_rejected z rel abs y true true hz hy hprod hyz habs
  constructor
  · unfold fuzzyCheck
    rw [hshape, reshapePair_self]
    simp only [ne_eq, not_true_eq_false, if_false]
    rw [ha, hb]
    simp only [not_true_eq_false, if_false, resolveTol]
    unfold findFuzzy
    simp only [tolShapeOk, and_self, if_true]
    refine congrArg Verdict.ok ?_
    unfold allFuzzy
    apply List.all_eq_false.mpr
    refine ⟨i, List.mem_range.mpr hia, ?_⟩
    simp only [h0, hzi, RTol.at, RTol.isWeak, k1]
    simp
  · unfold fuzzyCheck
    rw [← hshape, reshapePair_self]
    simp only [ne_eq, not_true_eq_false, if_false]
    rw [ha, hb]
    simp only [not_true_eq_false, if_false, resolveTol]
    unfold findFuzzy
    simp only [tolShapeOk, and_self, if_true]
    refine congrArg Verdict.ok ?_
    unfold allFuzzy
    apply List.all_eq_false.mpr
    refine ⟨i, List.mem_range.mpr hib, ?_⟩
    simp only [h0, hzi, RTol.at, RTol.isWeak, k2]
    simp

/-- **C17 (scalar fields are unaffected by the matching).**  The extension performed by the
    dimension rung returns every point/cell field of shape `(n,)` or `(n, 1)` unchanged. -/
theorem C17_scalar_untouched (f f' : MeshFields) (sd : Nat) (hr : extendSpaceDim sd f = some f') :
    (∀ i (h1 : i < f.pointFields.length) (h2 : i < f'.pointFields.length),
      fieldKind f.pointFields[i].values.shape = .scalar → f'.pointFields[i] = f.pointFields[i]) ∧
    (∀ i (h1 : i < f.cellFields.length) (h2 : i < f'.cellFields.length),
      fieldKind f.cellFields[i].values.shape = .scalar → f'.cellFields[i] = f.cellFields[i]) :=
  C08_extend_scalar_untouched f f' sd hr

end Fc
