/-
  Property C10, integer operands — explicit `FuzzyEquality` on two arrays of the same integer
  type (numpy's per-entry fallback: `second - first`, `abs`, `maximum` in WRAPPING integer
  arithmetic, product and comparison in binary64).

  Model: `Fc.fuzzyEqInt1`, `Fc.wrapInt`, `Fc.wrapAbs`, the `.int/.int` branch of `Fc.fuzzyCheck`
         (FcModel/Predicates.lean)
  Spec:  `Fc.Spec.intFormula`, `Fc.Spec.fuzzySpecInt`, hypothesis `Fc.Spec.intSafe`
         (FcModel/Spec/ClusterA.lean)

  What is proved
  * the exact decidable condition `intSafe` (entries are not the type minimum, their difference
    neither overflows nor is the type minimum) is EQUIVALENT to "no integer operation wraps"
    (`C10_int_safe_exact`), and under it the model is the documented formula on integers
    (`C10_int_safe_formula`, `C10_int_model_eq_spec`);
  * symmetric for every signed width and ALL operands, wrapping or not (`C10_int_symm_kernel`,
    `C10_int_symm`); reflexive and monotone on the safe range (`C10_int_refl*`, `C10_int_mono*`);
  * unsigned operands: reflexive and monotone for all values, but one argument order sees the
    true difference and the other `2^bits −` it (`C10_uint_diff_wraps` — the class of F12);
    `abs` of the signed type minimum is the type minimum (`C10_int_absmin` — the class of F13).
-/
import FcProofs.Lemmas.ClusterAInts
import FcProofs.Props.C10
namespace Fc
open Spec

/-! ### one entry pair (the kernel of the slow path) -/

/-- **C10 (signed integers, model = documented formula).**  On the safe range the slow path
    decides `float64(|b−a|) <= max(float64(max(|a|,|b|))·rel, abs)` with exact integer difference
    and maximum. -/
theorem C10_int_safe_formula (bits : Nat) (a b : Int) (rel abs : Nat) (h : intSafe bits a b = true) :
    fuzzyEqInt1 true bits a b rel abs = intFormula a b rel abs :=
  fuzzyEqInt1_safe bits a b rel abs h

/-- **C10 (the safe condition is exact).**  For two values of a signed `bits`-bit type, `intSafe`
    holds iff none of the three integer operations of the slow path wraps: `abs(second - first)`,
    `abs(first)`, `abs(second)` are the mathematical absolute values.  The classes of the known
    findings (type minimum present: F13-absmin; and the overflowing difference) are exactly its
    negation. -/
theorem C10_int_safe_exact (bits : Nat) (a b : Int) (h0 : 0 < bits)
    (ha : intInRange bits a = true) (hb : intInRange bits b = true) :
    intSafe bits a b = true ↔
      (wrapAbs true bits (wrapInt true bits (b - a)) = ((b - a).natAbs : Int) ∧
        wrapAbs true bits a = (a.natAbs : Int) ∧ wrapAbs true bits b = (b.natAbs : Int)) := by
  have hM := intHalf_pos bits
  unfold intInRange at ha hb
  simp only [Bool.and_eq_true, decide_eq_true_eq] at ha hb
  constructor
  · intro h
    obtain ⟨_, ⟨ha1, ha2⟩, ⟨hb1, hb2⟩, hd1, hd2⟩ := (intSafe_iff bits a b).mp h
    refine ⟨?_, wrapAbs_signed_id h0 _ ha1 ha2, wrapAbs_signed_id h0 _ hb1 hb2⟩
    rw [wrapInt_signed_id h0 _ (by omega) hd2, wrapAbs_signed_id h0 _ hd1 hd2]
  · rintro ⟨hd, hwa, hwb⟩
    -- an entry equal to the type minimum has a negative `abs`
    have hane : a ≠ -(intHalf bits) := by
      intro e; rw [e, wrapAbs_signed_min h0] at hwa; omega
    have hbne : b ≠ -(intHalf bits) := by
      intro e; rw [e, wrapAbs_signed_min h0] at hwb; omega
    -- the wrapped |difference| stays below 2^(bits-1), so the true one does too
    have hr : wrapAbs true bits (wrapInt true bits (b - a)) < intHalf bits := by
      unfold wrapAbs; exact (wrapInt_signed_spec h0 _).2.1
    rw [intSafe_iff]
    refine ⟨h0, ⟨by omega, ha.2⟩, ⟨by omega, hb.2⟩, by omega, by omega⟩

/-- **C10 (symmetric, signed integers, ALL operands).**  `abs(second − first)` in wrapping
    arithmetic does not depend on the argument order for a signed type — even when the
    subtraction overflows or an operand is the type minimum — hence neither does the verdict. -/
theorem C10_int_symm_kernel (bits : Nat) (h0 : 0 < bits) (a b : Int) (rel abs : Nat) :
    fuzzyEqInt1 true bits a b rel abs = fuzzyEqInt1 true bits b a rel abs := by
  unfold fuzzyEqInt1
  simp only []
  rw [wrapAbsDiff_signed_symm h0 a b, Int.max_comm]

/-- **C10 (reflexive, signed integers).**  Every value other than the type minimum of a ≤ 64-bit
    signed type compares equal to itself, for all tolerances. -/
theorem C10_int_refl_kernel (bits : Nat) (h0 : 0 < bits) (h64 : bits ≤ 64) (a : Int) (rel abs : Nat)
    (ha : intNoMin bits a = true) : fuzzyEqInt1 true bits a a rel abs = true := by
  unfold intNoMin at ha
  simp only [Bool.and_eq_true, decide_eq_true_eq] at ha
  rw [fuzzyEqInt1_safe bits a a rel abs (intSafe_refl bits a h0 ha.1 ha.2)]
  exact intFormula_refl a rel abs (intHalf_le_of_bits h64 a ha.1 ha.2)

/-- **C10 (monotone, signed integers).**  On the safe range enlarging the tolerances never turns
    a pass into a fail. -/
theorem C10_int_mono_kernel (bits : Nat) (a b : Int) {r1 r2 t1 t2 : Nat} (hr : r1 ≤ r2) (ht : t1 ≤ t2)
    (hs : intSafe bits a b = true) (h : fuzzyEqInt1 true bits a b r1 t1 = true) :
    fuzzyEqInt1 true bits a b r2 t2 = true := by
  rw [fuzzyEqInt1_safe bits a b _ _ hs] at h ⊢
  exact intFormula_mono a b hr ht h

/-! ### the classes of the known findings -/

/-- **F12, class predicate.**  Unsigned `bits`-bit operands `a < b`: in the order `(a, b)` the slow
    path sees the true difference `b − a`, in the order `(b, a)` it sees `2^bits − (b − a)`
    (`second − first` wraps) — the two orders are compared against different differences. -/
theorem C10_uint_diff_wraps (bits : Nat) (a b : Int)
    (ha : uintInRange bits a = true) (hb : uintInRange bits b = true) (hab : a < b) :
    wrapAbs false bits (wrapInt false bits (b - a)) = b - a ∧
    wrapAbs false bits (wrapInt false bits (a - b)) = 2 ^ bits - (b - a) := by
  unfold uintInRange at ha hb
  simp only [Bool.and_eq_true, decide_eq_true_eq] at ha hb
  constructor
  · rw [wrapInt_unsigned_id bits _ (by omega) (by omega)]
    unfold wrapAbs
    have : ¬ (b - a < 0) := by omega
    rw [if_neg this, wrapInt_unsigned_id bits _ (by omega) (by omega)]
  · rw [wrapInt_unsigned_negdiff bits _ (by omega) (by omega)]
    unfold wrapAbs
    have : ¬ (a - b + 2 ^ bits < 0) := by omega
    rw [if_neg this, wrapInt_unsigned_id bits _ (by omega) (by omega)]
    omega

/-- unsigned operands are nevertheless reflexive (≤ 64 bit) … -/
theorem C10_uint_refl_kernel (bits : Nat) (h64 : bits ≤ 64) (a : Int) (rel abs : Nat)
    (ha : uintInRange bits a = true) : fuzzyEqInt1 false bits a a rel abs = true := by
  unfold uintInRange at ha
  simp only [Bool.and_eq_true, decide_eq_true_eq] at ha
  have hd : wrapAbs false bits (wrapInt false bits (a - a)) = ((0 : Nat) : Int) := by
    have e : a - a = 0 := by omega
    rw [e, wrapInt_unsigned_id bits 0 (by omega) (two_pow_pos_int bits)]
    unfold wrapAbs
    simp only [Int.lt_irrefl, if_false]
    rw [wrapInt_unsigned_id bits 0 (by omega) (two_pow_pos_int bits)]; rfl
  have hm : max (wrapAbs false bits a) (wrapAbs false bits a) = ((a.natAbs : Nat) : Int) := by
    rw [Int.max_self]
    unfold wrapAbs
    have : ¬ (a < 0) := by omega
    rw [if_neg this, wrapInt_unsigned_id bits a ha.1 ha.2]; omega
  rw [fuzzyEqInt1_core false bits a a rel abs _ _ hd hm]
  unfold intCore
  have hb : a.natAbs ≤ 2 ^ 64 := by
    have e : (2 : Int) ^ bits = ((2 ^ bits : Nat) : Int) := by push_cast; rfl
    have hp : 2 ^ bits ≤ 2 ^ 64 := Nat.pow_le_pow_right (by decide) h64
    have := ha.2
    rw [e] at this
    omega
  obtain ⟨r, hr⟩ := rndMag_int64_finite _ hb
  rw [hr, Nat.zero_mul, rndMag_zero]
  simp only [intCoreOpt]
  exact leInf_zero _

/-- … and monotone in the tolerances, for all values (F12 breaks symmetry only). -/
theorem C10_uint_mono_kernel (bits : Nat) (a b : Int) {r1 r2 t1 t2 : Nat} (hr : r1 ≤ r2) (ht : t1 ≤ t2)
    (h : fuzzyEqInt1 false bits a b r1 t1 = true) : fuzzyEqInt1 false bits a b r2 t2 = true := by
  have hd0 := wrapAbs_unsigned_nonneg bits (wrapInt false bits (b - a))
  have hm0 : 0 ≤ max (wrapAbs false bits a) (wrapAbs false bits b) :=
    Int.le_trans (wrapAbs_unsigned_nonneg bits a) (Int.le_max_left _ _)
  have hd : wrapAbs false bits (wrapInt false bits (b - a)) =
      (((wrapAbs false bits (wrapInt false bits (b - a))).toNat : Nat) : Int) := by omega
  have hm : max (wrapAbs false bits a) (wrapAbs false bits b) =
      (((max (wrapAbs false bits a) (wrapAbs false bits b)).toNat : Nat) : Int) := by omega
  rw [fuzzyEqInt1_core false bits a b _ _ _ _ hd hm] at h ⊢
  exact intCore_mono _ _ hr ht h

/-- **F13, class predicate.**  numpy's `abs` of the minimum of a signed type is the (negative)
    minimum itself, so magnitudes and differences involving it are wrong. -/
theorem C10_int_absmin (bits : Nat) (h0 : 0 < bits) :
    wrapAbs true bits (-(2 ^ (bits - 1))) = -(2 ^ (bits - 1)) :=
  wrapAbs_signed_min h0

/-! ### arrays -/

/-- **C10 (signed integer arrays, model = spec).**  Two arrays of the same signed integer type
    all of whose entry pairs are safe: the modelled explicit `FuzzyEquality` is the spec —
    incompatible shapes ⇒ unequal; array-valued / dynamic tolerance ⇒ error (the model covers
    number-valued tolerances and the default, which is 0.0 for integers); otherwise the integer
    formula at every entry. -/
theorem C10_int_model_eq_spec (rel abs : Tol) (a b : NdArr) (bits : Nat)
    (ha : a.dtype = .int true bits) (hb : b.dtype = .int true bits)
    (hs : intSafeArr bits a b = true) :
    fuzzyCheck rel abs a b = verdictOfSpec (fuzzySpecInt rel abs a b) := by
  rw [fuzzyCheck_int rel abs a b true bits ha hb]
  unfold fuzzySpecInt
  unfold intSafeArr at hs
  simp only [List.all_eq_true, List.mem_range] at hs
  by_cases hc : shapesCompatible a.shape b.shape = true
  · simp only [hc, if_true, Bool.not_true, Bool.false_eq_true, if_false]
    cases intTolNum rel with
    | none => rfl
    | some r =>
      cases intTolNum abs with
      | none => rfl
      | some t =>
        simp only [verdictOfSpec]
        exact congrArg Verdict.ok
          (all_range_congr _ _ _ fun i hi => fuzzyEqInt1_safe bits _ _ r t (hs i hi))
  · have hc' : shapesCompatible a.shape b.shape = false := by
      cases hh : shapesCompatible a.shape b.shape with
      | false => rfl
      | true => exact absurd hh hc
    simp [hc', verdictOfSpec]

/-- the spec is the documented statement: compatible shapes, number-valued tolerances, and the
    integer formula at EVERY entry -/
theorem C10_int_spec_iff (rel abs : Tol) (a b : NdArr) :
    fuzzySpecInt rel abs a b = some true ↔
      shapesCompatible a.shape b.shape = true ∧
      ∃ r t, intTolNum rel = some r ∧ intTolNum abs = some t ∧
        ∀ i, i < a.data.length → intFormula (a.data.getD i 0) (b.data.getD i 0) r t = true := by
  unfold fuzzySpecInt
  cases hc : shapesCompatible a.shape b.shape with
  | false => simp
  | true =>
    simp only [Bool.not_true, Bool.false_eq_true, if_false, true_and]
    cases intTolNum rel with
    | none => simp
    | some r =>
      cases intTolNum abs with
      | none => simp
      | some t => simp [List.all_eq_true]

/-- **C10 (symmetric, signed integer arrays).**  For every signed width, ALL entries (type minimum
    and overflowing differences included) and all tolerances: the verdict does not depend on the
    argument order. -/
theorem C10_int_symm (rel abs : Tol) (a b : NdArr) (bits : Nat) (h0 : 0 < bits)
    (ha : a.dtype = .int true bits) (hb : b.dtype = .int true bits) (hwa : a.wf) (hwb : b.wf) :
    fuzzyCheck rel abs a b = fuzzyCheck rel abs b a := by
  rw [fuzzyCheck_int rel abs a b true bits ha hb, fuzzyCheck_int rel abs b a true bits hb ha,
    shapesCompatible_symm b.shape a.shape]
  by_cases hc : shapesCompatible a.shape b.shape = true
  · have hlen : a.data.length = b.data.length := by
      rw [hwa, hwb]; exact prodList_compatible hc
    simp only [hc, if_true]
    rw [← hlen]
    cases intTolNum rel with
    | none => rfl
    | some r =>
      cases intTolNum abs with
      | none => rfl
      | some t =>
        simp only
        exact congrArg Verdict.ok
          (all_range_congr _ _ _ fun i _ => C10_int_symm_kernel bits h0 _ _ r t)
  · simp only [hc, Bool.false_eq_true, if_false]

/-- **C10 (reflexive, signed integer arrays).**  ≤ 64-bit signed type, no entry is the type
    minimum, number-valued (or default) tolerances: the array equals itself. -/
theorem C10_int_refl (rel abs : Tol) (r t : Nat) (a : NdArr) (bits : Nat) (h0 : 0 < bits) (h64 : bits ≤ 64)
    (ha : a.dtype = .int true bits) (hmin : ∀ x ∈ a.data, intNoMin bits x = true)
    (hr : intTolNum rel = some r) (ht : intTolNum abs = some t) :
    fuzzyCheck rel abs a a = .ok true := by
  rw [fuzzyCheck_int rel abs a a true bits ha ha]
  have hc : shapesCompatible a.shape a.shape = true := by
    rw [shapesCompatible_iff]; exact Or.inl rfl
  simp only [hc, if_true, hr, ht]
  have hall : ((List.range a.data.length).all fun i =>
      fuzzyEqInt1 true bits (a.data.getD i 0) (a.data.getD i 0) r t) = true := by
    simp only [List.all_eq_true, List.mem_range]
    intro i hi
    exact C10_int_refl_kernel bits h0 h64 _ r t (hmin _ (getD_mem hi))
  rw [hall]

/-- **C10 (monotone, signed integer arrays).**  All entry pairs safe: enlarging number-valued
    tolerances never turns a pass into a fail. -/
theorem C10_int_mono (r1 t1 r2 t2 : Nat) (a b : NdArr) (bits : Nat)
    (ha : a.dtype = .int true bits) (hb : b.dtype = .int true bits)
    (hs : intSafeArr bits a b = true) (hr : r1 ≤ r2) (ht : t1 ≤ t2)
    (h : fuzzyCheck (.num r1) (.num t1) a b = .ok true) :
    fuzzyCheck (.num r2) (.num t2) a b = .ok true := by
  rw [fuzzyCheck_int _ _ a b true bits ha hb] at h ⊢
  unfold intSafeArr at hs
  simp only [List.all_eq_true, List.mem_range] at hs
  by_cases hc : shapesCompatible a.shape b.shape = true
  · simp only [hc, if_true, intTolNum] at h ⊢
    have h' : ((List.range a.data.length).all fun i =>
        fuzzyEqInt1 true bits (a.data.getD i 0) (b.data.getD i 0) r1 t1) = true := by
      injection h
    have hall : ((List.range a.data.length).all fun i =>
        fuzzyEqInt1 true bits (a.data.getD i 0) (b.data.getD i 0) r2 t2) = true := by
      simp only [List.all_eq_true, List.mem_range] at h' ⊢
      intro i hi
      exact C10_int_mono_kernel bits _ _ hr ht (hs i hi) (h' i hi)
    rw [hall]
  · simp only [hc, Bool.false_eq_true, if_false] at h
    injection h with h; exact absurd h (by decide)

end Fc
