/-
  FcProofs.Props.C11_Source — C11, tie to the source text by TRANSLATION (see C04_Source.lean).
  Translated bodies: `Fc.Gen.c11…Src` (harness/fcv/tables/pylite_c11.py); model: FcModel/Compare.lean;
  embedding of model values: FcProofs/Lemmas/PyLiteC11.lean.
-/
import FcGen.Tables
import FcProofs.Lemmas.PyLiteC11
import FcProofs.Lemmas.PyLiteC11Matching
set_option linter.unusedSimpArgs false
namespace Fc
open PyLite PyLite.C11

/-- `FieldComparisonStatus.__bool__` is the model's `FStatus.truthy`. -/
theorem C11_source_fc_status_bool (s : FStatus) :
    Gen.c11FcStatusBoolSrc.run noExt [fstVal s] = .ok (.bool s.truthy) := by
  cases s <;> rfl

/-- … explicitly (the model's falsy list is a table regenerated from the same source): a field
    comparison status is false exactly for `failed` and `error`. -/
theorem C11_source_fc_status_bool_explicit (s : FStatus) :
    Gen.c11FcStatusBoolSrc.run noExt [fstVal s] = .ok (.bool (decide (s ≠ .failed ∧ s ≠ .error))) := by
  cases s <;> rfl

/-- `FieldComparisonSuite.__bool__` is the model's `Suite.bool`: false when the domain check failed,
    otherwise "no failed comparison". -/
theorem C11_source_fc_suite_bool (s : Suite) :
    Gen.c11FcSuiteBoolSrc.run noExt [suiteVal s] = .ok (.bool s.bool) := by
  obtain ⟨d, p, f, k⟩ := s
  cases d
  · rfl
  · simp only [Gen.c11FcSuiteBoolSrc, suiteVal, predResultVal, Suite.bool]
    pylite_eval
    cases f <;> simp <;> omega

/-- the property `FieldComparisonSuite.status` is `passed` exactly when the model's `Suite.bool` holds. -/
theorem C11_source_fc_suite_status (s : Suite) :
    Gen.c11FcSuiteStatusSrc.run noExt [suiteVal s]
      = .ok (.enum "Status" (if s.bool then "passed" else "failed")) := by
  obtain ⟨d, p, f, k⟩ := s
  cases d
  · rfl
  · cases f <;> simp only [Gen.c11FcSuiteStatusSrc, suiteVal, predResultVal, Suite.bool] <;> pylite_eval

/-! ### `_matching.find_matches` (added in phase 4: `Fc.Gen.c11FindMatchesSrc`, harness/fcv/tables/pylite_c11_matching.py)

The nested helper `_find_and_add` (a loop over the live `orphans_target` with `matches.append`,
`orphans_target.remove(t)` and `return True`) is inlined by the translator where the comprehension
`[s for s in source if not _find_and_add(s)]` calls it; the comprehension is the loop it abbreviates. -/

open PyLite.C11M in
/-- `find_matches(source, reference, eq_predicate)` is the model's `findMatches` (FcModel/Matching.lean) for
    EVERY predicate and all lists: each source element takes the first remaining reference element it matches,
    `remove` takes out exactly that occurrence, unmatched source elements are collected in order, the
    remaining reference elements are the reference orphans; the three lists go into the `MatchResult` in the
    order (matches, orphans_in_source, orphans_in_reference).
    Assumptions (stated, not derived): `eq_predicate(s, t)` returns the Boolean `eq s t` (`hcall`; `fv` is the
    callable passed as third argument); the reference elements are values whose Python `==` is equality
    (`hemb` — `list.remove` compares with `==`); `MatchResult(a, b, c)` builds the record (`hres`). -/
theorem C11_source_find_matches {α β : Type} [DecidableEq β] (embS : α → Val) (embR : β → Val)
    (hemb : ∀ a b, Val.eqv (embR a) (embR b) = some (decide (a = b)))
    (X : Ext) (fv : Val) (eq : α → β → Bool)
    (hcall : ∀ a b, X "call" [fv, embS a, embR b] = .ok (.bool (eq a b)))
    (hres : ∀ m o r, X "MatchResult" [m, o, r] = .ok (matchResultVal m o r))
    (src : List α) (ref : List β) :
    Gen.c11FindMatchesSrc.run X [.list (src.map embS), .list (ref.map embR), fv] =
      .ok (matchResultVal (.list ((findMatches eq src ref).pairs.map (pairV embS embR)))
            (.list ((findMatches eq src ref).orphansSrc.map embS))
            (.list ((findMatches eq src ref).orphansRef.map embR))) := by
  simp only [Gen.c11FindMatchesSrc]
  pylite_eval
  generalize hf : forLoop _ _ _ = r
  have key := forLoop_fold_eq embS (step eq)
    (fun acc st => st.env.lookup "v2" = some fv ∧ st.env.lookup "v3" = some (.list (acc.1.map (pairV embS embR))) ∧
      st.env.lookup "v4" = some (.list (acc.2.2.map embR)) ∧ st.env.lookup "v5" = some (.list (acc.2.1.map embS)))
    hf ([], [], ref) (by simp [List.lookup]) (by
      rintro s ⟨M, O, R⟩ st ⟨e2, e3, e4, e5⟩
      simp [e2, e3, e4, e5, List.lookup]
      generalize hg : forLoop _ _ _ = r2
      have inner := forLoop_find_eq embR (eq s)
        (fun st => st.env.lookup "v2" = some fv ∧ st.env.lookup "v3" = some (.list (M.map (pairV embS embR))) ∧
          st.env.lookup "v4" = some (.list (R.map embR)) ∧ st.env.lookup "v5" = some (.list (O.map embS)) ∧
          st.env.lookup "v6" = some (embS s) ∧ st.env.lookup "v7" = some (embS s))
        (fun t v st => v = .bool true ∧ st.env.lookup "v2" = some fv ∧
          st.env.lookup "v3" = some (.list ((M ++ [(s, t)]).map (pairV embS embR))) ∧
          st.env.lookup "v4" = some (.list ((R.erase t).map embR)) ∧ st.env.lookup "v5" = some (.list (O.map embS)) ∧
          st.env.lookup "v6" = some (embS s))
        hg (by simp [List.lookup, e2, e3, e4, e5]) (by
          intro t ht st ⟨i2, i3, i4, i5, i6, i7⟩
          constructor <;> intro hp
          · simp [i2, i3, i4, i5, i6, i7, List.lookup, hcall, hp, removeFirst_map embR hemb, ht, pairV]
            refine ⟨_, _, ⟨rfl, rfl⟩, rfl, ?_⟩
            simp [List.lookup, i2, i5, i6]
          · simp [i2, i3, i4, i5, i6, i7, List.lookup, hcall, hp])
      cases hfind : R.find? (eq s) with
      | none =>
        rw [hfind] at inner
        obtain ⟨st2, rfl, i2, i3, i4, i5, i6, i7⟩ := inner
        simp [step, hfind, i2, i3, i4, i5, i6, i7, List.lookup]
      | some t =>
        rw [hfind] at inner
        obtain ⟨v, st2, rfl, rfl, i2, i3, i4, i5, i6⟩ := inner
        simp [step, hfind, i2, i3, i4, i5, i6, List.lookup])
  obtain ⟨st', rfl, e2, e3, e4, e5⟩ := key
  simp [foldl_step, hres, e2, e3, e4, e5]

end Fc
