/-
  FcProofs.Props.C11_Source — C11, tie to the source text by TRANSLATION (see C04_Source.lean).
  Translated bodies: `Fc.Gen.c11…Src` (harness/fcv/tables/pylite_c11.py); model: FcModel/Compare.lean;
  embedding of model values: FcProofs/Lemmas/PyLiteC11.lean.
-/
import FcGen.Tables
import FcProofs.Lemmas.PyLiteC11
namespace Fc
open PyLite PyLite.C11

/-- `FieldComparisonStatus.__bool__` is the model's `FStatus.truthy`. -/
theorem C11_source_fc_status_bool (s : FStatus) :
    Gen.c11FcStatusBoolSrc.run noExt [fstVal s] = .ok (.bool s.truthy) := by
  cases s <;> rfl

/-- … explicitly (the model's falsy list is a table regenerated from the same source): a field
    comparison status is false exactly for `failed` and `error`. -/
theorem C11_source_fc_status_bool_explicit (s : FStatus) :
    Gen.c11FcStatusBoolSrc.run noExt [fstVal s] = .ok (.bool (decide (s ≠ .failed ∧ s ≠ .error))) := by
  cases s <;> rfl

/-- `FieldComparisonSuite.__bool__` is the model's `Suite.bool`: false when the domain check failed,
    otherwise "no failed comparison". -/
theorem C11_source_fc_suite_bool (s : Suite) :
    Gen.c11FcSuiteBoolSrc.run noExt [suiteVal s] = .ok (.bool s.bool) := by
  obtain ⟨d, p, f, k⟩ := s
  cases d
  · rfl
  · simp only [Gen.c11FcSuiteBoolSrc, suiteVal, predResultVal, Suite.bool]
    pylite_eval
    cases f <;> simp <;> omega

/-- the property `FieldComparisonSuite.status` is `passed` exactly when the model's `Suite.bool` holds. -/
theorem C11_source_fc_suite_status (s : Suite) :
    Gen.c11FcSuiteStatusSrc.run noExt [suiteVal s]
      = .ok (.enum "Status" (if s.bool then "passed" else "failed")) := by
  obtain ⟨d, p, f, k⟩ := s
  cases d
  · rfl
  · cases f <;> simp only [Gen.c11FcSuiteStatusSrc, suiteVal, predResultVal, Suite.bool] <;> pylite_eval

end Fc
