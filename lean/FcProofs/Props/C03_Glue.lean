/-
  Property C03, glue part — `C03_ladder_sound` / `C03_ladder_pass` with the named hypotheses
  "the transformations are content-preserving" (`hrefl`, `htrans`, `hext`, `hperm`, `hsort`, and
  `hwf` of the pass theorem) DISCHARGED by what C08 proves about the concrete transformations.

  Model:  `Fc.C03.ladder` (control flow of `MeshFieldsComparator.__call__`, FcModel/Spec/C03.lean)
          run over `Fc.Glue.ladderOps L cmp` (FcModel/GlueLadder.lean): rungs are
          `Option MeshFields` (`none` = a transformation raised), `extend` = `Fc.extendSpaceDim`,
          `permute` = `strip_orphan_points` (unless disabled) then `sort_points`, `sortCells` =
          `Fc.sortCells` — all of them C08's models over `Fc.applyPermuted`.
  Parameters (quantified): `L.sort : SortParams` with `SortParamsOk` — ANY argsort of the orphan
          mask, ANY point sorter returning permutations, ANY hash, ANY argsort of the hashes;
          `L.stripOrphans`; both control-flow flags; `cmp` (sound theorem) / the tolerances (pass theorem).
  Used:   `C03_ladder_sound`, `C03_mesh_equal_sound` (C03); `C08_reordering` (= `C08_strip`,
          `C08_sort_points`, `C08_sort_cells`), `C08_extend_content`, `C08_extend_mesh` (C08);
          new: `Glue.extend_WFP` (well-formedness of the extension's result).
-/
import FcProofs.Props.C03
import FcProofs.Lemmas.GlueLadderEq
namespace Fc
open Fc.Spec Fc.C03

/-- **C03 (ladder, end to end).**  For well-formed inputs `S`, `R`, all flags, every admissible
    choice of the unspecified library routines and whatever the outcome of the individual rungs:
    the comparator's answer is that of ONE `FieldDataComparator` run on the final rungs, and each
    final rung that exists (no transformation raised) is *derived* from its input (`Glue.Derived`):
    well-formed, with the same connected points and the same cells — as multisets of coordinate
    tuples / of (type, corner coordinate tuples) — up to `k` appended zero coordinates
    (`dim = dim_input + k`), and, when nothing was padded (`k = 0`: equal dimensions or matching
    disabled), with the same FULL geometric content including every field value (`SameContent`).
    No hypothesis about the transformations is left: `hext`, `hperm`, `hsort` of
    `C03_ladder_sound` are consequences of C08. -/
theorem C03_ladder_sound_full (L : Glue.LadderParams) (hP : SortParamsOk L.sort)
    (cmp : MeshFields → MeshFields → Bool × Bool) (fl : LadderFlags) (S R : MeshFields)
    (hS : WFP S) (hR : WFP R) :
    ((ladder (Glue.ladderOps L cmp) fl (some S) (some R)).domainEq,
     (ladder (Glue.ladderOps L cmp) fl (some S) (some R)).suite) =
      (Glue.ladderOps L cmp).compare (ladder (Glue.ladderOps L cmp) fl (some S) (some R)).src
        (ladder (Glue.ladderOps L cmp) fl (some S) (some R)).ref ∧
    (∀ S', (ladder (Glue.ladderOps L cmp) fl (some S) (some R)).src = some S' → Glue.Derived S S') ∧
    (∀ R', (ladder (Glue.ladderOps L cmp) fl (some S) (some R)).ref = some R' → Glue.Derived R R') := by
  obtain ⟨h1, h2, h3⟩ := C03_ladder_sound (Glue.ladderOps L cmp) fl (Glue.Produced L.sort)
    (Glue.produced_refl L.sort) (Glue.produced_trans L.sort)
    (Glue.produced_extend L cmp) (Glue.produced_permute L cmp) (Glue.produced_sortCells L cmp)
    (some S) (some R)
  refine ⟨h3, ?_, ?_⟩
  · intro S' e; rw [e] at h1; exact Glue.produced_derived L.sort hP S S' hS h1
  · intro R' e; rw [e] at h2; exact Glue.produced_derived L.sort hP R R' hR h2

/-- a passing comparison never comes from a rung that raised: `suite = true` ⇒ both final rungs
    exist and `cmp` accepted them -/
theorem C03_ladder_pass_rungs (L : Glue.LadderParams) (hP : SortParamsOk L.sort)
    (cmp : MeshFields → MeshFields → Bool × Bool) (fl : LadderFlags) (S R : MeshFields)
    (hS : WFP S) (hR : WFP R)
    (hpass : (ladder (Glue.ladderOps L cmp) fl (some S) (some R)).suite = true) :
    ∃ S' R', (ladder (Glue.ladderOps L cmp) fl (some S) (some R)).src = some S' ∧
      (ladder (Glue.ladderOps L cmp) fl (some S) (some R)).ref = some R' ∧
      (cmp S' R').2 = true ∧ Glue.Derived S S' ∧ Glue.Derived R R' := by
  obtain ⟨h1, h2, h3⟩ := C03_ladder_sound_full L hP cmp fl S R hS hR
  cases hs : (ladder (Glue.ladderOps L cmp) fl (some S) (some R)).src with
  | none =>
    rw [hs] at h1
    have : (ladder (Glue.ladderOps L cmp) fl (some S) (some R)).suite = false := by
      have := congrArg Prod.snd h1
      simpa [Glue.ladderOps] using this
    rw [this] at hpass; cases hpass
  | some S' =>
    cases hr : (ladder (Glue.ladderOps L cmp) fl (some S) (some R)).ref with
    | none =>
      rw [hs, hr] at h1
      have : (ladder (Glue.ladderOps L cmp) fl (some S) (some R)).suite = false := by
        have := congrArg Prod.snd h1
        simpa [Glue.ladderOps] using this
      rw [this] at hpass; cases hpass
    | some R' =>
      rw [hs, hr] at h1
      refine ⟨S', R', rfl, rfl, ?_, h2 S' hs, h3 R' hr⟩
      have := congrArg Prod.snd h1
      simp only [Glue.ladderOps] at this
      rw [← this]; exact hpass

/-- **C03 (no false PASS, ladder + `mesh_equal` + fields, end to end).**
    Inputs: well-formed data sets whose type blocks are rectangular arrays (`wfEq`).  One
    `FieldDataComparator` run = `Glue.compareTol tol`: C03's `mesh_equal` model with tolerances
    `tol a b` (any function of the two rungs — covers "smaller of both" on explicit meshes and
    "the receiver's" on `PermutedMesh` views) and `DefaultEquality()` on the matched fields.
    If the comparator passes, there are rungs `S'`, `R'` derived from source and reference
    (`Glue.Derived`: relabelled, possibly zero-padded, nothing lost) such that all matched fields of
    `S'`, `R'` pass `DefaultEquality()` and ALL conclusions of `C03_mesh_equal_sound` hold between
    `S'` and `R'` index by index: same number of points and columns, every coordinate pair within
    the documented tolerance formula, every type of either side has a partner on the other with
    cell-wise permutation-equal corner rows. -/
theorem C03_ladder_pass_full (L : Glue.LadderParams) (hP : SortParamsOk L.sort)
    (tol : MeshFields → MeshFields → Nat × Nat) (fl : LadderFlags) (S R : MeshFields)
    (hS : WFP S) (hR : WFP R) (hSe : wfEq S.mesh = true) (hRe : wfEq R.mesh = true)
    (hpass : (ladder (Glue.ladderOps L (Glue.compareTol tol)) fl (some S) (some R)).suite = true) :
    ∃ S' R', Glue.Derived S S' ∧ Glue.Derived R R' ∧ fieldsPass S' R' = true ∧
      ∃ rel abs,
        (S'.mesh.numPoints = R'.mesh.numPoints ∧ S'.mesh.dim = R'.mesh.dim ∧
          ∀ i j, i < S'.mesh.numPoints → j < S'.mesh.dim →
            docFormula f64 (coord S'.mesh i j) (coord R'.mesh i j) rel abs = true) ∧
        (∀ c ∈ S'.mesh.cellTypes, ∃ t ∈ R'.mesh.cellTypes, Partner S'.mesh R'.mesh c t ∧
          CellsMatch (S'.mesh.cellsOf c) (R'.mesh.cellsOf t)) ∧
        (∀ t ∈ R'.mesh.cellTypes, ∃ c ∈ S'.mesh.cellTypes, Partner S'.mesh R'.mesh c t ∧
          CellsMatch (S'.mesh.cellsOf c) (R'.mesh.cellsOf t)) := by
  obtain ⟨S', R', _, _, hc, dS, dR⟩ := C03_ladder_pass_rungs L hP (Glue.compareTol tol) fl S R hS hR hpass
  obtain ⟨wS, kS, pS⟩ := dS
  obtain ⟨wR, kR, pR⟩ := dR
  have eS := Glue.wfEq_of_padContent pS wS hSe
  have eR := Glue.wfEq_of_padContent pR wR hRe
  simp only [Glue.compareTol, Bool.and_eq_true, beq_iff_eq] at hc
  exact ⟨S', R', ⟨wS, kS, pS⟩, ⟨wR, kR, pR⟩, hc.2, (tol S' R').1, (tol S' R').2,
    C03_mesh_equal_sound _ _ _ _ eS eR hc.1⟩

end Fc
