/-
  FcProofs.Props.C02_Orchestration — C02 (and, re-exported, C03 / C17 / C19), phase 6 round 2: the RETRY LADDER
  `MeshFieldsComparator.__call__` tied to the model by TRANSLATION.  Translated body: `Fc.Gen.c02oLadderCallSrc`
  (harness/fcv/tables/pylite_c02_orch.py); abstract ladder, presentation and assumptions: FcProofs/Lemmas/PyLiteC02Orch.lean;
  concrete model: FcModel/Ladder.lean.
-/
import FcGen.Tables
import FcProofs.Lemmas.PyLiteC02Orch
set_option linter.unusedSimpArgs false
set_option linter.unusedVariables false
namespace Fc
open PyLite PyLite.C11O PyLite.C02O C02

/-- what the theorem says the call leaves behind -/
def C02.ladderObs {σ R : Type} (ops : Ops σ R) (P : Pres σ R) (fl : LadderFlags) : LRes σ R → Res (Val × List Val × Val)
  | .done _ o s r tr => .ok (suiteV ops P o, tr.map (msgV P), selfV ops P fl s r)
  | .raised e => .raise e

/-- evaluation of one path of the ladder: the interpreter's equations, the presentation, the model's definitions and
    every hypothesis in scope (the assumptions about the externals and the decisions of the case analysis) -/
macro "lad_eval" : tactic =>
  `(tactic| simp [*, Fn.run, Fn.flow, initEnv, execBlock, exec, eval, evalList, withVal, withBool, bindAll,
      St.set, Res.bind, Res.map, getAttr, binop, cmpop, ordOp, Val.eqv, Val.eqv.eqvList, truthy_int, truthy_bool,
      truthy_str, truthy_none, truthy_list, truthy_record, Val.asInt, isNone, builtin, indexOf, List.lookup, obsFlow,
      recordSet, excR, int_max_cast, int_max_cast', int_beq_cast, ladderAbs, reorder, permute, finish, ladderObs, msgV,
      selfV, sideV, domV, suiteV])

/-- the case tree of the two reordering rungs: every decision of the model (`ops.strip`, `ops.sortPoints` on both sides,
    the verdict, `ops.sortCells` on both sides, the verdict) is fixed BEFORE the body is evaluated, so that every path is
    one run of `lad_eval` -/
macro "sort_tree" ops:ident s:ident r:ident no:ident : tactic =>
  `(tactic| (
    cases $no:ident
    · cases hA : Ops.strip $ops $s with
      | error e => lad_eval
      | ok sa =>
        cases hB : Ops.sortPoints $ops sa with
        | error e => lad_eval
        | ok s2 =>
          cases hC : Ops.strip $ops $r with
          | error e => lad_eval
          | ok ra =>
            cases hD : Ops.sortPoints $ops ra with
            | error e => lad_eval
            | ok r2 =>
              cases h2 : Ops.ok $ops (Ops.run $ops s2 r2) with
              | true => lad_eval
              | false =>
                cases hE : Ops.sortCells $ops s2 with
                | error e => lad_eval
                | ok s3 =>
                  cases hF : Ops.sortCells $ops r2 with
                  | error e => lad_eval
                  | ok r3 => cases h3 : Ops.ok $ops (Ops.run $ops s3 r3) <;> lad_eval
    · cases hB : Ops.sortPoints $ops $s with
      | error e => lad_eval
      | ok s2 =>
        cases hD : Ops.sortPoints $ops $r with
        | error e => lad_eval
        | ok r2 =>
          cases h2 : Ops.ok $ops (Ops.run $ops s2 r2) with
          | true => lad_eval
          | false =>
            cases hE : Ops.sortCells $ops s2 with
            | error e => lad_eval
            | ok s3 =>
              cases hF : Ops.sortCells $ops r2 with
              | error e => lad_eval
              | ok r3 => cases h3 : Ops.ok $ops (Ops.run $ops s3 r3) <;> lad_eval))

set_option maxHeartbeats 1600000 in
/-- the part of the body after the dimension-matching block (the structured skip / the two reordering rungs / the final
    message / `return suite`), run in ANY state in which `self`, the two callables, the reordering callback and the last
    suite are what the model's state says: it is the model's `reorder`. -/
theorem C02_ladder_tail {σ R : Type} {X : Ext} {ops : Ops σ R} {P : Pres σ R} {fl : LadderFlags}
    {selV cbV rcbV smV : Val} (hX : LadderExt X ops P fl selV cbV rcbV smV) (s r : σ) (rung : Nat) (last : R)
    (tr : List (Msg R)) (st : St)
    (e0 : st.env.lookup "v0" = some (selfV ops P fl s r)) (e1 : st.env.lookup "v1" = some selV)
    (e2 : st.env.lookup "v2" = some cbV) (e3 : st.env.lookup "v3" = some rcbV)
    (e4 : st.env.lookup "v4" = some (suiteV ops P last)) (eo : st.out = tr.map (msgV P)) :
    obsFlow "v0" (execBlock X (Gen.c02oLadderCallSrc.body.drop 7) st) =
      ladderObs ops P fl (reorder ops fl s r rung last tr) := by
  have hrun := hX.hrun
  have hstrip := hX.hstrip
  have hsortp := hX.hsortp
  have hsortc := hX.hsortc
  have hinst := hX.hinst
  have hmsg3 := hX.hmsg3
  have hmsg2 := hX.hmsg2
  have hcb := hX.hcb
  have hcbs := hX.hcbs
  have hglob := hX.hglob
  clear hX
  obtain ⟨nr, no, nd⟩ := fl
  simp only [selfV, sideV, domV, suiteV] at hrun hstrip hsortp hsortc hinst e0 e4
  simp only [Gen.c02oLadderCallSrc, List.drop]
  cases nr
  · cases hs : ops.structured s
    · sort_tree ops s r no
    · cases hr : ops.structured r
      · sort_tree ops s r no
      · cases hl : ops.ok last <;> lad_eval
  · cases hl : ops.ok last <;> lad_eval

/-- `lad_eval` for the first part of the body: the model's `reorder` / the observation stay folded -/
macro "head_eval" : tactic =>
  `(tactic| simp [*, Fn.run, Fn.flow, initEnv, execBlock, exec, eval, evalList, withVal, withBool, bindAll,
      St.set, Res.bind, Res.map, getAttr, binop, cmpop, ordOp, Val.eqv, Val.eqv.eqvList, truthy_int, truthy_bool,
      truthy_str, truthy_none, truthy_list, truthy_record, Val.asInt, isNone, builtin, indexOf, List.lookup,
      recordSet, excR, int_max_cast, int_max_cast', int_beq_cast, ladderAbs, selfV, sideV, domV, suiteV])

set_option maxHeartbeats 1600000 in
/-- **`MeshFieldsComparator.__call__` is the ladder state machine `ladderAbs`**, for ALL operations `ops` (externals), all
    three flags and all inputs: the translated body performs exactly the model's sequence of comparisons and
    transformations (direct → extended points, only when the dimensions differ and matching is not disabled → strip
    (unless disabled) + sort points → sort cells; the structured/structured skip; nothing when reordering is disabled),
    returns the model's suite, hands exactly the model's messages to `reordering_callback` in order, and leaves
    `self._source` / `self._reference` as the model's state says (third component of `Fn.runSelf`: the final `self`).
    An exception of a transformation leaves the comparator.  Assumptions: `LadderExt`; the two optional callables are
    given or `None` (`OrDefault`). -/
theorem C02_source_ladder {σ R : Type} {X : Ext} {ops : Ops σ R} {P : Pres σ R} {fl : LadderFlags}
    {selV cbV rcbV smV : Val} (hX : LadderExt X ops P fl selV cbV rcbV smV)
    (selArg cbArg : Val) (hselA : OrDefault X selArg "closure#0" selV)
    (hcbA : OrDefault X cbArg "DefaultFieldComparisonCallback" cbV) (s r : σ) :
    Gen.c02oLadderCallSrc.runSelf X [selfV ops P fl s r, selArg, cbArg, rcbV] =
      ladderObs ops P fl (ladderAbs ops fl s r) := by
  obtain ⟨ts, hts, hsv⟩ := hselA.elim
  obtain ⟨tc, htc, hcv⟩ := hcbA.elim
  have T := fun s r rung last tr st => C02_ladder_tail hX s r rung last tr st
  rw [runSelf_eq_obsFlow X _ _ "v0" _ rfl]
  have hflow : Gen.c02oLadderCallSrc.flow X [selfV ops P fl s r, selArg, cbArg, rcbV] =
      execBlock X (Gen.c02oLadderCallSrc.body.take 7 ++ Gen.c02oLadderCallSrc.body.drop 7)
        ⟨[("v0", selfV ops P fl s r), ("v1", selArg), ("v2", cbArg), ("v3", rcbV)], []⟩ := by
    rw [List.take_append_drop]; rfl
  rw [hflow, execBlock_append]
  generalize Gen.c02oLadderCallSrc.body.drop 7 = tl at T ⊢
  have hrun := hX.hrun
  have hext := hX.hext
  have hmsg3 := hX.hmsg3
  have hcb := hX.hcb
  clear hX hflow
  simp only [selfV, sideV, domV, suiteV] at hrun hext
  simp only [Gen.c02oLadderCallSrc, List.take]
  cases h0 : ops.ok (ops.run s r)
  · cases hnd : fl.noDimMatch <;> simp only [hnd] at hrun <;> (try head_eval) <;>
      by_cases hd : ops.dim s = ops.dim r
    · (try head_eval)
      refine T s r 0 _ [] _ ?_ ?_ ?_ ?_ ?_ ?_ <;> simp [List.lookup, selfV, sideV, domV, suiteV, hd, h0, hnd]
    · cases he1 : ops.extend (max (ops.dim s) (ops.dim r)) s with
      | error e => lad_eval
      | ok s1 =>
        cases he2 : ops.extend (max (ops.dim s) (ops.dim r)) r with
        | error e => lad_eval
        | ok r1 =>
          cases h1 : ops.ok (ops.run s1 r1)
          · head_eval
            refine T s1 r1 1 _ [.retry (ops.run s r) "extended points"] _ ?_ ?_ ?_ ?_ ?_ ?_ <;>
              simp [List.lookup, selfV, sideV, domV, suiteV, h1, msgV, hnd]
          · lad_eval
    · (try head_eval)
      refine T s r 0 _ [] _ ?_ ?_ ?_ ?_ ?_ ?_ <;> simp [List.lookup, selfV, sideV, domV, suiteV, hd, h0, hnd]
    · (try head_eval)
      refine T s r 0 _ [] _ ?_ ?_ ?_ ?_ ?_ ?_ <;> simp [List.lookup, selfV, sideV, domV, suiteV, hd, h0, hnd]
  · lad_eval

/-- rungs 2 and 3 of the concrete model are the abstract `reorder` on the model's operations -/
theorem C02_ladderReorder_eq_reorder (asS asR : List Int → List Nat) (h : List Nat → Int) (fl : LadderFlags)
    (src ref : Side) (rung : Nat) (last : C02.Outcome) (tr : List (Msg C02.Outcome)) :
    ladderReorder asS asR h fl src ref rung last =
      forget (reorder (concOps asS asR h) fl (true, src) (false, ref) rung last tr) := by
  obtain ⟨nr, no, nd⟩ := fl
  cases nr
  · cases no
    · cases hB : sortPoints asS src.tol (stripOrphans asS src.f) <;>
        cases hD : sortPoints asR ref.tol (stripOrphans asR ref.f) <;>
        simp [ladderReorder, reorder, permute, permuteSide, finish, forget, hB, hD, concOps_run, concOps_ok,
          concOps_structured, concOps_strip, concOps_sortPoints, concOps_sortCells]
      all_goals (split <;> simp_all [forget])
    · cases hB : sortPoints asS src.tol src.f <;> cases hD : sortPoints asR ref.tol ref.f <;>
        simp [ladderReorder, reorder, permute, permuteSide, finish, forget, hB, hD, concOps_run, concOps_ok,
          concOps_structured, concOps_strip, concOps_sortPoints, concOps_sortCells]
      all_goals (split <;> simp_all [forget])
  · simp [ladderReorder, reorder, finish, forget]

/-- the concrete ladder model `C02.ladder` (FcModel/Ladder.lean; used by C02, C03, C17, C19) is the abstract ladder run on
    the model's own operations (`concOps`) -/
theorem C02_ladder_eq_ladderAbs (asS asR : List Int → List Nat) (h : List Nat → Int) (fl : LadderFlags)
    (srcF refF : MeshFields) :
    ladder asS asR h fl srcF refF =
      forget (ladderAbs (concOps asS asR h) fl (true, ⟨srcF, meshTolOf srcF.mesh, false⟩)
        (false, ⟨refF, meshTolOf refF.mesh, false⟩)) := by
  have hre := C02_ladderReorder_eq_reorder asS asR h fl
  let S : Side := ⟨srcF, meshTolOf srcF.mesh, false⟩
  let R : Side := ⟨refF, meshTolOf refF.mesh, false⟩
  have hSf : S.f = srcF := rfl
  have hRf : R.f = refF := rfl
  show ladder asS asR h fl srcF refF = forget (ladderAbs (concOps asS asR h) fl (true, S) (false, R))
  simp only [ladder, ladderAbs]
  by_cases h0 : (runComparison S R).domainEq = true
  · have h0' : (concOps asS asR h).ok ((concOps asS asR h).run (true, S) (false, R)) = true := h0
    rw [if_pos h0, if_pos h0']; rfl
  · have h0' : ¬ (concOps asS asR h).ok ((concOps asS asR h).run (true, S) (false, R)) = true := h0
    rw [if_neg h0, if_neg h0']
    by_cases hc : (decide (srcF.mesh.dim ≠ refF.mesh.dim) && !fl.noDimMatch) = true
    · have hc' : (decide ((concOps asS asR h).dim (true, S) ≠ (concOps asS asR h).dim (false, R)) && !fl.noDimMatch)
          = true := by simpa [concOps_dim, hSf, hRf] using hc
      rw [if_pos hc, if_pos hc']
      simp only [concOps_extend, concOps_dim, hSf, hRf]
      cases he1 : extendDim (max srcF.mesh.dim refF.mesh.dim) srcF with
      | none => cases extendDim (max srcF.mesh.dim refF.mesh.dim) refF <;> rfl
      | some sf =>
        cases he2 : extendDim (max srcF.mesh.dim refF.mesh.dim) refF with
        | none => rfl
        | some rf =>
          simp only []
          by_cases h1 : (runComparison ⟨sf, meshTolOf srcF.mesh, false⟩ ⟨rf, meshTolOf refF.mesh, false⟩).domainEq = true
          · have h1' : (concOps asS asR h).ok ((concOps asS asR h).run (true, ⟨sf, meshTolOf srcF.mesh, false⟩)
                (false, ⟨rf, meshTolOf refF.mesh, false⟩)) = true := h1
            rw [if_pos h1, if_pos h1']; rfl
          · have h1' : ¬ (concOps asS asR h).ok ((concOps asS asR h).run (true, ⟨sf, meshTolOf srcF.mesh, false⟩)
                (false, ⟨rf, meshTolOf refF.mesh, false⟩)) = true := h1
            rw [if_neg h1, if_neg h1']
            exact hre _ _ _ _ _
    · have hc' : ¬ (decide ((concOps asS asR h).dim (true, S) ≠ (concOps asS asR h).dim (false, R)) && !fl.noDimMatch)
          = true := by simpa [concOps_dim, hSf, hRf] using hc
      rw [if_neg hc, if_neg hc']
      exact hre _ _ _ _ _

/-- **the translated ladder computes FcModel/Ladder.lean's `ladder`**: under `LadderExt` for the model's own operations,
    running the translated `__call__` on a comparator holding the two data sets returns the suite `o` of
    `ladder … = .done rung o` (with some final state and messages, which `C02_source_ladder` names), and raises exactly
    when the model says `.raised`. -/
theorem C02_source_ladder_model {X : Ext} {asS asR : List Int → List Nat} {h : List Nat → Int}
    {P : Pres (Bool × Side) C02.Outcome} {fl : LadderFlags} {selV cbV rcbV smV : Val}
    (hX : LadderExt X (concOps asS asR h) P fl selV cbV rcbV smV)
    (selArg cbArg : Val) (hselA : OrDefault X selArg "closure#0" selV)
    (hcbA : OrDefault X cbArg "DefaultFieldComparisonCallback" cbV) (srcF refF : MeshFields) :
    match ladder asS asR h fl srcF refF with
    | .done _ o => ∃ s' r' tr, Gen.c02oLadderCallSrc.runSelf X
        [selfV (concOps asS asR h) P fl (true, ⟨srcF, meshTolOf srcF.mesh, false⟩)
          (false, ⟨refF, meshTolOf refF.mesh, false⟩), selArg, cbArg, rcbV] =
          .ok (suiteV (concOps asS asR h) P o, tr, selfV (concOps asS asR h) P fl s' r')
    | .raised => ∃ e, Gen.c02oLadderCallSrc.runSelf X
        [selfV (concOps asS asR h) P fl (true, ⟨srcF, meshTolOf srcF.mesh, false⟩)
          (false, ⟨refF, meshTolOf refF.mesh, false⟩), selArg, cbArg, rcbV] = .raise e := by
  rw [C02_source_ladder hX selArg cbArg hselA hcbA, C02_ladder_eq_ladderAbs]
  cases ladderAbs (concOps asS asR h) fl (true, ⟨srcF, meshTolOf srcF.mesh, false⟩)
      (false, ⟨refF, meshTolOf refF.mesh, false⟩) with
  | done rung o s' r' tr => exact ⟨s', r', _, rfl⟩
  | raised e => exact ⟨e, rfl⟩

end Fc
