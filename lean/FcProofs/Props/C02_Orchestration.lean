/-
  FcProofs.Props.C02_Orchestration — C02 (and, re-exported, C03 / C17 / C19), phase 6 round 2: the RETRY LADDER
  `MeshFieldsComparator.__call__` tied to the model by TRANSLATION.  Translated body: `Fc.Gen.c02oLadderCallSrc`
  (harness/fcv/tables/pylite_c02_orch.py); abstract ladder, presentation and assumptions: FcProofs/Lemmas/PyLiteC02Orch.lean;
  concrete model: FcModel/Ladder.lean.
-/
import FcGen.Tables
import FcProofs.Lemmas.PyLiteC02Orch
set_option linter.unusedSimpArgs false
set_option linter.unusedVariables false
namespace Fc
open PyLite PyLite.C11O PyLite.C02O C02

/-- what the theorem says the call leaves behind -/
def C02.ladderObs {σ R : Type} (ops : Ops σ R) (P : Pres σ R) (fl : LadderFlags) : LRes σ R → Res (Val × List Val × Val)
  | .done _ o s r tr => .ok (suiteV ops P o, tr.map (msgV P), selfV ops P fl s r)
  | .raised e => .raise e

/-- evaluation of one path of the ladder: the interpreter's equations, the presentation, the model's definitions and
    every hypothesis in scope (the assumptions about the externals and the decisions of the case analysis) -/
macro "lad_eval" : tactic =>
  `(tactic| simp [*, Fn.run, Fn.flow, initEnv, execBlock, exec, eval, evalList, withVal, withBool, bindAll,
      St.set, Res.bind, Res.map, getAttr, binop, cmpop, ordOp, Val.eqv, Val.eqv.eqvList, truthy_int, truthy_bool,
      truthy_str, truthy_none, truthy_list, truthy_record, Val.asInt, isNone, builtin, indexOf, List.lookup, obsFlow,
      recordSet, excR, int_max_cast, int_max_cast', int_beq_cast, ladderAbs, reorder, permute, finish, ladderObs, msgV,
      selfV, sideV, domV, suiteV])

/-- the case tree of the two reordering rungs: every decision of the model (`ops.strip`, `ops.sortPoints` on both sides,
    the verdict, `ops.sortCells` on both sides, the verdict) is fixed BEFORE the body is evaluated, so that every path is
    one run of `lad_eval` -/
macro "sort_tree" ops:ident s:ident r:ident no:ident : tactic =>
  `(tactic| (
    cases $no:ident
    · cases hA : Ops.strip $ops $s with
      | error e => lad_eval
      | ok sa =>
        cases hB : Ops.sortPoints $ops sa with
        | error e => lad_eval
        | ok s2 =>
          cases hC : Ops.strip $ops $r with
          | error e => lad_eval
          | ok ra =>
            cases hD : Ops.sortPoints $ops ra with
            | error e => lad_eval
            | ok r2 =>
              cases h2 : Ops.ok $ops (Ops.run $ops s2 r2) with
              | true => lad_eval
              | false =>
                cases hE : Ops.sortCells $ops s2 with
                | error e => lad_eval
                | ok s3 =>
                  cases hF : Ops.sortCells $ops r2 with
                  | error e => lad_eval
                  | ok r3 => cases h3 : Ops.ok $ops (Ops.run $ops s3 r3) <;> lad_eval
    · cases hB : Ops.sortPoints $ops $s with
      | error e => lad_eval
      | ok s2 =>
        cases hD : Ops.sortPoints $ops $r with
        | error e => lad_eval
        | ok r2 =>
          cases h2 : Ops.ok $ops (Ops.run $ops s2 r2) with
          | true => lad_eval
          | false =>
            cases hE : Ops.sortCells $ops s2 with
            | error e => lad_eval
            | ok s3 =>
              cases hF : Ops.sortCells $ops r2 with
              | error e => lad_eval
              | ok r3 => cases h3 : Ops.ok $ops (Ops.run $ops s3 r3) <;> lad_eval))

set_option maxHeartbeats 1600000 in
/-- the part of the body after the dimension-matching block (the structured skip / the two reordering rungs / the final
    message / `return suite`), run in ANY state in which `self`, the two callables, the reordering callback and the last
    suite are what the model's state says: it is the model's `reorder`. -/
theorem C02_ladder_tail {σ R : Type} {X : Ext} {ops : Ops σ R} {P : Pres σ R} {fl : LadderFlags}
    {selV cbV rcbV smV : Val} (hX : LadderExt X ops P fl selV cbV rcbV smV) (s r : σ) (rung : Nat) (last : R)
    (tr : List (Msg R)) (st : St)
    (e0 : st.env.lookup "v0" = some (selfV ops P fl s r)) (e1 : st.env.lookup "v1" = some selV)
    (e2 : st.env.lookup "v2" = some cbV) (e3 : st.env.lookup "v3" = some rcbV)
    (e4 : st.env.lookup "v4" = some (suiteV ops P last)) (eo : st.out = tr.map (msgV P)) :
    obsFlow "v0" (execBlock X (Gen.c02oLadderCallSrc.body.drop 7) st) =
      ladderObs ops P fl (reorder ops fl s r rung last tr) := by
  have hrun := hX.hrun
  have hstrip := hX.hstrip
  have hsortp := hX.hsortp
  have hsortc := hX.hsortc
  have hinst := hX.hinst
  have hmsg3 := hX.hmsg3
  have hmsg2 := hX.hmsg2
  have hcb := hX.hcb
  have hglob := hX.hglob
  clear hX
  obtain ⟨nr, no, nd⟩ := fl
  simp only [selfV, sideV, domV, suiteV] at hrun hstrip hsortp hsortc hinst e0 e4
  simp only [Gen.c02oLadderCallSrc, List.drop]
  cases nr
  · cases hs : ops.structured s
    · sort_tree ops s r no
    · cases hr : ops.structured r
      · sort_tree ops s r no
      · cases hl : ops.ok last <;> lad_eval
  · cases hl : ops.ok last <;> lad_eval

/-- `lad_eval` for the first part of the body: the model's `reorder` / the observation stay folded -/
macro "head_eval" : tactic =>
  `(tactic| simp [*, Fn.run, Fn.flow, initEnv, execBlock, exec, eval, evalList, withVal, withBool, bindAll,
      St.set, Res.bind, Res.map, getAttr, binop, cmpop, ordOp, Val.eqv, Val.eqv.eqvList, truthy_int, truthy_bool,
      truthy_str, truthy_none, truthy_list, truthy_record, Val.asInt, isNone, builtin, indexOf, List.lookup,
      recordSet, excR, int_max_cast, int_max_cast', int_beq_cast, ladderAbs, selfV, sideV, domV, suiteV])

set_option maxHeartbeats 1600000 in
/-- **`MeshFieldsComparator.__call__` is the ladder state machine `ladderAbs`**, for ALL operations `ops` (externals), all
    three flags and all inputs: the translated body performs exactly the model's sequence of comparisons and
    transformations (direct → extended points, only when the dimensions differ and matching is not disabled → strip
    (unless disabled) + sort points → sort cells; the structured/structured skip; nothing when reordering is disabled),
    returns the model's suite, hands exactly the model's messages to `reordering_callback` in order, and leaves
    `self._source` / `self._reference` as the model's state says (third component of `Fn.runSelf`: the final `self`).
    An exception of a transformation leaves the comparator.  Assumptions: `LadderExt`; the two optional callables are
    given or `None` (`OrDefault`). -/
theorem C02_source_ladder {σ R : Type} {X : Ext} {ops : Ops σ R} {P : Pres σ R} {fl : LadderFlags}
    {selV cbV rcbV smV : Val} (hX : LadderExt X ops P fl selV cbV rcbV smV)
    (selArg cbArg : Val) (hselA : OrDefault X selArg "closure#0" selV)
    (hcbA : OrDefault X cbArg "DefaultFieldComparisonCallback" cbV) (s r : σ) :
    Gen.c02oLadderCallSrc.runSelf X [selfV ops P fl s r, selArg, cbArg, rcbV] =
      ladderObs ops P fl (ladderAbs ops fl s r) := by
  obtain ⟨ts, hts, hsv⟩ := hselA.elim
  obtain ⟨tc, htc, hcv⟩ := hcbA.elim
  have T := fun s r rung last tr st => C02_ladder_tail hX s r rung last tr st
  rw [runSelf_eq_obsFlow X _ _ "v0" _ rfl]
  have hflow : Gen.c02oLadderCallSrc.flow X [selfV ops P fl s r, selArg, cbArg, rcbV] =
      execBlock X (Gen.c02oLadderCallSrc.body.take 7 ++ Gen.c02oLadderCallSrc.body.drop 7)
        ⟨[("v0", selfV ops P fl s r), ("v1", selArg), ("v2", cbArg), ("v3", rcbV)], []⟩ := by
    rw [List.take_append_drop]; rfl
  rw [hflow, execBlock_append]
  generalize Gen.c02oLadderCallSrc.body.drop 7 = tl at T ⊢
  have hrun := hX.hrun
  have hext := hX.hext
  have hmsg3 := hX.hmsg3
  have hcb := hX.hcb
  clear hX hflow
  simp only [selfV, sideV, domV, suiteV] at hrun hext
  simp only [Gen.c02oLadderCallSrc, List.take]
  cases h0 : ops.ok (ops.run s r)
  · head_eval
    by_cases hd : ops.dim s = ops.dim r
    · head_eval
      refine T s r 0 _ [] _ ?_ ?_ ?_ ?_ ?_ ?_ <;> simp [List.lookup, selfV, sideV, domV, suiteV, hd, h0]
    · cases hnd : fl.noDimMatch
      · simp only [hnd] at hrun
        cases he1 : ops.extend (max (ops.dim s) (ops.dim r)) s with
        | error e => lad_eval
        | ok s1 =>
          cases he2 : ops.extend (max (ops.dim s) (ops.dim r)) r with
          | error e => lad_eval
          | ok r1 =>
            cases h1 : ops.ok (ops.run s1 r1)
            · head_eval
              refine T s1 r1 1 _ [.retry (ops.run s r) "extended points"] _ ?_ ?_ ?_ ?_ ?_ ?_ <;>
                simp [List.lookup, selfV, sideV, domV, suiteV, h1, msgV, hnd]
            · lad_eval
      · head_eval
        refine T s r 0 _ [] _ ?_ ?_ ?_ ?_ ?_ ?_ <;> simp [List.lookup, selfV, sideV, domV, suiteV, hd, h0, hnd]
  · lad_eval

end Fc
