/-
  FcProofs.Props.C07_Source — C07, tie to the source text by TRANSLATION (see C04_Source.lean).
  Translated bodies: `Fc.Gen.c07…Src` (harness/fcv/tables/pylite_c07.py) of the reader helpers of
  `io/vtk/_helpers.py`; model: FcModel/Structured.lean (`cellsPerDirection`, `readerNumCells`,
  `readerNumPoints`).
-/
import FcGen.Tables
import FcProofs.Lemmas.PyLiteC07
set_option linter.unusedSimpArgs false
namespace Fc
open PyLite PyLite.C07

/-- `vtk_extents_to_cells_per_direction` is the model's `cellsPerDirection` on every list of integers:
    the three differences, `ValueError` when the list does not have six entries or a difference is
    negative. -/
theorem C07_source_extents_to_cells (e : List Int) :
    Gen.c07ExtentsToCellsSrc.run noExt [intList e] =
      match C07.cellsPerDirection e with
      | some cs => .ok (natList cs)
      | none => .raise "ValueError" := by
  rcases e with _ | ⟨a0, _ | ⟨a1, _ | ⟨b0, _ | ⟨b1, _ | ⟨c0, _ | ⟨c1, _ | ⟨d, r⟩⟩⟩⟩⟩⟩⟩
  · rfl
  · rfl
  · rfl
  · rfl
  · rfl
  · rfl
  · simp only [Gen.c07ExtentsToCellsSrc, intList, natList, C07.cellsPerDirection]
    pylite_eval [indexOf]
    by_cases h1 : a1 - a0 < 0
    · simp [h1]
    · by_cases h2 : b1 - b0 < 0
      · simp [h1, h2]
      · by_cases h3 : c1 - c0 < 0
        · simp [h1, h2, h3]
        · simp [h1, h2, h3]
          omega
  · simp only [Gen.c07ExtentsToCellsSrc, intList, C07.cellsPerDirection]
    pylite_eval
    rw [if_neg (by omega)]

/-- `number_of_total_cells_from_cells_per_direction` is the model's `readerNumCells`. -/
theorem C07_source_total_cells (cells : List Nat) :
    Gen.c07TotalCellsSrc.run noExt [natList cells] = .ok (.int (C07.readerNumCells cells : Nat)) := by
  simp only [Gen.c07TotalCellsSrc, natList, C07.readerNumCells]
  pylite_eval
  rw [compM_map_int _ (fun (n : Nat) => Val.int (n : Int)) (fun n => ((max n 1 : Nat) : Int))]
  · have h := foldl_mul_cast_map (fun x => max x 1) cells 1
    simp only [Res.bind, builtin, intsOf_map]
    simpa using h
  · intro n
    pylite_eval
    omega

/-- `number_of_total_points_from_cells_per_direction` is the model's `readerNumPoints`. -/
theorem C07_source_total_points (cells : List Nat) :
    Gen.c07TotalPointsSrc.run noExt [natList cells] = .ok (.int (C07.readerNumPoints cells : Nat)) := by
  simp only [Gen.c07TotalPointsSrc, natList, C07.readerNumPoints]
  pylite_eval
  rw [compM_map_int _ (fun (n : Nat) => Val.int (n : Int)) (fun n => ((n + 1 : Nat) : Int))]
  · have h := foldl_mul_cast_map (fun x => x + 1) cells 1
    simp only [Res.bind, builtin, intsOf_map]
    simpa using h
  · intro n
    pylite_eval

end Fc
