/-
  FcProofs.Props.C12_Plumbing — C12, the `--read-as` / filter PLUMBING of directory mode tied to the source (phase 5).

  FcModel/DirMode.lean takes `mapped p` ("`file_type_map(p) is not None`") and the filters as parameters.  Here:
  (1) Translation: `FileTypeMap.__call__` and the grouping loop of `_make_file_type_map`
      (`Fc.Gen.cliFileTypeMapCallSrc`, `Fc.Gen.cliMakeFileTypeMapSrc`, harness/fcv/tables/pylite_cli_readas.py) are
      proved equal, for all inputs, to `Plumb.fileTypeOf` / `Plumb.makeFileTypeMap` (FcModel/CliPlumbing.lean).
  (2) Spec of that model: every pattern of every `--read-as` option is kept in the list of its reader
      (`C12_readas_every_pattern_kept`), so a file is mapped iff SOME option's pattern matches it (`C12_readas_mapped_iff`).
  (3) Option tables (harness/fcv/tables/cli_options.py): see the end of the file.
-/
import FcGen.Tables
import FcProofs.Lemmas.PyLiteCli
import FcProofs.Props.C04_Plumbing
set_option linter.unusedSimpArgs false
namespace Fc
open PyLite PyLite.Cli

/-- `FileTypeMap.__call__(filename)`: the entries are tried in order, the FIRST whose `PatternFilter` accepts the
    name decides (`Plumb.fileTypeOf`), and its reader string is handed to `_split_file_type_and_opts` (whatever that
    returns or raises: `sp`); no entry: `None`.  Assumptions: calling a `PatternFilter` object runs its `__call__`
    (the translated one), `fnmatch` means `fnm`. -/
theorem C12_source_file_type_map_call (X : Ext) (fnm : String → String → Bool) (hX : FnmatchIs X fnm)
    (hcall : ∀ pats name, X "call" [pfVal pats, .str name] = Gen.cliPatternFilterCallSrc.run X [pfVal pats, .str name])
    (sp : String → Res Val) (m : Plumb.FileTypeMap)
    (hsp : ∀ r, X "._split_file_type_and_opts" [ftMapVal m, .str r] = sp r) (name : String) :
    Gen.cliFileTypeMapCallSrc.run X [ftMapVal m, .str name] =
      match Plumb.fileTypeOf fnm m name with
      | some r => sp r
      | none => .ok .none := by
  have hc : ∀ pats, X "call" [pfVal pats, .str name] = .ok (.bool (Plumb.patternFilter fnm pats name)) :=
    fun pats => by rw [hcall, C04_source_pattern_filter_call X fnm hX]
  simp only [Gen.cliFileTypeMapCallSrc, ftMapVal, Plumb.fileTypeOf]
  pylite_eval
  generalize hf : forLoop _ _ _ = r
  let Inv : St → Prop := fun st =>
    st.env.lookup "v0" = some (ftMapVal m) ∧ st.env.lookup "v1" = some (.str name)
  have key := forLoop_findRes_eq entryVal (fun e => Plumb.patternFilter fnm e.2 name) (fun e => sp e.1) Inv hf
    (by simp [Inv, List.lookup, ftMapVal])
    (by
      intro e _ st ⟨e1, e2⟩
      obtain ⟨k, ps⟩ := e
      constructor
      · intro hp
        simp only at hp
        cases hr : sp k with
        | ok v => simp [entryVal, bindAll, St.set, e1, e2, hc, hp, hsp, hr, List.lookup]
        | «raise» ex => simp [entryVal, bindAll, St.set, e1, e2, hc, hp, hsp, hr, List.lookup]
        | stuck => simp [entryVal, bindAll, St.set, e1, e2, hc, hp, hsp, hr, List.lookup]
      · intro hp
        simp only at hp
        simp [Inv, entryVal, bindAll, St.set, e1, e2, hc, hp, List.lookup])
  cases hfind : List.find? (fun e => Plumb.patternFilter fnm e.2 name) m with
  | none =>
    rw [hfind] at key
    obtain ⟨st', h1, _⟩ := key
    simp [h1]
  | some e =>
    rw [hfind] at key
    dsimp only at key
    simp only [Option.map_some]
    cases hr : sp e.1 with
    | ok v => rw [hr] at key; obtain ⟨st', h1⟩ := key; simp [h1]
    | «raise» ex => rw [hr] at key; simp [key]
    | stuck => rw [hr] at key; simp [key]

/-- `FileTypeMap.__init__` stores the list of entries (`None` / empty: the empty list) as `_mapping`, the attribute
    `__call__` iterates over (what `ReadAsExt.hctor` / `hempty` assume about the constructor call). -/
theorem C12_source_file_type_map_init (l : List Val) :
    Gen.cliFileTypeMapInitSrc.run noExt [.list l] = .ok (.dict [(.str "_mapping", .list l)]) ∧
    Gen.cliFileTypeMapInitSrc.run noExt [.none] = .ok (.dict [(.str "_mapping", .list [])]) := by
  simp only [Gen.cliFileTypeMapInitSrc]
  constructor
  · cases l <;> pylite_eval [dictSet]
  · pylite_eval [dictSet]

/-- what the theorem about `_make_file_type_map` assumes about its callees: `_split_regex` (the READER{opts}:PATTERN
    grammar, an opaque helper of the translation: `helper#1`) returns the pair `split a` or raises `IOError`; the two
    constructors store their arguments (`FileTypeMap()` = empty mapping). -/
structure ReadAsExt (X : Ext) (split : String → Option (String × String)) : Prop where
  hsplit : ∀ a, X "helper#1" [.str a] =
    match split a with
    | some rp => .ok (.list [.str rp.1, .str rp.2])
    | none => .raise "IOError"
  hpf : PatternFilterCtor X
  hempty : X "FileTypeMap" [] = .ok (ftMapVal [])
  hctor : ∀ m : Plumb.FileTypeMap, X "FileTypeMap(mapping=)" [.list (m.map entryVal)] = .ok (ftMapVal m)

/-- `_make_file_type_map(map_args)` is the model's `makeFileTypeMap`: `None` gives the empty map; otherwise the
    `--read-as` values are split in order and EVERY pattern is appended to the list of the first entry with the same
    reader string (a new reader opens a new entry at the end); the result is `FileTypeMap` of the entries
    `(reader, PatternFilter(patterns))`.  `IOError` of the split propagates. -/
theorem C12_source_make_file_type_map (X : Ext) (split : String → Option (String × String)) (hX : ReadAsExt X split)
    (args : Option (List String)) :
    Gen.cliMakeFileTypeMapSrc.run X [optStrList args] =
      match Plumb.makeFileTypeMap split args with
      | some m => .ok (ftMapVal m)
      | none => .raise "IOError" := by
  cases args with
  | none =>
    simp only [Gen.cliMakeFileTypeMapSrc, optStrList, Plumb.makeFileTypeMap]
    pylite_eval [hX.hempty]
  | some l =>
    simp only [Gen.cliMakeFileTypeMapSrc, optStrList, strList, Plumb.makeFileTypeMap, groupLoop_eq_foldOpt]
    pylite_eval
    generalize hf : forLoop _ _ _ = r
    let Inv : Plumb.FileTypeMap → St → Prop := fun acc st =>
      st.env.lookup "v1" = some (.list (acc.map fun e => Val.str e.1)) ∧
      st.env.lookup "v2" = some (.list (acc.map fun e => strList e.2))
    have key := forLoop_foldOpt_eq Val.str
      (fun acc a => (split a).map fun rp => Plumb.addPattern acc rp.1 rp.2) "IOError" Inv hf []
      (by simp [Inv, List.lookup])
      (by
        intro a acc st ⟨e1, e2⟩
        have hs := hX.hsplit a
        cases hsp : split a with
        | none =>
          rw [hsp] at hs
          simp [hs]
        | some rp =>
          obtain ⟨rd, p⟩ := rp
          rw [hsp] at hs
          have hany := memOf_keys rd acc
          cases hmem : (acc.any fun e => e.1 == rd) with
          | false =>
            simp [Inv, hs, bindAll, St.set, e1, e2, List.lookup, hany, hmem, addPattern_new acc rd p hmem, strList]
          | true =>
            obtain ⟨i, ps, h1, h2, h3, h4, h5⟩ := addPattern_sim acc rd p hmem
            have h0 : ¬ ((i : Int) < 0) := by omega
            have h4' := h4
            simp only [strList, List.map_append, List.map_cons, List.map_nil] at h4'
            have h3' : (acc.map fun e => strList e.2)[i]? = some (.list (ps.map .str)) := h3
            have hidx := indexOf_map_nat (fun e : String × List String => strList e.2) acc i
            simp [Inv, hs, bindAll, St.set, e1, e2, List.lookup, hany, hmem, h1, indexOf, h0, h3', listSet, h2, h4', h5,
              strList]
            refine ⟨?_, ?_⟩
            · have := congrArg (List.map Val.str) h5
              simp only [List.map_map] at this
              exact this.symm
            · have hps : List.map Val.str acc[i].snd = List.map Val.str ps := by
                have := h3'
                simp [List.getElem?_map, List.getElem?_eq_getElem h2, strList] at this
                exact this
              rw [hps]
              exact h4')
    cases hfo : foldOpt (fun acc a => (split a).map fun rp => Plumb.addPattern acc rp.1 rp.2) l [] with
    | none =>
      rw [hfo] at key
      simp [key]
    | some m =>
      rw [hfo] at key
      obtain ⟨st', h1, e1, e2⟩ := key
      simp [h1, e1, e2, zipWith_entries]
      rw [compM_map_ok _ (fun e : String × List String => Val.list [.str e.1, strList e.2])
        (fun e => some (entryVal e))]
      · have hm : List.filterMap (fun e => some (entryVal e)) m = m.map entryVal := by
          induction m with
          | nil => rfl
          | cons e t ih => simp
        simp [hm, hX.hctor m]
      · intro e
        simp [indexOf, hX.hpf e.2, entryVal]

/-! ### what the model of the grouping loop guarantees (the content of the `--read-as` documentation) -/

/-- NOTHING IS LOST: the pattern of every `--read-as` option is in the pattern list of its reader string — also when
    the same reader is named by several options. -/
theorem C12_readas_every_pattern_kept (split : String → Option (String × String)) (args : List String)
    (m : Plumb.FileTypeMap) (h : Plumb.makeFileTypeMap split (some args) = some m) (a : String) (ha : a ∈ args)
    (r p : String) (hs : split a = some (r, p)) : ∃ ps, (r, ps) ∈ m ∧ p ∈ ps :=
  (has_groupLoop split args [] m h r p).mpr (Or.inr ⟨a, ha, hs⟩)

/-- … hence `DirMode.categorize`'s parameter `mapped` (“`file_type_map(filename) is not None`”) is: the name matches
    the pattern of SOME `--read-as` option (in any position, for any reader).  Nothing is invented either. -/
theorem C12_readas_mapped_iff (fnm : String → String → Bool) (split : String → Option (String × String))
    (args : List String) (m : Plumb.FileTypeMap) (h : Plumb.makeFileTypeMap split (some args) = some m)
    (name : String) :
    Plumb.mapped fnm m name = true ↔ ∃ a ∈ args, ∃ r p, split a = some (r, p) ∧ fnm name p = true := by
  rw [mapped_iff_has]
  constructor
  · rintro ⟨r, p, hh, hf⟩
    rcases (has_groupLoop split args [] m h r p).mp hh with ⟨ps, h1, _⟩ | ⟨a, ha, hs⟩
    · simp at h1
    · exact ⟨a, ha, r, p, hs, hf⟩
  · rintro ⟨a, ha, r, p, hs, hf⟩
    exact ⟨r, p, (has_groupLoop split args [] m h r p).mpr (Or.inr ⟨a, ha, hs⟩), hf⟩

/-- without `--read-as` nothing is mapped. -/
theorem C12_readas_absent (fnm : String → String → Bool) (split : String → Option (String × String)) (name : String) :
    Plumb.makeFileTypeMap split none = some [] ∧ Plumb.mapped fnm [] name = false := ⟨rfl, rfl⟩

/-! ### option tables of `fieldcompare dir` (harness/fcv/tables/cli_options.py, regenerated from the source) -/

/-- every key with which directory mode (`_run`, `_categorize_files`, `_do_file_comparisons`,
    `_add_unhandled_comparisons`) reads the argument dict is a destination its `_add_arguments` declares — a key
    that is not a destination would, read with `args.get`, silently be `None`. -/
theorem C12_options_reads_declared : Plumb.allDeclared Gen.optDirDests Gen.optDirReads = true := by decide

/-- “the file comparison with the same options”: every `FileComparisonOptions` field that directory mode feeds is
    fed from the SAME destination as in file mode … -/
theorem C12_options_same_sources : Plumb.sameSources Gen.optDirWiring Gen.optFileWiring = true := by decide

/-- … which is the one the model expects; directory mode feeds every field but `force_sequence_comparison` (the
    switch is declared and ignored there: it only changes the report, the comparison fails either way). -/
theorem C12_options_wiring :
    (Gen.optDirWiring.all fun e => Plumb.expectedWiring.lookup e.1 == e.2.head? && e.2.length == 1) = true ∧
    (Gen.optFields.all fun f => f == "force_sequence_comparison" || (Gen.optDirWiring.lookup f).isSome) = true := by
  decide

/-- every destination of directory mode other than that one is read somewhere (no further option is silently
    ignored), and the Boolean switches reach their fields as they are. -/
theorem C12_options_all_read :
    (Gen.optDirDests.all fun d => d == "force_sequence_comparison" || Gen.optDirReads.contains d) = true ∧
    (Gen.optDirWiring.all fun e =>
      !(e.2.all Gen.optDirStoreTrue.contains) || Gen.optDirWiringKind.lookup e.1 == some "direct") = true := by decide

end Fc
