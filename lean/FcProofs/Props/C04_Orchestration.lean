/-
  FcProofs.Props.C04_Orchestration — C04 (re-exported for C09), phase 6 round 7: `FileComparison._select_predicate` tied to the model
  (`relTolOf` / `absTolOf` over `TolMap.get`, FcModel/Cli.lean) by TRANSLATION.  Translated body: `Fc.Gen.c04oSelectPredicateSrc`
  (harness/fcv/tables/pylite_c04_orch.py); the per-field lookup is the translated `FieldToleranceMap.__call__` (phase 5).
-/
import FcGen.Tables
import FcProofs.Lemmas.PyLiteCli
import FcProofs.Lemmas.PyLiteOrch
import FcProofs.Props.C04_Plumbing
set_option linter.unusedSimpArgs false
set_option linter.unusedVariables false
namespace Fc
open PyLite PyLite.Cli C04

/-- a tolerance as `DefaultEquality` receives it: a number of units, a `ScaledTolerance`, or (`dflt`) the value
    `_default_base_tolerance()` returns -/
def C04.tolArgV (dfltV : Val) : Tol → Val
  | .num u => .int (u : Int)
  | .scaled (some b) => .record [("_base_tolerance", .int (b : Int))]
  | .scaled none => .record [("_base_tolerance", dfltV)]
  | .dflt => dfltV
  | _ => .none        -- array / component-wise tolerances are not produced by the CLI

/-- the `FileComparison` object as far as `_select_predicate` reads it: the options object (opaque handle `ov`) -/
def C04.fcSelfV (ov : Val) : Val := .record [("_opts", ov)]

/-- ASSUMPTIONS: calling the two `FieldToleranceMap` objects of the options runs the TRANSLATED `FieldToleranceMap.__call__`
    (`C04_source_field_tolerance_map_call`) on the dicts that represent the model's maps; the float literal `0.0` is 0 units;
    `_default_base_tolerance()` returns `dfltV`; `DefaultEquality(abs_tol=, rel_tol=)` builds the predicate object. -/
structure C04.SelExt (X : Ext) (ov dfltV : Val) (akvs rkvs : List (Val × Val)) (o : Opts) : Prop where
  habs : ∀ n, X ".absolute_tolerances" [ov, .str n] = Gen.cliFieldToleranceMapCallSrc.run noExt [ftmVal akvs o.atol.dflt, .str n]
  hrel : ∀ n, X ".relative_tolerances" [ov, .str n] = Gen.cliFieldToleranceMapCallSrc.run noExt [ftmVal rkvs o.rtol.dflt, .str n]
  harep : Represents akvs o.atol.named
  hrrep : Represents rkvs o.rtol.named
  hzero : X "float:0.0" [] = .ok (.int 0)
  hdflt : X "_default_base_tolerance" [] = .ok dfltV
  hctor : ∀ a r, X "DefaultEquality(abs_tol=,rel_tol=)" [a, r] = .ok (.record [("abs_tol", a), ("rel_tol", r)])

/-- **`_select_predicate(res_field, ref_field)`**: the predicate is `DefaultEquality` with
    `abs_tol` = the ABSOLUTE map asked for exactly `res_field.name` (the name it is handed — `_compare_matches` hands over the
    annotation-free field), falling back to `0.0` ONLY when the map answers `None` (an explicit `0.0` stays: `is not None`, not
    truthiness), and `rel_tol` = the RELATIVE map asked for the same name, falling back to `_default_base_tolerance()` only for
    `None` — the model's `absTolOf (atol.get name)` / `relTolOf (rtol.get name)`; the reference field is not consulted. -/
theorem C04_source_select_predicate {X : Ext} {ov dfltV : Val} {akvs rkvs : List (Val × Val)} {o : Opts}
    (hX : SelExt X ov dfltV akvs rkvs o) (name : String) (resRest : Val) (refV : Val) :
    Gen.c04oSelectPredicateSrc.run X [fcSelfV ov, .record [("name", .str name), ("values", resRest)], refV] =
      .ok (.record [("abs_tol", tolArgV dfltV (absTolOf (o.atol.get name))),
                    ("rel_tol", tolArgV dfltV (relTolOf (o.rtol.get name)))]) := by
  have ha : X ".absolute_tolerances" [ov, .str name] = .ok (optTolVal (o.atol.get name)) := by
    rw [hX.habs]; exact C04_source_field_tolerance_map_call _ _ _ _ hX.harep
  have hr : X ".relative_tolerances" [ov, .str name] = .ok (optTolVal (o.rtol.get name)) := by
    rw [hX.hrel]; exact C04_source_field_tolerance_map_call _ _ _ _ hX.hrrep
  simp only [Gen.c04oSelectPredicateSrc, fcSelfV]
  cases hga : o.atol.get name with
  | none =>
    cases hgr : o.rtol.get name with
    | none => rw [hga] at ha; rw [hgr] at hr; orch_eval [ha, hr, optTolVal, hX.hzero, hX.hdflt, hX.hctor, absTolOf, relTolOf, tolArgV]
    | some t => rw [hga] at ha; rw [hgr] at hr; cases t <;>
        orch_eval [ha, hr, optTolVal, tolVal, hX.hzero, hX.hdflt, hX.hctor, absTolOf, relTolOf, tolArgV]
  | some a =>
    cases hgr : o.rtol.get name with
    | none => rw [hga] at ha; rw [hgr] at hr; cases a <;>
        orch_eval [ha, hr, optTolVal, tolVal, hX.hzero, hX.hdflt, hX.hctor, absTolOf, relTolOf, tolArgV]
    | some t => rw [hga] at ha; rw [hgr] at hr; cases a <;> cases t <;>
        orch_eval [ha, hr, optTolVal, tolVal, hX.hzero, hX.hdflt, hX.hctor, absTolOf, relTolOf, tolArgV]

end Fc
