/-
  Property C16 — Mesh equality is sound, symmetric and independent of the mesh representation.
  Only property theorems live here; helper lemmas are in FcProofs/Lemmas/{MeshEqual,StructuredEq}.lean.

  Model:  `Fc.C16.equals : AnyMesh → AnyMesh → Verdict`   (FcModel/StructuredEq.lean) over the five representations
          explicit `Mesh` (`meshEqual`: the smaller tolerance of both sides), `PermutedMesh` (`permutedEqual`: the
          receiver's tolerances), `ImageMesh` / `RectilinearMesh` / `StructuredMesh` (parameter short-cuts with
          the receiver's tolerances for two meshes of the same class, `mesh_equal` on the generated points and
          connectivity otherwise).
  Spec:   `Fc.C03.meshEqualSpec`, `Fc.C16.rectParamsWithin`, `structParamsWithin`, `imageParamsWithin`.
  Table:  `Fc.Gen.C16.compatPairs`, `Gen.C16.compatIdPairs`, `Gen.C16.cellTypeTable` — regenerated from the source on every run.

  Findings that restrict theorems here (see NOTES_C16.md):
    F7   ImageMesh.equals compares spacing / basis with the coordinate-scaled absolute tolerance
         ⇒ `C16_structured_sound_partial` for image meshes (negation witness in Witness/C16.lean);
    F14  the short-cuts and PermutedMesh.equals use the RECEIVER's tolerances only
         ⇒ `C16_symm_partial` (equal tolerances) next to `C16_symm` (pairs evaluated with the smaller tolerance).
-/
import FcProofs.Lemmas.StructuredEq
namespace Fc
open Fc.Spec Fc.C03 Fc.C16

/-! ### facts about the regenerated tables -/

/-- pixel~quad and voxel~hexahedron are interchangeable — and nothing else -/
theorem C16_compat_table :
    Gen.C16.compatPairs = [("QUAD", "PIXEL"), ("PIXEL", "QUAD"), ("HEXAHEDRON", "VOXEL"), ("VOXEL", "HEXAHEDRON")] := by
  decide

/-- `is_compatible_with` is symmetric -/
theorem C16_compat_symm (a b : String) : compatible a b = compatible b a := compatible_symm a b

/-- … reflexive, and a type has at most one partner besides itself (so `_find_compatible` does not depend on
    the iteration order of the Python set) -/
theorem C16_compat_functional (c t t' : String) (h1 : compatible c t = true) (h2 : compatible c t' = true)
    (n1 : c ≠ t) (n2 : c ≠ t') : t = t' := compatible_unique c t t' h1 h2 n1 n2

/-- names and VTK ids are interchangeable: both columns of the cell-type table are duplicate-free and the
    name-level compatibility pairs are the id-level pairs read through the table -/
theorem C16_compat_ids :
    (Gen.C16.cellTypeTable.map (·.1)).Nodup ∧ (Gen.C16.cellTypeTable.map (·.2)).Nodup ∧
    Gen.C16.compatIdPairs.map (fun p => (cellTypeId "QUAD" == some p.1 || cellTypeId "PIXEL" == some p.1 ||
        cellTypeId "HEXAHEDRON" == some p.1 || cellTypeId "VOXEL" == some p.1)) = [true, true, true, true] ∧
    Gen.C16.compatPairs.map (fun p => (cellTypeId p.1, cellTypeId p.2)) =
      Gen.C16.compatIdPairs.map (fun p => (some p.1, some p.2)) := by
  decide

/-! ### explicit meshes: sound, total, symmetric -/

/-- **C16 (sound).**  Two explicit meshes compare equal only if they have the same number of points, all
    coordinates in all columns agree within the (smaller) tolerance, and for every cell type — pixel~quad,
    voxel~hexahedron interchangeable — both have the same cells, in both directions over the type sets. -/
theorem C16_sound (a b : TMesh) (ha : (wfEq a.mesh) = true) (hb : (wfEq b.mesh) = true)
    (h : equals (.explicit a) (.explicit b) = .ok true) :
    (a.mesh.numPoints = b.mesh.numPoints ∧ a.mesh.dim = b.mesh.dim ∧
      ∀ i j, i < a.mesh.numPoints → j < a.mesh.dim →
        docFormula f64 (coord a.mesh i j) (coord b.mesh i j) (min a.rel b.rel) (min a.abs b.abs) = true) ∧
    (∀ c ∈ a.mesh.cellTypes, ∃ t ∈ b.mesh.cellTypes, Partner a.mesh b.mesh c t ∧
      CellsMatch (a.mesh.cellsOf c) (b.mesh.cellsOf t)) ∧
    (∀ t ∈ b.mesh.cellTypes, ∃ c ∈ a.mesh.cellTypes, Partner a.mesh b.mesh c t ∧
      CellsMatch (a.mesh.cellsOf c) (b.mesh.cellsOf t)) := by
  have h' : meshEqualWith (min a.rel b.rel) (min a.abs b.abs) a.mesh b.mesh = .ok true := by
    simpa [equals, viaMeshEqual, AnyMesh.view, meshEqual] using h
  rw [meshEqualWith_eq_spec _ _ _ _ ha hb] at h'
  exact meshEqualSpec_elim _ _ _ _ (by simpa using h')

/-- **C16 (never an exception).**  For well-formed objects of any two representations whose points exist
    (no overflow in the image-mesh point formula) `a.equals(b)` returns a verdict. -/
theorem C16_total (a b : AnyMesh) (ha : a.ok = true) (hb : b.ok = true)
    (hva : a.view ≠ none) (hvb : b.view ≠ none) : equals a b ≠ .err := by
  obtain ⟨va, hva'⟩ := Option.ne_none_iff_exists'.mp hva
  obtain ⟨vb, hvb'⟩ := Option.ne_none_iff_exists'.mp hvb
  have wa := view_wfEq a ha va hva'
  have wb := view_wfEq b hb vb hvb'
  by_cases hs : shortcut a b = true
  · cases a <;> cases b <;> simp only [shortcut] at hs <;> try cases hs
    · rw [equals, imageEquals_eq]; simp
    · rw [equals, rectEquals_eq]; simp
    · rw [equals, structEquals_eq]; simp
  · rw [equals_generic a b (by simpa using hs) va vb hva' hvb']
    split <;> rw [meshEqualWith_eq_spec _ _ _ _ wa wb] <;> simp

/-- **C16 (symmetric) — every pair that is evaluated with the smaller tolerance of both sides**, i.e. neither
    object is a PermutedMesh and the two are not structured meshes of the same class:
    `a.equals(b) = b.equals(a)` (and neither raises, `C16_total`). Covers explicit–explicit pairs with hybrid
    and one-sided type sets, and all mixed-representation pairs. -/
theorem C16_symm (a b : AnyMesh) (ha : a.ok = true) (hb : b.ok = true)
    (hva : a.view ≠ none) (hvb : b.view ≠ none) (hrec : receiverTol a b = false) :
    equals a b = equals b a := by
  obtain ⟨va, hva'⟩ := Option.ne_none_iff_exists'.mp hva
  obtain ⟨vb, hvb'⟩ := Option.ne_none_iff_exists'.mp hvb
  have wa := view_wfEq a ha va hva'
  have wb := view_wfEq b hb vb hvb'
  unfold receiverTol at hrec
  simp only [Bool.or_eq_false_iff] at hrec
  obtain ⟨⟨hs, hpa⟩, hpb⟩ := hrec
  have hs' : shortcut b a = false := by
    cases a <;> cases b <;> simp_all [shortcut]
  rw [equals_generic a b hs va vb hva' hvb', equals_generic b a hs' vb va hvb' hva', hpa, hpb]
  simp only [Bool.false_eq_true, if_false]
  rw [meshEqualWith_eq_spec _ _ _ _ wa wb, meshEqualWith_eq_spec _ _ _ _ wb wa, meshEqualSpec_symm,
    Nat.min_comm va.rel, Nat.min_comm va.abs]

/-- **C16 (symmetric, partial: F14).**  For ALL pairs of representations — including PermutedMesh receivers
    and the structured short-cuts — the answer is the same in both argument orders **provided both objects
    report the same tolerances**.  Full statement (false for the code, witness in Witness/C16.lean):
    `∀ a b, equals a b = equals b a`.  Missing: the short-cuts and `PermutedMesh.equals` use the receiver's
    tolerances only, `Mesh.equals` the smaller of both. -/
theorem C16_symm_partial (a b : AnyMesh) (ha : a.ok = true) (hb : b.ok = true)
    (hva : a.view ≠ none) (hvb : b.view ≠ none) (htol : a.tol = b.tol) :
    equals a b = equals b a := by
  obtain ⟨va, hva'⟩ := Option.ne_none_iff_exists'.mp hva
  obtain ⟨vb, hvb'⟩ := Option.ne_none_iff_exists'.mp hvb
  have wa := view_wfEq a ha va hva'
  have wb := view_wfEq b hb vb hvb'
  have ta := view_tol a va hva'
  have tb := view_tol b vb hvb'
  have hrt : va.rel = vb.rel ∧ va.abs = vb.abs := by
    have : (va.rel, va.abs) = (vb.rel, vb.abs) := by rw [ta, tb, htol]
    exact ⟨congrArg Prod.fst this, congrArg Prod.snd this⟩
  by_cases hs : shortcut a b = true
  · cases a <;> cases b <;> simp only [shortcut] at hs <;> try cases hs
    · rename_i x y
      exact imageEquals_symm x y ha hb (congrArg Prod.fst htol) (congrArg Prod.snd htol)
    · rename_i x y
      exact rectEquals_symm x y (congrArg Prod.fst htol) (congrArg Prod.snd htol)
    · rename_i x y
      exact structEquals_symm x y ha hb (congrArg Prod.fst htol) (congrArg Prod.snd htol)
  · have hs1 : shortcut a b = false := by simpa using hs
    have hs' : shortcut b a = false := by
      cases a <;> cases b <;> simp_all [shortcut]
    rw [equals_generic a b hs1 va vb hva' hvb', equals_generic b a hs' vb va hvb' hva']
    have e1 : (if a.isPermuted = true then meshEqualWith va.rel va.abs va.mesh vb.mesh
        else meshEqualWith (min va.rel vb.rel) (min va.abs vb.abs) va.mesh vb.mesh) =
        meshEqualWith va.rel va.abs va.mesh vb.mesh := by
      split
      · rfl
      · rw [← hrt.1, ← hrt.2, Nat.min_self, Nat.min_self]
    have e2 : (if b.isPermuted = true then meshEqualWith vb.rel vb.abs vb.mesh va.mesh
        else meshEqualWith (min vb.rel va.rel) (min vb.abs va.abs) vb.mesh va.mesh) =
        meshEqualWith va.rel va.abs vb.mesh va.mesh := by
      split
      · rw [hrt.1, hrt.2]
      · rw [← hrt.1, ← hrt.2, Nat.min_self, Nat.min_self]
    rw [e1, e2, meshEqualWith_eq_spec _ _ _ _ wa wb, meshEqualWith_eq_spec _ _ _ _ wb wa, meshEqualSpec_symm]

/-! ### structured short-cuts vs the explicit representation of the same grids -/

/-- **C16 (rectilinear short-cut is sound — all three directions).**  If `RectilinearMesh.equals` answers
    "equal", then `mesh_equal` on the explicit points / connectivity the two objects generate answers "equal"
    too (evaluated with the same tolerances). -/
theorem C16_structured_sound_rect (a b : RectGrid) (h : rectEquals a b = .ok true) :
    meshEqualWith a.rel a.abs a.toMesh b.toMesh = .ok true := by
  rw [rectEquals_eq] at h
  have h' : basicGridEq a.ext b.ext = true ∧ rectOrdsEqual a b = true := by simpa using h
  obtain ⟨hbasic, hords⟩ := h'
  have hext : a.ext = b.ext := by
    unfold basicGridEq at hbasic; simp only [Bool.and_eq_true, beq_iff_eq] at hbasic; exact hbasic.1
  unfold rectOrdsEqual at hords
  simp only [List.all_eq_true, List.mem_range] at hords
  have hx := (fuzzyOk_vec_iff _ _ _ _).mp (hords 0 (by omega))
  have hy := (fuzzyOk_vec_iff _ _ _ _).mp (hords 1 (by omega))
  have hz := (fuzzyOk_vec_iff _ _ _ _).mp (hords 2 (by omega))
  have hclose := rectPoints_close a.rel a.abs _ _ _ _ _ _ hx hy hz
  unfold meshEqualWith
  have hp : fuzzyCheck (.num a.rel) (.num a.abs) (pointArr a.toMesh) (pointArr b.toMesh) = .ok true := by
    unfold pointArr RectGrid.toMesh
    exact fuzzyOk_points_of_close a.rel a.abs 3 _ _ hclose
  rw [hp]
  apply cellsEqual_same _ _ (RectGrid.toMesh_wfEq a) (RectGrid.toMesh_wfEq b)
  unfold RectGrid.toMesh RectGrid.cellType
  rw [hext]

/-- **C16 (structured short-cut is sound).**  Same statement for `StructuredMesh.equals`. -/
theorem C16_structured_sound_struct (a b : StructGrid) (ha : a.ok = true) (hb : b.ok = true)
    (h : structEquals a b = .ok true) :
    meshEqualWith a.rel a.abs a.toMesh b.toMesh = .ok true := by
  rw [structEquals_eq] at h
  have h' : basicGridEq a.ext b.ext = true ∧ fuzzyOk a.rel a.abs (pointArr a.toMesh) (pointArr b.toMesh) = true := by
    simpa using h
  obtain ⟨hbasic, hpts⟩ := h'
  have hext : a.ext = b.ext := by
    unfold basicGridEq at hbasic; simp only [Bool.and_eq_true, beq_iff_eq] at hbasic; exact hbasic.1
  unfold meshEqualWith
  have hp : fuzzyCheck (.num a.rel) (.num a.abs) (pointArr a.toMesh) (pointArr b.toMesh) = .ok true := by
    unfold fuzzyOk at hpts; simpa using hpts
  rw [hp]
  apply cellsEqual_same _ _ (StructGrid.toMesh_wfEq a ha) (StructGrid.toMesh_wfEq b hb)
  unfold StructGrid.toMesh StructGrid.cellType
  rw [hext]

/-- **C16 (independent of the representation, rectilinear / structured).**  With equal tolerances on both
    objects: a short-cut answer "equal" implies that the two grids also compare equal as explicit meshes
    (`Mesh(points, connectivity)` carrying the same tolerances) — in both argument orders. -/
theorem C16_structured_sound (a b : AnyMesh) (ha : a.ok = true) (hb : b.ok = true)
    (hcls : (∃ x y, a = .rect x ∧ b = .rect y) ∨ (∃ x y, a = .struct x ∧ b = .struct y))
    (htol : a.tol = b.tol) (h : equals a b = .ok true) :
    ∀ va vb, a.view = some va → b.view = some vb →
      equals (.explicit va) (.explicit vb) = .ok true ∧ equals (.explicit vb) (.explicit va) = .ok true := by
  intro va vb hva hvb
  have key : meshEqualWith va.rel va.abs va.mesh vb.mesh = .ok true ∧ va.rel = vb.rel ∧ va.abs = vb.abs := by
    rcases hcls with ⟨x, y, rfl, rfl⟩ | ⟨x, y, rfl, rfl⟩
    · simp only [AnyMesh.view, Option.some.injEq] at hva hvb
      subst hva; subst hvb
      exact ⟨C16_structured_sound_rect x y (by simpa [equals] using h), congrArg Prod.fst htol, congrArg Prod.snd htol⟩
    · simp only [AnyMesh.view, Option.some.injEq] at hva hvb
      subst hva; subst hvb
      exact ⟨C16_structured_sound_struct x y ha hb (by simpa [equals] using h),
        congrArg Prod.fst htol, congrArg Prod.snd htol⟩
  obtain ⟨hk, hr, ht⟩ := key
  have wa := view_wfEq a ha va hva
  have wb := view_wfEq b hb vb hvb
  have e1 : equals (.explicit va) (.explicit vb) = .ok true := by
    simp only [equals, viaMeshEqual, AnyMesh.view, meshEqual]
    rw [← hr, ← ht, Nat.min_self, Nat.min_self]; exact hk
  refine ⟨e1, ?_⟩
  rw [← C16_symm (.explicit va) (.explicit vb) wa wb (by simp [AnyMesh.view]) (by simp [AnyMesh.view]) rfl]
  exact e1

/-- **C16 (short-cuts are complete): "equal" whenever all defining parameters agree within the tolerance** —
    in fact exactly then.  Rectilinear: extents and the ordinates of all three directions. -/
theorem C16_structured_complete_rect (a b : RectGrid) :
    rectEquals a b = .ok (rectParamsWithin a.rel a.abs a b) := by
  rw [rectEquals_eq]
  congr 1
  unfold basicGridEq rectParamsWithin rectOrdsEqual
  simp only [fuzzyOk_vec_eq_listWithin]
  by_cases h : a.ext = b.ext
  · rw [h]; simp
  · rw [beq_eq_false_iff_ne.mpr h]; simp only [Bool.false_and]

/-- structured: extents, number of points and columns, every coordinate -/
theorem C16_structured_complete_struct (a b : StructGrid) (ha : a.ok = true) (hb : b.ok = true) :
    structEquals a b = .ok (structParamsWithin a.rel a.abs a b) := by
  rw [structEquals_eq]
  congr 1
  unfold basicGridEq structParamsWithin fuzzyOk pointArr StructGrid.toMesh listWithin
  simp only
  rw [fuzzyCheck_num_f64 _ _ _ _ _ _ (by simp), verdict_ok_beq, points_flat_length a ha, points_flat_length b hb]
  unfold fuzzyList
  rw [points_flat_length a ha]
  by_cases h : a.ext = b.ext
  · by_cases h1 : a.points.length = b.points.length
    · by_cases h2 : a.dim = b.dim
      · simp [h, h1, h2]
      · simp [h, h1, h2]
    · simp [h, h1]
  · rw [beq_eq_false_iff_ne.mpr h]; simp only [Bool.false_and]

/-- image: extents, origin, spacing and basis -/
theorem C16_structured_complete_image (a b : ImageGrid) (ha : a.ok = true) (hb : b.ok = true) :
    imageEquals a b = .ok (imageParamsWithin a.rel a.abs a b) := by
  rw [imageEquals_eq]
  congr 1
  unfold basicGridEq imageParamsWithin
  simp only [fuzzyOk_vec_eq_listWithin]
  have hm : fuzzyOk a.rel a.abs (matArr a.basis) (matArr b.basis) = listWithin a.rel a.abs a.basis.flatten b.basis.flatten := by
    unfold fuzzyOk matArr listWithin
    rw [fuzzyCheck_num_f64 _ _ _ _ _ _ rfl, verdict_ok_beq, basis_flat_length a ha, basis_flat_length b hb]
    unfold fuzzyList
    rw [basis_flat_length a ha]
    simp
  rw [hm]
  by_cases h : a.ext = b.ext
  · rw [h]; simp
  · rw [beq_eq_false_iff_ne.mpr h]; simp only [Bool.false_and]

/-- **C16 (image short-cut, partial: F7).**  What `ImageMesh.equals = equal` does guarantee about the explicit
    representation: the two grids generate the same number of points, the same cell type and the same
    connectivity (the whole cell part of `mesh_equal` passes), and their origins agree within tolerance.
    Full statement (false for the code, witness `C16_F7_witness` in Witness/C16.lean):
      `imageEquals a b = .ok true → meshEqualWith a.rel a.abs (toMesh a) (toMesh b) = .ok true`.
    Missing: the POINTS away from the origin — spacing and basis are compared with the absolute tolerance
    scaled by the largest coordinate, so a spacing difference below that tolerance is multiplied by the
    number of cells (or by the spacing, for the basis) in the generated points. -/
theorem C16_structured_sound_partial (a b : ImageGrid) (ma mb : Mesh)
    (hma : a.toMesh = some ma) (hmb : b.toMesh = some mb) (h : imageEquals a b = .ok true) :
    cellsEqual ma mb = .ok true ∧ ma.numPoints = mb.numPoints ∧
    listWithin a.rel a.abs a.origin b.origin = true := by
  rw [imageEquals_eq] at h
  have h' : ((basicGridEq a.ext b.ext = true ∧ fuzzyOk a.rel a.abs (vecArr a.origin) (vecArr b.origin) = true) ∧
      fuzzyOk a.rel a.abs (vecArr a.spacing) (vecArr b.spacing) = true) ∧
      fuzzyOk a.rel a.abs (matArr a.basis) (matArr b.basis) = true := by simpa using h
  obtain ⟨⟨⟨hbasic, ho⟩, _⟩, _⟩ := h'
  have hext : a.ext = b.ext := by
    unfold basicGridEq at hbasic; simp only [Bool.and_eq_true, beq_iff_eq] at hbasic; exact hbasic.1
  have wa := ImageGrid.toMesh_wfEq a ma hma
  have wb := ImageGrid.toMesh_wfEq b mb hmb
  unfold ImageGrid.toMesh at hma hmb
  cases hpa : a.points with
  | none => rw [hpa] at hma; cases hma
  | some pa =>
    cases hpb : b.points with
    | none => rw [hpb] at hmb; cases hmb
    | some pb =>
      rw [hpa] at hma; rw [hpb] at hmb
      simp only [Option.map_some, Option.some.injEq] at hma hmb
      subst hma; subst hmb
      refine ⟨?_, ?_, by rw [← fuzzyOk_vec_eq_listWithin]; exact ho⟩
      · apply cellsEqual_same _ _ wa wb
        unfold ImageGrid.cellType
        rw [hext]
      · unfold Mesh.numPoints
        simp only
        unfold ImageGrid.points at hpa hpb
        simp only at hpa hpb
        split at hpa
        · split at hpb
          · cases hpa; cases hpb
            simp [hext]
          · cases hpb
        · cases hpa

end Fc
