/-
  Property C08 — reordering transformations only relabel; no point, cell or value is lost.
  Only property theorems live here; helper lemmas are in FcProofs/Lemmas/Permuted.lean and
  FcProofs/Lemmas/C08Transform.lean.

  Model:  `Fc.applyPermuted` (PermutedMesh + TransformedMeshFields, FcModel/Permuted.lean),
          `Fc.stripOrphanPoints / sortPoints / sortCells / sortAll / applyReorderings`
          (FcModel/Transform.lean), `Fc.extendSpaceDim` (FcModel/Extend.lean)
  Spec:   `MeshFields.pointContent / cellContent` (FcModel/Mesh.lean) compared as multisets
          (`Fc.SameContent`, decidable version `Fc.Spec.sameContent`), `Fc.Spec.keptPoints`,
          `Fc.Spec.extendSpec`
  `argsort`, Python's `hash` and the fuzzy point sorter are PARAMETERS; the theorems hold for every
  choice that returns permutations (`SortParamsOk`).
-/
import FcProofs.Lemmas.C08Transform
import FcProofs.Lemmas.Extend
namespace Fc
open Spec

/-- **C08 (one PermutedMesh / TransformedMeshFields layer is an isomorphism).**
    For ANY point index map that is non-empty, injective, in range and covers every point some
    cell references (it may drop unreferenced points), and ANY per-type cell index maps that are
    permutations of their cell ranges: the layer does not raise, and the point items over
    connected points and the cell items of the view are permutations of the original's — no
    point, cell or field value is lost, duplicated or attached to another entity. -/
theorem C08_permuted_iso (f : MeshFields) (pp : Option (List Nat)) (cp : Option CellPerms)
    (h : PermHyp f pp cp) :
    ∃ f', applyPermuted pp cp f = some f' ∧
      f'.pointContent.Perm f.pointContent ∧ f'.cellContent.Perm f.cellContent ∧ WFP f' := by
  obtain ⟨h1, h2, h3⟩ := layer_spec h
  exact ⟨_, h1, h2.1, h2.2, h3⟩

/-- the same with the decidable hypothesis / verdict the driver prints (`hyp=1 ⇒ same=1`) -/
theorem C08_permuted_iso_decidable (f : MeshFields) (pp : Option (List Nat)) (cp : Option CellPerms)
    (h : permHypB f pp cp = true) :
    ∃ f', applyPermuted pp cp f = some f' ∧ sameContent f f' = true := by
  obtain ⟨h1, h2, _⟩ := layer_spec (permHypB_PermHyp f pp cp h)
  exact ⟨_, h1, sameContent_bool h2⟩

/-- **C08 (no use of uninitialised memory).**  The inverse table has `max + 1` slots of which only
    those named by the index map are assigned; under the hypothesis of `C08_permuted_iso` every
    corner index of every cell reads an ASSIGNED slot, and what it reads is the position of that
    point in the index map. -/
theorem C08_inverse_reads_assigned (f : MeshFields) (perm : List Nat) (cp : Option CellPerms)
    (h : PermHyp f (some perm) cp) :
    ∃ inv, makeInverse perm = some inv ∧
      ∀ b ∈ f.mesh.cells, ∀ row ∈ b.2, ∀ p ∈ row,
        ∃ j, ∃ hj : j < perm.length, readInverse inv p = some j ∧ perm[j] = p := by
  have P := h.pp perm rfl
  obtain ⟨inv, hinv⟩ := makeInverse_isSome perm P.ne
  refine ⟨inv, hinv, ?_⟩
  intro b hb row hrow p hp
  obtain ⟨j, hj, rfl⟩ := List.getElem_of_mem (P.covers p (connected_of_mem hb hrow hp))
  exact ⟨j, hj, readInverse_makeInverse perm inv P.nodup hinv j hj, rfl⟩

/-- **C08 (index map of `strip_orphan_points`).**  For EVERY argsort of the boolean mask (numpy's
    default is not stable), `_unconnected_points_filter_map` is injective and enumerates exactly
    the referenced points. -/
theorem C08_filter_map (f : MeshFields) (h : WFP f) (argsortB : List Bool → List Nat)
    (hs : IsBoolArgsort (isUnconnectedMask f.mesh) (argsortB (isUnconnectedMask f.mesh))) :
    ∃ fm, unconnectedFilterMap argsortB f.mesh = some fm ∧ fm.Nodup ∧
      ∀ p, p ∈ fm ↔ f.mesh.connected p = true :=
  unconnectedFilterMap_spec h argsortB hs

/-- … and with a STABLE argsort it is the strictly increasing list of the referenced points, i.e.
    relative order is kept.  (For an unstable argsort this is false: see the Witness file.) -/
theorem C08_filter_map_stable (f : MeshFields) (h : WFP f) :
    unconnectedFilterMap stableArgsortBool f.mesh = some (keptPoints f.mesh) ∧
    (keptPoints f.mesh).Pairwise (· < ·) :=
  ⟨unconnectedFilterMap_stable h, List.Pairwise.filter _ List.pairwise_lt_range⟩

/-- **C08 (strip).**  Whatever argsort numpy uses: stripping keeps precisely the referenced points
    (each exactly once, every kept point is referenced, the unreferenced ones are gone) and the
    geometric content is unchanged. -/
theorem C08_strip (f : MeshFields) (h : WFP f) (argsortB : List Bool → List Nat)
    (hs : ∀ keys, IsBoolArgsort keys (argsortB keys)) (hne : ∃ p, f.mesh.connected p = true) :
    ∃ f', stripOrphanPoints argsortB f = some f' ∧ SameContent f f' ∧ WFP f' ∧
      f'.mesh.points.Perm ((keptPoints f.mesh).map (f.mesh.points.getD · [])) ∧
      (∀ j, j < f'.mesh.numPoints → f'.mesh.connected j = true) ∧
      f'.mesh.cellTypes = f.mesh.cellTypes := by
  obtain ⟨fm, h1, h2, h3⟩ := unconnectedFilterMap_spec h argsortB (hs _)
  have P : PermHyp f (some fm) none := by
    refine ⟨h, ?_, fun _ e => (by cases e)⟩
    intro perm e; cases e
    refine ⟨?_, h2, fun p hp => connected_lt h ((h3 p).mp hp), fun p hp => (h3 p).mpr hp⟩
    obtain ⟨p, hp⟩ := hne
    exact List.ne_nil_of_mem ((h3 p).mpr hp)
  obtain ⟨e1, e2, e3⟩ := layer_spec P
  have R := layerResult_relabel P
  refine ⟨_, by simp [stripOrphanPoints, h1, e1], e2, e3, ?_, ?_, ?_⟩
  · show (fm.map _).Perm _
    apply List.Perm.map
    apply (List.perm_ext_iff_of_nodup h2 (List.nodup_range.filter _)).mpr
    intro p
    rw [h3 p]
    show _ ↔ p ∈ (List.range f.mesh.numPoints).filter f.mesh.connected
    simp only [List.mem_filter, List.mem_range]
    exact ⟨fun hc => ⟨connected_lt h hc, hc⟩, fun hc => hc.2⟩
  · intro j hj
    rw [R.numPoints'] at hj
    rw [R.connected_eq j hj]
    exact (h3 _).mp (List.getElem_mem hj)
  · simp [layerResult, Mesh.cellTypes, Function.comp]

/-- when no cell references any point, `strip_orphan_points` raises (`np.argmax` of the empty
    index map) — an error, not a wrong data set -/
theorem C08_strip_unreferenced_raises (f : MeshFields) (h : WFP f) (argsortB : List Bool → List Nat)
    (hs : ∀ keys, IsBoolArgsort keys (argsortB keys)) (hno : ∀ p, f.mesh.connected p = false) :
    stripOrphanPoints argsortB f = none := by
  obtain ⟨fm, h1, _, h3⟩ := unconnectedFilterMap_spec h argsortB (hs _)
  have : fm = [] := by
    cases fm with
    | nil => rfl
    | cons x t =>
      have := (h3 x).mp (by simp)
      rw [hno x] at this; cases this
  subst this
  simp [stripOrphanPoints, h1, applyPermuted_empty]

/-- **C08 (sort_points).**  For ANY index list the point sorter returns, as long as it is a
    permutation of the point range: every point (orphans included) is kept exactly once and the
    geometric content is unchanged. -/
theorem C08_sort_points (f : MeshFields) (h : WFP f) (sorter : Mesh → Option (List Nat)) (σ : List Nat)
    (hσ : sorter f.mesh = some σ) (hperm : σ.Perm (List.range f.mesh.numPoints))
    (hn : 0 < f.mesh.numPoints) :
    ∃ f', sortPoints sorter f = some f' ∧ SameContent f f' ∧ WFP f' ∧
      f'.mesh.points.Perm f.mesh.points ∧ f'.mesh.cellTypes = f.mesh.cellTypes := by
  have P : PermHyp f (some σ) none :=
    ⟨h, fun perm e => (by cases e; exact pointPermOk_of_perm h σ hperm hn), fun _ e => (by cases e)⟩
  obtain ⟨e1, e2, e3⟩ := layer_spec P
  refine ⟨_, by simp [sortPoints, hσ, e1], e2, e3, ?_, ?_⟩
  · show (σ.map _).Perm _
    have := hperm.map (f.mesh.points.getD · [])
    rw [Mesh.numPoints, getD_map_range] at this
    exact this
  · simp [layerResult, Mesh.cellTypes, Function.comp]

/-- **C08 (sort_cells).**  For ANY hash function and ANY argsort of the hashes: points and point
    fields are untouched, the cells of every type are permuted together with their field values,
    and the geometric content is unchanged. -/
theorem C08_sort_cells (f : MeshFields) (h : WFP f) (hash : List Nat → Int) (argsortI : List Int → List Nat)
    (hI : ∀ keys : List Int, (argsortI keys).Perm (List.range keys.length)) :
    ∃ f', sortCells hash argsortI f = some f' ∧ SameContent f f' ∧ WFP f' ∧
      f'.mesh.points = f.mesh.points ∧ f'.pointFields = f.pointFields ∧
      f'.mesh.cellTypes = f.mesh.cellTypes := by
  have P : PermHyp f none (some (f.mesh.cells.map fun b => (b.1, cellSortMap hash argsortI b.2))) := by
    refine ⟨h, fun _ e => (by cases e), ?_⟩
    intro cps e; cases e
    intro b hb
    refine ⟨_, cellPermOf_map f.mesh.cells (fun b => cellSortMap hash argsortI b.2) h.types b hb, ?_⟩
    have := hI (b.2.map fun r => hash (sortCellsKey r))
    simpa [cellSortMap] using this
  obtain ⟨e1, e2, e3⟩ := layer_spec P
  refine ⟨_, by simp [sortCells, e1], e2, e3, ?_, ?_, ?_⟩
  · show ((List.range f.mesh.numPoints).map _) = _
    rw [Mesh.numPoints, getD_map_range]
  · show (f.pointFields.map fun pf => (⟨pf.name, pf.values⟩ : PointField)) = f.pointFields
    exact List.map_id' _
  · simp [layerResult, Mesh.cellTypes, Function.comp]

/-- **C08 (every public reordering, implication form).**  Whenever `strip_orphan_points`,
    `sort_points`, `sort_cells` or `sort` returns — they may raise: nothing referenced, or the point
    sorter refuses unconnected duplicate points — what it returns is the same geometric object and
    again a well-formed data set. -/
theorem C08_reordering (P : SortParams) (hP : SortParamsOk P) (t : Reordering) (f f' : MeshFields)
    (h : WFP f) (hr : applyReordering P t f = some f') : SameContent f f' ∧ WFP f' := by
  -- the three primitive steps
  have strip : ∀ g g', WFP g → stripOrphanPoints P.argsortB g = some g' → SameContent g g' ∧ WFP g' := by
    intro g g' hg hs
    by_cases hne : ∃ p, g.mesh.connected p = true
    · obtain ⟨k, e1, e2, e3, _⟩ := C08_strip g hg P.argsortB hP.argsortB hne
      rw [e1] at hs; cases hs; exact ⟨e2, e3⟩
    · have hno : ∀ p, g.mesh.connected p = false := by
        intro p
        cases hc : g.mesh.connected p with
        | false => rfl
        | true => exact absurd ⟨p, hc⟩ hne
      rw [C08_strip_unreferenced_raises g hg P.argsortB hP.argsortB hno] at hs
      cases hs
  have sortP : ∀ g g', WFP g → sortPoints P.sorter g = some g' → SameContent g g' ∧ WFP g' := by
    intro g g' hg hs
    cases hσ : P.sorter g.mesh with
    | none => simp [sortPoints, hσ] at hs
    | some σ =>
      have hperm := hP.sorter g.mesh σ hσ
      by_cases hn : 0 < g.mesh.numPoints
      · obtain ⟨k, e1, e2, e3, _⟩ := C08_sort_points g hg P.sorter σ hσ hperm hn
        rw [e1] at hs; cases hs; exact ⟨e2, e3⟩
      · have : σ = [] := by
          have hl := hperm.length_eq
          have : g.mesh.numPoints = 0 := by omega
          rw [this] at hl
          simpa using hl
        subst this
        simp [sortPoints, hσ, applyPermuted_empty] at hs
  have sortC : ∀ g g', WFP g → sortCells P.h P.argsortI g = some g' → SameContent g g' ∧ WFP g' := by
    intro g g' hg hs
    obtain ⟨k, e1, e2, e3, _⟩ := C08_sort_cells g hg P.h P.argsortI hP.argsortI
    rw [e1] at hs; cases hs; exact ⟨e2, e3⟩
  cases t with
  | strip => exact strip f f' h hr
  | sortPoints => exact sortP f f' h hr
  | sortCells => exact sortC f f' h hr
  | sort =>
    simp only [applyReordering, sortAll] at hr
    cases h1 : stripOrphanPoints P.argsortB f with
    | none => simp [h1] at hr
    | some f1 =>
      simp only [h1] at hr
      obtain ⟨c1, w1⟩ := strip f f1 h h1
      cases h2 : sortPoints P.sorter f1 with
      | none => simp [h2] at hr
      | some f2 =>
        simp only [h2] at hr
        obtain ⟨c2, w2⟩ := sortP f1 f2 w1 h2
        obtain ⟨c3, w3⟩ := sortC f2 f' w2 hr
        exact ⟨(c1.trans c2).trans c3, w3⟩

/-- **C08 (sort).** -/
theorem C08_sort (P : SortParams) (hP : SortParamsOk P) (f f' : MeshFields) (h : WFP f)
    (hr : sortAll P f = some f') : SameContent f f' ∧ WFP f' :=
  C08_reordering P hP .sort f f' h hr

/-- `sort` does return when something is referenced and the point sorter does not refuse -/
theorem C08_sort_returns (P : SortParams) (hP : SortParamsOk P) (f : MeshFields) (h : WFP f)
    (hne : ∃ p, f.mesh.connected p = true) (hsorter : ∀ m, (P.sorter m).isSome = true) :
    ∃ f', sortAll P f = some f' := by
  obtain ⟨f1, e1, _, w1, _, hall, _⟩ := C08_strip f h P.argsortB hP.argsortB hne
  have hn1 : 0 < f1.mesh.numPoints := by
    rcases Nat.eq_zero_or_pos f1.mesh.numPoints with h0 | hpos
    · -- a referenced point survives stripping
      exfalso
      obtain ⟨p, hp⟩ := hne
      obtain ⟨fm, hfm, _, hmem⟩ := unconnectedFilterMap_spec h P.argsortB (hP.argsortB _)
      have hp' := (hmem p).mpr hp
      simp only [stripOrphanPoints, hfm] at e1
      have := applyPermuted_eq (f := f) (pp := some fm) (cp := none)
        ⟨h, fun perm e => by
            cases e
            exact ⟨List.ne_nil_of_mem hp', by assumption, fun q hq => connected_lt h ((hmem q).mp hq),
              fun q hq => (hmem q).mpr hq⟩,
          fun _ e => (by cases e)⟩
      rw [this] at e1
      cases e1
      simp [layerResult, Mesh.numPoints, effPerm] at h0
      subst h0
      cases hp'
    · exact hpos
  obtain ⟨σ, hσ⟩ := Option.isSome_iff_exists.mp (hsorter f1.mesh)
  obtain ⟨f2, e2, _, w2, _⟩ := C08_sort_points f1 w1 P.sorter σ hσ (hP.sorter _ _ hσ) hn1
  obtain ⟨f3, e3, _⟩ := C08_sort_cells f2 w2 P.h P.argsortI hP.argsortI
  exact ⟨f3, by simp [sortAll, e1, e2, e3]⟩

/-- **C08 (closure under composition).**  Any finite composition of the public reorderings —
    lazily nested `TransformedMeshFields` in the code — that returns, returns the same geometric
    object.  Induction over the composition list. -/
theorem C08_compose (P : SortParams) (hP : SortParamsOk P) (ts : List Reordering) (f f' : MeshFields)
    (h : WFP f) (hr : applyReorderings P ts f = some f') : SameContent f f' ∧ WFP f' := by
  induction ts generalizing f with
  | nil =>
    simp only [applyReorderings, Option.some.injEq] at hr
    subst hr
    exact ⟨SameContent.refl f, h⟩
  | cons t ts ih =>
    simp only [applyReorderings] at hr
    cases h1 : applyReordering P t f with
    | none => simp [h1] at hr
    | some f1 =>
      simp only [h1] at hr
      obtain ⟨c1, w1⟩ := C08_reordering P hP t f f1 h h1
      obtain ⟨c2, w2⟩ := ih f1 w1 hr
      exact ⟨c1.trans c2, w2⟩

/-! ### dimension extension -/

/-- **C08 (extend = zero-padded copy, entry by entry).**  For every target dimension `sd`:
    `extend_space_dimension_to` returns exactly the specification `Spec.extendSpec` — the copy whose
    point `p` has coordinates `(x_0 … x_{d-1}, 0 … 0)`, whose vector entries `(i, c)` / tensor entries
    `(i, r, c)` are the old entries when `r, c < d` and `0` otherwise, with scalars (shape `(n,)`,
    `(n, 1)`), fields that already have `sd` components, connectivity and cell types untouched —
    and it raises exactly when the specification is undefined (`sd < d`; a vector/tensor field whose
    component count fits neither dimension; rank > 3).
    Hypothesis `NoUnitAxis`: no tensor field with an axis of length 1 (numpy would broadcast it,
    see `C08_extend_error_only_partial`). -/
theorem C08_extend (f : MeshFields) (h : WFP f) (sd : Nat)
    (hp : ∀ pf ∈ f.pointFields, NoUnitAxis f.mesh.dim sd pf.values)
    (hc : ∀ cf ∈ f.cellFields, NoUnitAxis f.mesh.dim sd cf.values) :
    extendSpaceDim sd f = extendSpec sd f :=
  extend_eq_spec f h sd hp hc

/-- **C08 (extend: never a wrong array) — partial.**
    Full statement (FALSE for the code as it is): for every well-formed `f`, `sd`, `f'`:
      `extendSpaceDim sd f = some f' → extendSpec sd f = some f'`.
    It fails when a tensor field has an axis of length 1 on a mesh of dimension 2: numpy broadcasts
    the assignment `result[:, :2, :2] = values` and the single value is written into 2 or 4 slots
    (negation witness: `FcProofs/Witness/C08.lean`).  Proved under `NoUnitAxis`. -/
theorem C08_extend_error_only_partial (f f' : MeshFields) (h : WFP f) (sd : Nat)
    (hp : ∀ pf ∈ f.pointFields, NoUnitAxis f.mesh.dim sd pf.values)
    (hc : ∀ cf ∈ f.cellFields, NoUnitAxis f.mesh.dim sd cf.values)
    (hr : extendSpaceDim sd f = some f') : extendSpec sd f = some f' := by
  rw [← extend_eq_spec f h sd hp hc]; exact hr

/-- **C08 (extend: mesh part, no hypothesis at all).**  Whatever the fields look like: if the
    extension returns, the cells are untouched, the space dimension is the target and every point
    got exactly `sd − d` zero coordinates appended (no point added, dropped or moved). -/
theorem C08_extend_mesh (f f' : MeshFields) (sd : Nat) (hr : extendSpaceDim sd f = some f') :
    f'.mesh.cells = f.mesh.cells ∧ f'.mesh.dim = sd ∧
    f'.mesh.points = f.mesh.points.map (fun p => p ++ zeros (sd - f.mesh.dim)) := by
  by_cases hne : sd = f.mesh.dim
  · have : f' = f := by
      unfold extendSpaceDim at hr
      simp only [hne, if_true, Option.some.injEq] at hr
      exact hr.symm
    subst this
    refine ⟨rfl, hne.symm, ?_⟩
    simp [hne, zeros]
  · obtain ⟨_, hm, _, _⟩ := extend_some hr hne
    rw [hm]
    exact ⟨rfl, rfl, rfl⟩

/-- **C08 (extend leaves scalar fields alone).**  Point and cell fields of shape `(n,)` or `(n, 1)`
    come back unchanged, at the same position in the field lists. -/
theorem C08_extend_scalar_untouched (f f' : MeshFields) (sd : Nat) (hr : extendSpaceDim sd f = some f') :
    (∀ i (h1 : i < f.pointFields.length) (h2 : i < f'.pointFields.length),
      fieldKind f.pointFields[i].values.shape = .scalar → f'.pointFields[i] = f.pointFields[i]) ∧
    (∀ i (h1 : i < f.cellFields.length) (h2 : i < f'.cellFields.length),
      fieldKind f.cellFields[i].values.shape = .scalar → f'.cellFields[i] = f.cellFields[i]) := by
  by_cases hne : sd = f.mesh.dim
  · have : f' = f := by
      unfold extendSpaceDim at hr
      simp only [hne, if_true, Option.some.injEq] at hr
      exact hr.symm
    subst this
    exact ⟨fun _ _ _ _ => rfl, fun _ _ _ _ => rfl⟩
  · obtain ⟨_, _, hpf, hcf⟩ := extend_some hr hne
    constructor
    · intro i h1 h2 hk
      have := congrArg (fun l => l[i]?) hpf
      simp only [List.getElem?_map, List.getElem?_eq_getElem h1, List.getElem?_eq_getElem h2,
        Option.map_some, resizedField_scalar _ _ _ hk, Option.some.injEq] at this
      exact this.symm
    · intro i h1 h2 hk
      have := congrArg (fun l => l[i]?) hcf
      simp only [List.getElem?_map, List.getElem?_eq_getElem h1, List.getElem?_eq_getElem h2,
        Option.map_some, resizedField_scalar _ _ _ hk, Option.some.injEq] at this
      exact this.symm

/-- **C08 (extend keeps every point and every cell).**  The collection of point items over
    connected points and the collection of cell items keep their size and order; coordinates (of the
    points, and of the corners of every cell) are the old ones with `sd − d` zeros appended. -/
theorem C08_extend_content (f f' : MeshFields) (h : WFP f) (sd : Nat)
    (hr : extendSpaceDim sd f = some f') :
    f'.pointContent.map (·.coords) =
      f.pointContent.map (fun it => it.coords ++ zeros (sd - f.mesh.dim)) ∧
    f'.cellContent.map (fun it => (it.ctype, it.corners)) =
      f.cellContent.map (fun it => (it.ctype, it.corners.map (· ++ zeros (sd - f.mesh.dim)))) := by
  obtain ⟨hcells, _, hpts⟩ := C08_extend_mesh f f' sd hr
  have hconn : f'.mesh.connected = f.mesh.connected := by
    funext p; simp [Mesh.connected, hcells]
  have hn : f'.mesh.numPoints = f.mesh.numPoints := by simp [Mesh.numPoints, hpts]
  have hget : ∀ p, p < f.mesh.numPoints →
      f'.mesh.points.getD p [] = f.mesh.points.getD p [] ++ zeros (sd - f.mesh.dim) := by
    intro p hp
    rw [hpts]
    simp [List.getD_eq_getElem?_getD, Mesh.numPoints] at hp ⊢
    simp [hp]
  constructor
  · unfold MeshFields.pointContent
    rw [hconn, hn, List.map_map, List.map_map]
    apply List.map_congr_left
    intro p hp
    have hp' : p < f.mesh.numPoints := List.mem_range.mp (List.mem_filter.mp hp).1
    simp only [Function.comp, MeshFields.pointItem]
    exact hget p hp'
  · unfold MeshFields.cellContent
    rw [hcells, List.map_flatMap, List.map_flatMap]
    apply List.flatMap_congr
    intro b hb
    rw [List.map_map, List.map_map]
    apply List.map_congr_left
    intro c hc
    have hc' : c < b.2.length := List.mem_range.mp hc
    simp only [Function.comp, MeshFields.cellItem, Prod.mk.injEq, true_and, List.map_map]
    apply List.map_congr_left
    intro p hp
    have hrow : b.2.getD c [] ∈ b.2 := by rw [getD_of_lt _ _ hc']; exact List.getElem_mem hc'
    exact hget p (h.inRange b hb _ hrow p hp)

end Fc
