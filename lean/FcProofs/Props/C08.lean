/-
  Property C08 — reordering transformations only relabel; no point, cell or value is lost.
  Only property theorems live here; helper lemmas are in FcProofs/Lemmas/Permuted.lean.
-/
import FcModel.Transform
import FcModel.Extend
import FcModel.Spec.C08
namespace Fc
open Spec

/-- `extend_space_dimension_to` with a smaller target dimension raises -/
theorem C08_extend_smaller_raises (sd : Nat) (f : MeshFields) (h : sd < f.mesh.dim) :
    extendSpaceDim sd f = none := by
  unfold extendSpaceDim
  have h1 : sd ≠ f.mesh.dim := by omega
  simp [h1, h]

end Fc
