/-
  Property C19, glue part — the assumed structure `LadderFacts` (five verdict-level facts about
  strip / sort_points / sort_cells / extend behind `C19_rerun`) reduced, for the CONCRETE
  transformations of C08 (`Fc.Glue.cmpOps`, FcModel/GlueLadder.lean):

    dim_ext, dim_perm, dim_sortc     PROVED (`C19_dim_facts`; the column count a view reports is the
                                     data set's along every call: `C19_dim_faithful`, from
                                     `C08_extend_mesh` and `applyPermuted_dim`)
    canon_perm, canon_sortc          still assumed — as `Glue.CanonFacts` (`C19_rerun_partial`), or, one
                                     level further down, as data-level idempotence of `_permute` and
                                     `sort_cells` on sorted views (`C19_rerun_idempotent_partial`), of which
                                     the strip half is proved (`C19_strip_twice`) and the point-sort half is
                                     proved in C02's model under C02's hypotheses (`C19_sort_points_twice`).

  FULL statement (kept visible): `C19_rerun` for `Glue.cmpOps L cmp` with NO assumption beyond C02's
  decidable hypotheses on the data.  Missing: (i) the equality of C02's `applyPointMap` view and C08's
  `applyPermuted` layer (two models of `PermutedMesh`), (ii) `sort_cells` applied to its own result is the
  identity (needs a STABLE argsort of the hashes or injective hashes, `C02_canonical_cells`),
  (iii) invariance of C02's `pointHyp` under the relabelling performed by the first sort.
-/
import FcProofs.Props.C19
import FcProofs.Lemmas.GlueC19
import FcProofs.Lemmas.GlueC02
namespace Fc
open Fc.C19

/-- **C19 (dimension facts of `LadderFacts`, proved).**  For the concrete operations:
    `dim (ext m x) = m`, `dim (perm x) = dim x`, `dim (sortc x) = dim x`. -/
theorem C19_dim_facts (L : Glue.LadderParams) (cmp : MeshFields → MeshFields → Bool × Bool) :
    (∀ m x, (Glue.cmpOps L cmp).dim ((Glue.cmpOps L cmp).ext m x) = m) ∧
    (∀ x, (Glue.cmpOps L cmp).dim ((Glue.cmpOps L cmp).perm x) = (Glue.cmpOps L cmp).dim x) ∧
    (∀ x, (Glue.cmpOps L cmp).dim ((Glue.cmpOps L cmp).sortc x) = (Glue.cmpOps L cmp).dim x) :=
  ⟨fun _ _ => rfl, fun _ => rfl, fun _ => rfl⟩

/-- … and the column count a view carries is not a modelling artefact: starting from views of data
    sets (`Glue.viewOf`), after a call of the comparator — whatever rungs it went through — both
    views still report the dimension of the data set they hold (`extend_space_dimension_to(m, ·)`
    yields dimension `m`: `C08_extend_mesh`; `PermutedMesh` layers keep it: `applyPermuted_dim`). -/
theorem C19_dim_faithful (L : Glue.LadderParams) (cmp : MeshFields → MeshFields → Bool × Bool)
    (fl : CmpFlags) (st : CmpState Glue.CView) (h1 : Glue.Consistent st.src) (h2 : Glue.Consistent st.ref) :
    Glue.Consistent (runComparator (Glue.cmpOps L cmp) fl st).state.src ∧
    Glue.Consistent (runComparator (Glue.cmpOps L cmp) fl st).state.ref :=
  Glue.run_state_inv (Glue.cmpOps L cmp) fl Glue.Consistent
    (fun m x _ => Glue.consistent_ext L cmp m x) (Glue.consistent_perm L cmp) (Glue.consistent_sortc L cmp)
    st h1 h2

/-- **C19 (re-running a comparator) — partial: 2 assumptions instead of 5.**
    FULL statement: as `C19_rerun`, no assumption.  Here: for the concrete transformations the
    three dimension facts are discharged; assumed (named `hcanon`): the two verdict-level
    canonicity facts `Glue.CanonFacts` (a sorted view compared after another `_permute`, or another
    `_permute` + `sort_cells`, gives the same suite). -/
theorem C19_rerun_partial (L : Glue.LadderParams) (cmp : MeshFields → MeshFields → Bool × Bool)
    (hcanon : Glue.CanonFacts (Glue.cmpOps L cmp)) (fl : CmpFlags) (k : Nat) (st : CmpState Glue.CView) :
    ∀ s ∈ rerun (Glue.cmpOps L cmp) fl k st, s = (runComparator (Glue.cmpOps L cmp) fl st).suite :=
  C19_rerun (Glue.cmpOps L cmp) (Glue.ladderFacts_of_canon L cmp hcanon) fl k st

/-- the same with the assumptions pushed down to the DATA level (no comparison involved): on a
    sorted view `g = sort_cells(_permute(f))`, `_permute` returns `g` (`hidemP`) and `sort_cells`
    returns `g` (`hidemC`) -/
theorem C19_rerun_idempotent_partial (L : Glue.LadderParams) (cmp : MeshFields → MeshFields → Bool × Bool)
    (hidemP : ∀ f g, Glue.sortedView L f = some g → Glue.permuteFields L g = some g)
    (hidemC : ∀ f g, Glue.sortedView L f = some g → sortCells L.sort.h L.sort.argsortI g = some g)
    (fl : CmpFlags) (k : Nat) (st : CmpState Glue.CView) :
    ∀ s ∈ rerun (Glue.cmpOps L cmp) fl k st, s = (runComparator (Glue.cmpOps L cmp) fl st).suite :=
  C19_rerun_partial L cmp (Glue.canon_of_idempotent L cmp hidemP hidemC) fl k st

/-- a fresh comparator agrees with the reused one (corollary, same two assumptions) -/
theorem C19_fresh_comparator_equals_reused_partial (L : Glue.LadderParams)
    (cmp : MeshFields → MeshFields → Bool × Bool) (hcanon : Glue.CanonFacts (Glue.cmpOps L cmp))
    (fl : CmpFlags) (k : Nat) (S R : MeshFields) :
    (rerun (Glue.cmpOps L cmp) fl (k + 1) ⟨Glue.viewOf S, Glue.viewOf R⟩).getLast? =
      some (runComparator (Glue.cmpOps L cmp) fl ⟨Glue.viewOf S, Glue.viewOf R⟩).suite :=
  C19_fresh_comparator_equals_reused (Glue.cmpOps L cmp) (Glue.ladderFacts_of_canon L cmp hcanon) fl k _

/-- **C19 (strip is idempotent up to a relabelling that keeps every point).**  From `C08_strip`
    and `C08_filter_map`: after one `strip_orphan_points` every point is referenced, so a second
    strip — with ANY argsort — drops nothing: same number of points, the point rows are a
    permutation, the geometric content is unchanged; and with a stable argsort its index map is
    the identity `range n`. -/
theorem C19_strip_twice (f : MeshFields) (h : WFP f) (a1 a2 : List Bool → List Nat)
    (h1 : ∀ keys, IsBoolArgsort keys (a1 keys)) (h2 : ∀ keys, IsBoolArgsort keys (a2 keys))
    (hne : ∃ p, f.mesh.connected p = true) :
    ∃ f1 f2, stripOrphanPoints a1 f = some f1 ∧ stripOrphanPoints a2 f1 = some f2 ∧
      f2.mesh.points.Perm f1.mesh.points ∧ SameContent f1 f2 ∧
      unconnectedFilterMap stableArgsortBool f1.mesh = some (List.range f1.mesh.numPoints) := by
  obtain ⟨f1, e1, _, w1, hp1, hall1, _⟩ := C08_strip f h a1 h1 hne
  have hpos : 0 < f1.mesh.numPoints := by
    obtain ⟨p, hp⟩ := hne
    have hmem : p ∈ Spec.keptPoints f.mesh := by
      unfold Spec.keptPoints
      exact List.mem_filter.mpr ⟨List.mem_range.mpr (connected_lt h hp), hp⟩
    have hl := hp1.length_eq
    rw [List.length_map] at hl
    have : 0 < (Spec.keptPoints f.mesh).length := List.length_pos_of_mem hmem
    unfold Mesh.numPoints; omega
  have hkept : Spec.keptPoints f1.mesh = List.range f1.mesh.numPoints := by
    unfold Spec.keptPoints
    apply List.filter_eq_self.mpr
    intro j hj
    exact hall1 j (List.mem_range.mp hj)
  obtain ⟨f2, e2, c2, _, hp2, _, _⟩ := C08_strip f1 w1 a2 h2 ⟨0, hall1 0 hpos⟩
  refine ⟨f1, f2, e1, e2, ?_, c2, ?_⟩
  · rw [hkept, Mesh.numPoints, getD_map_range] at hp2
    exact hp2
  · rw [(C08_filter_map_stable f1 w1).1, hkept]

/-- **C19 (`sort_points(sort_points(M))` keeps the points of `sort_points(M)`) — in C02's model.**
    From `C02_sort_points_sorted` + `C02_canonical_points` applied to the pair (M, its own sorted
    view) — the sorted view is a `Relabeled` copy (`Glue.relabeled_applyPointMap`): under C02's
    hypotheses on `M` and on the sorted view (`PointHypP` with the same key width `A` and the same
    candidate centres; coincident points of `M` distinguishable), for ANY two argsort routines the
    second sort does not raise and leaves every point coordinate where the first sort put it.
    This is the point-sort half of `hidemP` (for C02's model `C02.applyPointMap` of the view). -/
theorem C19_sort_points_twice {as1 as2 : List Int → List Nat} (h1 : C02.IsArgsort as1) (h2 : C02.IsArgsort as2)
    {t1 t2 : C02.MeshTol} {A B1 M1 B2 M2 : Nat} {f f2 : MeshFields} {c1 c2 : List (List Int)}
    (hs : C02.sortPoints as1 t1 f = some f2)
    (hy1 : C02.PointHypP t1 A B1 M1 f.mesh c1) (hy2 : C02.PointHypP t2 A B2 M2 f2.mesh c2)
    (hc : ∀ x, x ∈ c1 ↔ x ∈ c2)
    (hwf : ∀ row ∈ C02.allRows f.mesh, ∀ p ∈ row, p < f.mesh.points.length)
    (hn1 : f.mesh.points ≠ [])
    (hdist : ∀ a ∈ C02.pitems f.mesh, ∀ b ∈ C02.pitems f.mesh,
      C02.kvec (C02.KC A f.mesh) f.mesh.dim 0 a = C02.kvec (C02.KC A f.mesh) f.mesh.dim 0 b →
      C02.kvec (C02.KM A c1 as1 t1 f.mesh) f.mesh.dim 0 a =
        C02.kvec (C02.KM A c1 as1 t1 f.mesh) f.mesh.dim 0 b → a = b) :
    ∃ f3, C02.sortPoints as2 t2 f2 = some f3 ∧ f3.mesh.points = f2.mesh.points :=
  Glue.sortPoints_twice h1 h2 hs hy1 hy2 hc hwf hn1 hdist

end Fc
