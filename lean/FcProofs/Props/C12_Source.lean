/-
  FcProofs.Props.C12_Source — C12, tie to the source text by TRANSLATION (see C04_Source.lean).
  Directory mode matches the relative paths of the two trees with `_matching.find_matches` and the DEFAULT
  equality predicate; the C12 model has its own `DirMode.findMatches` (FcModel/DirMode.lean: `s ∈ ref`,
  `ref.erase s`).  It is the translated function (`Fc.Gen.c11FindMatchesSrc`,
  harness/fcv/tables/pylite_c11_matching.py, owned by C11 and C12) run with `==`.
-/
import FcGen.Tables
import FcModel.DirMode
import FcProofs.Props.C11_Source
set_option linter.unusedSimpArgs false
namespace Fc
open PyLite PyLite.C11M

private theorem find_beq_self {α : Type} [DecidableEq α] (s : α) (ref : List α) :
    ref.find? (fun b => s == b) = if s ∈ ref then some s else none := by
  induction ref with
  | nil => rfl
  | cons x xs ih =>
    by_cases h : s = x
    · subst h; simp
    · have : (s == x) = false := by simpa using h
      simp [List.find?_cons, this, ih, h]

/-- the C12 model's matching is the generic `findMatches` with `==` (pairs projected to the source name) -/
theorem C12_findMatches_eq_generic {α : Type} [DecidableEq α] (src ref : List α) :
    DirMode.findMatches src ref =
      ⟨(findMatches (fun a b => a == b) src ref).pairs.map (·.1), (findMatches (fun a b => a == b) src ref).orphansSrc,
        (findMatches (fun a b => a == b) src ref).orphansRef⟩ := by
  induction src generalizing ref with
  | nil => rfl
  | cons s r ih =>
    rw [DirMode.findMatches, findMatches, findAndRemove_eq_erase, find_beq_self]
    by_cases h : s ∈ ref <;> simp [h, ih]

private theorem pairs_diag {α : Type} [DecidableEq α] (src ref : List α) :
    ∀ p ∈ (findMatches (fun (a b : α) => a == b) src ref).pairs, p.1 = p.2 := by
  induction src generalizing ref with
  | nil => intro p hp; cases hp
  | cons s r ih =>
    rw [findMatches, findAndRemove_eq_erase, find_beq_self]
    by_cases h : s ∈ ref
    · simp only [h, if_true, Option.map_some]
      intro p hp
      rcases List.mem_cons.mp hp with rfl | hp
      · rfl
      · exact ih _ p hp
    · simp only [h, if_false, Option.map_none]
      exact ih _

/-- `find_matches(source, reference, ==)` as translated from the source text returns the C12 model's
    `DirMode.findMatches` (matches as pairs `(p, p)`), for all lists of values with decidable equality
    (relative paths are strings).  Assumptions as in `C11_source_find_matches`, with `eq_predicate` = `==`. -/
theorem C12_source_find_matches {α : Type} [DecidableEq α] (emb : α → Val)
    (hemb : ∀ a b, Val.eqv (emb a) (emb b) = some (decide (a = b)))
    (X : Ext) (fv : Val)
    (hcall : ∀ a b, X "call" [fv, emb a, emb b] = .ok (.bool (a == b)))
    (hres : ∀ m o r, X "MatchResult" [m, o, r] = .ok (matchResultVal m o r))
    (src ref : List α) :
    Gen.c11FindMatchesSrc.run X [.list (src.map emb), .list (ref.map emb), fv] =
      .ok (matchResultVal (.list ((DirMode.findMatches src ref).matched.map fun p => Val.list [emb p, emb p]))
            (.list ((DirMode.findMatches src ref).orphansSource.map emb))
            (.list ((DirMode.findMatches src ref).orphansReference.map emb))) := by
  rw [C11_source_find_matches emb emb hemb X fv (fun a b => a == b) hcall hres, C12_findMatches_eq_generic]
  have hp : ∀ l : List (α × α), (∀ p ∈ l, p.1 = p.2) →
      l.map (pairV emb emb) = (l.map (·.1)).map fun p => Val.list [emb p, emb p] := by
    intro l hl
    induction l with
    | nil => rfl
    | cons p r ih =>
      have := hl p (List.mem_cons_self ..)
      simp only [List.map_cons, pairV, ← this]
      rw [ih (fun q hq => hl q (List.mem_cons_of_mem _ hq))]
  rw [hp _ (pairs_diag src ref)]

end Fc
