/-
  FcProofs.Props.C06_Source — C06, tie to the source text by TRANSLATION (see C04_Source.lean).
  Translated bodies: `Fc.Gen.c06FilterExternalSrc`, `Fc.Gen.c06MapExternalSrc`
  (harness/fcv/tables/pylite_c06.py) of `mesh/_transformations.py`; model: `Fc.C06.filterExternal`,
  `Fc.C06.mapExternal` (FcModel/Merge.lean — the functions `C06_map_external` is about).
  The duplicate map is a PyLite dict (`dupsDict`, FcProofs/Lemmas/PyLiteC06.lean).
  Assumption about the only callee: `make_array(x)` of a list of ints is that list (`hX`).
-/
import FcGen.Tables
import FcProofs.Lemmas.PyLiteC06
set_option linter.unusedSimpArgs false
namespace Fc
open PyLite PyLite.C06

/-- `_filter_external_indices(len(points), duplicate_point_idx_map)` is the model's `filterExternal`: the
    indices that are NOT keys of the dict, in increasing order — for every duplicate map. -/
theorem C06_source_filter_external (X : Ext) (hX : ∀ v, X "make_array" [v] = .ok v) (dups : List (Option Nat)) :
    Gen.c06FilterExternalSrc.run X [.int dups.length, dupsDict dups]
      = .ok (natList (C06.filterExternal dups)) := by
  simp only [Gen.c06FilterExternalSrc, dupsDict, natList, C06.filterExternal]
  pylite_eval
  rw [compM_map_ok _ (fun (k : Nat) => Val.int (k : Int))
    (fun k => if (dups.getD k none).isNone then some (Val.int (k : Int)) else none)]
  · simp only [Res.bind, Res.map, hX, filterMap_ite_map]
    simp
  · intro k
    pylite_eval [mem_dupsDict]
    cases dups[k]?.getD none <;> simp

/-- `_map_external_indices(len(points), duplicate_point_idx_map, offset)` is the model's `mapExternal`: one
    entry per local point, a duplicate is sent to its partner, the other points to
    `i + offset - (number of duplicates before i)` — for every duplicate map and offset.  (Python computes the
    difference in ℤ; the loop invariant `mapped_index_offset ≤ i` makes it the model's natural-number
    subtraction.) -/
theorem C06_source_map_external (X : Ext) (hX : ∀ v, X "make_array" [v] = .ok v) (dups : List (Option Nat))
    (offset : Nat) :
    Gen.c06MapExternalSrc.run X [.int dups.length, dupsDict dups, .int offset]
      = .ok (natList (C06.mapExternal dups offset)) := by
  simp only [Gen.c06MapExternalSrc, dupsDict, natList, C06.mapExternal]
  pylite_eval [hX]
  generalize hf : forLoop _ _ _ = r
  -- invariant: parameters unchanged, `result` holds `res`, `mapped_index_offset` holds `m`
  let Inv : List Nat → Nat → St → Prop := fun res m st =>
    st.env.lookup "v1" = some (.dict (entries dups 0)) ∧ st.env.lookup "v2" = some (.int offset) ∧
    st.env.lookup "v3" = some (.list (res.map fun (n : Nat) => Val.int (n : Int))) ∧
    st.env.lookup "v4" = some (.int m) ∧ st.out = []
  have key := forLoop_mapExternal_all dups offset Inv hf (by simp [Inv, List.lookup]) (by
    -- one iteration
    intro i o res m st ho hres hm ⟨e1, e2, e3, e4, e5⟩
    have hi : i < res.length := by
      rcases Nat.lt_or_ge i res.length with h | h
      · exact h
      · rw [List.getElem?_eq_none h] at hres; cases hres
    have hget : dups.getD i none = o := by simp [List.getD, ho]
    have hidx := indexOf_map_nat (fun (n : Nat) => Val.int (n : Int)) res i i hres
    have h0 : ¬ ((i : Int) < 0) := by omega
    cases o with
    | none =>
      simp [Inv, e1, e2, e3, e4, e5, mem_dupsDict, ho, hidx, List.lookup, listSet, hi, List.map_set, h0]
      congr 2
      omega
    | some j =>
      simp [Inv, e1, e2, e3, e4, e5, mem_dupsDict, ho, hidx, List.lookup, listSet, hi, List.map_set, indexOf,
        lookup_dupsDict, h0])
  obtain ⟨st', m', rfl, h1, h2, h3, h4, h5⟩ := key
  simp [h3, C06.mapExternal]

end Fc
