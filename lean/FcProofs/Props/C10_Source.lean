/-
  FcProofs.Props.C10_Source — C10 (symmetry), tie to the source text by TRANSLATION.

  Every predicate first sends its two operands through `predicates/_predicates.py: _reshape`
  (`Fc.Gen.c01ReshapeSrc`, re-translated from the source text on every run).  The symmetry theorems
  `C10_symm*` are about the model's `reshapePair`; what they need from the code is that `_reshape`
  treats its two arguments alike.  `C10_reshape_swap` is that fact about the model,
  `C10_source_reshape_swap` the same fact about the code AS TRANSLATED NOW (through
  `C01_source_reshape`): swapping the arguments swaps the results, for all shapes.
-/
import FcProofs.Props.C01_Source
namespace Fc
open PyLite PyLite.C01

/-- the model's reshaping of a shape pair does not prefer a side -/
theorem C10_reshape_swap (s1 s2 : List Nat) :
    reshapePair s2 s1 = ((reshapePair s1 s2).2, (reshapePair s1 s2).1) := by
  simp only [reshapePair]
  by_cases hP : s1.length = s2.length + 1 ∧ s1.getLast? = some 1
  · -- the first shape has the extra axis of length 1
    have hQ : ¬ (s2.length = s1.length + 1 ∧ s2.getLast? = some 1) := fun h => by omega
    have h3 : ¬ ((s2 ++ [1]).length = s1.length + 1 ∧ (s2 ++ [1]).getLast? = some 1) := by
      intro h; have := h.1; simp at this; omega
    simp only [if_pos hP, if_neg hQ, if_neg h3]
  · by_cases hQ : s2.length = s1.length + 1 ∧ s2.getLast? = some 1
    · have h3 : ¬ ((s1 ++ [1]).length = s2.length + 1 ∧ (s1 ++ [1]).getLast? = some 1) := by
        intro h; have := h.1; simp at this; omega
      simp only [if_neg hP, if_pos hQ, if_neg h3]
    · simp only [if_neg hP, if_neg hQ]

/-- `_reshape(b, a)` is `_reshape(a, b)` with the two results exchanged — for the function body as it stands in the
    source now, all shapes, any array payloads -/
theorem C10_source_reshape_swap (d1 d2 : Val) (s1 s2 : List Nat) :
    Gen.c01ReshapeSrc.run reshapeExt [arrVal d2 s2, arrVal d1 s1]
      = .ok (.list [arrVal d2 (reshapePair s1 s2).2, arrVal d1 (reshapePair s1 s2).1]) := by
  rw [C01_source_reshape d2 d1 s2 s1, C10_reshape_swap s1 s2]

/-- non-vacuity: a scalar field stored as (7,) against (7,1), either way round -/
example : reshapePair [7] [7, 1] = ([7, 1], [7, 1]) ∧ reshapePair [7, 1] [7] = ([7, 1], [7, 1]) := by decide

end Fc
