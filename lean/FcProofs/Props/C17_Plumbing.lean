/-
  FcProofs.Props.C17_Plumbing — C17, the plumbing of `--disable-mesh-space-dimension-matching` (and of the two other
  mesh switches) from the command line to `MeshFieldsComparator` (phase 5).

  The C17 model (FcModel/Extend.lean: `compareDims … disable`) describes `MeshFieldsComparator(…,
  disable_space_dimension_matching=disable)`; the property also speaks about the CLI flag.  The tables
  `Fc.Gen.opt…` are extracted from the current source of `_cli/_file_mode.py`, `_dir_mode.py`, `_file_comparison.py`
  (harness/fcv/tables/cli_options.py); `Plumb.meshFlagWiring` (FcModel/CliPlumbing.lean) is what the models expect.
-/
import FcGen.Tables
import FcModel.CliPlumbing
namespace Fc

/-- For each of the three mesh switches (flag, `FileComparisonOptions` field, `MeshFieldsComparator` keyword): BOTH
    sub-commands declare the flag with argparse's destination for it, BOTH read exactly that destination — directly,
    up to `bool(…)` — into the options field, and `FileComparison` hands that field to the comparator keyword.  In
    particular `--disable-mesh-space-dimension-matching` reaches `disable_space_dimension_matching` in `dir` mode as it
    does in `file` mode. -/
theorem C17_mesh_flags_plumbed :
    (Plumb.meshFlagWiring.all fun w =>
      Gen.optFileFlags.lookup w.1 == some (Plumb.destOfFlag w.1) &&
      Gen.optDirFlags.lookup w.1 == some (Plumb.destOfFlag w.1) &&
      Gen.optFileWiring.lookup w.2.1 == some [Plumb.destOfFlag w.1] &&
      Gen.optDirWiring.lookup w.2.1 == some [Plumb.destOfFlag w.1] &&
      Gen.optFileWiringKind.lookup w.2.1 == some "direct" &&
      Gen.optDirWiringKind.lookup w.2.1 == some "direct" &&
      Gen.optComparatorWiring.lookup w.2.2 == some w.2.1) = true := by decide

/-- the destinations of the three switches are `store_true` flags in both sub-commands (absent = `False` = the
    default of the comparator), and every key the two modes read is declared. -/
theorem C17_mesh_flags_declared :
    (Plumb.meshFlagWiring.all fun w =>
      Gen.optFileStoreTrue.contains (Plumb.destOfFlag w.1) && Gen.optDirStoreTrue.contains (Plumb.destOfFlag w.1)) = true ∧
    Plumb.allDeclared Gen.optFileDests Gen.optFileReads = true ∧
    Plumb.allDeclared Gen.optDirDests Gen.optDirReads = true := by decide

end Fc
