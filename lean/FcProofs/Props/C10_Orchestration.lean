/-
  FcProofs.Props.C10_Orchestration — C10 (re-exported for C19), phase 6 round 9: `ScaledTolerance.__init__ / _get_base_tol / __call__`
  (`predicates/_predicates.py`) tied to the source text by TRANSLATION (`Fc.Gen.c10o…Src`, harness/fcv/tables/pylite_c10_orch.py).  The numpy
  kernels are externals (`ScaledExt`); `a * b` on array values is the external `mul`.
-/
import FcGen.Tables
import FcProofs.Lemmas.PyLiteOrch
set_option linter.unusedSimpArgs false
set_option linter.unusedVariables false
namespace Fc
open PyLite

/-- a `ScaledTolerance` object: its base tolerance (`None` or an array) and the component-magnitude switch -/
def C10.scaledSelfV (base comp : Val) : Val := .record [("_base_tol", base), ("_use_component_magnitudes", comp)]

/-- ASSUMPTIONS: the numpy kernels are arbitrary functions of their arguments (`maxAbs` gives the magnitude as a number of units);
    they are PURE — in particular `mul` returns a new value -/
structure C10.ScaledExt (X : Ext) (asA : Val → Val) (dflt : Val → Val → Val) (maxAbs : Val → Int) (maxEl : Val → Val)
    (sel mul : Val → Val → Val) : Prop where
  hasA : ∀ v, X "as_array" [v] = .ok (asA v)
  hdflt : ∀ a b, X "_DEFAULT_BASE_TOLERANCE_FUNCTOR" [a, b] = .ok (dflt a b)
  hmav : ∀ v, X "max_abs_value" [v] = .ok (.int (maxAbs v))
  hmae : ∀ v, X "max_abs_element" [v] = .ok (maxEl v)
  hsel : ∀ a b, X "select_max_values" [a, b] = .ok (sel a b)
  hmul : ∀ a b, X "mul" [a, b] = .ok (mul a b)

variable {X : Ext} {asA : Val → Val} {dflt : Val → Val → Val} {maxAbs : Val → Int} {maxEl : Val → Val} {sel mul : Val → Val → Val}

/-- `ScaledTolerance.__init__(base_tolerance, use_component_magnitudes)` stores `as_array(base_tolerance)` — or `None` when none is
    given — and the switch (the translated constructor returns the dict of what it stores). -/
theorem C10_source_scaled_tolerance_init (hX : C10.ScaledExt X asA dflt maxAbs maxEl sel mul) (base comp : Val) :
    Gen.c10oScaledInitSrc.run X [base, comp] =
      .ok (.dict [(.str "_base_tol", if isNone base then base else asA base), (.str "_use_component_magnitudes", comp)]) := by
  simp only [Gen.c10oScaledInitSrc]
  cases base <;> orch_eval [hX.hasA, isNone, dictSet]

/-- `_get_base_tol(first, second)`: the stored base tolerance if there is one, otherwise `as_array` of the default functor's value for
    THESE operands — and NOTHING is stored: `self` is exactly what it was (third component of `runSelf`), no effect. -/
theorem C10_source_scaled_tolerance_get_base_tol (hX : C10.ScaledExt X asA dflt maxAbs maxEl sel mul) (base comp a b : Val) :
    Gen.c10oScaledGetBaseTolSrc.runSelf X [C10.scaledSelfV base comp, a, b] =
      .ok (if isNone base then asA (dflt a b) else base, [], C10.scaledSelfV base comp) := by
  simp only [Gen.c10oScaledGetBaseTolSrc, C10.scaledSelfV]
  cases base <;> orch_eval [Fn.runSelf, hX.hasA, hX.hdflt, isNone]

/-- **`ScaledTolerance.__call__(first, second)`**: in component mode `mul(select_max_values(max_abs_element first, max_abs_element
    second), base)`; otherwise `mul(base-or-default, max(max_abs_value first, max_abs_value second))` — for ALL objects, operands and
    kernels; and `runSelf` leaves `self` EXACTLY as it was (no attribute written, no effect): the tolerance object is history-free. -/
theorem C10_source_scaled_tolerance_call (hX : C10.ScaledExt X asA dflt maxAbs maxEl sel mul) (base comp a b : Val) (t : Bool)
    (hcomp : comp.truthy = .ok t) :
    Gen.c10oScaledCallSrc.runSelf X [C10.scaledSelfV base comp, a, b] =
      .ok (if t then mul (sel (maxEl a) (maxEl b)) base
           else mul (if isNone base then asA (dflt a b) else base)
                  (.int (if maxAbs a < maxAbs b then maxAbs b else maxAbs a)),
           [], C10.scaledSelfV base comp) := by
  have hg : Gen.c10oScaledGetBaseTolSrc.runTr X [C10.scaledSelfV base comp, a, b] =
      .ok (if isNone base then asA (dflt a b) else base, []) := by
    have h := C10_source_scaled_tolerance_get_base_tol hX base comp a b
    simp only [Fn.runSelf, Gen.c10oScaledGetBaseTolSrc] at h
    simp only [Fn.runTr, Gen.c10oScaledGetBaseTolSrc]
    revert h
    cases Fn.flow X _ _ <;> simp <;> (try (intro h; split at h <;> simp_all))
  have hcall := fun x st => callRet_of_runTr hg x st
  simp only [C10.scaledSelfV] at hcall
  simp only [Gen.c10oScaledCallSrc, C10.scaledSelfV]
  cases t <;> orch_eval [Fn.runSelf, hcomp, hcall, hX.hmav, hX.hmae, hX.hsel, hX.hmul]

end Fc
