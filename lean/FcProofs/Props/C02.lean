/-
  Property C02 — mesh comparison is invariant under point/cell reordering (no false FAIL);
  sorting is canonical.  Only property theorems live here; helper lemmas are in
  FcProofs/Lemmas/Lexsort*.lean.

  Model:  FcModel/Lexsort.lean (`fuzzyLexSortBy`, `lexLoop`, `walkRuns`, `isclose`, `IsArgsort`),
          FcModel/SortPoints.lean (`sortPointsItems`, tie break, `sortCells`, index-map application),
          FcModel/Ladder.lean (`ladder`).
  Spec:   FcModel/Spec/C02.lean (`Sep` = `sepCol` + `boundsOk`, `clusterKey`, canonical orders).

  Every theorem quantifies over EVERY `argsort` routine satisfying `IsArgsort` (a permutation of
  `range n` that sorts the keys; ties arbitrary) — numpy's unstable introsort included.
-/
import FcProofs.Lemmas.LexsortCanon
namespace Fc
open Spec

/-! ## the sorting routine -/

/-- The `argsort` the driver executes (stable merge sort on (position, key) pairs) and its
    reversed-tie variant are instances of the assumption `IsArgsort`. -/
theorem C02_argsort_instances : IsArgsort argsortStable ∧ IsArgsort argsortRevTies :=
  ⟨isArgsort_stable, isArgsort_revTies⟩

/-- Fancy indexing with ANY argsort is a sorter on items: a permutation, sorted by the key. -/
theorem C02_argsort_sorter {α : Type} {as : List Int → List Nat} (h : IsArgsort as) (k : α → Int)
    (l : List α) :
    (sorterOf as k l).Perm l ∧ (sorterOf as k l).Pairwise (fun a b => k a ≤ k b) :=
  ⟨sorterOf_perm h k l, sorterOf_sorted h k l⟩

/-! ## (iii) raw floating-point values vs cluster keys -/

/-- Under `Sep` (`sepCol A B vals`, `2A ≤ B`, float side conditions `boundsOk`, magnitudes `≤ M`)
    BOTH closeness tests of the code — `np.isclose` (asymmetric in its second argument) and
    `fuzzy_equal` — coincide on the occurring values with "same cluster key", and the cluster key
    is monotone: fuzzy equality is an order-convex equivalence. -/
theorem C02_sep_clusters (t : MeshTol) (A B M : Nat) (vals : List Int) (hsep : sepCol A B vals = true)
    (hAB : 2 * A ≤ B) (hb : boundsOk t A B M = true) (hM : ∀ v ∈ vals, v.natAbs ≤ M) :
    (∀ u ∈ vals, ∀ v ∈ vals,
        (t.closeIs u v = true ↔ clusterKey A vals u = clusterKey A vals v) ∧
        (t.closeFz u v = true ↔ clusterKey A vals u = clusterKey A vals v) ∧
        (u ≤ v → clusterKey A vals u ≤ clusterKey A vals v)) := by
  intro u hu v hv
  have h1 := clustered_closeIs hsep hAB hb hM
  have h2 := clustered_closeFz hsep hAB hb hM
  refine ⟨?_, ?_, h1.mono u hu v hv⟩
  · rw [h1.iff u hu v hv]; simp
  · rw [h2.iff u hu v hv]; simp

/-- The margins the driver uses (`A = atol/2`, `B = 4·atol`) satisfy `2A ≤ B`. -/
theorem C02_margins (t : MeshTol) : 2 * sepA t ≤ sepB t := sepA_sepB t

/-! ## (ii) the loop with the positional mask refines the segment form -/

/-- `walk_adjacent_true_index_ranges` on the mask of a list of groups, followed by the in-place
    re-sorting of every yielded range, is the same as sorting every group: the positional mask
    (with its "+1 upper edge") encodes exactly the segments. -/
theorem C02_mask_runs_are_segments {α : Type} (f : List α → List α) (hperm : ∀ g, (f g).Perm g)
    (gs : List (List α)) (hne : ∀ g ∈ gs, g ≠ []) :
    (walkRuns (maskOf gs)).foldl (applyRun f) gs.flatten = (gs.map f).flatten :=
  foldl_applyRun_maskOf f (fun g => (hperm g).length_eq) (fun a => List.perm_singleton.mp (hperm [a])) gs hne

/-- `np.logical_and(equals, dim_equals)` is splitting inside the segments (this is the F1 repair:
    without the AND the invariant breaks at the third column). -/
theorem C02_mask_and_is_split {α : Type} (k : α → Int) (gs : List (List α)) (hne : ∀ g ∈ gs, g ≠ []) :
    List.zipWith (· && ·) (maskOf gs) (adjEq k gs.flatten) = maskOf (gs.flatMap (splitKey k)) :=
  mask_and_adjEq k gs hne

/-- **Refinement.** For every permutation-valued sorter and every closeness test that is equality of
    cluster keys `K j` on the columns the loop inspects, the model of
    `get_fuzzy_lex_sorting_index_map` (loop over the columns with a positional run mask) IS the
    segment form (sort by column j, split where the key changes, recurse with column j+1). -/
theorem C02_lexsort_refines_segments {α : Type} {P : α → Prop} {srt : (α → Int) → List α → List α}
    (hs : ∀ k l, (srt k l).Perm l) (close : Int → Int → Bool) (key K : Nat → α → Int) (ncols : Nat)
    (l : List α) (hn : 1 ≤ ncols) (hl : l ≠ []) (hP : ∀ a ∈ l, P a)
    (hcl : ∀ j, j < ncols - 1 → ∀ a b, P a → P b → close (key j a) (key j b) = (K j a == K j b)) :
    fuzzyLexSortBy srt close key ncols l = segSort (fun j => srt (key j)) K ncols 0 l :=
  fuzzyLexSortBy_eq_segSort (P := P) hs close key K ncols l hn hl hP hcl

/-! ## the fuzzy lexsort sorts by cluster keys, for every number of columns -/

/-- **C02_lexsort_sorted (full; the ≤ 2-column restriction of the pinned code is gone).**
    For every `argsort`, every number of columns `ncols ≥ 1` and every array of rows whose columns
    satisfy `Sep`: the index map returned by the model of `get_fuzzy_lex_sorting_index_map` is a
    permutation of `range n`, and the rows taken in that order are lexicographically sorted by the
    cluster keys of ALL columns. -/
theorem C02_lexsort_sorted {as : List Int → List Nat} (has : IsArgsort as) (t : MeshTol) (A B M : Nat)
    (ncols : Nat) (rows : List (List Int)) (hn : 1 ≤ ncols)
    (hsep : SepCols t A B M (fun j (it : Nat × List Int) => it.2.getD j 0) ncols
              ((List.range rows.length).zip rows)) :
    (fuzzyLexSortIdx as t.closeIs ncols rows).Perm (List.range rows.length) ∧
    ((fuzzyLexSortBy (fun k l => sorterOf as k l) t.closeIs (fun j (it : Nat × List Int) => it.2.getD j 0) ncols
        ((List.range rows.length).zip rows))).Pairwise
      (lexLE (colKey A (fun j (it : Nat × List Int) => it.2.getD j 0) ((List.range rows.length).zip rows)) ncols 0) := by
  obtain ⟨_, hp, hs⟩ := fuzzyLexSortBy_spec (isSort_sorterOf has) hn hsep
  refine ⟨?_, hs⟩
  unfold fuzzyLexSortIdx
  have := hp.map (·.1)
  rwa [List.map_fst_zip (by simp)] at this

/-! ## (i) canonicity -/

/-- **Canonicity, key level (noise allowed).** Two item lists — possibly of different types, with
    different raw values, sorted by two different `argsort` routines — each satisfying `Sep`: if
    their cluster-key vectors agree up to permutation, the two sorted sequences have pointwise
    equal cluster-key vectors. -/
theorem C02_lexsort_canonical_keys {α β : Type} {as1 as2 : List Int → List Nat} (h1 : IsArgsort as1)
    (h2 : IsArgsort as2) (t1 t2 : MeshTol) (A1 B1 M1 A2 B2 M2 ncols : Nat) (hn : 1 ≤ ncols)
    (key1 : Nat → α → Int) (key2 : Nat → β → Int) (l1 : List α) (l2 : List β)
    (hs1 : SepCols t1 A1 B1 M1 key1 ncols l1) (hs2 : SepCols t2 A2 B2 M2 key2 ncols l2)
    (K1 : Nat → α → Int) (K2 : Nat → β → Int)
    (hK1 : K1 = colKey A1 key1 l1) (hK2 : K2 = colKey A2 key2 l2)
    (hperm : (l1.map (kvec K1 ncols 0)).Perm (l2.map (kvec K2 ncols 0))) :
    (fuzzyLexSortBy (fun k l => sorterOf as1 k l) t1.closeIs key1 ncols l1).map (kvec K1 ncols 0) =
    (fuzzyLexSortBy (fun k l => sorterOf as2 k l) t2.closeIs key2 ncols l2).map (kvec K2 ncols 0) := by
  subst hK1 hK2
  obtain ⟨_, hp1, hso1⟩ := fuzzyLexSortBy_spec (isSort_sorterOf h1) hn hs1
  obtain ⟨_, hp2, hso2⟩ := fuzzyLexSortBy_spec (isSort_sorterOf h2) hn hs2
  exact lexsorted_keys_unique _ _ ncols hso1 hso2
    (((hp1.map _).trans hperm).trans (hp2.map _).symm)

/-- **Canonicity, items (noise-free).** Two lists that are permutations of each other (the same
    rows stored in a different order), with pairwise distinct cluster-key vectors, are sorted into
    the SAME list — whatever `argsort` routine either side uses. -/
theorem C02_lexsort_canonical {α : Type} {as1 as2 : List Int → List Nat} (h1 : IsArgsort as1)
    (h2 : IsArgsort as2) (t : MeshTol) (A B M ncols : Nat) (hn : 1 ≤ ncols) (key : Nat → α → Int)
    (l1 l2 : List α) (hperm : l1.Perm l2) (hs1 : SepCols t A B M key ncols l1)
    (hdist : ∀ a ∈ l1, ∀ b ∈ l1, kvec (colKey A key l1) ncols 0 a = kvec (colKey A key l1) ncols 0 b → a = b) :
    fuzzyLexSortBy (fun k l => sorterOf as1 k l) t.closeIs key ncols l1 =
    fuzzyLexSortBy (fun k l => sorterOf as2 k l) t.closeIs key ncols l2 := by
  have hs2 : SepCols t A B M key ncols l2 :=
    ⟨hs1.hAB, hs1.bounds,
     fun j hj => by
       have := hs1.sep j hj
       rw [sepCol_iff] at this ⊢
       intro u hu v hv
       exact this u ((hperm.map _).mem_iff.mpr hu) v ((hperm.map _).mem_iff.mpr hv),
     fun j hj a ha => hs1.mag j hj a (hperm.mem_iff.mpr ha)⟩
  have hK : colKey A key l2 = colKey A key l1 := by
    funext j a
    exact clusterKey_congr (fun w => ((hperm.map (key j)).mem_iff).symm)
  obtain ⟨_, hp1, hso1⟩ := fuzzyLexSortBy_spec (isSort_sorterOf h1) hn hs1
  obtain ⟨_, hp2, hso2⟩ := fuzzyLexSortBy_spec (isSort_sorterOf h2) hn hs2
  rw [hK] at hso2
  refine lexsorted_unique (colKey A key l1) ncols hso1 hso2 ((hp1.trans hperm).trans hp2.symm) ?_
  intro a ha b hb
  exact hdist a (hp1.mem_iff.mp ha) b (hp1.mem_iff.mp hb)

end Fc
