/-
  Property C02 — mesh comparison is invariant under point/cell reordering (no false FAIL);
  sorting is canonical.  Only property theorems live here; helper lemmas are in
  FcProofs/Lemmas/Lexsort*.lean.

  Model:  FcModel/Lexsort.lean (`fuzzyLexSortBy`, `lexLoop`, `walkRuns`, `isclose`, `IsArgsort`),
          FcModel/SortPoints.lean (`sortPointsItems`, tie break, `sortCells`, index-map application),
          FcModel/Ladder.lean (`ladder`).
  Spec:   FcModel/Spec/C02.lean (`Sep` = `sepCol` + `boundsOk`, `clusterKey`, canonical orders).

  Every theorem quantifies over EVERY `argsort` routine satisfying `IsArgsort` (a permutation of
  `range n` that sorts the keys; ties arbitrary) — numpy's unstable introsort included.
-/
import FcProofs.Lemmas.LexsortRigid
namespace Fc
open Fc.C02 Fc.C02.Spec

/-! ## the sorting routine -/

/-- The `argsort` the driver executes (stable merge sort on (position, key) pairs) and its
    reversed-tie variant are instances of the assumption `IsArgsort`. -/
theorem C02_argsort_instances : IsArgsort argsortStable ∧ IsArgsort argsortRevTies :=
  ⟨isArgsort_stable, isArgsort_revTies⟩

/-- Fancy indexing with ANY argsort is a sorter on items: a permutation, sorted by the key. -/
theorem C02_argsort_sorter {α : Type} {as : List Int → List Nat} (h : IsArgsort as) (k : α → Int)
    (l : List α) :
    (sorterOf as k l).Perm l ∧ (sorterOf as k l).Pairwise (fun a b => k a ≤ k b) :=
  ⟨sorterOf_perm h k l, sorterOf_sorted h k l⟩

/-! ## (iii) raw floating-point values vs cluster keys -/

/-- Under `Sep` (`sepCol A B vals`, `2A ≤ B`, float side conditions `boundsOk`, magnitudes `≤ M`)
    BOTH closeness tests of the code — `np.isclose` (asymmetric in its second argument) and
    `fuzzy_equal` — coincide on the occurring values with "same cluster key", and the cluster key
    is monotone: fuzzy equality is an order-convex equivalence. -/
theorem C02_sep_clusters (t : MeshTol) (A B M : Nat) (vals : List Int) (hsep : sepCol A B vals = true)
    (hAB : 2 * A ≤ B) (hb : boundsOk t A B M = true) (hM : ∀ v ∈ vals, v.natAbs ≤ M) :
    (∀ u ∈ vals, ∀ v ∈ vals,
        (t.closeIs u v = true ↔ clusterKey A vals u = clusterKey A vals v) ∧
        (t.closeFz u v = true ↔ clusterKey A vals u = clusterKey A vals v) ∧
        (u ≤ v → clusterKey A vals u ≤ clusterKey A vals v)) := by
  intro u hu v hv
  have h1 := clustered_closeIs hsep hAB hb hM
  have h2 := clustered_closeFz hsep hAB hb hM
  refine ⟨?_, ?_, h1.mono u hu v hv⟩
  · rw [h1.iff u hu v hv]; simp
  · rw [h2.iff u hu v hv]; simp

/-- The margins the driver uses (`A = atol/2`, `B = 4·atol`) satisfy `2A ≤ B`. -/
theorem C02_margins (t : MeshTol) : 2 * sepA t ≤ sepB t := sepA_sepB t

/-! ## (ii) the loop with the positional mask refines the segment form -/

/-- `walk_adjacent_true_index_ranges` on the mask of a list of groups, followed by the in-place
    re-sorting of every yielded range, is the same as sorting every group: the positional mask
    (with its "+1 upper edge") encodes exactly the segments. -/
theorem C02_mask_runs_are_segments {α : Type} (f : List α → List α) (hperm : ∀ g, (f g).Perm g)
    (gs : List (List α)) (hne : ∀ g ∈ gs, g ≠ []) :
    (walkRuns (maskOf gs)).foldl (applyRun f) gs.flatten = (gs.map f).flatten :=
  foldl_applyRun_maskOf f (fun g => (hperm g).length_eq) (fun a => List.perm_singleton.mp (hperm [a])) gs hne

/-- `np.logical_and(equals, dim_equals)` is splitting inside the segments (this is the F1 repair:
    without the AND the invariant breaks at the third column). -/
theorem C02_mask_and_is_split {α : Type} (k : α → Int) (gs : List (List α)) (hne : ∀ g ∈ gs, g ≠ []) :
    List.zipWith (· && ·) (maskOf gs) (adjEq k gs.flatten) = maskOf (gs.flatMap (splitKey k)) :=
  mask_and_adjEq k gs hne

/-- **Refinement.** For every permutation-valued sorter and every closeness test that is equality of
    cluster keys `K j` on the columns the loop inspects, the model of
    `get_fuzzy_lex_sorting_index_map` (loop over the columns with a positional run mask) IS the
    segment form (sort by column j, split where the key changes, recurse with column j+1). -/
theorem C02_lexsort_refines_segments {α : Type} {P : α → Prop} {srt : (α → Int) → List α → List α}
    (hs : ∀ k l, (srt k l).Perm l) (close : Int → Int → Bool) (key K : Nat → α → Int) (ncols : Nat)
    (l : List α) (hn : 1 ≤ ncols) (hl : l ≠ []) (hP : ∀ a ∈ l, P a)
    (hcl : ∀ j, j < ncols - 1 → ∀ a b, P a → P b → close (key j a) (key j b) = (K j a == K j b)) :
    fuzzyLexSortBy srt close key ncols l = segSort (fun j => srt (key j)) K ncols 0 l :=
  fuzzyLexSortBy_eq_segSort (P := P) hs close key K ncols l hn hl hP hcl

/-! ## the fuzzy lexsort sorts by cluster keys, for every number of columns -/

/-- **C02_lexsort_sorted (full; the ≤ 2-column restriction of the pinned code is gone).**
    For every `argsort`, every number of columns `ncols ≥ 1` and every array of rows whose columns
    satisfy `Sep`: the index map returned by the model of `get_fuzzy_lex_sorting_index_map` is a
    permutation of `range n`, and the rows taken in that order are lexicographically sorted by the
    cluster keys of ALL columns. -/
theorem C02_lexsort_sorted {as : List Int → List Nat} (has : IsArgsort as) (t : MeshTol) (A B M : Nat)
    (ncols : Nat) (rows : List (List Int)) (hn : 1 ≤ ncols)
    (hsep : SepCols t A B M (fun j (it : Nat × List Int) => it.2.getD j 0) ncols
              ((List.range rows.length).zip rows)) :
    (fuzzyLexSortIdx as t.closeIs ncols rows).Perm (List.range rows.length) ∧
    ((fuzzyLexSortBy (fun k l => sorterOf as k l) t.closeIs (fun j (it : Nat × List Int) => it.2.getD j 0) ncols
        ((List.range rows.length).zip rows))).Pairwise
      (lexLE (colKey A (fun j (it : Nat × List Int) => it.2.getD j 0) ((List.range rows.length).zip rows)) ncols 0) := by
  obtain ⟨_, hp, hs⟩ := fuzzyLexSortBy_spec (isSort_sorterOf has) hn hsep
  refine ⟨?_, hs⟩
  unfold fuzzyLexSortIdx
  have := hp.map (·.1)
  rwa [List.map_fst_zip (by simp)] at this

/-! ## (i) canonicity -/

/-- **Canonicity, key level (noise allowed).** Two item lists — possibly of different types, with
    different raw values, sorted by two different `argsort` routines — each satisfying `Sep`: if
    their cluster-key vectors agree up to permutation, the two sorted sequences have pointwise
    equal cluster-key vectors. -/
theorem C02_lexsort_canonical_keys {α β : Type} {as1 as2 : List Int → List Nat} (h1 : IsArgsort as1)
    (h2 : IsArgsort as2) (t1 t2 : MeshTol) (A1 B1 M1 A2 B2 M2 ncols : Nat) (hn : 1 ≤ ncols)
    (key1 : Nat → α → Int) (key2 : Nat → β → Int) (l1 : List α) (l2 : List β)
    (hs1 : SepCols t1 A1 B1 M1 key1 ncols l1) (hs2 : SepCols t2 A2 B2 M2 key2 ncols l2)
    (K1 : Nat → α → Int) (K2 : Nat → β → Int)
    (hK1 : K1 = colKey A1 key1 l1) (hK2 : K2 = colKey A2 key2 l2)
    (hperm : (l1.map (kvec K1 ncols 0)).Perm (l2.map (kvec K2 ncols 0))) :
    (fuzzyLexSortBy (fun k l => sorterOf as1 k l) t1.closeIs key1 ncols l1).map (kvec K1 ncols 0) =
    (fuzzyLexSortBy (fun k l => sorterOf as2 k l) t2.closeIs key2 ncols l2).map (kvec K2 ncols 0) := by
  subst hK1 hK2
  obtain ⟨_, hp1, hso1⟩ := fuzzyLexSortBy_spec (isSort_sorterOf h1) hn hs1
  obtain ⟨_, hp2, hso2⟩ := fuzzyLexSortBy_spec (isSort_sorterOf h2) hn hs2
  exact lexsorted_keys_unique _ _ ncols hso1 hso2
    (((hp1.map _).trans hperm).trans (hp2.map _).symm)

/-- **Canonicity, items (noise-free).** Two lists that are permutations of each other (the same
    rows stored in a different order), with pairwise distinct cluster-key vectors, are sorted into
    the SAME list — whatever `argsort` routine either side uses. -/
theorem C02_lexsort_canonical {α : Type} {as1 as2 : List Int → List Nat} (h1 : IsArgsort as1)
    (h2 : IsArgsort as2) (t : MeshTol) (A B M ncols : Nat) (hn : 1 ≤ ncols) (key : Nat → α → Int)
    (l1 l2 : List α) (hperm : l1.Perm l2) (hs1 : SepCols t A B M key ncols l1)
    (hdist : ∀ a ∈ l1, ∀ b ∈ l1, kvec (colKey A key l1) ncols 0 a = kvec (colKey A key l1) ncols 0 b → a = b) :
    fuzzyLexSortBy (fun k l => sorterOf as1 k l) t.closeIs key ncols l1 =
    fuzzyLexSortBy (fun k l => sorterOf as2 k l) t.closeIs key ncols l2 := by
  have hs2 : SepCols t A B M key ncols l2 :=
    ⟨hs1.hAB, hs1.bounds,
     fun j hj => by
       have := hs1.sep j hj
       rw [sepCol_iff] at this ⊢
       intro u hu v hv
       exact this u ((hperm.map _).mem_iff.mpr hu) v ((hperm.map _).mem_iff.mpr hv),
     fun j hj a ha => hs1.mag j hj a (hperm.mem_iff.mpr ha)⟩
  have hK : colKey A key l2 = colKey A key l1 := by
    funext j a
    exact clusterKey_congr (fun w => ((hperm.map (key j)).mem_iff).symm)
  obtain ⟨_, hp1, hso1⟩ := fuzzyLexSortBy_spec (isSort_sorterOf h1) hn hs1
  obtain ⟨_, hp2, hso2⟩ := fuzzyLexSortBy_spec (isSort_sorterOf h2) hn hs2
  rw [hK] at hso2
  refine lexsorted_unique (colKey A key l1) ncols hso1 hso2 ((hp1.trans hperm).trans hp2.symm) ?_
  intro a ha b hb
  exact hdist a (hp1.mem_iff.mp ha) b (hp1.mem_iff.mp hb)

/-! ## (iv) the point sort with the duplicate-point tie break -/

/-- **`_sorting_points_indices`, specified.**  For EVERY `argsort` and every mesh satisfying the
    hypotheses `PointHypP` (Sep for the coordinate columns and for the candidate cell centres;
    every point that coincides with another one has adjacent cells with finite centres): the model
    does not raise and returns a permutation of the (index, coordinates) items that is sorted
    lexicographically by the coordinate cluster keys, coincident points (equal key vectors) being
    ordered lexicographically by the cluster keys of their "minimal" adjacent cell centre. -/
theorem C02_sort_points_sorted {as : List Int → List Nat} (has : IsArgsort as) {t : MeshTol} {A B M : Nat}
    {m : Mesh} {cands : List (List Int)} (hyp : PointHypP t A B M m cands) (hne : m.points ≠ []) :
    ∃ L, sortPointsItems as t m = some L ∧ L.Perm (pitems m) ∧
      L.Pairwise (le2 (KC A m) (KM A cands as t m) m.dim) :=
  sortPointsItems_spec has hyp hne

/-- The "minimal" adjacent cell centre is one of the centres around the point and minimal in the
    lexicographic order of the centre cluster keys; its key vector is the same for every `argsort`. -/
theorem C02_min_centre_tie_independent {as1 as2 : List Int → List Nat} (h1 : IsArgsort as1)
    (h2 : IsArgsort as2) {t : MeshTol} {A B M : Nat} {m : Mesh} {cands : List (List Int)}
    (hC : SepCols t A B M rowKey m.dim cands) (hdim : 1 ≤ m.dim)
    {p : Nat} {cs : List (List Int)} (hcs : centresOf m p = some cs) (hsub : ∀ c ∈ cs, c ∈ cands) :
    (∃ c, minCentre as1 t m p = some c ∧ c ∈ cs ∧ ∀ c' ∈ cs, lexLE (KG A cands) m.dim 0 c c') ∧
    kvec (KG A cands) m.dim 0 ((minCentre as1 t m p).getD []) =
      kvec (KG A cands) m.dim 0 ((minCentre as2 t m p).getD []) :=
  ⟨minCentre_spec h1 hC hdim hcs hsub, minCentre_key_unique h1 h2 hC hdim hcs hsub⟩

/-- **The point sort does not depend on the tie-breaking of `argsort`** when coincident points are
    distinguishable (pairwise distinct pairs of coordinate / minimal-centre key vectors): two
    arbitrary `argsort` routines yield the same index map. -/
theorem C02_sort_points_tie_independent {as1 as2 : List Int → List Nat} (h1 : IsArgsort as1)
    (h2 : IsArgsort as2) {t : MeshTol} {A B M : Nat} {m : Mesh} {cands : List (List Int)}
    (hyp : PointHypP t A B M m cands)
    (hdist : ∀ a ∈ pitems m, ∀ b ∈ pitems m, kvec (KC A m) m.dim 0 a = kvec (KC A m) m.dim 0 b →
      kvec (KM A cands as1 t m) m.dim 0 a = kvec (KM A cands as1 t m) m.dim 0 b → a = b) :
    sortPointsIdx as1 t m = sortPointsIdx as2 t m := by
  unfold sortPointsIdx
  rw [sortPointsItems_tie_independent h1 h2 hyp hdist]

/-- **Soundness of the decidable hypothesis.** What the driver evaluates and reports as `hyp`
    (`Spec.pointHyp`: `Sep` for coordinates and candidate centres, coincident points have finite
    adjacent centres, distinguishability) implies the Prop-level hypotheses of the theorems. -/
theorem C02_hyp_sound {t : MeshTol} {m : Mesh} (h : pointHyp t m = true) :
    PointHypP t (sepA t) (sepB t) (pointData (sepA t) m).M m (pointData (sepA t) m).cands ∧
    (∀ a ∈ pitems m, ∀ b ∈ pitems m,
      kvec (KC (sepA t) m) m.dim 0 a = kvec (KC (sepA t) m) m.dim 0 b →
      kvec (KM (sepA t) (pointData (sepA t) m).cands argsortStable t m) m.dim 0 a =
        kvec (KM (sepA t) (pointData (sepA t) m).cands argsortStable t m) m.dim 0 b → a = b) := by
  unfold pointHyp at h
  simp only [Bool.and_eq_true] at h
  exact ⟨pointSep_sound h.1.2, distinguishable_sound h.2⟩

/-- **The index map of `sort_points` is determined by the mesh alone.** Whenever the decidable
    hypothesis holds, EVERY `argsort` routine (numpy's unstable one included) makes
    `_sorting_points_indices` return — without raising — exactly the index map the driver computes
    with its stable merge sort. -/
theorem C02_sort_points_canonical {as : List Int → List Nat} (has : IsArgsort as) {t : MeshTol} {m : Mesh}
    (h : pointHyp t m = true) :
    sortPointsIdx as t m = sortPointsIdx argsortStable t m ∧ (sortPointsIdx as t m).isSome = true := by
  obtain ⟨hyp, hdist⟩ := C02_hyp_sound h
  have e := C02_sort_points_tie_independent isArgsort_stable has hyp hdist
  refine ⟨e.symm, ?_⟩
  by_cases hne : m.points = []
  · unfold sortPointsIdx sortPointsItems; simp [hne]
  · obtain ⟨L, eL, _, _⟩ := sortPointsItems_spec has hyp hne
    unfold sortPointsIdx; simp [eL]

/-- **C02_canonical_points (partial: the relabelling invariance of the keys is a hypothesis).**
    FULL STATEMENT (DESIGN §7): for `M₂ = relabel ρ M₁` (points permuted, cells permuted and
    renumbered, noise below tol/8) with `Sep` and distinguishable coincident points, the sorted
    points of `M₂` and `M₁` have pointwise equal cluster keys, and are identical without noise.
    PROVED HERE: exactly that conclusion, for two arbitrary meshes and two arbitrary `argsort`
    routines, from the hypothesis `hrel` that the two point sets carry the same pairs (coordinate
    key vector, minimal-centre key vector) up to permutation.  MISSING: the derivation of `hrel`
    from the `relabel` relation (invariance of the adjacent-cell centres' cluster keys under
    renumbering; for noise additionally the joint `Sep` of both sides). -/
theorem C02_canonical_points_partial {as1 as2 : List Int → List Nat} (h1 : IsArgsort as1) (h2 : IsArgsort as2)
    {t1 t2 : MeshTol} {A1 B1 M1 A2 B2 M2 : Nat} {m1 m2 : Mesh} {c1 c2 : List (List Int)}
    (hy1 : PointHypP t1 A1 B1 M1 m1 c1) (hy2 : PointHypP t2 A2 B2 M2 m2 c2)
    (hn1 : m1.points ≠ []) (hn2 : m2.points ≠ []) (hdim : m1.dim = m2.dim)
    (hrel : ((pitems m1).map (kv2 (KC A1 m1) (KM A1 c1 as1 t1 m1) m1.dim)).Perm
            ((pitems m2).map (kv2 (KC A2 m2) (KM A2 c2 as2 t2 m2) m2.dim))) :
    ∃ L1 L2, sortPointsItems as1 t1 m1 = some L1 ∧ sortPointsItems as2 t2 m2 = some L2 ∧
      L1.map (kv2 (KC A1 m1) (KM A1 c1 as1 t1 m1) m1.dim) =
      L2.map (kv2 (KC A2 m2) (KM A2 c2 as2 t2 m2) m2.dim) :=
  sortPoints_canonical_keys h1 h2 hy1 hy2 hn1 hn2 hdim hrel

/-- noise-free part of `C02_canonical_points`: identical sorted coordinates (same partial status:
    `hrel` — the (coordinates, key-vector pair) of the two point sets agree up to permutation — is a
    hypothesis; `hdist` = coincident points are distinguishable or bitwise identical) -/
theorem C02_canonical_points_identical_partial {as1 as2 : List Int → List Nat} (h1 : IsArgsort as1)
    (h2 : IsArgsort as2) {t1 t2 : MeshTol} {A1 B1 M1 A2 B2 M2 : Nat} {m1 m2 : Mesh} {c1 c2 : List (List Int)}
    (hy1 : PointHypP t1 A1 B1 M1 m1 c1) (hy2 : PointHypP t2 A2 B2 M2 m2 c2)
    (hn1 : m1.points ≠ []) (hn2 : m2.points ≠ []) (hdim : m1.dim = m2.dim)
    (hrel : ((pitems m1).map fun it => (it.2, kv2 (KC A1 m1) (KM A1 c1 as1 t1 m1) m1.dim it)).Perm
            ((pitems m2).map fun it => (it.2, kv2 (KC A2 m2) (KM A2 c2 as2 t2 m2) m2.dim it)))
    (hdist : ∀ a ∈ pitems m1, ∀ b ∈ pitems m1,
      kv2 (KC A1 m1) (KM A1 c1 as1 t1 m1) m1.dim a = kv2 (KC A1 m1) (KM A1 c1 as1 t1 m1) m1.dim b → a.2 = b.2) :
    ∃ L1 L2, sortPointsItems as1 t1 m1 = some L1 ∧ sortPointsItems as2 t2 m2 = some L2 ∧
      L1.map (·.2) = L2.map (·.2) :=
  sortPoints_canonical_rows h1 h2 hy1 hy2 hn1 hn2 hdim hrel hdist

/-- **C02_canonical_points, noise-free, from the geometric form of a relabelling.**
    `SameGeometry m₁ m₂ σ`: the points of the two meshes correspond one-to-one (`σ`), corresponding
    points have identical coordinates and the same adjacent cell centres up to order — what permuting
    points, cells within a type and the cell-type blocks produces.  Then, under `PointHypP` on both
    sides and distinguishability, for any two `argsort` routines the sorted point sequence of `m₂` is
    the `σ`-image of that of `m₁`, position by position: identical sorted coordinates, and the two
    index maps differ exactly by the relabelling.
    (`SameGeometry` is derived from the index-level relation `Relabeled` in
    FcProofs/Lemmas/LexsortRelabel.lean, see `C02_canonical_points`; the noisy case is covered at key
    level by `C02_canonical_points_partial`.) -/
theorem C02_canonical_points_geometric {as1 as2 : List Int → List Nat} (h1 : IsArgsort as1)
    (h2 : IsArgsort as2) {t1 t2 : MeshTol} {A B1 M1 B2 M2 : Nat} {m1 m2 : Mesh} {c1 c2 : List (List Int)}
    {σ : PItem → PItem} (hy1 : PointHypP t1 A B1 M1 m1 c1) (hy2 : PointHypP t2 A B2 M2 m2 c2)
    (hc : ∀ x, x ∈ c1 ↔ x ∈ c2) (geo : SameGeometry m1 m2 σ) (hn1 : m1.points ≠ []) (hn2 : m2.points ≠ [])
    (hdist : ∀ a ∈ pitems m1, ∀ b ∈ pitems m1, kvec (KC A m1) m1.dim 0 a = kvec (KC A m1) m1.dim 0 b →
      kvec (KM A c1 as1 t1 m1) m1.dim 0 a = kvec (KM A c1 as1 t1 m1) m1.dim 0 b → a = b) :
    ∃ L1 L2, sortPointsItems as1 t1 m1 = some L1 ∧ sortPointsItems as2 t2 m2 = some L2 ∧
      L1.map σ = L2 ∧ L1.map (·.2) = L2.map (·.2) := by
  obtain ⟨L1, L2, e1, e2, hmap⟩ := sortPoints_canonical_geom h1 h2 hy1 hy2 hc geo hn1 hn2 hdist
  refine ⟨L1, L2, e1, e2, hmap, ?_⟩
  rw [← hmap, List.map_map]
  apply List.map_congr_left
  intro a ha
  obtain ⟨L, eL, pL, _⟩ := sortPointsItems_spec h1 hy1 hn1
  rw [e1] at eL
  have : L1 = L := Option.some.inj eL
  subst this
  exact (geo.row a (pL.mem_iff.mp ha)).symm

/-- **C02_canonical_points (noise-free, FULL).**  `Relabeled m₁ m₂ ρ`: mesh 2 stores the points of
    mesh 1 in the order `ρ` (`points₂ = points₁[ρ]`, `ρ` a permutation) and, in any order and any
    arrangement of cell-type blocks, the cells of mesh 1 with every corner renumbered through `ρ⁻¹`.
    Then, under `PointHypP` on both sides (Sep; coincident points have finite adjacent centres) and
    distinguishability of coincident points, for ANY two `argsort` routines: both point sorts succeed,
    the sorted point sequence of mesh 2 is the relabelled sorted sequence of mesh 1 position by
    position, and the sorted coordinates are IDENTICAL, point by point. -/
theorem C02_canonical_points {as1 as2 : List Int → List Nat} (h1 : IsArgsort as1) (h2 : IsArgsort as2)
    {t1 t2 : MeshTol} {A B1 M1 B2 M2 : Nat} {m1 m2 : Mesh} {c1 c2 : List (List Int)} {ρ : List Nat}
    (hy1 : PointHypP t1 A B1 M1 m1 c1) (hy2 : PointHypP t2 A B2 M2 m2 c2)
    (hc : ∀ x, x ∈ c1 ↔ x ∈ c2) (hrel : Relabeled m1 m2 ρ) (hn1 : m1.points ≠ [])
    (hdist : ∀ a ∈ pitems m1, ∀ b ∈ pitems m1, kvec (KC A m1) m1.dim 0 a = kvec (KC A m1) m1.dim 0 b →
      kvec (KM A c1 as1 t1 m1) m1.dim 0 a = kvec (KM A c1 as1 t1 m1) m1.dim 0 b → a = b) :
    ∃ L1 L2, sortPointsItems as1 t1 m1 = some L1 ∧ sortPointsItems as2 t2 m2 = some L2 ∧
      L1.map (relabelItem ρ) = L2 ∧ L1.map (·.2) = L2.map (·.2) := by
  have hn2 : m2.points ≠ [] := by
    intro h0
    have hl : m2.points.length = m1.points.length := by rw [hrel.points, List.length_map, hrel.length]
    rw [h0] at hl
    exact hn1 (List.length_eq_zero_iff.mp hl.symm)
  exact C02_canonical_points_geometric h1 h2 hy1 hy2 hc hrel.sameGeometry hn1 hn2 hdist

/-! ## cells -/

/-- **C02_canonical_cells.**  Two blocks of one cell type holding the same rows in a different order,
    no two rows with the same hashed vertex set (`h` = Python's `hash` on the sorted corner tuple,
    injective on the occurring keys): both sides' `argsort` put the cells into the SAME order. -/
theorem C02_canonical_cells {as1 as2 : List Int → List Nat} (h1 : IsArgsort as1) (h2 : IsArgsort as2)
    (h : List Nat → Int) (rows1 rows2 : List (List Nat)) (hperm : rows1.Perm rows2)
    (hinj : ∀ a ∈ rows1, ∀ b ∈ rows1, h (sortNat a) = h (sortNat b) → a = b) :
    sortedCellRows as1 h rows1 = sortedCellRows as2 h rows2 :=
  cells_canonical h1 h2 h rows1 rows2 hperm hinj

/-! ## (v) the comparator ladder -/

/-- With the default flags and equal space dimensions the ladder returns the outcome of the FIRST
    rung whose domain check passes (as is → orphans stripped + points sorted → cells sorted),
    otherwise the outcome of the last rung; it raises exactly when a point sort raises. -/
theorem C02_ladder_first_passing_rung (asS asR : List Int → List Nat) (h : List Nat → Int)
    (srcF refF : MeshFields) (hdim : srcF.mesh.dim = refF.mesh.dim) :
    ladder asS asR h {} srcF refF =
      if (C02.runComparison ⟨srcF, meshTolOf srcF.mesh, false⟩ ⟨refF, meshTolOf refF.mesh, false⟩).domainEq then
        .done 0 (C02.runComparison ⟨srcF, meshTolOf srcF.mesh, false⟩ ⟨refF, meshTolOf refF.mesh, false⟩)
      else
      match permuteSide asS {} ⟨srcF, meshTolOf srcF.mesh, false⟩,
            permuteSide asR {} ⟨refF, meshTolOf refF.mesh, false⟩ with
      | some s2, some r2 =>
        if (C02.runComparison s2 r2).domainEq then .done 2 (C02.runComparison s2 r2) else
        .done 3 (C02.runComparison { s2 with f := C02.sortCells asS h s2.f } { r2 with f := C02.sortCells asR h r2.f })
      | _, _ => .raised :=
  ladder_default_cases asS asR h srcF refF hdim

/-- A view compared with itself (whatever the tolerances and kinds of the two domain objects):
    equal domains and every field `passed` — reflexivity of `mesh_equal`, of the name matching and
    of `DefaultEquality` on finite values of every modelled dtype. -/
theorem C02_compare_self_passes (f : MeshFields) (t1 t2 : MeshTol) (p1 p2 : Bool)
    (hnd : (f.mesh.cells.map (·.1)).Nodup) :
    allPassed (C02.runComparison ⟨f, t1, p1⟩ ⟨f, t2, p2⟩) = true :=
  runComparison_self f t1 t2 p1 p2 hnd

/-- **C02_no_false_fail (partial).**
    FULL STATEMENT (DESIGN §7): `WellFormed M ∧ Sep M ∧ Distinguishable M` ⇒ the default comparator on
    `(relabel ρ M, M)`, in either role, ends with `domainEq = true` and every field `passed`.
    PROVED HERE, for every pair of `argsort` routines and every `h`: under `PointHypP` of both stripped
    sides (so that no point sort raises) the default ladder ends with equal domains and every field
    passed PROVIDED
      `hcanon`  the fully sorted views of the two sides are identical (what canonicity of the point
                sort, of the cell sort and C08's index-map algebra deliver for a noise-free relabelling
                with unshuffled type blocks), and
      `hearly0`, `hearly2`  a domain check that already passes on an earlier rung (as is / sorted
                points) is followed by passing fields there.
    MISSING for the full statement: (a) `hcanon` from `relabel` (needs `hrel` of
    `C02_canonical_points_partial`, `C02_canonical_cells` and the content-preservation of the index-map
    application, C08), incl. shuffled type blocks (equality up to block order) and noise (fuzzy instead
    of identical points); (b) `hearly0/2`: a relabelling that passes the as-is domain check fixes every
    distinguishable point (automorphism argument). -/
theorem C02_no_false_fail_partial {asS asR : List Int → List Nat} (hS : IsArgsort asS) (hR : IsArgsort asR)
    (h : List Nat → Int) (srcF refF : MeshFields) (hdim : srcF.mesh.dim = refF.mesh.dim)
    {A1 B1 M1 A2 B2 M2 : Nat} {c1 c2 : List (List Int)}
    (hyS : PointHypP (meshTolOf srcF.mesh) A1 B1 M1 (stripOrphans asS srcF).mesh c1)
    (hyR : PointHypP (meshTolOf refF.mesh) A2 B2 M2 (stripOrphans asR refF).mesh c2)
    (hcanon : ∀ s2 r2, permuteSide asS {} ⟨srcF, meshTolOf srcF.mesh, false⟩ = some s2 →
      permuteSide asR {} ⟨refF, meshTolOf refF.mesh, false⟩ = some r2 →
      C02.sortCells asS h s2.f = C02.sortCells asR h r2.f ∧ ((C02.sortCells asS h s2.f).mesh.cells.map (·.1)).Nodup)
    (hearly0 : (C02.runComparison ⟨srcF, meshTolOf srcF.mesh, false⟩ ⟨refF, meshTolOf refF.mesh, false⟩).domainEq = true →
      allPassed (C02.runComparison ⟨srcF, meshTolOf srcF.mesh, false⟩ ⟨refF, meshTolOf refF.mesh, false⟩) = true)
    (hearly2 : ∀ s2 r2, permuteSide asS {} ⟨srcF, meshTolOf srcF.mesh, false⟩ = some s2 →
      permuteSide asR {} ⟨refF, meshTolOf refF.mesh, false⟩ = some r2 →
      (C02.runComparison s2 r2).domainEq = true → allPassed (C02.runComparison s2 r2) = true) :
    ladderPasses (ladder asS asR h {} srcF refF) = true := by
  rw [ladder_default_cases asS asR h srcF refF hdim]
  simp only
  obtain ⟨s2, es⟩ := permuteSide_isSome hS ⟨srcF, meshTolOf srcF.mesh, false⟩ hyS
  obtain ⟨r2, er⟩ := permuteSide_isSome hR ⟨refF, meshTolOf refF.mesh, false⟩ hyR
  by_cases h0 : (C02.runComparison ⟨srcF, meshTolOf srcF.mesh, false⟩ ⟨refF, meshTolOf refF.mesh, false⟩).domainEq = true
  · simp only [h0, if_true, ladderPasses]
    exact hearly0 h0
  · simp only [h0, Bool.false_eq_true, if_false, es, er]
    by_cases h2 : (C02.runComparison s2 r2).domainEq = true
    · simp only [h2, if_true, ladderPasses]
      exact hearly2 s2 r2 es er h2
    · simp only [h2, Bool.false_eq_true, if_false, ladderPasses]
      obtain ⟨hc, hnd⟩ := hcanon s2 r2 es er
      rw [← hc]
      exact runComparison_self _ _ _ _ _ hnd

/-! ## phase 2: relabelled data sets (`Spec.relabelF`), noise-free -/

/-- **The index map of `strip_orphan_points`, for EVERY `argsort`** (numpy's default is not stable):
    `_unconnected_points_filter_map` is injective and enumerates exactly the points some cell
    references — in an order that depends on the tie-breaking.  (This is why even a mesh without
    orphan points enters `sort_points` in an arbitrary point order.) -/
theorem C02_strip_map {as : List Int → List Nat} (has : IsArgsort as) (m : Mesh) :
    (C02.unconnectedFilterMap as m).Nodup ∧
    ∀ p, p ∈ C02.unconnectedFilterMap as m ↔ (p < m.points.length ∧ m.connected p = true) :=
  stripMap_spec has m

/-- **A data set is the trivial relabelling of itself** (identity point map, identity cell maps). -/
theorem C02_relabel_id {f : MeshFields} (hwf : f.wf2 = true) :
    relabelF (List.range f.mesh.points.length) (idCellMaps f) f = f :=
  relabelF_id (wf2_WFP f hwf)

/-- **The hypotheses of the point sort are invariant under relabelling**: `PointHypP` (Sep for the
    coordinates and the candidate centres, finite adjacent centres of coincident points) carries over
    from a mesh to every index-level relabelled copy, with the same margins and candidate centres. -/
theorem C02_hyp_relabel_invariant {m1 m2 : Mesh} {ρ : List Nat} (hrel : Relabeled m1 m2 ρ) {t : MeshTol}
    {A B M : Nat} {c : List (List Int)} (hy : PointHypP t A B M m1 c) : PointHypP t A B M m2 c :=
  hrel.pointHypP hy

/-- **Soundness of the decidable hypothesis on one data set.**  `Spec.baseHyp h f = true` (well-formed,
    one block per type, a connected point exists, `pointHyp` = Sep ∧ Distinguishable of the stripped
    mesh, `h` separates the cells of the point-sorted view) implies the Prop-level `BaseHyp` the
    theorems below assume — with the margins `sepA`/`sepB` of the tolerances of `f`. -/
theorem C02_base_hyp_sound {h : List Nat → Int} {f : MeshFields} (hb : baseHyp h f = true) :
    BaseHyp h f (sepA (meshTolOf f.mesh)) (sepB (meshTolOf f.mesh))
      (pointData (sepA (meshTolOf f.mesh)) (baseOf f).mesh).M
      (pointData (sepA (meshTolOf f.mesh)) (baseOf f).mesh).cands :=
  baseHyp_sound hb

/-- **`sort_points ∘ strip_orphan_points` of a relabelled data set** (`BaseHyp` = WellFormed ∧ Sep ∧
    Distinguishable of the ONE underlying data set `f`): for every `argsort`, every point permutation
    `ρ` and all per-type cell permutations `κ`, `_permute` does not raise and returns `f` with its
    connected points in ONE order `J` that depends on `f` only (`J = τ0[I0]`: connected points
    ascending, then the index map of the stable argsort) and its cells still in the order `κ` —
    coordinates, renumbered connectivity AND all field arrays. -/
theorem C02_permute_relabelled {as : List Int → List Nat} (has : IsArgsort as) {h : List Nat → Int}
    {f : MeshFields} {A B M : Nat} {c : List (List Int)} (bh : BaseHyp h f A B M c)
    {ρ : List Nat} {κ : String → List Nat} (hρ : ρ.Perm (List.range f.mesh.points.length))
    (hκ : CellMapsOk f κ) :
    ∃ I0, sortPointsIdx argsortStable (meshTolOf f.mesh) (baseOf f).mesh = some I0 ∧
      permuteSide as {} ⟨relabelF ρ κ f, meshTolOf (relabelF ρ κ f).mesh, false⟩ =
        some ⟨applyCellMaps (pointSorted f I0) κ, meshTolOf (relabelF ρ κ f).mesh, true⟩ := by
  obtain ⟨I0, h1, _, h3⟩ := permuteSide_relabelF has bh hρ hκ
  exact ⟨I0, h1, h3⟩

/-- **C02_sort_canonical — `sort(relabel A) = sort(A)`, as complete data sets.**  Two relabellings of
    the same data set (any point permutations, any per-type cell permutations), sorted by
    `sort = sort_cells ∘ sort_points ∘ strip_orphan_points` with two arbitrary `argsort` routines:
    both sorts succeed and return the IDENTICAL `MeshFields` — points, connectivity, point-field and
    cell-field arrays.  (This is `hcanon` of `C02_no_false_fail_partial`, now a theorem; it uses
    `C02_canonical_points` via `sortPoints_canonical_geom`, `C02_canonical_cells`, and the index-map
    algebra of `PermutedMesh`/`TransformedMeshFields`, whose array part re-uses C08's lemmas.) -/
theorem C02_sort_canonical {as1 as2 : List Int → List Nat} (h1 : IsArgsort as1) (h2 : IsArgsort as2)
    {h : List Nat → Int} {f : MeshFields} {A B M : Nat} {c : List (List Int)} (bh : BaseHyp h f A B M c)
    {ρ1 ρ2 : List Nat} {κ1 κ2 : String → List Nat}
    (hρ1 : ρ1.Perm (List.range f.mesh.points.length)) (hρ2 : ρ2.Perm (List.range f.mesh.points.length))
    (hκ1 : CellMapsOk f κ1) (hκ2 : CellMapsOk f κ2) :
    ∃ S, sortMesh as1 h (meshTolOf (relabelF ρ1 κ1 f).mesh) (relabelF ρ1 κ1 f) = some S ∧
         sortMesh as2 h (meshTolOf (relabelF ρ2 κ2 f).mesh) (relabelF ρ2 κ2 f) = some S := by
  obtain ⟨I0, hI0, e1⟩ := sortPoints_relabelF h1 bh hρ1 hκ1
  obtain ⟨I0', hI0', e2⟩ := sortPoints_relabelF h2 bh hρ2 hκ2
  rw [hI0] at hI0'
  cases hI0'
  refine ⟨C02.sortCells argsortStable h (pointSorted f I0), ?_, ?_⟩
  · unfold sortMesh
    rw [e1, Option.map_some, sorted_relabelF h1 isArgsort_stable bh hκ1 hI0]
  · unfold sortMesh
    rw [e2, Option.map_some, sorted_relabelF h2 isArgsort_stable bh hκ2 hI0]

/-- **C02_no_false_fail for two relabellings of one data set (noise-free; partial).**
    `BaseHyp h f` (WellFormed ∧ Sep ∧ Distinguishable ∧ hash separates the cells) ⇒ the default
    comparator on `(relabel ρ₁ κ₁ f, relabel ρ₂ κ₂ f)`, for every pair of `argsort` routines, ends with
    equal domains and every field `passed`.  Compared with `C02_no_false_fail_partial`: `hcanon` and
    `hearly2` are PROVED, `hyS`/`hyR` are derived from the hypotheses on `f`, and `hearly0` is reduced to
      `hrigid`  if `mesh_equal` accepts the two stored meshes AS THEY ARE, the two point orders agree
    (then the cell orders agree as well — proved — and the fields are compared with themselves).
    MISSING: `hrigid` from Sep ∧ Distinguishable (a fuzzy automorphism of the mesh fixes every
    distinguishable point; needs a rounding-error bound for cell centres whose corners are listed in
    another order).  It is proved when no two points coincide: `C02_no_false_fail_continuous`. -/
theorem C02_no_false_fail_relabelled_pair_partial {asS asR : List Int → List Nat} (hS : IsArgsort asS)
    (hR : IsArgsort asR) {h : List Nat → Int} {f : MeshFields} {A B M : Nat} {c : List (List Int)}
    (bh : BaseHyp h f A B M c) {ρ1 ρ2 : List Nat} {κ1 κ2 : String → List Nat}
    (hρ1 : ρ1.Perm (List.range f.mesh.points.length)) (hρ2 : ρ2.Perm (List.range f.mesh.points.length))
    (hκ1 : CellMapsOk f κ1) (hκ2 : CellMapsOk f κ2)
    (hrigid : meshEqual (meshTolOf f.mesh) (relabelF ρ1 κ1 f).mesh (relabelF ρ2 κ2 f).mesh = true → ρ1 = ρ2) :
    ladderPasses (ladder asS asR h {} (relabelF ρ1 κ1 f) (relabelF ρ2 κ2 f)) = true := by
  obtain ⟨I0, hI0, hyS, eS⟩ := permuteSide_relabelF hS bh hρ1 hκ1
  obtain ⟨I0', hI0', hyR, eR⟩ := permuteSide_relabelF hR bh hρ2 hκ2
  rw [hI0] at hI0'
  cases hI0'
  have hch := bh.cellHyp hI0
  refine C02_no_false_fail_partial hS hR h _ _ rfl hyS hyR ?_ ?_ ?_
  · -- hcanon
    intro s2 r2 es er
    rw [eS] at es
    rw [eR] at er
    cases es
    cases er
    refine ⟨?_, ?_⟩
    · show C02.sortCells asS h (applyCellMaps (pointSorted f I0) κ1) =
        C02.sortCells asR h (applyCellMaps (pointSorted f I0) κ2)
      rw [sorted_relabelF hS isArgsort_stable bh hκ1 hI0, sorted_relabelF hR isArgsort_stable bh hκ2 hI0]
    · show (C02.sortCells asS h (applyCellMaps (pointSorted f I0) κ1)).mesh.cellTypes.Nodup
      unfold C02.sortCells
      rw [cellTypes_applyCellMaps, cellTypes_applyCellMaps]
      exact hch.types
  · -- hearly0
    intro hd
    have heq := (domainEq_iff _ _).mp hd
    have htol : ∀ t : MeshTol, (⟨min t.atol t.atol, min t.rtol t.rtol⟩ : MeshTol) = t := by
      intro t; cases t; simp
    simp only [meshTolOf_relabelF κ1 hρ1, meshTolOf_relabelF κ2 hρ2, Bool.false_eq_true, if_false,
      htol] at heq
    have hρ := hrigid heq
    subst hρ
    have hcov := covers_of_perm bh.wf hρ1
    exact runComparison_views (s := applyPointMap f ρ1) (by rw [cellTypes_applyPointMap]; exact bh.wf.types)
      (bh.vertexSets hcov) (hκ1.pointMap _) (hκ2.pointMap _) _ _ _ _ hd
  · -- hearly2
    intro s2 r2 es er hd
    rw [eS] at es
    rw [eR] at er
    cases es
    cases er
    exact runComparison_views hch.types hch.vertexSets (hκ1.pointMap _) (hκ2.pointMap _) _ _ _ _ hd

/-- **C02_no_false_fail, noise-free, either role (partial: `hrigid`).**  `BaseHyp h f` ⇒ the default
    comparator on `(relabel ρ κ f, f)` AND on `(f, relabel ρ κ f)` ends with equal domains and every
    field `passed`, for every pair of `argsort` routines — provided that, whenever `mesh_equal` accepts
    the relabelled mesh against the original as stored, `ρ` is the identity (`hrigid`, see
    `C02_no_false_fail_relabelled_pair_partial`).  No `hcanon`, no `hearly2`. -/
theorem C02_no_false_fail_noise_free_partial {asS asR : List Int → List Nat} (hS : IsArgsort asS)
    (hR : IsArgsort asR) {h : List Nat → Int} {f : MeshFields} {A B M : Nat} {c : List (List Int)}
    (bh : BaseHyp h f A B M c) {ρ : List Nat} {κ : String → List Nat}
    (hρ : ρ.Perm (List.range f.mesh.points.length)) (hκ : CellMapsOk f κ)
    (hrigid1 : meshEqual (meshTolOf f.mesh) (relabelF ρ κ f).mesh f.mesh = true →
      ρ = List.range f.mesh.points.length)
    (hrigid2 : meshEqual (meshTolOf f.mesh) f.mesh (relabelF ρ κ f).mesh = true →
      List.range f.mesh.points.length = ρ) :
    ladderPasses (ladder asS asR h {} (relabelF ρ κ f) f) = true ∧
    ladderPasses (ladder asS asR h {} f (relabelF ρ κ f)) = true := by
  have hid := relabelF_id bh.wf
  have hρ0 : (List.range f.mesh.points.length).Perm (List.range f.mesh.points.length) := List.Perm.refl _
  constructor
  · have := C02_no_false_fail_relabelled_pair_partial hS hR bh hρ hρ0 hκ (idCellMaps_ok f)
      (by rw [hid]; exact hrigid1)
    rwa [hid] at this
  · have := C02_no_false_fail_relabelled_pair_partial hS hR bh hρ0 hρ (idCellMaps_ok f) hκ
      (by rw [hid]; exact hrigid2)
    rwa [hid] at this

/-- **Rigidity without coincident points** (`hrigid` proved for this class).  `Sep` of ALL coordinate
    columns of `f` as stored (orphans included) and pairwise distinct coordinate key vectors: if
    `mesh_equal` (any tolerances `t` for which `Sep` holds) accepts two relabellings of `f` as they are
    stored, the two point orders are the same list — `fuzzy_equal` on the flattened point arrays is,
    entry by entry, equality of cluster keys (`C02_sep_clusters`). -/
theorem C02_rigid_without_coincident_points {f : MeshFields} (hwf : f.wf2 = true) {t : MeshTol} {A B M : Nat}
    (hsep : SepCols t A B M pkey f.mesh.dim (pitems f.mesh))
    (hdistinct : ∀ a ∈ pitems f.mesh, ∀ b ∈ pitems f.mesh,
      kvec (KC A f.mesh) f.mesh.dim 0 a = kvec (KC A f.mesh) f.mesh.dim 0 b → a = b)
    {ρ1 ρ2 : List Nat} {κ1 κ2 : String → List Nat}
    (hρ1 : ρ1.Perm (List.range f.mesh.points.length)) (hρ2 : ρ2.Perm (List.range f.mesh.points.length))
    (heq : meshEqual t (relabelF ρ1 κ1 f).mesh (relabelF ρ2 κ2 f).mesh = true) : ρ1 = ρ2 :=
  rigid_of_distinct (wf2_WFP f hwf) hsep hdistinct hρ1 hρ2 heq

/-- **C02_no_false_fail for data sets without coincident points (noise-free; NO extra assumption).**
    `baseHyp h f` (well-formed ∧ Sep ∧ Distinguishable of the stripped mesh ∧ hash separates the cells)
    and `continuousHyp f` (no two stored points coincide) — both decidable, both about the ONE data set
    `f` — imply: for every point permutation `ρ`, all per-type cell permutations `κ` and every pair of
    `argsort` routines the default comparator on `(relabel ρ κ f, f)` AND on `(f, relabel ρ κ f)` ends
    with equal domains and every field `passed`.  (`hcanon`, `hearly0`, `hearly2` of
    `C02_no_false_fail_partial` are all proved here.) -/
theorem C02_no_false_fail_continuous {asS asR : List Int → List Nat} (hS : IsArgsort asS) (hR : IsArgsort asR)
    {h : List Nat → Int} {f : MeshFields} (hb : baseHyp h f = true) (hc : continuousHyp f = true)
    {ρ : List Nat} {κ : String → List Nat} (hρ : ρ.Perm (List.range f.mesh.points.length)) (hκ : CellMapsOk f κ) :
    ladderPasses (ladder asS asR h {} (relabelF ρ κ f) f) = true ∧
    ladderPasses (ladder asS asR h {} f (relabelF ρ κ f)) = true := by
  have bh := baseHyp_sound hb
  obtain ⟨hsep, hdist⟩ := continuousHyp_sound hc
  have hid := relabelF_id bh.wf
  refine C02_no_false_fail_noise_free_partial hS hR bh hρ hκ ?_ ?_
  · intro heq
    exact rigid_of_distinct bh.wf hsep hdist hρ (List.Perm.refl _)
      (κ2 := idCellMaps f) (by rw [hid]; exact heq)
  · intro heq
    exact rigid_of_distinct bh.wf hsep hdist (List.Perm.refl _) hρ
      (κ1 := idCellMaps f) (by rw [hid]; exact heq)

/-- the same for two relabellings of one data set without coincident points -/
theorem C02_no_false_fail_continuous_pair {asS asR : List Int → List Nat} (hS : IsArgsort asS)
    (hR : IsArgsort asR) {h : List Nat → Int} {f : MeshFields} (hb : baseHyp h f = true)
    (hc : continuousHyp f = true) {ρ1 ρ2 : List Nat} {κ1 κ2 : String → List Nat}
    (hρ1 : ρ1.Perm (List.range f.mesh.points.length)) (hρ2 : ρ2.Perm (List.range f.mesh.points.length))
    (hκ1 : CellMapsOk f κ1) (hκ2 : CellMapsOk f κ2) :
    ladderPasses (ladder asS asR h {} (relabelF ρ1 κ1 f) (relabelF ρ2 κ2 f)) = true := by
  have bh := baseHyp_sound hb
  obtain ⟨hsep, hdist⟩ := continuousHyp_sound hc
  exact C02_no_false_fail_relabelled_pair_partial hS hR bh hρ1 hρ2 hκ1 hκ2
    (fun heq => rigid_of_distinct bh.wf hsep hdist hρ1 hρ2 heq)

end Fc
