/-
  Property C02 (work in progress: placeholder, replaced below by the full development)
-/
import FcProofs.Lemmas.LexsortSeg
namespace Fc

theorem C02_segment_sort_perm {srt} (h : IsSort srt) (fuel j : Nat) (l : List Row) :
    (lexFrom srt fuel j l).Perm l := lexFrom_perm h fuel j l

end Fc
