/-
  Property C19, residual part — `C19_rerun` for the CONCRETE comparator `Glue.cmpOps (Glue.paramsOf as h strip) cmp`
  (C08's transformations, C02's `_sorting_points_indices` as point sorter, any `argsort`, any hash, any
  comparison `cmp`) with NO canonicity assumption: `Glue.CanonFacts` (`canon_perm`, `canon_sortc`) of
  `C19_rerun_partial` and `hidemP` / `hidemC` of `C19_rerun_idempotent_partial` are DERIVED from C02's
  hypotheses on the two INPUT data sets (`Resid.SortHyp` = WellFormed ∧ Sep ∧ Distinguishable ∧ hash
  separates the cells; decidable forms `Resid.sortHypB`, C02's `Spec.baseHyp`).

  The three pieces named in the header of C19_Glue.lean:
    (a) C02's `applyPointMap` / `applyCellMaps` view = C08's `applyPermuted` layer   `C19_models_agree`
    (b) `sort_cells` on its own output is the identity                               `C19_sort_cells_idempotent`
    (c) `pointHyp` is invariant under the first sort's relabelling, and the second
        `_sorting_points_indices` returns the identity index map                     `C19_second_sort_identity`

  What is left (O-C19-1, NOTES_C19: outside `Sep` the re-run property FAILS on the real code, so some
  hypothesis on the data is necessary): when the two inputs have DIFFERENT space dimensions the
  hypotheses are needed for the zero-padded copies that enter the reordering rungs
  (`C19_rerun_full` states them on `Resid.preReorder`); their invariance under
  `extend_space_dimension_to` is not proved.  For equal dimensions (or dimension matching disabled)
  the hypotheses are about the inputs alone: `C19_rerun_inputs`, `C19_rerun_decidable`, `C19_rerun_baseHyp`.
-/
import FcProofs.Props.C19_Glue
import FcProofs.Lemmas.ResidC19
namespace Fc
open Fc.C19

/-- **C19 (a): the two models of `PermutedMesh`/`TransformedMeshFields` agree.**  On a well-formed data
    set: C08's point layer with an injective, in-range index map covering all corners IS C02's
    `applyPointMap`; C08's cell layer with per-type permutations IS C02's `applyCellMaps`; hence
    C08's `sort_cells` (merge-sorted corner tuples) IS C02's `sortCells` (insertion-sorted), and
    C08's `strip_orphan_points` with the stable argsort IS C02's canonical `baseOf`. -/
theorem C19_models_agree {f : MeshFields} (hwf : WFP f) :
    (∀ τ, C02.Covers f τ → τ ≠ [] → applyPermuted (some τ) none f = some (C02.applyPointMap f τ)) ∧
    (∀ κ : String → List Nat, (∀ b ∈ f.mesh.cells, (κ b.1).Perm (List.range b.2.length)) →
      applyPermuted none (some (f.mesh.cells.map fun b => (b.1, κ b.1))) f = some (C02.applyCellMaps f κ)) ∧
    (∀ as h, C02.IsArgsort as → Fc.sortCells h as f = some (C02.sortCells as h f)) ∧
    ((∃ p, f.mesh.connected p = true) → stripOrphanPoints stableArgsortBool f = some (C02.baseOf f)) :=
  ⟨fun _ hc hne => (Resid.applyPermuted_pointMap hwf hc hne).1,
   fun _ hκ => (Resid.applyPermuted_cellMaps hwf hκ).1,
   fun _ h has => (Resid.sortCells_bridge has h hwf).1,
   fun hne => (Resid.strip_eq_baseOf hwf hne).1⟩

/-- **C19 (c): the second `_sorting_points_indices` returns the identity.**  `e` = the data set that
    enters `sort_points`, under C02's hypotheses on `e` ALONE (`PointHypP` with the tolerances of `e`,
    coincident points distinguishable): for any two argsorts, the first sort succeeds with a
    permutation `σ`; the sorted view — with its cells re-ordered by ANY per-type permutations `κ` — has
    the same tolerances, satisfies `PointHypP` with the same margins and candidate centres
    (invariance of the hypothesis), and its index map is `[0, 1, …, n-1]`. -/
theorem C19_second_sort_identity {as1 as2 : List Int → List Nat} (h1 : C02.IsArgsort as1) (h2 : C02.IsArgsort as2)
    {e : MeshFields} (hwf : WFP e) (hn : e.mesh.points ≠ []) {A B M : Nat} {c : List (List Int)}
    (hy : C02.PointHypP (C02.meshTolOf e.mesh) A B M e.mesh c)
    (hdist : ∀ a ∈ C02.pitems e.mesh, ∀ b ∈ C02.pitems e.mesh,
      C02.kvec (C02.KC A e.mesh) e.mesh.dim 0 a = C02.kvec (C02.KC A e.mesh) e.mesh.dim 0 b →
      C02.kvec (C02.KM A c as1 (C02.meshTolOf e.mesh) e.mesh) e.mesh.dim 0 a =
        C02.kvec (C02.KM A c as1 (C02.meshTolOf e.mesh) e.mesh) e.mesh.dim 0 b → a = b)
    {κ : String → List Nat} (hκ : ∀ b ∈ e.mesh.cells, (κ b.1).Perm (List.range b.2.length)) :
    ∃ σ, C02.sortPointsIdx as1 (C02.meshTolOf e.mesh) e.mesh = some σ ∧
      σ.Perm (List.range e.mesh.points.length) ∧
      C02.meshTolOf (C02.applyCellMaps (C02.applyPointMap e σ) κ).mesh = C02.meshTolOf e.mesh ∧
      C02.PointHypP (C02.meshTolOf e.mesh) A B M (C02.applyCellMaps (C02.applyPointMap e σ) κ).mesh c ∧
      C02.sortPointsIdx as2 (C02.meshTolOf (C02.applyCellMaps (C02.applyPointMap e σ) κ).mesh)
        (C02.applyCellMaps (C02.applyPointMap e σ) κ).mesh = some (List.range e.mesh.points.length) :=
  Resid.sortIdx_of_sorted_view h1 h2 hwf hn hy hdist hκ

/-- **C19 (b): `_permute` and `sort_cells` are idempotent on the fully sorted view** (`hidemP`, `hidemC`
    of `C19_rerun_idempotent_partial`, derived).  Under `SortHyp` of the data set `f`, for every
    argsort: `g = sort_cells(_permute(f))` exists, `_permute(g) = g` (the second strip keeps every
    point in place, the second point sort returns the identity map) and `sort_cells(g) = g` (the
    hashes of a block are pairwise distinct, so `argsort` of the sorted hashes is the identity). -/
theorem C19_sort_cells_idempotent {as : List Int → List Nat} (has : C02.IsArgsort as) {h : List Nat → Int}
    {strip : Bool} {f : MeshFields} {A B M : Nat} {c : List (List Int)} (sh : Resid.SortHyp h strip f A B M c) :
    ∃ g, Glue.sortedView (Glue.paramsOf as h strip) f = some g ∧
      Glue.permuteFields (Glue.paramsOf as h strip) g = some g ∧
      Fc.sortCells h as g = some g :=
  sh.sortedView_fix has

/-- … and that view is C02's sorted view `sortCells (applyPointMap (entering f) σ)` -/
theorem C19_sorted_view_is_C02 {as : List Int → List Nat} (has : C02.IsArgsort as) {h : List Nat → Int}
    {strip : Bool} {f : MeshFields} {A B M : Nat} {c : List (List Int)} (sh : Resid.SortHyp h strip f A B M c) :
    ∃ σ, C02.sortPointsIdx as (C02.meshTolOf (Resid.entering strip f).mesh) (Resid.entering strip f).mesh = some σ ∧
      Glue.permuteFields (Glue.paramsOf as h strip) f = some (C02.applyPointMap (Resid.entering strip f) σ) ∧
      Glue.sortedView (Glue.paramsOf as h strip) f =
        some (C02.sortCells as h (C02.applyPointMap (Resid.entering strip f) σ)) :=
  sh.sortedView_eq has

/-- **C19_rerun for the concrete comparator — no canonicity assumption.**
    `k` consecutive calls of ONE comparator object (`__call__` over its mutable `_source/_reference`)
    built from C08's transformations with C02's point sorter, for every `argsort`, hash `h`, orphan
    flag `strip`, comparison `cmp`, flags `fl`, and every initial state: every call returns the first
    call's suite, PROVIDED the two views that enter the reordering rungs of the first call
    (`Resid.preReorder`: the inputs, or their zero-padded copies if the dimension retry happens) are
    `GoodView`s — their data sets, if they exist, satisfy C02's hypotheses `SortHyp`. -/
theorem C19_rerun_full {as : List Int → List Nat} (has : C02.IsArgsort as) (h : List Nat → Int) (strip : Bool)
    (cmp : MeshFields → MeshFields → Bool × Bool) (fl : CmpFlags) (st : CmpState Glue.CView)
    (hS : Resid.GoodView h strip (Resid.preReorder (Glue.cmpOps (Glue.paramsOf as h strip) cmp) fl st).src)
    (hR : Resid.GoodView h strip (Resid.preReorder (Glue.cmpOps (Glue.paramsOf as h strip) cmp) fl st).ref)
    (k : Nat) :
    ∀ s ∈ rerun (Glue.cmpOps (Glue.paramsOf as h strip) cmp) fl k st,
      s = (runComparator (Glue.cmpOps (Glue.paramsOf as h strip) cmp) fl st).suite :=
  Resid.rerun_of_fixAt _ (Resid.dimFacts_cmpOps _ cmp) fl st
    (Resid.fixAt_of_good has cmp hS) (Resid.fixAt_of_good has cmp hR) k

/-- **C19_rerun, hypotheses on the INPUT data sets only** (equal space dimensions, or dimension
    matching disabled): `SortHyp` of `S` and of `R` ⇒ every one of `k` consecutive calls of the
    comparator object constructed on `(S, R)` returns the first call's suite. -/
theorem C19_rerun_inputs {as : List Int → List Nat} (has : C02.IsArgsort as) (h : List Nat → Int) (strip : Bool)
    (cmp : MeshFields → MeshFields → Bool × Bool) (fl : CmpFlags) (S R : MeshFields)
    (hdim : S.mesh.dim = R.mesh.dim ∨ fl.noDimMatch = true)
    {A1 B1 M1 A2 B2 M2 : Nat} {c1 c2 : List (List Int)}
    (hS : Resid.SortHyp h strip S A1 B1 M1 c1) (hR : Resid.SortHyp h strip R A2 B2 M2 c2) (k : Nat) :
    ∀ s ∈ rerun (Glue.cmpOps (Glue.paramsOf as h strip) cmp) fl k ⟨Glue.viewOf S, Glue.viewOf R⟩,
      s = (runComparator (Glue.cmpOps (Glue.paramsOf as h strip) cmp) fl ⟨Glue.viewOf S, Glue.viewOf R⟩).suite := by
  have hpre : Resid.preReorder (Glue.cmpOps (Glue.paramsOf as h strip) cmp) fl ⟨Glue.viewOf S, Glue.viewOf R⟩ =
      ⟨Glue.viewOf S, Glue.viewOf R⟩ := by
    unfold Resid.preReorder
    have : ((Glue.cmpOps (Glue.paramsOf as h strip) cmp).dim (Glue.viewOf S) !=
        (Glue.cmpOps (Glue.paramsOf as h strip) cmp).dim (Glue.viewOf R) && !fl.noDimMatch) = false := by
      show (S.mesh.dim != R.mesh.dim && !fl.noDimMatch) = false
      rcases hdim with e | e
      · simp [e]
      · simp [e]
    rw [if_neg (by rw [this]; exact Bool.false_ne_true)]
  refine C19_rerun_full has h strip cmp fl _ ?_ ?_ k
  · rw [hpre]; exact Resid.goodView_viewOf hS
  · rw [hpre]; exact Resid.goodView_viewOf hR

/-- the same with the DECIDABLE hypothesis `Resid.sortHypB` (what can be evaluated per data set) -/
theorem C19_rerun_decidable {as : List Int → List Nat} (has : C02.IsArgsort as) (h : List Nat → Int) (strip : Bool)
    (cmp : MeshFields → MeshFields → Bool × Bool) (fl : CmpFlags) (S R : MeshFields)
    (hdim : S.mesh.dim = R.mesh.dim ∨ fl.noDimMatch = true)
    (hS : Resid.sortHypB h strip S = true) (hR : Resid.sortHypB h strip R = true) (k : Nat) :
    ∀ s ∈ rerun (Glue.cmpOps (Glue.paramsOf as h strip) cmp) fl k ⟨Glue.viewOf S, Glue.viewOf R⟩,
      s = (runComparator (Glue.cmpOps (Glue.paramsOf as h strip) cmp) fl ⟨Glue.viewOf S, Glue.viewOf R⟩).suite :=
  C19_rerun_inputs has h strip cmp fl S R hdim (Resid.sortHypB_sound hS) (Resid.sortHypB_sound hR) k

/-- the same from C02's own decidable hypothesis `Spec.baseHyp` (default flags: orphans are stripped),
    for data sets whose tolerances do not change when the orphan points are removed (`htol`; true in
    particular when there are no orphan points — `Glue.guardedSorter` takes the tolerances from the
    view that enters `sort_points`, the code from the stored mesh) -/
theorem C19_rerun_baseHyp {as : List Int → List Nat} (has : C02.IsArgsort as) (h : List Nat → Int)
    (cmp : MeshFields → MeshFields → Bool × Bool) (fl : CmpFlags) (S R : MeshFields)
    (hdim : S.mesh.dim = R.mesh.dim ∨ fl.noDimMatch = true)
    (hS : C02.Spec.baseHyp h S = true) (hR : C02.Spec.baseHyp h R = true)
    (htS : C02.meshTolOf (C02.baseOf S).mesh = C02.meshTolOf S.mesh)
    (htR : C02.meshTolOf (C02.baseOf R).mesh = C02.meshTolOf R.mesh) (k : Nat) :
    ∀ s ∈ rerun (Glue.cmpOps (Glue.paramsOf as h true) cmp) fl k ⟨Glue.viewOf S, Glue.viewOf R⟩,
      s = (runComparator (Glue.cmpOps (Glue.paramsOf as h true) cmp) fl ⟨Glue.viewOf S, Glue.viewOf R⟩).suite :=
  C19_rerun_inputs has h true cmp fl S R hdim
    (Resid.sortHyp_of_baseHyp (C02_base_hyp_sound hS) htS) (Resid.sortHyp_of_baseHyp (C02_base_hyp_sound hR) htR) k

/-- a fresh comparator on the original data sets agrees with the reused one after any number of calls
    (corollary of `C19_rerun_inputs`; no canonicity assumption) -/
theorem C19_fresh_comparator_equals_reused_inputs {as : List Int → List Nat} (has : C02.IsArgsort as)
    (h : List Nat → Int) (strip : Bool) (cmp : MeshFields → MeshFields → Bool × Bool) (fl : CmpFlags)
    (S R : MeshFields) (hdim : S.mesh.dim = R.mesh.dim ∨ fl.noDimMatch = true)
    {A1 B1 M1 A2 B2 M2 : Nat} {c1 c2 : List (List Int)}
    (hS : Resid.SortHyp h strip S A1 B1 M1 c1) (hR : Resid.SortHyp h strip R A2 B2 M2 c2) (k : Nat) :
    (rerun (Glue.cmpOps (Glue.paramsOf as h strip) cmp) fl (k + 1) ⟨Glue.viewOf S, Glue.viewOf R⟩).getLast? =
      some (runComparator (Glue.cmpOps (Glue.paramsOf as h strip) cmp) fl ⟨Glue.viewOf S, Glue.viewOf R⟩).suite := by
  have hall := C19_rerun_inputs has h strip cmp fl S R hdim hS hR (k + 1)
  have hne : rerun (Glue.cmpOps (Glue.paramsOf as h strip) cmp) fl (k + 1) ⟨Glue.viewOf S, Glue.viewOf R⟩ ≠ [] := by
    simp [rerun]
  rw [List.getLast?_eq_getLast hne]
  exact congrArg some (hall _ (List.getLast_mem hne))

/-- the state a call leaves behind is a FIXED POINT of `__call__` (a second call neither changes the
    views again nor the suite) -/
theorem C19_state_fixed_after_first_call {as : List Int → List Nat} (has : C02.IsArgsort as) (h : List Nat → Int)
    (strip : Bool) (cmp : MeshFields → MeshFields → Bool × Bool) (fl : CmpFlags) (st : CmpState Glue.CView)
    (hS : Resid.GoodView h strip (Resid.preReorder (Glue.cmpOps (Glue.paramsOf as h strip) cmp) fl st).src)
    (hR : Resid.GoodView h strip (Resid.preReorder (Glue.cmpOps (Glue.paramsOf as h strip) cmp) fl st).ref) :
    (runComparator (Glue.cmpOps (Glue.paramsOf as h strip) cmp) fl
        (runComparator (Glue.cmpOps (Glue.paramsOf as h strip) cmp) fl st).state).state =
      (runComparator (Glue.cmpOps (Glue.paramsOf as h strip) cmp) fl st).state :=
  (Resid.run_fixpoint _ (Resid.dimFacts_cmpOps _ cmp) fl st
    (Resid.fixAt_of_good has cmp hS) (Resid.fixAt_of_good has cmp hR)).2

end Fc
