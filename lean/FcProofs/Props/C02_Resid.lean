/-
  Property C02, residual part.

  (1) `C02_centre_error_bound` — the rounding-error bound for `cellCentre` (sequential binary64 sum +
      division) that NOTES_C02 names as the missing ingredient of `hrigid` and `hrel`: two cells whose
      corner coordinates correspond one-to-one, in any order, up to `δ` have centres within
      `δ + (2k+4)·M·2^-53 + 1 unit`, column by column.
  (2) `hrigid` — "if `mesh_equal` accepts two relabellings of `f` as stored, the point orders agree" —
      is FALSE under `BaseHyp` alone (two coincident ORPHAN points: negation witness in
      Witness/C02_Resid.lean, the comparator reports a false FAIL) and is PROVED under
      `Sep ∧ Distinguishable` of the mesh AS STORED, orphan points included (`PointHypP` of `f.mesh` —
      for data sets without orphan points exactly what `BaseHyp` contains) plus the numeric slack
      `Resid.CentreSlack`: `C02_rigid_distinguishable`.
  (3) hence the noise-free no-false-FAIL theorems WITHOUT `hrigid`:
      `C02_no_false_fail_relabelled_pair`, `C02_no_false_fail_noise_free`, and the decidable form
      `C02_no_false_fail_distinguishable` (`Spec.baseHyp h f ∧ Resid.storedHyp f`).

  Still open (noisy case): `hrel` of `C02_canonical_points_partial` from the joint `Sep` of a noisy pair;
  `C02_centre_error_bound` is stated for two different point arrays and is the numeric half of it.
-/
import FcProofs.Props.C02
import FcProofs.Lemmas.ResidRigid
import FcProofs.Lemmas.ResidNoise
namespace Fc
open Fc.C02 Fc.C02.Spec

/-- **C02 (rounding-error bound for cell centres).**  `r` (corners in the point array `pts`) and `r'`
    (corners in `pts'`) have defined centres `z`, `z'`; `r'` lists, in ANY order, the images `φ q` of the
    corners `q` of `r`; every image lies within `δ` of its original in every column; all magnitudes are
    `≤ M`; at most `2^53` corners.  Then in every column
    `2^53·|z_j − z'_j| ≤ 2^53·δ + (2k+4)·M + 2^53`, `k` = number of corners. -/
theorem C02_centre_error_bound {pts pts' : List (List Int)} {d : Nat} {r r' : List Nat} {φ : Nat → Nat}
    {z z' : List Int} {δ M : Nat}
    (hz : cellCentre pts r = some z) (hz' : cellCentre pts' r' = some z')
    (hperm : r'.Perm (r.map φ))
    (hlen : ∀ q ∈ r, (pts.getD q []).length = d) (hlen' : ∀ q ∈ r', (pts'.getD q []).length = d)
    (hM : ∀ q ∈ r, ∀ j, j < d → ((pts.getD q []).getD j 0).natAbs ≤ M)
    (hM' : ∀ q ∈ r', ∀ j, j < d → ((pts'.getD q []).getD j 0).natAbs ≤ M)
    (hδ : ∀ q ∈ r, ∀ j, j < d → ((pts'.getD (φ q) []).getD j 0 - (pts.getD q []).getD j 0).natAbs ≤ δ)
    (hk : r.length ≤ 9007199254740992) :
    ∀ j, j < d → 9007199254740992 * (z.getD j 0 - z'.getD j 0).natAbs ≤
      9007199254740992 * δ + (2 * r.length + 4) * M + 9007199254740992 :=
  Resid.cellCentre_close hz hz' hperm hlen hlen' hM hM' hδ hk

/-- **C02 (`hrigid`, proved).**  `Sep ∧ Distinguishable` of the mesh as stored (`PointHypP` of `f.mesh`
    under tolerances `t`, coincident points told apart by the cluster keys of their minimal adjacent
    cell centres) and `CentreSlack` for every cell: if `mesh_equal` accepts two relabellings of `f` as
    they are stored, the two point orders are the same list — a fuzzy automorphism of the mesh fixes
    every point. -/
theorem C02_rigid_distinguishable {f : MeshFields} (hwf : f.wf2 = true) {t : MeshTol} {A B M : Nat}
    {c : List (List Int)} (hy : PointHypP t A B M f.mesh c)
    (hslack : ∀ r ∈ allRows f.mesh, Resid.CentreSlack A B M r.length)
    {as : List Int → List Nat} (has : IsArgsort as)
    (hdist : ∀ a ∈ pitems f.mesh, ∀ b ∈ pitems f.mesh,
      kvec (KC A f.mesh) f.mesh.dim 0 a = kvec (KC A f.mesh) f.mesh.dim 0 b →
      kvec (KM A c as t f.mesh) f.mesh.dim 0 a = kvec (KM A c as t f.mesh) f.mesh.dim 0 b → a = b)
    {ρ1 ρ2 : List Nat} {κ1 κ2 : String → List Nat}
    (hρ1 : ρ1.Perm (List.range f.mesh.points.length)) (hρ2 : ρ2.Perm (List.range f.mesh.points.length))
    (hκ1 : CellMapsOk f κ1) (hκ2 : CellMapsOk f κ2)
    (heq : meshEqual t (relabelF ρ1 κ1 f).mesh (relabelF ρ2 κ2 f).mesh = true) : ρ1 = ρ2 :=
  Resid.rigid_of_distinguishable (wf2_WFP f hwf) hy hslack has hdist hρ1 hρ2 hκ1 hκ2 heq

/-- **C02_no_false_fail for two relabellings of one data set — no `hrigid`.**
    `BaseHyp h f` (WellFormed ∧ Sep ∧ Distinguishable of the stripped mesh ∧ hash separates the cells) and
    Sep ∧ Distinguishable of the mesh as stored (+ slack): the default comparator on
    `(relabel ρ₁ κ₁ f, relabel ρ₂ κ₂ f)` ends with equal domains and every field `passed`, for every
    pair of `argsort` routines. -/
theorem C02_no_false_fail_relabelled_pair {asS asR : List Int → List Nat} (hS : IsArgsort asS)
    (hR : IsArgsort asR) {h : List Nat → Int} {f : MeshFields} {A B M : Nat} {c : List (List Int)}
    (bh : BaseHyp h f A B M c)
    {A' B' M' : Nat} {c' : List (List Int)} (hy : PointHypP (meshTolOf f.mesh) A' B' M' f.mesh c')
    (hslack : ∀ r ∈ allRows f.mesh, Resid.CentreSlack A' B' M' r.length)
    {as : List Int → List Nat} (has : IsArgsort as)
    (hdist : ∀ a ∈ pitems f.mesh, ∀ b ∈ pitems f.mesh,
      kvec (KC A' f.mesh) f.mesh.dim 0 a = kvec (KC A' f.mesh) f.mesh.dim 0 b →
      kvec (KM A' c' as (meshTolOf f.mesh) f.mesh) f.mesh.dim 0 a =
        kvec (KM A' c' as (meshTolOf f.mesh) f.mesh) f.mesh.dim 0 b → a = b)
    {ρ1 ρ2 : List Nat} {κ1 κ2 : String → List Nat}
    (hρ1 : ρ1.Perm (List.range f.mesh.points.length)) (hρ2 : ρ2.Perm (List.range f.mesh.points.length))
    (hκ1 : CellMapsOk f κ1) (hκ2 : CellMapsOk f κ2) :
    ladderPasses (ladder asS asR h {} (relabelF ρ1 κ1 f) (relabelF ρ2 κ2 f)) = true :=
  C02_no_false_fail_relabelled_pair_partial hS hR bh hρ1 hρ2 hκ1 hκ2
    (fun heq => Resid.rigid_of_distinguishable bh.wf hy hslack has hdist hρ1 hρ2 hκ1 hκ2 heq)

/-- **C02_no_false_fail, noise-free, either role — no `hrigid`, no `hcanon`, no `hearly0/2`.** -/
theorem C02_no_false_fail_noise_free {asS asR : List Int → List Nat} (hS : IsArgsort asS)
    (hR : IsArgsort asR) {h : List Nat → Int} {f : MeshFields} {A B M : Nat} {c : List (List Int)}
    (bh : BaseHyp h f A B M c)
    {A' B' M' : Nat} {c' : List (List Int)} (hy : PointHypP (meshTolOf f.mesh) A' B' M' f.mesh c')
    (hslack : ∀ r ∈ allRows f.mesh, Resid.CentreSlack A' B' M' r.length)
    {as : List Int → List Nat} (has : IsArgsort as)
    (hdist : ∀ a ∈ pitems f.mesh, ∀ b ∈ pitems f.mesh,
      kvec (KC A' f.mesh) f.mesh.dim 0 a = kvec (KC A' f.mesh) f.mesh.dim 0 b →
      kvec (KM A' c' as (meshTolOf f.mesh) f.mesh) f.mesh.dim 0 a =
        kvec (KM A' c' as (meshTolOf f.mesh) f.mesh) f.mesh.dim 0 b → a = b)
    {ρ : List Nat} {κ : String → List Nat}
    (hρ : ρ.Perm (List.range f.mesh.points.length)) (hκ : CellMapsOk f κ) :
    ladderPasses (ladder asS asR h {} (relabelF ρ κ f) f) = true ∧
    ladderPasses (ladder asS asR h {} f (relabelF ρ κ f)) = true := by
  have hid := relabelF_id bh.wf
  refine C02_no_false_fail_noise_free_partial hS hR bh hρ hκ ?_ ?_
  · intro heq
    exact Resid.rigid_of_distinguishable bh.wf hy hslack has hdist hρ (List.Perm.refl _) hκ
      (idCellMaps_ok f) (by rw [hid]; exact heq)
  · intro heq
    exact Resid.rigid_of_distinguishable bh.wf hy hslack has hdist (List.Perm.refl _) hρ
      (idCellMaps_ok f) hκ (by rw [hid]; exact heq)

/-- **C02_no_false_fail for data sets with distinguishable coincident points — decidable hypotheses,
    NO extra assumption.**  `Spec.baseHyp h f` and `Resid.storedHyp f` (`pointHyp` of the mesh as stored
    under the tolerances of `f`, and the numeric slack for every cell) — both decidable, both about the
    ONE data set `f` — imply: for every point permutation `ρ`, all per-type cell permutations `κ` and
    every pair of `argsort` routines the default comparator on `(relabel ρ κ f, f)` AND on
    `(f, relabel ρ κ f)` ends with equal domains and every field `passed`. -/
theorem C02_no_false_fail_distinguishable {asS asR : List Int → List Nat} (hS : IsArgsort asS)
    (hR : IsArgsort asR) {h : List Nat → Int} {f : MeshFields} (hb : baseHyp h f = true)
    (hs : Resid.storedHyp f = true) {ρ : List Nat} {κ : String → List Nat}
    (hρ : ρ.Perm (List.range f.mesh.points.length)) (hκ : CellMapsOk f κ) :
    ladderPasses (ladder asS asR h {} (relabelF ρ κ f) f) = true ∧
    ladderPasses (ladder asS asR h {} f (relabelF ρ κ f)) = true := by
  obtain ⟨hy, hd, hsl⟩ := Resid.storedHyp_sound hs
  exact C02_no_false_fail_noise_free hS hR (baseHyp_sound hb) hy hsl isArgsort_stable hd hρ hκ

/-- the same for two relabellings of one data set -/
theorem C02_no_false_fail_distinguishable_pair {asS asR : List Int → List Nat} (hS : IsArgsort asS)
    (hR : IsArgsort asR) {h : List Nat → Int} {f : MeshFields} (hb : baseHyp h f = true)
    (hs : Resid.storedHyp f = true) {ρ1 ρ2 : List Nat} {κ1 κ2 : String → List Nat}
    (hρ1 : ρ1.Perm (List.range f.mesh.points.length)) (hρ2 : ρ2.Perm (List.range f.mesh.points.length))
    (hκ1 : CellMapsOk f κ1) (hκ2 : CellMapsOk f κ2) :
    ladderPasses (ladder asS asR h {} (relabelF ρ1 κ1 f) (relabelF ρ2 κ2 f)) = true := by
  obtain ⟨hy, hd, hsl⟩ := Resid.storedHyp_sound hs
  exact C02_no_false_fail_relabelled_pair hS hR (baseHyp_sound hb) hy hsl isArgsort_stable hd hρ1 hρ2 hκ1 hκ2

/-! ### noisy relabelling: invariance of the JOINT cluster keys (ingredients of the noisy canonicity) -/

/-- **C02 (noisy relabelling, points).**  `m₂` stores `m₁` in the point order `ρ` with every coordinate
    moved by at most `δ ≤ A`; the coordinate values of BOTH meshes in column `j` satisfy the dichotomy
    (`Spec.jointSep`).  Then point `i` of `m₂` and its original `ρ[i]` in `m₁` have the same cluster key
    relative to the joint value set. -/
theorem C02_noisy_point_keys {m1 m2 : Mesh} {ρ : List Nat} {δ : Nat} (h : Resid.NoisyRelabeled m1 m2 ρ δ)
    {A B : Nat} (hAB : 2 * A ≤ B) (hδ : δ ≤ A) {j : Nat} (hj : j < m1.dim)
    (hsep : sepCol A B ((pitems m1 ++ pitems m2).map (pkey j)) = true) {i : Nat} (hi : i < m1.points.length) :
    clusterKey A ((pitems m1 ++ pitems m2).map (pkey j)) ((m2.points.getD i []).getD j 0) =
      clusterKey A ((pitems m1 ++ pitems m2).map (pkey j)) ((m1.points.getD (ρ.getD i 0) []).getD j 0) :=
  h.point_keys hAB hδ hj hsep hi

/-- **C02 (noisy relabelling, cell centres).**  A cell `r` of `m₁` and the same cell `r.map ρ⁻¹` of the
    noisy copy `m₂` have centres with the same cluster keys relative to ANY joint list `C` of candidate
    centres that contains both and satisfies the dichotomy — from `C02_centre_error_bound` and the slack
    `δ + (2k+4)·M·2^-53 + 1 unit ≤ B`.  (With `C02_noisy_point_keys` this is what a joint-key version of
    `hrel` needs; `hrel` as stated in `C02_canonical_points_partial` — own keys on each side — is false for
    genuinely noisy pairs: Witness/C02_Resid.lean.) -/
theorem C02_noisy_centre_keys {m1 m2 : Mesh} {ρ : List Nat} {δ : Nat} (h : Resid.NoisyRelabeled m1 m2 ρ δ)
    {A B M : Nat} (hAB : 2 * A ≤ B) {r : List Nat} (hr : r ∈ allRows m1)
    (hslack : Resid.CentreSlack δ B M r.length)
    (hM1 : ∀ q, q < m1.points.length → ∀ j, j < m1.dim → ((m1.points.getD q []).getD j 0).natAbs ≤ M)
    (hM2 : ∀ q, q < m1.points.length → ∀ j, j < m1.dim → ((m2.points.getD q []).getD j 0).natAbs ≤ M)
    {z z' : List Int} (hz : cellCentre m1.points r = some z)
    (hz' : cellCentre m2.points (r.map fun p => ρ.idxOf p) = some z')
    {C : List (List Int)} (hzC : z ∈ C) (hzC' : z' ∈ C) {j : Nat} (hj : j < m1.dim)
    (hsep : sepCol A B (C.map (rowKey j)) = true) :
    clusterKey A (C.map (rowKey j)) (rowKey j z) = clusterKey A (C.map (rowKey j)) (rowKey j z') :=
  h.centre_keys hAB hr hslack hM1 hM2 hz hz' hzC hzC' hj hsep

end Fc
