/-
  FcProofs.Props.C19_Orchestration — C19, phase 6 round 2: the retry ladder `MeshFieldsComparator.__call__`, which C19's
  model runs its meshes through, tied to the source text by TRANSLATION.  The theorem is `C02_source_ladder`
  (Props/C02_Orchestration.lean, translated body `Fc.Gen.c02oLadderCallSrc`, module pylite_c02_orch owned by C02, C03, C17,
  C19); it is re-stated here so that a change of the ladder's source breaks C19's obligations as well.
-/
import FcProofs.Props.C02_Orchestration
import FcModel.Effects

namespace Fc
open PyLite PyLite.C11O PyLite.C02O C02

/-- `C02_source_ladder`, re-exported for C19: the translated `MeshFieldsComparator.__call__` is the abstract ladder
    `ladderAbs` for all operations, flags and inputs (suite, messages, final `self._source` / `self._reference`). -/
theorem C19_source_ladder {σ R : Type} {X : Ext} {ops : Ops σ R} {P : Pres σ R} {fl : LadderFlags}
    {selV cbV rcbV smV : Val} (hX : LadderExt X ops P fl selV cbV rcbV smV)
    (selArg cbArg : Val) (hselA : OrDefault X selArg "closure#0" selV)
    (hcbA : OrDefault X cbArg "DefaultFieldComparisonCallback" cbV) (s r : σ) :
    Gen.c02oLadderCallSrc.runSelf X [selfV ops P fl s r, selArg, cbArg, rcbV] =
      ladderObs ops P fl (ladderAbs ops fl s r) :=
  C02_source_ladder hX selArg cbArg hselA hcbA s r

/-- C19's operations (FcModel/Effects.lean, all total) as operations of the abstract ladder; `perm` is split into the
    two steps the source performs -/
def C19.opsOf {D S : Type} (L : C19.LadderOps D S) (strip sortp : D → D) : Ops D S where
  run := L.cmp
  ok := L.ok
  dim := L.dim
  structured := L.structured
  extend d x := .ok (L.ext d x)
  strip x := .ok (strip x)
  sortPoints x := .ok (sortp x)
  sortCells x := .ok (L.sortc x)

/-- **C19's comparator state machine `runComparator` is the abstract ladder** (hence, by `C19_source_ladder`, what the
    translated `__call__` does): same suite, as many `reordering_callback` invocations as the ladder has messages, and the
    SAME FINAL STATE `self._source / self._reference` — which is what the re-run theorems of C19 start from.  `perm` is
    "strip orphan points unless disabled, then sort points" (`hperm`). -/
theorem C19_runComparator_eq_ladderAbs {D S : Type} (L : C19.LadderOps D S) (fl : LadderFlags) (strip sortp : D → D)
    (hperm : ∀ d, L.perm d = if fl.noOrphanRemoval then sortp d else sortp (strip d)) (st : C19.CmpState D) :
    match ladderAbs (C19.opsOf L strip sortp) fl st.src st.ref with
    | .done _ o s r tr => C19.runComparator L ⟨fl.noReorder, fl.noDimMatch⟩ st = ⟨o, tr.length, ⟨s, r⟩⟩
    | .raised _ => False := by
  obtain ⟨s, r⟩ := st
  obtain ⟨nr, no, nd⟩ := fl
  simp only [C19.runComparator, ladderAbs, reorder, permute, finish, C19.opsOf, hperm]
  by_cases h0 : L.ok (L.cmp s r) = true
  · simp [h0]
  · by_cases hd : L.dim s = L.dim r
    · cases nr <;> cases no <;> by_cases hs : L.structured s = true <;> by_cases hr : L.structured r = true <;>
        simp [h0, hd, hs, hr] <;> (repeat' split) <;> simp_all <;>
          first | (obtain ⟨q1, q2, q3, q4, q5⟩ := ‹_ ∧ _ ∧ _ ∧ _ ∧ _›; subst_vars; simp_all) | (rename_i hq; exact absurd hq (PyLite.C02O.ite_ne_of (by simp) (by simp)))
    · cases nd
      · by_cases h1 : L.ok (L.cmp (L.ext (max (L.dim s) (L.dim r)) s) (L.ext (max (L.dim s) (L.dim r)) r)) = true
        · simp [h0, hd, h1]
        · cases nr <;> cases no <;> by_cases hs : L.structured (L.ext (max (L.dim s) (L.dim r)) s) = true <;>
            by_cases hr : L.structured (L.ext (max (L.dim s) (L.dim r)) r) = true <;> simp [h0, hd, h1, hs, hr] <;>
            (repeat' split) <;> simp_all <;>
          first | (obtain ⟨q1, q2, q3, q4, q5⟩ := ‹_ ∧ _ ∧ _ ∧ _ ∧ _›; subst_vars; simp_all) | (rename_i hq; exact absurd hq (PyLite.C02O.ite_ne_of (by simp) (by simp)))
      · cases nr <;> cases no <;> by_cases hs : L.structured s = true <;> by_cases hr : L.structured r = true <;>
          simp [h0, hd, hs, hr] <;> (repeat' split) <;> simp_all <;>
          first | (obtain ⟨q1, q2, q3, q4, q5⟩ := ‹_ ∧ _ ∧ _ ∧ _ ∧ _›; subst_vars; simp_all) | (rename_i hq; exact absurd hq (PyLite.C02O.ite_ne_of (by simp) (by simp)))

end Fc
