import FcModel.Spec.C07
namespace Fc
theorem C07_placeholder : True := trivial
end Fc
