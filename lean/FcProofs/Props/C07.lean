/-
  FcProofs.Props.C07 — the same grid reads equal from every supported container format.

  Model: FcModel/Structured.lean (lattice classes, readers' extent arithmetic), FcModel/Meshio.lean (meshio bridge).
  Spec:  FcModel/Spec/C07.lean (the lattice described geometrically, VTK corner orders, extent semantics).
  Every statement is for ALL extents / geometries / field data (no bound on sizes); the proofs (in
  FcProofs/Lemmas/Structured.lean, FcProofs/Lemmas/C07Meshio.lean) are index arithmetic by induction over the
  list of directions plus a case split over WHICH extents are zero (never over their values).
-/
import FcProofs.Lemmas.Structured
import FcProofs.Lemmas.C07Meshio
namespace Fc
open Fc.C07 Fc.C07.Spec

/-- **Enumeration order** (`_locations_in`, and with it the order of `points` and of the cells): for any number
    of directions, entry number `c` of the enumeration is the position whose mixed-radix digits — FIRST
    direction least significant, i.e. x fastest — are `c`; there are `∏ shape` entries. -/
theorem C07_enumeration (shape : List Nat) :
    (locationsIn shape).length = prodNat shape ∧
    ∀ c, c < prodNat shape → (locationsIn shape)[c]? = some (unflatten shape c) :=
  ⟨locationsIn_length shape, locationsIn_getElem? shape⟩

/-- **`ImageMesh.points`**: for all extents, the point stored at flat index `pointIdx ext (i,j,k)`
    (= i + (ex+1)·(j + (ey+1)·k)) is `origin + B·(spacing ∘ (i,j,k))` (exact arithmetic in units of 2^-U),
    and there are ∏(e+1) points. -/
theorem C07_points_image (U : Nat) (ext pos : List Nat) (o : List Int) (b : List (List Int)) (s : List Int)
    (h : inShape pos (ext.map (· + 1))) :
    (imagePoints U ext o b s).length = prodNat (ext.map (· + 1)) ∧
    (imagePoints U ext o b s)[pointIdx ext pos]? = some (imagePoint U o b s pos) :=
  imagePoints_spec U ext pos o b s h

/-- **`RectilinearMesh.points`**: for all ordinate vectors (an empty one standing for `[0.0]`), the point
    stored at the x-fastest flat index of `(i,j,k)` is `(X_i, Y_j, Z_k)`. -/
theorem C07_points_rect (ords : List (List Int)) (pos : List Nat)
    (h : inShape pos ((ords.map fixOrdinates).map List.length)) :
    (rectPoints ords).length = prodNat ((ords.map fixOrdinates).map List.length) ∧
    (rectPoints ords)[flatten ((ords.map fixOrdinates).map List.length) pos]? =
      some (pick 0 (ords.map fixOrdinates) pos) :=
  rectPoints_spec ords pos h

/-- the same in coordinates, for three non-empty ordinate vectors -/
theorem C07_points_rect_xyz (X Y Z : List Int) (i j k : Nat) (hi : i < X.length) (hj : j < Y.length)
    (hk : k < Z.length) (hX : X ≠ []) (hY : Y ≠ []) (hZ : Z ≠ []) :
    (rectPoints [X, Y, Z])[i + X.length * (j + Y.length * k)]? = some [X.getD i 0, Y.getD j 0, Z.getD k 0] := by
  have h := (rectPoints_spec [X, Y, Z] [i, j, k] (by simp [fixOrdinates, hX, hY, hZ, inShape, hi, hj, hk])).2
  simpa [fixOrdinates, hX, hY, hZ, flatten, pick] using h

/-- **`_StructuredMeshBase.connectivity`**, all three classes, ALL extents with at least one non-zero direction
    (zero extents allowed in any subset of directions):
    the class picks the cell type of the lattice dimension (stated up to pixel~quad / voxel~hexahedron, so that a
    class switching between the two compatible types — with the matching corner order — keeps the theorem);
    `connectivity` does not raise; it has one row per
    lattice cell of the non-zero directions; row number `c` consists of the point numbers — in the numbering over
    all three directions that `points` uses (`pointIdx`, see `C07_points_*`), although `connectivity` computes
    them from the strides of the non-zero extents only — of the 2^d lattice corners `unflatten c + δ` of lattice
    cell `unflatten c`, δ running in the VTK corner order of the cell type (pixel / voxel order for image and
    rectilinear meshes; quad / hexahedron order — after the reorder with the index maps currently written in
    `_cell_type.py` — for structured meshes). -/
theorem C07_connectivity (k : GridKind) (ex ey ez : Nat) (hpos : 0 < ex ∨ 0 < ey ∨ 0 < ez) :
    normType (gridCellType k [ex, ey, ez]) = normType (latticeType k (gridDim [ex, ey, ez])) ∧
    ∃ rows, gridConnectivity k [ex, ey, ez] (gridCellType k [ex, ey, ez]) = some rows ∧
      rows.length = prodNat (nonzeroExtents [ex, ey, ez]) ∧
      ∀ c, c < prodNat (nonzeroExtents [ex, ey, ez]) →
        rows[c]? = some (latticeCell [ex, ey, ez] (gridCellType k [ex, ey, ez]) c) :=
  connectivity_spec k ex ey ez hpos

/-- a cell type other than the mesh's own has no cells -/
theorem C07_connectivity_other (k : GridKind) (ext : List Nat) (ct : String) (h : ct ≠ gridCellType k ext) :
    gridConnectivity k ext ct = some [] := by
  simp [gridConnectivity, h]

/-- **Readers**: the `Extent` attribute `lo … lo+e` gives `e` cells per direction whatever the lower ends are;
    the readers' cell count ∏ max(e,1) is the number of rows of `connectivity` (∏ of the non-zero extents), so
    that the cell-data index map `arange(num_cells)` is total on the mesh's single cell type (this is what the
    fixed defect F8 was about); the point count is ∏ (e+1). -/
theorem C07_extent_cells (a0 b0 c0 : Int) (ex ey ez : Nat) :
    cellsPerDirection [a0, a0 + ex, b0, b0 + ey, c0, c0 + ez] = some [ex, ey, ez] ∧
    readerNumCells [ex, ey, ez] = prodNat (nonzeroExtents [ex, ey, ez]) ∧
    readerNumPoints [ex, ey, ez] = prodNat ([ex, ey, ez].map (· + 1)) :=
  extent_cells a0 b0 c0 ex ey ez

/-- **Cells connect the geometrically correct points**: for every well-formed description `g` (image,
    rectilinear or structured) of a lattice and every cell `c`, looking the row of `connectivity` up in `points`
    gives the coordinates of the lattice corners `unflatten c + δ`, in the VTK order of the cell type. -/
theorem C07_cell_corners (ex ey ez : Nat) (g : GridGeom) (hg : gridHyp [ex, ey, ez] g [] [] = true) (c : Nat)
    (hc : c < prodNat (nonzeroExtents [ex, ey, ez])) :
    ∃ rows, gridConnectivity g.kind [ex, ey, ez] (gridCellType g.kind [ex, ey, ez]) = some rows ∧
      (rows.getD c []).map (fun p => (gridPoints [ex, ey, ez] g).getD p []) =
        (vtkCorners (gridCellType g.kind [ex, ey, ez])).map fun δ =>
          geomAt [ex, ey, ez] g (expand [ex, ey, ez] (addIdx (unflatten (nonzeroExtents [ex, ey, ez]) c) δ)) :=
  cell_corners ex ey ez g hg c hc

/-- **Extent offsets**: the geometry the reader hands to the mesh class (`shiftGeom`: for image data
    `Origin + B·(spacing∘lo)` as origin — fix a3961d2 —, explicit coordinates otherwise) places lattice position
    `pos` where VTK's semantics of the `Extent` attribute demands (`geomAtLo`: image data puts STRUCTURED INDEX
    `lo + pos` at `Origin + B·(spacing∘index)`), for every lower end `lo`.  `shiftExact` only says that the model's
    unit arithmetic is exact on the shift (trivially true for `lo = 0` and for rectilinear / structured data). -/
theorem C07_extent_offset (lo : List Int) (ext : List Nat) (g : GridGeom) (pos : List Nat)
    (hc : gridCtorOk ext g = true) (hx : shiftExact lo g = true) (hl : lo.length = 3) (hp : pos.length = 3) :
    geomAtLo lo ext g pos = geomAt ext (shiftGeom lo g) pos :=
  geomAtLo_shift lo ext g pos hc hx hl hp

/-- **File content**: the content VTK's semantics assigns to a structured file (`filePointContent` /
    `fileCellContent`, extent lower ends `lo` taken into account) is the lattice content of the description the
    reader builds. -/
theorem C07_file_content (lo : List Int) (ext : List Nat) (g : GridGeom) (pfs : List PointField)
    (cfs : List (String × NdArr)) (hc : gridCtorOk ext g = true) (hx : shiftExact lo g = true)
    (hl : lo.length = 3) (he : ext.length = 3) :
    filePointContent lo ext g pfs = gridPointContent ext (shiftGeom lo g) pfs ∧
    fileCellContent lo ext g cfs = gridCellContent ext (shiftGeom lo g) cfs := by
  constructor
  · unfold filePointContent gridPointContent
    apply List.map_congr_left
    intro p _
    rw [geomAtLo_shift lo ext g _ hc hx hl (by simp [unflatten_length, he])]
  · unfold fileCellContent gridCellContent
    rw [shiftGeom_kind]
    apply List.map_congr_left
    intro c _
    congr 1
    apply List.map_congr_left
    intro δ _
    rw [geomAtLo_shift lo ext g _ hc hx hl (by simp [expand_length, he])]

/-- **Reading a structured file gives the content of the lattice it describes** (model = spec): under the
    well-formedness hypothesis `gridHyp`, for ANY lower ends of the extent, `readGrid` does not raise and the
    field data it returns has
    * as point content EVERY lattice point (each is a corner of some cell) with the coordinates VTK's semantics
      gives it and row `pointIdx` of every point field,
    * as cell content (pixel/voxel normalised to quad/hexahedron corner order) every lattice cell with the
      coordinates of its corners in VTK order and row `c` of every cell field.
    The right-hand sides are the explicit (unstructured) description of the file's lattice. -/
theorem C07_read_content (a0 b0 c0 : Int) (ex ey ez : Nat) (g : GridGeom) (pfs : List PointField)
    (cfs : List (String × NdArr)) (hg : gridHyp [ex, ey, ez] g pfs cfs = true)
    (hx : shiftExact [a0, b0, c0] g = true) :
    ∃ F, readGrid [a0, a0 + ex, b0, b0 + ey, c0, c0 + ez] g pfs cfs = some F ∧
      F.pointContent = filePointContent [a0, b0, c0] [ex, ey, ez] g pfs ∧
      F.cellContent.map normCell = fileCellContent [a0, b0, c0] [ex, ey, ez] g cfs := by
  have hg' := gridHyp_shift _ [a0, b0, c0] g pfs cfs hg
  obtain ⟨F, _, hF, _, _, _, hcells⟩ := read_cells a0 b0 c0 ex ey ez _ pfs cfs hg'
  have hfile := C07_file_content [a0, b0, c0] [ex, ey, ez] g pfs cfs (gridHyp_ctor _ g pfs cfs hg) hx rfl rfl
  refine ⟨F, by simpa [readGrid, lowerEnds] using hF, ?_, ?_⟩
  · rw [hfile.1]; exact read_points a0 b0 c0 ex ey ez _ pfs cfs hg' F hF
  · rw [hfile.2]; exact hcells

/-- **Formats agree**: two well-formed descriptions (any of image / rectilinear / structured, extents starting
    anywhere) of one lattice — same extents, every lattice point at the same coordinates in VTK's semantics
    (`sameGeometry` of the descriptions the readers build), the same field arrays — read to field data with EQUAL point content and EQUAL cell content
    up to pixel~quad / voxel~hexahedron; both equal the explicit description (`C07_read_content`). -/
theorem C07_formats_agree (a1 b1 c1 a2 b2 c2 : Int) (ex ey ez : Nat) (g1 g2 : GridGeom) (pfs : List PointField)
    (cfs : List (String × NdArr)) (h1 : gridHyp [ex, ey, ez] g1 pfs cfs = true)
    (h2 : gridHyp [ex, ey, ez] g2 pfs cfs = true) (hx1 : shiftExact [a1, b1, c1] g1 = true)
    (hx2 : shiftExact [a2, b2, c2] g2 = true)
    (hgeo : sameGeometry [ex, ey, ez] (shiftGeom [a1, b1, c1] g1) (shiftGeom [a2, b2, c2] g2)) :
    ∃ F1 F2, readGrid [a1, a1 + ex, b1, b1 + ey, c1, c1 + ez] g1 pfs cfs = some F1 ∧
      readGrid [a2, a2 + ex, b2, b2 + ey, c2, c2 + ez] g2 pfs cfs = some F2 ∧
      F1.pointContent = F2.pointContent ∧ F1.cellContent.map normCell = F2.cellContent.map normCell := by
  obtain ⟨F1, hF1, hp1, hc1⟩ := C07_read_content a1 b1 c1 ex ey ez g1 pfs cfs h1 hx1
  obtain ⟨F2, hF2, hp2, hc2⟩ := C07_read_content a2 b2 c2 ex ey ez g2 pfs cfs h2 hx2
  have f1 := C07_file_content [a1, b1, c1] [ex, ey, ez] g1 pfs cfs (gridHyp_ctor _ g1 pfs cfs h1) hx1 rfl rfl
  have f2 := C07_file_content [a2, b2, c2] [ex, ey, ez] g2 pfs cfs (gridHyp_ctor _ g2 pfs cfs h2) hx2 rfl rfl
  refine ⟨F1, F2, hF1, hF2, ?_, ?_⟩
  · rw [hp1, hp2, f1.1, f2.1, gridPointContent_congr _ _ _ pfs hgeo]
  · rw [hc1, hc2, f1.2, f2.2, gridCellContent_congr ex ey ez (gridHyp_pos ex ey ez g1 pfs cfs h1) _ _ cfs hgeo]

/-- **meshio bridge, partial**: for a well-formed meshio mesh in which every cell type occurs in AT MOST ONE
    block, `from_meshio` does not raise and preserves the content: every cell of every block with its corner
    coordinates and the values of its own block, every connected point with its values.
    Full statement (no hypothesis on repeated types) is FALSE for the code as it is: `Mesh.__init__` keys the
    connectivity by cell type, so an earlier block of a repeated type is overwritten and `MeshFields.__init__`
    zips the remaining types with the first arrays — see the `decide`d witness in `Witness/C07.lean` (finding F9). -/
theorem C07_meshio_blocks_partial (m : MioMesh) (hwf : m.wf = true) (hnr : m.repeatedType = false) :
    ∃ F, fromMeshio m = some F ∧ F.cellContent = mioCellContent m ∧ F.pointContent = mioPointContent m :=
  fromMeshio_content m hwf hnr

end Fc
