/-
  Property C04 — CLI file-mode exit code equals the documented comparison semantics.
  Only property theorems live here; helper lemmas are in FcProofs/Lemmas/Cli.lean.

  Model:  `Fc.Cli.fileMode`      (FcModel/Cli.lean — `_parse_field_tolerances`, `FieldToleranceMap`,
                                  `find_matches`, `_filter_matches`, `_select_predicate`, `_parse_status`,
                                  `TestSuite.__bool__`, `_compare_field_data`, `_compare_field_sequences`,
                                  `FileComparison.__call__`, `_run`, `_bool_to_exit_code`)
  Spec:   `Fc.Cli.Spec.exitZero` (FcModel/Spec/C04.lean — declarative)
  The numeric verdict of one field is the cluster-A model `Fc.defaultCheck` (C01 / C09).
-/
import FcProofs.Lemmas.Cli
import FcProofs.Props.C01
namespace Fc
open Fc.Cli

/-- the pairs of data sets a scenario compares -/
def Cli.Scenario.pairs (s : Scenario) : List PairData :=
  match s.payload with
  | .single p => [p]
  | .seqs _ _ steps => steps
  | .mixed => []

/-- hypothesis of the C04 theorems: within each data set the field names are pairwise different
    (true for every file the readers produce: tables and mesh files are keyed by name) -/
def Cli.Scenario.NamesNodup (s : Scenario) : Prop :=
  ∀ p ∈ s.pairs, (fnames p.res).Nodup ∧ (fnames p.ref).Nodup

/-- **C04 (exit 0 iff the documented semantics hold).**  For every scenario — all option token
    lists, all field sets on either side, all values, all read outcomes, single data sets and
    sequences of any length — the modelled `fieldcompare file` exits with 0 exactly when the
    declarative spec holds: tolerance arguments accepted, both files readable, same kind of data,
    equal domains, every selected common field passes with the tolerance that applies to it,
    one-sided fields only where ignored, and the sequence clause.  (`C04_spec_meaning`,
    `C04_tolerance_that_applies` and `C04_field_formula` spell the right-hand side out.) -/
theorem C04_exit_zero_iff (pf : String → FloatLit) (s : Scenario) (hn : s.NamesNodup) :
    (fileMode pf s).1 = .exit 0 ↔ Spec.exitZero pf s = true := by
  unfold fileMode Spec.exitZero
  cases ho : mkOpts pf s with
  | none =>
    have := (mkOpts_none pf s).mp ho
    simp only [this, Bool.false_and]
    simp
  | some o =>
    have hval : (Spec.tokensValid pf false s.rtolToks && Spec.tokensValid pf true s.atolToks) = true := by
      cases hv : (Spec.tokensValid pf false s.rtolToks && Spec.tokensValid pf true s.atolToks) with
      | true => rfl
      | false => have := (mkOpts_none pf s).mpr hv; rw [ho] at this; cases this
    have hO := mkOpts_some pf s o ho
    -- the body of the try: passes iff reads ok and the payload passes
    have hrun : (runComparison o s).passes =
        (s.readRes == .ok && s.readRef == .ok && Spec.payloadOk pf s s.payload) := by
      have hio : (ReadOutcome.ioerror == ReadOutcome.ok) = false := by decide
      have hexc : (ReadOutcome.exception == ReadOutcome.ok) = false := by decide
      unfold runComparison
      cases hr : s.readRes with
      | ioerror => simp [CmpRes.passes, Suite.bool, hio, hexc, suiteIsTrue_table]
      | exception => simp [CmpRes.passes, hio, hexc]
      | ok =>
        cases hf : s.readRef with
        | ioerror => simp [CmpRes.passes, Suite.bool, hio, hexc, suiteIsTrue_table]
        | exception => simp [CmpRes.passes, hio, hexc]
        | ok =>
          simp only [beq_self_eq_true, Bool.true_and]
          cases hp : s.payload with
          | mixed => simp [CmpRes.passes, Spec.payloadOk]
          | single p =>
            have hnp := hn p (by simp [Scenario.pairs, hp])
            simp only [Spec.payloadOk]
            exact compareFieldData_passes hO p hnp.1 hnp.2
          | seqs n m steps =>
            simp only [Spec.payloadOk, compareSequences]
            have hsteps : ∀ p ∈ steps.take (min n m), (compareFieldData o p).passes = Spec.pairOk pf s p := by
              intro p hpm
              have hnp := hn p (by simp only [Scenario.pairs, hp]; exact List.mem_of_mem_take hpm)
              exact compareFieldData_passes hO p hnp.1 hnp.2
            by_cases hlen : n = m
            · subst hlen
              simp only [ne_eq, not_true_eq_false, false_and, if_false, beq_self_eq_true, Bool.true_or,
                Bool.true_and]
              have := (seqLoop_passes o (Spec.pairOk pf s) _ ⟨[], none⟩ (testsOk_nil _) hsteps).1
              rw [this]
              simp [Suite.bool]
            · have hbeq : (n == m) = false := by simp [hlen]
              rw [hO.ignSeq, hO.forceSeq]
              cases hig : s.ignSeq with
              | true =>
                simp only [ne_eq, hlen, not_false_eq_true, Bool.not_true, Bool.false_eq_true, and_false,
                  and_self, if_false, hbeq, Bool.or_true, Bool.true_and, false_and]
                have := (seqLoop_passes o (Spec.pairOk pf s) _ ⟨[], none⟩ (testsOk_nil _) hsteps).1
                rw [this]
                simp [Suite.bool]
              | false =>
                simp only [hbeq, Bool.or_false, Bool.false_and]
                cases hfo : s.forceSeq with
                | false => simp [hlen, CmpRes.passes, Suite.bool]; decide
                | true =>
                  simp only [ne_eq, hlen, not_false_eq_true, Bool.not_false, Bool.not_true,
                    Bool.false_eq_true, and_false, and_true, if_false, if_true, true_and]
                  have := (seqLoop_passes o (Spec.pairOk pf s) _ ⟨[], some .failed⟩ (testsOk_nil _) hsteps).1
                  rw [this]
                  have : Suite.bool ⟨[], some .failed⟩ = false := by simp [Suite.bool]; decide
                  simp [this]
    simp only
    rw [hval, Bool.true_and, ← hrun]
    cases hc : runComparison o s with
    | exc =>
      simp only [CmpRes.passes]
      have : boolToExitCode false ≠ 0 := by decide
      simp [this]
    | suite su =>
      simp only [CmpRes.passes, ExitOutcome.exit.injEq]
      exact boolToExitCode_zero su.bool

/-- **C04 (what the spec says, in words of the property).**  One pair of data sets passes iff the
    domains are equal, every field present on both sides and selected by the patterns passes the
    comparison with its own tolerances, and fields present on one side only occur only under the
    corresponding ignore flag. -/
theorem C04_spec_meaning (pf : String → FloatLit) (s : Scenario) (p : PairData) :
    Spec.pairOk pf s p = true ↔
      Spec.domainsEqual pf s p.dom = true ∧
      (∀ a ∈ p.res, ∀ b ∈ p.ref, b.name = a.name → Spec.selected s a.name = true → Spec.fieldOk pf s a b = true) ∧
      ((∀ b ∈ p.ref, ∃ a ∈ p.res, a.name = b.name) ∨ s.ignSrc = true) ∧
      ((∀ a ∈ p.res, ∃ b ∈ p.ref, b.name = a.name) ∨ s.ignRef = true) :=
  pairOk_iff pf s p

/-- **C04 (sequence clause).**  Two sequences pass iff the lengths agree or missing steps are
    ignored, and every common step passes; `--force-sequence-comparison` never turns a length
    mismatch into a pass. -/
theorem C04_sequence_clause (pf : String → FloatLit) (s : Scenario) (n m : Nat) (steps : List PairData) :
    Spec.payloadOk pf s (.seqs n m steps) = true ↔
      (n = m ∨ s.ignSeq = true) ∧ ∀ p ∈ steps.take (min n m), Spec.pairOk pf s p = true := by
  simp [Spec.payloadOk]

/-- **C04 (the tolerance that applies to a field).**  The dictionary built by
    `_parse_field_tolerances` answers, for *every* list of accepted arguments and every name, with
    the value of the last `name:value` argument for that name; if there is none, with the value of
    the last argument without a name; if there is none either, with nothing (→ the defaults:
    relative = machine epsilon of the data type, absolute = 0). -/
theorem C04_tolerance_that_applies (pf : String → FloatLit) (dyn : Bool) (l : List String)
    (m : TolMap) (ex : Bool) (h : parseTols pf dyn (some l) = .ok m ex) (name : String) :
    m.get name =
      match Spec.lastValue pf dyn (Spec.isNamedFor name) l with
      | some v => some v
      | none => Spec.lastValue pf dyn Spec.isUnnamed l := by
  rw [parseTols_get pf dyn (some l) m ex h name]
  rfl

/-- … and without the option every field gets the defaults -/
theorem C04_tolerance_default (pf : String → FloatLit) (dyn : Bool) (m : TolMap) (ex : Bool)
    (h : parseTols pf dyn none = .ok m ex) (name : String) : m.get name = none := by
  rw [parseTols_get pf dyn none m ex h name]
  rfl

end Fc
