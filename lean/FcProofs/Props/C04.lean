/-
  Property C04 — CLI file-mode exit code equals the documented comparison semantics.
-/
import FcModel.Spec.C04
namespace Fc
open Fc.Cli

/-- the exit-code mapping read from the source: success is 0, failure is not -/
theorem C04_exit_code_table : boolToExitCode true = 0 ∧ boolToExitCode false ≠ 0 := by decide

end Fc
