/-
  Property C04 — CLI file-mode exit code equals the documented comparison semantics.
  Only property theorems live here; helper lemmas are in FcProofs/Lemmas/Cli.lean.

  Model:  `Fc.C04.fileMode`      (FcModel/Cli.lean — `_parse_field_tolerances`, `FieldToleranceMap`,
                                  `find_matches`, `_filter_matches`, `_select_predicate`, `_parse_status`,
                                  `TestSuite.__bool__`, `_compare_field_data`, `_compare_field_sequences`,
                                  `FileComparison.__call__`, `_run`, `_bool_to_exit_code`)
  Spec:   `Fc.C04.Spec.exitZero` (FcModel/Spec/C04.lean — declarative)
  The numeric verdict of one field is the cluster-A model `Fc.defaultCheck` (C01 / C09).
-/
import FcProofs.Lemmas.Cli
import FcProofs.Props.C01
namespace Fc
open Fc.C04

/-- **C04 (exit 0 iff the documented semantics hold).**  For every scenario — all option token
    lists, all field sets on either side, all values, all read outcomes, single data sets and
    sequences of any length — the modelled `fieldcompare file` exits with 0 exactly when the
    declarative spec holds: tolerance arguments accepted, both files readable, same kind of data,
    equal domains, every selected common field passes with the tolerance that applies to it,
    one-sided fields only where ignored, and the sequence clause.  (`C04_spec_meaning`,
    `C04_tolerance_that_applies` and `C04_field_formula` spell the right-hand side out.) -/
theorem C04_exit_zero_iff (pf : String → FloatLit) (s : Scenario) (hn : s.NamesNodup) :
    (fileMode pf s).1 = .exit 0 ↔ Spec.exitZero pf s = true := by
  unfold fileMode Spec.exitZero
  cases ho : mkOpts pf s with
  | none =>
    have := (mkOpts_none pf s).mp ho
    simp only [this, Bool.false_and]
    simp
  | some o =>
    have hval : (Spec.tokensValid pf false s.rtolToks && Spec.tokensValid pf true s.atolToks) = true := by
      cases hv : (Spec.tokensValid pf false s.rtolToks && Spec.tokensValid pf true s.atolToks) with
      | true => rfl
      | false => have := (mkOpts_none pf s).mpr hv; rw [ho] at this; cases this
    have hO := mkOpts_some pf s o ho
    -- the body of the try: passes iff reads ok and the payload passes
    have hrun : (runComparison o s).passes =
        (s.readRes == .ok && s.readRef == .ok && Spec.payloadOk pf s s.payload) := by
      have hio : (ReadOutcome.ioerror == ReadOutcome.ok) = false := by decide
      have hexc : (ReadOutcome.exception == ReadOutcome.ok) = false := by decide
      unfold runComparison
      cases hr : s.readRes with
      | ioerror => simp [CmpRes.passes, Suite.bool, hio, hexc, suiteIsTrue_table]
      | exception => simp [CmpRes.passes, hio, hexc]
      | ok =>
        cases hf : s.readRef with
        | ioerror => simp [CmpRes.passes, Suite.bool, hio, hexc, suiteIsTrue_table]
        | exception => simp [CmpRes.passes, hio, hexc]
        | ok =>
          simp only [beq_self_eq_true, Bool.true_and]
          cases hp : s.payload with
          | mixed => simp [CmpRes.passes, Spec.payloadOk]
          | single p =>
            have hnp := hn p (by simp [Scenario.pairs, hp])
            simp only [Spec.payloadOk]
            exact compareFieldData_passes hO p hnp.1 hnp.2
          | seqs n m steps =>
            simp only [Spec.payloadOk, compareSequences]
            have hsteps : ∀ p ∈ steps.take (min n m), (compareFieldData o p).passes = Spec.pairOk pf s p := by
              intro p hpm
              have hnp := hn p (by simp only [Scenario.pairs, hp]; exact List.mem_of_mem_take hpm)
              exact compareFieldData_passes hO p hnp.1 hnp.2
            by_cases hlen : n = m
            · subst hlen
              simp only [ne_eq, not_true_eq_false, false_and, if_false, beq_self_eq_true, Bool.true_or,
                Bool.true_and]
              have := (seqLoop_passes o (Spec.pairOk pf s) _ ⟨[], none⟩ (testsOk_nil _) hsteps).1
              rw [this]
              simp [Suite.bool]
            · have hbeq : (n == m) = false := by simp [hlen]
              rw [hO.ignSeq, hO.forceSeq]
              cases hig : s.ignSeq with
              | true =>
                simp only [ne_eq, hlen, not_false_eq_true, Bool.not_true, Bool.false_eq_true, and_false,
                  and_self, if_false, hbeq, Bool.or_true, Bool.true_and, false_and]
                have := (seqLoop_passes o (Spec.pairOk pf s) _ ⟨[], none⟩ (testsOk_nil _) hsteps).1
                rw [this]
                simp [Suite.bool]
              | false =>
                simp only [hbeq, Bool.or_false, Bool.false_and]
                cases hfo : s.forceSeq with
                | false => simp [hlen, CmpRes.passes, Suite.bool]; decide
                | true =>
                  simp only [ne_eq, hlen, not_false_eq_true, Bool.not_false, Bool.not_true,
                    Bool.false_eq_true, and_false, and_true, if_false, if_true, true_and]
                  have := (seqLoop_passes o (Spec.pairOk pf s) _ ⟨[], some .failed⟩ (testsOk_nil _) hsteps).1
                  rw [this]
                  have : Suite.bool ⟨[], some .failed⟩ = false := by simp [Suite.bool]; decide
                  simp [this]
    simp only
    rw [hval, Bool.true_and, ← hrun]
    cases hc : runComparison o s with
    | exc =>
      simp only [CmpRes.passes]
      have : boolToExitCode false ≠ 0 := by decide
      simp [this]
    | suite su =>
      simp only [CmpRes.passes, ExitOutcome.exit.injEq]
      exact boolToExitCode_zero su.bool

/-- **C04 (what the spec says, in words of the property).**  One pair of data sets passes iff the
    domains are equal, every field present on both sides and selected by the patterns passes the
    comparison with its own tolerances, and fields present on one side only occur only under the
    corresponding ignore flag. -/
theorem C04_spec_meaning (pf : String → FloatLit) (s : Scenario) (p : PairData) :
    Spec.pairOk pf s p = true ↔
      Spec.domainsEqual pf s p.dom = true ∧
      (∀ a ∈ p.res, ∀ b ∈ p.ref, b.name = a.name → Spec.selected s a.name = true → Spec.fieldOk pf s a b = true) ∧
      ((∀ b ∈ p.ref, ∃ a ∈ p.res, a.name = b.name) ∨ s.ignSrc = true) ∧
      ((∀ a ∈ p.res, ∃ b ∈ p.ref, b.name = a.name) ∨ s.ignRef = true) :=
  pairOk_iff pf s p

/-- **C04 (sequence clause).**  Two sequences pass iff the lengths agree or missing steps are
    ignored, and every common step passes; `--force-sequence-comparison` never turns a length
    mismatch into a pass. -/
theorem C04_sequence_clause (pf : String → FloatLit) (s : Scenario) (n m : Nat) (steps : List PairData) :
    Spec.payloadOk pf s (.seqs n m steps) = true ↔
      (n = m ∨ s.ignSeq = true) ∧ ∀ p ∈ steps.take (min n m), Spec.pairOk pf s p = true := by
  simp [Spec.payloadOk]

/-- **C04 (the tolerance that applies to a field).**  The dictionary built by
    `_parse_field_tolerances` answers, for *every* list of accepted arguments and every name, with
    the value of the last `name:value` argument for that name; if there is none, with the value of
    the last argument without a name; if there is none either, with nothing (→ the defaults:
    relative = machine epsilon of the data type, absolute = 0). -/
theorem C04_tolerance_that_applies (pf : String → FloatLit) (dyn : Bool) (l : List String)
    (m : TolMap) (ex : Bool) (h : parseTols pf dyn (some l) = .ok m ex) (name : String) :
    m.get name =
      match Spec.lastValue pf dyn (Spec.isNamedFor name) l with
      | some v => some v
      | none => Spec.lastValue pf dyn Spec.isUnnamed l := by
  rw [parseTols_get pf dyn (some l) m ex h name]
  rfl

/-- … and without the option every field gets the defaults -/
theorem C04_tolerance_default (pf : String → FloatLit) (dyn : Bool) (m : TolMap) (ex : Bool)
    (h : parseTols pf dyn none = .ok m ex) (name : String) : m.get name = none := by
  rw [parseTols_get pf dyn none m ex h name]
  rfl

/-- **C04 (last wins).**  "The last such argument" made explicit: `lastValue p l = some v` iff `l`
    splits as `l₁ ++ s :: l₂` where `s` is an argument of the kind `p` carrying the value `v` and
    no argument of that kind carrying a value follows. -/
theorem C04_last_wins (pf : String → FloatLit) (dyn : Bool) (p : String → Bool) (l : List String) (v : TolVal) :
    Spec.lastValue pf dyn p l = some v ↔
      ∃ l₁ s l₂, l = l₁ ++ s :: l₂ ∧ p s = true ∧ Spec.valueOf pf dyn s = some v ∧
        ∀ t ∈ l₂, ¬ (p t = true ∧ (Spec.valueOf pf dyn t).isSome = true) :=
  Spec.lastValue_some_iff pf dyn p l v

/-- **C04 (tolerance isolation, argument level).**  The tolerance that applies to `name` depends
    only on the arguments `name:…` and the arguments without a name: all other arguments can be
    deleted without changing it. -/
theorem C04_tolerance_depends_on_own_arguments (pf : String → FloatLit) (dyn : Bool) (l : List String) (name : String) :
    Spec.tolFor pf dyn (some l) name =
      Spec.tolFor pf dyn (some (l.filter fun s => Spec.isNamedFor name s || Spec.isUnnamed s)) name := by
  simp only [Spec.tolFor]
  rw [Spec.lastValue_filter pf dyn (Spec.isNamedFor name) _ l (by intro s h; simp [h]),
      Spec.lastValue_filter pf dyn Spec.isUnnamed _ l (by intro s h; simp [h])]

/-- inserting an argument for another field anywhere in the list changes nothing for `name` -/
theorem C04_tolerance_insert_other (pf : String → FloatLit) (dyn : Bool) (l₁ l₂ : List String) (t g v name : String)
    (ht : classifyTok t = .named g v) (hg : g ≠ name) :
    Spec.tolFor pf dyn (some (l₁ ++ t :: l₂)) name = Spec.tolFor pf dyn (some (l₁ ++ l₂)) name := by
  have h1 : Spec.isNamedFor name t = false := by simp [Spec.isNamedFor, ht, hg]
  have h2 : Spec.isUnnamed t = false := by simp [Spec.isUnnamed, ht]
  rw [C04_tolerance_depends_on_own_arguments pf dyn (l₁ ++ t :: l₂),
      C04_tolerance_depends_on_own_arguments pf dyn (l₁ ++ l₂)]
  simp [List.filter_append, List.filter_cons, h1, h2]

/-- **C04 (tolerance isolation, verdict level).**  A per-field tolerance `g:v` given for another
    field `g` — in the relative and/or the absolute option, at any position — never changes the
    verdict of the field `a`/`b`. -/
theorem C04_tolerance_isolation (pf : String → FloatLit) (s : Scenario) (r₁ r₂ a₁ a₂ : List String)
    (tr ta g v g' v' : String) (a b : Field)
    (htr : classifyTok tr = .named g v) (hg : g ≠ removeAnnotation a.name)
    (hta : classifyTok ta = .named g' v') (hg' : g' ≠ removeAnnotation a.name) :
    Spec.fieldOk pf { s with rtolToks := some (r₁ ++ tr :: r₂), atolToks := some (a₁ ++ ta :: a₂) } a b =
    Spec.fieldOk pf { s with rtolToks := some (r₁ ++ r₂), atolToks := some (a₁ ++ a₂) } a b := by
  simp only [Spec.fieldOk]
  rw [C04_tolerance_insert_other pf false r₁ r₂ tr g v _ htr hg,
      C04_tolerance_insert_other pf true a₁ a₂ ta g' v' _ hta hg']

/-- **C04 (no tolerance relaxes integer / string fields).**  For fields without floating-point
    data the verdict is the same for all tolerances and equals exact equality of all entries
    (with the shape rule of C01). -/
theorem C04_int_str_exact (rel abs : Option TolVal) (a b : Field)
    (ha : a.values.dtype.hasFloats = false) (hb : b.values.dtype.hasFloats = false) :
    fieldVerdict rel abs a b = verdictStatus (.ok (Spec.exactSpec a.values b.values)) := by
  unfold fieldVerdict defaultCheck exactCheck Spec.exactSpec
  simp only [ha, hb, Bool.false_eq_true, or_self, if_false]
  obtain ⟨hiff, _⟩ := reshapePair_spec a.values.shape b.values.shape
  cases hp : reshapePair a.values.shape b.values.shape with
  | mk s1 s2 =>
    rw [hp] at hiff
    simp only at hiff ⊢
    by_cases hc : s1 = s2
    · have := hiff.mp hc
      simp [hc, this]
    · have : Spec.shapesCompatible a.values.shape b.values.shape = false := by
        cases hh : Spec.shapesCompatible a.values.shape b.values.shape with
        | false => rfl
        | true => exact absurd (hiff.mpr hh) hc
      simp [hc, this]

theorem C04_int_str_tolerance_irrelevant (rel abs rel' abs' : Option TolVal) (a b : Field)
    (ha : a.values.dtype.hasFloats = false) (hb : b.values.dtype.hasFloats = false) :
    fieldVerdict rel abs a b = fieldVerdict rel' abs' a b := by
  rw [C04_int_str_exact rel abs a b ha hb, C04_int_str_exact rel' abs' a b ha hb]

/-- **C04 (floating-point fields: the documented formula).**  For two float64 fields the verdict
    demanded by the spec is the C01 spec `fuzzySpec` — the conjunction of
    `|a-b| <= max(rel*max(|a|,|b|), abs)` over all entries — with `rel` = the relative tolerance
    that applies to the field or machine epsilon, `abs` = the absolute one, `base*max|field|`
    for `value*max`, or 0. -/
theorem C04_field_formula (rel abs : Option TolVal) (a b : Field)
    (ha : a.values.dtype = .flt f64) (hb : b.values.dtype = .flt f64) :
    fieldVerdict rel abs a b = .passed ↔
      Spec.fuzzySpec (relTolOf rel) (absTolOf abs) a.values b.values = some true := by
  have hyp : C01Hyp (relTolOf rel) (absTolOf abs) a.values b.values := by
    refine ⟨ha, hb, ?_, ?_⟩
    · intro sh us h; cases rel with
      | none => simp [relTolOf] at h
      | some t => cases t <;> simp [relTolOf] at h
    · intro sh us h; cases abs with
      | none => simp [absTolOf] at h
      | some t => cases t <;> simp [absTolOf] at h
  unfold fieldVerdict defaultCheck
  simp only [ha, DType.hasFloats, true_or, if_true]
  rw [C01_model_eq_spec _ _ _ _ hyp]
  cases Spec.fuzzySpec (relTolOf rel) (absTolOf abs) a.values b.values with
  | none => simp [verdictOfSpec, verdictStatus]
  | some v => cases v <;> simp [verdictOfSpec, verdictStatus]

/-- **C04 (an ignored missing field never hides a failing one).**  If some field present on both
    sides and selected by the patterns does not pass, the exit code is non-zero whatever the
    ignore flags, the other fields and the other options are. -/
theorem C04_failure_not_hidden (pf : String → FloatLit) (s : Scenario) (hn : s.NamesNodup) (p : PairData)
    (hp : s.payload = .single p) (a b : Field) (ha : a ∈ p.res) (hb : b ∈ p.ref) (he : b.name = a.name)
    (hsel : Spec.selected s a.name = true) (hfail : Spec.fieldOk pf s a b = false) :
    (fileMode pf s).1 ≠ .exit 0 := by
  intro h
  have := (C04_exit_zero_iff pf s hn).mp h
  unfold Spec.exitZero at this
  simp only [Bool.and_eq_true, hp, Spec.payloadOk] at this
  have hf := ((pairOk_iff pf s p).mp this.2).2.1 a ha b hb he hsel
  rw [hfail] at hf
  cases hf

/-- skipped test cases do not absorb a failure: a suite without explicit status that contains
    a failed or error test is false, whatever else it contains -/
theorem C04_skipped_does_not_absorb (ts : List Test) (t : Test) (ht : t ∈ ts)
    (hf : t.status = .failed ∨ t.status = .error) : Suite.bool ⟨ts, none⟩ = false := by
  cases hb : Suite.bool ⟨ts, none⟩ with
  | false => rfl
  | true =>
    simp only [Suite.bool, List.all_eq_true] at hb
    have := hb t ht
    rcases hf with h | h <;> rw [h] at this <;> revert this <;> decide

/-- **C04 (any failure ⇒ non-zero).**  A rejected tolerance argument, a read error or reader
    exception on either file, data of different kinds (sequence against single data set, table
    against mesh): the outcome is never `exit 0` — no hypothesis on the data. -/
theorem C04_any_failure_nonzero (pf : String → FloatLit) (s : Scenario)
    (h : Spec.tokensValid pf false s.rtolToks = false ∨ Spec.tokensValid pf true s.atolToks = false ∨
         s.readRes ≠ .ok ∨ s.readRef ≠ .ok ∨ s.payload = .mixed ∨
         (∃ p, s.payload = .single p ∧ p.dom = .mixedKinds)) :
    (fileMode pf s).1 ≠ .exit 0 := by
  have hne : boolToExitCode false ≠ 0 := by decide
  have herr : Suite.bool ⟨[], some .error⟩ = false := by simp [Suite.bool]; decide
  unfold fileMode
  cases ho : mkOpts pf s with
  | none => simp
  | some o =>
    have hval := mkOpts_none pf s
    rw [ho] at hval
    have hv : (Spec.tokensValid pf false s.rtolToks && Spec.tokensValid pf true s.atolToks) = true := by
      cases hh : (Spec.tokensValid pf false s.rtolToks && Spec.tokensValid pf true s.atolToks) with
      | true => rfl
      | false => exact absurd (hval.mpr hh) (by simp)
    simp only [Bool.and_eq_true] at hv
    rcases h with h | h | h | h | h | ⟨p, hp, hd⟩
    · rw [hv.1] at h; cases h
    · rw [hv.2] at h; cases h
    · simp only
      unfold runComparison
      cases hr : s.readRes with
      | ok => exact absurd hr h
      | ioerror => simp [herr, hne]
      | exception => simp [hne]
    · simp only
      unfold runComparison
      cases hr : s.readRes with
      | ioerror => simp [herr, hne]
      | exception => simp [hne]
      | ok =>
        cases hf : s.readRef with
        | ok => exact absurd hf h
        | ioerror => simp [herr, hne]
        | exception => simp [hne]
    · simp only
      unfold runComparison
      cases hr : s.readRes with
      | ioerror => simp [herr, hne]
      | exception => simp [hne]
      | ok =>
        cases hf : s.readRef with
        | ioerror => simp [herr, hne]
        | exception => simp [hne]
        | ok => simp [h, hne]
    · simp only
      unfold runComparison
      cases hr : s.readRes with
      | ioerror => simp [herr, hne]
      | exception => simp [hne]
      | ok =>
        cases hf : s.readRef with
        | ioerror => simp [herr, hne]
        | exception => simp [hne]
        | ok => simp [hp, compareFieldData, hd, hne]

/-- **C04 (predicate error ⇒ non-zero).**  If the predicate raises on some selected common field
    (status `error`), the exit code is non-zero. -/
theorem C04_predicate_error_nonzero (pf : String → FloatLit) (s : Scenario) (hn : s.NamesNodup) (p : PairData)
    (hp : s.payload = .single p) (a b : Field) (ha : a ∈ p.res) (hb : b ∈ p.ref) (he : b.name = a.name)
    (hsel : Spec.selected s a.name = true)
    (herr : fieldVerdict (Spec.tolFor pf false s.rtolToks (removeAnnotation a.name))
              (Spec.tolFor pf true s.atolToks (removeAnnotation a.name)) a b = .error) :
    (fileMode pf s).1 ≠ .exit 0 := by
  apply C04_failure_not_hidden pf s hn p hp a b ha hb he hsel
  simp [Spec.fieldOk, herr]

end Fc
