/-
  FcProofs.Props.C20_TestSuite — C20, phase 6 round 8: the remaining `TestSuite` methods of `_cli/_test_suite.py` tied to the source
  text by TRANSLATION (`Fc.Gen.c20s…Src`, harness/fcv/tables/pylite_c20_suite.py).  `__bool__` / `status` are `C04_source_test_suite_*`
  / `C15_source_test_suite_*` (phase 2).
-/
import FcGen.Tables
import FcProofs.Lemmas.PyLiteOrch
set_option linter.unusedSimpArgs false
set_option linter.unusedVariables false
namespace Fc
open PyLite

/-- a `TestSuite` object: the six attributes its constructor stores -/
def C20.suiteObjV (tests name status shortlog stdout cpu : Val) : Val :=
  .record [("_tests", tests), ("_name", name), ("_status", status), ("_shortlog", shortlog), ("_stdout", stdout),
           ("_cpu_time", cpu)]

/-- `new if new is not None else old` -/
def C20.pick (new old : Val) : Val := if isNone new then old else new

/-- `TestSuite.__init__` stores its six arguments unchanged (the translated constructor returns the dict of what it stores). -/
theorem C20_source_testsuite_init (X : Ext) (tests name status shortlog stdout cpu : Val) :
    Gen.c20sInitSrc.run X [tests, name, status, shortlog, stdout, cpu] =
      .ok (.dict [(.str "_cpu_time", cpu), (.str "_name", name), (.str "_shortlog", shortlog), (.str "_status", status),
                  (.str "_stdout", stdout), (.str "_tests", tests)]) := by
  simp only [Gen.c20sInitSrc]
  pylite_eval [dictSet]

/-- `name` is "n/a" exactly when no name was given, otherwise the stored name. -/
theorem C20_source_testsuite_name (X : Ext) (tests name status shortlog stdout cpu : Val) :
    Gen.c20sNameSrc.run X [C20.suiteObjV tests name status shortlog stdout cpu] =
      .ok (if isNone name then .str "n/a" else name) := by
  simp only [Gen.c20sNameSrc, C20.suiteObjV]
  cases name <;> pylite_eval

/-- `num_tests` = number of tests; `shortlog`, `stdout`, `cpu_time` return what was stored; `__iter__` iterates the stored tests
    (`iter` = identity on the presented list). -/
theorem C20_source_testsuite_accessors (X : Ext) (hiter : ∀ v, X "iter" [v] = .ok v)
    (tests : List Val) (name status shortlog stdout cpu : Val) :
    Gen.c20sNumTestsSrc.run X [C20.suiteObjV (.list tests) name status shortlog stdout cpu] = .ok (.int tests.length) ∧
    Gen.c20sShortlogSrc.run X [C20.suiteObjV (.list tests) name status shortlog stdout cpu] = .ok shortlog ∧
    Gen.c20sStdoutSrc.run X [C20.suiteObjV (.list tests) name status shortlog stdout cpu] = .ok stdout ∧
    Gen.c20sCpuTimeSrc.run X [C20.suiteObjV (.list tests) name status shortlog stdout cpu] = .ok cpu ∧
    Gen.c20sIterSrc.run X [C20.suiteObjV (.list tests) name status shortlog stdout cpu] = .ok (.list tests) := by
  refine ⟨?_, ?_, ?_, ?_, ?_⟩ <;>
    simp only [Gen.c20sNumTestsSrc, Gen.c20sShortlogSrc, Gen.c20sStdoutSrc, Gen.c20sCpuTimeSrc, Gen.c20sIterSrc, C20.suiteObjV] <;>
    pylite_eval [hiter]

/-- **`with_overridden(cpu_time, name, status, shortlog)`** builds a NEW suite with the SAME tests and stdout, and each of the four
    attributes replaced exactly when the argument is not `None` (an explicit status overrides the stored one; `None` keeps it). -/
theorem C20_source_testsuite_with_overridden (X : Ext)
    (hctor : ∀ c n sl st so ts, X "TestSuite(cpu_time=,name=,shortlog=,status=,stdout=,tests=)" [c, n, sl, st, so, ts] =
      .ok (C20.suiteObjV ts n st sl so c))
    (tests name status shortlog stdout cpu ncpu nname nstatus nshortlog : Val) :
    Gen.c20sWithOverriddenSrc.run X [C20.suiteObjV tests name status shortlog stdout cpu, ncpu, nname, nstatus, nshortlog] =
      .ok (C20.suiteObjV tests (C20.pick nname name) (C20.pick nstatus status) (C20.pick nshortlog shortlog) stdout
            (C20.pick ncpu cpu)) := by
  simp only [Gen.c20sWithOverriddenSrc, C20.suiteObjV]
  cases h1 : isNone ncpu <;> cases h2 : isNone nname <;> cases h3 : isNone nstatus <;> cases h4 : isNone nshortlog <;>
    simp [Fn.run, Fn.flow, initEnv, execBlock, exec, eval, evalList, withVal, Res.bind, Res.map, getAttr, cmpop, truthy_bool,
      List.lookup, h1, h2, h3, h4, hctor, C20.pick, C20.suiteObjV, show isNone Val.none = true from rfl]

end Fc
