/-
  Property C19, inputs of DIFFERENT space dimension.

  `C19_rerun_full` (Props/C19_Resid.lean) needs C02's hypotheses for the two views that enter the reordering
  rungs of the first call; when the inputs differ in dimension (and matching is enabled) these are the
  zero-padded copies `extend_space_dimension_to(max dim, ·)`.  PHASE 3 left the invariance of the hypotheses
  under zero padding open.  Here it is proved, so `C19_rerun` holds from hypotheses on the ORIGINAL inputs for
  EVERY dimension pair and every flag setting: `C19_rerun_dims`, `C19_rerun_dims_decidable`,
  `C19_rerun_dims_baseHyp`.

  Invariance (`Resid2.padMesh k m` = `k` zero columns appended to every point):
    * tolerances: `meshTolOf` does not change (`C19_extend_keeps_tolerances`) — the model recomputes them from the
      padded view, the code copies those of the original mesh: the same value;
    * `Sep`: the old coordinate columns keep their values, the new ones are constant; cell centres get zero
      columns bitwise (`fadd 0 0 = 0`, `0 / n = 0`), so the candidate centres are the padded ones;
    * `Distinguishable`, and the sorted index map itself (`C19_point_hyp_pad_invariant`).
  Residual hypothesis of the Prop-level theorem, by name: `Resid2.CandsDim c d` — every candidate centre has `d`
  columns (true for the candidates of the decidable hypotheses, which are actual cell centres:
  `Resid2.sortHypB_candsDim`).

  Model remark of PHASE 3 (`Glue.guardedSorter` takes the tolerances from the view that ENTERS `sort_points`,
  the code from the STORED mesh): `C19_guarded_tolerances_agree` proves the two equal unless an orphan point
  carries a coordinate that is larger in magnitude than every coordinate of the connected points; the witness
  `tolW` (Witness/C19_Dims.lean) shows that in that case the tolerances — and the point sort — really differ.
-/
import FcProofs.Props.C19_Resid
import FcProofs.Lemmas.Resid2Extend
namespace Fc
open Fc.C19

/-- **C19 (zero padding keeps the mesh tolerances).**  If `extend_space_dimension_to(sd, f)` returns `f'`, the
    tolerances computed from `f'` (what the model does) are those of `f` (what the code copies). -/
theorem C19_extend_keeps_tolerances {f f' : MeshFields} {sd : Nat} (hr : extendSpaceDim sd f = some f') :
    C02.meshTolOf f'.mesh = C02.meshTolOf f.mesh := by
  by_cases hne : sd = f.mesh.dim
  · have : f' = f := by
      unfold extendSpaceDim at hr
      simp only [hne, if_true, Option.some.injEq] at hr
      exact hr.symm
    rw [this]
  · rw [(Resid2.extend_mesh_eq hr hne).2, Resid2.meshTolOf_padMesh]

/-- **C19 (`extend_space_dimension_to` keeps a data set well-formed)**: point rows have the new dimension, the
    connectivity is untouched, every resized field array keeps its leading axis and its size. -/
theorem C19_extend_wellformed {f f' : MeshFields} {sd : Nat} (hwf : WFP f) (hr : extendSpaceDim sd f = some f') :
    WFP f' :=
  Resid2.extend_WFP hwf hr

/-- **C19 (the hypotheses of the point sort are invariant under zero padding).**  `PointHypP` (Sep of coordinates
    and candidate centres, coincident points have finite adjacent centres) carries over to the mesh with `k` zero
    columns appended, with the SAME tolerances, margins and magnitude bound and the padded candidate centres; so
    does distinguishability; and the point sort returns the SAME index map — for any two `argsort` routines. -/
theorem C19_point_hyp_pad_invariant {as1 as2 : List Int → List Nat} (h1 : C02.IsArgsort as1)
    (h2 : C02.IsArgsort as2) {t : C02.MeshTol} {A B M : Nat} {m : Mesh} {c : List (List Int)} (k : Nat)
    (hy : C02.PointHypP t A B M m c)
    (hin : ∀ row ∈ C02.allRows m, ∀ q ∈ row, q < m.points.length) (hc : Resid2.CandsDim c m.dim)
    (hn : m.points ≠ [])
    (hdist : ∀ a ∈ C02.pitems m, ∀ b ∈ C02.pitems m, C02.kvec (C02.KC A m) m.dim 0 a = C02.kvec (C02.KC A m) m.dim 0 b →
      C02.kvec (C02.KM A c as1 t m) m.dim 0 a = C02.kvec (C02.KM A c as1 t m) m.dim 0 b → a = b) :
    C02.meshTolOf (Resid2.padMesh k m) = C02.meshTolOf m ∧
    C02.PointHypP t A B M (Resid2.padMesh k m) (c.map (Resid2.padRow k)) ∧
    (∀ a' ∈ C02.pitems (Resid2.padMesh k m), ∀ b' ∈ C02.pitems (Resid2.padMesh k m),
      C02.kvec (C02.KC A (Resid2.padMesh k m)) (Resid2.padMesh k m).dim 0 a' =
        C02.kvec (C02.KC A (Resid2.padMesh k m)) (Resid2.padMesh k m).dim 0 b' →
      C02.kvec (C02.KM A (c.map (Resid2.padRow k)) as2 t (Resid2.padMesh k m)) (Resid2.padMesh k m).dim 0 a' =
        C02.kvec (C02.KM A (c.map (Resid2.padRow k)) as2 t (Resid2.padMesh k m)) (Resid2.padMesh k m).dim 0 b' →
      a' = b') ∧
    ∃ I, C02.sortPointsIdx as1 t m = some I ∧ C02.sortPointsIdx as2 t (Resid2.padMesh k m) = some I :=
  ⟨Resid2.meshTolOf_padMesh k m, Resid2.padMesh_pointHypP k hy hin hc,
    Resid2.padMesh_hdist h1 h2 hy hin hc hdist, Resid2.padMesh_sortIdx h1 h2 hy hin hc hn hdist⟩

/-- **C19 (C02's hypotheses on one data set are invariant under `extend_space_dimension_to`).**  `SortHyp` of `f`
    (WellFormed ∧ Sep ∧ Distinguishable ∧ hash separates the cells, tolerances of the view that enters
    `sort_points`) with candidate centres of `f.mesh.dim` columns ⇒ `SortHyp` of every `f'` the extension
    returns, with the same margins and the padded candidates. -/
theorem C19_sort_hyp_extend_invariant {h : List Nat → Int} {strip : Bool} {f f' : MeshFields} {A B M : Nat}
    {c : List (List Int)} {sd : Nat} (sh : Resid.SortHyp h strip f A B M c) (hc : Resid2.CandsDim c f.mesh.dim)
    (hr : extendSpaceDim sd f = some f') :
    Resid.SortHyp h strip f' A B M (c.map (Resid2.padRow (sd - f.mesh.dim))) ∧
      Resid2.CandsDim (c.map (Resid2.padRow (sd - f.mesh.dim))) f'.mesh.dim :=
  Resid2.sortHyp_extend sh hc hr

/-- **C19_rerun for EVERY dimension pair — hypotheses on the ORIGINAL inputs only.**
    `SortHyp` of `S` and of `R` (candidate centres with `dim` columns): every one of `k` consecutive calls of the
    comparator object constructed on `(S, R)` returns the first call's suite — whether or not the dimensions
    agree, for every flag setting, every `argsort`, hash, orphan flag and comparison `cmp`.  (If the dimension
    retry happens, the zero-padded copies inherit the hypotheses: `C19_sort_hyp_extend_invariant`; a padded copy
    that does not exist — the extension raised — is a fixed point trivially.) -/
theorem C19_rerun_dims {as : List Int → List Nat} (has : C02.IsArgsort as) (h : List Nat → Int) (strip : Bool)
    (cmp : MeshFields → MeshFields → Bool × Bool) (fl : CmpFlags) (S R : MeshFields)
    {A1 B1 M1 A2 B2 M2 : Nat} {c1 c2 : List (List Int)}
    (hS : Resid.SortHyp h strip S A1 B1 M1 c1) (hR : Resid.SortHyp h strip R A2 B2 M2 c2)
    (hc1 : Resid2.CandsDim c1 S.mesh.dim) (hc2 : Resid2.CandsDim c2 R.mesh.dim) (k : Nat) :
    ∀ s ∈ rerun (Glue.cmpOps (Glue.paramsOf as h strip) cmp) fl k ⟨Glue.viewOf S, Glue.viewOf R⟩,
      s = (runComparator (Glue.cmpOps (Glue.paramsOf as h strip) cmp) fl ⟨Glue.viewOf S, Glue.viewOf R⟩).suite := by
  obtain ⟨g1, g2⟩ := Resid2.goodView_preReorder (as := as) cmp fl hS hR hc1 hc2
  exact C19_rerun_full has h strip cmp fl _ g1 g2 k

/-- **C19_rerun for every dimension pair, DECIDABLE hypothesis** `Resid.sortHypB` on the two original inputs
    (its candidate centres are actual cell centres, so `CandsDim` is a theorem). -/
theorem C19_rerun_dims_decidable {as : List Int → List Nat} (has : C02.IsArgsort as) (h : List Nat → Int)
    (strip : Bool) (cmp : MeshFields → MeshFields → Bool × Bool) (fl : CmpFlags) (S R : MeshFields)
    (hS : Resid.sortHypB h strip S = true) (hR : Resid.sortHypB h strip R = true) (k : Nat) :
    ∀ s ∈ rerun (Glue.cmpOps (Glue.paramsOf as h strip) cmp) fl k ⟨Glue.viewOf S, Glue.viewOf R⟩,
      s = (runComparator (Glue.cmpOps (Glue.paramsOf as h strip) cmp) fl ⟨Glue.viewOf S, Glue.viewOf R⟩).suite :=
  C19_rerun_dims has h strip cmp fl S R (Resid.sortHypB_sound hS) (Resid.sortHypB_sound hR)
    (Resid2.sortHypB_candsDim hS) (Resid2.sortHypB_candsDim hR) k

/-- **C19 (when the model's tolerances are the code's).**  `Glue.guardedSorter` sorts with the tolerances of the
    view that enters `sort_points`; the code's `PermutedMesh` inherits those of the stored mesh.  They are EQUAL
    unless some orphan point carries a coordinate larger in magnitude than every coordinate of the connected
    points (`htS`/`htR` of `C19_rerun_baseHyp` are then theorems). -/
theorem C19_guarded_tolerances_agree {f : MeshFields}
    (horph : ∀ p, p < f.mesh.points.length → f.mesh.connected p = false →
      ∀ x ∈ f.mesh.points.getD p [], x.natAbs ≤ C02.maxAbsCoord (C02.baseOf f).mesh.points) :
    C02.meshTolOf (C02.baseOf f).mesh = C02.meshTolOf f.mesh :=
  Resid2.meshTolOf_baseOf_eq horph

/-- in particular: no orphan points at all -/
theorem C19_guarded_tolerances_agree_no_orphans {f : MeshFields}
    (hall : ∀ p, p < f.mesh.points.length → f.mesh.connected p = true) :
    C02.meshTolOf (C02.baseOf f).mesh = C02.meshTolOf f.mesh :=
  Resid2.meshTolOf_baseOf_eq (fun p hp hc => by rw [hall p hp] at hc; cases hc)

/-- **C19_rerun for every dimension pair from C02's own decidable hypothesis** `Spec.baseHyp` (default flag:
    orphans are stripped), for data sets in which no orphan point carries the largest coordinate. -/
theorem C19_rerun_dims_baseHyp {as : List Int → List Nat} (has : C02.IsArgsort as) (h : List Nat → Int)
    (cmp : MeshFields → MeshFields → Bool × Bool) (fl : CmpFlags) (S R : MeshFields)
    (hS : C02.Spec.baseHyp h S = true) (hR : C02.Spec.baseHyp h R = true)
    (hoS : ∀ p, p < S.mesh.points.length → S.mesh.connected p = false →
      ∀ x ∈ S.mesh.points.getD p [], x.natAbs ≤ C02.maxAbsCoord (C02.baseOf S).mesh.points)
    (hoR : ∀ p, p < R.mesh.points.length → R.mesh.connected p = false →
      ∀ x ∈ R.mesh.points.getD p [], x.natAbs ≤ C02.maxAbsCoord (C02.baseOf R).mesh.points) (k : Nat) :
    ∀ s ∈ rerun (Glue.cmpOps (Glue.paramsOf as h true) cmp) fl k ⟨Glue.viewOf S, Glue.viewOf R⟩,
      s = (runComparator (Glue.cmpOps (Glue.paramsOf as h true) cmp) fl ⟨Glue.viewOf S, Glue.viewOf R⟩).suite := by
  have htS := Resid2.meshTolOf_baseOf_eq hoS
  have htR := Resid2.meshTolOf_baseOf_eq hoR
  have shS := Resid.sortHyp_of_baseHyp (C02_base_hyp_sound hS) htS
  have shR := Resid.sortHyp_of_baseHyp (C02_base_hyp_sound hR) htR
  have cand : ∀ {f : MeshFields} {A B M : Nat} {c : List (List Int)}, Resid.SortHyp h true f A B M c →
      ∀ A', Resid2.CandsDim (C02.Spec.pointData A' (C02.baseOf f).mesh).cands f.mesh.dim := by
    intro f A B M c sh A'
    obtain ⟨_, we, _, _⟩ := sh.entering_spec
    rw [Resid.entering_true] at we
    apply Resid2.candsDim_pointData (m := (C02.baseOf f).mesh) we.rows
    intro row hrow q hq
    unfold C02.allRows at hrow
    obtain ⟨b, hb', hrb⟩ := List.mem_flatMap.mp hrow
    exact we.inRange b hb' row hrb q hq
  exact C19_rerun_dims has h true cmp fl S R shS shR (cand shS _) (cand shR _) k

/-- a fresh comparator on the original data sets agrees with the reused one after any number of calls — every
    dimension pair -/
theorem C19_fresh_comparator_equals_reused_dims {as : List Int → List Nat} (has : C02.IsArgsort as)
    (h : List Nat → Int) (strip : Bool) (cmp : MeshFields → MeshFields → Bool × Bool) (fl : CmpFlags)
    (S R : MeshFields) (hS : Resid.sortHypB h strip S = true) (hR : Resid.sortHypB h strip R = true) (k : Nat) :
    (rerun (Glue.cmpOps (Glue.paramsOf as h strip) cmp) fl (k + 1) ⟨Glue.viewOf S, Glue.viewOf R⟩).getLast? =
      some (runComparator (Glue.cmpOps (Glue.paramsOf as h strip) cmp) fl ⟨Glue.viewOf S, Glue.viewOf R⟩).suite := by
  have hall := C19_rerun_dims_decidable has h strip cmp fl S R hS hR (k + 1)
  have hne : rerun (Glue.cmpOps (Glue.paramsOf as h strip) cmp) fl (k + 1) ⟨Glue.viewOf S, Glue.viewOf R⟩ ≠ [] := by
    simp [rerun]
  rw [List.getLast?_eq_some_getLast hne]
  exact congrArg some (hall _ (List.getLast_mem hne))

end Fc
