/-
  Property C18 — a truncated or damaged result file never compares as passed.
  Only property theorems live here; helper lemmas are in FcProofs/Lemmas/{SearchW,PrefixW,Base64W,BytesW}.

  Model:  FcModel/Truncation.lean (`Fc.W.fallback`, `noCompReadE`, `checkDeclared`, `runFileMode`, `matchStatuses`)

  C18 is a PARTIAL claim by nature: the first line of defence against a cut file is expat rejecting the
  truncated XML, which is an assumption (validated by enumerating the cut offsets in harness/corr/c18.py),
  not a theorem.  What is proved here is everything behind that line, for all inputs:
    * every reader failure and every mismatch ends in exit code 1, nothing leaves the entry point
      (C18_failure_nonzero, C18_never_raises, C18_exit_zero_iff),
    * a missing field array is a failing status (C18_missing_array),
    * the fallback parser for appended data succeeds only on content that contains the complete
      `<AppendedData … _ … </AppendedData>` frame; a prefix that ends before the end of the closing tag is
      rejected (C18_fallback_parser, C18_fallback_cut),
    * an array whose available bytes are a strict prefix of its encoding never passes the length assertion
      (C18_payload_short_base64, C18_payload_short_raw; uncompressed arrays).
    * the same for compressed arrays, with the codec as a parameter and the hypotheses "decompress ∘ compress = id"
      and "decompressing a strict prefix of a compressed block raises" (C18_payload_short_compressed), and for the
      whole matrix of binary array encodings at once (C18_array_never_equal),
    * every prefix of a serialized document that ends before the last byte of the root element is rejected by
      the `XmlLite` tag-balance scanner (C18_xml_prefix); that expat agrees with `XmlLite` on the enumerated
      cuts is observed by the harness, not proved.
-/
import FcProofs.Lemmas.SearchW
import FcProofs.Lemmas.PrefixW
import FcProofs.Lemmas.C18Comp
import FcProofs.Lemmas.C18Xml
namespace Fc
open Fc.W

/-- **C18 (nothing leaves the entry point).** For every reader outcome of either file (I/O error, any other
    exception class), every comparison outcome and every flag setting, `_run` returns an exit code (0 or 1):
    the exception classes the readers raise are all caught by `except IOError` / `except Exception`. -/
theorem C18_never_raises (ignSrc ignRef : Bool) (res ref : Read) (cmp : Cmp) :
    ∃ n, runFileMode ignSrc ignRef res ref cmp = .ok n ∧ n ≤ 1 := by
  unfold runFileMode
  cases hfc : fileComparison ignSrc ignRef res ref cmp with
  | error e => exact ⟨1, rfl, Nat.le_refl _⟩
  | ok p =>
    obtain ⟨st, ts⟩ := p
    refine ⟨exitOfBool (suiteBool st ts), rfl, ?_⟩
    unfold exitOfBool; split <;> omega

/-- **C18 (failure ⇒ non-zero).** If reading the result or the reference raises (any class), or the domains
    compare unequal, or the comparison raises, or any field is failed / in error / missing on either side, then
    the exit code is 1 (default flags). -/
theorem C18_failure_nonzero (res ref : Read) (cmp : Cmp)
    (h : res ≠ .ok ∨ ref ≠ .ok ∨ cmp = .domainMismatch ∨ cmp = .raised ∨
         ∃ st, cmp = .fields st ∧ ∃ s ∈ st, failingStatus s = true) :
    runFileMode false false res ref cmp = .ok 1 := by
  have hfail : ∀ st : List FStatus, (∃ s ∈ st, failingStatus s = true) →
      suiteBool none (st.map (parseStatus false false)) = false := by
    intro st ⟨s, hs, hf⟩
    unfold suiteBool
    simp only
    rw [List.all_eq_false]
    refine ⟨parseStatus false false s, List.mem_map.mpr ⟨s, hs, rfl⟩, ?_⟩
    cases s <;> simp_all [failingStatus, parseStatus, tOk]
  unfold runFileMode fileComparison
  cases res with
  | raised e => cases e <;> rfl
  | ok =>
    cases ref with
    | raised e => cases e <;> rfl
    | ok =>
      cases cmp with
      | domainMismatch => rfl
      | raised => rfl
      | fields st =>
        rcases h with h | h | h | h | ⟨st', he, hs⟩
        · exact absurd rfl h
        · exact absurd rfl h
        · cases h
        · cases h
        · cases he
          simp only [hfail st hs, exitOfBool]
          rfl

/-- **C18 (exit 0 characterised).** Exit code 0 is reached only if both files were read, the domains compared
    equal, and every reported field passed or was filtered out. -/
theorem C18_exit_zero_iff (res ref : Read) (cmp : Cmp) :
    runFileMode false false res ref cmp = .ok 0 ↔
      res = .ok ∧ ref = .ok ∧ ∃ st, cmp = .fields st ∧ ∀ s ∈ st, failingStatus s = false := by
  constructor
  · intro h
    cases res with
    | raised e => cases e <;> simp [runFileMode, fileComparison, exitOfBool, suiteBool, tOk] at h
    | ok =>
      cases ref with
      | raised e => cases e <;> simp [runFileMode, fileComparison, exitOfBool, suiteBool, tOk] at h
      | ok =>
        cases cmp with
        | domainMismatch => simp [runFileMode, fileComparison, exitOfBool, suiteBool, tOk] at h
        | raised => simp [runFileMode, fileComparison, exitOfBool] at h
        | fields st =>
          refine ⟨rfl, rfl, st, rfl, ?_⟩
          intro s hs
          cases hf : failingStatus s with
          | false => rfl
          | true =>
            have := C18_failure_nonzero .ok .ok (.fields st) (Or.inr (Or.inr (Or.inr (Or.inr ⟨st, rfl, s, hs, hf⟩))))
            rw [this] at h
            cases h
  · rintro ⟨rfl, rfl, st, rfl, hall⟩
    unfold runFileMode fileComparison
    simp only
    have : suiteBool none (st.map (parseStatus false false)) = true := by
      unfold suiteBool
      simp only
      rw [List.all_eq_true]
      intro t ht
      obtain ⟨s, hs, e⟩ := List.mem_map.mp ht
      subst e
      have := hall s hs
      cases s <;> simp_all [failingStatus, parseStatus, tOk]
    rw [this]; rfl

/-- **C18 (missing array).** If a field array present in one file is absent from the other (it was removed
    from the damaged file, whichever role that file plays), the comparison reports a missing field and the exit
    code is 1 — whatever the verdicts on the remaining fields. -/
theorem C18_missing_array (src ref : List String) (verdict : String → FStatus) (n : String)
    (h : (n ∈ ref ∧ n ∉ src) ∨ (n ∈ src ∧ n ∉ ref)) :
    runFileMode false false .ok .ok (.fields (matchStatuses src ref verdict)) = .ok 1 := by
  apply C18_failure_nonzero
  refine Or.inr (Or.inr (Or.inr (Or.inr ⟨_, rfl, ?_⟩)))
  unfold matchStatuses
  rcases h with ⟨h1, h2⟩ | ⟨h1, h2⟩
  · refine ⟨.missingSource, ?_, rfl⟩
    apply List.mem_append_right
    apply List.mem_map.mpr
    exact ⟨n, List.mem_filter.mpr ⟨h1, by simpa using h2⟩, rfl⟩
  · refine ⟨.missingReference, ?_, rfl⟩
    apply List.mem_append_left
    apply List.mem_map.mpr
    refine ⟨n, h1, ?_⟩
    have : ref.contains n = false := by simpa using h2
    show (if ref.contains n = true then verdict n else FStatus.missingReference) = FStatus.missingReference
    rw [this]; rfl

/-- **C18 (fallback parser).** Whenever the hand-written parser for raw appended data succeeds on some content,
    that content contains `<AppendedData`, an underscore marker and the complete closing tag `</AppendedData>`;
    the appendix handed to the array readers starts right behind an underscore and ends where a closing tag
    starts. -/
theorem C18_fallback_parser (s : List Nat) (r : Fallback) (h : fallback s = some r) :
    ∃ i u k : Nat, occAt tagAppended s i ∧ occAt [95] s u ∧ occAt tagAppendedEnd s k ∧
      appendixPositions s = some (((u + 1 : Nat) : Int), (k : Int)) := by
  unfold fallback at h
  cases hp : appendixPositions s with
  | none => rw [hp] at h; cases h
  | some be =>
    obtain ⟨b, e⟩ := be
    obtain ⟨i, u, k, h1, h2, h3, hb, he⟩ := appendixPositions_spec s b e hp
    exact ⟨i, u, k, h1, h2, h3, by rw [hb, he]⟩

/-- **C18 (a cut before the end of the closing tag is rejected).** Let `n` be a cut offset such that every
    occurrence of `</AppendedData>` in the complete content ends behind `n`.  Then the fallback parser fails on
    the prefix of length `n` (AssertionError ⇒ by C18_failure_nonzero exit code 1): no cut inside the XML header,
    the appended data or the closing tag can be taken for a complete file. -/
theorem C18_fallback_cut (s : List Nat) (n : Nat)
    (h : ∀ k, occAt tagAppendedEnd s k → n < k + tagAppendedEnd.length) :
    fallback (s.take n) = none := by
  cases hf : fallback (s.take n) with
  | none => rfl
  | some r =>
    obtain ⟨_, _, k, _, _, hk, _⟩ := C18_fallback_parser _ r hf
    obtain ⟨hocc, hle⟩ := occAt_take tagAppendedEnd s tagAppendedEnd_ne n k hk
    have := h k hocc
    omega

/-- **C18 (short payload, base64).** Inline or appended base64, uncompressed, header of `h` bytes (4 or 8; any
    `h` not divisible by 3): if the characters available for an array are a strict prefix of its encoding, the
    reader raises or obtains fewer items than declared, so the length assertion fails — the array is never
    accepted.  Holds for every item size, every number of items, every cut position. -/
theorem C18_payload_short_base64 (h size : Nat) (items : List Nat) (avail : List Nat)
    (hh : h % 3 ≠ 0) (hn : (itemsToBytes size items).length < 256 ^ h)
    (hp : avail <+: encodeE h b64E (itemsToBytes size items))
    (hne : avail ≠ encodeE h b64E (itemsToBytes size items)) :
    checkDeclared size items.length (noCompReadE h b64E avail) = none := by
  unfold noCompReadE
  show checkDeclared size items.length (match b64dec avail with
    | none => none
    | some decoded => _) = none
  cases hd : b64dec avail with
  | none => rfl
  | some decoded =>
    have hall : ∀ b ∈ leBytes h (itemsToBytes size items).length ++ itemsToBytes size items, b < 256 := by
      intro b hb
      rcases List.mem_append.mp hb with h1 | h1
      · exact leBytes_lt _ _ b h1
      · exact itemsToBytes_lt _ _ b h1
    obtain ⟨k, hk, hk2⟩ := b64dec_strict_prefix _ hall avail hp hne decoded hd
    simp only [List.length_append, leBytes_length] at hk2
    have hlen : decoded.length = 3 * k := by
      rw [hk, List.length_take, List.length_append, leBytes_length]; omega
    simp only
    by_cases hsmall : decoded.length < h
    · rw [if_pos hsmall]; rfl
    · rw [if_neg hsmall]
      have hne8 : decoded.length ≠ h := by rw [hlen]; omega
      rw [if_neg hne8]
      obtain ⟨c1, c2⟩ := noComp_prefix_core h _ (3 * k) (itemsToBytes size items) rfl hn hk2 (by omega)
      rw [hk, c1]
      apply checkDeclared_short
      rw [← itemsToBytes_length]
      exact c2

/-- **C18 (short payload, raw appended).** The same for raw appended data: a strict prefix of
    `header ++ payload` never yields the declared number of items. -/
theorem C18_payload_short_raw (h size : Nat) (items : List Nat) (avail : List Nat)
    (hn : (itemsToBytes size items).length < 256 ^ h)
    (hp : avail <+: encodeE h rawE (itemsToBytes size items))
    (hne : avail ≠ encodeE h rawE (itemsToBytes size items)) :
    checkDeclared size items.length (noCompReadE h rawE avail) = none := by
  unfold noCompReadE encodeE rawE at *
  simp only [id] at *
  -- avail is the prefix of length m < h + n
  have hav : avail = (leBytes h (itemsToBytes size items).length ++ itemsToBytes size items).take avail.length :=
    List.prefix_iff_eq_take.mp hp
  have hm : avail.length < h + (itemsToBytes size items).length := by
    have hle := List.IsPrefix.length_le hp
    simp only [List.length_append, leBytes_length] at hle
    rcases Nat.lt_or_eq_of_le hle with hlt | heq
    · exact hlt
    · exfalso; apply hne
      rw [hav]
      apply List.take_of_length_le
      simp only [List.length_append, leBytes_length]; omega
  by_cases hsmall : avail.length < h
  · rw [if_pos hsmall]; rfl
  · rw [if_neg hsmall]
    obtain ⟨c1, c2⟩ := noComp_prefix_core h _ avail.length (itemsToBytes size items) rfl hn hm (by omega)
    rw [← hav] at c1 c2
    by_cases heq : avail.length = h
    · rw [if_pos heq]
      apply checkDeclared_short
      rw [List.drop_of_length_le (by omega)]
      simp only [List.take_nil, List.length_nil]
      rw [← itemsToBytes_length]; omega
    · rw [if_neg heq]
      rw [c1]
      apply checkDeclared_short
      rw [← itemsToBytes_length]
      exact c2

/-- **C18 (short payload, compressed).** A compressed array (header type of `h` bytes, base64 or raw, codec a
    parameter) whose payload is cut into non-empty blocks in any way.  Codec hypotheses (`CodecOK`, for the
    blocks of this array): compressed data are bytes and fit the header type, `decompress (compress b) = b`, and
    decompressing a strict prefix of a compressed block raises or yields fewer bytes than the block has
    (`CodecOK.of_raises` for the plain "raises"; LZ4 blocks can decode short).  If the bytes available are a strict prefix of
    what is stored — the cut may lie in the header `[#blocks, block size, last]`, in the list of compressed
    block sizes, inside a block or between two blocks — the reader raises or returns fewer items than declared,
    so the length assertion fails.  `items ≠ []`: the stored form of an EMPTY compressed array is `[0, bs, 0]`
    and its first two entries already read as the complete empty array (Witness/C18.lean). -/
theorem C18_payload_short_compressed (h size : Nat) (E : Enc) (hE : E = b64E ∨ E = rawE)
    (compress : Bytes → Bytes) (decompress : Bytes → Option Bytes) (bsz last : Nat) (blocks : List Bytes)
    (items avail : List Nat) (hh : h ≠ 0) (hitems : items ≠ [])
    (hpay : blocks.flatten = itemsToBytes size items) (hbl : ∀ b ∈ blocks, b ≠ [])
    (hn : blocks.length < 256 ^ h) (hbsz : bsz < 256 ^ h) (hlast : last < 256 ^ h)
    (hc : CodecOK compress decompress h blocks)
    (hp : avail <+: encodeCompE h E compress bsz last blocks)
    (hne : avail ≠ encodeCompE h E compress bsz last blocks) :
    checkDeclared size items.length (compReadE h E decompress avail) = none := by
  have hs : SafeEnc E := by
    rcases hE with rfl | rfl
    · exact safe_b64
    · exact safe_raw
  exact compRead_checkDeclared h size E hs compress decompress bsz last blocks items avail hh hitems hpay hbl hn
    hbsz hlast hc hp hne

/-- **C18 (a damaged payload never yields the reference's values).** For EVERY cell of the matrix of binary
    array encodings — header type UInt32 / UInt64, base64 (inline or appended) / raw (appended), uncompressed /
    compressed in blocks of `bsz` bytes — a strict prefix of what is stored for an array never passes the
    length assertion; in particular it never reads as the items that were written.  For compressed cells the
    array is non-empty and the codec satisfies `CodecOK` on the blocks of this array.  (ASCII arrays exist only
    inline, inside well-formed XML; they are covered by the enumeration, not by this theorem.) -/
theorem C18_array_never_equal (c : ArrCfg) (size : Nat) (compress : Bytes → Bytes)
    (decompress : Bytes → Option Bytes) (items avail : List Nat)
    (hh : c.h = 4 ∨ c.h = 8) (hn : (itemsToBytes size items).length < 256 ^ c.h)
    (hcomp : ∀ bsz, c.comp = some bsz → 0 < bsz ∧ bsz < 256 ^ c.h ∧ items ≠ [] ∧
      CodecOK compress decompress c.h (chunks bsz (itemsToBytes size items)))
    (hp : avail <+: encodeArr c compress (itemsToBytes size items))
    (hne : avail ≠ encodeArr c compress (itemsToBytes size items)) :
    checkDeclared size items.length (readArr c decompress avail) = none ∧
      checkDeclared size items.length (readArr c decompress avail) ≠ some items := by
  suffices hmain : checkDeclared size items.length (readArr c decompress avail) = none by
    rw [hmain]; exact ⟨rfl, by simp⟩
  unfold readArr
  unfold encodeArr at hp hne
  cases hcm : c.comp with
  | none =>
    rw [hcm] at hp hne
    simp only at hp hne ⊢
    unfold ArrCfg.enc at hp hne ⊢
    cases hb : c.b64 with
    | true =>
      rw [hb] at hp hne
      exact C18_payload_short_base64 c.h size items avail (by omega) hn hp hne
    | false =>
      rw [hb] at hp hne
      exact C18_payload_short_raw c.h size items avail hn hp hne
  | some bsz =>
    rw [hcm] at hp hne
    simp only at hp hne ⊢
    obtain ⟨hb0, hblt, hitems, hc⟩ := hcomp bsz hcm
    unfold encodeComp at hp hne
    have hE : c.enc = b64E ∨ c.enc = rawE := by
      unfold ArrCfg.enc; cases c.b64 <;> simp
    have hcl : (chunks bsz (itemsToBytes size items)).length < 256 ^ c.h := by
      have := length_le_flatten_length _ (chunks_ne_nil bsz hb0 (itemsToBytes size items))
      rw [chunks_flatten bsz hb0] at this
      omega
    exact C18_payload_short_compressed c.h size c.enc hE compress decompress bsz _ _ items avail (by omega) hitems
      (chunks_flatten bsz hb0 _) (chunks_ne_nil bsz hb0 _) hcl hblt
      (Nat.lt_trans (Nat.mod_lt _ hb0) hblt) hc hp hne

/-- **C18 (XML prefix).** For every document of the restricted shape the writers emit (optional declaration,
    one root element; start / end / empty-element tags with double-quoted attributes; text), serialized by
    `XmlLite.Doc.ser`: a prefix is accepted by the `XmlLite` scanner exactly if it contains the last byte of the
    root element.  Hence every cut in the declaration, inside a tag, inside an attribute value, in text or
    between elements is rejected; only cuts in the blanks behind the root end tag are accepted (nothing is lost
    there).  This is the thorough-tier assumption "ElementTree raises on this prefix" with `XmlLite` in the place
    of expat; the harness compares the two verdicts on every enumerated cut. -/
theorem C18_xml_prefix (d : XmlLite.Doc) (hwf : d.wf = true) (n : Nat) :
    XmlLite.scan (d.ser.take n) = true ↔ (d.prolog ++ d.rootInit).length < n :=
  XmlLite.scan_take_iff d hwf n

end Fc
