/-
  FcProofs.Props.C15_Source — C15, tie to the source text by TRANSLATION (see C04_Source.lean).
  Translated bodies: `Fc.Gen.c15…Src` (harness/fcv/tables/pylite_c15.py); model: FcModel/Seq.lean
  (whose falsy list / derived status / merge rules are literal TABLES extracted by tables/status.py:
  the theorems below tie the whole translated BODIES to the model functions built over these tables);
  embedding of model values: FcProofs/Lemmas/PyLiteC15.lean.
-/
import FcGen.Tables
import FcProofs.Lemmas.PyLiteC15
namespace Fc
open PyLite PyLite.C15

/-- `TestSuite.__bool__` is the model's `TSuite.bool`. -/
theorem C15_source_test_suite_bool (s : TSuite) :
    Gen.c15TestSuiteBoolSrc.run noExt [suiteVal s] = .ok (.bool s.bool) := by
  obtain ⟨tests, status⟩ := s
  cases status with
  | some st => cases st <;> rfl
  | none =>
    have h : ∀ (f : Val → Res Bool), (∀ t, f (testVal t) = .ok (tsTrue t)) →
        allM f (tests.map testVal) = .ok (tests.all tsTrue) :=
      fun f hf => allM_map_ok f testVal _ hf tests
    simp only [Gen.c15TestSuiteBoolSrc, suiteVal, optTsVal, TSuite.bool]
    pylite_eval
    rw [h]
    intro t
    cases t <;> rfl

/-- the property `TestSuite.status` is the model's `TSuite.statusProp` (`if self` = the truth value of
    the suite object = `TSuite.bool` by the previous theorem). -/
theorem C15_source_test_suite_status (s : TSuite) :
    Gen.c15TestSuiteStatusSrc.run noExt [suiteValB s s.bool] = .ok (tsVal s.statusProp) := by
  obtain ⟨tests, status⟩ := s
  cases status with
  | some st => cases st <;> rfl
  | none =>
    simp only [TSuite.statusProp]
    cases TSuite.bool ⟨tests, none⟩ <;> rfl

/-- `_merged_result` is the model's `mergedResult`, for all 25 combinations of `TestStatus | None`. -/
theorem C15_source_merged_result (r1 r2 : Option TStatus) :
    Gen.c15MergedResultSrc.run noExt [optTsVal r1, optTsVal r2] = .ok (optTsVal (mergedResult r1 r2)) := by
  cases r1 with
  | none => cases r2 with
    | none => rfl
    | some b => cases b <;> rfl
  | some a => cases r2 with
    | none => cases a <;> rfl
    | some b => cases a <;> cases b <;> rfl

/-! The model functions above are built over literal TABLES (`Gen.testSuiteFalsy`, `Gen.testSuiteDerived`,
    `Gen.mergedRules`) that are re-extracted from the same source, so a change of a literal moves both
    sides.  The following versions pin the translated bodies to explicit readings of the rules. -/

/-- `TestSuite.__bool__`: an explicit status decides (anything but `failed`/`error` is true); otherwise
    every test must be neither `failed` nor `error`. -/
theorem C15_source_test_suite_bool_explicit (s : TSuite) :
    Gen.c15TestSuiteBoolSrc.run noExt [suiteVal s] = .ok (.bool (boolSpec s)) := by
  rw [C15_source_test_suite_bool]
  obtain ⟨tests, status⟩ := s
  cases status with
  | some st => cases st <;> rfl
  | none =>
    simp only [TSuite.bool, boolSpec]
    congr 2
    apply List.all_congr rfl
    intro t
    cases t <;> rfl

/-- `TestSuite.status`: the explicit status, else `passed` / `failed` according to the truth value. -/
theorem C15_source_test_suite_status_explicit (s : TSuite) :
    Gen.c15TestSuiteStatusSrc.run noExt [suiteValB s (boolSpec s)] = .ok (tsVal (statusSpec s)) := by
  obtain ⟨tests, status⟩ := s
  cases status with
  | some st => cases st <;> rfl
  | none =>
    simp only [statusSpec]
    cases boolSpec ⟨tests, none⟩ <;> rfl

/-- `_merged_result`: `failed` beats `error` beats `skipped`; otherwise `None`. -/
theorem C15_source_merged_result_explicit (r1 r2 : Option TStatus) :
    Gen.c15MergedResultSrc.run noExt [optTsVal r1, optTsVal r2] = .ok (optTsVal (mergedSpec r1 r2)) := by
  cases r1 with
  | none => cases r2 with
    | none => rfl
    | some b => cases b <;> rfl
  | some a => cases r2 with
    | none => cases a <;> rfl
    | some b => cases a <;> cases b <;> rfl

end Fc
