/-
  FcProofs.Props.C11_Orchestration — C11, phase 6: the ORCHESTRATION code of `_field_data_comparison.py` tied to the
  model (FcModel/Compare.lean, Matching.lean) by TRANSLATION.  Translated bodies: `Fc.Gen.c11o…Src`
  (harness/fcv/tables/pylite_c11_orch.py); assumptions about the external callees: `OrchExt`
  (FcProofs/Lemmas/PyLiteC11Orch.lean); interpreter semantics of method calls / try / effects: FcModel/PyLite.lean.
-/
import FcGen.Tables
import FcProofs.Lemmas.PyLiteC11Orch
set_option linter.unusedSimpArgs false
set_option linter.unusedVariables false
namespace Fc
open PyLite PyLite.C11 PyLite.C11M PyLite.C11O

variable {X : Ext} {cv selV cbV : Val} {strip : Nat → Nat} {incl excl : Nat → Bool}
  {pred : Fld → Fld → Outcome} {excOf : Fld → Fld → String} {cbRes : Cmp → Val}

/-- `_without_annotation(field)` builds the field with the annotation-free name and the same values. -/
theorem C11_source_without_annotation (hX : OrchExt X cv selV cbV strip incl excl pred excOf cbRes) (self : Val) (f : Fld) :
    Gen.c11oWithoutAnnotationSrc.runTr X [self, fldVal f] = .ok (fldVal (stripF strip f), []) := by
  simp only [Gen.c11oWithoutAnnotationSrc, fldVal, stripF]
  pylite_eval [Fn.runTr, hX.hstrip, hX.hfield]

/-- `_perform_comparison(source, reference, predicate)`: the predicate is evaluated through
    `_measure_time(predicate)(source.values, reference.values)`; the comparison is named after the SOURCE field and is
    `passed` / `failed` according to the truth value of the result; an exception of the evaluation escapes. -/
theorem C11_source_perform_comparison (hX : OrchExt X cv selV cbV strip incl excl pred excOf cbRes)
    (self p sv m rt : Val) (s r : Fld) (o : Outcome) (exc : String)
    (hstr : X "str" [p] = .ok sv) (hm : X "_measure_time" [p] = .ok m)
    (hrun : X "call" [m, .int s.tag, .int r.tag] = outcomeRes rt exc o) :
    Gen.c11oPerformComparisonSrc.runTr X [self, fldVal s, fldVal r, p] =
      match o with
      | .raise => .raise exc
      | _ => .ok (cmpObj ⟨s.name, outcomeStatus o⟩, []) := by
  simp only [Gen.c11oPerformComparisonSrc, fldVal]
  cases o <;> pylite_eval [Fn.runTr, hm, hrun, outcomeRes, hstr, outcomeStatus, hX.cmp_passed, hX.cmp_failed]

/-- `_make_exception_comparison(name, predicate, exception)`: an `error` entry with the given name. -/
theorem C11_source_make_exception_comparison (hX : OrchExt X cv selV cbV strip incl excl pred excOf cbRes)
    (self p sv e : Val) (n : Nat) (hstr : X "str" [p] = .ok sv) :
    Gen.c11oMakeExceptionComparisonSrc.runTr X [self, .int n, p, e] = .ok (cmpObj ⟨n, .error⟩, []) := by
  simp only [Gen.c11oMakeExceptionComparisonSrc]
  pylite_eval [Fn.runTr, hstr, hX.cmp_error]

/-- `_missing_source_comparisons(query)`: one `missing_source` entry per reference orphan, in order. -/
theorem C11_source_missing_source (hX : OrchExt X cv selV cbV strip incl excl pred excOf cbRes)
    (self : Val) (ps : List (Fld × Fld)) (os orr : List Fld) :
    Gen.c11oMissingSourceSrc.runTr X [self, queryVal ps os orr] =
      .ok (.list (orr.map fun f => cmpObj ⟨f.name, .missing_source⟩), []) := by
  simp only [Gen.c11oMissingSourceSrc, queryVal, matchResultVal]
  pylite_eval [Fn.runTr]
  rw [compM_map_total _ fldVal (fun f => cmpObj ⟨f.name, .missing_source⟩) (by intro f; pylite_eval [fldVal, hX.cmp_missing_source])]

/-- `_missing_reference_comparisons(query)`: one `missing_reference` entry per source orphan, in order. -/
theorem C11_source_missing_reference (hX : OrchExt X cv selV cbV strip incl excl pred excOf cbRes)
    (self : Val) (ps : List (Fld × Fld)) (os orr : List Fld) :
    Gen.c11oMissingReferenceSrc.runTr X [self, queryVal ps os orr] =
      .ok (.list (os.map fun f => cmpObj ⟨f.name, .missing_reference⟩), []) := by
  simp only [Gen.c11oMissingReferenceSrc, queryVal, matchResultVal]
  pylite_eval [Fn.runTr]
  rw [compM_map_total _ fldVal (fun f => cmpObj ⟨f.name, .missing_reference⟩) (by intro f; pylite_eval [fldVal, hX.cmp_missing_reference])]

/-- `_filtered_comparisons(filtered)`: one `filtered` entry per filtered source field, in order. -/
theorem C11_source_filtered (hX : OrchExt X cv selV cbV strip incl excl pred excOf cbRes)
    (self : Val) (fs : List Fld) :
    Gen.c11oFilteredSrc.runTr X [self, .list (fs.map fldVal)] =
      .ok (.list (fs.map fun f => cmpObj ⟨f.name, .filtered⟩), []) := by
  simp only [Gen.c11oFilteredSrc]
  pylite_eval [Fn.runTr]
  rw [compM_map_total _ fldVal (fun f => cmpObj ⟨f.name, .filtered⟩) (by intro f; pylite_eval [fldVal, hX.cmp_filtered])]

/-- `_filter_matches(query)`: a matched pair stays when the inclusion filter accepts and the exclusion filter rejects
    the ANNOTATION-FREE name of its source field (`selectedName`), otherwise its source field goes to `filtered`; both
    in match order; the orphans are untouched; returns `(query with the remaining matches, filtered)`.  No effects. -/
theorem C11_source_filter_matches (hX : OrchExt X cv selV cbV strip incl excl pred excOf cbRes)
    (ps : List (Fld × Fld)) (os orr : List Fld) :
    Gen.c11oFilterMatchesSrc.runTr X [cv, queryVal ps os orr] =
      .ok (.list [queryVal (filterMatches (selectedName strip incl excl) ps).1 os orr,
                  .list ((filterMatches (selectedName strip incl excl) ps).2.map fldVal)], []) := by
  simp only [Gen.c11oFilterMatchesSrc, queryVal, matchResultVal]
  pylite_eval [Fn.runTr]
  generalize hf : forLoop _ _ _ = r
  have key := forLoop_fold_eq (pairV fldVal fldVal) (filterStep (selectedName strip incl excl))
    (fun acc st => st.env.lookup "v0" = some cv ∧
      st.env.lookup "v1" = some (queryVal ps os orr) ∧
      st.env.lookup "v2" = some (.list (acc.1.map fldVal)) ∧
      st.env.lookup "v3" = some (.list (acc.2.map (pairV fldVal fldVal))) ∧ st.out = [])
    hf ([], []) (by simp [List.lookup, queryVal, matchResultVal]) (by
      rintro ⟨s, t⟩ ⟨F, M⟩ st ⟨e0, e1, e2, e3, eo⟩
      have hwa := fun x st => callRet_of_runTr (C11_source_without_annotation hX cv s) x st
      simp only [fldVal, stripF] at hwa
      simp only [pairV]
      pylite_eval [e0, e1, e2, e3, eo, hwa, fldVal, hX.hincl, hX.hexcl]
      cases hi : incl (strip s.name) <;> cases he : excl (strip s.name) <;>
        simp [filterStep, selectedName, hi, he, List.lookup, e0, e1, e2, e3, eo, pairV, fldVal])
  obtain ⟨st', rfl, e0, e1, e2, e3, eo⟩ := key
  simp [foldl_filterStep, e0, e1, e2, e3, eo, queryVal, matchResultVal, recordSet, List.lookup]

/-- `_compare_matches(query, predicate_selector, fieldcomp_callback)`: for every remaining match, in order: the selector
    is asked with the ANNOTATION-FREE fields (source first), the predicate is evaluated on the original values; pass /
    fail / an exception caught by `except Exception` give a `passed` / `failed` / `error` entry named after the source
    field; the callback is invoked with that entry BEFORE the next pair is looked at (trace = `cbRes` of the entries, in
    order); the list of entries is returned = the model's `compareMatches`. -/
theorem C11_source_compare_matches (hX : OrchExt X cv selV cbV strip incl excl pred excOf cbRes)
    (ps : List (Fld × Fld)) (os orr : List Fld) :
    Gen.c11oCompareMatchesSrc.runTr X [cv, queryVal ps os orr, selV, cbV] =
      .ok (.list ((compareMatches pred ps).map cmpObj), (compareMatches pred ps).map cbRes) := by
  simp only [Gen.c11oCompareMatchesSrc, queryVal, matchResultVal]
  pylite_eval [Fn.runTr]
  generalize hf : forLoop _ _ _ = r
  have key := forLoop_fold_eq (pairV fldVal fldVal) (compareStep pred)
    (fun acc st => st.env.lookup "v0" = some cv ∧ st.env.lookup "v2" = some selV ∧ st.env.lookup "v3" = some cbV ∧
      st.env.lookup "v4" = some (.list (acc.map cmpObj)) ∧ st.out = acc.map cbRes)
    hf [] (by simp [List.lookup]) (by
      rintro ⟨s, t⟩ A st ⟨e0, e2, e3, e4, eo⟩
      obtain ⟨p, hp, ⟨sv, hsv⟩, m, rt, hm, hrun⟩ := hX.hsel s t
      have hwa := fun f x st => callRet_of_runTr (C11_source_without_annotation hX cv f) x st
      have hmk := fun e x st => callRet_of_runTr (C11_source_make_exception_comparison hX cv p sv e s.name hsv) x st
      have hexc := hX.hexc s t
      simp only [fldVal, stripF] at hwa hp
      simp only [pairV]
      cases ho : pred s t <;> rw [ho] at hrun
      · have hpc := fun x st => callRet_of_runTr (f := Gen.c11oPerformComparisonSrc)
          (C11_source_perform_comparison hX cv p sv m rt s t .pass _ hsv hm hrun) x st
        simp only [fldVal, outcomeStatus] at hpc
        pylite_eval [e0, e2, e3, e4, eo, hwa, fldVal, hp, hpc, hX.hcb]
        simp [compareStep, ho, outcomeStatus, List.lookup, e0, e2, e3, e4, eo]
      · have hpc := fun x st => callRet_of_runTr (f := Gen.c11oPerformComparisonSrc)
          (C11_source_perform_comparison hX cv p sv m rt s t .fail _ hsv hm hrun) x st
        simp only [fldVal, outcomeStatus] at hpc
        pylite_eval [e0, e2, e3, e4, eo, hwa, fldVal, hp, hpc, hX.hcb]
        simp [compareStep, ho, outcomeStatus, List.lookup, e0, e2, e3, e4, eo]
      · have hpc := fun x st => callRet_of_runTr_raise (f := Gen.c11oPerformComparisonSrc)
          (C11_source_perform_comparison hX cv p sv m rt s t .raise _ hsv hm hrun) x st
        simp only [fldVal] at hpc
        pylite_eval [e0, e2, e3, e4, eo, hwa, fldVal, hp, hpc, hexc, hmk, hX.hcb]
        simp [compareStep, ho, outcomeStatus, List.lookup, e0, e2, e3, e4, eo])
  obtain ⟨st', rfl, e0, e2, e3, e4, eo⟩ := key
  simp [foldl_compareStep, e0, e2, e3, e4, eo, List.lookup]

end Fc
