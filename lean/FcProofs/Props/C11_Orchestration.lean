/-
  FcProofs.Props.C11_Orchestration — C11, phase 6: the ORCHESTRATION code of `_field_data_comparison.py` tied to the
  model (FcModel/Compare.lean, Matching.lean) by TRANSLATION.  Translated bodies: `Fc.Gen.c11o…Src`
  (harness/fcv/tables/pylite_c11_orch.py); assumptions about the external callees: `OrchExt`
  (FcProofs/Lemmas/PyLiteC11Orch.lean); interpreter semantics of method calls / try / effects: FcModel/PyLite.lean.
-/
import FcGen.Tables
import FcProofs.Lemmas.PyLiteC11Orch
set_option linter.unusedSimpArgs false
set_option linter.unusedVariables false
namespace Fc
open PyLite PyLite.C11 PyLite.C11M PyLite.C11O

variable {X : Ext} {cv selV cbV : Val} {strip : Nat → Nat} {incl excl : Nat → Bool}
  {pred : Fld → Fld → Outcome} {excOf : Fld → Fld → String} {cbRes : Cmp → Val}

/-- `_without_annotation(field)` builds the field with the annotation-free name and the same values. -/
theorem C11_source_without_annotation (hX : OrchExt X cv selV cbV strip incl excl pred excOf cbRes) (self : Val) (f : Fld) :
    Gen.c11oWithoutAnnotationSrc.runTr X [self, fldVal f] = .ok (fldVal (stripF strip f), []) := by
  simp only [Gen.c11oWithoutAnnotationSrc, fldVal, stripF]
  pylite_eval [Fn.runTr, hX.hstrip, hX.hfield]

/-- `_perform_comparison(source, reference, predicate)`: the predicate is evaluated through
    `_measure_time(predicate)(source.values, reference.values)`; the comparison is named after the SOURCE field and is
    `passed` / `failed` according to the truth value of the result; an exception of the evaluation escapes. -/
theorem C11_source_perform_comparison (hX : OrchExt X cv selV cbV strip incl excl pred excOf cbRes)
    (self p sv m rt : Val) (s r : Fld) (o : Outcome) (exc : String)
    (hstr : X "str" [p] = .ok sv) (hm : X "_measure_time" [p] = .ok m)
    (hrun : X "call" [m, .int s.tag, .int r.tag] = outcomeRes rt exc o) :
    Gen.c11oPerformComparisonSrc.runTr X [self, fldVal s, fldVal r, p] =
      match o with
      | .raise => .raise exc
      | _ => .ok (cmpObj ⟨s.name, outcomeStatus o⟩, []) := by
  simp only [Gen.c11oPerformComparisonSrc, fldVal]
  cases o <;> pylite_eval [Fn.runTr, hm, hrun, outcomeRes, hstr, outcomeStatus, hX.cmp_passed, hX.cmp_failed]

/-- `_make_exception_comparison(name, predicate, exception)`: an `error` entry with the given name. -/
theorem C11_source_make_exception_comparison (hX : OrchExt X cv selV cbV strip incl excl pred excOf cbRes)
    (self p sv e : Val) (n : Nat) (hstr : X "str" [p] = .ok sv) :
    Gen.c11oMakeExceptionComparisonSrc.runTr X [self, .int n, p, e] = .ok (cmpObj ⟨n, .error⟩, []) := by
  simp only [Gen.c11oMakeExceptionComparisonSrc]
  pylite_eval [Fn.runTr, hstr, hX.cmp_error]

/-- `_missing_source_comparisons(query)`: one `missing_source` entry per reference orphan, in order. -/
theorem C11_source_missing_source (hX : OrchExt X cv selV cbV strip incl excl pred excOf cbRes)
    (self : Val) (ps : List (Fld × Fld)) (os orr : List Fld) :
    Gen.c11oMissingSourceSrc.runTr X [self, queryVal ps os orr] =
      .ok (.list (orr.map fun f => cmpObj ⟨f.name, .missing_source⟩), []) := by
  simp only [Gen.c11oMissingSourceSrc, queryVal, matchResultVal]
  pylite_eval [Fn.runTr]
  rw [compM_map_total _ fldVal (fun f => cmpObj ⟨f.name, .missing_source⟩) (by intro f; pylite_eval [fldVal, hX.cmp_missing_source])]

/-- `_missing_reference_comparisons(query)`: one `missing_reference` entry per source orphan, in order. -/
theorem C11_source_missing_reference (hX : OrchExt X cv selV cbV strip incl excl pred excOf cbRes)
    (self : Val) (ps : List (Fld × Fld)) (os orr : List Fld) :
    Gen.c11oMissingReferenceSrc.runTr X [self, queryVal ps os orr] =
      .ok (.list (os.map fun f => cmpObj ⟨f.name, .missing_reference⟩), []) := by
  simp only [Gen.c11oMissingReferenceSrc, queryVal, matchResultVal]
  pylite_eval [Fn.runTr]
  rw [compM_map_total _ fldVal (fun f => cmpObj ⟨f.name, .missing_reference⟩) (by intro f; pylite_eval [fldVal, hX.cmp_missing_reference])]

/-- `_filtered_comparisons(filtered)`: one `filtered` entry per filtered source field, in order. -/
theorem C11_source_filtered (hX : OrchExt X cv selV cbV strip incl excl pred excOf cbRes)
    (self : Val) (fs : List Fld) :
    Gen.c11oFilteredSrc.runTr X [self, .list (fs.map fldVal)] =
      .ok (.list (fs.map fun f => cmpObj ⟨f.name, .filtered⟩), []) := by
  simp only [Gen.c11oFilteredSrc]
  pylite_eval [Fn.runTr]
  rw [compM_map_total _ fldVal (fun f => cmpObj ⟨f.name, .filtered⟩) (by intro f; pylite_eval [fldVal, hX.cmp_filtered])]

/-- `_filter_matches(query)`: a matched pair stays when the inclusion filter accepts and the exclusion filter rejects
    the ANNOTATION-FREE name of its source field (`selectedName`), otherwise its source field goes to `filtered`; both
    in match order; the orphans are untouched; returns `(query with the remaining matches, filtered)`.  No effects. -/
theorem C11_source_filter_matches (hX : OrchExt X cv selV cbV strip incl excl pred excOf cbRes)
    (ps : List (Fld × Fld)) (os orr : List Fld) :
    Gen.c11oFilterMatchesSrc.runTr X [cv, queryVal ps os orr] =
      .ok (.list [queryVal (filterMatches (selectedName strip incl excl) ps).1 os orr,
                  .list ((filterMatches (selectedName strip incl excl) ps).2.map fldVal)], []) := by
  simp only [Gen.c11oFilterMatchesSrc, queryVal, matchResultVal]
  pylite_eval [Fn.runTr]
  generalize hf : forLoop _ _ _ = r
  have key := forLoop_fold_eq (pairV fldVal fldVal) (filterStep (selectedName strip incl excl))
    (fun acc st => st.env.lookup "v0" = some cv ∧
      st.env.lookup "v1" = some (queryVal ps os orr) ∧
      st.env.lookup "v2" = some (.list (acc.1.map fldVal)) ∧
      st.env.lookup "v3" = some (.list (acc.2.map (pairV fldVal fldVal))) ∧ st.out = [])
    hf ([], []) (by simp [List.lookup, queryVal, matchResultVal]) (by
      rintro ⟨s, t⟩ ⟨F, M⟩ st ⟨e0, e1, e2, e3, eo⟩
      have hwa := fun x st => callRet_of_runTr (C11_source_without_annotation hX cv s) x st
      simp only [fldVal, stripF] at hwa
      simp only [pairV]
      pylite_eval [e0, e1, e2, e3, eo, hwa, fldVal, hX.hincl, hX.hexcl]
      cases hi : incl (strip s.name) <;> cases he : excl (strip s.name) <;>
        simp [filterStep, selectedName, hi, he, List.lookup, e0, e1, e2, e3, eo, pairV, fldVal])
  obtain ⟨st', rfl, e0, e1, e2, e3, eo⟩ := key
  simp [foldl_filterStep, e0, e1, e2, e3, eo, queryVal, matchResultVal, recordSet, List.lookup]

/-- `_compare_matches(query, predicate_selector, fieldcomp_callback)`: for every remaining match, in order: the selector
    is asked with the ANNOTATION-FREE fields (source first), the predicate is evaluated on the original values; pass /
    fail / an exception caught by `except Exception` give a `passed` / `failed` / `error` entry named after the source
    field; the callback is invoked with that entry BEFORE the next pair is looked at (trace = `cbRes` of the entries, in
    order); the list of entries is returned = the model's `compareMatches`. -/
theorem C11_source_compare_matches (hX : OrchExt X cv selV cbV strip incl excl pred excOf cbRes)
    (ps : List (Fld × Fld)) (os orr : List Fld) :
    Gen.c11oCompareMatchesSrc.runTr X [cv, queryVal ps os orr, selV, cbV] =
      .ok (.list ((compareMatches pred ps).map cmpObj), (compareMatches pred ps).map cbRes) := by
  simp only [Gen.c11oCompareMatchesSrc, queryVal, matchResultVal]
  pylite_eval [Fn.runTr]
  generalize hf : forLoop _ _ _ = r
  have key := forLoop_fold_eq (pairV fldVal fldVal) (compareStep pred)
    (fun acc st => st.env.lookup "v0" = some cv ∧ st.env.lookup "v2" = some selV ∧ st.env.lookup "v3" = some cbV ∧
      st.env.lookup "v4" = some (.list (acc.map cmpObj)) ∧ st.out = acc.map cbRes)
    hf [] (by simp [List.lookup]) (by
      rintro ⟨s, t⟩ A st ⟨e0, e2, e3, e4, eo⟩
      obtain ⟨p, hp, ⟨sv, hsv⟩, m, rt, hm, hrun⟩ := hX.hsel s t
      have hwa := fun f x st => callRet_of_runTr (C11_source_without_annotation hX cv f) x st
      have hmk := fun e x st => callRet_of_runTr (C11_source_make_exception_comparison hX cv p sv e s.name hsv) x st
      have hexc := hX.hexc s t
      simp only [fldVal, stripF] at hwa hp
      simp only [pairV]
      cases ho : pred s t <;> rw [ho] at hrun
      · have hpc := fun x st => callRet_of_runTr (f := Gen.c11oPerformComparisonSrc)
          (C11_source_perform_comparison hX cv p sv m rt s t .pass _ hsv hm hrun) x st
        simp only [fldVal, outcomeStatus] at hpc
        pylite_eval [e0, e2, e3, e4, eo, hwa, fldVal, hp, hpc, hX.hcb]
        simp [compareStep, ho, outcomeStatus, List.lookup, e0, e2, e3, e4, eo]
      · have hpc := fun x st => callRet_of_runTr (f := Gen.c11oPerformComparisonSrc)
          (C11_source_perform_comparison hX cv p sv m rt s t .fail _ hsv hm hrun) x st
        simp only [fldVal, outcomeStatus] at hpc
        pylite_eval [e0, e2, e3, e4, eo, hwa, fldVal, hp, hpc, hX.hcb]
        simp [compareStep, ho, outcomeStatus, List.lookup, e0, e2, e3, e4, eo]
      · have hpc := fun x st => callRet_of_runTr_raise (f := Gen.c11oPerformComparisonSrc)
          (C11_source_perform_comparison hX cv p sv m rt s t .raise _ hsv hm hrun) x st
        simp only [fldVal] at hpc
        pylite_eval [e0, e2, e3, e4, eo, hwa, fldVal, hp, hpc, hexc, hmk, hX.hcb]
        simp [compareStep, ho, outcomeStatus, List.lookup, e0, e2, e3, e4, eo])
  obtain ⟨st', rfl, e0, e2, e3, e4, eo⟩ := key
  simp [foldl_compareStep, e0, e2, e3, e4, eo, List.lookup]

/-! ### `FieldComparisonSuite` -/

/-- `FieldComparisonSuite.__init__(domain_eq_check, comparisons)` stores the domain check and partitions the comparisons,
    in order, into `_passed` (status `passed`), `_failed` (falsy: `failed`, `error`) and `_skipped` (the rest) — the
    model's `mkSuite` / `bucketOf`, for EVERY list of comparisons.  (The translated constructor returns the dict of the
    attributes it stores.)  No externals. -/
theorem C11_source_suite_init (X : Ext) (d : Bool) (cs : List Cmp) :
    Gen.c11oSuiteInitSrc.run X [predResultVal d, .list (cs.map cmpObj)] = .ok (suiteDict (mkSuite d cs)) := by
  simp only [Gen.c11oSuiteInitSrc]
  pylite_eval
  generalize hf : forLoop _ _ _ = r
  have key := forLoop_fold_eq cmpObj bucketStep
    (fun acc st => st.env.lookup "v2" = some (predResultVal d) ∧ st.env.lookup "v3" = some (.list (acc.1.map cmpObj)) ∧
      st.env.lookup "v4" = some (.list (acc.2.1.map cmpObj)) ∧ st.env.lookup "v5" = some (.list (acc.2.2.map cmpObj)))
    hf ([], [], []) (by simp [List.lookup]) (by
      rintro ⟨n, s⟩ ⟨P, F, S⟩ st ⟨e2, e3, e4, e5⟩
      cases s <;>
        simp [exec, execBlock, eval, evalList, withVal, withBool, St.set, Res.bind, Res.map, getAttr, cmpop, Val.eqv,
          Val.truthy, binop, List.lookup, cmpObj, fstVal, fstName, e2, e3, e4, e5, bucketStep, bucketOf, Cmp.truthy,
          FStatus.truthy, Gen.suitePassedBucket, Gen.FieldComparisonStatus.falsy])
  obtain ⟨st', rfl, e2, e3, e4, e5⟩ := key
  simp [foldl_bucketStep, e2, e3, e4, e5, List.lookup, suiteDict, mkSuite, dictSet, Val.eqv, Res.map, Res.bind]

/-- … without comparisons (`comparisons=None`, the early return of a failed domain check): three empty lists. -/
theorem C11_source_suite_init_none (X : Ext) (d : Bool) :
    Gen.c11oSuiteInitSrc.run X [predResultVal d, .none] = .ok (suiteDict (mkSuite d [])) := by
  simp only [Gen.c11oSuiteInitSrc]
  pylite_eval [suiteDict, mkSuite, dictSet]

/-- the object with the attributes of that dict -/
theorem C11_suite_obj_of_dict (s : Suite) : objOfDict (suiteDict s) = .ok (suiteObj s) := by
  simp [objOfDict, objOfDict.go, suiteDict, suiteObj, Res.map, Res.bind]

/-- the accessors `passed`, `failed`, `skipped`, `domain_equality_check` return the stored lists / check. -/
theorem C11_source_suite_accessors (X : Ext) (s : Suite) :
    Gen.c11oSuitePassedSrc.run X [suiteObj s] = .ok (.list (s.passed.map cmpObj)) ∧
    Gen.c11oSuiteFailedSrc.run X [suiteObj s] = .ok (.list (s.failed.map cmpObj)) ∧
    Gen.c11oSuiteSkippedSrc.run X [suiteObj s] = .ok (.list (s.skipped.map cmpObj)) ∧
    Gen.c11oSuiteDomainCheckSrc.run X [suiteObj s] = .ok (predResultVal s.domainEq) := by
  refine ⟨?_, ?_, ?_, ?_⟩ <;>
    simp only [Gen.c11oSuitePassedSrc, Gen.c11oSuiteFailedSrc, Gen.c11oSuiteSkippedSrc, Gen.c11oSuiteDomainCheckSrc,
      suiteObj] <;> pylite_eval

/-- `num_passed`, `num_failed`, `num_skipped` are the lengths of the three lists, `__len__` their sum (= the number
    of entries `__iter__` yields). -/
theorem C11_source_suite_counts (X : Ext) (s : Suite) :
    Gen.c11oSuiteNumPassedSrc.run X [suiteObj s] = .ok (.int s.passed.length) ∧
    Gen.c11oSuiteNumFailedSrc.run X [suiteObj s] = .ok (.int s.failed.length) ∧
    Gen.c11oSuiteNumSkippedSrc.run X [suiteObj s] = .ok (.int s.skipped.length) ∧
    Gen.c11oSuiteLenSrc.run X [suiteObj s] = .ok (.int s.iter.length) := by
  refine ⟨?_, ?_, ?_, ?_⟩ <;>
    simp only [Gen.c11oSuiteNumPassedSrc, Gen.c11oSuiteNumFailedSrc, Gen.c11oSuiteNumSkippedSrc, Gen.c11oSuiteLenSrc,
      suiteObj, Suite.iter] <;> pylite_eval
  omega

/-- `__iter__` chains failed, passed, skipped — the model's `Suite.iter` (`chain` = concatenation, `iter` = identity
    on the presented lists). -/
theorem C11_source_suite_iter (X : Ext)
    (hchain : ∀ a b c, X "chain" [.list a, .list b, .list c] = .ok (.list (a ++ b ++ c)))
    (hiter : ∀ v, X "iter" [v] = .ok v) (s : Suite) :
    Gen.c11oSuiteIterSrc.run X [suiteObj s] = .ok (.list (s.iter.map cmpObj)) := by
  simp only [Gen.c11oSuiteIterSrc, suiteObj, Suite.iter]
  pylite_eval [hchain, hiter]

/-- the verdict: `FieldComparisonSuite.__bool__` (translated in phase 2, `Gen.c11FcSuiteBoolSrc`) on the object the
    constructor builds is the model's `Suite.bool`. -/
theorem C11_source_suite_obj_bool (s : Suite) :
    Gen.c11FcSuiteBoolSrc.run noExt [suiteObj s] = .ok (.bool s.bool) := by
  obtain ⟨d, p, f, k⟩ := s
  cases d
  · rfl
  · simp only [Gen.c11FcSuiteBoolSrc, suiteObj, predResultVal, Suite.bool]
    pylite_eval
    cases f <;> simp <;> omega

/-! ### `FieldDataComparator.__call__` -/

/-- the list handed to the suite constructor is the model's `comparisons` -/
theorem C11_comparisons_val (sel : Nat → Bool) (pred : Fld → Fld → Outcome) (src ref : List Fld) :
    (compareMatches pred (filterMatches sel (findMatches nameEq src ref).pairs).1).map cmpObj
      ++ (((findMatches nameEq src ref).orphansRef.map fun f => cmpObj ⟨f.name, .missing_source⟩)
      ++ (((findMatches nameEq src ref).orphansSrc.map fun f => cmpObj ⟨f.name, .missing_reference⟩)
      ++ ((filterMatches sel (findMatches nameEq src ref).pairs).2.map fun f => cmpObj ⟨f.name, .filtered⟩)))
    = (comparisons sel pred src ref).map cmpObj := by
  simp [comparisons, List.map_append, List.map_map, Function.comp_def]

/-- **`FieldDataComparator.__call__(predicate_selector, fieldcomp_callback)` is the model's `comparatorCall`**, for ALL
    field lists, filters, selector / predicate outcomes (pass, fail, raise) and domain verdicts:
    * the returned object is the `FieldComparisonSuite` whose three lists are those of `(comparatorCall …).suite`
      (entries = (name, status), in order) and whose domain check is the result of `source.domain.equals(reference.domain)`;
      when that check fails NOTHING else is done (no matching, no callback) and the suite is empty;
    * the effect trace is exactly the callback invocations on `(comparatorCall …).callbacks`, in order (one per compared
      pair, before the next pair is evaluated; none for missing / filtered fields);
    * the order of the comparisons list is compared ++ missing_source ++ missing_reference ++ filtered.
    Assumptions (externals): `OrchExt` (see there); `hdom`: the domain check returns a `PredicateResult` with truth value
    `domainEq`; `hfind`: `find_matches_by_name(source, reference)` is the model's `findMatches nameEq` on the field lists
    (`find_matches` itself is `C11_source_find_matches`); `hsuite`: constructing a `FieldComparisonSuite` runs the
    TRANSLATED `__init__` and yields the object with the attributes it stored; `hselA`/`hcbA`: the two optional
    arguments are the given callables or `None` (then the defaults `_default_predicate_selector` = `closure#0`,
    `DefaultFieldComparisonCallback()` are used).  Not covered: the order of SELECTOR invocations relative to the
    callbacks (externals are pure in PyLite: only statement-level calls are traced); exceptions escaping from the
    selector, the callback, `str(predicate)` or the filters (assumed total, as in the model). -/
theorem C11_source_comparator_call {dS dR : Val} {src ref : List Fld} {domainEq : Bool}
    (hX : OrchExt X (comparatorVal dS dR src ref) selV cbV strip incl excl pred excOf cbRes)
    (hdom : X ".equals" [dS, dR] = .ok (predResultVal domainEq))
    (hfind : X "find_matches_by_name" [fdVal dS src, fdVal dR ref] =
      .ok (queryVal (findMatches nameEq src ref).pairs (findMatches nameEq src ref).orphansSrc
            (findMatches nameEq src ref).orphansRef))
    (hsuite : ∀ c d, X "FieldComparisonSuite(comparisons=,domain_eq_check=)" [c, d] =
      (Gen.c11oSuiteInitSrc.run X [d, c]).bind objOfDict)
    (selArg cbArg : Val) (hselA : OrDefault X selArg "closure#0" selV)
    (hcbA : OrDefault X cbArg "DefaultFieldComparisonCallback" cbV) :
    Gen.c11oComparatorCallSrc.runTr X [comparatorVal dS dR src ref, selArg, cbArg] =
      .ok (suiteObj (comparatorCall (selectedName strip incl excl) domainEq pred src ref).suite,
           (comparatorCall (selectedName strip incl excl) domainEq pred src ref).callbacks.map cbRes) := by
  obtain ⟨ts, hts, hsv⟩ := hselA.elim
  obtain ⟨tc, htc, hcv⟩ := hcbA.elim
  have hfm := fun x st => callRet_of_runTr (C11_source_filter_matches hX (findMatches nameEq src ref).pairs
    (findMatches nameEq src ref).orphansSrc (findMatches nameEq src ref).orphansRef) x st
  have hcm := fun ps x st => callRet_of_runTr (C11_source_compare_matches hX ps
    (findMatches nameEq src ref).orphansSrc (findMatches nameEq src ref).orphansRef) x st
  have hms := fun ps x st => callRet_of_runTr (C11_source_missing_source hX (comparatorVal dS dR src ref) ps
    (findMatches nameEq src ref).orphansSrc (findMatches nameEq src ref).orphansRef) x st
  have hmr := fun ps x st => callRet_of_runTr (C11_source_missing_reference hX (comparatorVal dS dR src ref) ps
    (findMatches nameEq src ref).orphansSrc (findMatches nameEq src ref).orphansRef) x st
  have hfl := fun fs x st => callRet_of_runTr (C11_source_filtered hX (comparatorVal dS dR src ref) fs) x st
  have hs0 : ∀ d, X "FieldComparisonSuite(comparisons=,domain_eq_check=)" [.none, predResultVal d] =
      .ok (suiteObj (mkSuite d [])) := by
    intro d; rw [hsuite, C11_source_suite_init_none]; simp [Res.bind, C11_suite_obj_of_dict]
  have hs1 : ∀ d cs, X "FieldComparisonSuite(comparisons=,domain_eq_check=)" [.list (cs.map cmpObj), predResultVal d] =
      .ok (suiteObj (mkSuite d cs)) := by
    intro d cs; rw [hsuite, C11_source_suite_init]; simp [Res.bind, C11_suite_obj_of_dict]
  simp only [predResultVal] at hs0 hs1
  simp only [Gen.c11oComparatorCallSrc]
  cases domainEq
  · orch_eval [hts, hsv, htc, hcv, comparatorVal, fdVal, hdom, predResultVal, hs0]
    simp [comparatorCall]
  · simp only [comparatorVal, fdVal] at hfind hfm hcm hms hmr hfl
    orch_eval [hts, hsv, htc, hcv, comparatorVal, fdVal, hdom, predResultVal, hfind, hfm, hcm, hms, hmr, hfl]
    rw [C11_comparisons_val, hs1]
    simp [comparatorCall]

/-- the VERDICT of a comparison: the truth value of the suite `__call__` returns is the model's verdict. -/
theorem C11_source_comparator_verdict (sel : Nat → Bool) (domainEq : Bool) (pred : Fld → Fld → Outcome)
    (src ref : List Fld) :
    Gen.c11FcSuiteBoolSrc.run noExt [suiteObj (comparatorCall sel domainEq pred src ref).suite] =
      .ok (.bool (comparatorCall sel domainEq pred src ref).suite.bool) :=
  C11_source_suite_obj_bool _

end Fc
