/-
  Property C10 — Equality predicates are reflexive, symmetric and monotone in the tolerances;
  a scaled tolerance `t*max` is t times the largest absolute value in either field.

  Model: `Fc.fuzzyCheck`, `Fc.exactCheck`, `Fc.defaultCheck`, `Fc.scaledTolerance`,
         `Fc.FuzzyObj` (FcModel/Predicates.lean)       Spec: `Fc.Spec.fuzzySpec`, `docFormula`
-/
import FcProofs.Lemmas.Laws
import FcProofs.Props.C01
import FcProofs.Props.C09
namespace Fc
open Spec

/-- well-formed array: as many entries as the shape says -/
def NdArr.wf (a : NdArr) : Prop := a.data.length = prodList a.shape

/-! ### reflexivity -/

/-- **C10 (reflexive, spec level).**  Whenever both tolerances are defined for `(a, a)` — numbers
    (including the zero defaults), per-component arrays, scaled tolerances on non-empty data —
    every array compares equal to itself. -/
theorem C10_refl_spec (rel abs : Tol) (a : NdArr)
    (hr : ∃ r, specTol f64 rel a a = some r) (ht : ∃ t, specTol f64 abs a a = some t) :
    fuzzySpec rel abs a a = some true := by
  obtain ⟨r, hr⟩ := hr
  obtain ⟨t, ht⟩ := ht
  unfold fuzzySpec
  have hc : shapesCompatible a.shape a.shape = true := by
    rw [shapesCompatible_iff]; exact Or.inl rfl
  simp only [hc, Bool.not_true, Bool.false_eq_true, if_false, ge_iff_le, Nat.le_refl, if_true]
  rw [hr, ht]
  simp only [Option.some.injEq, List.all_eq_true, List.mem_range]
  intro i _
  exact docFormula_refl f64 _ _ _

/-- **C10 (reflexive, model).**  float64 array, any number-valued tolerances ≥ 0 (incl. 0, 0) -/
theorem C10_refl (r t : Nat) (a : NdArr) (ha : a.dtype = .flt f64) :
    fuzzyCheck (.num r) (.num t) a a = .ok true := by
  have hyp : C01Hyp (.num r) (.num t) a a :=
    ⟨ha, ha, (by intro s us h; cases h), (by intro s us h; cases h)⟩
  rw [C01_model_eq_spec _ _ _ _ hyp, C10_refl_spec _ _ _ ⟨_, rfl⟩ ⟨_, rfl⟩]
  rfl

/-- the default relative tolerance (machine epsilon) and zero absolute tolerance -/
theorem C10_refl_default (a : NdArr) (ha : a.dtype = .flt f64) :
    fuzzyCheck .dflt (.num 0) a a = .ok true := by
  have hyp : C01Hyp .dflt (.num 0) a a :=
    ⟨ha, ha, (by intro s us h; cases h), (by intro s us h; cases h)⟩
  rw [C01_model_eq_spec _ _ _ _ hyp, C10_refl_spec _ _ _ ⟨_, rfl⟩ ⟨_, rfl⟩]
  rfl

/-- exact (and hence default-on-integers) equality is reflexive for every dtype -/
theorem C10_refl_exact (a : NdArr) : exactCheck a a = .ok true := by
  rw [C09_exact_on_floats]
  exact ⟨by rw [shapesCompatible_iff]; exact Or.inl rfl, rfl⟩

/-! ### symmetry -/

/-- **C10 (symmetric, spec level).**  The verdict does not depend on which array is the source
    and which the reference — for every tolerance kind (dynamic tolerances are symmetric
    functions of the two fields). -/
theorem C10_symm_spec (rel abs : Tol) (a b : NdArr) (hwa : a.wf) (hwb : b.wf) :
    fuzzySpec rel abs a b = fuzzySpec rel abs b a := by
  unfold fuzzySpec
  rw [shapesCompatible_symm b.shape a.shape]
  cases hc : shapesCompatible a.shape b.shape with
  | false => simp
  | true =>
    simp only [Bool.not_true, Bool.false_eq_true, if_false]
    have hl := longer_symm hc
    have hlen : a.data.length = b.data.length := by
      rw [hwa, hwb]; exact prodList_compatible hc
    rw [← hl, hlen]
    have e1 := specTol_symm f64 rel
      { a with shape := if a.shape.length ≥ b.shape.length then a.shape else b.shape }
      { b with shape := if a.shape.length ≥ b.shape.length then a.shape else b.shape } rfl
    have e2 := specTol_symm f64 abs
      { a with shape := if a.shape.length ≥ b.shape.length then a.shape else b.shape }
      { b with shape := if a.shape.length ≥ b.shape.length then a.shape else b.shape } rfl
    rw [e1, e2]
    cases specTol f64 rel
      { b with shape := if a.shape.length ≥ b.shape.length then a.shape else b.shape }
      { a with shape := if a.shape.length ≥ b.shape.length then a.shape else b.shape } with
    | none => rfl
    | some r =>
      cases specTol f64 abs
        { b with shape := if a.shape.length ≥ b.shape.length then a.shape else b.shape }
        { a with shape := if a.shape.length ≥ b.shape.length then a.shape else b.shape } with
      | none => rfl
      | some t =>
        refine congrArg some ?_
        rw [Bool.eq_iff_iff]
        simp only [List.all_eq_true, List.mem_range]
        constructor
        · intro h i hi; rw [docFormula_symm]; exact h i hi
        · intro h i hi; rw [docFormula_symm]; exact h i hi

/-- **C10 (symmetric, model).** -/
theorem C10_symm (rel abs : Tol) (a b : NdArr) (h : C01Hyp rel abs a b) (hwa : a.wf) (hwb : b.wf) :
    fuzzyCheck rel abs a b = fuzzyCheck rel abs b a := by
  cases hc : shapesCompatible a.shape b.shape with
  | false =>
    rw [C01_shape_reject rel abs a b hc]
    rw [C01_shape_reject rel abs b a (by rw [shapesCompatible_symm]; exact hc)]
  | true =>
    have h' : C01Hyp rel abs b a := by
      refine ⟨h.fb, h.fa, ?_, ?_⟩
      · rw [← longer_symm hc]; exact h.relShape
      · rw [← longer_symm hc]; exact h.absShape
    rw [C01_model_eq_spec _ _ _ _ h, C01_model_eq_spec _ _ _ _ h', C10_symm_spec rel abs a b hwa hwb]

theorem exactSpec_symm (a b : NdArr) : exactSpec a b = exactSpec b a := by
  unfold exactSpec
  rw [shapesCompatible_symm]
  congr 1
  cases h : a.data == b.data <;> cases h' : b.data == a.data <;> simp_all

/-- exact equality — and therefore the default predicate on integers/strings, for every
    signed/unsigned width — is symmetric -/
theorem C10_symm_exact (a b : NdArr) : exactCheck a b = exactCheck b a := by
  rw [C09_exact_is_spec, C09_exact_is_spec, exactSpec_symm]

theorem C10_symm_default_int (rel abs : Tol) (a b : NdArr)
    (ha : a.dtype.hasFloats = false) (hb : b.dtype.hasFloats = false) :
    defaultCheck rel abs a b = defaultCheck rel abs b a := by
  rw [C09_int_str_exact rel abs a b ha hb, C09_int_str_exact rel abs b a hb ha, exactSpec_symm]

/-! ### monotonicity -/

/-- **C10 (monotone).**  Enlarging tolerances — position by position, hence for scalar,
    per-component and dynamic tolerances alike — never turns a pass into a fail. -/
theorem C10_mono_spec (rel1 abs1 rel2 abs2 : Tol) (a b : NdArr) (r1 t1 r2 t2 : Nat → Nat)
    (shp : List Nat) (hshp : shp = if a.shape.length ≥ b.shape.length then a.shape else b.shape)
    (hr1 : specTol f64 rel1 { a with shape := shp } { b with shape := shp } = some r1)
    (ht1 : specTol f64 abs1 { a with shape := shp } { b with shape := shp } = some t1)
    (hr2 : specTol f64 rel2 { a with shape := shp } { b with shape := shp } = some r2)
    (ht2 : specTol f64 abs2 { a with shape := shp } { b with shape := shp } = some t2)
    (hr : ∀ i, r1 i ≤ r2 i) (ht : ∀ i, t1 i ≤ t2 i)
    (h : fuzzySpec rel1 abs1 a b = some true) : fuzzySpec rel2 abs2 a b = some true := by
  subst hshp
  unfold fuzzySpec at *
  cases hc : shapesCompatible a.shape b.shape with
  | false => simp [hc] at h
  | true =>
    simp only [hc, Bool.not_true, Bool.false_eq_true, if_false] at h ⊢
    rw [hr1, ht1] at h
    rw [hr2, ht2]
    simp only [Option.some.injEq, List.all_eq_true, List.mem_range] at h ⊢
    intro i hi
    exact docFormula_mono f64 _ _ (hr i) (ht i) (h i hi)

/-- model-level corollary for number-valued tolerances -/
theorem C10_mono (r1 t1 r2 t2 : Nat) (a b : NdArr) (ha : a.dtype = .flt f64) (hb : b.dtype = .flt f64)
    (hr : r1 ≤ r2) (ht : t1 ≤ t2) (h : fuzzyCheck (.num r1) (.num t1) a b = .ok true) :
    fuzzyCheck (.num r2) (.num t2) a b = .ok true := by
  have hyp : ∀ r t, C01Hyp (.num r) (.num t) a b := fun r t =>
    ⟨ha, hb, (by intro s us h; cases h), (by intro s us h; cases h)⟩
  rw [C01_model_eq_spec _ _ _ _ (hyp r1 t1)] at h
  rw [C01_model_eq_spec _ _ _ _ (hyp r2 t2)]
  have h1 : fuzzySpec (.num r1) (.num t1) a b = some true := by
    cases hs : fuzzySpec (.num r1) (.num t1) a b with
    | none => rw [hs] at h; simp [verdictOfSpec] at h
    | some v => rw [hs] at h; simp only [verdictOfSpec] at h; injection h with h; rw [h]
  have := C10_mono_spec (.num r1) (.num t1) (.num r2) (.num t2) a b
    (fun _ => r1) (fun _ => t1) (fun _ => r2) (fun _ => t2) _ rfl rfl rfl rfl rfl
    (fun _ => hr) (fun _ => ht) h1
  rw [this]; rfl

/-- a larger base of a scaled tolerance gives a larger resolved tolerance (one rounding, R1) -/
theorem C10_mono_scaled (F : Fmt) (m b1 b2 x y : Nat) (hb : b1 ≤ b2)
    (h1 : rndMag F (b1 * m) UNIT = some x) (h2 : rndMag F (b2 * m) UNIT = some y) : x ≤ y := by
  have := rndMag_mono F UNIT (Nat.mul_le_mul_right m hb)
  rw [h1, h2] at this
  simpa [leInf] using this

/-! ### scaled tolerance -/

theorem foldl_max_ge (l : List Int) (m : Nat) : m ≤ l.foldl (fun m x => max m x.natAbs) m := by
  induction l generalizing m with
  | nil => exact Nat.le_refl _
  | cons x xs ih => exact Nat.le_trans (Nat.le_max_left _ _) (ih _)

theorem foldl_max_bound (l : List Int) (m : Nat) :
    ∀ x ∈ l, x.natAbs ≤ l.foldl (fun m x => max m x.natAbs) m := by
  induction l generalizing m with
  | nil => intro x hx; cases hx
  | cons y ys ih =>
    intro x hx
    simp only [List.foldl_cons]
    rcases List.mem_cons.mp hx with rfl | hx
    · exact Nat.le_trans (Nat.le_max_right _ _) (foldl_max_ge ys _)
    · exact ih _ x hx

theorem foldl_max_attained (l : List Int) (m : Nat) :
    l.foldl (fun m x => max m x.natAbs) m = m ∨ ∃ x ∈ l, x.natAbs = l.foldl (fun m x => max m x.natAbs) m := by
  induction l generalizing m with
  | nil => exact Or.inl rfl
  | cons y ys ih =>
    simp only [List.foldl_cons]
    rcases ih (max m y.natAbs) with h | ⟨x, hx, hx'⟩
    · rw [h]
      rcases Nat.le_total m y.natAbs with hle | hle
      · right; exact ⟨y, List.mem_cons_self .., by rw [Nat.max_eq_right hle]⟩
      · left; exact Nat.max_eq_left hle
    · right; exact ⟨x, List.mem_cons_of_mem _ hx, hx'⟩

/-- `maxAbsUnits` is the largest absolute value occurring in the field -/
theorem C10_maxabs_is_max (a : NdArr) :
    (∀ x ∈ a.data, x.natAbs ≤ maxAbsUnits a) ∧
    (a.data ≠ [] → ∃ x ∈ a.data, x.natAbs = maxAbsUnits a) := by
  unfold maxAbsUnits
  refine ⟨foldl_max_bound a.data 0, ?_⟩
  intro hne
  rcases foldl_max_attained a.data 0 with h | h
  · cases hd : a.data with
    | nil => exact absurd hd hne
    | cons y ys =>
      refine ⟨y, List.mem_cons_self .., ?_⟩
      have hb := foldl_max_bound a.data 0 y (by rw [hd]; exact List.mem_cons_self ..)
      rw [hd] at h hb
      omega
  · exact h

/-- **C10 (scaled tolerance).**  `ScaledTolerance(t)(a, b)` is `t` times the largest absolute
    value occurring in either field, rounded once to binary64 (`none` = the product overflows). -/
theorem C10_scaled (base : Nat) (a b : NdArr) (ha : a.data ≠ []) (hb : b.data ≠ []) :
    scaledTolerance base a b = rndMag f64 (base * max (maxAbsUnits a) (maxAbsUnits b)) UNIT ∧
    (∀ x ∈ a.data ++ b.data, x.natAbs ≤ max (maxAbsUnits a) (maxAbsUnits b)) ∧
    (∃ x ∈ a.data ++ b.data, x.natAbs = max (maxAbsUnits a) (maxAbsUnits b)) := by
  refine ⟨?_, ?_, ?_⟩
  · unfold scaledTolerance
    have h1 : a.data.isEmpty = false := by cases h : a.data with | nil => exact absurd h ha | cons _ _ => rfl
    have h2 : b.data.isEmpty = false := by cases h : b.data with | nil => exact absurd h hb | cons _ _ => rfl
    simp [h1, h2]
  · intro x hx
    rcases List.mem_append.mp hx with hx | hx
    · exact Nat.le_trans ((C10_maxabs_is_max a).1 x hx) (Nat.le_max_left _ _)
    · exact Nat.le_trans ((C10_maxabs_is_max b).1 x hx) (Nat.le_max_right _ _)
  · obtain ⟨xa, hxa, hxa'⟩ := (C10_maxabs_is_max a).2 ha
    obtain ⟨xb, hxb, hxb'⟩ := (C10_maxabs_is_max b).2 hb
    rcases Nat.le_total (maxAbsUnits a) (maxAbsUnits b) with hle | hle
    · exact ⟨xb, List.mem_append_right _ hxb, by rw [Nat.max_eq_right hle]; exact hxb'⟩
    · exact ⟨xa, List.mem_append_left _ hxa, by rw [Nat.max_eq_left hle]; exact hxa'⟩

/-! ### the predicate object keeps no verdict-relevant state -/

/-- **C10 (history-free).**  For every history of evaluations on one predicate object — whatever
    `_last_used_*` values earlier evaluations left behind — the k-th verdict is the verdict of a
    fresh object with the same constructor tolerances. -/
theorem C10_history_free (o : FuzzyObj) (hist : List (NdArr × NdArr)) :
    o.history hist = hist.map fun p => fuzzyCheck o.rel o.abs p.1 p.2 := by
  induction hist generalizing o with
  | nil => rfl
  | cons p rest ih =>
    obtain ⟨a, b⟩ := p
    have hrel : (o.call a b).1.rel = o.rel := by
      unfold FuzzyObj.call; simp only; split <;> (try split) <;> rfl
    have habs : (o.call a b).1.abs = o.abs := by
      unfold FuzzyObj.call; simp only; split <;> (try split) <;> rfl
    show (let (o', v) := o.call a b; v :: FuzzyObj.history o' rest) = _
    rw [show o.call a b = ((o.call a b).1, (o.call a b).2) from rfl]
    simp only [List.map_cons]
    rw [ih (o.call a b).1, hrel, habs]
    rfl

end Fc
