/-
  Property C20 — the JUnit report agrees with the verdict.
-/
import FcModel.Spec.C20
namespace Fc
open Fc.Cli

/-- children of a test case per status, as read from the source -/
theorem C20_children_table :
    junitChildren .passed = [] ∧ junitChildren .failed = ["failure"] ∧
    junitChildren .error = ["failure", "error"] ∧ junitChildren .skipped = ["skipped"] := by decide

end Fc
