/-
  Property C20 — the JUnit report agrees with the verdict.
  Only property theorems live here; helper lemmas are in FcProofs/Lemmas/{Cli,Junit}.lean.

  Model:  `Fc.C04.junitElement`, `fileReport`, `dirReport`   (FcModel/Junit.lean)
  Spec:   `Fc.C04.Spec.countsOk`, `agrees`, `reportOk`, `expectedSkipped`, `unbacked`  (FcModel/Spec/C20.lean)

  FULL STATEMENT (not provable for the unchanged implementation — finding F5):

      theorem C20_agrees (pf) (s : Scenario) :
          Spec.reportOk ((fileReport pf s).1, (fileReport pf s).2.map fun j => [j]) = true

  i.e. a report is always written, and it shows a failure/error iff the exit status is non-zero.
  It fails exactly on the runs described by `C20_file_report_ok_iff` below: when no report can be
  written (exception caught by `_run`, rejected tolerance argument) and when the suite fails by its
  *own* status while none of its test cases does (read error, unequal domains, differing sequence
  lengths).  Negation witnesses: FcProofs/Witness/C20.lean.  What is proved instead:
  `C20_agrees_partial` (suites whose verdict derives from their tests), and the exact
  characterisation `C20_suite_agrees_iff` / `C20_file_report_ok_iff`.
-/
import FcProofs.Lemmas.Junit
namespace Fc
open Fc.C04

/-- **C20 (counts).**  For every suite — any number of tests of any statuses, with or without an
    explicit status — the attributes `tests`, `failures`, `errors`, `skipped` of the written
    element equal the numbers of its test cases of each kind. -/
theorem C20_counts (name : String) (s : Suite) : Spec.countsOk (junitElement name s) = true := by
  unfold Spec.countsOk
  rw [count_cases, count_cases, count_cases]
  simp only [junitElement, countAttr_tests, countAttr_failures, countAttr_errors, countAttr_skipped,
    List.length_map, kind_failure_iff, kind_error_iff, kind_skipped_iff, beq_self_eq_true, Bool.and_self]

/-- **C20 (one test case per reported comparison).**  The test cases are the suite's tests, in
    order, under their names. -/
theorem C20_case_per_test (name : String) (s : Suite) :
    (junitElement name s).cases.map (·.name) = s.tests.map (·.name) ∧
    (junitElement name s).cases.length = s.tests.length := by
  simp [junitElement, Function.comp_def]

/-- … and for a pair of data sets with equal domains every field of either side is reported
    exactly once: |cases| + |matched pairs| = |result fields| + |reference fields|
    (no hypothesis on the names). -/
theorem C20_case_per_field (o : Opts) (name : String) (src ref : List Field) :
    (junitElement name (toTestSuite o (compareFields o src ref))).cases.length
      + (findMatches src ref).1.length = src.length + ref.length := by
  obtain ⟨h1, h2⟩ := findMatches_length src ref
  have hsplit : ∀ (p : Field × Field → Bool) (l : List (Field × Field)),
      (l.filter p).length + (l.filter fun m => !p m).length = l.length := by
    intro p l
    induction l with
    | nil => rfl
    | cons x xs ih =>
      simp only [List.filter_cons]
      cases p x <;> simp <;> omega
  have := hsplit (fun m => o.selected m.1.name) (findMatches src ref).1
  simp only [junitElement, toTestSuite, compareFields, List.length_map, List.length_append]
  omega

/-- **C20 (one suite per file in directory mode).** -/
theorem C20_suite_per_file (pf : String → FloatLit) (d : DirScenario) :
    (dirSuites pf d).length =
      d.compared.length + d.missingSources.length + d.missingReferences.length +
      d.unsupported.length + d.discarded.length := by
  simp [dirSuites]
  omega

/-- every suite of a directory report has matching counts -/
theorem C20_dir_counts (pf : String → FloatLit) (d : DirScenario) (js : List JSuite)
    (h : (dirReport pf d).2 = some js) : js.all Spec.countsOk = true := by
  unfold dirReport at h
  split at h
  · simp only [Option.some.injEq] at h
    subst h
    simp [List.all_map, Function.comp_def, C20_counts]
  · cases h

/-- **C20 (a suite agrees with its verdict iff its failure is backed by a test case).**  For every
    suite that satisfies the invariant of the comparison code (`testsOk`: a passing suite has no
    failing test): the report element shows a failure/error iff the exit code derived from the
    suite is non-zero — *except* exactly when the suite is `unbacked` (falsy explicit status, no
    falsy test). -/
theorem C20_suite_agrees_iff (name : String) (su : Suite) (hinv : su.testsOk) :
    Spec.agrees (.exit (boolToExitCode su.bool)) [junitElement name su] = true ↔ Spec.unbacked su = false :=
  suite_agrees_iff name su hinv

/-- **C20 (agreement, partial).**  If the suite's verdict derives from its tests (no explicit
    status) the report shows a failure or an error iff the exit code is non-zero, and its counts
    match — for all tests. -/
theorem C20_agrees_partial (name : String) (ts : List Test) :
    Spec.reportOk (.exit (boolToExitCode (Suite.bool ⟨ts, none⟩)), some [junitElement name ⟨ts, none⟩]) = true := by
  unfold Spec.reportOk
  simp only [List.all_cons, List.all_nil, Bool.and_true, C20_counts, Bool.true_and]
  exact (C20_suite_agrees_iff name ⟨ts, none⟩ (testsOk_none ts)).mpr rfl

/-- **C20 (file mode: exactly when the report is right).**  For every scenario: the report of
    `fieldcompare file … --junit-xml` satisfies C20 iff a report is written and its suite is not
    `unbacked`.  (The complement is the class of finding F5.) -/
theorem C20_file_report_ok_iff (pf : String → FloatLit) (s : Scenario) :
    Spec.reportOk ((fileReport pf s).1, (fileReport pf s).2.map fun j => [j]) = true ↔
      ∃ su, (fileMode pf s).2 = some su ∧ Spec.unbacked su = false := by
  unfold fileReport fileMode
  cases ho : mkOpts pf s with
  | none => simp [Spec.reportOk]
  | some o =>
    simp only
    cases hc : runComparison o s with
    | exc =>
      have : (ExitOutcome.exit (boolToExitCode false) == ExitOutcome.exit 0) = false := by decide
      simp [Spec.reportOk, this]
    | suite su =>
      have hinv := runComparison_testsOk o s su hc
      simp only [Option.map_some, Spec.reportOk, List.all_cons, List.all_nil, Bool.and_true, C20_counts,
        Bool.true_and, Option.some.injEq, exists_eq_left']
      exact C20_suite_agrees_iff _ su hinv

/-- **C20 (file mode, partial: the good case).**  Both files readable, tolerance arguments
    accepted, a single pair of data sets of the same kind with equal domains: a report is written,
    its counts match and it shows a failure/error iff the exit code is non-zero. -/
theorem C20_file_agrees_partial (pf : String → FloatLit) (s : Scenario) (p : PairData)
    (hv : Spec.tokensValid pf false s.rtolToks = true ∧ Spec.tokensValid pf true s.atolToks = true)
    (hr : s.readRes = .ok ∧ s.readRef = .ok) (hp : s.payload = .single p)
    (hd : Spec.domainsEqual pf s p.dom = true) :
    Spec.reportOk ((fileReport pf s).1, (fileReport pf s).2.map fun j => [j]) = true := by
  rw [C20_file_report_ok_iff]
  unfold fileMode
  cases ho : mkOpts pf s with
  | none =>
    have := (mkOpts_none pf s).mp ho
    simp [hv.1, hv.2] at this
  | some o =>
    have hO := mkOpts_some pf s o ho
    simp only
    unfold runComparison
    simp only [hr.1, hr.2, hp]
    unfold compareFieldData
    cases hdom : p.dom with
    | mixedKinds => rw [hdom] at hd; simp [Spec.domainsEqual] at hd
    | tables n m =>
      rw [hdom] at hd
      simp only [Spec.domainsEqual, beq_iff_eq] at hd
      simp [hd, Spec.unbacked, toTestSuite]
    | meshes pr pq topo stor ms =>
      rw [hdom] at hd
      simp only [Spec.domainsEqual] at hd
      rw [← hO.disableReorder, ← hO.rtol, ← hO.atol] at hd
      simp [hd, Spec.unbacked, toTestSuite]

/-- **C20 (skipped entries are exactly the ignored / filtered fields).**  Single pair of data sets
    with equal domains and duplicate-free names: a name is reported as skipped iff it is a field
    missing on a side whose ignore flag is set, or a field on both sides that the patterns filter
    out. -/
theorem C20_skipped_exact (pf : String → FloatLit) (s : Scenario) (o : Opts) (ho : mkOpts pf s = some o)
    (p : PairData) (hs : (fnames p.res).Nodup) (hr : (fnames p.ref).Nodup) (name n : String) :
    n ∈ Spec.skippedNames (junitElement name (toTestSuite o (compareFields o p.res p.ref))) ↔
      n ∈ Spec.expectedSkipped s p := by
  have hO := mkOpts_some pf s o ho
  obtain ⟨i1, i2, i3⟩ := findMatches_char p.res p.ref hs hr
  rw [mem_skippedNames]
  simp only [compareFields, List.mem_append, List.mem_map, List.mem_filter, Spec.expectedSkipped]
  constructor
  · rintro ⟨c, hc, rfl, hsk⟩
    rcases hc with ((⟨m, ⟨_, _⟩, rfl⟩ | ⟨b, hb, rfl⟩) | ⟨a, ha, rfl⟩) | ⟨m, ⟨hm, hsel⟩, rfl⟩
    · exact absurd hsk (compared_not_skipped o _ _)
    · have hig := (missingSource_skipped o).mp hsk
      rw [hO.ignSrc] at hig
      left; left
      simp only [hig, if_true, List.mem_map, List.mem_filter, Bool.not_eq_true', List.any_eq_false,
        beq_iff_eq]
      obtain ⟨hb', hall⟩ := (i3 b).mp hb
      exact ⟨b, ⟨hb', fun a ha => hall a ha⟩, rfl⟩
    · have hig := (missingReference_skipped o).mp hsk
      rw [hO.ignRef] at hig
      left; right
      simp only [hig, if_true, List.mem_map, List.mem_filter, Bool.not_eq_true', List.any_eq_false,
        beq_iff_eq]
      obtain ⟨ha', hall⟩ := (i2 a).mp ha
      exact ⟨a, ⟨ha', fun b hb => hall b hb⟩, rfl⟩
    · right
      obtain ⟨a, b⟩ := m
      obtain ⟨ha, hb, he⟩ := (i1 a b).mp hm
      refine ⟨a, ⟨ha, ?_⟩, rfl⟩
      simp only [Bool.and_eq_true, List.any_eq_true, beq_iff_eq, Bool.not_eq_true']
      refine ⟨⟨b, hb, he⟩, ?_⟩
      rw [← selected_eq hO]
      simpa using hsel
  · rintro ((h | h) | ⟨a, ⟨ha, hcond⟩, rfl⟩)
    · cases hig : s.ignSrc with
      | false => simp [hig] at h
      | true =>
        simp only [hig, if_true, List.mem_map, List.mem_filter, Bool.not_eq_true', List.any_eq_false,
          beq_iff_eq] at h
        obtain ⟨b, ⟨hb, hall⟩, rfl⟩ := h
        refine ⟨(b.name, .missingSource), ?_, rfl, ?_⟩
        · left; left; right
          exact ⟨b, (i3 b).mpr ⟨hb, fun a ha => hall a ha⟩, rfl⟩
        · exact (missingSource_skipped o).mpr (by rw [hO.ignSrc]; exact hig)
    · cases hig : s.ignRef with
      | false => simp [hig] at h
      | true =>
        simp only [hig, if_true, List.mem_map, List.mem_filter, Bool.not_eq_true', List.any_eq_false,
          beq_iff_eq] at h
        obtain ⟨a, ⟨ha, hall⟩, rfl⟩ := h
        refine ⟨(a.name, .missingReference), ?_, rfl, ?_⟩
        · left; right
          exact ⟨a, (i2 a).mpr ⟨ha, fun b hb => hall b hb⟩, rfl⟩
        · exact (missingReference_skipped o).mpr (by rw [hO.ignRef]; exact hig)
    · simp only [Bool.and_eq_true, List.any_eq_true, beq_iff_eq, Bool.not_eq_true'] at hcond
      obtain ⟨⟨b, hb, he⟩, hsel⟩ := hcond
      refine ⟨(a.name, .filtered), ?_, rfl, by simp [parseStatus]⟩
      right
      refine ⟨(a, b), ⟨(i1 a b).mpr ⟨ha, hb, he⟩, ?_⟩, rfl⟩
      rw [selected_eq hO]
      simpa using hsel

/-- **C20 (directory mode, partial).**  If none of the *compared* pairs yields an `unbacked`
    suite (the dummy suites for missing / unsupported / filtered files never are), the report shows
    a failure or an error iff the exit code is non-zero, and all counts match. -/
theorem C20_dir_agrees_partial (pf : String → FloatLit) (d : DirScenario)
    (hv : Spec.tokensValid pf false d.rtolToks = true ∧ Spec.tokensValid pf true d.atolToks = true)
    (hbc : ∀ f ∈ d.compared, Spec.unbacked (dirFileSuite pf f).2 = false) :
    Spec.reportOk (dirReport pf d) = true := by
  have hinv := dirSuites_testsOk pf d
  have hb := dirSuites_backed pf d hbc
  have hr : parseTols pf false d.rtolToks ≠ .raised := fun h => by
    have := (parseTols_raised pf false d.rtolToks).mp h; rw [hv.1] at this; cases this
  have ha : parseTols pf true d.atolToks ≠ .raised := fun h => by
    have := (parseTols_raised pf true d.atolToks).mp h; rw [hv.2] at this; cases this
  unfold dirReport
  cases h1 : parseTols pf false d.rtolToks with
  | raised => exact absurd h1 hr
  | ok r er =>
    cases h2 : parseTols pf true d.atolToks with
    | raised => exact absurd h2 ha
    | ok a ea =>
      simp only [Spec.reportOk, List.all_map, Function.comp_def, C20_counts, List.all_eq_true, implies_true,
        Bool.true_and]
      -- agreement on the level of the whole report
      unfold Spec.agrees
      rw [exit_ne_zero, showsFailure_suites _ hinv hb]
      simp

end Fc
