/-
  Property C12 — Directory mode is the conjunction of file comparisons; every file accounted for.
  Only property theorems live here; helper lemmas are in FcProofs/Lemmas/DirMode.lean.

  Model:  `Fc.DirMode.run`  (FcModel/DirMode.lean — find_matches, _categorize_files with the Python list/set
                             operations, _do_file_comparisons, _add_unhandled_comparisons, exit code)
  Spec:   `Fc.DirMode.Spec.classify / suites / orphanCount / exitCode`  (FcModel/Spec/C12.lean — per-path decision)

  Quantification: ARBITRARY path type `α` with decidable equality, arbitrary walk lists `resPaths refPaths`
  (duplicate-free where stated: `os.walk` lists every file once), arbitrary filter tables `incl excl`, arbitrary
  support / mapping tables, arbitrary per-pair outcomes, both ignore flags. No bound on sizes anywhere.
-/
import FcProofs.Lemmas.DirMode
namespace Fc
open Fc.DirMode

section
variable {α : Type} [DecidableEq α]

/-- `find_matches` (first match, removal from the remaining reference list) on duplicate-free lists is
    (intersection, source-only, reference-only), each in the original order -/
theorem C12_find_matches {src ref : List α} (hs : src.Nodup) (hr : ref.Nodup) :
    (findMatches src ref).matched = src.filter (fun p => decide (p ∈ ref))
    ∧ (findMatches src ref).orphansSource = src.filter (fun p => !decide (p ∈ ref))
    ∧ (findMatches src ref).orphansReference = ref.filter (fun p => !decide (p ∈ src)) :=
  findMatches_nodup hs hr

/-- **Partition.** For duplicate-free walk lists the six categories of `_categorize_files`, put together, are
    duplicate-free as ONE list (so each category is duplicate-free and the categories are pairwise disjoint),
    they are a rearrangement of the distinct paths of the two trees, and they cover exactly
    `resPaths ∪ refPaths`. -/
theorem C12_partition {resPaths refPaths : List α} (incl excl supported mapped : α → Bool)
    (hs : resPaths.Nodup) (hr : refPaths.Nodup) :
    let c := categorize resPaths refPaths incl excl supported mapped
    c.all.Nodup
    ∧ c.all.Perm (Spec.distinctPaths resPaths refPaths)
    ∧ (∀ p, p ∈ c.filesToCompare ∨ p ∈ c.missingSources ∨ p ∈ c.missingReferences ∨ p ∈ c.unsupportedFiles
          ∨ p ∈ c.discardedFiles ∨ p ∈ c.discardedOrphanFiles ↔ p ∈ resPaths ∨ p ∈ refPaths) := by
  refine ⟨nodup_all incl excl supported mapped hs hr, all_perm incl excl supported mapped hs hr, ?_⟩
  intro p
  rw [← mem_all incl excl supported mapped hs hr]
  simp [Categories.all, Categories.reported]

/-- **Each category is the intended class.** The Python set differences of `_categorize_files` compute, for
    every path, exactly the class the per-path specification assigns (nothing is lost or doubled when the
    differences are taken). -/
theorem C12_categories_are_classes {resPaths refPaths : List α} (incl excl supported mapped : α → Bool)
    (hs : resPaths.Nodup) (hr : refPaths.Nodup) (p : α) :
    let c := categorize resPaths refPaths incl excl supported mapped
    let k := Spec.classify resPaths refPaths incl excl supported mapped p
    (p ∈ c.filesToCompare ↔ k = .compared)
    ∧ (p ∈ c.missingSources ↔ k = .missingSource)
    ∧ (p ∈ c.missingReferences ↔ k = .missingReference)
    ∧ (p ∈ c.unsupportedFiles ↔ k = .unsupported)
    ∧ (p ∈ c.discardedFiles ↔ k = .filtered)
    ∧ (p ∈ c.discardedOrphanFiles ↔ k = .orphanFiltered) :=
  ⟨mem_filesToCompare_iff_class incl excl supported mapped,
   mem_missingSources_iff_class incl excl supported mapped hs hr,
   mem_missingReferences_iff_class incl excl supported mapped hs hr,
   mem_unsupportedFiles_iff_class incl excl supported mapped,
   mem_discardedFiles_iff_class incl excl supported mapped,
   mem_discardedOrphanFiles_iff_class incl excl supported mapped hs hr⟩

/-- **Accounted for exactly once.** Every path found in either tree yields exactly one suite of the report or
    is counted exactly once among the discarded orphans — never both, never twice; a path in neither tree
    yields nothing. -/
theorem C12_accounted_once {resPaths refPaths : List α} (incl excl supported mapped : α → Bool)
    (fileOutcome : α → Outcome) (flags : Flags) (hs : resPaths.Nodup) (hr : refPaths.Nodup) (p : α) :
    let r := run resPaths refPaths incl excl supported mapped fileOutcome flags
    (r.suites.map (·.path)).count p + r.categories.discardedOrphanFiles.count p
      = if p ∈ resPaths ∨ p ∈ refPaths then 1 else 0 := by
  intro r
  have hn := nodup_all incl excl supported mapped hs hr
  have hm := @mem_all α _ resPaths refPaths incl excl supported mapped hs hr p
  have hc : (r.suites.map (·.path)).count p + r.categories.discardedOrphanFiles.count p
      = (categorize resPaths refPaths incl excl supported mapped).all.count p := by
    simp only [r, suites_paths, Categories.all, List.count_append]
    rfl
  rw [hc, hn.count]
  simp only [hm]

/-- **What is compared.** `files_to_compare` is exactly the set of paths that exist in both trees, pass the
    file filters and are supported or explicitly mapped (no hypothesis on the lists needed), and the suite of
    such a path is the outcome of the file comparison of that pair. -/
theorem C12_compared_set (resPaths refPaths : List α) (incl excl supported mapped : α → Bool)
    (fileOutcome : α → Outcome) (flags : Flags) (p : α) :
    let r := run resPaths refPaths incl excl supported mapped fileOutcome flags
    (p ∈ r.categories.filesToCompare
        ↔ p ∈ resPaths ∧ p ∈ refPaths ∧ incl p = true ∧ excl p = false ∧ (supported p = true ∨ mapped p = true))
    ∧ (p ∈ r.categories.filesToCompare →
        (⟨p, .compared (fileOutcome p), (fileOutcome p).status⟩ : Suite α) ∈ r.suites)
    ∧ (∀ s ∈ r.suites, ∀ o, s.kind = .compared o →
        s.path ∈ r.categories.filesToCompare ∧ o = fileOutcome s.path ∧ s.status = o.status) := by
  intro r
  refine ⟨?_, ?_, ?_⟩
  · have := @mem_filesToCompare α _ resPaths refPaths incl excl supported mapped p
    simp only [consider, Bool.and_eq_true, Bool.not_eq_true'] at this
    simpa [r, run, and_assoc] using this
  · intro hp
    simp only [r, suites_eq, List.mem_append, List.mem_map]
    exact Or.inl (Or.inl (Or.inl (Or.inl ⟨p, hp, rfl⟩)))
  · intro s hsm o ho
    simp only [r, suites_eq, List.mem_append, List.mem_map] at hsm
    rcases hsm with (((⟨q, hq, rfl⟩ | ⟨q, _, rfl⟩) | ⟨q, _, rfl⟩) | ⟨q, _, rfl⟩) | ⟨q, _, rfl⟩
    · simp only [Kind.compared.injEq] at ho
      subst ho
      exact ⟨hq, rfl, rfl⟩
    all_goals simp at ho

/-- **Exit code.** Directory mode exits with 0 if and only if every path that exists in both trees, is selected
    by the file filters and is supported or mapped passes its file comparison, and selected paths that exist in
    only one tree occur only on a side whose `--ignore-missing-*-files` flag is given. -/
theorem C12_exit_zero_iff {resPaths refPaths : List α} (incl excl supported mapped : α → Bool)
    (fileOutcome : α → Outcome) (flags : Flags) (hs : resPaths.Nodup) (hr : refPaths.Nodup) :
    (run resPaths refPaths incl excl supported mapped fileOutcome flags).exitCode = 0
      ↔ (∀ p, p ∈ resPaths → p ∈ refPaths → consider incl excl p = true → (supported p = true ∨ mapped p = true) →
            fileOutcome p = .pass)
        ∧ (flags.ignoreMissingSource = true
            ∨ ∀ p, p ∈ refPaths → p ∉ resPaths → consider incl excl p = false)
        ∧ (flags.ignoreMissingReference = true
            ∨ ∀ p, p ∈ resPaths → p ∉ refPaths → consider incl excl p = false) := by
  have h0 : (run resPaths refPaths incl excl supported mapped fileOutcome flags).exitCode = 0
      ↔ (run resPaths refPaths incl excl supported mapped fileOutcome flags).suites.all
          (fun s => s.status.toBool) = true := by
    simp only [run, boolToExitCode]
    split <;> simp_all
  rw [h0, all_suites_iff]
  have hA : (∀ p ∈ (categorize resPaths refPaths incl excl supported mapped).filesToCompare, fileOutcome p = .pass)
      ↔ (∀ p, p ∈ resPaths → p ∈ refPaths → consider incl excl p = true → (supported p = true ∨ mapped p = true) →
            fileOutcome p = .pass) := by
    simp only [mem_filesToCompare]
    exact ⟨fun h p a b c d => h p ⟨a, b, c, d⟩, fun h p ⟨a, b, c, d⟩ => h p a b c d⟩
  have hB : (categorize resPaths refPaths incl excl supported mapped).missingSources = []
      ↔ ∀ p, p ∈ refPaths → p ∉ resPaths → consider incl excl p = false := by
    rw [List.eq_nil_iff_forall_not_mem]
    simp only [mem_missingSources incl excl supported mapped hs hr]
    exact ⟨fun h p a b => by cases hc : consider incl excl p <;> simp_all,
           fun h p ⟨a, b, c⟩ => by simp [h p a b] at c⟩
  have hC : (categorize resPaths refPaths incl excl supported mapped).missingReferences = []
      ↔ ∀ p, p ∈ resPaths → p ∉ refPaths → consider incl excl p = false := by
    rw [List.eq_nil_iff_forall_not_mem]
    simp only [mem_missingReferences incl excl supported mapped hs hr]
    exact ⟨fun h p a b => by cases hc : consider incl excl p <;> simp_all,
           fun h p ⟨a, b, c⟩ => by simp [h p a b] at c⟩
  rw [hA, hB, hC]

/-- **No silent drop.** The number of suites of the report plus the reported "filtered out" count is the
    number of distinct paths found in the two trees. -/
theorem C12_no_silent_drop {resPaths refPaths : List α} (incl excl supported mapped : α → Bool)
    (fileOutcome : α → Outcome) (flags : Flags) (hs : resPaths.Nodup) (hr : refPaths.Nodup) :
    let r := run resPaths refPaths incl excl supported mapped fileOutcome flags
    r.suites.length + r.discardedOrphanCount = (Spec.distinctPaths resPaths refPaths).length
    ∧ (r.suites.map (·.path)).Nodup := by
  intro r
  have hp := (all_perm incl excl supported mapped hs hr).length_eq
  have hl : r.suites.length = (categorize resPaths refPaths incl excl supported mapped).reported.length := by
    rw [← suites_paths incl excl supported mapped fileOutcome flags, List.length_map]
  refine ⟨?_, ?_⟩
  · rw [hl, ← hp]
    simp [r, run, Categories.all]
  · rw [suites_paths]
    have := nodup_all incl excl supported mapped hs hr
    exact (List.nodup_append.mp this).1

/-- **Model = specification.** On duplicate-free walk lists the report, the "filtered out" count and the exit
    code of the modelled directory mode are those of the per-path specification (the report up to the order of
    the suites, which Python's sets leave unspecified). -/
theorem C12_model_eq_spec {resPaths refPaths : List α} (incl excl supported mapped : α → Bool)
    (fileOutcome : α → Outcome) (flags : Flags) (hs : resPaths.Nodup) (hr : refPaths.Nodup) :
    let r := run resPaths refPaths incl excl supported mapped fileOutcome flags
    r.suites.Perm (Spec.suites resPaths refPaths incl excl supported mapped fileOutcome flags)
    ∧ r.discardedOrphanCount = Spec.orphanCount resPaths refPaths incl excl supported mapped
    ∧ r.exitCode = Spec.exitCode resPaths refPaths incl excl supported mapped fileOutcome flags := by
  intro r
  refine ⟨suites_perm_spec incl excl supported mapped fileOutcome flags hs hr,
    orphanCount_eq_spec incl excl supported mapped fileOutcome flags hs hr, ?_⟩
  have hz := C12_exit_zero_iff incl excl supported mapped fileOutcome flags hs hr
  have hspec : Spec.exitZero resPaths refPaths incl excl supported mapped fileOutcome flags = true
      ↔ (∀ p, p ∈ resPaths → p ∈ refPaths → consider incl excl p = true → (supported p = true ∨ mapped p = true) →
            fileOutcome p = .pass)
        ∧ (flags.ignoreMissingSource = true
            ∨ ∀ p, p ∈ refPaths → p ∉ resPaths → consider incl excl p = false)
        ∧ (flags.ignoreMissingReference = true
            ∨ ∀ p, p ∈ resPaths → p ∉ refPaths → consider incl excl p = false) := by
    simp only [Spec.exitZero, Bool.and_eq_true, Bool.or_eq_true, List.all_eq_true, Bool.not_eq_true',
      decide_eq_true_eq, beq_iff_eq, and_assoc]
    grind
  have hcode : ∀ n : Nat, (r.exitCode = 0 ∨ r.exitCode = 1) := by
    intro _
    simp only [r, run, boolToExitCode]
    split <;> simp
  unfold Spec.exitCode
  by_cases hb : Spec.exitZero resPaths refPaths incl excl supported mapped fileOutcome flags = true
  · simp only [hb, if_true]
    exact hz.mpr (hspec.mp hb)
  · simp only [hb]
    rcases hcode 0 with h | h
    · exact absurd (hspec.mpr (hz.mp h)) hb
    · simpa using h

end
end Fc
