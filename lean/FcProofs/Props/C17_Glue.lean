/-
  Property C17, glue part — the hand-over hypotheses of `C17_pad_equal` / `C17_pad_equal_spec`
  (`hpts`, `hcells`, `hfields`: reflexivity of the points predicate, of the cell stage of
  `mesh_equal` and of the field predicate on the padded copy's arrays) DISCHARGED for the concrete
  predicates the comparator uses:

    points   `FuzzyEquality(rel, abs)` = `Fc.fuzzyCheck (.num rel) (.num abs)` on the (n, dim) float64
             coordinate array                      — `C10_refl` (property C10)
    cells    `ExactEquality` on the row-wise sorted corner arrays, per type block, after the
             type-set check = `Fc.C03.cellsEqual` (C03's line-by-line model of `mesh_equal`)
                                                   — `C10_refl_exact` block by block (`Glue.cellsEqual_self`)
    fields   `DefaultEquality(frel, fabs)` = `Fc.defaultCheck frel fabs`, each tolerance a number or
             the default functor (so `DefaultEquality()` = `defaultCheck .dflt (.num 0)` is included)
                                                   — `Glue.defaultCheck_refl`

  Dtype coverage of the field part: EVERY dtype of the model — float64 (= `C10_refl`,
  `C10_refl_default`), float32 / float16 (same argument, `Glue.fuzzyCheck_refl_flt`), signed and
  unsigned integers of every width and strings (`C10_refl_exact`; `DefaultEquality` takes the exact
  path when neither side has floats, C09).  Since both operands are the same array there are no
  mixed-dtype pairs.  NOT covered: array-valued and `ScaledTolerance` tolerances (the latter raise
  on empty arrays, so reflexivity would need non-emptiness), NaN / inf entries (outside the value model).

  Model:  `Fc.compareDimMatch`, `Fc.runComparison` (FcModel/Extend.lean) with the domain check
          `Fc.Glue.meshEqualB rel abs` = C03's `meshEqualWith rel abs · · == .ok true`.
-/
import FcProofs.Lemmas.GlueC17
namespace Fc
open Spec

/-- **C17 (a data set equals its zero-padded copy, either role) — end to end.**
    `g = extend_space_dimension_to(sd, f)`, `dim f < sd`, matching enabled.  The comparator
    (`compareDimMatch`) run with the modelled `mesh_equal` (C03: fuzzy points, type sets, exact
    sorted corners) as domain check and `DefaultEquality(frel, fabs)` on the matched fields
    answers PASS for `(f, g)` and for `(g, f)` — for all mesh tolerances `rel`, `abs`, all field
    tolerances that are numbers or the default, all field dtypes, whatever the later rungs
    (`rest`) would do.  No reflexivity hypothesis left. -/
theorem C17_pad_equal_full (rel abs : Nat) (frel fabs : Tol)
    (hfr : Glue.SimpleTol frel) (hfa : Glue.SimpleTol fabs)
    (rest : MeshFields → MeshFields → Bool) (f g : MeshFields) (sd : Nat)
    (hlt : f.mesh.dim < sd) (hg : extendSpaceDim sd f = some g) :
    compareDimMatch (runComparison (Glue.meshEqualB rel abs) (defaultCheck frel fabs)) rest false f g
      = some true ∧
    compareDimMatch (runComparison (Glue.meshEqualB rel abs) (defaultCheck frel fabs)) rest false g f
      = some true := by
  rw [← Glue.domainEqual_eq_meshEqualB]
  exact C17_pad_equal rel abs Glue.cellStage (defaultCheck frel fabs) rest f g sd hlt hg
    (C10_refl rel abs g.mesh.pointsArr rfl)
    (Glue.cellStage_self g.mesh)
    (fun p _ => Glue.defaultCheck_refl frel fabs hfr hfa p.2)

/-- the instance `DefaultEquality()` (relative tolerance = machine epsilon of the dtype, absolute
    tolerance 0.0): what `MeshFieldsComparator` uses when the caller passes no predicate selector -/
theorem C17_pad_equal_full_default (rel abs : Nat)
    (rest : MeshFields → MeshFields → Bool) (f g : MeshFields) (sd : Nat)
    (hlt : f.mesh.dim < sd) (hg : extendSpaceDim sd f = some g) :
    compareDimMatch (runComparison (Glue.meshEqualB rel abs) (defaultCheck .dflt (.num 0))) rest false f g
      = some true ∧
    compareDimMatch (runComparison (Glue.meshEqualB rel abs) (defaultCheck .dflt (.num 0))) rest false g f
      = some true :=
  C17_pad_equal_full rel abs .dflt (.num 0) (Or.inl rfl) (Or.inr ⟨0, rfl⟩) rest f g sd hlt hg

/-- the same against the entry-wise specification of the padded copy (`Spec.paddedCopy`, via
    `C08_extend`): well-formed `f`, fields whose component count fits the mesh dimension -/
theorem C17_pad_equal_spec_full (rel abs : Nat) (frel fabs : Tol)
    (hfr : Glue.SimpleTol frel) (hfa : Glue.SimpleTol fabs)
    (rest : MeshFields → MeshFields → Bool) (f g : MeshFields) (sd : Nat) (hwf : WFP f)
    (hp : ∀ pf ∈ f.pointFields, NoUnitAxis f.mesh.dim sd pf.values)
    (hc : ∀ cf ∈ f.cellFields, NoUnitAxis f.mesh.dim sd cf.values)
    (hlt : f.mesh.dim < sd) (hg : paddedCopy sd f = some g) :
    compareDimMatch (runComparison (Glue.meshEqualB rel abs) (defaultCheck frel fabs)) rest false f g
      = some true ∧
    compareDimMatch (runComparison (Glue.meshEqualB rel abs) (defaultCheck frel fabs)) rest false g f
      = some true :=
  C17_pad_equal_full rel abs frel fabs hfr hfa rest f g sd hlt
    (by rw [C08_extend f hwf sd hp hc]; exact hg)

/-- **C17 (the domain check of the dimension rung is C03's `mesh_equal`).**  `domainEqual` of
    FcModel/Extend.lean (points stage, then a cell-stage parameter) instantiated with C03's cell
    stage coincides with C03's `meshEqualWith` — so the disabled-case theorems (`C17_disabled*`,
    stated over `domainEqual … cellsEq` for every `cellsEq`) speak about the modelled `mesh_equal` too. -/
theorem C17_domain_check_is_mesh_equal (rel abs : Nat) (a b : Mesh) :
    domainEqual rel abs Glue.cellStage a b = (C03.meshEqualWith rel abs a b == .ok true) :=
  Glue.domainEqual_eq_meshEqualWith rel abs a b

/-- disabled matching, end to end: with C03's `mesh_equal` as domain check, meshes of different
    space dimension fail the first run, nothing is extended, and the verdict is left to `rest` -/
theorem C17_disabled_full (rel abs : Nat) (pred : NdArr → NdArr → Verdict)
    (rest : MeshFields → MeshFields → Bool) (s r : MeshFields) (h : s.mesh.dim ≠ r.mesh.dim) :
    C03.meshEqualWith rel abs s.mesh r.mesh = .ok false ∧
    compareDimMatch (runComparison (Glue.meshEqualB rel abs) pred) rest true s r = some (rest s r) := by
  constructor
  · have hp := C17_disabled rel abs s.mesh r.mesh h
    unfold pointsEqual at hp
    unfold C03.meshEqualWith
    have e1 : C03.pointArr s.mesh = s.mesh.pointsArr := rfl
    have e2 : C03.pointArr r.mesh = r.mesh.pointsArr := rfl
    rw [e1, e2]
    -- the points stage answers `ok false` (shape rule), not an error
    have hs : shapesCompatible s.mesh.pointsArr.shape r.mesh.pointsArr.shape = false := by
      cases hc : shapesCompatible s.mesh.pointsArr.shape r.mesh.pointsArr.shape with
      | false => rfl
      | true =>
        exfalso
        rcases (shapesCompatible_iff _ _).mp hc with h1 | h1 | h1
        · simp [Mesh.pointsArr] at h1; exact h h1.2
        · have := congrArg List.length h1; simp [Mesh.pointsArr] at this
        · have := congrArg List.length h1; simp [Mesh.pointsArr] at this
    rw [C01_shape_reject _ _ _ _ hs]
  · rw [← Glue.domainEqual_eq_meshEqualB]
    exact C17_disabled_no_extension rel abs Glue.cellStage pred rest s r h

end Fc
