/-
  FcProofs.Props.C09_Orchestration — C09, phase 6 round 7: which tolerances reach `DefaultEquality` is decided by
  `FileComparison._select_predicate`; `C04_source_select_predicate` (Props/C04_Orchestration.lean, module pylite_c04_orch owned by C04 and
  C09) is re-stated here so that a change of that source breaks C09's obligations as well.
-/
import FcProofs.Props.C04_Orchestration
namespace Fc
open PyLite PyLite.Cli C04

/-- `C04_source_select_predicate`, re-exported for C09 -/
theorem C09_source_select_predicate {X : Ext} {ov dfltV : Val} {akvs rkvs : List (Val × Val)} {o : Opts}
    (hX : SelExt X ov dfltV akvs rkvs o) (name : String) (resRest : Val) (refV : Val) :
    Gen.c04oSelectPredicateSrc.run X [fcSelfV ov, .record [("name", .str name), ("values", resRest)], refV] =
      .ok (.record [("abs_tol", tolArgV dfltV (absTolOf (o.atol.get name))),
                    ("rel_tol", tolArgV dfltV (relTolOf (o.rtol.get name)))]) :=
  C04_source_select_predicate hX name resRest refV

end Fc
