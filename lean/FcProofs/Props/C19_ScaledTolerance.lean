/-
  FcProofs.Props.C19_ScaledTolerance — C19, phase 6 round 9: history-freeness of comparisons assumes that evaluating a `ScaledTolerance`
  writes nothing on the object; `C10_source_scaled_tolerance_call` (Props/C10_Orchestration.lean, module pylite_c10_orch owned by C10 and
  C19) is re-stated here so that a change of that source breaks C19's obligations as well.
-/
import FcProofs.Props.C10_Orchestration
namespace Fc
open PyLite

/-- `C10_source_scaled_tolerance_call`, re-exported for C19 (the part C19 needs: `self` is left exactly as it was) -/
theorem C19_source_scaled_tolerance_call {X : Ext} {asA : Val → Val} {dflt : Val → Val → Val} {maxAbs : Val → Int} {maxEl : Val → Val}
    {sel mul : Val → Val → Val} (hX : C10.ScaledExt X asA dflt maxAbs maxEl sel mul) (base comp a b : Val) (t : Bool)
    (hcomp : comp.truthy = .ok t) :
    Gen.c10oScaledCallSrc.runSelf X [C10.scaledSelfV base comp, a, b] =
      .ok (if t then mul (sel (maxEl a) (maxEl b)) base
           else mul (if isNone base then asA (dflt a b) else base)
                  (.int (if maxAbs a < maxAbs b then maxAbs b else maxAbs a)),
           [], C10.scaledSelfV base comp) :=
  C10_source_scaled_tolerance_call hX base comp a b t hcomp

end Fc
