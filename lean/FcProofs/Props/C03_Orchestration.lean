/-
  FcProofs.Props.C03_Orchestration — C03, phase 6 round 2: the retry ladder `MeshFieldsComparator.__call__`, which C03's
  model runs its meshes through, tied to the source text by TRANSLATION.  The theorem is `C02_source_ladder`
  (Props/C02_Orchestration.lean, translated body `Fc.Gen.c02oLadderCallSrc`, module pylite_c02_orch owned by C02, C03, C17,
  C19); it is re-stated here so that a change of the ladder's source breaks C03's obligations as well.
-/
import FcProofs.Props.C02_Orchestration

namespace Fc
open PyLite PyLite.C11O PyLite.C02O C02

/-- `C02_source_ladder`, re-exported for C03: the translated `MeshFieldsComparator.__call__` is the abstract ladder
    `ladderAbs` for all operations, flags and inputs (suite, messages, final `self._source` / `self._reference`). -/
theorem C03_source_ladder {σ R : Type} {X : Ext} {ops : Ops σ R} {P : Pres σ R} {fl : LadderFlags}
    {selV cbV rcbV smV : Val} (hX : LadderExt X ops P fl selV cbV rcbV smV)
    (selArg cbArg : Val) (hselA : OrDefault X selArg "closure#0" selV)
    (hcbA : OrDefault X cbArg "DefaultFieldComparisonCallback" cbV) (s r : σ) :
    Gen.c02oLadderCallSrc.runSelf X [selfV ops P fl s r, selArg, cbArg, rcbV] =
      ladderObs ops P fl (ladderAbs ops fl s r) :=
  C02_source_ladder hX selArg cbArg hselA hcbA s r

end Fc
