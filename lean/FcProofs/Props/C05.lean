/-
  Property C05 — VTK reading is independent of the file's encoding.
  Only property theorems live here; helper lemmas are in FcProofs/Lemmas/{Base64,VtkBytes,VtkRead,VtuLayout}.

  Model (reader):  `Fc.readArray`, `Fc.noCompRead`, `Fc.compRead`, `Fc.itemsLE`, `Fc.asciiRead`,
                   `Fc.b64decodeLenient`, `Fc.vtuLayout`, `Fc.splitCellData`      (FcModel/{Base64,VtkArray,VtuLayout}.lean)
  Spec (writer):   `Fc.Spec.encodeArray`, `Fc.Spec.asciiTokens`, `Fc.Spec.vtuArrays`, `Fc.Spec.vtuContent`
                   — what "the logical content of the file" means for every encoding configuration.
  The codec is a parameter: `compress` of the writer, `decompress` of the reader, related only by the
  hypothesis `decompress (compress b) B = some b` on the blocks that occur.
-/
import FcProofs.Lemmas.VtkRead
import FcProofs.Lemmas.VtuLayout
import FcProofs.Lemmas.VtkAppendix
namespace Fc
open Spec

/-- **C05 (base64).**  Python's lenient `b64decode` applied to the encoding of `x` followed by ANY
    text `rest` (further base64 chunks of an appendix, whitespace, …): if `x` is not a multiple of 3
    bytes long the padding stops the decoder and the result is exactly `x`; otherwise the decoder
    runs on into `rest` and the result is `x` followed by the decoding of `rest`.  All lengths. -/
theorem C05_b64_roundtrip (x rest : List Nat) (hx : IsBytes x) :
    b64decodeLenient (b64encode x ++ rest) =
      if x.length % 3 = 0 then (b64decodeLenient rest).map (x ++ ·) else some x :=
  b64_roundtrip_loop x hx rest

/-- corollary: a concatenation of base64 chunks (an appendix) always decodes, and the result starts
    with the first chunk's bytes -/
theorem C05_b64_chunks (x : List Nat) (hx : IsBytes x) (chunks : List (List Nat))
    (hc : ∀ c ∈ chunks, IsBytes c) :
    ∃ t, b64decodeLenient (b64encode x ++ (chunks.map b64encode).flatten) = some (x ++ t) := by
  have hdec : ∀ cs : List (List Nat), (∀ c ∈ cs, IsBytes c) →
      ∃ r, b64decodeLenient (cs.map b64encode).flatten = some r := by
    intro cs
    induction cs with
    | nil => intro _; exact ⟨[], by simp [b64decodeLenient, b64decLoop]⟩
    | cons c cs ih =>
      intro h
      obtain ⟨r, hr⟩ := ih (fun d hd => h d (by simp [hd]))
      simp only [List.map_cons, List.flatten_cons]
      rw [C05_b64_roundtrip c _ (h c (by simp)), hr]
      by_cases h3 : c.length % 3 = 0
      · exact ⟨c ++ r, by simp [h3]⟩
      · exact ⟨c, by simp [h3]⟩
  obtain ⟨r, hr⟩ := hdec chunks hc
  rw [C05_b64_roundtrip x _ hx, hr]
  by_cases h3 : x.length % 3 = 0
  · exact ⟨r, by simp [h3]⟩
  · exact ⟨[], by simp [h3]⟩

/-- **C05 (encoded_bytes).**  The expression TRANSLATED from the source text of
    `Base64Encoder.encoded_bytes` (`FcGen/Tables.lean`, regenerated on every run) is the length of
    the base64 text of `n` bytes, for all `n`; `NoEncoder.encoded_bytes` is the identity. -/
theorem C05_encoded_bytes (x : List Nat) :
    Gen.encodedBytesB64 x.length = ((b64encode x).length : Int) ∧ Gen.encodedBytesRaw x.length = (x.length : Int) := by
  constructor
  · have h := encodedBytesB64_eq x.length
    rw [b64encode_length]
    have hnn : 0 ≤ Gen.encodedBytesB64 x.length := by
      unfold Gen.encodedBytesB64
      try simp only [Int.fdiv_eq_ediv_of_nonneg _ (show (0 : Int) ≤ 3 by decide)]
      omega
    omega
  · rfl

/-- the ten VTK numeric types of the source's `_VTK_TYPE_TO_DTYPE` table are the standard ones
    (name, integer/unsigned/float, item size) -/
theorem C05_type_table :
    Gen.vtkTypes = [("Int8", "i", 1), ("Int16", "i", 2), ("Int32", "i", 4), ("Int64", "i", 8),
      ("UInt8", "u", 1), ("UInt16", "u", 2), ("UInt32", "u", 4), ("UInt64", "u", 8),
      ("Float32", "f", 4), ("Float64", "f", 8)] := by decide

/-- **C05 (uncompressed).**  For every payload (any length that fits the header type), header
    encoded jointly with the data or separately, any header item size `hs > 0` (4: UInt32, 8: UInt64),
    both byte orders, base64 or raw, and ANY following decodable text `rest` (the other arrays of an
    appendix; `[]` for inline arrays): `NoCompressor` returns exactly the payload. -/
theorem C05_uncompressed (c : ReadCfg) (joint : Bool) (p rest r : List Nat)
    (hp : IsBytes p) (hfit : p.length < 256 ^ c.hs) (hr : c.enc.decode rest = some r) :
    noCompRead c.hs c.bo c.enc (encodeUncompressed c.enc c.hs c.bo joint p ++ rest) = some p := by
  cases joint
  · exact noCompRead_separate c.encLaws c.hs c.bo p rest r hp hfit hr
  · exact noCompRead_joint c.encLaws c.hs c.bo p rest r hp hfit hr

/-- the hypothesis on `rest` holds for every appendix: raw — anything; base64 — any concatenation
    of base64 chunks -/
theorem C05_rest_decodable (c : ReadCfg) (chunks : List (List Nat)) (hc : ∀ x ∈ chunks, IsBytes x) :
    ∃ r, c.enc.decode (chunks.map c.enc.encode).flatten = some r := by
  induction chunks with
  | nil => exact ⟨[], c.encLaws.decNil⟩
  | cons x xs ih =>
    obtain ⟨r, hr⟩ := ih (fun d hd => hc d (by simp [hd]))
    obtain ⟨t, ht⟩ := c.encLaws.dec' x _ r (hc x (by simp)) hr
    exact ⟨x ++ t, by simpa using ht⟩

/-- **C05 (compressed).**  Any block size `B > 0`, any number of blocks including none (`p = []`)
    and a partial last block, any codec with `decompress (compress b) B = b` on the occurring blocks,
    header words fitting the header type, base64 or raw, both byte orders, ANY text behind the array:
    header parse, block offsets, decompression and concatenation return the payload. -/
theorem C05_compressed (c : ReadCfg) (hpos : 0 < c.hs) (B : Nat) (hB : 0 < B)
    (compress : List Nat → List Nat) (decompress : List Nat → Nat → Option (List Nat)) (p rest : List Nat)
    (hc : ∀ b ∈ chunks B p, IsBytes (compress b))
    (hd : ∀ b ∈ chunks B p, decompress (compress b) B = some b)
    (hfitB : B < 256 ^ c.hs) (hfitN : (chunks B p).length < 256 ^ c.hs)
    (hfitC : (((chunks B p).map compress).flatten).length < 256 ^ c.hs) :
    compRead c.hs c.bo c.enc decompress (encodeCompressed c.enc c.hs c.bo B compress p ++ rest) = some p :=
  compRead_encode c.encLaws c.hs hpos c.bo B hB compress decompress p rest hc hd hfitB hfitN hfitC

/-- **C05 (items).**  Byte order and item grouping: the file-order bytes of logical items of `sz`
    bytes are regrouped and swapped back to the logical little-endian items, for every item size and
    both byte orders. -/
theorem C05_items (bo : ByteOrder) (sz : Nat) (hsz : 0 < sz) (items : List Nat) (hd : items.length % sz = 0) :
    itemsLE bo sz (toFileOrder bo sz items) = some items :=
  itemsLE_toFileOrder bo sz hsz items hd

/-- well-formedness of a (configuration, array) pair: everything fits the header type and the codec
    parameter pair is an inverse pair on the blocks that occur -/
structure C05Hyp (w : WriteCfg) (compress : List Nat → List Nat) (decompress : List Nat → Nat → Option (List Nat))
    (sz : Nat) (items : List Nat) : Prop where
  hs_pos : 0 < w.rc.hs
  sz_pos : 0 < sz
  whole : items.length % sz = 0
  bytes : IsBytes items
  fitLen : items.length < 256 ^ w.rc.hs
  comp : w.rc.compressed = true →
    0 < w.blockSize ∧ w.blockSize < 256 ^ w.rc.hs ∧
    (∀ b ∈ chunks w.blockSize (toFileOrder w.rc.bo sz items), IsBytes (compress b)) ∧
    (∀ b ∈ chunks w.blockSize (toFileOrder w.rc.bo sz items), decompress (compress b) w.blockSize = some b) ∧
    (chunks w.blockSize (toFileOrder w.rc.bo sz items)).length < 256 ^ w.rc.hs ∧
    (((chunks w.blockSize (toFileOrder w.rc.bo sz items)).map compress).flatten).length < 256 ^ w.rc.hs

/-- **C05 (one array, whole matrix).**  For every configuration `w` of
    {base64, raw} × {uncompressed joint/separate, compressed with any block size} × header size ×
    byte order, every item size, every logical array and every decodable text behind it:
    the model reader returns exactly the logical items. -/
theorem C05_array (w : WriteCfg) (compress : List Nat → List Nat) (decompress : List Nat → Nat → Option (List Nat))
    (sz : Nat) (items rest r : List Nat) (h : C05Hyp w compress decompress sz items)
    (hr : w.rc.enc.decode rest = some r) :
    readArray w.rc decompress sz (encodeArray w compress sz items ++ rest) = some items := by
  have hpl := toFileOrder_length w.rc.bo sz h.sz_pos items
  have hpb := toFileOrder_isBytes w.rc.bo sz h.sz_pos items h.bytes
  unfold readArray readPayload encodeArray encodePayload
  cases hcomp : w.rc.compressed
  · simp only [Bool.false_eq_true, if_false]
    rw [C05_uncompressed w.rc w.joint _ rest r hpb (by rw [hpl]; exact h.fitLen) hr]
    simp only [Option.bind_eq_bind, Option.bind_some]
    exact C05_items w.rc.bo sz h.sz_pos items h.whole
  · obtain ⟨hB, hfB, hc, hd, hN, hC⟩ := h.comp hcomp
    simp only [if_true]
    rw [C05_compressed w.rc h.hs_pos w.blockSize hB compress decompress _ rest hc hd hfB hN hC]
    simp only [Option.bind_eq_bind, Option.bind_some]
    exact C05_items w.rc.bo sz h.sz_pos items h.whole

/-- **C05 (independence, corollary).**  Two files that store the same logical array under ANY two
    configurations (and codecs, and neighbours in the appendix) read to the same items. -/
theorem C05_independent (w₁ w₂ : WriteCfg) (c₁ c₂ : List Nat → List Nat)
    (d₁ d₂ : List Nat → Nat → Option (List Nat)) (sz : Nat) (items rest₁ rest₂ r₁ r₂ : List Nat)
    (h₁ : C05Hyp w₁ c₁ d₁ sz items) (h₂ : C05Hyp w₂ c₂ d₂ sz items)
    (hr₁ : w₁.rc.enc.decode rest₁ = some r₁) (hr₂ : w₂.rc.enc.decode rest₂ = some r₂) :
    readArray w₁.rc d₁ sz (encodeArray w₁ c₁ sz items ++ rest₁)
      = readArray w₂.rc d₂ sz (encodeArray w₂ c₂ sz items ++ rest₂) := by
  rw [C05_array w₁ c₁ d₁ sz items rest₁ r₁ h₁ hr₁, C05_array w₂ c₂ d₂ sz items rest₂ r₂ h₂ hr₂]

/-- **C05 (appended data).**  Array number `i` of an appendix built by concatenating the encodings
    of arbitrary arrays is found at the cumulative offset and reads to its items, whatever the other
    arrays are (uncompressed or compressed; for base64 every array is its own padded chunk). -/
theorem C05_appended (w : WriteCfg) (compress : List Nat → List Nat) (decompress : List Nat → Nat → Option (List Nat))
    (sz : Nat) (items : List Nat) (before after : List (List Nat)) (ha : ∀ x ∈ after, IsBytes x)
    (h : C05Hyp w compress decompress sz items) :
    readArray w.rc decompress sz
      (appendixGet ((before.map w.rc.enc.encode).flatten ++ encodeArray w compress sz items
        ++ (after.map w.rc.enc.encode).flatten) ((before.map w.rc.enc.encode).flatten).length) = some items := by
  obtain ⟨r, hr⟩ := C05_rest_decodable w.rc after ha
  unfold appendixGet
  rw [List.append_assoc, List.drop_left' rfl]
  exact C05_array w compress decompress sz items _ r h hr

/-- **C05 (ascii).**  Token level: the decimal tokens of the items (two's complement for the signed
    types) are stored back into the same little-endian bytes. -/
theorem C05_ascii (signed : Bool) (sz : Nat) (hsz : 0 < sz) (items : List Nat) (hb : IsBytes items)
    (hd : items.length % sz = 0) : asciiRead sz (asciiTokens signed sz items) = items :=
  asciiRead_asciiTokens signed sz hsz items hb hd

/-- **C05 (VTU cell layout).**  For logical cells in file order (types may interleave) whose corner
    count is the same within each type: decoding the flat `connectivity / offsets / types` arrays
    yields, per occurring type in ascending order, exactly its cells in file order and their
    positions; every cell-data array is split along the same positions. -/
theorem C05_vtu_layout (cs : List (Nat × List Nat))
    (hom : ∀ a ∈ cs, ∀ b ∈ cs, a.1 = b.1 → a.2.length = b.2.length) :
    vtuLayout (vtuArrays cs).1 (vtuArrays cs).2.1 (vtuArrays cs).2.2 = some (vtuContent cs) :=
  vtuLayout_vtuArrays cs hom

theorem C05_cell_data {α} (cs : List (Nat × List Nat)) (vals : List α) (hl : vals.length = cs.length) :
    splitCellData vals (vtuContent cs) = some (cellDataContent cs vals) :=
  splitCellData_content cs vals hl

/-- **C05 (VTP cell layout).**  For the four cell sections of a `.vtp` (Verts, Lines, Polys, Strips;
    any cells, rows of any length, empty sections allowed): decoding the per-section
    `connectivity / offsets` arrays and the `NumberOf…` attributes yields, per NON-EMPTY section in
    file order, exactly its cells in file order and the consecutive index range of its cells. -/
theorem C05_vtp_layout (secs : List (Nat × List (List Nat))) :
    vtpLayout (vtpArrays secs) = vtpContent secs :=
  vtpLayout_from secs 0

/-- … and every cell-data array is split along the same ranges: section `k` gets the values of its
    own cells, in file order (mirror of `C05_cell_data`) -/
theorem C05_vtp_cell_data {α} (secs : List (Nat × List (List Nat))) (vals : List α)
    (hl : vals.length = (secs.map (·.2.length)).sum) :
    splitCellData vals (vtpLayout (vtpArrays secs)) = some (vtpCellDataContent secs vals) := by
  rw [C05_vtp_layout]
  exact splitCellData_vtpContentFrom secs [] vals hl

/-- the three value readers of `VTKXMLReader` as the source text has them now: the binary ones hand numpy
    a dtype in the file's byte order (`readArray` models exactly that), the ascii one a native dtype -/
theorem C05_dtype_byte_order :
    Gen.vtkDtypeByteOrder = [("ascii", false), ("binary", true), ("appended", true)] := by decide

/-- **C05 (ascii ignores `byte_order`).**  The items read from an ascii array do not depend on the
    header's `byte_order` attribute: for both byte orders they are the native items of the tokens,
    hence a file that declares `BigEndian` reads like one that declares `LittleEndian`, and the
    tokens of logical items read back to these items.  (`asciiItems` takes the dtype's dependence on
    the byte order from the source text; with a byte-order dependent dtype the statement is false —
    negation witness in Witness/C05.lean.) -/
theorem C05_ascii_byte_order (bo : ByteOrder) (signed : Bool) (sz : Nat) (hsz : 0 < sz) (toks : List Int)
    (items : List Nat) (hb : IsBytes items) (hd : items.length % sz = 0) :
    asciiItems bo sz toks = asciiRead sz toks ∧
    asciiItems .be sz toks = asciiItems .le sz toks ∧
    asciiItems bo sz (asciiTokens signed sz items) = items := by
  have h : ∀ b t, asciiItems b sz t = asciiRead sz t := by
    intro b t
    -- the flag of the ascii reader in the source-derived table (re-evaluated against the current source)
    have hflag : (Gen.vtkDtypeByteOrder.lookup "ascii").getD true = false := by decide
    unfold asciiItems asciiItemsWith
    rw [hflag]
    rfl
  exact ⟨h bo toks, by rw [h, h], by rw [h]; exact C05_ascii signed sz hsz items hb hd⟩

/-
  Raw-appended files are not well-formed XML; the reader then cuts the appendix out of the file content
  with byte searches (`Fc.fallbackAppendix`, model of `_find_appendix_positions` / `_determine_encoding`).

  FULL STATEMENT (not provable — finding C05-RAWTAG):
      for every `head`, `appendix`, `post`:
        bfind closeTag (head ++ appendix ++ closeTag ++ post) 0 = some (head ++ appendix).length
  i.e. the end of the appendix is the position of the closing tag the writer put behind it.
  It fails when the bytes `</AppendedData>` occur earlier — in particular inside the binary appendix —
  because the code takes the FIRST occurrence in the whole file (negation witness in Witness/C05.lean,
  replayed on the implementation by the harness on every run).  Proved: the statement under the
  hypothesis that no earlier occurrence exists; the class predicate of the finding is its negation.
  Phase 2: the start position, the encoding detection and the file-level statement are now proved
  (`C05_fallback_appendix` below); the hypothesis `AppendixOk` there is what remains of the finding.
-/
theorem C05_raw_appendix_end_partial (head appendix post : List Nat)
    (hno : ∀ j, j < (head ++ appendix).length →
      startsWith closeTag ((head ++ appendix ++ closeTag ++ post).drop j) = false) :
    bfind closeTag (head ++ appendix ++ closeTag ++ post) 0 = some (head ++ appendix).length := by
  unfold bfind
  simp only [Nat.zero_le, if_true, List.drop_zero]
  have := findAt_first closeTag (head ++ appendix ++ closeTag ++ post) 0 (head ++ appendix).length
    (by simp only [List.length_append]; omega) hno
    (by rw [List.append_assoc (head ++ appendix), List.drop_left' rfl]; exact startsWith_append _ _)
  simpa using this

/-- **C05 (raw-appended fallback parser, file level).**  A file
    `pre ++ "<AppendedData" ++ a1 ++ "encoding" ++ a2 ++ '"' ++ enc ++ '"' ++ a3 ++ ">" ++ ws ++ "_" ++ appendix
       ++ "</AppendedData>" ++ post`
    whose surroundings are well-formed as in a real header (`RawFile.HeadOk`, decidable: no earlier
    occurrence of the two tags, no `<` `>` in the attribute text, `encoding` is the first keyword of that
    name, no `"` before the opening quote or inside the name, only blanks between `>` and `_`, no
    opening tag behind the closing tag, opening tag within the 100 bytes before the data) and whose
    APPENDIX IS ARBITRARY except that it contains neither `<AppendedData` nor `</AppendedData>`
    (`RawFile.AppendixOk`; its negation is the class of finding C05-RAWTAG, for which the statement
    is false — negation witnesses `wBad`, `wBad2`):
    `_find_appendix_positions` + `_determine_encoding` + the slicing of `VTKXMLReader.__init__`
    return exactly the appendix bytes and the declared encoding name.
    Covers the start position (`find("_")` behind the enclosed `<…>` range), the end position and
    the encoding detection (`rfind` in `content[app_begin - 100:]`). -/
theorem C05_fallback_appendix (f : RawFile) (hh : f.HeadOk) (ha : f.AppendixOk) :
    fallbackAppendix f.content = some (f.appendix, f.enc) :=
  fallbackAppendix_rawFile f hh ha

/-- **C05 (fallback parser, concrete header).**  `encoding="raw"`: for every document prefix `pre`
    (≥ 100 bytes, not containing the two tags) and every appendix not containing them, the bytes
    between `_` and `</AppendedData>` are returned and `raw` is detected. -/
theorem C05_fallback_appendix_raw (pre appendix : List Nat)
    (hO : occ openTag pre = false) (hC : occ closeTag pre = false) (hlen : 100 ≤ pre.length)
    (haO : occ openTag appendix = false) (haC : occ closeTag appendix = false) :
    fallbackAppendix (pre ++ strBytes "<AppendedData encoding=\"raw\">\n_" ++ appendix
      ++ strBytes "</AppendedData>\n</VTKFile>\n") = some (appendix, strBytes "raw") := by
  have h := C05_fallback_appendix (stdRawFile pre (strBytes "raw") appendix)
    (stdRawFile_headOk pre _ appendix hO hC hlen (by decide +kernel)) ⟨haO, haC⟩
  have e1 : strBytes "<AppendedData encoding=\"raw\">\n_"
      = openTag ++ ([32] ++ encodingKw ++ [61] ++ [34] ++ strBytes "raw" ++ [34] ++ []) ++ [62] ++ [10] ++ [95] := by
    decide +kernel
  have e2 : strBytes "</AppendedData>\n</VTKFile>\n" = closeTag ++ strBytes "\n</VTKFile>\n" := by decide +kernel
  rw [e1, e2]
  simpa [stdRawFile, RawFile.content, RawFile.mid, RawFile.attrs, List.append_assoc] using h

/-- … and `base64` when that is what the header declares (a base64 appendix never contains `<`) -/
theorem C05_fallback_appendix_base64 (pre appendix : List Nat)
    (hO : occ openTag pre = false) (hC : occ closeTag pre = false) (hlen : 100 ≤ pre.length)
    (ha : 60 ∉ appendix) :
    fallbackAppendix (pre ++ strBytes "<AppendedData encoding=\"base64\">\n_" ++ appendix
      ++ strBytes "</AppendedData>\n</VTKFile>\n") = some (appendix, strBytes "base64") := by
  have h := C05_fallback_appendix (stdRawFile pre (strBytes "base64") appendix)
    (stdRawFile_headOk pre _ appendix hO hC hlen (by decide +kernel))
    ⟨by rw [openTag_cons]; exact occ_false_of_not_mem 60 _ _ ha,
     by rw [closeTag_cons]; exact occ_false_of_not_mem 60 _ _ ha⟩
  have e1 : strBytes "<AppendedData encoding=\"base64\">\n_"
      = openTag ++ ([32] ++ encodingKw ++ [61] ++ [34] ++ strBytes "base64" ++ [34] ++ []) ++ [62] ++ [10] ++ [95] := by
    decide +kernel
  have e2 : strBytes "</AppendedData>\n</VTKFile>\n" = closeTag ++ strBytes "\n</VTKFile>\n" := by decide +kernel
  rw [e1, e2]
  simpa [stdRawFile, RawFile.content, RawFile.mid, RawFile.attrs, List.append_assoc] using h

end Fc
