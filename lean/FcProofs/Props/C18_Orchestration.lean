/-
  FcProofs.Props.C18_Orchestration — C18, phase 6 round 3: the sequence clauses of C18 run through the same step loop
  (`FileComparison._compare_field_sequences`); the theorems of Props/C15_Orchestration.lean (translated bodies `Fc.Gen.c15o…Src`,
  module pylite_c15_orch owned by C15 and C18) are re-stated here so that a change of that source breaks C18's obligations too.
-/
import FcProofs.Props.C15_Orchestration
namespace Fc
open PyLite PyLite.C15 PyLite.C15O

/-- `C15_source_compare_sequences`, re-exported for C18 -/
theorem C18_source_compare_sequences {X : Ext} {o : SeqOpts} {lg : Val} {step : Nat → Nat → TSuite}
    (hX : SeqExt X o lg step) (nRes nRef : Nat) (rs fs : List Nat) (diff : Val)
    (hdiff : diff = .none ∨ ∃ t, diff = .str t) :
    Gen.c15oCompareSequencesSrc.run X [fcSelfV o lg, seqObj nRes rs, seqObj nRef fs, diff] =
      .ok (tsObj (C15.seqSuite o nRes nRef step (rs.zip fs))) :=
  C15_source_compare_sequences hX nRes nRef rs fs diff hdiff

/-- `C15_source_merge_test_suites`, re-exported for C18 -/
theorem C18_source_merge_test_suites {X : Ext} {o : SeqOpts} {lg : Val} {step : Nat → Nat → TSuite}
    (hX : SeqExt X o lg step) (a b : TSuite) (i : Val) :
    Gen.c15oMergeTestSuitesSrc.runTr X [tsObj a, tsObj b, i] = .ok (tsObj (mergeSuites a b), []) :=
  C15_source_merge_test_suites hX a b i

/-- `C15_source_sequence_iter`, re-exported for C18 -/
theorem C18_source_sequence_iter {X : Ext} {fuel : Nat} (hX : SrcExt X fuel) (s : Src) (hfuel : s.n ≤ fuel + 1) :
    Gen.c15oSeqIterSrc.runSelf X [seqSelfV s] =
      match allSome (iterSeq s).1 with
      | some items => .ok (.none, items.map stepV, seqSelfV (iterSeq s).2)
      | none => .raise "IndexError" :=
  C15_source_sequence_iter hX s hfuel

end Fc
