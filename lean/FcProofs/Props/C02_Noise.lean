/-
  Property C02, coordinate noise ("… coordinate noise far below the mesh tolerance").

  PHASE 3 showed that `hrel` of `C02_canonical_points_partial` — phrased with each mesh's OWN cluster keys — is
  FALSE under genuine noise.  Here the noisy case is restated with JOINT keys and proved.

  Setting.  A noisy copy of a data set `f` is `Resid2.withPoints f P'` (same connectivity, same field arrays,
  coordinates `P'` entry-wise within `δ` of `f`'s); a noisy RELABELLED copy is
  `Spec.relabelF ρ κ (withPoints f P')` (points stored in the order `ρ`, cells of every type in the order `κ`).
  Mesh level: `Resid.NoisyRelabeled m₁ m₂ ρ δ`.

  Residual hypotheses, by name (`Resid2.NoisyHyp h f P' δ A B M C`, decidable form `Resid2.noisyHypWith`):
    `bh`, `bh'`  `BaseHyp` (well-formed ∧ Sep ∧ Distinguishable of the stripped mesh under the data set's OWN
                 tolerances ∧ hash separates the cells) of `f` and of `withPoints f P'`, with the SAME margins
                 `A`, `B`, magnitude bound `M` and a JOINT candidate-centre list `C`;
    `np`, `hδ`   every coordinate moved by at most `δ ≤ A`;
    `joint`      the coordinate values of BOTH stripped meshes, column by column, satisfy the dichotomy
                 (difference `≤ A` or `> B`) — `Sep` of the joint value set;
    `slack`      `δ + (2k+4)·M·2^-53 + 1 unit ≤ B` for every cell size `k` (`Resid.CentreSlack`).
  For the as-is rung (rung 0) additionally (`Resid2.StoredJoint`, decidable `Resid2.storedJointWith`, and
  `Resid.storedHyp f`): the dichotomy for the coordinates AS STORED (orphan points included) of both data sets
  with the float side conditions for the minimum tolerance, and `Sep ∧ Distinguishable` + slack of the clean mesh
  as stored (rigidity, `C02_rigid_distinguishable`).
-/
import FcProofs.Props.C02
import FcProofs.Lemmas.Resid2Hyp
namespace Fc
open Fc.C02 Fc.C02.Spec

/-- **C02 (own keys vs joint keys).**  Under the dichotomy of a JOINT value list `big`, the cluster keys relative
    to any sub-list `vals` order the values of `vals` exactly like the keys relative to `big`: same strict order,
    same ties.  (This is why the point sort of each mesh — which only sees its own values — sorts by the joint
    keys.) -/
theorem C02_joint_keys_order {A B : Nat} {vals big : List Int} (hbig : sepCol A B big = true) (hAB : 2 * A ≤ B)
    (hsub : ∀ v ∈ vals, v ∈ big) {u v : Int} (hu : u ∈ vals) (hv : v ∈ vals) :
    (clusterKey A vals u < clusterKey A vals v ↔ clusterKey A big u < clusterKey A big v) ∧
    (clusterKey A vals u = clusterKey A vals v ↔ clusterKey A big u = clusterKey A big v) :=
  Resid2.own_vs_joint hbig hAB hsub hu hv

/-- **C02_canonical_points with coordinate noise (joint keys; FULL).**
    `Resid.NoisyRelabeled m₁ m₂ ρ δ`: mesh 2 stores the points of mesh 1 in the order `ρ`, every coordinate moved
    by at most `δ ≤ A`, and — in any cell / block order — the cells of mesh 1 renumbered through `ρ⁻¹`.
    `PointHypP` on both sides (each under its OWN tolerances) with the same margins and a joint candidate list;
    the JOINT coordinate values of every column satisfy the dichotomy; `CentreSlack δ B M k` for every cell size;
    coincident points of mesh 1 distinguishable.  Then for ANY two `argsort` routines both point sorts succeed and
    the sorted sequence of mesh 2 is the image of the sorted sequence of mesh 1 POSITION BY POSITION: the index
    maps differ exactly by the relabelling, and corresponding sorted coordinates are within `δ` and have the same
    joint cluster key in every column. -/
theorem C02_canonical_points_noisy {as1 as2 : List Int → List Nat} (h1 : IsArgsort as1) (h2 : IsArgsort as2)
    {t1 t2 : MeshTol} {A B M : Nat} {C : List (List Int)} {m1 m2 : Mesh} {ρ : List Nat} {δ : Nat}
    (hy1 : PointHypP t1 A B M m1 C) (hy2 : PointHypP t2 A B M m2 C)
    (nz : Resid.NoisyRelabeled m1 m2 ρ δ) (hδ : δ ≤ A)
    (hjoint : ∀ j, j < m1.dim → sepCol A B ((pitems m1 ++ pitems m2).map (pkey j)) = true)
    (hslack : ∀ r ∈ allRows m1, Resid.CentreSlack δ B M r.length) (hn1 : m1.points ≠ [])
    (hdist : ∀ a ∈ pitems m1, ∀ b ∈ pitems m1, kvec (KC A m1) m1.dim 0 a = kvec (KC A m1) m1.dim 0 b →
      kvec (KM A C as1 t1 m1) m1.dim 0 a = kvec (KM A C as1 t1 m1) m1.dim 0 b → a = b) :
    ∃ L1 L2, sortPointsItems as1 t1 m1 = some L1 ∧ sortPointsItems as2 t2 m2 = some L2 ∧
      L2 = L1.map (Resid2.noisyItem ρ m2) ∧
      L2.map (·.1) = L1.map (fun a => ρ.idxOf a.1) ∧
      ∀ a ∈ L1, ∀ j, j < m1.dim →
        (pkey j (Resid2.noisyItem ρ m2 a) - pkey j a).natAbs ≤ δ ∧
        clusterKey A ((pitems m1 ++ pitems m2).map (pkey j)) (pkey j (Resid2.noisyItem ρ m2 a)) =
          clusterKey A ((pitems m1 ++ pitems m2).map (pkey j)) (pkey j a) := by
  obtain ⟨L1, L2, e1, e2, p1, hmap⟩ :=
    Resid2.sortPoints_canonical_noisy h1 h2 hy1 hy2 nz hδ hjoint hslack hn1 hdist
  refine ⟨L1, L2, e1, e2, hmap.symm, ?_, ?_⟩
  · rw [← hmap, List.map_map]
    rfl
  · intro a ha j hj
    have ha' := p1.mem_iff.mp ha
    exact ⟨nz.item_near hj ha', nz.item_key hy1.sepP.hAB hδ hj (hjoint j hj) ha'⟩

/-- **C02 (the point-sort index map is invariant under coordinate noise).**  Under `NoisyHyp` the stable point
    sort of the stripped base mesh returns the SAME index map for `f` and for its noisy copy `withPoints f P'`. -/
theorem C02_sort_index_noise_invariant {h : List Nat → Int} {f : MeshFields} {P' : List (List Int)}
    {δ A B M : Nat} {C : List (List Int)} (nh : Resid2.NoisyHyp h f P' δ A B M C) :
    ∃ I0, sortPointsIdx argsortStable (meshTolOf f.mesh) (baseOf f).mesh = some I0 ∧
      sortPointsIdx argsortStable (meshTolOf (Resid2.withPoints f P').mesh)
        (baseOf (Resid2.withPoints f P')).mesh = some I0 :=
  Resid2.sortIdx_noisy nh

/-- **C02 (sorted views of a noisy relabelled pair).**  `_permute` (strip + point sort, any two `argsort`
    routines) of the noisy relabelled copy `relabelF ρ₁ κ₁ (withPoints f P')` and of `relabelF ρ₂ κ₂ f` are the SAME
    point-sorted view `s` of `f` up to the cell order (`κ₁` / `κ₂`) and the coordinates: identical renumbered
    connectivity, identical point-field and cell-field arrays; the coordinates are `P'[J]` resp. `P[J]` for the
    one index list `J`, and the point check of `mesh_equal` accepts them under the tolerances of the source. -/
theorem C02_sorted_views_noisy {asS asR : List Int → List Nat} (hS : IsArgsort asS) (hR : IsArgsort asR)
    {h : List Nat → Int} {f : MeshFields} {P' : List (List Int)} {δ A B M : Nat} {C : List (List Int)}
    (nh : Resid2.NoisyHyp h f P' δ A B M C) {ρ1 ρ2 : List Nat} {κ1 κ2 : String → List Nat}
    (hρ1 : ρ1.Perm (List.range f.mesh.points.length)) (hρ2 : ρ2.Perm (List.range f.mesh.points.length))
    (hκ1 : CellMapsOk f κ1) (hκ2 : CellMapsOk f κ2) :
    ∃ (s : MeshFields) (J : List Nat), CellHypP h s ∧
      permuteSide asS {} ⟨relabelF ρ1 κ1 (Resid2.withPoints f P'),
          meshTolOf (relabelF ρ1 κ1 (Resid2.withPoints f P')).mesh, false⟩ =
        some ⟨Resid2.withPoints (applyCellMaps s κ1) (J.map fun i => P'.getD i []),
          meshTolOf (relabelF ρ1 κ1 (Resid2.withPoints f P')).mesh, true⟩ ∧
      permuteSide asR {} ⟨relabelF ρ2 κ2 f, meshTolOf (relabelF ρ2 κ2 f).mesh, false⟩ =
        some ⟨Resid2.withPoints (applyCellMaps s κ2) (J.map fun i => f.mesh.points.getD i []),
          meshTolOf (relabelF ρ2 κ2 f).mesh, true⟩ ∧
      fuzzyCheck (.num (meshTolOf (relabelF ρ1 κ1 (Resid2.withPoints f P')).mesh).rtol)
        (.num (meshTolOf (relabelF ρ1 κ1 (Resid2.withPoints f P')).mesh).atol)
        ⟨.flt f64, [(J.map fun i => P'.getD i []).length, s.mesh.dim], (J.map fun i => P'.getD i []).flatten⟩
        ⟨.flt f64, [(J.map fun i => f.mesh.points.getD i []).length, s.mesh.dim],
          (J.map fun i => f.mesh.points.getD i []).flatten⟩ = .ok true := by
  obtain ⟨I0, hI2, hI1⟩ := Resid2.sortIdx_noisy nh
  have hnear : ∀ i, i < f.mesh.points.length → ∀ j, j < f.mesh.dim →
      ((P'.getD i []).getD j 0 - (f.mesh.points.getD i []).getD j 0).natAbs ≤ A :=
    fun i hi j hj => Nat.le_trans (nh.np.near i hi j hj) nh.hδ
  obtain ⟨hs, _, _, eS, eR, hpts⟩ := Resid2.permuted_noisy (P1 := P') (P2 := f.mesh.points) hS hR nh.bh' nh.bh
    nh.np.len rfl hI1 hI2 hnear hρ1 hρ2 hκ1 hκ2
  exact ⟨_, _, hs, eS, eR, hpts⟩

/-- **C02 (the sorted rungs pass on a noisy relabelled pair; either role).**  Under `NoisyHyp`, whatever the
    earlier rungs answered, rungs 2/3 of the ladder (`_permute` on both sides, `mesh_equal`, then `sort_cells` and
    `mesh_equal` again) end with equal domains and every field `passed` — for the noisy copy as source and for the
    noisy copy as reference, any point permutations, any per-type cell permutations, any two `argsort` routines.
    (The points pass `mesh_equal` because corresponding coordinates are within `δ ≤ A`, which `boundsOk` makes
    `fuzzy_equal`; the field arrays are identical.) -/
theorem C02_sorted_rung_passes_noisy {asS asR : List Int → List Nat} (hS : IsArgsort asS) (hR : IsArgsort asR)
    {h : List Nat → Int} {f : MeshFields} {P' : List (List Int)} {δ A B M : Nat} {C : List (List Int)}
    (nh : Resid2.NoisyHyp h f P' δ A B M C) {ρ1 ρ2 : List Nat} {κ1 κ2 : String → List Nat}
    (hρ1 : ρ1.Perm (List.range f.mesh.points.length)) (hρ2 : ρ2.Perm (List.range f.mesh.points.length))
    (hκ1 : CellMapsOk f κ1) (hκ2 : CellMapsOk f κ2) (lastRung : Nat) (last : Outcome) :
    ladderPasses (ladderReorder asS asR h {}
      ⟨relabelF ρ1 κ1 (Resid2.withPoints f P'), meshTolOf (relabelF ρ1 κ1 (Resid2.withPoints f P')).mesh, false⟩
      ⟨relabelF ρ2 κ2 f, meshTolOf (relabelF ρ2 κ2 f).mesh, false⟩ lastRung last) = true ∧
    ladderPasses (ladderReorder asS asR h {}
      ⟨relabelF ρ1 κ1 f, meshTolOf (relabelF ρ1 κ1 f).mesh, false⟩
      ⟨relabelF ρ2 κ2 (Resid2.withPoints f P'), meshTolOf (relabelF ρ2 κ2 (Resid2.withPoints f P')).mesh, false⟩
      lastRung last) = true := by
  obtain ⟨I0, hI2, hI1⟩ := Resid2.sortIdx_noisy nh
  have hnear : ∀ i, i < f.mesh.points.length → ∀ j, j < f.mesh.dim →
      ((P'.getD i []).getD j 0 - (f.mesh.points.getD i []).getD j 0).natAbs ≤ A :=
    fun i hi j hj => Nat.le_trans (nh.np.near i hi j hj) nh.hδ
  have hnear' : ∀ i, i < f.mesh.points.length → ∀ j, j < f.mesh.dim →
      ((f.mesh.points.getD i []).getD j 0 - (P'.getD i []).getD j 0).natAbs ≤ A := by
    intro i hi j hj
    have := hnear i hi j hj
    omega
  exact ⟨Resid2.reorder_noisy (P1 := P') (P2 := f.mesh.points) hS hR nh.bh' nh.bh nh.np.len rfl hI1 hI2 hnear
      hρ1 hρ2 hκ1 hκ2 lastRung last,
    Resid2.reorder_noisy (P1 := f.mesh.points) (P2 := P') hS hR nh.bh nh.bh' rfl nh.np.len hI2 hI1 hnear'
      hρ1 hρ2 hκ1 hκ2 lastRung last⟩

/-- **C02_no_false_fail with coordinate noise (Prop-level hypotheses; either role; FULL ladder).**
    `NoisyHyp` (see the file header) + `StoredJoint` in both roles (joint `Sep` of the coordinates as stored, for
    the as-is rung) + `Sep ∧ Distinguishable` + slack of the clean mesh as stored (rigidity) ⇒ the default
    comparator on `(relabel ρ₁ κ₁ (noisy f), relabel ρ₂ κ₂ f)` AND on `(relabel ρ₁ κ₁ f, relabel ρ₂ κ₂ (noisy f))` ends
    with equal domains and every field `passed`, for every pair of `argsort` routines. -/
theorem C02_no_false_fail_noisy {asS asR : List Int → List Nat} (hS : IsArgsort asS) (hR : IsArgsort asR)
    {h : List Nat → Int} {f : MeshFields} {P' : List (List Int)} {δ A B M : Nat} {C : List (List Int)}
    (nh : Resid2.NoisyHyp h f P' δ A B M C)
    {As Bs Ms : Nat} (sj1 : Resid2.StoredJoint f P' f.mesh.points As Bs Ms)
    (sj2 : Resid2.StoredJoint f f.mesh.points P' As Bs Ms)
    {A' B' M' : Nat} {c' : List (List Int)} (hy : PointHypP (meshTolOf f.mesh) A' B' M' f.mesh c')
    (hslack : ∀ r ∈ allRows f.mesh, Resid.CentreSlack A' B' M' r.length)
    {as : List Int → List Nat} (has : IsArgsort as)
    (hdist : ∀ a ∈ pitems f.mesh, ∀ b ∈ pitems f.mesh,
      kvec (KC A' f.mesh) f.mesh.dim 0 a = kvec (KC A' f.mesh) f.mesh.dim 0 b →
      kvec (KM A' c' as (meshTolOf f.mesh) f.mesh) f.mesh.dim 0 a =
        kvec (KM A' c' as (meshTolOf f.mesh) f.mesh) f.mesh.dim 0 b → a = b)
    {ρ1 ρ2 : List Nat} {κ1 κ2 : String → List Nat}
    (hρ1 : ρ1.Perm (List.range f.mesh.points.length)) (hρ2 : ρ2.Perm (List.range f.mesh.points.length))
    (hκ1 : CellMapsOk f κ1) (hκ2 : CellMapsOk f κ2) :
    ladderPasses (ladder asS asR h {} (relabelF ρ1 κ1 (Resid2.withPoints f P')) (relabelF ρ2 κ2 f)) = true ∧
    ladderPasses (ladder asS asR h {} (relabelF ρ1 κ1 f) (relabelF ρ2 κ2 (Resid2.withPoints f P'))) = true := by
  obtain ⟨I0, hI2, hI1⟩ := Resid2.sortIdx_noisy nh
  have hnear : ∀ i, i < f.mesh.points.length → ∀ j, j < f.mesh.dim →
      ((P'.getD i []).getD j 0 - (f.mesh.points.getD i []).getD j 0).natAbs ≤ A :=
    fun i hi j hj => Nat.le_trans (nh.np.near i hi j hj) nh.hδ
  have hnear' : ∀ i, i < f.mesh.points.length → ∀ j, j < f.mesh.dim →
      ((f.mesh.points.getD i []).getD j 0 - (P'.getD i []).getD j 0).natAbs ≤ A := by
    intro i hi j hj
    have := hnear i hi j hj
    omega
  constructor
  · exact Resid2.ladder_noisy (P1 := P') (P2 := f.mesh.points) hS hR nh.bh' nh.bh nh.np.len rfl hI1 hI2 hnear
      hρ1 hρ2 hκ1 hκ2
      (Resid2.rung0_noisy (P1 := P') (P2 := f.mesh.points) nh.bh' nh.bh sj1 nh.bh.wf hy hslack has hdist
        hρ1 hρ2 hκ1 hκ2)
  · exact Resid2.ladder_noisy (P1 := f.mesh.points) (P2 := P') hS hR nh.bh nh.bh' rfl nh.np.len hI2 hI1 hnear'
      hρ1 hρ2 hκ1 hκ2
      (Resid2.rung0_noisy (P1 := f.mesh.points) (P2 := P') nh.bh nh.bh' sj2 nh.bh.wf hy hslack has hdist
        hρ1 hρ2 hκ1 hκ2)

/-- **Soundness of the decidable noisy hypothesis.**  What the driver can evaluate
    (`Resid2.noisyFullHyp h f P'`: `noisyHypWith` + `storedJointWith` for the joint margins `noisyPar f P'`, and
    the core-only copy of `Resid.storedHyp f`) implies the Prop-level hypotheses of `C02_no_false_fail_noisy`,
    with noise bound `δ = A` (joint `A = min(atol, atol')/2`). -/
theorem C02_noisy_hyp_sound {h : List Nat → Int} {f : MeshFields} {P' : List (List Int)}
    (hb : Resid2.noisyFullHyp h f P' = true) :
    Resid2.NoisyHyp h f P' (Resid2.noisyPar f P').A (Resid2.noisyPar f P').A (Resid2.noisyPar f P').B
      (Resid2.noisyPar f P').M (Resid2.noisyPar f P').C ∧
    Resid2.StoredJoint f P' f.mesh.points (Resid2.noisyPar f P').A (Resid2.noisyPar f P').B (Resid2.noisyPar f P').M ∧
    Resid2.StoredJoint f f.mesh.points P' (Resid2.noisyPar f P').A (Resid2.noisyPar f P').B (Resid2.noisyPar f P').M ∧
    Resid.storedHyp f = true := by
  unfold Resid2.noisyFullHyp at hb
  simp only [Bool.and_eq_true] at hb
  obtain ⟨⟨h1, h2⟩, h3⟩ := hb
  obtain ⟨s1, s2⟩ := Resid2.storedJointWith_sound h2
  exact ⟨Resid2.noisyHypWith_sound h1, s1, s2, by rw [← Resid2.storedHypB_eq]; exact h3⟩

/-- **C02_no_false_fail with coordinate noise — decidable hypotheses, NO further assumption.**
    `Resid2.noisyFullHyp h f P' = true` (decidable; about the clean data set `f` and the noisy coordinates `P'`
    alone) ⇒ for every point permutations `ρ₁`, `ρ₂`, all per-type cell permutations `κ₁`, `κ₂` and every pair of
    `argsort` routines the default comparator passes on the noisy relabelled pair in both roles. -/
theorem C02_no_false_fail_noisy_decidable {asS asR : List Int → List Nat} (hS : IsArgsort asS) (hR : IsArgsort asR)
    {h : List Nat → Int} {f : MeshFields} {P' : List (List Int)} (hb : Resid2.noisyFullHyp h f P' = true)
    {ρ1 ρ2 : List Nat} {κ1 κ2 : String → List Nat}
    (hρ1 : ρ1.Perm (List.range f.mesh.points.length)) (hρ2 : ρ2.Perm (List.range f.mesh.points.length))
    (hκ1 : CellMapsOk f κ1) (hκ2 : CellMapsOk f κ2) :
    ladderPasses (ladder asS asR h {} (relabelF ρ1 κ1 (Resid2.withPoints f P')) (relabelF ρ2 κ2 f)) = true ∧
    ladderPasses (ladder asS asR h {} (relabelF ρ1 κ1 f) (relabelF ρ2 κ2 (Resid2.withPoints f P'))) = true := by
  obtain ⟨nh, s1, s2, hst⟩ := C02_noisy_hyp_sound hb
  obtain ⟨hy, hd, hsl⟩ := Resid.storedHyp_sound hst
  exact C02_no_false_fail_noisy hS hR nh s1 s2 hy hsl isArgsort_stable hd hρ1 hρ2 hκ1 hκ2

end Fc
