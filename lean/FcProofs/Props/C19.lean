/-
  FcProofs.Props.C19 — comparing is free of side effects and repeatable (PARTIAL by nature, see below).

  (a) repeatability over histories
      * predicate objects: every call of a reused object — after any history of other calls and tolerance
        setters — returns the verdict of a fresh object (`C19_fresh_equals_reused`, induction over the history);
      * comparator objects: the k-th call of one `MeshFieldsComparator` returns the suite of the first call
        (`C19_rerun`), *assuming* the verdict-level idempotence facts `LadderFacts` about
        strip/sort_points/sort_cells/extend (owned by C02/C08/C17; here hypotheses, validated only by the observed
        re-runs of the correspondence);
  (b) no-write invariant over the hand-written effect summaries of FcModel/Effects.lean:
      `C19_no_input_writes` — by induction over ANY sequence of public operations of the current code the set of
      written array identities is disjoint from the identities reachable from the inputs;
      `C19_inputs_unchanged` — hence the contents of every input array are what they were;
      `C19_order_independent` — hence any observation of the inputs (a verdict) is the same after any history.

  NOT proved (observed by harness/corr/c19.py on every explored history): that the summaries describe the code
  (snapshot correspondence), "writes nothing except the requested files" at the level of the operating system,
  and "in another process".
-/
import FcProofs.Lemmas.EffectsRun
import FcProofs.Lemmas.Ladder
namespace Fc
open Fc.C19

/-! ### (a) predicate objects -/

/-- **C19 (predicate objects are history-free).**  For every object state `p` (whatever `_last_used_*` it
    remembers) and every history of calls and tolerance setters, the verdicts are those of fresh objects
    configured with the tolerances current at each call. -/
theorem C19_fresh_equals_reused (p : PredObj) (evs : List PredEvent) :
    (runPred p evs).2 = Spec.specPred p.kind p.rel p.abs evs := by
  induction evs generalizing p with
  | nil => rfl
  | cons e r ih =>
    cases e with
    | call a b =>
      simp only [runPred, Spec.specPred]
      have hc := PredObj.call_config p a b
      rw [ih (p.call a b).1, hc.1, hc.2.1, hc.2.2, PredObj.call_verdict, PredObj.call_verdict]
      rfl
    | setRel t =>
      simp only [runPred, Spec.specPred]
      exact ih _
    | setAbs t =>
      simp only [runPred, Spec.specPred]
      exact ih _

/-- two objects with the same configuration but arbitrary different remembered tolerances are
    indistinguishable by any history -/
theorem C19_last_used_irrelevant (p q : PredObj) (h : p.kind = q.kind ∧ p.rel = q.rel ∧ p.abs = q.abs)
    (evs : List PredEvent) : (runPred p evs).2 = (runPred q evs).2 := by
  rw [C19_fresh_equals_reused, C19_fresh_equals_reused, h.1, h.2.1, h.2.2]

/-! ### (a) comparator objects -/

/-- **C19 (re-running a comparator).**  Under `LadderFacts`, every one of `k` consecutive calls of one
    `MeshFieldsComparator` object returns the suite of the first call — although the second call starts from
    the extended / sorted views the first one left in `_source/_reference`. -/
theorem C19_rerun {D S : Type} (L : LadderOps D S) (F : LadderFacts L) (fl : CmpFlags) (k : Nat) (st : CmpState D) :
    ∀ s ∈ rerun L fl k st, s = (runComparator L fl st).suite := by
  induction k generalizing st with
  | zero => simp [rerun]
  | succ k ih =>
    intro s hs
    simp only [rerun, List.mem_cons] at hs
    rcases hs with rfl | hs
    · rfl
    · rw [ih _ s hs, rerun_step L F fl st]

/-- a *fresh* comparator on the original data sets agrees with the reused one after any number of calls -/
theorem C19_fresh_comparator_equals_reused {D S : Type} (L : LadderOps D S) (F : LadderFacts L) (fl : CmpFlags)
    (k : Nat) (st : CmpState D) :
    (rerun L fl (k + 1) st).getLast? = some (runComparator L fl st).suite := by
  have h := C19_rerun L F fl (k + 1) st
  have hne : rerun L fl (k + 1) st ≠ [] := by simp [rerun]
  rw [List.getLast?_eq_getLast hne]
  exact congrArg some (h _ (List.getLast_mem hne))

/-! ### (b) no input is written -/

/-- **C19 (no input writes).**  Start from any pool of input data sets (nothing written yet).  After ANY
    sequence of public operations of the current code — compare, equals, predicate evaluation, sort,
    sort_points, sort_cells, strip_orphan_points, extend, merge, diff, write, to_meshio, from_meshio, succeeding
    or raising, applied to inputs and to earlier results in any order — no array identity reachable from the
    inputs is in the written set. -/
theorem C19_no_input_writes (w0 : World) (hwf : w0.wf) (h0 : w0.written = []) (steps : List EStep)
    (hc : ∀ s ∈ steps, s.op.isCurrent = true) :
    ∀ i ∈ w0.reachable, i ∉ (runSteps w0 steps).written := by
  intro i hi hw
  rcases (runSteps_written w0 steps hc).2 i hw with h | h
  · rw [h0] at h; simp at h
  · have := hwf i hi; omega

/-- the executable form used by the driver (`untouched=1`) -/
theorem C19_inputsUntouched (w0 : World) (h0 : w0.written = []) (steps : List EStep)
    (hc : ∀ s ∈ steps, s.op.isCurrent = true) : Spec.inputsUntouched w0 steps = true := by
  simp only [Spec.inputsUntouched, List.all_eq_true, decide_eq_true_eq]
  intro i hi
  rcases (runSteps_written w0 steps hc).2 i hi with h | h
  · rw [h0] at h; simp at h
  · exact h

/-- **C19 (contents).**  Whatever the operations store into the arrays they write (`junk` is arbitrary), every
    array that existed before the history holds its old contents afterwards. -/
theorem C19_inputs_unchanged (w0 : World) (h : Heap) (junk : Nat → Heap) (steps : List EStep)
    (hc : ∀ s ∈ steps, s.op.isCurrent = true) :
    ∀ i, i < w0.next → runHeap w0 h junk steps i = h i := by
  induction steps generalizing w0 h with
  | nil => intro i _; rfl
  | cons s r ih =>
    intro i hi
    have h1 := stepEffect_spec w0 s
    simp only [runHeap]
    rw [ih (stepEffect w0 s).1 _ (fun t ht => hc t (List.mem_cons_of_mem _ ht)) i (by omega)]
    simp only [heapAfter]
    have hnm : i ∉ (stepEffect w0 s).2.writes := by
      intro hm
      have := (h1.2 (hc s List.mem_cons_self)).1 i hm
      omega
    simp [hnm]

/-- **C19 (order independence).**  Any observation that depends only on the contents of input arrays — the
    verdict and the per-field statuses of a comparison of input data sets — is the same before and after any
    history of other public operations on the same objects. -/
theorem C19_order_independent {V : Type} (w0 : World) (h : Heap) (junk : Nat → Heap) (steps : List EStep)
    (hc : ∀ s ∈ steps, s.op.isCurrent = true)
    (ids : List Nat) (hids : ∀ i ∈ ids, i < w0.next)
    (observe : Heap → V) (hloc : ∀ h1 h2 : Heap, (∀ i ∈ ids, h1 i = h2 i) → observe h1 = observe h2) :
    observe (runHeap w0 h junk steps) = observe h :=
  hloc _ _ (fun i hi => C19_inputs_unchanged w0 h junk steps hc i (hids i hi))

end Fc
