/-
  FcProofs.Props.C15_Orchestration — C15 (and, re-exported, C18), phase 6 round 3: the SEQUENCE orchestration tied to the model
  (FcModel/Seq.lean) by TRANSLATION.  Translated bodies: `Fc.Gen.c15o…Src` (harness/fcv/tables/pylite_c15_orch.py);
  presentation and assumptions: FcProofs/Lemmas/PyLiteC15Orch.lean.
-/
import FcGen.Tables
import FcProofs.Lemmas.PyLiteC15Orch
set_option linter.unusedSimpArgs false
set_option linter.unusedVariables false
namespace Fc
open PyLite PyLite.C15 PyLite.C15O

/-- `_merged_result(r1, r2)` (the copy translated with the step loop) is the model's `mergedResult`, all 25 cases. -/
theorem C15_source_merged_result_orch (X : Ext) (r1 r2 : Option TStatus) :
    Gen.c15oMergedResultSrc.runTr X [optTsVal r1, optTsVal r2] = .ok (optTsVal (mergedResult r1 r2), []) := by
  cases r1 with
  | none => cases r2 with
    | none => rfl
    | some b => cases b <;> rfl
  | some a => cases r2 with
    | none => cases a <;> rfl
    | some b => cases a <;> cases b <;> rfl

/-- … explicitly: failed beats error beats skipped, otherwise no explicit status (not through the regenerated table). -/
theorem C15_source_merged_result_orch_explicit (X : Ext) (r1 r2 : Option TStatus) :
    Gen.c15oMergedResultSrc.runTr X [optTsVal r1, optTsVal r2] = .ok (optTsVal (mergedSpec r1 r2), []) := by
  cases r1 with
  | none => cases r2 with
    | none => rfl
    | some b => cases b <;> rfl
  | some a => cases r2 with
    | none => cases a <;> rfl
    | some b => cases a <;> cases b <;> rfl

variable {X : Ext} {o : SeqOpts} {lg : Val} {step : Nat → Nat → TSuite}

/-- `_merge_test_suites(s1, s2, i)`: the tests of both in order, the explicit status `_merged_result(s1.status, s2.status)`
    computed from the two STATUS PROPERTIES — the model's `mergeSuites`. -/
theorem C15_source_merge_test_suites (hX : SeqExt X o lg step) (a b : TSuite) (i : Val) :
    Gen.c15oMergeTestSuitesSrc.runTr X [tsObj a, tsObj b, i] = .ok (tsObj (mergeSuites a b), []) := by
  have hm0 : Gen.c15oMergedResultSrc.runTr X [tsVal a.statusProp, tsVal b.statusProp] =
      .ok (optTsVal (mergedResult (some a.statusProp) (some b.statusProp)), []) :=
    C15_source_merged_result_orch X (some a.statusProp) (some b.statusProp)
  have hm := fun x st => callRet_of_runTr hm0 x st
  simp only [Gen.c15oMergeTestSuitesSrc, tsObj]
  orch_eval [hm, mergeSuites]
  have := hX.hmk .none (.str "log<f-string>") (mergedResult (some a.statusProp) (some b.statusProp)) (a.tests ++ b.tests)
  simp only [List.map_append, tsObj] at this
  simp [this]

/-- the suite `_compare_field_sequences` returns when both iterations complete (model, without the `raised` case) -/
def C15.seqSuite (o : SeqOpts) (nRes nRef : Nat) (step : Nat → Nat → TSuite) (pairs : List (Nat × Nat)) : TSuite :=
  if (nRes != nRef) && !o.ignoreMissing && !o.force then ⟨[], some .failed⟩
  else pairs.foldl (fun acc p => mergeSuites acc (step p.1 p.2))
    ⟨[], if (nRes != nRef) && !o.ignoreMissing then some .failed else none⟩

/-- the second half of the body (`num_steps = min(…)`, the step loop, `return suite`), run in ANY state in which `self`, the
    two sequences, the base file name and the running suite `a` are as presented: it returns the running suite after all
    pairs of steps have been merged into it. -/
theorem C15_compare_sequences_tail (hX : SeqExt X o lg step) (nRes nRef : Nat) (rs fs : List Nat) (diff : Val)
    (hdiff : diff = .none ∨ ∃ t, diff = .str t) (a : TSuite) (st : St)
    (e0 : st.env.lookup "v0" = some (fcSelfV o lg)) (e1 : st.env.lookup "v1" = some (seqObj nRes rs))
    (e2 : st.env.lookup "v2" = some (seqObj nRef fs)) (e3 : st.env.lookup "v3" = some diff)
    (e6 : st.env.lookup "v6" = some (tsObj a)) :
    ∃ st', execBlock X (Gen.c15oCompareSequencesSrc.body.drop 4) st =
      .ret (tsObj ((rs.zip fs).foldl (fun acc p => mergeSuites acc (step p.1 p.2)) a)) st' := by
  have hmts := fun a b i x st => callRet_of_runTr (C15_source_merge_test_suites hX a b i) x st
  have hstep := hX.hstep
  have hlogv := hX.hlogv
  have hdf := hX.hdiff
  clear hX
  simp only [stepV] at hstep
  simp only [seqObj] at e1 e2
  simp only [Gen.c15oCompareSequencesSrc, List.drop]
  rcases hdiff with rfl | ⟨t, rfl⟩
  all_goals
    orch_eval [e0, e1, e2, e3, e6, zipWith_stepV]
    simp only [zipWith_stepV']
    generalize hf : forLoop _ _ _ = r
    have key := forLoop_fold_eq pairStepV (seqStep step)
      (fun acc s => s.env.lookup "v0" = some (fcSelfV o lg) ∧ s.env.lookup "v3" = st.env.lookup "v3" ∧
        s.env.lookup "v6" = some (tsObj acc.1) ∧ s.env.lookup "v8" = some (.int acc.2))
      hf (a, 0) (by simp [List.lookup, e0, e6]) (by
        rintro ⟨i, j⟩ ⟨b, k⟩ s ⟨i0, i3, i6, i8⟩
        rw [e3] at i3
        simp only [pairStepV, stepV, seqStep]
        simp only [fcSelfV] at hstep i0
        orch_eval [fcSelfV, i0, i3, i6, i8, e3, hlogv, hstep, hdf, hmts])
    obtain ⟨st', rfl, i0, i3, i6, i8⟩ := key
    simp [foldl_seqStep, i6]

/-- **the step loop of `FileComparison._compare_field_sequences`**, for ALL numbers of steps, all three option values,
    all step lists and per-step results: differing lengths (EITHER way round) without `ignore_missing_sequence_steps` give
    the explicit status `failed` — and the immediate empty failed suite unless `force_sequence_comparison`; otherwise the
    steps are compared pairwise as far as BOTH sequences go (`zip`), every per-step suite is merged into the running
    suite through `_merge_test_suites` (tests appended, status = `_merged_result` of the RUNNING status and the step's
    status: a failure of an early step is never forgotten), and the running suite is returned.  `diff` = the optional
    base file name (`None` or a string).  Assumptions: `SeqExt`. -/
theorem C15_source_compare_sequences (hX : SeqExt X o lg step) (nRes nRef : Nat) (rs fs : List Nat) (diff : Val)
    (hdiff : diff = .none ∨ ∃ t, diff = .str t) :
    Gen.c15oCompareSequencesSrc.run X [fcSelfV o lg, seqObj nRes rs, seqObj nRef fs, diff] =
      .ok (tsObj (C15.seqSuite o nRes nRef step (rs.zip fs))) := by
  have T := fun a st => C15_compare_sequences_tail hX nRes nRef rs fs diff hdiff a st
  have hmkN := fun nm sl => hX.hmk nm sl none []
  have hmkF := fun nm sl => hX.hmk nm sl (some .failed) []
  have hlog := hX.hlog
  clear hX
  simp only [optTsVal, tsVal, tsName, List.map_nil] at hmkN hmkF
  have hflow : Gen.c15oCompareSequencesSrc.run X [fcSelfV o lg, seqObj nRes rs, seqObj nRef fs, diff] =
      match execBlock X (Gen.c15oCompareSequencesSrc.body.take 4 ++ Gen.c15oCompareSequencesSrc.body.drop 4)
        ⟨[("v0", fcSelfV o lg), ("v1", seqObj nRes rs), ("v2", seqObj nRef fs), ("v3", diff)], []⟩ with
      | .next _ => .ok .none
      | .ret v _ => .ok v
      | .raise e => .raise e
      | .stuck => .stuck := by
    rw [List.take_append_drop]; rfl
  rw [hflow, execBlock_append]
  generalize Gen.c15oCompareSequencesSrc.body.drop 4 = tl at T ⊢
  simp only [Gen.c15oCompareSequencesSrc, List.take]
  cases hne : (nRes == nRef) <;> cases him : o.ignoreMissing <;> cases hfo : o.force
  all_goals first
    | (orch_eval [int_beq_natCast, bne, hne, him, hfo, hmkN, hmkF, hlog, C15.seqSuite, fcSelfV, seqObj]; done)
    | (orch_eval [int_beq_natCast, hne, him, hfo, hmkN, hmkF, hlog, fcSelfV, seqObj]
       generalize hS : execBlock X tl _ = F
       have key : ∃ st', F = Flow.ret (tsObj ((rs.zip fs).foldl (fun acc p => mergeSuites acc (step p.1 p.2))
           ⟨[], if (nRes != nRef) && !o.ignoreMissing then some Gen.TestStatus.failed else none⟩)) st' := by
         rw [← hS]
         exact T _ _ (by simp [List.lookup, fcSelfV, him, hfo]) (by simp [List.lookup, seqObj])
           (by simp [List.lookup, seqObj]) (by simp [List.lookup]) (by simp [List.lookup, bne, hne, him])
       obtain ⟨st', rfl⟩ := key
       simp [C15.seqSuite, bne, hne, him, hfo])

/-- … and this is the model's `compareSequences` (FcModel/Seq.lean) whenever both iterations complete (`zipOpt … = some
    pairs`: no `get` raised, i.e. both sequences have at least one step): the suite of `compareSequences o res ref step` is the
    one the translated loop returns on the steps the two iterations yield. -/
theorem C15_source_compare_sequences_model (hX : SeqExt X o lg step) (res ref : Src) (rs fs : List Nat) (diff : Val)
    (hdiff : diff = .none ∨ ∃ t, diff = .str t)
    (hz : zipOpt (iterSeq res).1 (iterSeq ref).1 = some (rs.zip fs)) :
    ∃ c, compareSequences o res ref step = .suite (C15.seqSuite o res.n ref.n step (rs.zip fs)) c ∧
      Gen.c15oCompareSequencesSrc.run X [fcSelfV o lg, seqObj res.n rs, seqObj ref.n fs, diff] =
        .ok (tsObj (C15.seqSuite o res.n ref.n step (rs.zip fs))) := by
  refine ⟨if (res.n != ref.n) && !o.ignoreMissing && !o.force then [] else rs.zip fs, ?_,
    C15_source_compare_sequences hX res.n ref.n rs fs diff hdiff⟩
  simp only [compareSequences, C15.seqSuite, hz]
  split <;> simp_all

/-- `FieldDataSequence.__init__` stores the source; `number_of_steps` is the source's. -/
theorem C15_source_sequence_init_numsteps (X : Ext) (src : Val) (n : Val) :
    Gen.c15oSeqInitSrc.run X [src] = .ok (.dict [(.str "_source", src)]) ∧
    Gen.c15oSeqNumStepsSrc.run X [.record [("_source", .record [("number_of_steps", n)])]] = .ok n := by
  constructor <;> simp only [Gen.c15oSeqInitSrc, Gen.c15oSeqNumStepsSrc] <;> pylite_eval [dictSet]

/-- the variable the `while` loop of the translated `__iter__` tests (read off the translation, so that the proof does not depend on
    how the translator numbers the locals) -/
def C15.iterCondVar : String :=
  match Gen.c15oSeqIterSrc.body.getLast? with
  | some (.whileF _ (.var c) _) => c
  | _ => "?"

/-- **`FieldDataSequence.__iter__` is the model's `iterSeq`** (FcModel/Seq.lean), for EVERY source state — in particular whatever
    cursor an abandoned earlier iteration left behind — and every sufficient fuel: the source is RESET first, then every step
    `0, 1, …, n-1` is yielded exactly once, in order (`get` after every successful `step`), and the source is left where `iterSeq`
    says; an EMPTY sequence raises `IndexError` at the first `get`.  Assumptions: `SrcExt` (the source's `reset / step / get`
    are the cursor machine). -/
theorem C15_source_sequence_iter {X : Ext} {fuel : Nat} (hX : SrcExt X fuel) (s : Src) (hfuel : s.n ≤ fuel + 1) :
    Gen.c15oSeqIterSrc.runSelf X [seqSelfV s] =
      match allSome (iterSeq s).1 with
      | some items => .ok (.none, items.map stepV, seqSelfV (iterSeq s).2)
      | none => .raise "IndexError" := by
  have hreset := hX.hreset
  have hstep := hX.hstep
  have hget := hX.hget
  have hfl := hX.hfuel
  simp only [srcV] at hreset hstep hget
  rw [runSelf_eq_obsFlow X _ _ "v0" _ rfl]
  simp only [Gen.c15oSeqIterSrc, seqSelfV, srcV, iterSeq]
  by_cases hn : 0 < s.n
  · have hg0 : (s.reset).get = some 0 := by simp [Src.get, Src.reset, hn]
    have hget0 : X ".get!" [.record [("n", .int s.n), ("cur", .int 0)]] =
        .ok (.list [stepV 0, .record [("n", .int s.n), ("cur", .int 0)]]) := by
      have := hget ⟨s.n, 0⟩
      simpa [Src.get, hn] using this
    have hstep0 : X ".step!" [.record [("n", .int s.n), ("cur", .int 0)]] =
        .ok (.list [.bool (decide (1 < s.n)), .record [("n", .int s.n), ("cur", .int 1)]]) := by
      have := hstep ⟨s.n, 0⟩
      simpa [Src.step] using this
    simp only [Src.reset] at hg0
    orch_eval [hreset, hget0, hstep0, hfl, recordSet, Src.reset, hg0, allSome, indexOf]
    generalize hw : whileLoop _ _ _ _ = r
    have key : ∃ (st' : St) (items : List Nat) (tf : Src), r = .next st' ∧ (iterLoop ⟨s.n, 0⟩).1 = items.map some ∧
        st'.out = [stepV 0] ++ items.map stepV ∧
        (st'.env.lookup "v0" = some (seqSelfV (tf.step).1) ∧ st'.env.lookup C15.iterCondVar = some (.bool (tf.step).2)) ∧
        (tf.step).1 = (iterLoop ⟨s.n, 0⟩).2 := by
      rw [← hw]
      refine whileLoop_iterLoop _ _
        (fun t st => st.env.lookup "v0" = some (seqSelfV (t.step).1) ∧
          st.env.lookup C15.iterCondVar = some (.bool (t.step).2))
        ?_ ?_ fuel ⟨s.n, 0⟩ _ ?_ ?_
      · rintro t st ⟨i0, i4⟩
        simp only [C15.iterCondVar, Gen.c15oSeqIterSrc, List.getLast?, List.getLast] at i4
        simp [i4, Res.bind, truthy_bool]
      · rintro t st ⟨i0, i4⟩ hb
        simp only [C15.iterCondVar, Gen.c15oSeqIterSrc, List.getLast?, List.getLast]
        simp only [C15.iterCondVar, Gen.c15oSeqIterSrc, List.getLast?, List.getLast] at i4
        have hlt : t.cur + 1 < t.n := by simpa [Src.step] using hb
        have hg : X ".get!" [.record [("n", .int t.n), ("cur", .int (t.cur + 1 : Nat))]] =
            .ok (.list [stepV (t.cur + 1), .record [("n", .int t.n), ("cur", .int (t.cur + 1 : Nat))]]) := by
          have := hget ⟨t.n, t.cur + 1⟩
          simpa [Src.get, hlt] using this
        have hs := hstep ⟨t.n, t.cur + 1⟩
        simp only [Src.step] at hs i0 i4
        simp only [seqSelfV, srcV] at i0
        push_cast at hg hs i0
        orch_eval [i0, i4, hg, hs, recordSet, indexOf, seqSelfV, srcV, Src.step, stepV]
        all_goals first | rfl | congr
      · simp [List.lookup, seqSelfV, srcV, Src.step, C15.iterCondVar, Gen.c15oSeqIterSrc, List.getLast?, List.getLast]
      · simp; omega
    obtain ⟨st', items, tf, rfl, h2, h3, ⟨i0, i4⟩, h5⟩ := key
    simp [obsFlow, i0, h2, allSome_map_some, h3, h5, stepV, seqSelfV, srcV]
  · have hn0 : s.n = 0 := by omega
    have hg0 : (s.reset).get = none := by simp [Src.get, Src.reset, hn0]
    have hget0 : X ".get!" [.record [("n", .int s.n), ("cur", .int 0)]] = .raise "IndexError" := by
      have := hget ⟨s.n, 0⟩
      simpa [Src.get, hn0] using this
    simp only [Src.reset] at hg0
    orch_eval [hreset, hget0, recordSet, Src.reset, hg0, allSome, indexOf, obsFlow]

/-- RE-ITERATION: what `__iter__` yields (and where it leaves the source) depends only on the NUMBER of steps, not on the cursor
    an earlier — completed or abandoned — iteration left behind: the source is reset at the start of every iteration.  In
    particular iterating the same sequence object twice yields the same steps twice. -/
theorem C15_source_sequence_reiter {X : Ext} {fuel : Nat} (hX : SrcExt X fuel) (s s' : Src) (hn : s'.n = s.n)
    (hfuel : s.n ≤ fuel + 1) :
    Gen.c15oSeqIterSrc.runSelf X [seqSelfV s'] = Gen.c15oSeqIterSrc.runSelf X [seqSelfV s] := by
  rw [C15_source_sequence_iter hX s hfuel, C15_source_sequence_iter hX s' (by omega)]
  have : iterSeq s' = iterSeq s := by simp [iterSeq, Src.reset, hn]
  rw [this]

/-- … the second of two consecutive full iterations starts from the state the first one left and yields the same items -/
theorem C15_source_sequence_iter_twice {X : Ext} {fuel : Nat} (hX : SrcExt X fuel) (s : Src) (hfuel : s.n ≤ fuel + 1) :
    Gen.c15oSeqIterSrc.runSelf X [seqSelfV (iterSeq s).2] = Gen.c15oSeqIterSrc.runSelf X [seqSelfV s] := by
  refine C15_source_sequence_reiter hX s (iterSeq s).2 ?_ hfuel
  have h : ∀ t : Src, (iterLoop t).2.n = t.n := by
    intro t
    induction t using iterLoop.induct with
    | case1 t hlt ih => rw [iterLoop]; simp only [hlt, dite_true]; rw [ih]; simp [Src.step]
    | case2 t hlt => rw [iterLoop]; simp [hlt, Src.step]
  simp [iterSeq, h, Src.reset]

end Fc
