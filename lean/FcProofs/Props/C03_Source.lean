/-
  FcProofs.Props.C03_Source — C03, tie to the source text by TRANSLATION (see C04_Source.lean).
  Translated bodies: `Fc.Gen.c03FindCompatibleSrc`, `Fc.Gen.c03WithoutCompatiblesSrc`
  (harness/fcv/tables/pylite_c03.py) of `mesh/_mesh_equal.py`; model: `Fc.C03.findCompatible`,
  `Fc.C03.withoutCompatibles` (FcModel/MeshEqual.lean).  Assumptions about the callees (set operations,
  `itertools.product`, `CellType.is_compatible_with` — the latter is `C16_source_is_compatible_with`):
  `PyLite.C03.SetExt` (FcProofs/Lemmas/PyLiteC03.lean).
-/
import FcGen.Tables
import FcProofs.Lemmas.PyLiteC03
set_option linter.unusedSimpArgs false
namespace Fc
open PyLite PyLite.C03

/-- `_find_compatible(cts, ct)` is the model's `findCompatible`: the first `c` (in iteration order) with
    `c.is_compatible_with(ct)` — receiver and argument in this order —, `RuntimeError` if there is none. -/
theorem C03_source_find_compatible (X : Ext) (hX : SetExt X) (l : List String) (ct : String) :
    Gen.c03FindCompatibleSrc.run X [cts l, ctv ct] =
      match C03.findCompatible l ct with
      | some c => .ok (ctv c)
      | none => .raise "RuntimeError" := by
  simp only [Gen.c03FindCompatibleSrc, cts, C03.findCompatible]
  pylite_eval
  generalize hf : forLoop _ _ _ = r
  have key := forLoop_find_eq ctv (fun c => C03.compatible c ct)
    (fun st => st.env.lookup "v1" = some (ctv ct))
    (fun a v _ => v = ctv a) hf (by simp [List.lookup]) (by
      intro a _ st h1
      constructor <;> intro hp <;> simp [hX.compatible, hp, h1, List.lookup])
  cases hfind : List.find? (fun c => C03.compatible c ct) l with
  | none =>
    rw [hfind] at key
    obtain ⟨st', rfl, _⟩ := key
    rfl
  | some c =>
    rw [hfind] at key
    obtain ⟨v, st', rfl, rfl⟩ := key
    rfl

/-- `_without_compatibles(source_only, target_only)` is the model's `withoutCompatibles`: every pair
    `(c1, c2)` of the product with `c1.is_compatible_with(c2)` puts both into `to_remove`; the result is
    `source_only ∪ target_only` without `to_remove`. -/
theorem C03_source_without_compatibles (X : Ext) (hX : SetExt X) (so to : List String) :
    Gen.c03WithoutCompatiblesSrc.run X [cts so, cts to] = .ok (cts (C03.withoutCompatibles so to)) := by
  generalize hw : C03.withoutCompatibles so to = w
  simp only [Gen.c03WithoutCompatiblesSrc]
  pylite_eval [hX.empty, hX.product, productVal]
  generalize hf : forLoop _ _ _ = r
  have key := forLoop_fold_eq pairVal
    (fun acc p => acc ++ (if C03.compatible p.1 p.2 then [p.1, p.2] else []))
    (fun acc st => st.env.lookup "v0" = some (cts so) ∧ st.env.lookup "v1" = some (cts to) ∧
      st.env.lookup "v2" = some (cts acc)) hf [] (by simp [List.lookup]) (by
      intro p acc st ⟨e0, e1, e2⟩
      have hs : X "set" [Val.list [ctv p.1, ctv p.2]] = .ok (cts [p.1, p.2]) := hX.ofList [p.1, p.2]
      cases hc : C03.compatible p.1 p.2 <;>
        simp [pairVal, hX.compatible, hc, e0, e1, e2, List.lookup, hs, hX.union, bindAll, St.set])
  obtain ⟨st', rfl, e0, e1, e2⟩ := key
  simp only [e0, e1, e2, hX.union, hX.difference, foldl_append_flatMap, pairs, flatMap_product, Res.bind, Res.map,
    evalList, List.nil_append]
  rw [← hw]
  rfl

end Fc
