/-
  FcProofs.Props.C01_Source — C01/C09, tie to the source text by TRANSLATION (see C04_Source.lean).
  `predicates/_predicates.py: _reshape` (`Fc.Gen.c01ReshapeSrc`, harness/fcv/tables/pylite_c01.py)
  against the model's `reshapePair` (FcModel/Predicates.lean).
-/
import FcGen.Tables
import FcProofs.Lemmas.PyLiteC01
set_option linter.unusedSimpArgs false
namespace Fc
open PyLite PyLite.C01

/-- `_reshape` returns the two arrays with the shapes of the model's `reshapePair`, for all shapes
    (a trailing 1 is appended to the array that has one dimension less when the other one ends in 1);
    the external calls mean what `reshapeExt` says. -/
theorem C01_source_reshape (d1 d2 : Val) (s1 s2 : List Nat) :
    Gen.c01ReshapeSrc.run reshapeExt [arrVal d1 s1, arrVal d2 s2]
      = .ok (.list [arrVal d1 (reshapePair s1 s2).1, arrVal d2 (reshapePair s1 s2).2]) := by
  have getLast_some : ∀ s : List Nat, 0 < s.length → ∃ x, s.getLast? = some x := by
    intro s h
    cases hs : s.getLast? with
    | some x => exact ⟨x, rfl⟩
    | none =>
      have : s = [] := by simpa using hs
      subst this
      simp at h
  simp only [Gen.c01ReshapeSrc, arrVal, natList, reshapePair]
  by_cases hA : s1.length = s2.length + 1
  · -- first array has one dimension more
    obtain ⟨x, hx⟩ := getLast_some s1 (by omega)
    have c1 : ((s1.length : Int) = (s2.length : Int) + 1) = True := eq_true (by omega)
    have b1 : ((s1.length : Int) == (s2.length : Int) + 1) = true := by simp; omega
    have c2 : ((s2.length : Int) = (s1.length : Int) + 1) = False := eq_false (by omega)
    have b2 : ((s2.length : Int) == (s1.length : Int) + 1) = false := by simp; omega
    by_cases hx1 : x = 1
    · subst hx1
      have m2 : ¬ (s2.length = s1.length) := by omega
      pylite_eval [reshapeExt, indexOf_natList_last, c1, b1, c2, b2, hx, eq_true hA, m2]
    · have hx1' : ((x : Int) == 1) = false := by simp; omega
      have m2 : ¬ (s2.length = s1.length + 1) := by omega
      pylite_eval [reshapeExt, indexOf_natList_last, c1, b1, c2, b2, hx, eq_true hA, hx1, hx1', m2]
  · have c1 : ((s1.length : Int) = (s2.length : Int) + 1) = False := eq_false (by omega)
    have b1 : ((s1.length : Int) == (s2.length : Int) + 1) = false := by simp; omega
    by_cases hB : s2.length = s1.length + 1
    · obtain ⟨y, hy⟩ := getLast_some s2 (by omega)
      have c2 : ((s2.length : Int) = (s1.length : Int) + 1) = True := eq_true (by omega)
      have b2 : ((s2.length : Int) == (s1.length : Int) + 1) = true := by simp; omega
      by_cases hy1 : y = 1
      · subst hy1
        pylite_eval [reshapeExt, indexOf_natList_last, c1, b1, c2, b2, hy, eq_false hA, eq_true hB]
      · have hy1' : ((y : Int) == 1) = false := by simp; omega
        pylite_eval [reshapeExt, indexOf_natList_last, c1, b1, c2, b2, hy, eq_false hA, eq_true hB, hy1, hy1']
    · have c2 : ((s2.length : Int) = (s1.length : Int) + 1) = False := eq_false (by omega)
      have b2 : ((s2.length : Int) == (s1.length : Int) + 1) = false := by simp; omega
      pylite_eval [reshapeExt, indexOf_natList_last, c1, b1, c2, b2, eq_false hA, eq_false hB]

end Fc
