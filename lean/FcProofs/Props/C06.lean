/-
  Property C06 — A partitioned (parallel) data set reads as the whole data set.
  Only property theorems live here; helper lemmas are in
  FcProofs/Lemmas/{Merge,MergeStep,MergeStructured,MergeDecomposition,MergeDecomposition3,MergeRead,MergeHyp}.lean.

  Model:  `Fc.merge1`, `Fc.mergeAll`, `Fc.mapDuplicatePoints`, `Fc.mapExternal`, `Fc.filterExternal`
          (FcModel/Merge.lean — mesh/_transformations.py merge/_merge/…),
          `Fc.C06.mergeStructured`, `pieceEntityIndices`, `structuredDecomposition`, `pvtkMergeField`,
          `pvtrOrdinates`, `pvtiMesh`, `pvtsPoints`, `pvtkReadStructured`
          (FcModel/StructuredMerge.lean — StructuredFieldMerger, _get_structured_decomposition,
          _merge_structured and the three _make_structured_mesh of io/vtk/_pvtk_readers.py)
  Spec:   `Fc.C06.Spec.readsAsWhole`, `isPartition`, `wholeField`, `restrictField`; for the structured
          theorems `decompOk`, `meshedDirs`, `mergerOf`, `restrictLoc`, `pieceFile`, `wholeRead`, `wholeOk`
-/
import FcProofs.Lemmas.Merge
import FcProofs.Lemmas.MergeStep
import FcProofs.Lemmas.MergeStructured
import FcProofs.Lemmas.MergeDecomposition
import FcProofs.Lemmas.MergeDecomposition3
import FcProofs.Lemmas.MergeRead
import FcProofs.Lemmas.MergeHyp
namespace Fc
open Fc.C06 Fc.C06.Spec

/-- **C06 (index remapping).**  For every duplicate map `dups` (entry `i` = `some j`: local point `i`
    of the later piece is global point `j`) and every offset (= number of points merged so far):
    `_map_external_indices` has one entry per local point, sends every duplicate to its partner, and
    sends the `r`-th kept local point — `_filter_external_indices` lists the kept ones in increasing
    order — to `offset + r`, i.e. to the position where that very point is appended.  Kept local
    points and appended global points `offset, offset+1, …` are thus in bijection. -/
theorem C06_map_external (dups : List (Option Nat)) (offset : Nat) :
    (mapExternal dups offset).length = dups.length ∧
    (∀ k j : Nat, dups[k]? = some (some j) → (mapExternal dups offset)[k]? = some j) ∧
    (∀ r k : Nat, (filterExternal dups)[r]? = some k →
        dups[k]? = some none ∧ (mapExternal dups offset)[k]? = some (offset + r)) ∧
    (∀ k : Nat, dups[k]? = some none → ∃ r : Nat, (filterExternal dups)[r]? = some k) ∧
    (filterExternal dups).Pairwise (· < ·) := by
  refine ⟨mapExternalGo_length offset dups 0 0, ?_, ?_, ?_, filterExternal_sorted dups⟩
  · intro k j h
    exact mapExternalGo_dup offset dups 0 0 k j h
  · intro r k h
    refine ⟨(mem_filterExternal dups k).mp (List.mem_of_getElem? h), ?_⟩
    have := mapExternalGo_kept offset dups 0 0 (Nat.le_refl _) r k h
    simpa [mapExternal] using this
  · intro k h
    obtain ⟨r, hr, hrk⟩ := List.getElem_of_mem ((mem_filterExternal dups k).mpr h)
    exact ⟨r, by rw [List.getElem?_eq_getElem hr, hrk]⟩

/-- **C06 (duplicate search).**  `src` = points of the later piece (no two coincide, all rows of
    length `d`), `tgt` = points of the mesh merged so far, `sidx` = *any* lexicographic sorting
    permutation of `src` (what `np.lexsort` returns).  Then the dict built by `_map_duplicate_points`
    (lexsort + lower-bound binary search + exact comparison) has one slot per point of the piece,
    relates only bit-identical points, and finds **every** point of the piece that is bit-identical
    to some point of the earlier mesh. -/
theorem C06_dup_search (src tgt : List (List Int)) (sidx : List Nat) (d : Nat)
    (hs : IsLexSort src sidx) (hd : ∀ p ∈ src, p.length = d) (hnd : NodupRows src) :
    (mapDuplicatePoints sidx src tgt).length = src.length ∧
    (∀ i j : Nat, (mapDuplicatePoints sidx src tgt)[i]? = some (some j) →
        j < tgt.length ∧ i < src.length ∧ src.getD i [] = tgt.getD j []) ∧
    (∀ i j : Nat, i < src.length → j < tgt.length → src.getD i [] = tgt.getD j [] →
        ∃ j' : Nat, (mapDuplicatePoints sidx src tgt)[i]? = some (some j')) := by
  obtain ⟨h1, h2, h3⟩ := mapDuplicatePoints_inv src tgt sidx d hs hd hnd
  exact ⟨h1, h2, h3⟩

/-- **C06 (the assumption on `np.lexsort` is satisfiable).**  The stable insertion sort the driver
    uses in place of `np.lexsort` is a lexicographic sorting permutation, for rows of equal length. -/
theorem C06_lexsort_sorts (pts : List (List Int)) (d : Nat) (hd : ∀ p ∈ pts, p.length = d) :
    IsLexSort pts (lexsortIdx pts) :=
  lexsortIdx_isLexSort pts d hd

/-- **C06 (one `_merge` step).**  `f1` = the mesh merged so far, `f2` = the next piece; both without
    coincident points, corner indices in range, fields `cnames` / `pnames` present and well-formed
    (`PieceOk`); `srt` any lexicographic sort.  If the piece brings at least one point that is not
    in `f1` (the F3-excluding hypothesis), then
    * for EVERY cell type the merged data set lists exactly `f1`'s cells followed by `f2`'s cells, each
      with its corner coordinates and its cell data (equality of lists: nothing lost, nothing twice);
    * the merged point items are `f1`'s followed by those of the piece's non-duplicate points;
    * a coordinate occurs in the merged mesh iff it occurs in `f1` or `f2`, and occurs once;
    * the result satisfies `PieceOk` again (so the step can be iterated). -/
theorem C06_merge_step_partial (srt : List (List Int) → List Nat) (hsrt : SortsRows srt)
    (f1 f2 : MeshFields) (d : Nat) (cnames pnames : List String) (rsC rsP : String → Nat) (dtC dtP : String → DType)
    (h1 : PieceOk f1 d cnames pnames rsC rsP dtC dtP) (h2 : PieceOk f2 d cnames pnames rsC rsP dtC dtP)
    (hnew : bringsNewPoint f1.mesh.points f2.mesh.points = true) :
    (∀ ct, cellItemsOf (merge1 srt f1 f2) cnames ct = cellItemsOf f1 cnames ct ++ cellItemsOf f2 cnames ct) ∧
    pointItemsOf (merge1 srt f1 f2) pnames =
      pointItemsOf f1 pnames ++ (filterExternal (stepDups srt f1 f2)).map (pointItemBy f2 pnames) ∧
    (∀ q, q ∈ (merge1 srt f1 f2).mesh.points ↔ q ∈ f1.mesh.points ∨ q ∈ f2.mesh.points) ∧
    (merge1 srt f1 f2).mesh.points.Nodup ∧
    PieceOk (merge1 srt f1 f2) d cnames pnames rsC rsP dtC dtP := by
  have hinv := stepDups_inv srt hsrt f1 f2 d cnames pnames rsC rsP dtC dtP h2
  have hfilt := filter_nonempty_of_new _ _ _ hinv hnew
  rw [merge1_eq_stepResult srt f1 f2 hfilt]
  have hok := stepResult_ok srt f1 f2 d cnames pnames rsC rsP dtC dtP h1 h2 hinv
  exact ⟨cellItemsOf_step srt f1 f2 d cnames pnames rsC rsP dtC dtP h1 h2 hinv,
    pointItemsOf_step srt f1 f2 d cnames pnames rsC rsP dtC dtP h1 h2 hinv,
    fun q => mem_mergedPoints _ _ _ hinv q, hok.nodup, hok⟩

/-- **C06 (finding F3, in general).**  Whenever every point of the next piece already exists in the
    mesh merged so far, `_merge` returns the earlier mesh unchanged — whatever cells and cell data
    the piece carries. (This is the negation of the hypothesis of `C06_merge_step_partial`.) -/
theorem C06_merge_drops_piece_without_new_point (srt : List (List Int) → List Nat) (hsrt : SortsRows srt)
    (f1 f2 : MeshFields) (d : Nat) (cnames pnames : List String) (rsC rsP : String → Nat) (dtC dtP : String → DType)
    (h2 : PieceOk f2 d cnames pnames rsC rsP dtC dtP)
    (hnew : bringsNewPoint f1.mesh.points f2.mesh.points = false) :
    merge1 srt f1 f2 = f1 :=
  merge1_eq_left srt f1 f2
    (filter_empty_of_not_new _ _ _ (stepDups_inv srt hsrt f1 f2 d cnames pnames rsC rsP dtC dtP h2) hnew)

/-
  Full-strength statement (FALSE for the current code, see FcProofs/Witness/C06.lean, finding F3):

    theorem C06_unstructured  … same hypotheses WITHOUT `hnew : f3Class pieces = false` …
-/

/-- **C06 (unstructured, any splitting, any piece order).**  `pieces` = the pieces in listing order
    (any order), `whole` = the unpartitioned data set, conforming (no coincident points).
    `hcells`: every cell of the whole data set is in exactly one piece (per cell type, with corner
    coordinates and cell data — any assignment of cells to pieces); `hpts1`/`hpts2`: the pieces'
    points are points of the whole data set with the same field values (single-valued fields) and
    every point of the whole data set is in some piece.  If **every later piece brings at least one
    new point** (`f3Class pieces = false`), then `merge(*pieces)` has, for every cell type, exactly the
    cells of the whole data set (up to reordering, with multiplicity), exactly its points — each
    once — with their field values, and every field keeps the numeric type it has in the pieces
    (`PieceOk … dtC dtP` of the result). -/
theorem C06_unstructured_partial (srt : List (List Int) → List Nat) (hsrt : SortsRows srt)
    (d : Nat) (cnames pnames : List String) (rsC rsP : String → Nat) (dtC dtP : String → DType)
    (whole : MeshFields) (pieces : List MeshFields)
    (hp : ∀ f ∈ pieces, PieceOk f d cnames pnames rsC rsP dtC dtP)
    (hconf : whole.mesh.points.Nodup)
    (hcells : ∀ ct, (cellItemsOf whole cnames ct).Perm (pieces.flatMap (cellItemsOf · cnames ct)))
    (hpts1 : ∀ f ∈ pieces, ∀ it ∈ pointItemsOf f pnames, it ∈ pointItemsOf whole pnames)
    (hpts2 : ∀ it ∈ pointItemsOf whole pnames, ∃ f ∈ pieces, it ∈ pointItemsOf f pnames)
    (hne : pieces ≠ [])
    (hnew : f3Class pieces = false) :
    ∃ m, mergeAll srt pieces = some m ∧
      (∀ ct, (cellItemsOf m cnames ct).Perm (cellItemsOf whole cnames ct)) ∧
      (pointItemsOf m pnames).Perm (pointItemsOf whole pnames) ∧
      m.mesh.points.Nodup ∧
      -- in particular (`PieceOk.cfDType/pfDType`): every field of the result has the numeric type
      -- `dtC name` / `dtP name` that it has in every piece
      PieceOk m d cnames pnames rsC rsP dtC dtP := by
  cases pieces with
  | nil => exact absurd rfl hne
  | cons f rest =>
    simp only [f3Class, Bool.not_eq_false'] at hnew
    obtain ⟨hok, hc, hpt⟩ := mergeFold_spec srt hsrt d cnames pnames rsC rsP dtC dtP
      (pointItemsOf whole pnames) (pointItems_single_valued whole pnames hconf)
      rest f f.mesh.points (hp f (List.mem_cons_self ..))
      (fun g hg => hp g (List.mem_cons_of_mem _ hg)) (fun _ => Iff.rfl)
      (hpts1 f (List.mem_cons_self ..)) (fun g hg => hpts1 g (List.mem_cons_of_mem _ hg)) hnew
    refine ⟨rest.foldl (merge1 srt) f, rfl, ?_, ?_, hok.nodup, hok⟩
    · intro ct
      rw [hc ct]
      exact (hcells ct).symm
    · rw [List.perm_iff_count]
      intro it
      rw [(pointItemsOf_nodup _ pnames hok.nodup).count, (pointItemsOf_nodup whole pnames hconf).count]
      have : it ∈ pointItemsOf (rest.foldl (merge1 srt) f) pnames ↔ it ∈ pointItemsOf whole pnames := by
        rw [hpt it]
        constructor
        · rintro (h | ⟨g, hg, h⟩)
          · exact hpts1 f (List.mem_cons_self ..) it h
          · exact hpts1 g (List.mem_cons_of_mem _ hg) it h
        · intro h
          obtain ⟨g, hg, hgi⟩ := hpts2 it h
          rcases List.mem_cons.mp hg with rfl | hg'
          · exact Or.inl hgi
          · exact Or.inr ⟨g, hg', hgi⟩
      simp only [this]

/-- **C06 (the driver's hypothesis is the theorems' hypothesis).**  `mergeHyp` is the decidable
    hypothesis the driver evaluates on every correspondence case (every piece well-formed, without
    coincident points, with complete cell data; all pieces of one space dimension and one field
    schema).  It implies `PieceOk` — the hypothesis of `C06_merge_step_partial` /
    `C06_unstructured_partial` — for every piece, with ONE dimension, ONE set of field names (those
    of the first listed piece) and ONE entry size and numeric type per field name. -/
theorem C06_hyp_sound (f0 : MeshFields) (rest : List MeshFields) (h : mergeHyp (f0 :: rest) = true) :
    ∃ (rsC rsP : String → Nat) (dtC dtP : String → DType), ∀ f ∈ f0 :: rest,
      PieceOk f f0.mesh.dim (dedupNames (f0.cellFields.map (·.name))) (f0.pointFields.map (·.name))
        rsC rsP dtC dtP :=
  ⟨_, _, _, _, mergeHyp_sound f0 rest h⟩

/-- **C06 (unstructured, stated with the decidable hypothesis).**  `C06_unstructured_partial` with
    `PieceOk` replaced by the Bool `mergeHyp` the driver prints (`hyp=1`): what the harness re-checks
    at run time on every generated partition (hyp ∧ partition ∧ conforming ∧ ¬F3 ⇒ reads as the
    whole) is this theorem.  Still `_partial`: `f3Class pieces = false` is necessary (finding F3). -/
theorem C06_unstructured_hyp_partial (srt : List (List Int) → List Nat) (hsrt : SortsRows srt)
    (whole f0 : MeshFields) (rest : List MeshFields)
    (hyp : mergeHyp (f0 :: rest) = true)
    (hconf : whole.mesh.points.Nodup)
    (hcells : ∀ ct, (cellItemsOf whole (dedupNames (f0.cellFields.map (·.name))) ct).Perm
      ((f0 :: rest).flatMap (cellItemsOf · (dedupNames (f0.cellFields.map (·.name))) ct)))
    (hpts1 : ∀ f ∈ f0 :: rest, ∀ it ∈ pointItemsOf f (f0.pointFields.map (·.name)),
      it ∈ pointItemsOf whole (f0.pointFields.map (·.name)))
    (hpts2 : ∀ it ∈ pointItemsOf whole (f0.pointFields.map (·.name)),
      ∃ f ∈ f0 :: rest, it ∈ pointItemsOf f (f0.pointFields.map (·.name)))
    (hnew : f3Class (f0 :: rest) = false) :
    ∃ (rsC rsP : String → Nat) (dtC dtP : String → DType) (m : MeshFields),
      (∀ f ∈ f0 :: rest, PieceOk f f0.mesh.dim (dedupNames (f0.cellFields.map (·.name)))
        (f0.pointFields.map (·.name)) rsC rsP dtC dtP) ∧
      mergeAll srt (f0 :: rest) = some m ∧
      (∀ ct, (cellItemsOf m (dedupNames (f0.cellFields.map (·.name))) ct).Perm
        (cellItemsOf whole (dedupNames (f0.cellFields.map (·.name))) ct)) ∧
      (pointItemsOf m (f0.pointFields.map (·.name))).Perm (pointItemsOf whole (f0.pointFields.map (·.name))) ∧
      m.mesh.points.Nodup ∧
      -- every field of the result has the entry size and numeric type it has in every piece
      PieceOk m f0.mesh.dim (dedupNames (f0.cellFields.map (·.name))) (f0.pointFields.map (·.name))
        rsC rsP dtC dtP := by
  obtain ⟨m, hm, hc, hp, hnd, hok⟩ := C06_unstructured_partial srt hsrt _ _ _ _ _ _ _ whole (f0 :: rest)
    (mergeHyp_sound f0 rest hyp) hconf hcells hpts1 hpts2 (List.cons_ne_nil _ _) hnew
  exact ⟨_, _, _, _, m, mergeHyp_sound f0 rest hyp, hm, hc, hp, hnd, hok⟩

/-- **C06 (structured index maps).**  For every dimension, every lattice shape and every axis-aligned
    decomposition `d` (cells per piece along each direction; every direction has at least one piece):
    * cells: the index lists `pieceEntityIndices` of all pieces together are a permutation of
      `0 … N_cells-1` — every global cell index is written exactly once;
    * points: every global point index is written by at least one piece, and no piece writes
      outside `0 … N_points-1`. -/
theorem C06_structured_index (d : List (List Nat)) (hne : ∀ ns ∈ d, ns ≠ []) :
    ((locationsIn (piecesShape d)).flatMap (pieceEntityIndices false d)).Perm
        (List.range (prodShape (mergedCellShape d))) ∧
    (∀ g, g < prodShape (mergedPointShape d) →
        ∃ loc ∈ locationsIn (piecesShape d), g ∈ pieceEntityIndices true d loc) ∧
    (∀ loc ∈ locationsIn (piecesShape d), ∀ g ∈ pieceEntityIndices true d loc,
        g < prodShape (mergedPointShape d)) := by
  have hm : mergedPointShape d = mShape 1 d := by simp [mergedPointShape, mShape]
  refine ⟨allCellIndices_perm d, ?_, ?_⟩
  · intro g hg
    rw [hm] at hg
    obtain ⟨loc, it, hloc, hit, hflat⟩ := structured_cover 1 d (Or.inr hne) g hg
    exact ⟨loc, (mem_locationsIn _ _).mpr hloc, (mem_pieceEntityIndices true d loc g).mpr ⟨it, hit, hflat⟩⟩
  · intro loc hloc g hg
    obtain ⟨it, hit, rfl⟩ := (mem_pieceEntityIndices true d loc g).mp hg
    rw [hm]
    exact structured_in_range 1 d loc it ((mem_locationsIn _ _).mp hloc) hit

/-- **C06 (structured merge, value level).**  If every piece carries the restriction of one global
    field `G` (single-valued data: pieces agree on shared points), `StructuredFieldMerger._merge`
    returns exactly the whole field — for point and for cell data, any dimension, any decomposition,
    whatever the order in which pieces overwrite shared points. -/
theorem C06_structured_merge {α} (isPoint : Bool) (d : List (List Nat))
    (hne : isPoint = false ∨ ∀ ns ∈ d, ns ≠ []) (G : Nat → α) (cb : List Nat → List α) (zero : α)
    (hcb : ∀ loc ∈ locationsIn (piecesShape d), cb loc = restrictField isPoint d G loc) :
    mergeStructured isPoint d cb zero = wholeField (prodShape (mergedShape isPoint d)) G :=
  mergeStructured_whole isPoint d hne G cb zero hcb

/-- **C06 (decomposition, one axis).**  An axis cut into pieces of `ns` cells (all positive — or a
    flat direction, which has a single piece without cells), grid starting at lattice index `o`;
    `bs` = the positions along this axis of the listed pieces, in ANY order and with ANY repetitions
    (pieces of a 2-d / 3-d decomposition repeat every position), every position occurring.  Then
    `np.unique` of the pieces' begins / ends are the begins / ends of positions `0, 1, …` in order,
    their differences `sizes_along_axis` are exactly `ns`, and `unique_extents_begin.index(begin)` of
    a piece is its true position.  (The three-axis assembly is `C06_decomposition`.) -/
theorem C06_decomposition_axis (o : Int) (ns : List Nat) (hpos : ns.length ≤ 1 ∨ ∀ n ∈ ns, 0 < n)
    (bs : List Nat) (hbs : ∀ b, b ∈ bs ↔ b < ns.length) :
    List.zipWith (fun e b => e - b) (uniqueSorted (bs.map (axisEnd o ns)))
        (uniqueSorted (bs.map (axisBegin o ns))) = ns.map Int.ofNat ∧
    ∀ b, b < ns.length → (uniqueSorted (bs.map (axisBegin o ns))).idxOf (axisBegin o ns b) = b := by
  obtain ⟨hb, he⟩ := axis_recovery o ns hpos bs hbs
  rw [hb, he]
  exact axis_sizes_idx o ns hpos

/-- **C06 (rectilinear ordinates, one axis).**  An axis with ordinates `W` cut into pieces of `ns`
    cells (all positive, at least one piece): piece `b` carries `W[off_b … off_b + ns[b]]`.  Writing the
    pieces' ordinates one after the other, each starting where the previous one ended (the loop of
    `PVTRReader._make_structured_mesh`), reproduces exactly `W` — for every such cut. -/
theorem C06_pvtr_line (W : List Int) (ns : List Nat) (hpos : ∀ n ∈ ns, 0 < n) (hne : ns ≠ [])
    (hlen : W.length = sumList ns + 1) :
    assembleLine (List.replicate W.length 0) (axisPieces W 0 ns) = some W :=
  assembleLineGo_spec W ns hpos hne _ 0 (by simp) (by simp) (by omega)

/-- **C06 (rectilinear ordinates, given the consulted pieces).**  Direction `dir` of the merged `.pvtr`
    grid, for ANY decomposition object `sd`:
    * flat direction whose first listed piece carries the single ordinate `x`: the merged grid has `[x]`;
    * meshed direction with true ordinates `W`, cut into `ns`: if the pieces consulted through
      `domain_id` are the pieces of this axis in order, the merged ordinates are exactly `W`.
    (Formerly `C06_pvtr_ordinates_partial`; its hypothesis is discharged for every axis-aligned
    decomposition in `C06_pvtr_ordinates` below.) -/
theorem C06_pvtr_ordinates_given_consulted (sd : StructuredDecomposition) (pieceOrds : List (List (List Int)))
    (dir : Nat) :
    (sd.isMeshed dir = false → sd.mergedExtents.getD dir 0 = 0 →
      ∀ x, ((pieceOrds.getD 0 []).getD dir []).take 1 = [x] → pvtrLine sd pieceOrds dir = some [x]) ∧
    (sd.isMeshed dir = true → ∀ (W : List Int) (ns : List Nat), (∀ n ∈ ns, 0 < n) → ns ≠ [] →
      W.length = sumList ns + 1 → (sd.mergedExtents.getD dir 0).toNat + 1 = W.length →
      ((List.range (sd.cellsPerAxis.getD dir []).length).mapM fun i => do
          let id ← sd.domainIdChecked (pvtrDomainLocation sd (sd.meshedDimensions.idxOf dir) i)
          pure ((pieceOrds.getD id []).getD dir [])) = some (axisPieces W 0 ns) →
      pvtrLine sd pieceOrds dir = some W) :=
  ⟨fun hm hext x hx => pvtrLine_flat sd pieceOrds dir hm hext x hx,
   fun hm W ns hpos hne hlen hext hcons => pvtrLine_meshed sd pieceOrds dir hm W ns hpos hne hlen hext hcons⟩

/-- **C06 (decomposition recovery, three axes).**  `d3` = any axis-aligned decomposition of the three
    VTK directions (`decompOk`: every direction is flat — the single entry 0 — or meshed with ≥ 1 piece
    of ≥ 1 cell each; any lattice shape, any dimension 0–3, flat directions anywhere), `origin` = any
    lower corner of the `WholeExtent`, `L` = the pieces LISTED IN ANY ORDER (a permutation of all piece
    locations).  From the `Extent` attributes alone `_get_structured_decomposition` recovers
    * the true cells per piece along every axis, hence the true meshed directions, the true
      decomposition handed to `StructuredFieldMerger` and the true merged extents;
    * for every listed piece its true location among the meshed directions;
    * an `order` / `domain_id` map that is the inverse of the listing: the location of the piece listed
      at position `i` is inside the `order` array and answers `i`; and every location `ℓ` of the merger
      is the location of a listed piece — the piece whose extents begin at the `ℓ`-th unique begins —
      and `domain_id(ℓ)` is the listing position of that piece. -/
theorem C06_decomposition (d3 : List (List Nat)) (origin : List Int) (L : List (List Nat))
    (hd : decompOk d3 = true) (hL : L.Perm (locationsIn (piecesShape d3))) :
    (structuredDecomposition (L.map (pieceExtent d3 origin))).cellsPerAxis = d3.map (·.map Int.ofNat) ∧
    (structuredDecomposition (L.map (pieceExtent d3 origin))).meshedDimensions = meshedDirs d3 ∧
    (structuredDecomposition (L.map (pieceExtent d3 origin))).mergerDecomposition = mergerOf d3 ∧
    (structuredDecomposition (L.map (pieceExtent d3 origin))).mergedExtents =
      d3.map (fun ns => ((sumList ns : Nat) : Int)) ∧
    (structuredDecomposition (L.map (pieceExtent d3 origin))).pieceLocations =
      L.map (restrictLoc (meshedDirs d3)) ∧
    (∀ i, i < L.length →
      (structuredDecomposition (L.map (pieceExtent d3 origin))).domainIdChecked
        (restrictLoc (meshedDirs d3) (L.getD i [])) = some i) ∧
    (∀ loc ∈ locationsIn (piecesShape (mergerOf d3)), ∃ i, i < L.length ∧
      restrictLoc (meshedDirs d3) (L.getD i []) = loc ∧
      (structuredDecomposition (L.map (pieceExtent d3 origin))).domainId loc = i) := by
  rw [structuredDecomposition_listing d3 origin hd L hL]
  refine ⟨rfl, sdOf_meshedDimensions d3 L, sdOf_mergerDecomposition d3 L, sdOf_mergedExtents d3 L, rfl,
    fun i hi => sdOf_domainId d3 hd L hL i hi, ?_⟩
  intro loc hloc
  obtain ⟨i, hi, hr⟩ := listing_at d3 hd L hL loc hloc
  exact ⟨i, hi, hr, by rw [← hr]; exact domainId_of_checked _ _ _ (sdOf_domainId d3 hd L hL i hi)⟩

/-- **C06 (structured parallel file, one field, value level).**  For every decomposition `d3`, every
    listing order `L` and every extent shift: if the piece listed at position `i` carries the
    restriction of one global field `G` to its entities (single-valued data), `_merge_point_fields` /
    `_merge_cell_fields` of the parallel reader — decomposition recovery, `domain_id` lookup and
    `StructuredFieldMerger` together — return exactly the whole field. -/
theorem C06_structured_fields {α} (isPoint : Bool) (d3 : List (List Nat)) (origin : List Int)
    (L : List (List Nat)) (hd : decompOk d3 = true) (hL : L.Perm (locationsIn (piecesShape d3)))
    (G : Nat → α) (pieceValues : List (List α)) (zero : α)
    (hv : ∀ i, i < L.length → pieceValues.getD i [] =
      restrictField isPoint (mergerOf d3) G (restrictLoc (meshedDirs d3) (L.getD i []))) :
    pvtkMergeField isPoint (L.map (pieceExtent d3 origin)) pieceValues zero =
      wholeField (prodShape (mergedShape isPoint (mergerOf d3))) G :=
  pvtkMergeField_listing isPoint d3 origin hd L hL G pieceValues zero hv

/-- **C06 (rectilinear ordinates of the merged grid).**  `W` = the three ordinate arrays of the whole
    grid (a flat direction has one ordinate); the piece listed at position `i` carries, along every
    direction, its part `pieceOrdinates` of them (both end points).  Then for every decomposition,
    listing order and extent shift `PVTRReader._make_structured_mesh` (fixed code 444374c) assembles
    exactly `W` — no assumption about which pieces are consulted is left. -/
theorem C06_pvtr_ordinates (d3 : List (List Nat)) (origin : List Int) (L : List (List Nat))
    (hd : decompOk d3 = true) (hL : L.Perm (locationsIn (piecesShape d3)))
    (W : List (List Int)) (hW3 : W.length = 3)
    (hW : ∀ dir, dir < 3 → (W.getD dir []).length = sumList (d3.getD dir []) + 1)
    (pieceOrds : List (List (List Int)))
    (hpo : ∀ i, i < L.length → ∀ dir, dir < 3 → (pieceOrds.getD i []).getD dir [] =
      pieceOrdinates (W.getD dir []) (d3.getD dir []) ((L.getD i []).getD dir 0)) :
    pvtrOrdinates (structuredDecomposition (L.map (pieceExtent d3 origin))) pieceOrds = some W := by
  rw [structuredDecomposition_listing d3 origin hd L hL]
  exact pvtrOrdinates_listing d3 hd L hL W hW3 hW pieceOrds hpo

/-- **C06 (image grid of the merged `.pvti`).**  For every decomposition, listing order and lower
    corner `origin` of the `WholeExtent`, and every `Origin` / `Spacing` / `Direction` attributes
    `O`, `S`, `B` (those of the first listed piece): `PVTIReader._make_structured_mesh` (fixed code
    110e1da) builds exactly the grid `VTIReader._make_mesh` (a3961d2) builds for the whole file —
    the same cells per direction, the same spacing and basis, and the same origin
    `O + B·(S ∘ lower)`, because the lowest structured index of all pieces is the lower end of the
    whole extent. -/
theorem C06_pvti_mesh (U : Nat) (d3 : List (List Nat)) (origin : List Int) (L : List (List Nat))
    (hd : decompOk d3 = true) (hL : L.Perm (locationsIn (piecesShape d3)))
    (O S : List Int) (B : List (List Int)) :
    pvtiMesh U (structuredDecomposition (L.map (pieceExtent d3 origin))) (L.map (pieceExtent d3 origin)) O S B =
      some (vtiMesh U (wholeExtent d3 origin) O S B) := by
  rw [structuredDecomposition_listing d3 origin hd L hL]
  exact pvtiMesh_listing U d3 origin hd L hL O S B

/-- **C06 (points of the merged `.pvts`).**  `p` = the points of the whole structured grid; the piece
    listed at position `i` carries its points.  `PVTSReader._make_structured_mesh` returns `p`. -/
theorem C06_pvts_points (d3 : List (List Nat)) (origin : List Int) (L : List (List Nat))
    (hd : decompOk d3 = true) (hL : L.Perm (locationsIn (piecesShape d3))) (p : List (List Int))
    (hp : p.length = prodShape (mergedShape true (mergerOf d3))) :
    pvtsPoints (L.map (pieceExtent d3 origin))
      (L.map fun loc3 => (pieceEntityIndices true (mergerOf d3) (restrictLoc (meshedDirs d3) loc3)).map
        (p.getD · [])) = p :=
  pvtsPoints_listing d3 origin hd L hL p hp

/-- **C06 (structured parallel file = the whole file).**  `w` = any whole `.vti` / `.vtr` / `.vts`
    file over a lattice (`wholeOk`: extent, geometry arrays of matching size, distinct field names,
    data arrays of matching length — any dtypes, any entry shapes), `d3` = ANY axis-aligned
    decomposition of it, `L` = the pieces listed in ANY order, `pieceFile w d3 origin loc3` = the
    piece file at `loc3` (its extent, its part of the geometry, its rows of every data array).
    Reading the parallel file (`_merge_structured`: decomposition recovery, field merging, mesh
    assembly) yields exactly what the whole file reads as: the same mesh (`C06_pvti_mesh`,
    `C06_pvtr_ordinates`, `C06_pvts_points`), and every point and cell data array identical in
    dtype, shape and values (`C06_structured_merge` under the recovered `domain_id`). -/
theorem C06_structured (U : Nat) (w : SFile) (d3 : List (List Nat)) (origin : List Int) (L : List (List Nat))
    (hd : decompOk d3 = true) (hL : L.Perm (locationsIn (piecesShape d3)))
    (hw : wholeOk w d3 origin = true) :
    pvtkReadStructured U (L.map (pieceFile w d3 origin)) = some (wholeRead U w) :=
  pvtkReadStructured_listing U w d3 origin hd L hL hw

end Fc
