/-
  Property C06 — A partitioned (parallel) data set reads as the whole data set.
  Only property theorems live here; helper lemmas are in FcProofs/Lemmas/{Merge,MergeStructured}.lean.

  Model:  `Fc.merge1`, `Fc.mergeAll`, `Fc.mapDuplicatePoints`, `Fc.mapExternal`, `Fc.filterExternal`
          (FcModel/Merge.lean — mesh/_transformations.py merge/_merge/…),
          `Fc.mergeStructured`, `Fc.pieceEntityIndices`, `Fc.structuredDecomposition`
          (FcModel/StructuredMerge.lean — StructuredFieldMerger, _get_structured_decomposition)
  Spec:   `Fc.Spec.readsAsWhole`, `Fc.Spec.isPartition`, `Fc.Spec.wholeField`, `Fc.Spec.restrictField`
-/
import FcProofs.Lemmas.Merge
import FcProofs.Lemmas.MergeStructured
namespace Fc
open Spec

/-- **C06 (index remapping).**  For every duplicate map `dups` (entry `i` = `some j`: local point `i`
    of the later piece is global point `j`) and every offset (= number of points merged so far):
    `_map_external_indices` has one entry per local point, sends every duplicate to its partner, and
    sends the `r`-th kept local point — `_filter_external_indices` lists the kept ones in increasing
    order — to `offset + r`, i.e. to the position where that very point is appended.  Kept local
    points and appended global points `offset, offset+1, …` are thus in bijection. -/
theorem C06_map_external (dups : List (Option Nat)) (offset : Nat) :
    (mapExternal dups offset).length = dups.length ∧
    (∀ k j : Nat, dups[k]? = some (some j) → (mapExternal dups offset)[k]? = some j) ∧
    (∀ r k : Nat, (filterExternal dups)[r]? = some k →
        dups[k]? = some none ∧ (mapExternal dups offset)[k]? = some (offset + r)) ∧
    (∀ k : Nat, dups[k]? = some none → ∃ r : Nat, (filterExternal dups)[r]? = some k) ∧
    (filterExternal dups).Pairwise (· < ·) := by
  refine ⟨mapExternalGo_length offset dups 0 0, ?_, ?_, ?_, filterExternal_sorted dups⟩
  · intro k j h
    exact mapExternalGo_dup offset dups 0 0 k j h
  · intro r k h
    refine ⟨(mem_filterExternal dups k).mp (List.mem_of_getElem? h), ?_⟩
    have := mapExternalGo_kept offset dups 0 0 (Nat.le_refl _) r k h
    simpa [mapExternal] using this
  · intro k h
    obtain ⟨r, hr, hrk⟩ := List.getElem_of_mem ((mem_filterExternal dups k).mpr h)
    exact ⟨r, by rw [List.getElem?_eq_getElem hr, hrk]⟩

/-- **C06 (duplicate search).**  `src` = points of the later piece (no two coincide, all rows of
    length `d`), `tgt` = points of the mesh merged so far, `sidx` = *any* lexicographic sorting
    permutation of `src` (what `np.lexsort` returns).  Then the dict built by `_map_duplicate_points`
    (lexsort + lower-bound binary search + exact comparison) has one slot per point of the piece,
    relates only bit-identical points, and finds **every** point of the piece that is bit-identical
    to some point of the earlier mesh. -/
theorem C06_dup_search (src tgt : List (List Int)) (sidx : List Nat) (d : Nat)
    (hs : IsLexSort src sidx) (hd : ∀ p ∈ src, p.length = d) (hnd : NodupRows src) :
    (mapDuplicatePoints sidx src tgt).length = src.length ∧
    (∀ i j : Nat, (mapDuplicatePoints sidx src tgt)[i]? = some (some j) →
        j < tgt.length ∧ i < src.length ∧ src.getD i [] = tgt.getD j []) ∧
    (∀ i j : Nat, i < src.length → j < tgt.length → src.getD i [] = tgt.getD j [] →
        ∃ j' : Nat, (mapDuplicatePoints sidx src tgt)[i]? = some (some j')) := by
  obtain ⟨h1, h2, h3⟩ := mapDuplicatePoints_inv src tgt sidx d hs hd hnd
  exact ⟨h1, h2, h3⟩

/-- **C06 (the assumption on `np.lexsort` is satisfiable).**  The stable insertion sort the driver
    uses in place of `np.lexsort` is a lexicographic sorting permutation, for rows of equal length. -/
theorem C06_lexsort_sorts (pts : List (List Int)) (d : Nat) (hd : ∀ p ∈ pts, p.length = d) :
    IsLexSort pts (lexsortIdx pts) :=
  lexsortIdx_isLexSort pts d hd

/-- **C06 (structured index maps).**  For every dimension, every lattice shape and every axis-aligned
    decomposition `d` (cells per piece along each direction; every direction has at least one piece):
    * cells: the index lists `pieceEntityIndices` of all pieces together are a permutation of
      `0 … N_cells-1` — every global cell index is written exactly once;
    * points: every global point index is written by at least one piece, and no piece writes
      outside `0 … N_points-1`. -/
theorem C06_structured_index (d : List (List Nat)) (hne : ∀ ns ∈ d, ns ≠ []) :
    ((locationsIn (piecesShape d)).flatMap (pieceEntityIndices false d)).Perm
        (List.range (prodShape (mergedCellShape d))) ∧
    (∀ g, g < prodShape (mergedPointShape d) →
        ∃ loc ∈ locationsIn (piecesShape d), g ∈ pieceEntityIndices true d loc) ∧
    (∀ loc ∈ locationsIn (piecesShape d), ∀ g ∈ pieceEntityIndices true d loc,
        g < prodShape (mergedPointShape d)) := by
  have hm : mergedPointShape d = mShape 1 d := by simp [mergedPointShape, mShape]
  refine ⟨allCellIndices_perm d, ?_, ?_⟩
  · intro g hg
    rw [hm] at hg
    obtain ⟨loc, it, hloc, hit, hflat⟩ := structured_cover 1 d (Or.inr hne) g hg
    exact ⟨loc, (mem_locationsIn _ _).mpr hloc, (mem_pieceEntityIndices true d loc g).mpr ⟨it, hit, hflat⟩⟩
  · intro loc hloc g hg
    obtain ⟨it, hit, rfl⟩ := (mem_pieceEntityIndices true d loc g).mp hg
    rw [hm]
    exact structured_in_range 1 d loc it ((mem_locationsIn _ _).mp hloc) hit

/-- **C06 (structured merge, value level).**  If every piece carries the restriction of one global
    field `G` (single-valued data: pieces agree on shared points), `StructuredFieldMerger._merge`
    returns exactly the whole field — for point and for cell data, any dimension, any decomposition,
    whatever the order in which pieces overwrite shared points. -/
theorem C06_structured_merge {α} (isPoint : Bool) (d : List (List Nat))
    (hne : isPoint = false ∨ ∀ ns ∈ d, ns ≠ []) (G : Nat → α) (cb : List Nat → List α) (zero : α)
    (hcb : ∀ loc ∈ locationsIn (piecesShape d), cb loc = restrictField isPoint d G loc) :
    mergeStructured isPoint d cb zero = wholeField (prodShape (mergedShape isPoint d)) G := by
  apply List.ext_getElem?
  intro g
  unfold mergeStructured wholeField
  by_cases hg : g < prodShape (mergedShape isPoint d)
  · have hcov : ∃ loc ∈ locationsIn (piecesShape d), g ∈ pieceEntityIndices isPoint d loc := by
      rw [mergedShape_eq] at hg
      obtain ⟨loc, it, hloc, hit, hflat⟩ := structured_cover (if isPoint then 1 else 0) d
        (hne.elim (fun h => Or.inl (by simp [h])) Or.inr) g hg
      exact ⟨loc, (mem_locationsIn _ _).mpr hloc,
        (mem_pieceEntityIndices isPoint d loc g).mpr ⟨it, hit, hflat⟩⟩
    have := (mergeLoop_agree G (pieceEntityIndices isPoint d) cb (locationsIn (piecesShape d)) hcb
      (List.replicate (prodShape (mergedShape isPoint d)) zero) (fun _ => False)
      (fun _ h => h.elim) g (Or.inr ⟨by simpa using hg, hcov⟩)).1
    rw [this]
    simp [hg]
  · have hlen := mergeLoop_length (pieceEntityIndices isPoint d) cb (locationsIn (piecesShape d))
      (List.replicate (prodShape (mergedShape isPoint d)) zero)
    rw [List.getElem?_eq_none (by rw [hlen]; simpa using hg), List.getElem?_eq_none (by simpa using hg)]

end Fc
