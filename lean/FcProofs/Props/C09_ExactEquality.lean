/-
  FcProofs.Props.C09_ExactEquality — C09, phase 6 round 10: the control flow of `ExactEquality.__call__ / _check` and `_check_shapes`
  (`predicates/_predicates.py`) tied to the source text by TRANSLATION (`Fc.Gen.c09o…Src`, harness/fcv/tables/pylite_c09_orch.py) = the shape
  logic of the model's `exactCheck` (FcModel/Predicates.lean: differing shapes ⇒ `false` without looking at the values).
-/
import FcGen.Tables
import FcProofs.Lemmas.PyLiteOrch
set_option linter.unusedSimpArgs false
set_option linter.unusedVariables false
namespace Fc
open PyLite

/-- an array: its shape and its (opaque) data -/
def C09.arrV (shape : List Nat) (d : Val) : Val := .record [("shape", natList shape), ("data", d)]

/-- a `PredicateResult` of truth value `b` (report opaque) -/
def C09.resV (b : Bool) : Val := .record [("value", .bool b), ("__bool__", .bool b)]

/-- ASSUMPTIONS: the result constructors build results of the given truth value (reports opaque) -/
structure C09.ResExt (X : Ext) : Prop where
  hres : ∀ r b, X "PredicateResult(report=,value=)" [r, .bool b] = .ok (C09.resV b)
  hok : ∀ a b, X "_success_result(first=,second=)" [a, b] = .ok (C09.resV true)
  hrep : ∀ d a b, ∃ v, X "_get_equality_fail_report(deviation_in_percent=,val1=,val2=)" [d, a, b] = .ok v

theorem C09.natList_eqv (s t : List Nat) : Val.eqv (natList s) (natList t) = some (decide (s = t)) := by
  simp only [natList, Val.eqv]
  induction s generalizing t with
  | nil => cases t <;> simp [Val.eqv.eqvList]
  | cons a r ih =>
    cases t with
    | nil => simp [Val.eqv.eqvList]
    | cons b u =>
      simp only [List.map_cons, Val.eqv.eqvList, Val.eqv, ih u]
      by_cases h : a = b
      · subst h; by_cases h2 : r = u <;> simp [h2]
      · have : ¬ ((a : Int) = b) := by omega
        simp [h, this]

/-- `_check_shapes(arr1, arr2)`: a successful result exactly when the two shapes are equal. -/
theorem C09_source_check_shapes {X : Ext} (hX : C09.ResExt X) (s t : List Nat) (d e : Val) :
    Gen.c09oCheckShapesSrc.runTr X [C09.arrV s d, C09.arrV t e] = .ok (C09.resV (decide (s = t)), []) := by
  simp only [Gen.c09oCheckShapesSrc, C09.arrV]
  by_cases h : s = t <;> orch_eval [C09.natList_eqv, h, hX.hres]

/-- **`ExactEquality._check(first, second)`**: the operands are reshaped (`_reshape`, itself `C01_source_reshape`); DIFFERING shapes give an
    unsuccessful result WITHOUT the values being looked at (`find_first_unequal` is only assumed for equal shapes); otherwise the result is
    successful exactly when the exact kernel finds no unequal pair; no tolerance is consulted anywhere (the body has none). -/
theorem C09_source_exact_equality_check {X : Ext} (hX : C09.ResExt X) (self a b : Val) (s t : List Nat) (d e fu : Val)
    (hresh : X "_reshape(arr1=,arr2=)" [a, b] = .ok (.list [C09.arrV s d, C09.arrV t e]))
    (hfu : s = t → X "find_first_unequal" [C09.arrV s d, C09.arrV t e] = .ok fu)
    (hfus : fu = .none ∨ ∃ x y, fu = .list [x, y]) :
    Gen.c09oExactCheckSrc.runTr X [self, a, b] = .ok (C09.resV (decide (s = t) && isNone fu), []) := by
  simp only [Gen.c09oExactCheckSrc]
  by_cases h : s = t
  · subst h
    have hcs := fun x st => callRet_of_runTr (C09_source_check_shapes hX s s d e) x st
    have hf := hfu rfl
    rcases hfus with rfl | ⟨x, y, rfl⟩
    · orch_eval [hresh, hcs, hf, C09.resV, hX.hok, isNone]
    · obtain ⟨v, hv⟩ := hX.hrep .none x y
      orch_eval [hresh, hcs, hf, C09.resV, hv, hX.hres, isNone]
  · have hcs := fun x st => callRet_of_runTr (C09_source_check_shapes hX s t d e) x st
    orch_eval [hresh, hcs, h, C09.resV]

/-- **`ExactEquality.__call__`**: the result of `_check`; an exception raised inside (here: by `_reshape`) that `except Exception` catches
    is turned into `PredicateError`. -/
theorem C09_source_exact_equality_call {X : Ext} (hX : C09.ResExt X) (self a b : Val) (s t : List Nat) (d e fu : Val)
    (hresh : X "_reshape(arr1=,arr2=)" [a, b] = .ok (.list [C09.arrV s d, C09.arrV t e]))
    (hfu : s = t → X "find_first_unequal" [C09.arrV s d, C09.arrV t e] = .ok fu)
    (hfus : fu = .none ∨ ∃ x y, fu = .list [x, y]) :
    Gen.c09oExactCallSrc.runTr X [self, a, b] = .ok (C09.resV (decide (s = t) && isNone fu), []) := by
  have hc := fun x st => callRet_of_runTr (C09_source_exact_equality_check hX self a b s t d e fu hresh hfu hfus) x st
  simp only [Gen.c09oExactCallSrc]
  orch_eval [hc]

theorem C09_source_exact_equality_call_raises {X : Ext} (self a b : Val) (exc : String) (hexc : caughtByException exc = true)
    (hresh : X "_reshape(arr1=,arr2=)" [a, b] = .raise exc) :
    Gen.c09oExactCallSrc.runTr X [self, a, b] = .raise "PredicateError" := by
  have hchk : Gen.c09oExactCheckSrc.runTr X [self, a, b] = .raise exc := by
    simp only [Gen.c09oExactCheckSrc]
    orch_eval [hresh]
  have hc := fun x st => callRet_of_runTr_raise hchk x st
  simp only [Gen.c09oExactCallSrc]
  orch_eval [hc, hexc]

end Fc
