/-
  Property C01, float32 / float16 operands — `FuzzyEquality` on two arrays of one float format
  `F ≠ binary64`.

  numpy (NEP 50) keeps the arithmetic in the arrays' format when the tolerances are Python floats
  ("weak" scalars: explicit numbers and the default `float(finfo(F).eps)`): the tolerances are
  first rounded to `F`, then the documented formula is evaluated in `F`.  Array-valued and scaled
  tolerances are binary64 ("strong"): the product `max(|a|,|b|)·rel` is formed in binary64 and
  cast back to `F` by the in-place `*=`; a strong absolute tolerance enters the `max` as binary64.

  Model: `Fc.fuzzyCheck`, `Fc.fuzzyEq1`, `Fc.threshold`, `Fc.resolveTol` (FcModel/Predicates.lean)
  Spec:  `Fc.Spec.fuzzySpecWeak`, `Fc.Spec.weakTol`, `Fc.Spec.docFormula F`,
         `Fc.Spec.mixedFormula` (FcModel/Spec/ClusterA.lean)
-/
import FcProofs.Lemmas.ClusterAFormats
import FcProofs.Props.C10
namespace Fc
open Spec

/-! ### weak (Python-float) tolerances -/

/-- **C01 (float32/float16, model = spec).**  Two arrays of one format `F ≠ binary64` of any
    shapes, tolerances Python floats (numbers / the default) whose `F`-roundings are finite: the
    modelled verdict is the spec — incompatible shapes ⇒ unequal, otherwise the documented formula
    evaluated in `F` with the `F`-rounded tolerances at EVERY entry. -/
theorem C01_weak_model_eq_spec (F : Fmt) (hF : F ≠ f64) (rel abs : Tol) (a b : NdArr)
    (ha : a.dtype = .flt F) (hb : b.dtype = .flt F) (r t : Nat)
    (hr : weakTol F rel = some r) (ht : weakTol F abs = some t) :
    fuzzyCheck rel abs a b = verdictOfSpec (fuzzySpecWeak F rel abs a b) := by
  rw [fuzzyCheck_flt F rel abs a b ha hb]
  unfold fuzzySpecWeak
  by_cases hc : shapesCompatible a.shape b.shape = true
  · simp only [hc, if_true, Bool.not_true, Bool.false_eq_true, if_false, hr, ht, verdictOfSpec]
    obtain ⟨u, hu, hur⟩ := resolveTol_weak F rel
      { a with shape := if a.shape.length ≥ b.shape.length then a.shape else b.shape }
      { b with shape := if a.shape.length ≥ b.shape.length then a.shape else b.shape } r hr
    obtain ⟨v, hv, hvt⟩ := resolveTol_weak F abs
      { a with shape := if a.shape.length ≥ b.shape.length then a.shape else b.shape }
      { b with shape := if a.shape.length ≥ b.shape.length then a.shape else b.shape } t ht
    rw [hu, hv]
    simp only
    rw [findFuzzy_weak F hF _ _ u v r t hur hvt]
  · have hc' : shapesCompatible a.shape b.shape = false := by
      cases hh : shapesCompatible a.shape b.shape with
      | false => rfl
      | true => exact absurd hh hc
    simp [hc', verdictOfSpec]

/-- **C01 (float32/float16, the spec is the documented statement).**  "Equal" iff the shapes are
    equal up to one trailing axis of length 1, both tolerances are Python floats with finite
    `F`-roundings `r`, `t`, and EVERY scalar pair satisfies
    `|a−b| <= max(r·max(|a|,|b|), t)` evaluated in `F`.  (`n = 0` included.) -/
theorem C01_weak_iff (F : Fmt) (rel abs : Tol) (a b : NdArr) :
    fuzzySpecWeak F rel abs a b = some true ↔
      shapesCompatible a.shape b.shape = true ∧
      ∃ r t, weakTol F rel = some r ∧ weakTol F abs = some t ∧
        ∀ i, i < a.data.length → docFormula F (a.data.getD i 0) (b.data.getD i 0) r t = true := by
  unfold fuzzySpecWeak
  cases hc : shapesCompatible a.shape b.shape with
  | false => simp
  | true =>
    simp only [Bool.not_true, Bool.false_eq_true, if_false, true_and]
    cases weakTol F rel with
    | none => simp
    | some r =>
      cases weakTol F abs with
      | none => simp
      | some t => simp [List.all_eq_true]

/-- the default relative tolerance of float32 / float16 arrays is exactly the machine epsilon
    of that format (2^-23, 2^-10): it is representable, the rounding changes nothing -/
theorem C01_weak_default_eps :
    weakTol f32 .dflt = some (2 ^ 1051) ∧ weakTol f16 .dflt = some (2 ^ 1064) ∧
    epsUnits f32 = 2 ^ 1051 ∧ epsUnits f16 = 2 ^ 1064 := by
  decide +kernel

/-- **C01 (float32/float16, reflexive).** -/
theorem C01_weak_refl (F : Fmt) (hF : F ≠ f64) (rel abs : Tol) (a : NdArr) (ha : a.dtype = .flt F)
    (r t : Nat) (hr : weakTol F rel = some r) (ht : weakTol F abs = some t) :
    fuzzyCheck rel abs a a = .ok true := by
  rw [C01_weak_model_eq_spec F hF rel abs a a ha ha r t hr ht, fuzzySpecWeak_refl F rel abs a r t hr ht]
  rfl

/-- **C01 (float32/float16, symmetric).** -/
theorem C01_weak_symm (F : Fmt) (hF : F ≠ f64) (rel abs : Tol) (a b : NdArr)
    (ha : a.dtype = .flt F) (hb : b.dtype = .flt F) (hwa : a.wf) (hwb : b.wf) (r t : Nat)
    (hr : weakTol F rel = some r) (ht : weakTol F abs = some t) :
    fuzzyCheck rel abs a b = fuzzyCheck rel abs b a := by
  rw [C01_weak_model_eq_spec F hF rel abs a b ha hb r t hr ht,
    C01_weak_model_eq_spec F hF rel abs b a hb ha r t hr ht,
    fuzzySpecWeak_symm F rel abs a b (fun hc => by rw [hwa, hwb]; exact prodList_compatible hc)]

/-- **C01 (float32/float16, monotone).**  Enlarging Python-float tolerances (rounding to `F` is
    monotone) never turns a pass into a fail. -/
theorem C01_weak_mono (F : Fmt) (hF : F ≠ f64) (a b : NdArr) (ha : a.dtype = .flt F) (hb : b.dtype = .flt F)
    (r1 t1 r2 t2 x1 y1 x2 y2 : Nat)
    (hr1 : rndMag F r1 0 = some x1) (ht1 : rndMag F t1 0 = some y1)
    (hr2 : rndMag F r2 0 = some x2) (ht2 : rndMag F t2 0 = some y2)
    (hr : r1 ≤ r2) (ht : t1 ≤ t2)
    (h : fuzzyCheck (.num r1) (.num t1) a b = .ok true) :
    fuzzyCheck (.num r2) (.num t2) a b = .ok true := by
  rw [C01_weak_model_eq_spec F hF (.num r1) (.num t1) a b ha hb x1 y1 hr1 ht1] at h
  rw [C01_weak_model_eq_spec F hF (.num r2) (.num t2) a b ha hb x2 y2 hr2 ht2]
  have h1 : fuzzySpecWeak F (.num r1) (.num t1) a b = some true := by
    cases hs : fuzzySpecWeak F (.num r1) (.num t1) a b with
    | none => rw [hs] at h; simp [verdictOfSpec] at h
    | some v => rw [hs] at h; simp only [verdictOfSpec] at h; injection h with h; rw [h]
  rw [fuzzySpecWeak_mono F a b r1 t1 r2 t2 x1 y1 x2 y2 hr1 ht1 hr2 ht2 hr ht h1]
  rfl

/-! ### every tolerance kind ("strong" route included) -/

/-- **C01 (float32/float16, what the model does for array-valued / scaled tolerances).**  The
    scalar kernel for any mix of weak and strong tolerances is `mixedFormula`: weak tolerance →
    rounded to `F`, product in `F`; strong relative tolerance → product in binary64, then rounded
    to `F` (two roundings); strong absolute tolerance → compared unrounded. -/
theorem C01_mixed_kernel (F : Fmt) (hF : F ≠ f64) (a b : Int) (rel : Nat) (relWeak : Bool) (abs : Nat)
    (absWeak : Bool) :
    fuzzyEq1 F a b rel relWeak abs absWeak = mixedFormula F a b rel relWeak abs absWeak :=
  fuzzyEq1_mixed F hF a b rel relWeak abs absWeak

/-- the mixed formula is reflexive, symmetric and monotone in both tolerances -/
theorem C01_mixed_laws (F : Fmt) (a b : Int) (rel : Nat) (rw : Bool) (abs : Nat) (aw : Bool) :
    mixedFormula F a a rel rw abs aw = true ∧
    mixedFormula F a b rel rw abs aw = mixedFormula F b a rel rw abs aw ∧
    (∀ rel' abs', rel ≤ rel' → abs ≤ abs' → mixedFormula F a b rel rw abs aw = true →
      mixedFormula F a b rel' rw abs' aw = true) :=
  ⟨mixedFormula_refl F a rel rw abs aw, mixedFormula_symm F a b rel rw abs aw,
    fun _ _ hr ht h => mixedFormula_mono F a b rw aw hr ht h⟩

/-- **C01 (every float format, every tolerance kind: never unequal to itself).**  For float64,
    float32 and float16 arrays and ALL tolerances (numbers, arrays of any shape, scaled, default)
    the verdict on `(a, a)` is "equal" or an error (tolerance undefined / of the wrong shape) —
    never "unequal". -/
theorem C01_formats_refl (F : Fmt) (rel abs : Tol) (a : NdArr) (ha : a.dtype = .flt F) :
    fuzzyCheck rel abs a a = .ok true ∨ fuzzyCheck rel abs a a = .err := by
  rw [fuzzyCheck_flt F rel abs a a ha ha]
  have hc : shapesCompatible a.shape a.shape = true := by
    rw [shapesCompatible_iff]; exact Or.inl rfl
  simp only [hc, if_true]
  generalize resolveTol F rel _ _ = orr
  generalize resolveTol F abs _ _ = ott
  cases orr with
  | none => right; rfl
  | some r =>
    cases ott with
    | none => right; rfl
    | some t => exact findFuzzy_refl F _ r t

/-- **C01 (every float format, every tolerance kind: symmetric).**  For two well-formed arrays of
    one float format and ALL tolerances the modelled verdict (error included) does not depend on
    the argument order — dynamic tolerances are symmetric functions of the two fields, the
    kernel is symmetric in every format. -/
theorem C01_formats_symm (F : Fmt) (rel abs : Tol) (a b : NdArr)
    (ha : a.dtype = .flt F) (hb : b.dtype = .flt F) (hwa : a.wf) (hwb : b.wf) :
    fuzzyCheck rel abs a b = fuzzyCheck rel abs b a := by
  rw [fuzzyCheck_flt F rel abs a b ha hb, fuzzyCheck_flt F rel abs b a hb ha,
    shapesCompatible_symm b.shape a.shape]
  by_cases hc : shapesCompatible a.shape b.shape = true
  · have hlen : a.data.length = b.data.length := by
      rw [hwa, hwb]; exact prodList_compatible hc
    simp only [hc, if_true]
    rw [← longer_symm hc]
    rw [resolveTol_symm F rel
        { a with shape := if a.shape.length ≥ b.shape.length then a.shape else b.shape }
        { b with shape := if a.shape.length ≥ b.shape.length then a.shape else b.shape } rfl,
      resolveTol_symm F abs
        { a with shape := if a.shape.length ≥ b.shape.length then a.shape else b.shape }
        { b with shape := if a.shape.length ≥ b.shape.length then a.shape else b.shape } rfl]
    generalize resolveTol F rel _ _ = orr
    generalize resolveTol F abs _ _ = ott
    cases orr with
    | none => rfl
    | some r =>
      cases ott with
      | none => rfl
      | some t => exact findFuzzy_symm F _ _ r t rfl hlen
  · simp only [hc, Bool.false_eq_true, if_false]

end Fc
