/-
  Property C15 — Sequences are compared step by step and pass only if every step passes.
  Only property theorems live here; helper lemmas are in FcProofs/Lemmas/Seq.lean.

  Model:  `Fc.Src`, `Fc.iterSeq`, `Fc.genNext/genRun/rounds/runHist`   (FieldDataSequence.__iter__ over the
          PVD/XDMF cursor machine), `Fc.compareSequences`, `Fc.mergeSuites`  (_compare_field_sequences),
          `Fc.fileModeExit`  (kind dispatch + exit code)                     — FcModel/Seq.lean
  Spec:   `Fc.Spec.steps`, `Fc.Spec.comparedSteps`, `Fc.Spec.seqVerdict`, `Fc.Spec.consistent`

  The theorems hold for ALL lengths n ≥ 1 (no bound), all cursor positions left by earlier iterations,
  all three options, and arbitrary per-step comparison results `step i j : TSuite`.
-/
import FcProofs.Lemmas.Seq
namespace Fc

/-- **C15 (iter).**  For n ≥ 1 a complete iteration yields the steps 0, 1, …, n-1 — each once, in
    order, no `get` fails — whatever the cursor was before, and leaves the cursor at n. -/
theorem C15_iter (n c : Nat) (hn : 1 ≤ n) :
    (iterSeq ⟨n, c⟩).1 = (Spec.steps n).map some ∧ (iterSeq ⟨n, c⟩).2 = ⟨n, n⟩ := by
  rw [iterSeq_closed n c hn]
  exact ⟨rfl, rfl⟩

/-- **C15 (re-iteration).**  Any number of successive iterations of the same sequence object, each one
    complete, abandoned after `k` items, or driven past its end, sees the same steps: in round i the
    (q+1)-th `next()` yields step q while q < n and raises StopIteration afterwards — regardless of the
    cursor left behind by the abandoned earlier rounds (`__iter__` resets). -/
theorem C15_reiter (n : Nat) (hn : 1 ≤ n) (ks : List Nat) : ∀ (c : Nat),
    rounds ⟨n, c⟩ ks = ks.map (expectedEvents n) := by
  induction ks with
  | nil => intro c; rfl
  | cons k ks ih =>
    intro c
    simp only [rounds, List.map_cons]
    have hN := genRun_n k ⟨n, c⟩ .fresh
    have hs : (genRun ⟨n, c⟩ .fresh k).2.1 = ⟨n, (genRun ⟨n, c⟩ .fresh k).2.1.cur⟩ := by
      cases h : (genRun ⟨n, c⟩ .fresh k).2.1 with
      | mk n' c' => rw [h] at hN; simp at hN; subst hN; rfl
    rw [genRun_fresh n c k hn, hs, ih]

/-- the same statement for the history function executed by the driver: `k` calls of `next` on a fresh
    generator `g` (other generators untouched) over a source in ANY state -/
theorem C15_reiter_hist (n c k : Nat) (hn : 1 ≤ n) (gens : List GenSt) (g : Nat) (hg : gens[g]? = some .fresh) :
    (runHist ⟨n, c⟩ gens (List.replicate k g)).1.map (fun e => e.2.1) = expectedEvents n k := by
  rw [runHist_replicate k ⟨n, c⟩ gens g .fresh hg, genRun_fresh n c k hn]

/-- complete iteration = the first n events of a fresh generator, followed by StopIteration -/
theorem C15_iter_complete (n c : Nat) (hn : 1 ≤ n) :
    (genRun ⟨n, c⟩ .fresh (n + 1)).1 = (Spec.steps n).map Ev.yield ++ [Ev.stop] := by
  rw [genRun_fresh n c (n + 1) hn, expectedEvents, List.range_succ, List.map_append]
  congr 1
  · apply List.map_congr_left
    intro q hq
    simp [List.mem_range.mp hq]
  · simp

/-- **C15 (compared steps).**  For non-empty sequences no exception escapes and the compared
    (result step, reference step) pairs are exactly (0,0), …, (m-1,m-1), m = min of the lengths, in order —
    or none at all when the lengths differ and neither option is given.  Holds for any cursor positions. -/
theorem C15_compared_steps (o : SeqOpts) (nRes cRes nRef cRef : Nat) (h1 : 1 ≤ nRes) (h2 : 1 ≤ nRef)
    (step : Nat → Nat → TSuite) :
    ∃ s, compareSequences o ⟨nRes, cRes⟩ ⟨nRef, cRef⟩ step = .suite s (Spec.comparedSteps o nRes nRef) := by
  unfold compareSequences
  rw [iterSeq_closed nRes cRes h1, iterSeq_closed nRef cRef h2]
  simp only [zipOpt_some, zip_range, Spec.comparedSteps]
  by_cases hm : nRes = nRef
  · subst hm
    simp
  · cases hi : o.ignoreMissing <;> cases hf : o.force <;> simp [hm]

/-- **C15 (verdict).**  For non-empty sequences and per-step results that are coherent (every suite
    `_compare_field_data` returns is: `status = None` or no tests), the comparison passes iff
    (lengths equal ∨ ignore-missing) ∧ every common step passes. -/
theorem C15_verdict (o : SeqOpts) (nRes cRes nRef cRef : Nat) (h1 : 1 ≤ nRes) (h2 : 1 ≤ nRef)
    (step : Nat → Nat → TSuite) (hc : ∀ i j, Spec.consistent (step i j) = true) :
    (compareSequences o ⟨nRes, cRes⟩ ⟨nRef, cRef⟩ step).passed
      = Spec.seqVerdict o nRes nRef (fun i => (step i i).bool) := by
  unfold compareSequences
  rw [iterSeq_closed nRes cRes h1, iterSeq_closed nRef cRef h2]
  simp only [zipOpt_some, zip_range, Spec.seqVerdict]
  have hfold := fun init hi => foldMerge_bool step ((List.range (min nRes nRef)).map (fun i => (i, i))) init hi
    (fun p _ => hc p.1 p.2)
  simp only [foldMerge] at hfold
  have hall : ((List.range (min nRes nRef)).map (fun i => (i, i))).all (fun p => (step p.1 p.2).bool)
      = (List.range (min nRes nRef)).all (fun i => (step i i).bool) := by
    simp [List.all_map, Function.comp_def]
  by_cases hm : nRes = nRef
  · subst hm
    simp only [bne_self_eq_false, Bool.false_and, Bool.false_eq_true, if_false, SeqResult.passed]
    rw [hfold ⟨[], none⟩ (by simp [Spec.consistent]), hall]
    simp [TSuite.bool]
  · have hne : (nRes != nRef) = true := by simpa using hm
    have hbeq : (nRes == nRef) = false := by simpa using hm
    cases hi : o.ignoreMissing <;> cases hf : o.force <;>
      simp only [hne, hbeq, Bool.not_false, Bool.not_true, Bool.and_true, Bool.and_false, Bool.true_and,
        Bool.false_eq_true, if_true, if_false, SeqResult.passed, Bool.or_false, Bool.false_and, Bool.or_true]
    · simp [TSuite.bool, tsTrue, Gen.testSuiteFalsy]
    · rw [hfold ⟨[], some .failed⟩ (by simp [Spec.consistent, TSuite.bool, tsTrue, Gen.testSuiteFalsy])]
      simp [TSuite.bool, tsTrue, Gen.testSuiteFalsy]
    · rw [hfold ⟨[], none⟩ (by simp [Spec.consistent]), hall]
      simp [TSuite.bool]
    · rw [hfold ⟨[], none⟩ (by simp [Spec.consistent]), hall]
      simp [TSuite.bool]

/-- every suite `_compare_field_data` can return (no explicit status, or no tests) is coherent -/
theorem C15_step_shapes_consistent (s : TSuite) (h : s.status = none ∨ s.tests = []) :
    Spec.consistent s = true := by
  obtain ⟨tests, status⟩ := s
  rcases h with h | h
  · simp only at h; subst h
    simp only [Spec.consistent, TSuite.bool]
    cases tests.all tsTrue <;> rfl
  · simp only at h; subst h
    simp [Spec.consistent]

/-- **C15 (force still fails).**  With `--force-sequence-comparison` (and without ignore) a length
    mismatch fails although all common steps are compared — for ARBITRARY step results (no coherence
    needed): the initial failed status is sticky. -/
theorem C15_force_still_fails (nRes cRes nRef cRef : Nat) (h1 : 1 ≤ nRes) (h2 : 1 ≤ nRef) (hne : nRes ≠ nRef)
    (step : Nat → Nat → TSuite) :
    (compareSequences ⟨false, true⟩ ⟨nRes, cRes⟩ ⟨nRef, cRef⟩ step).passed = false ∧
    (compareSequences ⟨false, true⟩ ⟨nRes, cRes⟩ ⟨nRef, cRef⟩ step).compared
      = (List.range (min nRes nRef)).map (fun i => (i, i)) := by
  unfold compareSequences
  rw [iterSeq_closed nRes cRes h1, iterSeq_closed nRef cRef h2]
  have hb : (nRes != nRef) = true := by simpa using hne
  simp only [zipOpt_some, zip_range, hb, Bool.not_false, Bool.and_true, Bool.not_true, Bool.and_false,
    Bool.false_eq_true, if_false, if_true, SeqResult.passed, SeqResult.compared, and_true]
  exact foldMerge_sticky step _ ⟨[], some .failed⟩ (by decide)

/-- **C15 (failure is sticky under merging).**  For ALL suites: if either operand of
    `_merge_test_suites` is failing, so is the result; a later passing step never repairs an earlier
    failure and an earlier pass never hides a later failure (first and last position included). -/
theorem C15_sticky (s1 s2 : TSuite) (h : s1.bool = false ∨ s2.bool = false) :
    (mergeSuites s1 s2).bool = false :=
  merge_sticky s1 s2 h

/-- position form: if ANY compared step fails the final suite fails, whatever the other steps return and
    whatever the initial suite was (arbitrary step results) -/
theorem C15_any_failing_step_fails (step : Nat → Nat → TSuite) (l1 l2 : List (Nat × Nat)) (p : Nat × Nat)
    (init : TSuite) (hp : (step p.1 p.2).bool = false) :
    (foldMerge step init (l1 ++ p :: l2)).bool = false := by
  simp only [foldMerge, List.foldl_append, List.foldl_cons]
  exact foldMerge_sticky step l2 _ (merge_sticky _ _ (Or.inr hp))

/-- **C15 (mixed).**  A sequence never compares equal to a single data set (nor anything to an unknown
    kind): the exit code is non-zero whatever the data and the options are. -/
theorem C15_mixed (kRes kRef : DataKind) (single : Bool) (seq : SeqResult)
    (h : kRes ≠ kRef ∨ kRes = .unknown) : fileModeExit kRes kRef single seq ≠ 0 := by
  cases kRes <;> cases kRef <;> simp_all [fileModeExit, boolToExit]

/-- exit code of a sequence comparison: 0 iff the property's verdict holds -/
theorem C15_exit_code (o : SeqOpts) (nRes cRes nRef cRef : Nat) (h1 : 1 ≤ nRes) (h2 : 1 ≤ nRef)
    (step : Nat → Nat → TSuite) (hc : ∀ i j, Spec.consistent (step i j) = true) (single : Bool) :
    fileModeExit .sequence .sequence single (compareSequences o ⟨nRes, cRes⟩ ⟨nRef, cRef⟩ step) = 0 ↔
      ((nRes = nRef ∨ o.ignoreMissing = true) ∧ ∀ i, i < min nRes nRef → (step i i).bool = true) := by
  have hx : ∀ b : Bool, boolToExit b = 0 ↔ b = true := by intro b; cases b <;> simp [boolToExit]
  simp only [fileModeExit]
  rw [hx, C15_verdict o nRes cRes nRef cRef h1 h2 step hc]
  simp only [Spec.seqVerdict, Bool.and_eq_true, Bool.or_eq_true, beq_iff_eq, List.all_eq_true, List.mem_range]

end Fc
