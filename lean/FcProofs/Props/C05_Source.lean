/-
  FcProofs.Props.C05_Source — C05, tie to the source text by TRANSLATION (see C04_Source.lean).
  The BODY of `Base64Encoder.encoded_bytes` (assignment + return, `Fc.Gen.c05B64EncodedBytesSrc`,
  harness/fcv/tables/pylite_c05.py) instead of the single expression table of `C05_encoded_bytes`.
-/
import FcGen.Tables
import FcProofs.Lemmas.PyLite
import FcProofs.Lemmas.Base64
namespace Fc
open PyLite

/-- Interpreting the translated body of `Base64Encoder.encoded_bytes` on the length of any byte string
    gives the length of its base64 text (`self` is not read). -/
theorem C05_source_encoded_bytes (self : Val) (x : List Nat) :
    Gen.c05B64EncodedBytesSrc.run noExt [self, .int x.length] = .ok (.int (b64encode x).length) := by
  simp only [Gen.c05B64EncodedBytesSrc]
  pylite_eval
  rw [b64encode_length]
  simp only [Int.fdiv_eq_ediv_of_nonneg _ (show (0 : Int) ≤ 3 by decide)]
  omega

/-- … which is what the model's encoder (`b64Encoder.encodedBytes`, FcModel/VtkArray.lean) computes. -/
theorem C05_source_encoded_bytes_model (self : Val) (n : Nat) :
    Gen.c05B64EncodedBytesSrc.run noExt [self, .int n] = .ok (.int (4 * ((n + 2) / 3) : Nat)) := by
  simp only [Gen.c05B64EncodedBytesSrc]
  pylite_eval
  simp only [Int.fdiv_eq_ediv_of_nonneg _ (show (0 : Int) ≤ 3 by decide)]
  omega

end Fc
