/-
  FcProofs.Props.C04_Plumbing — C04, the option PLUMBING of the CLI tied to the source (phase 5).

  (1) Translation (see C04_Source.lean): the glue functions of `fieldcompare/_cli/_common.py` are translated from the
      current source text into the PyLite AST on every run (`Fc.Gen.cli…Src`, harness/fcv/tables/pylite_cli.py) and
      proved equal, for all inputs, to the functions of the hand-written model (FcModel/Cli.lean: `TolMap.get`,
      `parseTols`; FcModel/CliPlumbing.lean: `patternFilter`, `inclusionPats`, `exclusionPats`).
  (2) Option tables (harness/fcv/tables/cli_options.py): every key with which file mode reads its argument dict is a
      declared argparse destination, and every `FileComparisonOptions` field is fed from the destination the model
      expects (`Plumb.expectedWiring`).
  Embedding of model values: FcProofs/Lemmas/PyLiteCli.lean.
-/
import FcGen.Tables
import FcProofs.Lemmas.PyLiteCli
set_option linter.unusedSimpArgs false
namespace Fc
open PyLite PyLite.Cli

/-- `FieldToleranceMap.__call__` is the model's `TolMap.get`, for every dict that represents the binding list
    (`Represents`: all lookups agree; the model keeps the newest binding first, Python overwrites in place),
    every default and every field name.  In particular a per-field tolerance of exactly `0.0` (falsy) is returned,
    not replaced by the default. -/
theorem C04_source_field_tolerance_map_call (kvs : List (Val × Val)) (named : List (String × C04.TolVal))
    (dflt : Option C04.TolVal) (name : String) (h : Represents kvs named) :
    Gen.cliFieldToleranceMapCallSrc.run noExt [ftmVal kvs dflt, .str name]
      = .ok (optTolVal (C04.TolMap.get ⟨named, dflt⟩ name)) := by
  simp only [Gen.cliFieldToleranceMapCallSrc, ftmVal, C04.TolMap.get]
  have hk := h name
  cases hl : named.lookup name with
  | none =>
    rw [hl] at hk
    pylite_eval [hk]
  | some t =>
    rw [hl] at hk
    pylite_eval [hk]
    cases t <;> simp [tolVal, optTolVal]

/-- … for the dict Python actually holds after the bindings were made in order (non-vacuity of `Represents`). -/
theorem C04_source_field_tolerance_map_call_dictOf (named : List (String × C04.TolVal)) (dflt : Option C04.TolVal)
    (name : String) :
    Gen.cliFieldToleranceMapCallSrc.run noExt [ftmVal (strDict (dictOf named)) dflt, .str name]
      = .ok (optTolVal (C04.TolMap.get ⟨named, dflt⟩ name)) :=
  C04_source_field_tolerance_map_call _ named dflt name (represents_dictOf named)

/-- `PatternFilter.__call__` is `any` over `fnmatch` of the whole name against each pattern
    (`Plumb.patternFilter`), for every meaning of `fnmatch`, every pattern list and name. -/
theorem C04_source_pattern_filter_call (X : Ext) (fnm : String → String → Bool) (hX : FnmatchIs X fnm)
    (pats : List String) (name : String) :
    Gen.cliPatternFilterCallSrc.run X [pfVal pats, .str name] = .ok (.bool (Plumb.patternFilter fnm pats name)) := by
  simp only [Gen.cliPatternFilterCallSrc, pfVal, strList, Plumb.patternFilter]
  pylite_eval
  rw [anyM_map_ok _ Val.str (fnm name)]
  intro p
  pylite_eval [hX name p]

/-- `_include_all()` is the filter with the single pattern `*`, `_exclude_all()` the filter without patterns. -/
theorem C04_source_include_all (X : Ext) (hC : PatternFilterCtor X) :
    Gen.cliIncludeAllSrc.run X [] = .ok (pfVal Plumb.includeAllPats) := by
  have := hC ["*"]
  simp only [strList, List.map] at this
  simp only [Gen.cliIncludeAllSrc, Plumb.includeAllPats]
  pylite_eval [this]

theorem C04_source_exclude_all (X : Ext) (hC : PatternFilterCtor X) :
    Gen.cliExcludeAllSrc.run X [] = .ok (pfVal Plumb.excludeAllPats) := by
  have := hC []
  simp only [strList, List.map] at this
  simp only [Gen.cliExcludeAllSrc, Plumb.excludeAllPats]
  pylite_eval [this]

/-- What the two default filters decide (given that `fnmatch(name, "*")` is true for every name): absent
    `--include-fields` accepts every field — `Cli.Opts.included` with `incl = none` —, absent `--exclude-fields`
    rejects none — `Cli.Opts.excluded` with `excl = none`. -/
theorem C04_default_filters (fnm : String → String → Bool) (hstar : ∀ name, fnm name "*" = true) (o : C04.Opts)
    (name : String) :
    (o.incl = none → Plumb.patternFilter fnm (Plumb.inclusionPats none) name = o.included name) ∧
    (o.excl = none → Plumb.patternFilter fnm (Plumb.exclusionPats none) name = o.excluded name) := by
  constructor
  · intro h; simp [Plumb.patternFilter, Plumb.inclusionPats, Plumb.includeAllPats, hstar, C04.Opts.included, h]
  · intro h; simp [Plumb.patternFilter, Plumb.exclusionPats, Plumb.excludeAllPats, C04.Opts.excluded, h]

/-- … and with patterns given: `Cli.Opts.incl = some (the names a pattern matches)` (how the harness fills the
    scenario) makes `Opts.included` the pattern filter on every name that occurs. -/
theorem C04_given_filters (fnm : String → String → Bool) (o : C04.Opts) (pats : List String) (names : List String)
    (name : String) (hn : name ∈ names) :
    (o.incl = some (Plumb.matchedNames fnm pats names) → o.included name = Plumb.patternFilter fnm pats name) ∧
    (o.excl = some (Plumb.matchedNames fnm pats names) → o.excluded name = Plumb.patternFilter fnm pats name) := by
  constructor <;> intro h
  · simp only [C04.Opts.included, h, Plumb.matchedNames]
    cases hp : Plumb.patternFilter fnm pats name <;> simp [hp, hn]
  · simp only [C04.Opts.excluded, h, Plumb.matchedNames]
    cases hp : Plumb.patternFilter fnm pats name <;> simp [hp, hn]

/-! ### option tables of `fieldcompare file` (harness/fcv/tables/cli_options.py, regenerated from the source) -/

/-- every key with which `_file_mode._run` reads its argument dict is a destination that `_add_arguments` declares
    (a misspelt key would raise `KeyError`, or — with `args.get` — silently read `None`). -/
theorem C04_options_reads_declared : Plumb.allDeclared Gen.optFileDests Gen.optFileReads = true := by decide

/-- every field of `FileComparisonOptions` the model knows is fed from exactly the destination the model expects
    (`Plumb.expectedWiring`: the scenario's flags / tolerance tokens / patterns ARE the fields of `Cli.Opts`) … -/
theorem C04_options_wiring :
    (Plumb.expectedWiring.all fun e => Gen.optFileWiring.lookup e.1 == some [e.2]) = true := by decide

/-- … and file mode feeds no other field, and leaves none of the dataclass's fields at its default. -/
theorem C04_options_wiring_complete :
    (Gen.optFileWiring.all fun e => Plumb.expectedWiring.lookup e.1 == e.2.head?) = true ∧
    (Gen.optFields.all fun f => (Gen.optFileWiring.lookup f).isSome) = true := by decide

/-- the Boolean switches (`action="store_true"` destinations) reach their field as they are (up to `bool(…)`): not
    negated, not combined with anything. -/
theorem C04_options_flags_direct :
    (Gen.optFileWiring.all fun e =>
      !(e.2.all Gen.optFileStoreTrue.contains) || Gen.optFileWiringKind.lookup e.1 == some "direct") = true := by decide

end Fc
