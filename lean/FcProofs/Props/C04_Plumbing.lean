/-
  FcProofs.Props.C04_Plumbing — C04, the option PLUMBING of the CLI tied to the source (phase 5).

  (1) Translation (see C04_Source.lean): the glue functions of `fieldcompare/_cli/_common.py` are translated from the
      current source text into the PyLite AST on every run (`Fc.Gen.cli…Src`, harness/fcv/tables/pylite_cli.py) and
      proved equal, for all inputs, to the functions of the hand-written model (FcModel/Cli.lean: `TolMap.get`,
      `parseTols`; FcModel/CliPlumbing.lean: `patternFilter`, `inclusionPats`, `exclusionPats`).
  (2) Option tables (harness/fcv/tables/cli_options.py): every key with which file mode reads its argument dict is a
      declared argparse destination, and every `FileComparisonOptions` field is fed from the destination the model
      expects (`Plumb.expectedWiring`).
  Embedding of model values: FcProofs/Lemmas/PyLiteCli.lean.
-/
import FcGen.Tables
import FcProofs.Lemmas.PyLiteCli
set_option linter.unusedSimpArgs false
namespace Fc
open PyLite PyLite.Cli

/-- `FieldToleranceMap.__call__` is the model's `TolMap.get`, for every dict that represents the binding list
    (`Represents`: all lookups agree; the model keeps the newest binding first, Python overwrites in place),
    every default and every field name.  In particular a per-field tolerance of exactly `0.0` (falsy) is returned,
    not replaced by the default. -/
theorem C04_source_field_tolerance_map_call (kvs : List (Val × Val)) (named : List (String × C04.TolVal))
    (dflt : Option C04.TolVal) (name : String) (h : Represents kvs named) :
    Gen.cliFieldToleranceMapCallSrc.run noExt [ftmVal kvs dflt, .str name]
      = .ok (optTolVal (C04.TolMap.get ⟨named, dflt⟩ name)) := by
  simp only [Gen.cliFieldToleranceMapCallSrc, ftmVal, C04.TolMap.get]
  have hk := h name
  cases hl : named.lookup name with
  | none =>
    rw [hl] at hk
    pylite_eval [hk]
  | some t =>
    rw [hl] at hk
    pylite_eval [hk]
    cases t <;> simp [tolVal, optTolVal]

/-- … for the dict Python actually holds after the bindings were made in order (non-vacuity of `Represents`). -/
theorem C04_source_field_tolerance_map_call_dictOf (named : List (String × C04.TolVal)) (dflt : Option C04.TolVal)
    (name : String) :
    Gen.cliFieldToleranceMapCallSrc.run noExt [ftmVal (strDict (dictOf named)) dflt, .str name]
      = .ok (optTolVal (C04.TolMap.get ⟨named, dflt⟩ name)) :=
  C04_source_field_tolerance_map_call _ named dflt name (represents_dictOf named)

/-- `PatternFilter.__call__` is `any` over `fnmatch` of the whole name against each pattern
    (`Plumb.patternFilter`), for every meaning of `fnmatch`, every pattern list and name. -/
theorem C04_source_pattern_filter_call (X : Ext) (fnm : String → String → Bool) (hX : FnmatchIs X fnm)
    (pats : List String) (name : String) :
    Gen.cliPatternFilterCallSrc.run X [pfVal pats, .str name] = .ok (.bool (Plumb.patternFilter fnm pats name)) := by
  simp only [Gen.cliPatternFilterCallSrc, pfVal, strList, Plumb.patternFilter]
  pylite_eval
  rw [anyM_map_ok _ Val.str (fnm name)]
  intro p
  pylite_eval [hX name p]

/-- `_include_all()` is the filter with the single pattern `*`, `_exclude_all()` the filter without patterns. -/
theorem C04_source_include_all (X : Ext) (hC : PatternFilterCtor X) :
    Gen.cliIncludeAllSrc.run X [] = .ok (pfVal Plumb.includeAllPats) := by
  have := hC ["*"]
  simp only [strList, List.map] at this
  simp only [Gen.cliIncludeAllSrc, Plumb.includeAllPats]
  pylite_eval [this]

theorem C04_source_exclude_all (X : Ext) (hC : PatternFilterCtor X) :
    Gen.cliExcludeAllSrc.run X [] = .ok (pfVal Plumb.excludeAllPats) := by
  have := hC []
  simp only [strList, List.map] at this
  simp only [Gen.cliExcludeAllSrc, Plumb.excludeAllPats]
  pylite_eval [this]

/-- What the constructors store (the body of `__init__`, translated as the function returning the dict of the
    attributes it assigns): `PatternFilter(patterns)` keeps the pattern list as `_patterns` and nothing else … -/
theorem C04_source_pattern_filter_init (v : Val) :
    Gen.cliPatternFilterInitSrc.run noExt [v] = .ok (.dict [(.str "_patterns", v)]) := by
  simp only [Gen.cliPatternFilterInitSrc]
  pylite_eval [dictSet]

/-- … and `FieldToleranceMap(tolerances, default_tol)` keeps the dict (`None` / empty: an empty dict) as
    `_field_tolerances` and the default, unchanged, as `_default` — the two attributes `__call__` reads
    (`ftmVal`; this is what `TolExt.hctor` / `hempty` assume about the constructor call). -/
theorem C04_source_field_tolerance_map_init (kvs : List (Val × Val)) (d : Val) :
    Gen.cliFieldToleranceMapInitSrc.run noExt [.dict kvs, d]
      = .ok (.dict [(.str "_default", d), (.str "_field_tolerances", .dict kvs)]) ∧
    Gen.cliFieldToleranceMapInitSrc.run noExt [.none, d]
      = .ok (.dict [(.str "_default", d), (.str "_field_tolerances", .dict [])]) := by
  simp only [Gen.cliFieldToleranceMapInitSrc]
  constructor
  · cases kvs <;> pylite_eval [dictSet]
  · pylite_eval [dictSet]

/-- What the two default filters decide (given that `fnmatch(name, "*")` is true for every name): absent
    `--include-fields` accepts every field — `Cli.Opts.included` with `incl = none` —, absent `--exclude-fields`
    rejects none — `Cli.Opts.excluded` with `excl = none`. -/
theorem C04_default_filters (fnm : String → String → Bool) (hstar : ∀ name, fnm name "*" = true) (o : C04.Opts)
    (name : String) :
    (o.incl = none → Plumb.patternFilter fnm (Plumb.inclusionPats none) name = o.included name) ∧
    (o.excl = none → Plumb.patternFilter fnm (Plumb.exclusionPats none) name = o.excluded name) := by
  constructor
  · intro h; simp [Plumb.patternFilter, Plumb.inclusionPats, Plumb.includeAllPats, hstar, C04.Opts.included, h]
  · intro h; simp [Plumb.patternFilter, Plumb.exclusionPats, Plumb.excludeAllPats, C04.Opts.excluded, h]

/-- … and with patterns given: `Cli.Opts.incl = some (the names a pattern matches)` (how the harness fills the
    scenario) makes `Opts.included` the pattern filter on every name that occurs. -/
theorem C04_given_filters (fnm : String → String → Bool) (o : C04.Opts) (pats : List String) (names : List String)
    (name : String) (hn : name ∈ names) :
    (o.incl = some (Plumb.matchedNames fnm pats names) → o.included name = Plumb.patternFilter fnm pats name) ∧
    (o.excl = some (Plumb.matchedNames fnm pats names) → o.excluded name = Plumb.patternFilter fnm pats name) := by
  constructor <;> intro h
  · simp only [C04.Opts.included, h, Plumb.matchedNames]
    cases hp : Plumb.patternFilter fnm pats name <;> simp [hp, hn]
  · simp only [C04.Opts.excluded, h, Plumb.matchedNames]
    cases hp : Plumb.patternFilter fnm pats name <;> simp [hp, hn]

/-- `_parse_field_tolerances(tolerance_strings, allow_dynamic_tolerances)` is the model's `parseTols` (FcModel/Cli.lean:
    `classifyTok`, `makeTolerance`, `parseLoop`), for every list of `-rtol` / `-atol` strings without exotic literals
    (negative / inf / nan: outside the hypotheses of the C04 theorems, too): absent option = empty map; a string with
    `:` binds its field (the dict the function builds REPRESENTS the model's binding list: a later binding of the same
    name wins), any other string sets the global default (the last one wins); `value*max` is a `ScaledTolerance` only
    when dynamic tolerances are allowed; a string with two `:` or a literal `float()` rejects raises `ValueError`.
    A tolerance string is presented as the sequence of its characters (`tokV`), so that `":" in s` is membership; what
    is assumed about the string methods, `float` and the constructors: `TolExt`. -/
theorem C04_source_parse_field_tolerances (X : Ext) (pf : String → C04.FloatLit) (hpf : ∀ s, pf s ≠ .exotic)
    (hX : TolExt X pf) (dyn : Bool) (toks : Option (List String)) :
    match C04.parseTols pf dyn toks with
    | .ok m _ => ∃ kvs, Gen.cliParseFieldTolerancesSrc.run X [optTokList toks, .bool dyn] = .ok (ftmVal kvs m.dflt) ∧
        Represents kvs m.named
    | .raised => Gen.cliParseFieldTolerancesSrc.run X [optTokList toks, .bool dyn] = .raise "ValueError" := by
  cases toks with
  | none =>
    simp only [C04.parseTols, Gen.cliParseFieldTolerancesSrc, optTokList]
    refine ⟨[], ?_, represents_nil⟩
    pylite_eval [hX.hempty]
    rfl
  | some l =>
    simp only [C04.parseTols, parseLoop_eq_foldOpt pf hpf, Gen.cliParseFieldTolerancesSrc, optTokList]
    pylite_eval
    generalize hf : forLoop _ _ _ = r
    let Inv : C04.TolMap → St → Prop := fun m st =>
      st.env.lookup "v1" = some (.bool dyn) ∧ st.env.lookup "v3" = some (optTolVal m.dflt) ∧
      ∃ d, st.env.lookup "v2" = some (.dict (strDict d)) ∧ Represents (strDict d) m.named
    have key := forLoop_foldOpt_eq tokV (stepTok pf dyn) "ValueError" Inv hf C04.TolMap.empty
      (by simp [Inv, List.lookup, C04.TolMap.empty, optTolVal]; exact ⟨[], rfl, represents_nil⟩)
      (by
        intro s m st ⟨e1, e3, d, e2, hrep⟩
        clear hf
        have hmem := memOf_colon s.toList
        cases hc : s.toList.contains ':' with
        | false =>
          rw [hc] at hmem
          have hsp := splitOnChar_no ':' s.toList hc
          have hcl : C04.classifyTok s = .unnamed s := by simp [C04.classifyTok, hsp, String.ofList_toList]
          obtain ⟨rest, hrs⟩ := hX.hrsplit s
          have hfl := hX.hfloat s
          have hfb := hX.hfloat (String.ofList ((C04.beforeFirst C04.maxSuffix s.toList).getD []))
          have hen := hX.hends s
          have hpf1 := hpf s
          have hpf2 := hpf (String.ofList ((C04.beforeFirst C04.maxSuffix s.toList).getD []))
          simp only [stepTok, hcl, C04.makeTolerance]
          simp only [tokV, String.toList_ofList] at hrs hfl hfb hen
          cases dyn <;> cases he : C04.endsWith s.toList C04.maxSuffix <;>
            cases hp1 : pf s <;>
            cases hp2 : pf (String.ofList ((C04.beforeFirst C04.maxSuffix s.toList).getD [])) <;>
            first
            | exact absurd hp1 hpf1
            | exact absurd hp2 hpf2
            | (rw [he] at hen; rw [hp1] at hfl; rw [hp2] at hfb
               dsimp only at hfl hfb
               simp [Inv, tokV, St.set, List.lookup, indexOf, optTolVal, tolVal, e1, e2, e3, hmem, hen, hfl, hfb, hrs,
                 hX.hscaled]
               try exact ⟨d, rfl, hrep⟩)
        | true =>
          rw [hc] at hmem
          have hlen := splitOnChar_yes ':' s.toList hc
          have hspl := hX.hsplit s
          cases hp : C04.splitOnChar ':' s.toList with
          | nil => rw [hp] at hlen; simp at hlen
          | cons a t =>
            cases t with
            | nil => rw [hp] at hlen; simp at hlen
            | cons b t2 =>
              cases t2 with
              | cons c t3 =>
                have hcl : C04.classifyTok s = .malformed := by simp [C04.classifyTok, hp]
                rw [hp] at hspl
                simp only [tokV] at hspl
                simp [stepTok, hcl, tokV, St.set, List.lookup, hmem, hspl, bindAll]
              | nil =>
                have hcl : C04.classifyTok s = .named (String.ofList a) (String.ofList b) := by
                  simp [C04.classifyTok, hp]
                rw [hp] at hspl
                obtain ⟨rest, hrs⟩ := hX.hrsplit (String.ofList b)
                have hfl := hX.hfloat (String.ofList b)
                have hfb := hX.hfloat (String.ofList ((C04.beforeFirst C04.maxSuffix (String.ofList b).toList).getD []))
                have hen := hX.hends (String.ofList b)
                have hpf1 := hpf (String.ofList b)
                have hpf2 := hpf (String.ofList ((C04.beforeFirst C04.maxSuffix (String.ofList b).toList).getD []))
                simp only [stepTok, hcl, C04.makeTolerance]
                simp only [tokV, String.toList_ofList] at hrs hfl hfb hen hspl hpf2 ⊢
                cases dyn <;> cases he : C04.endsWith b C04.maxSuffix <;>
                  cases hp1 : pf (String.ofList b) <;>
                  cases hp2 : pf (String.ofList ((C04.beforeFirst C04.maxSuffix b).getD [])) <;>
                  first
                  | exact absurd hp1 hpf1
                  | exact absurd hp2 hpf2
                  | (rw [he] at hen; rw [hp1] at hfl; rw [hp2] at hfb
                     dsimp only at hfl hfb
                     simp [Inv, St.set, List.lookup, indexOf, optTolVal, tolVal, e1, e2, e3, hmem, hen, hfl, hfb, hrs,
                       hX.hscaled, hspl, bindAll, dictSet_strDict]
                     first
                     | exact ⟨_, rfl, represents_cons d m.named _ (.num _) hrep⟩
                     | exact ⟨_, rfl, represents_cons d m.named _ (.scaled _) hrep⟩
                     | skip))
    cases hfo : foldOpt (stepTok pf dyn) l C04.TolMap.empty with
    | none =>
      rw [hfo] at key
      simp [key]
    | some m' =>
      rw [hfo] at key
      obtain ⟨st', h1, e1, e3, d, e2, hrep⟩ := key
      refine ⟨strDict d, ?_, hrep⟩
      simp [h1, e2, e3, hX.hctor, ftmVal]

/-- … and the two steps composed: asking the map that `_parse_field_tolerances` returns for a field name gives the
    model's `TolMap.get` of `parseTols` — per-field binding if there is one (also a zero), else the global default,
    else `None`. -/
theorem C04_source_tolerance_lookup (X : Ext) (pf : String → C04.FloatLit) (hpf : ∀ s, pf s ≠ .exotic)
    (hX : TolExt X pf) (dyn : Bool) (toks : Option (List String)) (m : C04.TolMap) (ex : Bool)
    (hm : C04.parseTols pf dyn toks = .ok m ex) (name : String) :
    ∃ obj, Gen.cliParseFieldTolerancesSrc.run X [optTokList toks, .bool dyn] = .ok obj ∧
      Gen.cliFieldToleranceMapCallSrc.run noExt [obj, .str name] = .ok (optTolVal (m.get name)) := by
  have h := C04_source_parse_field_tolerances X pf hpf hX dyn toks
  rw [hm] at h
  obtain ⟨kvs, h1, h2⟩ := h
  exact ⟨_, h1, C04_source_field_tolerance_map_call kvs m.named m.dflt name h2⟩

/-! ### option tables of `fieldcompare file` (harness/fcv/tables/cli_options.py, regenerated from the source) -/

/-- every key with which `_file_mode._run` reads its argument dict is a destination that `_add_arguments` declares
    (a misspelt key would raise `KeyError`, or — with `args.get` — silently read `None`). -/
theorem C04_options_reads_declared : Plumb.allDeclared Gen.optFileDests Gen.optFileReads = true := by decide

/-- every field of `FileComparisonOptions` the model knows is fed from exactly the destination the model expects
    (`Plumb.expectedWiring`: the scenario's flags / tolerance tokens / patterns ARE the fields of `Cli.Opts`) … -/
theorem C04_options_wiring :
    (Plumb.expectedWiring.all fun e => Gen.optFileWiring.lookup e.1 == some [e.2]) = true := by decide

/-- … and file mode feeds no other field, and leaves none of the dataclass's fields at its default. -/
theorem C04_options_wiring_complete :
    (Gen.optFileWiring.all fun e => Plumb.expectedWiring.lookup e.1 == e.2.head?) = true ∧
    (Gen.optFields.all fun f => (Gen.optFileWiring.lookup f).isSome) = true := by decide

/-- the Boolean switches (`action="store_true"` destinations) reach their field as they are (up to `bool(…)`): not
    negated, not combined with anything. -/
theorem C04_options_flags_direct :
    (Gen.optFileWiring.all fun e =>
      !(e.2.all Gen.optFileStoreTrue.contains) || Gen.optFileWiringKind.lookup e.1 == some "direct") = true := by decide

end Fc
