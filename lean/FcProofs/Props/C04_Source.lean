/-
  FcProofs.Props.C04_Source — C04, tie to the source text by TRANSLATION.

  The bodies of the small decision functions of the CLI are translated from the current source text
  into the PyLite AST on every run (`Fc.Gen.c04…Src`, harness/fcv/tables/pylite_c04.py); the theorems
  below prove that interpreting them (FcModel/PyLite.lean) IS the corresponding function of the C04
  model (FcModel/Cli.lean), for all inputs.  A source change of one of these functions breaks its
  theorem.  Embedding of model values: FcProofs/Lemmas/PyLiteC04.lean.
-/
import FcGen.Tables
import FcProofs.Lemmas.PyLiteC04
namespace Fc
open PyLite PyLite.C04

/-- `_cli/_common.py: _bool_to_exit_code` is the model's `boolToExitCode`. -/
theorem C04_source_bool_to_exit_code (b : Bool) :
    Gen.c04BoolToExitCodeSrc.run noExt [.bool b] = .ok (.int (C04.boolToExitCode b)) := by
  cases b <;> rfl

/-- `FileComparison._parse_status` is the model's `parseStatus`, for both option flags and every
    `FieldComparisonStatus`. -/
theorem C04_source_parse_status (ignSrc ignRef : Bool) (s : C04.FcStatus) :
    Gen.c04ParseStatusSrc.run noExt [fileComparisonVal ignSrc ignRef, fsVal s]
      = .ok (tsVal (C04.parseStatus ignSrc ignRef s)) := by
  cases ignSrc <;> cases ignRef <;> cases s <;> rfl

/-- `TestStatus.__bool__` is the model's `TestStatus.truthy`. -/
theorem C04_source_test_status_bool (s : C04.TestStatus) :
    Gen.c04TestStatusBoolSrc.run noExt [tsVal s] = .ok (.bool s.truthy) := by
  cases s <;> rfl

/-- … explicitly (the model's falsy list is a table regenerated from the same source): a test status is
    false exactly for `failed` and `error`. -/
theorem C04_source_test_status_bool_explicit (s : C04.TestStatus) :
    Gen.c04TestStatusBoolSrc.run noExt [tsVal s] = .ok (.bool (decide (s ≠ .failed ∧ s ≠ .error))) := by
  cases s <;> rfl

/-- `TestSuite.__bool__` is the model's `Suite.bool`, for every list of tests and every explicit
    status (or `None`). -/
theorem C04_source_test_suite_bool (s : C04.Suite) :
    Gen.c04TestSuiteBoolSrc.run noExt [suiteVal s] = .ok (.bool s.bool) := by
  obtain ⟨tests, status⟩ := s
  cases status with
  | some st => cases st <;> rfl
  | none =>
    have h : ∀ (f : Val → Res Bool), (∀ t, f (testVal t) = .ok (C04.suiteIsTrue t.status)) →
        allM f (tests.map testVal) = .ok (tests.all fun t => C04.suiteIsTrue t.status) :=
      fun f hf => allM_map_ok f testVal _ hf tests
    simp only [Gen.c04TestSuiteBoolSrc, suiteVal, optTsVal, C04.Suite.bool]
    pylite_eval
    rw [h]
    intro t
    obtain ⟨n, st⟩ := t
    cases st <;> rfl

/-- … explicitly: an explicit status decides (false exactly for `failed`/`error`), otherwise no test may be
    `failed` or `error`. -/
theorem C04_source_test_suite_bool_explicit (s : C04.Suite) :
    Gen.c04TestSuiteBoolSrc.run noExt [suiteVal s] =
      .ok (.bool (match s.status with
        | some st => decide (st ≠ .failed ∧ st ≠ .error)
        | none => s.tests.all fun t => decide (t.status ≠ .failed ∧ t.status ≠ .error))) := by
  rw [C04_source_test_suite_bool]
  obtain ⟨tests, status⟩ := s
  cases status with
  | some st => cases st <;> rfl
  | none =>
    simp only [C04.Suite.bool]
    congr 2
    apply List.all_congr rfl
    intro t
    obtain ⟨n, st⟩ := t
    cases st <;> rfl

/-- the property `TestSuite.status` is the model's `Suite.statusProp`; `if self` is the truth value of
    the suite object, i.e. (previous theorem) `Suite.bool`. -/
theorem C04_source_test_suite_status (s : C04.Suite) :
    Gen.c04TestSuiteStatusSrc.run noExt [suiteValB s s.bool] = .ok (tsVal s.statusProp) := by
  obtain ⟨tests, status⟩ := s
  cases status with
  | some st => cases st <;> rfl
  | none =>
    simp only [C04.Suite.statusProp]
    cases C04.Suite.bool ⟨tests, none⟩ <;> rfl

/-- `_merged_result` (of `_merge_test_suites`) is the model's `mergedResult`. -/
theorem C04_source_merged_result (r1 r2 : C04.TestStatus) :
    Gen.c04MergedResultSrc.run noExt [tsVal r1, tsVal r2] = .ok (optTsVal (C04.mergedResult r1 r2)) := by
  cases r1 <;> cases r2 <;> rfl

end Fc
