/-
  Property C11 — Every field is reported exactly once; filtered fields cannot affect the verdict.
  Only property theorems live here; helper lemmas are in FcProofs/Lemmas/Matching.lean.

  Model:  `Fc.findMatches` (FcModel/Matching.lean — `_matching.find_matches`),
          `Fc.comparatorCall`, `Fc.comparisons`, `Fc.mkSuite`, `Fc.Suite.bool/iter`
          (FcModel/Compare.lean — `FieldDataComparator.__call__`, `FieldComparisonSuite`)
  Spec:   `Fc.Spec.report`, `Fc.Spec.verdict` (FcModel/Spec/C11.lean)

  All theorems hold for lists of ANY length; duplicates are allowed unless `Nodup` is stated.
  `sel n` is the filter decision `incl (strip n) ∧ ¬ excl (strip n)` (`Fc.selectedName`), `pred s t` the
  outcome (pass / fail / raise) of selecting and evaluating the predicate on the pair — arbitrary functions.
-/
import FcProofs.Lemmas.Matching
namespace Fc

def names (l : List Fld) : List Nat := l.map (·.name)

/-- statuses of performed comparisons -/
def isCompared (s : FStatus) : Bool := s == .passed || s == .failed || s == .error

/-- **C11 (partition).**  For ANY equality predicate and any two lists, `find_matches` partitions both
    inputs: matched sources + source orphans is a permutation of the source, matched references +
    reference orphans a permutation of the reference (nothing lost, nothing duplicated); every match
    satisfies the predicate; no orphan pair would have matched (no omitted match); orders are preserved. -/
theorem C11_partition {α β : Type} (eq : α → β → Bool) (src : List α) (ref : List β) :
    let r := findMatches eq src ref
    (r.pairs.map Prod.fst ++ r.orphansSrc).Perm src ∧
    (r.pairs.map Prod.snd ++ r.orphansRef).Perm ref ∧
    (∀ p ∈ r.pairs, eq p.1 p.2 = true) ∧
    (∀ s ∈ r.orphansSrc, ∀ t ∈ r.orphansRef, eq s t = false) ∧
    (r.pairs.map Prod.fst).Sublist src ∧ r.orphansSrc.Sublist src ∧ r.orphansRef.Sublist ref :=
  findMatches_facts eq src ref

/-- the suite's iteration (failed, passed, skipped buckets) is a permutation of the comparisons built by
    `__call__`: the three-way bucket split neither drops nor repeats an entry -/
theorem C11_suite_keeps_all (sel : Nat → Bool) (pred : Fld → Fld → Outcome) (src ref : List Fld) :
    (comparatorCall sel true pred src ref).suite.iter.Perm (comparisons sel pred src ref) := by
  simp only [comparatorCall, Bool.not_true, Bool.false_eq_true, if_false]
  exact mkSuite_iter_perm true _

/-- **C11 (once), multiset form.**  With equal domains, a name `n` is reported exactly
    `max (#n in source) (#n in reference)` times — for all lists, duplicates included. -/
theorem C11_once_count (sel : Nat → Bool) (pred : Fld → Fld → Outcome) (src ref : List Fld) (n : Nat) :
    (((comparatorCall sel true pred src ref).suite.iter).map (·.name)).count n
      = max ((names src).count n) ((names ref).count n) := by
  rw [((C11_suite_keeps_all sel pred src ref).map (·.name)).count_eq]
  obtain ⟨h1, h2, h3, h4, _, _, _⟩ := findMatches_facts nameEq src ref
  have c1 := (h1.map (·.name)).count_eq n
  have c2 := (h2.map (·.name)).count_eq n
  -- matched pairs carry the same name on both sides
  have hm : ((findMatches nameEq src ref).pairs.map Prod.fst).map (·.name)
      = ((findMatches nameEq src ref).pairs.map Prod.snd).map (·.name) := by
    simp only [List.map_map]
    apply List.map_congr_left
    intro p hp
    have := h3 p hp
    simpa [nameEq] using this
  -- an orphan source and an orphan reference never share a name
  have hz : ((findMatches nameEq src ref).orphansSrc.map (·.name)).count n = 0 ∨
      ((findMatches nameEq src ref).orphansRef.map (·.name)).count n = 0 := by
    by_cases hs : n ∈ (findMatches nameEq src ref).orphansSrc.map (·.name)
    · right
      apply List.count_eq_zero.mpr
      intro ht
      obtain ⟨s, hs1, hs2⟩ := List.mem_map.mp hs
      obtain ⟨t, ht1, ht2⟩ := List.mem_map.mp ht
      have := h4 s hs1 t ht1
      simp [nameEq, hs2, ht2] at this
    · left
      exact List.count_eq_zero.mpr hs
  have hp := count_map_filter_add (fun p : Fld × Fld => sel p.1.name) (fun p => p.1.name)
    (findMatches nameEq src ref).pairs n
  simp only [List.map_append, List.count_append] at c1 c2
  rw [← hm] at c2
  simp only [List.map_map] at c1 c2
  simp only [comparisons, compareMatches, filterMatches, List.map_append, List.map_map,
    List.count_append, names]
  have e1 : ((fun c : Cmp => c.name) ∘ fun p : Fld × Fld => (⟨p.1.name, outcomeStatus (pred p.1 p.2)⟩ : Cmp))
      = (fun p => p.1.name) := rfl
  have e2 : ((fun c : Cmp => c.name) ∘ fun f : Fld => (⟨f.name, .missing_source⟩ : Cmp)) = (fun f => f.name) := rfl
  have e3 : ((fun c : Cmp => c.name) ∘ fun f : Fld => (⟨f.name, .missing_reference⟩ : Cmp)) = (fun f => f.name) := rfl
  have e4 : ((fun c : Cmp => c.name) ∘ (fun f : Fld => (⟨f.name, .filtered⟩ : Cmp)) ∘ Prod.fst)
      = (fun p : Fld × Fld => p.1.name) := rfl
  have e5 : ((fun x : Fld => x.name) ∘ Prod.fst) = (fun p : Fld × Fld => p.1.name) := rfl
  rw [e1, e2, e3, e4]
  rw [e5] at c1 c2
  omega

/-- **C11 (once).**  With pairwise distinct names on each side and equal domains, the reported names
    are exactly the names occurring in the source or the reference, each exactly once. -/
theorem C11_once (sel : Nat → Bool) (pred : Fld → Fld → Outcome) (src ref : List Fld)
    (hs : (names src).Nodup) (hr : (names ref).Nodup) :
    let reported := ((comparatorCall sel true pred src ref).suite.iter).map (·.name)
    reported.Nodup ∧ ∀ n, n ∈ reported ↔ (n ∈ names src ∨ n ∈ names ref) := by
  intro reported
  have hc := C11_once_count sel pred src ref
  constructor
  · rw [List.nodup_iff_count]
    intro n
    have h1 := (List.nodup_iff_count.mp hs) n
    have h2 := (List.nodup_iff_count.mp hr) n
    show List.count n reported ≤ 1
    rw [show List.count n reported = _ from hc n]
    omega
  · intro n
    rw [← List.count_pos_iff, ← List.count_pos_iff (l := names src), ← List.count_pos_iff (l := names ref)]
    rw [show List.count n reported = _ from hc n]
    omega

/-- members of a matched pair come from the two inputs and carry the same (annotated) name -/
theorem C11_pairs_sound (src ref : List Fld) (p : Fld × Fld) (hp : p ∈ (findMatches nameEq src ref).pairs) :
    p.1 ∈ src ∧ p.2 ∈ ref ∧ p.1.name = p.2.name := by
  obtain ⟨h1, h2, h3, _, _, _, _⟩ := findMatches_facts nameEq src ref
  refine ⟨?_, ?_, ?_⟩
  · exact h1.subset (List.mem_append_left _ (List.mem_map.mpr ⟨p, hp, rfl⟩))
  · exact h2.subset (List.mem_append_left _ (List.mem_map.mpr ⟨p, hp, rfl⟩))
  · simpa [nameEq] using h3 p hp

/-- the pairs that are actually compared: matched and selected by the filters -/
def comparedPairs (sel : Nat → Bool) (src ref : List Fld) : List (Fld × Fld) :=
  (filterMatches sel (findMatches nameEq src ref).pairs).1

/-- **C11 (verdict).**  The suite is truthy exactly when the domains are equal and every performed
    comparison passed (no `fail`, no `raise`); missing and filtered entries never make it falsy. -/
theorem C11_verdict (sel : Nat → Bool) (dom : Bool) (pred : Fld → Fld → Outcome) (src ref : List Fld) :
    (comparatorCall sel dom pred src ref).suite.bool = true ↔
      dom = true ∧ ∀ p ∈ comparedPairs sel src ref, pred p.1 p.2 = .pass := by
  cases dom with
  | false => simp [comparatorCall, mkSuite, Suite.bool]
  | true =>
    simp only [comparatorCall, Bool.not_true, Bool.false_eq_true, if_false, mkSuite_bool,
      Bool.true_and, true_and, comparisons, List.all_append, Bool.and_eq_true, List.all_eq_true,
      comparedPairs]
    constructor
    · rintro ⟨⟨⟨h, _⟩, _⟩, _⟩ p hp
      have := h ⟨p.1.name, outcomeStatus (pred p.1 p.2)⟩ (List.mem_map.mpr ⟨p, hp, rfl⟩)
      revert this
      cases pred p.1 p.2 <;> simp [outcomeStatus, Spec.isFailure]
    · intro h
      refine ⟨⟨⟨?_, ?_⟩, ?_⟩, ?_⟩
      · intro c hc
        obtain ⟨p, hp, rfl⟩ := List.mem_map.mp hc
        simp [h p hp, outcomeStatus, Spec.isFailure]
      all_goals
        intro c hc
        obtain ⟨f, _, rfl⟩ := List.mem_map.mp hc
        simp [Spec.isFailure]

/-- the same verdict read off the report: truthy iff domains equal and no reported entry is failed/error -/
theorem C11_verdict_report (sel : Nat → Bool) (dom : Bool) (pred : Fld → Fld → Outcome) (src ref : List Fld) :
    (comparatorCall sel dom pred src ref).suite.bool = true ↔
      dom = true ∧ ∀ c ∈ (comparatorCall sel dom pred src ref).suite.iter,
        c.status ≠ .failed ∧ c.status ≠ .error := by
  cases dom with
  | false => simp [comparatorCall, mkSuite, Suite.bool]
  | true =>
    have hperm := C11_suite_keeps_all sel pred src ref
    simp only [true_and]
    have hb : (comparatorCall sel true pred src ref).suite.bool
        = (comparisons sel pred src ref).all (fun c => !Spec.isFailure c.status) := by
      simp [comparatorCall, mkSuite_bool]
    rw [hb, List.all_eq_true]
    constructor
    · intro h c hc
      have := h c (hperm.subset hc)
      revert this
      cases c.status <;> simp [Spec.isFailure]
    · intro h c hc
      have := h c (hperm.symm.subset hc)
      revert this
      cases c.status <;> simp [Spec.isFailure]

/-- **C11 (non-interference of filtered fields).**  Two predicate behaviours that agree on every
    equal-named pair (source field, reference field) whose name is selected by the filters give the SAME
    result — suite (verdict and report), callback trace, selector trace.  In particular the values of
    filtered-out fields, of one-sided fields and of differently-named pairs cannot influence anything. -/
theorem C11_filtered_noninterference (sel : Nat → Bool) (dom : Bool) (pred pred' : Fld → Fld → Outcome)
    (src ref : List Fld)
    (h : ∀ s ∈ src, ∀ t ∈ ref, s.name = t.name → sel s.name = true → pred s t = pred' s t) :
    comparatorCall sel dom pred src ref = comparatorCall sel dom pred' src ref := by
  have hc : compareMatches pred (filterMatches sel (findMatches nameEq src ref).pairs).1
      = compareMatches pred' (filterMatches sel (findMatches nameEq src ref).pairs).1 := by
    apply List.map_congr_left
    intro p hp
    simp only [filterMatches, List.mem_filter] at hp
    obtain ⟨h1, h2, h3⟩ := C11_pairs_sound src ref p hp.1
    rw [h p.1 h1 p.2 h2 h3 hp.2]
  cases dom with
  | false => simp [comparatorCall]
  | true => simp only [comparatorCall, comparisons, hc]

/-- **C11 (domain gate).**  Unequal domains: nothing is matched, selected, compared or reported, no
    callback fires, and the verdict is false whatever the fields are. -/
theorem C11_domain_gate (sel : Nat → Bool) (pred : Fld → Fld → Outcome) (src ref : List Fld) :
    let r := comparatorCall sel false pred src ref
    r.suite.bool = false ∧ r.suite.iter = [] ∧ r.callbacks = [] ∧ r.selector = [] := by
  simp [comparatorCall, mkSuite, Suite.bool, Suite.iter]

/-- **C11 (callback).**  The callback fires once per performed comparison, in order: its trace is the
    list of compared pairs (source order) with the outcome as status, it has as many entries as there are
    compared pairs, the selector was asked for exactly those pairs, and the trace is precisely the
    sub-multiset of report entries with a compared status. -/
theorem C11_callback (sel : Nat → Bool) (pred : Fld → Fld → Outcome) (src ref : List Fld) :
    let r := comparatorCall sel true pred src ref
    r.callbacks = (comparedPairs sel src ref).map (fun p => ⟨p.1.name, outcomeStatus (pred p.1 p.2)⟩) ∧
    r.callbacks.length = (comparedPairs sel src ref).length ∧
    r.selector = (comparedPairs sel src ref).map (fun p => (p.1.tag, p.2.tag)) ∧
    r.callbacks.Perm (r.suite.iter.filter (fun c => isCompared c.status)) := by
  refine ⟨by simp [comparatorCall, comparedPairs, compareMatches], by simp [comparatorCall, comparedPairs, compareMatches],
    by simp [comparatorCall, comparedPairs], ?_⟩
  have hperm := (C11_suite_keeps_all sel pred src ref).filter (fun c => isCompared c.status)
  refine List.Perm.trans ?_ hperm.symm
  simp only [comparatorCall, Bool.not_true, Bool.false_eq_true, if_false, comparisons, List.filter_append]
  have f1 : ∀ l : List (Fld × Fld), (compareMatches pred l).filter (fun c => isCompared c.status) = compareMatches pred l := by
    intro l
    apply List.filter_eq_self.mpr
    intro c hc
    obtain ⟨p, _, rfl⟩ := List.mem_map.mp hc
    cases pred p.1 p.2 <;> simp [outcomeStatus, isCompared]
  have f2 : ∀ (l : List Fld) (st : FStatus), isCompared st = false →
      (l.map (fun f => (⟨f.name, st⟩ : Cmp))).filter (fun c => isCompared c.status) = [] := by
    intro l st hst
    apply List.filter_eq_nil_iff.mpr
    intro c hc
    obtain ⟨f, _, rfl⟩ := List.mem_map.mp hc
    simp [hst]
  rw [f1, f2 _ _ (by decide), f2 _ _ (by decide), f2 _ _ (by decide)]
  simp

/-- **C11 (status).**  Pairwise distinct names on each side, equal domains.  For every name `n`:
    reported *missing_reference* iff only in the source; *missing_source* iff only in the reference;
    *filtered* iff on both sides and not selected; reported with a compared status `st` iff on both sides,
    selected, and `st` is the outcome of the predicate on THE source and reference field of that name
    (passed / failed / error for pass / fail / raise). -/
theorem C11_status (sel : Nat → Bool) (pred : Fld → Fld → Outcome) (src ref : List Fld)
    (hs : (names src).Nodup) (hr : (names ref).Nodup) (n : Nat) :
    let R := (comparatorCall sel true pred src ref).suite.iter
    ((⟨n, .missing_reference⟩ : Cmp) ∈ R ↔ (n ∈ names src ∧ n ∉ names ref)) ∧
    ((⟨n, .missing_source⟩ : Cmp) ∈ R ↔ (n ∈ names ref ∧ n ∉ names src)) ∧
    ((⟨n, .filtered⟩ : Cmp) ∈ R ↔ (n ∈ names src ∧ n ∈ names ref ∧ sel n = false)) ∧
    (∀ st, isCompared st = true →
      ((⟨n, st⟩ : Cmp) ∈ R ↔ ∃ s ∈ src, ∃ t ∈ ref, s.name = n ∧ t.name = n ∧ sel n = true ∧
        st = outcomeStatus (pred s t))) := by
  intro R
  have hperm := C11_suite_keeps_all sel pred src ref
  have hR : ∀ c, c ∈ R ↔ c ∈ comparisons sel pred src ref := fun c => hperm.mem_iff
  obtain ⟨h1, h2, h3, h4, _, _, _⟩ := findMatches_facts nameEq src ref
  have sound := C11_pairs_sound src ref
  refine ⟨?_, ?_, ?_, ?_⟩
  · -- missing_reference
    rw [hR, mem_comparisons]
    constructor
    · rintro (⟨p, _, _, hc⟩ | ⟨f, _, hc⟩ | ⟨f, hf, hc⟩ | ⟨p, _, _, hc⟩)
      · exact absurd (Cmp.mk.inj hc).2.symm (outcomeStatus_compared _).2.1
      · cases (Cmp.mk.inj hc).2
      · have hn : n = f.name := (Cmp.mk.inj hc).1
        subst hn
        refine ⟨List.mem_map.mpr ⟨f, h1.subset (List.mem_append_right _ hf), rfl⟩, ?_⟩
        intro hmem
        obtain ⟨t, ht, htn⟩ := List.mem_map.mp hmem
        obtain ⟨p, hp, hp1⟩ := src_matched_of_partner src ref hs (h1.subset (List.mem_append_right _ hf)) ht htn.symm
        exact orphanSrc_name_ne src ref hs hf hp (by rw [hp1])
      · cases (Cmp.mk.inj hc).2
    · rintro ⟨hsn, hrn⟩
      obtain ⟨s, hsm, rfl⟩ := List.mem_map.mp hsn
      have hs' := h1.symm.subset hsm
      rw [List.mem_append] at hs'
      cases hs' with
      | inl hm =>
        obtain ⟨p, hp, rfl⟩ := List.mem_map.mp hm
        obtain ⟨_, hp2, hpn⟩ := sound p hp
        exact absurd (List.mem_map.mpr ⟨p.2, hp2, hpn.symm⟩) hrn
      | inr ho => exact Or.inr (Or.inr (Or.inl ⟨s, ho, rfl⟩))
  · -- missing_source
    rw [hR, mem_comparisons]
    constructor
    · rintro (⟨p, _, _, hc⟩ | ⟨f, hf, hc⟩ | ⟨f, _, hc⟩ | ⟨p, _, _, hc⟩)
      · exact absurd (Cmp.mk.inj hc).2.symm (outcomeStatus_compared _).1
      · have hn : n = f.name := (Cmp.mk.inj hc).1
        subst hn
        refine ⟨List.mem_map.mpr ⟨f, h2.subset (List.mem_append_right _ hf), rfl⟩, ?_⟩
        intro hmem
        obtain ⟨s, hsm, hsn⟩ := List.mem_map.mp hmem
        obtain ⟨p, hp, hp2⟩ := ref_matched_of_partner src ref hr hsm (h2.subset (List.mem_append_right _ hf)) hsn
        exact orphanRef_name_ne src ref hr hf hp (by rw [hp2])
      · cases (Cmp.mk.inj hc).2
      · cases (Cmp.mk.inj hc).2
    · rintro ⟨hrn, hsn⟩
      obtain ⟨t, htm, rfl⟩ := List.mem_map.mp hrn
      have ht' := h2.symm.subset htm
      rw [List.mem_append] at ht'
      cases ht' with
      | inl hm =>
        obtain ⟨p, hp, rfl⟩ := List.mem_map.mp hm
        obtain ⟨hp1, _, hpn⟩ := sound p hp
        exact absurd (List.mem_map.mpr ⟨p.1, hp1, hpn⟩) hsn
      | inr ho => exact Or.inr (Or.inl ⟨t, ho, rfl⟩)
  · -- filtered
    rw [hR, mem_comparisons]
    constructor
    · rintro (⟨p, _, _, hc⟩ | ⟨f, _, hc⟩ | ⟨f, _, hc⟩ | ⟨p, hp, hsel, hc⟩)
      · exact absurd (Cmp.mk.inj hc).2.symm (outcomeStatus_compared _).2.2
      · cases (Cmp.mk.inj hc).2
      · cases (Cmp.mk.inj hc).2
      · have hn : n = p.1.name := (Cmp.mk.inj hc).1
        subst hn
        obtain ⟨hp1, hp2, hpn⟩ := sound p hp
        exact ⟨List.mem_map.mpr ⟨p.1, hp1, rfl⟩, List.mem_map.mpr ⟨p.2, hp2, hpn.symm⟩, hsel⟩
    · rintro ⟨hsn, hrn, hsel⟩
      obtain ⟨s, hsm, rfl⟩ := List.mem_map.mp hsn
      obtain ⟨t, htm, htn⟩ := List.mem_map.mp hrn
      obtain ⟨p, hp, rfl⟩ := src_matched_of_partner src ref hs hsm htm htn.symm
      exact Or.inr (Or.inr (Or.inr ⟨p, hp, hsel, rfl⟩))
  · -- compared
    intro st hst
    rw [hR, mem_comparisons]
    constructor
    · rintro (⟨p, hp, hsel, hc⟩ | ⟨f, _, hc⟩ | ⟨f, _, hc⟩ | ⟨p, _, _, hc⟩)
      · obtain ⟨hp1, hp2, hpn⟩ := sound p hp
        obtain ⟨hn, hst'⟩ := Cmp.mk.inj hc
        subst hn
        exact ⟨p.1, hp1, p.2, hp2, rfl, hpn.symm, hsel, hst'⟩
      · rw [(Cmp.mk.inj hc).2] at hst; simp [isCompared] at hst
      · rw [(Cmp.mk.inj hc).2] at hst; simp [isCompared] at hst
      · rw [(Cmp.mk.inj hc).2] at hst; simp [isCompared] at hst
    · rintro ⟨s, hsm, t, htm, hsn, htn, hsel, rfl⟩
      obtain ⟨p, hp, hp1⟩ := src_matched_of_partner src ref hs hsm htm (hsn.trans htn.symm)
      obtain ⟨_, hp2, hpn⟩ := sound p hp
      have ht : p.2 = t := eq_of_nodup_map (fun f : Fld => f.name) (l := ref) hr hp2 htm (by rw [← hpn, hp1, hsn, htn])
      subst hp1 ht hsn
      exact Or.inl ⟨p, hp, hsel, rfl⟩

/-- "compared iff on both sides and selected": a name has an entry with a compared status exactly when
    it occurs in the source and in the reference and the filters select it -/
theorem C11_compared_iff (sel : Nat → Bool) (pred : Fld → Fld → Outcome) (src ref : List Fld)
    (hs : (names src).Nodup) (hr : (names ref).Nodup) (n : Nat) :
    (∃ st, isCompared st = true ∧ (⟨n, st⟩ : Cmp) ∈ (comparatorCall sel true pred src ref).suite.iter) ↔
      (n ∈ names src ∧ n ∈ names ref ∧ sel n = true) := by
  obtain ⟨_, _, _, h4⟩ := C11_status sel pred src ref hs hr n
  constructor
  · rintro ⟨st, hst, hmem⟩
    obtain ⟨s, hsm, t, htm, hsn, htn, hsel, _⟩ := (h4 st hst).mp hmem
    exact ⟨List.mem_map.mpr ⟨s, hsm, hsn⟩, List.mem_map.mpr ⟨t, htm, htn⟩, hsel⟩
  · rintro ⟨hsn, hrn, hsel⟩
    obtain ⟨s, hsm, hsn'⟩ := List.mem_map.mp hsn
    obtain ⟨t, htm, htn'⟩ := List.mem_map.mp hrn
    refine ⟨outcomeStatus (pred s t), ?_, (h4 _ ?_).mpr ⟨s, hsm, t, htm, hsn', htn', hsel, rfl⟩⟩
    all_goals cases pred s t <;> simp [outcomeStatus, isCompared]

theorem C11_distinctNames_iff (l : List Fld) : Spec.distinctNames l = true ↔ (names l).Nodup := by
  induction l with
  | nil => simp [Spec.distinctNames, names]
  | cons f fs ih =>
    simp only [Spec.distinctNames, Bool.and_eq_true, Bool.not_eq_eq_eq_not, Bool.not_true, names,
      List.map_cons, List.nodup_cons] at ih ⊢
    rw [ih]
    have : Spec.hasName fs f.name = false ↔ f.name ∉ List.map (fun x => x.name) fs := by
      simp only [Spec.hasName, List.mem_map, not_exists, not_and]
      constructor
      · intro h x hx hn
        have := List.any_eq_false.mp h x hx
        simp [hn] at this
      · intro h
        apply List.any_eq_false.mpr
        intro x hx
        simpa using h x hx
    rw [this]

/-- **C11 (model = spec).**  Inside the hypothesis printed by the driver (pairwise distinct names on each
    side) the report of the modelled comparator is, as a multiset, the set-theoretic report of the spec,
    and the verdicts coincide for either domain verdict. -/
theorem C11_model_eq_spec (sel : Nat → Bool) (pred : Fld → Fld → Outcome) (src ref : List Fld)
    (hyp : Spec.hyp src ref = true) :
    (comparatorCall sel true pred src ref).suite.iter.Perm (Spec.report sel pred src ref) ∧
    ∀ dom, (comparatorCall sel dom pred src ref).suite.bool = Spec.verdict sel dom pred src ref := by
  simp only [Spec.hyp, Bool.and_eq_true, C11_distinctNames_iff] at hyp
  obtain ⟨hs, hr⟩ := hyp
  have honce := (C11_once sel pred src ref hs hr).1
  have hRnodup : (comparatorCall sel true pred src ref).suite.iter.Nodup := nodup_of_nodup_map _ honce
  -- find? on the reference: characterisation
  have hfind_some : ∀ (s t : Fld), ref.find? (fun t => t.name == s.name) = some t → t ∈ ref ∧ t.name = s.name := by
    intro s t h
    exact ⟨List.mem_of_find?_eq_some h, by simpa using List.find?_some h⟩
  have hfind_none : ∀ s : Fld, ref.find? (fun t => t.name == s.name) = none → s.name ∉ names ref := by
    intro s h hmem
    obtain ⟨t, ht, htn⟩ := List.mem_map.mp hmem
    have := List.find?_eq_none.mp h t ht
    simp [htn] at this
  have hhas : ∀ n, Spec.hasName src n = false ↔ n ∉ names src := by
    intro n
    simp only [Spec.hasName, names, List.mem_map, not_exists, not_and]
    constructor
    · intro h x hx hn
      have := List.any_eq_false.mp h x hx
      simp [hn] at this
    · intro h
      apply List.any_eq_false.mpr
      intro x hx
      simpa using h x hx
  -- spec report ⊆ model report
  have sub1 : ∀ c, c ∈ Spec.report sel pred src ref → c ∈ (comparatorCall sel true pred src ref).suite.iter := by
    intro c hc
    simp only [Spec.report, List.mem_append, List.mem_map, List.mem_filter] at hc
    rcases hc with ⟨s, hsm, rfl⟩ | ⟨t, ⟨htm, hno⟩, rfl⟩
    · obtain ⟨h1, _, h3, h4⟩ := C11_status sel pred src ref hs hr s.name
      unfold Spec.entryOf
      cases hf : ref.find? (fun t => t.name == s.name) with
      | none =>
        exact h1.mpr ⟨List.mem_map.mpr ⟨s, hsm, rfl⟩, hfind_none s hf⟩
      | some t =>
        obtain ⟨htm, htn⟩ := hfind_some s t hf
        by_cases hsel : sel s.name = true
        · simp only [hsel, if_true]
          refine (h4 _ ?_).mpr ⟨s, hsm, t, htm, rfl, htn, hsel, rfl⟩
          cases pred s t <;> simp [outcomeStatus, isCompared]
        · simp only [hsel, Bool.false_eq_true, if_false]
          exact h3.mpr ⟨List.mem_map.mpr ⟨s, hsm, rfl⟩, List.mem_map.mpr ⟨t, htm, htn⟩, by simpa using hsel⟩
    · obtain ⟨_, h2, _, _⟩ := C11_status sel pred src ref hs hr t.name
      exact h2.mpr ⟨List.mem_map.mpr ⟨t, htm, rfl⟩, (hhas _).mp (by simpa using hno)⟩
  -- model report ⊆ spec report
  have sub2 : ∀ c, c ∈ (comparatorCall sel true pred src ref).suite.iter → c ∈ Spec.report sel pred src ref := by
    intro c hc
    obtain ⟨n, st⟩ := c
    obtain ⟨h1, h2, h3, h4⟩ := C11_status sel pred src ref hs hr n
    simp only [Spec.report, List.mem_append, List.mem_map, List.mem_filter]
    by_cases hcmp : isCompared st = true
    · obtain ⟨s, hsm, t, htm, hsn, htn, hsel, rfl⟩ := (h4 st hcmp).mp hc
      left
      refine ⟨s, hsm, ?_⟩
      unfold Spec.entryOf
      cases hf : ref.find? (fun t => t.name == s.name) with
      | none => exact absurd (List.mem_map.mpr ⟨t, htm, htn.trans hsn.symm⟩) (hfind_none s hf)
      | some t' =>
        obtain ⟨htm', htn'⟩ := hfind_some s t' hf
        have : t' = t := eq_of_nodup_map (fun f : Fld => f.name) (l := ref) hr htm' htm (by rw [htn', hsn, htn])
        subst this
        subst hsn
        simp [hsel]
    · cases st with
      | passed => simp [isCompared] at hcmp
      | failed => simp [isCompared] at hcmp
      | error => simp [isCompared] at hcmp
      | missing_source =>
        obtain ⟨hrn, hsn⟩ := h2.mp hc
        obtain ⟨t, htm, rfl⟩ := List.mem_map.mp hrn
        exact Or.inr ⟨t, ⟨htm, by simpa using (hhas _).mpr hsn⟩, rfl⟩
      | missing_reference =>
        obtain ⟨hsn, hrn⟩ := h1.mp hc
        obtain ⟨s, hsm, rfl⟩ := List.mem_map.mp hsn
        left
        refine ⟨s, hsm, ?_⟩
        unfold Spec.entryOf
        cases hf : ref.find? (fun t => t.name == s.name) with
        | none => rfl
        | some t' =>
          obtain ⟨htm', htn'⟩ := hfind_some s t' hf
          exact absurd (List.mem_map.mpr ⟨t', htm', htn'⟩) hrn
      | filtered =>
        obtain ⟨hsn, hrn, hsel⟩ := h3.mp hc
        obtain ⟨s, hsm, rfl⟩ := List.mem_map.mp hsn
        left
        refine ⟨s, hsm, ?_⟩
        unfold Spec.entryOf
        cases hf : ref.find? (fun t => t.name == s.name) with
        | none => exact absurd hrn (hfind_none s hf)
        | some t' => simp [hsel]
  -- the spec report has distinct names, hence no duplicates
  have hSnodup : (Spec.report sel pred src ref).Nodup := by
    apply nodup_of_nodup_map (fun c : Cmp => c.name)
    simp only [Spec.report, List.map_append, List.map_map]
    have e1 : ((fun c : Cmp => c.name) ∘ Spec.entryOf sel pred ref) = (fun f : Fld => f.name) := by
      funext s
      simp only [Function.comp, Spec.entryOf]
      cases ref.find? (fun t => t.name == s.name) with
      | none => rfl
      | some t => by_cases h : sel s.name = true <;> simp [h]
    have e2 : ((fun c : Cmp => c.name) ∘ fun t : Fld => (⟨t.name, .missing_source⟩ : Cmp)) = (fun f : Fld => f.name) := rfl
    rw [e1, e2, List.nodup_append]
    refine ⟨hs, (List.filter_sublist.map _).nodup hr, ?_⟩
    intro a ha b hb hab
    subst hab
    obtain ⟨t, ht, rfl⟩ := List.mem_map.mp hb
    have := (List.mem_filter.mp ht).2
    exact ((hhas _).mp (by simpa using this)) ha
  have hperm : (comparatorCall sel true pred src ref).suite.iter.Perm (Spec.report sel pred src ref) :=
    (List.perm_ext_iff_of_nodup hRnodup hSnodup).mpr (fun c => ⟨sub2 c, sub1 c⟩)
  refine ⟨hperm, ?_⟩
  intro dom
  cases dom with
  | false => simp [comparatorCall, mkSuite, Suite.bool, Spec.verdict]
  | true =>
    have hp2 := (C11_suite_keeps_all sel pred src ref).symm.trans hperm
    simp only [comparatorCall, Bool.not_true, Bool.false_eq_true, if_false, mkSuite_bool, Spec.verdict,
      Bool.true_and]
    exact hp2.all_eq

/-- the result depends on the filter decision only through the names of source fields -/
theorem C11_sel_congr (sel sel' : Nat → Bool) (dom : Bool) (pred : Fld → Fld → Outcome) (src ref : List Fld)
    (h : ∀ f ∈ src, sel f.name = sel' f.name) :
    comparatorCall sel dom pred src ref = comparatorCall sel' dom pred src ref := by
  have hf : filterMatches sel (findMatches nameEq src ref).pairs = filterMatches sel' (findMatches nameEq src ref).pairs := by
    simp only [filterMatches]
    have e1 : (findMatches nameEq src ref).pairs.filter (fun p => sel p.1.name)
        = (findMatches nameEq src ref).pairs.filter (fun p => sel' p.1.name) := by
      apply List.filter_congr
      intro p hp
      exact h p.1 (C11_pairs_sound src ref p hp).1
    have e2 : (findMatches nameEq src ref).pairs.filter (fun p => !sel p.1.name)
        = (findMatches nameEq src ref).pairs.filter (fun p => !sel' p.1.name) := by
      apply List.filter_congr
      intro p hp
      rw [h p.1 (C11_pairs_sound src ref p hp).1]
    rw [e1, e2]
  cases dom with
  | false => simp [comparatorCall]
  | true => simp only [comparatorCall, comparisons, hf]

/-- **C11 (filters see the name without the cell-type annotation) — PARTIAL.**

    Full statement (FALSE for the code as it is, finding F14): for all field collections the comparator
    behaves as if the filters were evaluated on the user-level name — the name itself for point / tabular
    fields, the name without the appended cell-type annotation for cell fields
    (`comparatorCall (selectedName strip incl excl) = comparatorCall (Spec.userSelected strip annot incl excl)`).

    Proved: the statement under the extra hypothesis `Spec.plainFixed strip annot src` — no plain source
    field name is changed by `remove_annotation` (no plain name contains " @ ").  `remove_annotation`
    cuts EVERY name at its last " @ ", also names that carry no annotation; the negation witness is in
    FcProofs/Witness/C11.lean, the class predicate of F14 is `¬ plainFixed`. -/
theorem C11_filter_names_partial (strip : Nat → Nat) (annot : Nat → Bool) (incl excl : Nat → Bool) (dom : Bool)
    (pred : Fld → Fld → Outcome) (src ref : List Fld) (hfix : Spec.plainFixed strip annot src = true) :
    comparatorCall (selectedName strip incl excl) dom pred src ref
      = comparatorCall (Spec.userSelected strip annot incl excl) dom pred src ref := by
  apply C11_sel_congr
  intro f hf
  have := (List.all_eq_true.mp hfix) f hf
  simp only [Bool.or_eq_true, beq_iff_eq] at this
  simp only [selectedName, Spec.userSelected]
  rcases this with h | h
  · simp [h]
  · by_cases ha : annot f.name = true
    · simp [ha]
    · simp [ha, h]

end Fc
