/-
  FcProofs.Lemmas.DiffHyp — hypotheses of the C14 theorems (comparable data sets / tables) and small helpers.
-/
import FcProofs.Lemmas.DiffTable
namespace Fc.C14

/-- the named field lists of a data set -/
def pointList (f : MeshFields) : List (String × NdArr) := f.pointFields.map fun p => (p.name, p.values)
def cellList (f : MeshFields) : List ((String × String) × NdArr) :=
  f.cellFields.map fun c => ((c.name, c.ctype), c.values)

/-- hypothesis of the mesh theorems ("comparable data sets with overlapping field sets"):
    distinct field names per side (cell fields: name and cell type), common fields have equal shapes and
    numeric entries, and every cell-field name is present on every cell type of the reference mesh
    (`MeshFields` stores a cell field for every type of its mesh) -/
structure C14Hyp (src ref : MeshFields) : Prop where
  points : ListsOk (pointList ref) (pointList src)
  cells : ListsOk (cellList ref) (cellList src)
  cover : ∀ n ct', ((dictGet (n, ct') (cellList ref)).isSome = true ∨ (dictGet (n, ct') (cellList src)).isSome = true) →
    ∀ ct ∈ ref.mesh.cellTypes, ((dictGet (n, ct) (cellList ref)).isSome = true ∨ (dictGet (n, ct) (cellList src)).isSome = true)

theorem specEntry_isSome {κ : Type} [BEq κ] [LawfulBEq κ] {l1 l2 : List (κ × NdArr)} (ok : ListsOk l1 l2) (k : κ) :
    (specEntry (dictGet k l1) (dictGet k l2)).isSome = ((dictGet k l1).isSome || (dictGet k l2).isSome) := by
  rcases h1 : dictGet k l1 with _ | a1 <;> rcases h2 : dictGet k l2 with _ | a2 <;> simp [specEntry]
  exact (ok.common k a1 a2 h1 h2).2

/-- numeric dtypes: floats, and integers of at least one bit -/
def numericDType : DType → Prop
  | .flt _ => True
  | .int _ b => 1 ≤ b
  | .str => False

theorem keysOf_map_const {κ ν : Type} [BEq κ] [LawfulBEq κ] (l : List κ) (v : ν) : keysOf (l.map fun k => (k, v)) = l := by
  induction l with
  | nil => rfl
  | cons x xs ih => rw [List.map_cons, keysOf_cons, ih]

/-- hypothesis of the table theorem: distinct column names per side, every column as long as its table,
    common columns numeric (the subtraction is defined) -/
structure C14TabHyp (src ref : TableFields) : Prop where
  nd1 : (keysOf ref.cols).Nodup
  nd2 : (keysOf src.cols).Nodup
  len1 : ∀ k a, dictGet k ref.cols = some a → a.data.length = ref.nrows
  len2 : ∀ k a, dictGet k src.cols = some a → a.data.length = src.nrows
  common : ∀ k a1 a2, dictGet k ref.cols = some a1 → dictGet k src.cols = some a2 →
    (promote a1.dtype a2.dtype).isSome = true


end Fc.C14
