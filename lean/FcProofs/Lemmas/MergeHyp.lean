/-
  Helper lemmas for property C06: the driver's decidable hypothesis `mergeHyp` implies the
  hypothesis `PieceOk` of the unstructured theorems, for every piece, with one common schema.
-/
import FcProofs.Lemmas.MergeStep
import FcProofs.Lemmas.MergeRead
namespace Fc.C06
open Fc.C06.Spec

/-! ### generalities -/

theorem prodList_cons (h : Nat) (t : List Nat) : prodList (h :: t) = h * prodList t := by
  unfold prodList
  have key : ∀ (l : List Nat) (x : Nat), l.foldl (· * ·) x = x * l.foldl (· * ·) 1 := by
    intro l
    induction l with
    | nil => intro x; simp
    | cons a r ih =>
      intro x
      simp only [List.foldl_cons]
      rw [ih (x * a), ih (1 * a), Nat.one_mul, Nat.mul_assoc]
  simp only [List.foldl_cons, Nat.one_mul]
  exact key t h

theorem data_length_of_wf (a : NdArr) (n : Nat) (h1 : a.shape.head? = some n)
    (h2 : a.data.length = prodList a.shape) : a.data.length = n * a.rowSize := by
  cases hs : a.shape with
  | nil => rw [hs] at h1; simp at h1
  | cons x t =>
    rw [hs] at h1
    simp only [List.head?_cons, Option.some.injEq] at h1
    rw [h2, NdArr.rowSize, hs, prodList_cons, h1]
    rfl

theorem nodupPoints_nodup (pts : List (List Int)) (h : nodupPoints pts = true) : pts.Nodup := by
  rw [← nodupRows_iff]
  simp only [nodupPoints, List.all_eq_true, List.mem_range, bne_iff_ne, ne_eq] at h
  intro i j hi hj e
  rcases Nat.lt_trichotomy i j with hlt | heq | hgt
  · exact absurd e (h j hj i hlt)
  · exact heq
  · exact absurd e.symm (h i hi j hgt)

theorem nodup_map_inj {α β} (k : α → β) (l : List α) (h : (l.map k).Nodup) (a b : α) (ha : a ∈ l)
    (hb : b ∈ l) (e : k a = k b) : a = b := by
  induction l with
  | nil => simp at ha
  | cons x r ih =>
    simp only [List.map_cons, List.nodup_cons] at h
    rcases List.mem_cons.mp ha with rfl | ha'
    · rcases List.mem_cons.mp hb with rfl | hb'
      · rfl
      · exact absurd (e ▸ List.mem_map_of_mem hb') h.1
    · rcases List.mem_cons.mp hb with rfl | hb'
      · exact absurd (e ▸ List.mem_map_of_mem ha') h.1
      · exact ih h.2 ha' hb'

/-- looking a name up in a list built from names -/
theorem find_map_names {β} (l : List String) (F : String → β) (m : String) (hm : m ∈ l) :
    (l.map fun n => (n, F n)).find? (·.1 == m) = some (m, F m) := by
  induction l with
  | nil => simp at hm
  | cons x r ih =>
    simp only [List.map_cons, List.find?_cons]
    by_cases hx : x = m
    · subst hx; simp
    · have : (x == m) = false := by simpa using hx
      simp only [this]
      exact ih ((List.mem_cons.mp hm).resolve_left (fun e => hx e.symm))

/-! ### schemas -/

/-- dtype and entry shape recorded for `n` in a schema list -/
def schemaLookup (sch : List (String × DType × List Nat)) (n : String) : DType × List Nat :=
  match sch.find? (·.1 == n) with
  | some s => s.2
  | none => (.str, [])

def pointSchemaOf (pfs : List PointField) : List (String × DType × List Nat) :=
  pfs.map fun f => (f.name, f.values.dtype, f.values.shape.tail)

theorem cellSchema_eq (f : MeshFields) :
    cellSchema f = (dedupNames (f.cellFields.map (·.name))).map fun n =>
      (n, (match f.cellFields.find? (·.name == n) with
           | some cf => (cf.values.dtype, cf.values.shape.tail)
           | none => (.str, []))) := by
  unfold cellSchema
  apply List.map_congr_left
  intro n _
  cases f.cellFields.find? (·.name == n) <;> rfl

theorem cellSchema_names (f : MeshFields) :
    (cellSchema f).map (·.1) = dedupNames (f.cellFields.map (·.name)) := by
  rw [cellSchema_eq, List.map_map]
  conv => rhs; rw [← List.map_id (dedupNames (f.cellFields.map (·.name)))]
  apply List.map_congr_left
  intro n _
  rfl

theorem pointSchemaOf_names (pfs : List PointField) : (pointSchemaOf pfs).map (·.1) = pfs.map (·.name) := by
  rw [pointSchemaOf, List.map_map]
  apply List.map_congr_left
  intro n _
  rfl

/-- what `pieceOk` says about one cell field: the schema records its own dtype and entry shape -/
theorem cellSchema_lookup (f : MeshFields) (hok : pieceOk f = true) (cf : CellField) (hcf : cf ∈ f.cellFields) :
    schemaLookup (cellSchema f) cf.name = (cf.values.dtype, cf.values.shape.tail) := by
  simp only [pieceOk, Bool.and_eq_true] at hok
  obtain ⟨⟨⟨⟨⟨_, _⟩, _⟩, _⟩, hcomp⟩, _⟩ := hok
  simp only [cellFieldsComplete, Bool.and_eq_true, List.all_eq_true] at hcomp
  obtain ⟨⟨hkeys, hall⟩, htypes⟩ := hcomp
  have hct : cf.ctype ∈ f.mesh.cellTypes := by
    have := htypes cf hcf
    simpa using this
  have hname : cf.name ∈ dedupNames (f.cellFields.map (·.name)) :=
    (mem_dedupNames _ _).mpr (List.mem_map_of_mem hcf)
  -- the first field of that name
  obtain ⟨cf1, hcf1⟩ : ∃ cf1, f.cellFields.find? (·.name == cf.name) = some cf1 := by
    cases hf : f.cellFields.find? (·.name == cf.name) with
    | some c => exact ⟨c, rfl⟩
    | none =>
      have := List.find?_eq_none.mp hf cf hcf
      simp at this
  have hlook : schemaLookup (cellSchema f) cf.name = (cf1.values.dtype, cf1.values.shape.tail) := by
    unfold schemaLookup
    rw [cellSchema_eq, find_map_names _ _ cf.name hname]
    simp only [hcf1]
  rw [hlook]
  have hs : (cf.name, cf1.values.dtype, cf1.values.shape.tail) ∈ cellSchema f := by
    rw [cellSchema_eq]
    refine List.mem_map.mpr ⟨cf.name, hname, ?_⟩
    simp only [hcf1]
  have := hall cf.ctype hct _ hs
  simp only at this
  cases hfind : findCellField f.cellFields cf.name cf.ctype with
  | none => rw [hfind] at this; cases this
  | some cf' =>
    rw [hfind] at this
    simp only [Bool.and_eq_true, beq_iff_eq] at this
    obtain ⟨hm, hn, hc⟩ := findCellField_some _ _ _ _ hfind
    have hkn := (nodupStrings_iff _).mp hkeys
    have : cf' = cf := nodup_map_inj (fun c : CellField => c.name ++ "\n" ++ c.ctype) _ hkn cf' cf hm hcf
      (by simp only [hn, hc])
    subst this
    rw [← this.1, ← this.2]

theorem pointSchema_lookup (f : MeshFields) (hok : pieceOk f = true) (pf : PointField) (hpf : pf ∈ f.pointFields) :
    schemaLookup (pointSchemaOf f.pointFields) pf.name = (pf.values.dtype, pf.values.shape.tail) := by
  simp only [pieceOk, Bool.and_eq_true] at hok
  obtain ⟨⟨⟨⟨⟨_, _⟩, _⟩, hnd⟩, _⟩, _⟩ := hok
  have hnd' : ((pointSchemaOf f.pointFields).map (·.1)).Nodup := by
    rw [pointSchemaOf, List.map_map]
    exact (nodupStrings_iff _).mp hnd
  have := find_by_name (pointSchemaOf f.pointFields) hnd' (pf.name, pf.values.dtype, pf.values.shape.tail)
    (List.mem_map.mpr ⟨pf, hpf, rfl⟩)
  unfold schemaLookup
  simp only at this
  rw [this]

/-- one piece that passes `pieceOk` satisfies `PieceOk` with the schema functions read off its own
    schema lists -/
theorem pieceOk_sound (f : MeshFields) (hok : pieceOk f = true) :
    PieceOk f f.mesh.dim (dedupNames (f.cellFields.map (·.name))) (f.pointFields.map (·.name))
      (fun n => prodList (schemaLookup (cellSchema f) n).2)
      (fun n => prodList (schemaLookup (pointSchemaOf f.pointFields) n).2)
      (fun n => (schemaLookup (cellSchema f) n).1)
      (fun n => (schemaLookup (pointSchemaOf f.pointFields) n).1) := by
  have hok' := hok
  simp only [pieceOk, Bool.and_eq_true] at hok
  obtain ⟨⟨⟨⟨⟨hwf, hndp⟩, _⟩, _⟩, hcomp⟩, _⟩ := hok
  simp only [MeshFields.wf, Bool.and_eq_true, List.all_eq_true, beq_iff_eq, decide_eq_true_eq] at hwf
  obtain ⟨⟨⟨hrows, hidx⟩, hpfs⟩, hcfs⟩ := hwf
  simp only [cellFieldsComplete, Bool.and_eq_true, List.all_eq_true] at hcomp
  obtain ⟨⟨_, hall⟩, _⟩ := hcomp
  constructor
  · exact hrows
  · exact nodupPoints_nodup _ hndp
  · intro b hb row hrow p hp
    exact hidx b hb row hrow p hp
  · intro cf hcf
    obtain ⟨h1, h2⟩ := hcfs cf hcf
    refine ⟨data_length_of_wf _ _ h1 h2, ?_⟩
    simp only [cellSchema_lookup f hok' cf hcf]
    rfl
  · intro ct hct _ n hn
    have hs : (n, (match f.cellFields.find? (·.name == n) with
           | some cf => (cf.values.dtype, cf.values.shape.tail)
           | none => (.str, []))) ∈ cellSchema f := by
      rw [cellSchema_eq]
      exact List.mem_map.mpr ⟨n, hn, rfl⟩
    have := hall ct hct _ hs
    simp only at this
    cases hfind : findCellField f.cellFields n ct with
    | none => rw [hfind] at this; cases this
    | some _ => rfl
  · intro pf hpf
    obtain ⟨h1, h2⟩ := hpfs pf hpf
    refine ⟨data_length_of_wf _ _ h1 h2, ?_⟩
    simp only [pointSchema_lookup f hok' pf hpf]
    rfl
  · intro n hn
    obtain ⟨pf, hpf, rfl⟩ := List.mem_map.mp hn
    rw [List.find?_isSome]
    exact ⟨pf, hpf, by simp⟩
  · intro cf hcf
    exact (mem_dedupNames _ _).mpr (List.mem_map_of_mem hcf)
  · intro pf hpf
    exact List.mem_map_of_mem hpf
  · intro cf hcf
    simp only [cellSchema_lookup f hok' cf hcf]
  · intro pf hpf
    simp only [pointSchema_lookup f hok' pf hpf]

theorem mergeHyp_sound (f0 : MeshFields) (rest : List MeshFields) (h : mergeHyp (f0 :: rest) = true) :
    ∀ f ∈ f0 :: rest,
      PieceOk f f0.mesh.dim (dedupNames (f0.cellFields.map (·.name))) (f0.pointFields.map (·.name))
        (fun n => prodList (schemaLookup (cellSchema f0) n).2)
        (fun n => prodList (schemaLookup (pointSchemaOf f0.pointFields) n).2)
        (fun n => (schemaLookup (cellSchema f0) n).1)
        (fun n => (schemaLookup (pointSchemaOf f0.pointFields) n).1) := by
  simp only [mergeHyp, Bool.and_eq_true, List.all_eq_true, beq_iff_eq] at h
  obtain ⟨h0, hr⟩ := h
  intro f hf
  rcases List.mem_cons.mp hf with rfl | hf'
  · exact pieceOk_sound f h0
  · obtain ⟨⟨⟨hok, hdim⟩, hps⟩, hcs⟩ := hr f hf'
    have hps' : pointSchemaOf f0.pointFields = pointSchemaOf f.pointFields := by
      simpa [samePointSchema, pointSchemaOf] using hps
    have hpn : f0.pointFields.map (·.name) = f.pointFields.map (·.name) := by
      rw [← pointSchemaOf_names, ← pointSchemaOf_names, hps']
    have hcn : dedupNames (f0.cellFields.map (·.name)) = dedupNames (f.cellFields.map (·.name)) := by
      rw [← cellSchema_names, ← cellSchema_names, hcs]
    rw [← hdim, hcn, hpn, ← hcs, hps']
    exact pieceOk_sound f hok

end Fc.C06
