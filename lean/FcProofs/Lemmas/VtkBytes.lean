/-
  Lemmas about the byte-level helpers of FcModel/VtkArray.lean: little-endian words, byte order,
  chunking, `words` (np.frombuffer of the header type), `itemsLE`.
-/
import FcProofs.Lemmas.Base64
import FcModel.Spec.C05
namespace Fc
open Spec

/-! ### little-endian words -/

theorem leBytes_length (k n : Nat) : (leBytes k n).length = k := by
  induction k generalizing n with
  | zero => rfl
  | succ k ih => simp [leBytes, ih]

theorem leBytes_isBytes (k n : Nat) : IsBytes (leBytes k n) := by
  induction k generalizing n with
  | zero => exact IsBytes.nil
  | succ k ih => exact IsBytes.cons (Nat.mod_lt _ (by decide)) (ih _)

theorem leVal_leBytes (k n : Nat) (h : n < 256 ^ k) : leVal (leBytes k n) = n := by
  induction k generalizing n with
  | zero => simp [leBytes, leVal] at *; omega
  | succ k ih =>
    have h2 : n / 256 < 256 ^ k := by
      rw [Nat.pow_succ] at h
      exact Nat.div_lt_of_lt_mul (by rw [Nat.mul_comm]; exact h)
    simp only [leBytes, leVal, ih _ h2]
    omega

theorem leVal_lt (l : List Nat) (h : IsBytes l) : leVal l < 256 ^ l.length := by
  induction l with
  | nil => simp [leVal]
  | cons a l ih =>
    have ha := h.head
    have := ih h.tail
    simp only [leVal, List.length_cons, Nat.pow_succ]
    omega

theorem leBytes_leVal (l : List Nat) (h : IsBytes l) : leBytes l.length (leVal l) = l := by
  induction l with
  | nil => rfl
  | cons a l ih =>
    have ha := h.head
    simp only [List.length_cons, leBytes, leVal]
    have e1 : (a + 256 * leVal l) % 256 = a := by omega
    have e2 : (a + 256 * leVal l) / 256 = leVal l := by omega
    rw [e1, e2, ih h.tail]

/-! ### byte order -/

theorem fix_fix (bo : ByteOrder) (x : List Nat) : bo.fix (bo.fix x) = x := by
  cases bo <;> simp [ByteOrder.fix]

theorem fix_length (bo : ByteOrder) (x : List Nat) : (bo.fix x).length = x.length := by
  cases bo <;> simp [ByteOrder.fix]

theorem fix_isBytes (bo : ByteOrder) (x : List Nat) (h : IsBytes x) : IsBytes (bo.fix x) := by
  cases bo
  · exact h
  · intro b hb
    exact h b (by simpa [ByteOrder.fix] using hb)

theorem wordBytes_length (bo : ByteOrder) (k n : Nat) : (wordBytes bo k n).length = k := by
  simp [wordBytes, fix_length, leBytes_length]

theorem wordBytes_isBytes (bo : ByteOrder) (k n : Nat) : IsBytes (wordBytes bo k n) :=
  fix_isBytes _ _ (leBytes_isBytes k n)

theorem wordVal_wordBytes (bo : ByteOrder) (k n : Nat) (h : n < 256 ^ k) :
    wordVal bo (wordBytes bo k n) = n := by
  simp [wordVal, wordBytes, fix_fix, leVal_leBytes k n h]

/-! ### chunking -/

theorem chunksAux_flatten (k : Nat) (hk : 0 < k) (fuel : Nat) (l : List Nat) (h : l.length ≤ fuel) :
    (chunksAux k fuel l).flatten = l := by
  induction fuel generalizing l with
  | zero =>
    have : l = [] := List.eq_nil_of_length_eq_zero (by omega)
    subst this; rfl
  | succ f ih =>
    unfold chunksAux
    by_cases hl : l = []
    · simp [hl]
    · simp only [hl, if_false, List.flatten_cons]
      have hpos : 0 < l.length := List.length_pos_iff.mpr hl
      rw [ih (l.drop k) (by simp; omega)]
      exact List.take_append_drop k l

theorem chunks_flatten (k : Nat) (hk : 0 < k) (l : List Nat) : (chunks k l).flatten = l :=
  chunksAux_flatten k hk _ l (Nat.le_refl _)

/-- chunking a concatenation of `k`-sized items gives the items back -/
theorem chunksAux_of_items (k : Nat) (hk : 0 < k) (items : List (List Nat))
    (hi : ∀ it ∈ items, it.length = k) (fuel : Nat) (hf : items.length ≤ fuel) :
    chunksAux k fuel items.flatten = items := by
  induction items generalizing fuel with
  | nil => cases fuel <;> simp [chunksAux]
  | cons it rest ih =>
    cases fuel with
    | zero => simp at hf
    | succ f =>
      have hit : it.length = k := hi it (by simp)
      have hne : it ++ rest.flatten ≠ [] := by
        intro h
        have : it = [] := (List.append_eq_nil_iff.mp h).1
        rw [this] at hit; simp at hit; omega
      unfold chunksAux
      simp only [List.flatten_cons, hne, if_false]
      rw [List.take_left' hit, List.drop_left' hit]
      rw [ih (fun x hx => hi x (by simp [hx])) f (by simp at hf; omega)]

theorem flatten_length_of_items (k : Nat) (items : List (List Nat)) (hi : ∀ it ∈ items, it.length = k) :
    items.flatten.length = k * items.length := by
  induction items with
  | nil => simp
  | cons it rest ih =>
    simp only [List.flatten_cons, List.length_append, List.length_cons]
    rw [ih (fun x hx => hi x (by simp [hx])), hi it (by simp)]
    rw [Nat.mul_succ]; omega

theorem chunks_of_items (k : Nat) (hk : 0 < k) (items : List (List Nat))
    (hi : ∀ it ∈ items, it.length = k) : chunks k items.flatten = items := by
  unfold chunks
  apply chunksAux_of_items k hk items hi
  rw [flatten_length_of_items k items hi]
  exact Nat.le_mul_of_pos_left _ hk

/-- if `k` divides the length, every chunk has exactly `k` elements -/
theorem chunksAux_all_length (k : Nat) (_hk : 0 < k) (fuel : Nat) (l : List Nat) (hd : l.length % k = 0) :
    ∀ c ∈ chunksAux k fuel l, c.length = k := by
  induction fuel generalizing l with
  | zero => intro c hc; simp [chunksAux] at hc
  | succ f ih =>
    intro c hc
    unfold chunksAux at hc
    by_cases hl : l = []
    · simp [hl] at hc
    · simp only [hl, if_false, List.mem_cons] at hc
      have hpos : 0 < l.length := List.length_pos_iff.mpr hl
      have hge : k ≤ l.length := by
        rcases Nat.lt_or_ge l.length k with h | h
        · rw [Nat.mod_eq_of_lt h] at hd; omega
        · exact h
      rcases hc with hc | hc
      · rw [hc, List.length_take]; omega
      · apply ih (l.drop k) _ c hc
        rw [List.length_drop]
        have := Nat.sub_mod_eq_zero_of_mod_eq (m := l.length) (n := k) (k := k) (by rw [hd]; simp)
        omega

theorem chunks_all_length (k : Nat) (hk : 0 < k) (l : List Nat) (hd : l.length % k = 0) :
    ∀ c ∈ chunks k l, c.length = k := chunksAux_all_length k hk _ l hd

theorem chunks_isBytes (k : Nat) (hk : 0 < k) (l : List Nat) (h : IsBytes l) :
    ∀ c ∈ chunks k l, IsBytes c := by
  intro c hc b hb
  apply h b
  rw [← chunks_flatten k hk l]
  exact List.mem_flatten.mpr ⟨c, hc, hb⟩

/-! ### headers: `words` inverts `headerBytes` -/

theorem headerBytes_length (hs : Nat) (bo : ByteOrder) (ws : List Nat) :
    (headerBytes hs bo ws).length = hs * ws.length := by
  unfold headerBytes
  rw [flatten_length_of_items hs _ (by
    intro it hit
    obtain ⟨w, _, rfl⟩ := List.mem_map.mp hit
    exact wordBytes_length bo hs w)]
  simp

theorem headerBytes_isBytes (hs : Nat) (bo : ByteOrder) (ws : List Nat) : IsBytes (headerBytes hs bo ws) := by
  intro b hb
  unfold headerBytes at hb
  obtain ⟨it, hit, hbit⟩ := List.mem_flatten.mp hb
  obtain ⟨w, _, rfl⟩ := List.mem_map.mp hit
  exact wordBytes_isBytes bo hs w b hbit

theorem headerBytes_append (hs : Nat) (bo : ByteOrder) (a b : List Nat) :
    headerBytes hs bo (a ++ b) = headerBytes hs bo a ++ headerBytes hs bo b := by
  simp [headerBytes]

theorem words_headerBytes (hs : Nat) (hpos : 0 < hs) (bo : ByteOrder) (ws : List Nat)
    (hfit : ∀ w ∈ ws, w < 256 ^ hs) : words bo hs (headerBytes hs bo ws) = some ws := by
  unfold words
  have hlen := headerBytes_length hs bo ws
  have h1 : ¬ (hs = 0 ∨ (headerBytes hs bo ws).length % hs ≠ 0) := by
    rw [hlen]; simp; omega
  simp only [h1, if_false]
  congr 1
  unfold headerBytes
  rw [chunks_of_items hs hpos _ (by
    intro it hit
    obtain ⟨w, _, rfl⟩ := List.mem_map.mp hit
    exact wordBytes_length bo hs w)]
  rw [List.map_map]
  conv => rhs; rw [← List.map_id ws]
  apply List.map_congr_left
  intro w hw
  exact wordVal_wordBytes bo hs w (hfit w hw)

/-! ### items: `itemsLE` inverts `toFileOrder` -/

theorem toFileOrder_length (bo : ByteOrder) (sz : Nat) (hsz : 0 < sz) (items : List Nat) :
    (toFileOrder bo sz items).length = items.length := by
  unfold toFileOrder
  have : ∀ (cs : List (List Nat)), ((cs.map bo.fix).flatten).length = cs.flatten.length := by
    intro cs
    induction cs with
    | nil => rfl
    | cons c cs ih => simp [fix_length, ih]
  rw [this, chunks_flatten sz hsz]

theorem toFileOrder_isBytes (bo : ByteOrder) (sz : Nat) (hsz : 0 < sz) (items : List Nat) (h : IsBytes items) :
    IsBytes (toFileOrder bo sz items) := by
  intro b hb
  unfold toFileOrder at hb
  obtain ⟨it, hit, hbit⟩ := List.mem_flatten.mp hb
  obtain ⟨c, hc, rfl⟩ := List.mem_map.mp hit
  exact fix_isBytes bo c (chunks_isBytes sz hsz items h c hc) b hbit

theorem itemsLE_toFileOrder (bo : ByteOrder) (sz : Nat) (hsz : 0 < sz) (items : List Nat)
    (hd : items.length % sz = 0) : itemsLE bo sz (toFileOrder bo sz items) = some items := by
  unfold itemsLE
  have hlen := toFileOrder_length bo sz hsz items
  have h1 : ¬ (sz = 0 ∨ (toFileOrder bo sz items).length % sz ≠ 0) := by
    rw [hlen]; simp; omega
  simp only [h1, if_false]
  congr 1
  unfold toFileOrder
  rw [chunks_of_items sz hsz _ (by
    intro it hit
    obtain ⟨c, hc, rfl⟩ := List.mem_map.mp hit
    rw [fix_length]
    exact chunks_all_length sz hsz items hd c hc)]
  rw [List.map_map]
  have : (chunks sz items).map (bo.fix ∘ bo.fix) = chunks sz items := by
    conv => rhs; rw [← List.map_id (chunks sz items)]
    apply List.map_congr_left
    intro c _
    exact fix_fix bo c
  rw [this, chunks_flatten sz hsz]

end Fc
