/-
  Lemmas about the byte search used by the raw-appended fallback parser (FcModel/VtkAppendix.lean).
-/
import FcModel.VtkAppendix
import FcModel.Spec.C05
namespace Fc

theorem startsWith_append (n r : List Nat) : startsWith n (n ++ r) = true := by
  induction n with
  | nil => rfl
  | cons a n ih => simp [startsWith, ih]

theorem startsWith_nil_right (n : List Nat) (h : startsWith n [] = true) : n = [] := by
  cases n with
  | nil => rfl
  | cons a n => simp [startsWith] at h

/-- `findAt` returns the FIRST position where the needle starts -/
theorem findAt_first (needle l : List Nat) (i k : Nat) (hk : k ≤ l.length)
    (hno : ∀ j, j < k → startsWith needle (l.drop j) = false)
    (hyes : startsWith needle (l.drop k) = true) : findAt needle l i = some (i + k) := by
  induction l generalizing i k with
  | nil =>
    have hk0 : k = 0 := by simpa using hk
    subst hk0
    have := startsWith_nil_right needle (by simpa using hyes)
    subst this
    simp [findAt]
  | cons x xs ih =>
    cases k with
    | zero =>
      have : startsWith needle (x :: xs) = true := by simpa using hyes
      simp [findAt, this]
    | succ k =>
      have h0 : startsWith needle (x :: xs) = false := by simpa using hno 0 (by omega)
      have := ih (i + 1) k (by simpa using hk)
        (fun j hj => by simpa using hno (j + 1) (by omega)) (by simpa using hyes)
      simp only [findAt, h0, Bool.false_eq_true, if_false, this]
      congr 1; omega

/-! ### the literal needles -/

theorem openTag_eq : openTag = [60, 65, 112, 112, 101, 110, 100, 101, 100, 68, 97, 116, 97] := by decide +kernel
theorem closeTag_eq : closeTag = [60, 47, 65, 112, 112, 101, 110, 100, 101, 100, 68, 97, 116, 97, 62] := by decide +kernel
theorem encodingKw_eq : encodingKw = [101, 110, 99, 111, 100, 105, 110, 103] := by decide +kernel

/-! ### `startsWith` across a concatenation -/

/-- a byte that does not occur in the needle cannot be covered by an occurrence -/
theorem startsWith_sep (n xs ys : List Nat) (d : Nat) (hd : d ∉ n)
    (h : startsWith n (xs ++ d :: ys) = true) : startsWith n xs = true := by
  induction n generalizing xs with
  | nil => cases xs <;> rfl
  | cons a n ih =>
    cases xs with
    | nil =>
      simp only [List.nil_append, startsWith, Bool.and_eq_true, beq_iff_eq] at h
      exact absurd (h.1 ▸ List.mem_cons_self) hd
    | cons x xs =>
      simp only [List.cons_append, startsWith, Bool.and_eq_true] at h ⊢
      exact ⟨h.1, ih xs (fun hm => hd (List.mem_cons_of_mem _ hm)) h.2⟩

/-- needle `c :: rest` with `c ∉ rest` (no border): an occurrence that begins in `x :: xs` cannot reach
    into a continuation that starts with `c` -/
theorem startsWith_border (c : Nat) (rest xs ys : List Nat) (x : Nat) (hc : c ∉ rest)
    (h : startsWith (c :: rest) (x :: xs ++ c :: ys) = true) : startsWith (c :: rest) (x :: xs) = true := by
  simp only [List.cons_append, startsWith, Bool.and_eq_true] at h ⊢
  exact ⟨h.1, startsWith_sep rest xs ys c hc h.2⟩

theorem startsWith_not_head (c x : Nat) (rest xs : List Nat) (h : x ≠ c) :
    startsWith (c :: rest) (x :: xs) = false := by
  simp only [startsWith, Bool.and_eq_false_imp, beq_iff_eq]
  intro e; exact absurd e.symm h

/-! ### `occ` -/

theorem occ_false_drop (needle l : List Nat) (h : occ needle l = false) (j : Nat) :
    startsWith needle (l.drop j) = false := by
  induction l generalizing j with
  | nil => simpa [occ] using h
  | cons x xs ih =>
    simp only [occ, Bool.or_eq_false_iff] at h
    cases j with
    | zero => simpa using h.1
    | succ j => simpa using ih h.2 j

theorem occ_false_of_not_mem (c : Nat) (rest l : List Nat) (h : c ∉ l) : occ (c :: rest) l = false := by
  induction l with
  | nil => simp [occ, startsWith]
  | cons x xs ih =>
    simp only [occ, Bool.or_eq_false_iff]
    exact ⟨startsWith_not_head c x rest xs (fun e => h (e ▸ List.mem_cons_self)),
      ih (fun hm => h (List.mem_cons_of_mem _ hm))⟩

/-- joining two pieces at a byte that is not in the needle creates no occurrence -/
theorem occ_join_sep (needle xs ys : List Nat) (d : Nat) (hd : d ∉ needle) (hne : needle ≠ [])
    (hx : occ needle xs = false) (hy : occ needle ys = false) : occ needle (xs ++ d :: ys) = false := by
  induction xs with
  | nil =>
    obtain ⟨a, n, rfl⟩ := List.exists_cons_of_ne_nil hne
    simp only [List.nil_append, occ, Bool.or_eq_false_iff]
    exact ⟨startsWith_not_head a d n ys (fun e => hd (e ▸ List.mem_cons_self)), hy⟩
  | cons x xs ih =>
    simp only [occ, Bool.or_eq_false_iff] at hx
    simp only [List.cons_append, occ, Bool.or_eq_false_iff]
    refine ⟨?_, ih hx.2⟩
    cases hs : startsWith needle (x :: (xs ++ d :: ys)) with
    | false => rfl
    | true =>
      have := startsWith_sep needle (x :: xs) ys d hd (by simpa using hs)
      rw [hx.1] at this; cases this

/-- joining two pieces where the second one starts with the (unique) first byte of the needle -/
theorem occ_join_border (c : Nat) (rest xs ys : List Nat) (hc : c ∉ rest)
    (hx : occ (c :: rest) xs = false) (hy : occ (c :: rest) (c :: ys) = false) :
    occ (c :: rest) (xs ++ c :: ys) = false := by
  induction xs with
  | nil => simpa using hy
  | cons x xs ih =>
    simp only [occ, Bool.or_eq_false_iff] at hx
    simp only [List.cons_append, occ, Bool.or_eq_false_iff]
    refine ⟨?_, ih hx.2⟩
    cases hs : startsWith (c :: rest) (x :: (xs ++ c :: ys)) with
    | false => rfl
    | true =>
      have := startsWith_border c rest xs ys x hc (by simpa using hs)
      rw [hx.1] at this; cases this

/-! ### `findAt` / `bfind` (Python `bytes.find`) -/

theorem findAt_ge (needle l : List Nat) (i p : Nat) (h : findAt needle l i = some p) : i ≤ p := by
  induction l generalizing i with
  | nil =>
    simp only [findAt] at h
    split at h
    · simp only [Option.some.injEq] at h; omega
    · cases h
  | cons x xs ih =>
    simp only [findAt] at h
    split at h
    · simp only [Option.some.injEq] at h; omega
    · have := ih (i + 1) h; omega

/-- **first occurrence.**  Needle `c :: rest` without border, not occurring in `xs`:
    the search in `xs ++ needle ++ ys` stops exactly behind `xs`. -/
theorem findAt_first_occ (c : Nat) (rest xs ys : List Nat) (i : Nat) (hc : c ∉ rest)
    (hx : occ (c :: rest) xs = false) :
    findAt (c :: rest) (xs ++ (c :: rest) ++ ys) i = some (i + xs.length) := by
  induction xs generalizing i with
  | nil =>
    have : startsWith (c :: rest) (c :: (rest ++ ys)) = true := by
      have := startsWith_append (c :: rest) ys
      simpa using this
    simp [findAt, this]
  | cons x xs ih =>
    simp only [occ, Bool.or_eq_false_iff] at hx
    have h0 : startsWith (c :: rest) (x :: (xs ++ c :: (rest ++ ys))) = false := by
      cases hs : startsWith (c :: rest) (x :: (xs ++ c :: (rest ++ ys))) with
      | false => rfl
      | true =>
        have := startsWith_border c rest xs (rest ++ ys) x hc (by simpa using hs)
        rw [hx.1] at this; cases this
    have := ih (i + 1) hx.2
    simp only [List.cons_append, List.append_assoc, findAt, h0, Bool.false_eq_true, if_false] at this ⊢
    rw [this]; simp only [List.length_cons]; congr 1; omega

/-- single byte: skip a piece that does not contain it -/
theorem findAt_byte_skip (c : Nat) (m r : List Nat) (i : Nat) (hm : c ∉ m) :
    findAt [c] (m ++ r) i = findAt [c] r (i + m.length) := by
  induction m generalizing i with
  | nil => simp
  | cons x xs ih =>
    have h0 : startsWith [c] (x :: (xs ++ r)) = false :=
      startsWith_not_head c x [] _ (fun e => hm (e ▸ List.mem_cons_self))
    simp only [List.cons_append, findAt, h0, Bool.false_eq_true, if_false, List.length_cons]
    rw [ih (i + 1) (fun h => hm (List.mem_cons_of_mem _ h))]
    congr 1; omega

theorem findAt_byte_here (c : Nat) (r : List Nat) (i : Nat) : findAt [c] (c :: r) i = some i := by
  simp [findAt, startsWith]

theorem findAt_byte (c : Nat) (m r : List Nat) (i : Nat) (hm : c ∉ m) :
    findAt [c] (m ++ c :: r) i = some (i + m.length) := by
  rw [findAt_byte_skip c m _ i hm, findAt_byte_here]

/-- `content.find(needle, s)` where the content is split at `s` -/
theorem bfind_split (needle content xs r : List Nat) (s : Nat) (h : content = xs ++ r) (hs : xs.length = s) :
    bfind needle content s = findAt needle r s := by
  subst h; subst hs
  unfold bfind
  simp

/-! ### `rfindAt` / `brfind` (Python `bytes.rfind`) -/

theorem rfindAt_no_occ (needle l : List Nat) (i : Nat) (last : Option Nat) (hne : needle ≠ [])
    (h : occ needle l = false) : rfindAt needle l i last = last := by
  induction l generalizing i last with
  | nil =>
    cases needle with
    | nil => exact absurd rfl hne
    | cons a n => simp [rfindAt]
  | cons x xs ih =>
    simp only [occ, Bool.or_eq_false_iff] at h
    simp only [rfindAt, h.1, Bool.false_eq_true, if_false]
    exact ih (i + 1) last h.2

/-- **last occurrence.**  If the needle does not occur behind position `|xs|` of `xs ++ needle ++ ys`
    the backward search returns `|xs|`, whatever `xs` contains. -/
theorem rfindAt_last_occ (c : Nat) (rest xs ys : List Nat) (i : Nat) (last : Option Nat)
    (h : occ (c :: rest) (rest ++ ys) = false) :
    rfindAt (c :: rest) (xs ++ (c :: rest) ++ ys) i last = some (i + xs.length) := by
  induction xs generalizing i last with
  | nil =>
    have hs : startsWith (c :: rest) (c :: (rest ++ ys)) = true := by
      have := startsWith_append (c :: rest) ys
      simpa using this
    simp only [List.nil_append, List.cons_append, rfindAt, hs, if_true, List.length_nil, Nat.add_zero]
    exact rfindAt_no_occ _ _ _ _ (by simp) h
  | cons x xs ih =>
    simp only [List.cons_append, rfindAt, List.length_cons]
    have := ih (i + 1) (if startsWith (c :: rest) (x :: (xs ++ (c :: rest) ++ ys)) = true then some i else last)
    simp only [List.cons_append, List.append_assoc] at this ⊢
    rw [this]; congr 1; omega

/-! ### the fallback parser on a well-formed raw file -/

open Spec

def openTail : List Nat := [65, 112, 112, 101, 110, 100, 101, 100, 68, 97, 116, 97]
def closeTail : List Nat := [47, 65, 112, 112, 101, 110, 100, 101, 100, 68, 97, 116, 97, 62]
def closeInit : List Nat := [60, 47, 65, 112, 112, 101, 110, 100, 101, 100, 68, 97, 116, 97]
def encTail : List Nat := [110, 99, 111, 100, 105, 110, 103]

theorem openTag_cons : openTag = 60 :: openTail := openTag_eq
theorem closeTag_cons : closeTag = 60 :: closeTail := closeTag_eq
theorem closeTag_snoc : closeTag = closeInit ++ [62] := closeTag_eq
theorem encodingKw_cons : encodingKw = 101 :: encTail := encodingKw_eq

theorem findAt_first_occ' (needle : List Nat) (c : Nat) (rest xs ys : List Nat) (i : Nat)
    (hn : needle = c :: rest) (hc : c ∉ rest) (hx : occ needle xs = false) :
    findAt needle (xs ++ needle ++ ys) i = some (i + xs.length) := by
  subst hn; exact findAt_first_occ c rest xs ys i hc hx

/-- `_find_appendix_positions` on a well-formed raw file: begin = behind the `_`, end = the closing tag -/
theorem findAppendixPositions_rawFile (f : RawFile) (hh : f.HeadOk) (ha : f.AppendixOk) :
    findAppendixPositions f.content = some ((f.pre ++ f.mid).length, (f.pre ++ f.mid ++ f.appendix).length) := by
  obtain ⟨hpO, hpC, hA60, hA62, _, _, _, hW60, hW95, _, _, _⟩ := hh
  obtain ⟨_, haC⟩ := ha
  -- 1. the opening tag
  have h1 : bfind openTag f.content 0 = some f.pre.length := by
    rw [bfind_split openTag f.content [] f.content 0 rfl rfl]
    have hc : f.content = f.pre ++ openTag ++ (f.attrs ++ [62] ++ f.ws ++ [95] ++ f.appendix ++ closeTag ++ f.post) := by
      simp [RawFile.content, RawFile.mid, List.append_assoc]
    rw [hc, findAt_first_occ' openTag 60 openTail f.pre _ 0 openTag_cons (by decide) hpO]
    simp
  -- 2. the enclosed `<…>` range
  have hc2 : f.content = (f.pre ++ [60]) ++ ((openTail ++ f.attrs) ++ 62 ::
      (f.ws ++ [95] ++ f.appendix ++ closeTag ++ f.post)) := by
    simp [RawFile.content, RawFile.mid, openTag_cons, List.append_assoc]
  have hm62 : 62 ∉ openTail ++ f.attrs := by
    intro h; rcases List.mem_append.mp h with h | h
    · revert h; decide
    · exact hA62 h
  have hm60 : 60 ∉ openTail ++ f.attrs := by
    intro h; rcases List.mem_append.mp h with h | h
    · revert h; decide
    · exact hA60 h
  have hClose : bfind [62] f.content (f.pre.length + 1) = some (f.pre.length + 1 + (openTail ++ f.attrs).length) := by
    rw [bfind_split [62] f.content _ _ (f.pre.length + 1) hc2 (by simp)]
    exact findAt_byte 62 _ _ _ hm62
  have hOpen : ∀ no, bfind [60] f.content (f.pre.length + 1) = some no →
      f.pre.length + 1 + (openTail ++ f.attrs).length < no := by
    intro no h
    rw [bfind_split [60] f.content _ _ (f.pre.length + 1) hc2 (by simp), findAt_byte_skip 60 _ _ _ hm60] at h
    have h0 : startsWith [60] (62 :: (f.ws ++ [95] ++ f.appendix ++ closeTag ++ f.post)) = false := by
      simp [startsWith]
    simp only [findAt, h0, Bool.false_eq_true, if_false] at h
    have := findAt_ge _ _ _ _ h
    omega
  have h2 : enclosedRange f.content f.pre.length [60] [62]
      = some (f.pre.length + 1, some (f.pre.length + 1 + (openTail ++ f.attrs).length)) := by
    have hb : bfind [60] f.content f.pre.length = some f.pre.length := by
      have hc : f.content = f.pre ++ (60 :: (openTail ++ f.attrs ++ [62] ++ f.ws ++ [95] ++ f.appendix ++ closeTag ++ f.post)) := by
        simp [RawFile.content, RawFile.mid, openTag_cons, List.append_assoc]
      rw [bfind_split [60] f.content _ _ f.pre.length hc rfl]
      exact findAt_byte_here 60 _ _
    unfold enclosedRange
    simp only [hb, show ([60] : List Nat) ≠ [62] by decide, if_false]
    simp only [List.length_append, enclosedLoop, hClose]
    cases hO : bfind [60] f.content (f.pre.length + 1) with
    | none => simp
    | some no =>
      have := hOpen no hO
      simp only [List.length_append] at this
      simp
      intro h; omega
  -- 3. the `_`
  have h3 : bfind [95] f.content (f.pre.length + 1 + (openTail ++ f.attrs).length + 1)
      = some (f.pre.length + 1 + (openTail ++ f.attrs).length + 1 + f.ws.length) := by
    have hc : f.content = (f.pre ++ openTag ++ f.attrs ++ [62]) ++ (f.ws ++ 95 :: (f.appendix ++ closeTag ++ f.post)) := by
      simp [RawFile.content, RawFile.mid, List.append_assoc]
    rw [bfind_split [95] f.content _ _ _ hc (by simp [openTag_cons, openTail]; omega)]
    exact findAt_byte 95 _ _ _ hW95
  -- 4. the closing tag
  have h4 : bfind closeTag f.content 0 = some (f.pre ++ f.mid ++ f.appendix).length := by
    rw [bfind_split closeTag f.content [] f.content 0 rfl rfl]
    have hc : f.content = (f.pre ++ f.mid ++ f.appendix) ++ closeTag ++ f.post := by
      simp [RawFile.content, List.append_assoc]
    have hocc : occ closeTag (f.pre ++ f.mid ++ f.appendix) = false := by
      have e : f.pre ++ f.mid ++ f.appendix
          = f.pre ++ 60 :: ((openTail ++ f.attrs ++ [62] ++ f.ws) ++ 95 :: f.appendix) := by
        simp [RawFile.mid, openTag_cons, List.append_assoc]
      rw [e, closeTag_cons]
      apply occ_join_border 60 closeTail _ _ (by decide) (by rw [← closeTag_cons]; exact hpC)
      have e2 : 60 :: ((openTail ++ f.attrs ++ [62] ++ f.ws) ++ 95 :: f.appendix)
          = (60 :: (openTail ++ f.attrs ++ [62] ++ f.ws)) ++ 95 :: f.appendix := by simp
      rw [e2]
      apply occ_join_sep _ _ _ 95 (by decide) (by simp) _ (by rw [← closeTag_cons]; exact haC)
      simp only [occ, Bool.or_eq_false_iff]
      constructor
      · simp [openTail, closeTail, startsWith]
      · apply occ_false_of_not_mem
        intro h
        simp only [List.mem_append, List.mem_cons, List.not_mem_nil, or_false] at h
        rcases h with ((h | h) | h) | h
        · revert h; decide
        · exact hA60 h
        · omega
        · exact hW60 h
    rw [hc, findAt_first_occ' closeTag 60 closeTail _ _ 0 closeTag_cons (by decide) hocc]
    simp
  unfold findAppendixPositions
  simp only [h1, h2, h3, h4, Option.bind_eq_bind, Option.bind_some]
  simp only [RawFile.mid, List.length_append, List.length_cons, List.length_nil, openTag_cons, openTail]
  congr 2; omega

/-- `_determine_encoding` on the slice `p ++ mid ++ appendix ++ </AppendedData> ++ post`, for ANY bytes
    `p` in front (the backward search takes the LAST opening tag): the declared name -/
theorem determineEncoding_rawFile (f : RawFile) (p : List Nat) (hh : f.HeadOk) (ha : f.AppendixOk) :
    determineEncoding (p ++ f.mid ++ f.appendix ++ closeTag ++ f.post) = some f.enc := by
  obtain ⟨_, _, hA60, _, hE, hq2, hqE, hW60, _, hpostO, _, _⟩ := hh
  obtain ⟨haO, _⟩ := ha
  generalize hT : p ++ f.mid ++ f.appendix ++ closeTag ++ f.post = tl
  -- last opening tag
  have hr : brfind openTag tl = some p.length := by
    have hc : tl = p ++ openTag ++ (f.attrs ++ [62] ++ f.ws ++ [95] ++ f.appendix ++ closeTag ++ f.post) := by
      rw [← hT]; simp [RawFile.mid, List.append_assoc]
    have hocc : occ openTag (openTail ++ (f.attrs ++ [62] ++ f.ws ++ [95] ++ f.appendix ++ closeTag ++ f.post)) = false := by
      have e : openTail ++ (f.attrs ++ [62] ++ f.ws ++ [95] ++ f.appendix ++ closeTag ++ f.post)
          = (openTail ++ f.attrs) ++ 62 :: (f.ws ++ 95 :: (f.appendix ++ 60 :: (closeTail ++ f.post))) := by
        simp [closeTag_cons, List.append_assoc]
      rw [e]
      apply occ_join_sep _ _ _ 62 (by decide) (by decide)
      · rw [openTag_cons]; apply occ_false_of_not_mem
        intro h; rcases List.mem_append.mp h with h | h
        · revert h; decide
        · exact hA60 h
      apply occ_join_sep _ _ _ 95 (by decide) (by decide)
      · rw [openTag_cons]; exact occ_false_of_not_mem 60 _ _ hW60
      rw [openTag_cons]
      apply occ_join_border 60 openTail _ _ (by decide) (by rw [← openTag_cons]; exact haO)
      have e2 : 60 :: (closeTail ++ f.post) = closeInit ++ 62 :: f.post := by simp [closeTail, closeInit]
      rw [e2, ← openTag_cons]
      exact occ_join_sep _ _ _ 62 (by decide) (by decide) (by decide +kernel) hpostO
    unfold brfind
    rw [hc, openTag_cons] at *
    have := rfindAt_last_occ 60 openTail p _ 0 none hocc
    simpa using this
  -- the keyword behind it
  have hk : bfind encodingKw tl p.length = some (p.length + (openTag ++ f.a1).length) := by
    have hc : tl = p ++ ((openTag ++ f.a1) ++ encodingKw ++
        (f.a2 ++ [34] ++ f.enc ++ [34] ++ f.a3 ++ [62] ++ f.ws ++ [95] ++ f.appendix ++ closeTag ++ f.post)) := by
      rw [← hT]; simp [RawFile.mid, RawFile.attrs, List.append_assoc]
    rw [bfind_split encodingKw tl _ _ p.length hc rfl]
    exact findAt_first_occ' encodingKw 101 encTail _ _ _ encodingKw_cons (by decide) hE
  -- the quotes
  have hq1 : bfind [34] tl (p.length + (openTag ++ f.a1).length)
      = some (p.length + (openTag ++ f.a1).length + (encodingKw ++ f.a2).length) := by
    have hc : tl = (p ++ (openTag ++ f.a1)) ++ ((encodingKw ++ f.a2) ++ 34 ::
        (f.enc ++ [34] ++ f.a3 ++ [62] ++ f.ws ++ [95] ++ f.appendix ++ closeTag ++ f.post)) := by
      rw [← hT]; simp [RawFile.mid, RawFile.attrs, List.append_assoc]
    rw [bfind_split [34] tl _ _ _ hc (by simp)]
    apply findAt_byte
    intro h; rcases List.mem_append.mp h with h | h
    · revert h; decide +kernel
    · exact hq2 h
  have hq2' : bfind [34] tl (p.length + (openTag ++ f.a1).length + (encodingKw ++ f.a2).length + 1)
      = some (p.length + (openTag ++ f.a1).length + (encodingKw ++ f.a2).length + 1 + f.enc.length) := by
    have hc : tl = (p ++ (openTag ++ f.a1) ++ (encodingKw ++ f.a2) ++ [34]) ++ (f.enc ++ 34 ::
        (f.a3 ++ [62] ++ f.ws ++ [95] ++ f.appendix ++ closeTag ++ f.post)) := by
      rw [← hT]; simp [RawFile.mid, RawFile.attrs, List.append_assoc]
    rw [bfind_split [34] tl _ _ _ hc (by simp; omega)]
    exact findAt_byte 34 _ _ _ hqE
  have hsl : pySlice tl (p.length + (openTag ++ f.a1).length + (encodingKw ++ f.a2).length + 1)
      (p.length + (openTag ++ f.a1).length + (encodingKw ++ f.a2).length + 1 + f.enc.length) = f.enc := by
    have hc : tl = (p ++ (openTag ++ f.a1) ++ (encodingKw ++ f.a2) ++ [34]) ++ (f.enc ++ (34 ::
        (f.a3 ++ [62] ++ f.ws ++ [95] ++ f.appendix ++ closeTag ++ f.post))) := by
      rw [← hT]; simp [RawFile.mid, RawFile.attrs, List.append_assoc]
    unfold pySlice
    rw [hc, List.drop_left' (by simp; omega), Nat.add_sub_cancel_left, List.take_left' rfl]
  unfold determineEncoding enclosedRange
  simp only [hr, hk, hq1, hq2', if_true, Option.bind_eq_bind, Option.bind_some, hsl]

/-- **the whole fallback extraction** on a well-formed raw file -/
theorem fallbackAppendix_rawFile (f : RawFile) (hh : f.HeadOk) (ha : f.AppendixOk) :
    fallbackAppendix f.content = some (f.appendix, f.enc) := by
  have hpos := findAppendixPositions_rawFile f hh ha
  obtain ⟨_, _, _, _, _, _, _, _, _, _, hmid, h100⟩ := id hh
  unfold fallbackAppendix
  simp only [hpos, Option.bind_eq_bind, Option.bind_some, h100, if_true]
  have hk : (f.pre ++ f.mid).length - 100 ≤ f.pre.length := by
    simp only [List.length_append] at h100 ⊢; omega
  have htail : f.content.drop ((f.pre ++ f.mid).length - 100)
      = f.pre.drop ((f.pre ++ f.mid).length - 100) ++ f.mid ++ f.appendix ++ closeTag ++ f.post := by
    simp only [RawFile.content, List.append_assoc]
    rw [List.drop_append_of_le_length hk]
  rw [htail, determineEncoding_rawFile f _ hh ha]
  have hsl : pySlice f.content (f.pre ++ f.mid).length (f.pre ++ f.mid ++ f.appendix).length = f.appendix := by
    have hc : f.content = (f.pre ++ f.mid) ++ (f.appendix ++ (closeTag ++ f.post)) := by
      simp [RawFile.content, List.append_assoc]
    unfold pySlice
    have hl : (f.pre ++ f.mid ++ f.appendix).length - (f.pre ++ f.mid).length = f.appendix.length := by
      simp only [List.length_append]; omega
    rw [hc, List.drop_left' rfl, hl, List.take_left' rfl]
  rw [hsl]; rfl

/-- the header the VTK writers (and the harness) produce: `<AppendedData encoding="NAME">\n_` -/
def stdRawFile (pre enc appendix : List Nat) : RawFile :=
  ⟨pre, [32], [61], enc, [], [10], appendix, strBytes "\n</VTKFile>\n"⟩

theorem stdRawFile_headOk (pre enc appendix : List Nat)
    (hO : occ openTag pre = false) (hC : occ closeTag pre = false) (hlen : 100 ≤ pre.length)
    (he : 34 ∉ enc ∧ 60 ∉ enc ∧ 62 ∉ enc ∧ enc.length ≤ 64) : (stdRawFile pre enc appendix).HeadOk := by
  obtain ⟨h34, h60, h62, hl⟩ := he
  refine ⟨hO, hC, ?_, ?_, (show occ encodingKw (openTag ++ [32]) = false by decide +kernel),
    (show 34 ∉ [61] by decide), h34, (show 60 ∉ [10] by decide), (show 95 ∉ [10] by decide),
    (show occ openTag (strBytes "\n</VTKFile>\n") = false by decide +kernel), ?_, ?_⟩
  · simp only [stdRawFile, RawFile.attrs, encodingKw_eq]; simp; exact h60
  · simp only [stdRawFile, RawFile.attrs, encodingKw_eq]; simp; exact h62
  · simp only [stdRawFile, RawFile.mid, RawFile.attrs, encodingKw_eq, openTag_eq]; simp; omega
  · show 100 ≤ (pre ++ (stdRawFile pre enc appendix).mid).length
    simp only [List.length_append]; omega

end Fc
