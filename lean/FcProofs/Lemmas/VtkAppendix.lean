/-
  Lemmas about the byte search used by the raw-appended fallback parser (FcModel/VtkAppendix.lean).
-/
import FcModel.VtkAppendix
namespace Fc

theorem startsWith_append (n r : List Nat) : startsWith n (n ++ r) = true := by
  induction n with
  | nil => rfl
  | cons a n ih => simp [startsWith, ih]

theorem startsWith_nil_right (n : List Nat) (h : startsWith n [] = true) : n = [] := by
  cases n with
  | nil => rfl
  | cons a n => simp [startsWith] at h

/-- `findAt` returns the FIRST position where the needle starts -/
theorem findAt_first (needle l : List Nat) (i k : Nat) (hk : k ≤ l.length)
    (hno : ∀ j, j < k → startsWith needle (l.drop j) = false)
    (hyes : startsWith needle (l.drop k) = true) : findAt needle l i = some (i + k) := by
  induction l generalizing i k with
  | nil =>
    have hk0 : k = 0 := by simpa using hk
    subst hk0
    have := startsWith_nil_right needle (by simpa using hyes)
    subst this
    simp [findAt]
  | cons x xs ih =>
    cases k with
    | zero =>
      have : startsWith needle (x :: xs) = true := by simpa using hyes
      simp [findAt, this]
    | succ k =>
      have h0 : startsWith needle (x :: xs) = false := by simpa using hno 0 (by omega)
      have := ih (i + 1) k (by simpa using hk)
        (fun j hj => by simpa using hno (j + 1) (by omega)) (by simpa using hyes)
      simp only [findAt, h0, Bool.false_eq_true, if_false, this]
      congr 1; omega

end Fc
