/-
  FcProofs.Lemmas.LexsortArgsort — from `np.argsort` (index level, `IsArgsort`) to sorters on
  items:

  * `sorterOf as` (fancy indexing `l[as(keys)]`) returns a permutation of `l` that is sorted by
    the keys, for EVERY `as` satisfying `IsArgsort` (ties arbitrary);
  * the driver's instances `argsortStable` and `argsortRevTies` (merge sort on (position, key)
    pairs, with opposite tie-breaking) satisfy `IsArgsort`.
-/
import FcModel.Lexsort
import Mathlib.Data.List.Sort
import Mathlib.Data.List.Perm.Basic
namespace Fc.C02
variable {α : Type}

theorem filterMap_getElem?_range (l : List α) :
    ∀ n, (List.range n).filterMap (fun i => l[i]?) = l.take n
  | 0 => by simp
  | n + 1 => by
    rw [List.range_succ, List.filterMap_append, filterMap_getElem?_range l n, List.take_add_one]
    cases h : l[n]? <;> simp [h]

theorem sorterOf_perm {as : List Int → List Nat} (h : IsArgsort as) (k : α → Int) (l : List α) :
    (sorterOf as k l).Perm l := by
  unfold sorterOf
  have hp := (h.perm (l.map k)).filterMap (fun i => l[i]?)
  rw [List.length_map, filterMap_getElem?_range, List.take_length] at hp
  exact hp

theorem sorterOf_sorted {as : List Int → List Nat} (h : IsArgsort as) (k : α → Int) (l : List α) :
    (sorterOf as k l).Pairwise (fun a b => k a ≤ k b) := by
  unfold sorterOf
  rw [List.pairwise_filterMap]
  have hs := h.sorted (l.map k)
  rw [List.pairwise_map] at hs
  refine hs.imp ?_
  intro i j hij a ha b hb
  have e1 : (l.map k).getD i 0 = k a := by
    simp [List.getD_eq_getElem?_getD, List.getElem?_map, ha]
  have e2 : (l.map k).getD j 0 = k b := by
    simp [List.getD_eq_getElem?_getD, List.getElem?_map, hb]
  rw [e1, e2] at hij
  exact hij

/-! ### the driver's argsort instances -/

def leSnd (a b : Nat × Int) : Bool := decide (a.2 ≤ b.2)

theorem leSnd_trans (a b c : Nat × Int) : leSnd a b = true → leSnd b c = true → leSnd a c = true := by
  simp only [leSnd, decide_eq_true_eq]; omega

theorem leSnd_total (a b : Nat × Int) : (leSnd a b || leSnd b a) = true := by
  simp only [leSnd, Bool.or_eq_true, decide_eq_true_eq]; omega

theorem mem_zip_range (keys : List Int) (p : Nat × Int) (hp : p ∈ (List.range keys.length).zip keys) :
    keys.getD p.1 0 = p.2 := by
  obtain ⟨i, hi⟩ := List.mem_iff_getElem?.mp hp
  rw [List.getElem?_zip_eq_some] at hi
  obtain ⟨h1, h2⟩ := hi
  have hlt : i < keys.length := by
    by_contra hc
    rw [List.getElem?_eq_none (by omega)] at h2
    exact absurd h2 (by simp)
  rw [List.getElem?_range hlt] at h1
  have : p.1 = i := (Option.some.inj h1).symm
  rw [this, List.getD_eq_getElem?_getD, h2]
  rfl

/-- any merge sort of a rearrangement of the (position, key) pairs is an argsort -/
theorem argsort_of_pairs (keys : List Int) (ps : List (Nat × Int))
    (hps : ps.Perm ((List.range keys.length).zip keys)) :
    ((ps.mergeSort leSnd).map (·.1)).Perm (List.range keys.length) ∧
    (((ps.mergeSort leSnd).map (·.1)).map fun i => keys.getD i 0).Pairwise (· ≤ ·) := by
  have hperm : (ps.mergeSort leSnd).Perm ((List.range keys.length).zip keys) :=
    (List.mergeSort_perm ps leSnd).trans hps
  constructor
  · have := hperm.map (·.1)
    rwa [List.map_fst_zip (by simp)] at this
  · rw [List.map_map, List.pairwise_map]
    have hs := List.pairwise_mergeSort leSnd_trans leSnd_total ps
    refine hs.imp_of_mem ?_
    intro a b ha hb hab
    have ea := mem_zip_range keys a (hperm.mem_iff.mp ha)
    have eb := mem_zip_range keys b (hperm.mem_iff.mp hb)
    simp only [Function.comp]
    rw [ea, eb]
    simpa [leSnd] using hab

theorem isArgsort_stable : IsArgsort argsortStable where
  perm keys := (argsort_of_pairs keys _ (List.Perm.refl _)).1
  sorted keys := (argsort_of_pairs keys _ (List.Perm.refl _)).2

theorem isArgsort_revTies : IsArgsort argsortRevTies where
  perm keys := (argsort_of_pairs keys _ (List.reverse_perm _)).1
  sorted keys := (argsort_of_pairs keys _ (List.reverse_perm _)).2

end Fc.C02
