/-
  FcProofs.Lemmas.LexsortRigid — the assumption `hrigid` of the noise-free no-false-FAIL theorems,
  PROVED for data sets without coincident points:

      if `mesh_equal` accepts two relabellings of `f` as they are stored, and the coordinate key
      vectors of ALL points of `f` (orphans included) are pairwise distinct under `Sep`, the two
      point orders are the same list.

  `mesh_equal` compares the flattened point arrays entry by entry with `fuzzy_equal`; under `Sep`
  that is equality of cluster keys, so the points stored at the same index have the same key vector.
-/
import FcProofs.Lemmas.LexsortNoFalseFail
namespace Fc.C02
open Fc.C02.Spec

/-! ### `fuzzy_equal` on two point arrays of the same shape, entry by entry -/

theorem fuzzyCheck_points {r a n d : Nat} {D1 D2 : List Int}
    (h : fuzzyCheck (.num r) (.num a) ⟨.flt f64, [n, d], D1⟩ ⟨.flt f64, [n, d], D2⟩ = .ok true) :
    ∀ i, i < D1.length → fuzzyEq1 f64 (D1.getD i 0) (D2.getD i 0) r true a true = true := by
  unfold fuzzyCheck at h
  simp only [reshapePair] at h
  simp [resolveTol, findFuzzy, tolShapeOk, allFuzzy, RTol.at, RTol.isWeak] at h
  intro i hi
  exact h i hi

theorem length_flatten_uniform {d : Nat} : ∀ l : List (List Int), (∀ r ∈ l, r.length = d) →
    l.flatten.length = l.length * d
  | [], _ => by simp
  | r :: l, h => by
    rw [List.flatten_cons, List.length_append, h r (List.mem_cons_self ..),
      length_flatten_uniform l (fun x hx => h x (List.mem_cons_of_mem _ hx)), List.length_cons, Nat.succ_mul]
    omega

/-- entry `(k, j)` of the flattened array -/
theorem flatten_getD {d : Nat} (l : List (List Int)) (hl : ∀ r ∈ l, r.length = d) {k j : Nat}
    (hk : k < l.length) (hj : j < d) :
    l.flatten.getD (k * d + j) 0 = (l.getD k []).getD j 0 ∧ k * d + j < l.flatten.length := by
  have hchunk := Fc.flatMap_chunk l id d hl k hk
  rw [List.flatMap_id] at hchunk
  have hchunk' : List.take d (List.drop (k * d) l.flatten) = l[k] := hchunk
  constructor
  · rw [Fc.getD_of_lt l [] hk, ← hchunk']
    simp only [List.getD_eq_getElem?_getD, List.getElem?_take, List.getElem?_drop, hj, if_true]
  · rw [length_flatten_uniform l hl]
    have : (k + 1) * d ≤ l.length * d := Nat.mul_le_mul_right _ hk
    rw [Nat.succ_mul] at this
    omega

/-- `mesh_equal` ⇒ the coordinates stored at the same index are `fuzzy_equal`, column by column -/
theorem meshEqual_points {t : MeshTol} {m1 m2 : Mesh} (hdim : m1.dim = m2.dim)
    (hlen : m1.points.length = m2.points.length) (h1 : ∀ r ∈ m1.points, r.length = m1.dim)
    (h2 : ∀ r ∈ m2.points, r.length = m2.dim) (heq : meshEqual t m1 m2 = true) {k j : Nat}
    (hk : k < m1.points.length) (hj : j < m1.dim) :
    t.closeFz ((m1.points.getD k []).getD j 0) ((m2.points.getD k []).getD j 0) = true := by
  unfold meshEqual at heq
  simp only [Bool.and_eq_true, beq_iff_eq] at heq
  have hf := heq.1.1
  unfold pointsArr at hf
  rw [← hdim, ← hlen] at hf
  obtain ⟨e1, l1⟩ := flatten_getD m1.points h1 hk hj
  obtain ⟨e2, _⟩ := flatten_getD m2.points (hdim ▸ h2) (hlen ▸ hk) hj
  have := fuzzyCheck_points hf (k * m1.dim + j) l1
  rw [e1, e2] at this
  exact this

/-! ### no coincident points ⇒ `hrigid` -/

theorem pitem_mem {m : Mesh} {p : Nat} (hp : p < m.points.length) : (p, m.points.getD p []) ∈ pitems m := by
  rw [pitems_eq_map]
  exact List.mem_map.mpr ⟨p, List.mem_range.mpr hp, rfl⟩

/-- **rigidity without coincident points.** -/
theorem rigid_of_distinct {f : MeshFields} (hwf : WFP f) {t : MeshTol} {A B M : Nat}
    (hsep : SepCols t A B M pkey f.mesh.dim (pitems f.mesh))
    (hdistinct : ∀ a ∈ pitems f.mesh, ∀ b ∈ pitems f.mesh,
      kvec (KC A f.mesh) f.mesh.dim 0 a = kvec (KC A f.mesh) f.mesh.dim 0 b → a = b)
    {ρ1 ρ2 : List Nat} {κ1 κ2 : String → List Nat}
    (hρ1 : ρ1.Perm (List.range f.mesh.points.length)) (hρ2 : ρ2.Perm (List.range f.mesh.points.length))
    (heq : meshEqual t (relabelF ρ1 κ1 f).mesh (relabelF ρ2 κ2 f).mesh = true) : ρ1 = ρ2 := by
  have hl1 : ρ1.length = f.mesh.points.length := by simpa using hρ1.length_eq
  have hl2 : ρ2.length = f.mesh.points.length := by simpa using hρ2.length_eq
  have hrows : ∀ (ρ : List Nat) (κ : String → List Nat), ρ.Perm (List.range f.mesh.points.length) →
      ∀ r ∈ (relabelF ρ κ f).mesh.points, r.length = (relabelF ρ κ f).mesh.dim := by
    intro ρ κ hρ r hr
    have hr' : r ∈ ρ.map fun i => f.mesh.points.getD i [] := hr
    obtain ⟨i, hi, rfl⟩ := List.mem_map.mp hr'
    have hi' : i < f.mesh.points.length := List.mem_range.mp (hρ.mem_iff.mp hi)
    rw [Fc.getD_of_lt _ _ hi']
    exact hwf.rows _ (List.getElem_mem hi')
  apply List.ext_getElem (by rw [hl1, hl2])
  intro k hk1 hk2
  have hp1 : ρ1[k] < f.mesh.points.length := List.mem_range.mp (hρ1.mem_iff.mp (List.getElem_mem hk1))
  have hp2 : ρ2[k] < f.mesh.points.length := List.mem_range.mp (hρ2.mem_iff.mp (List.getElem_mem hk2))
  have hkX : k < (relabelF ρ1 κ1 f).mesh.points.length := by
    show k < (ρ1.map _).length
    rw [List.length_map]; exact hk1
  have hlenX : (relabelF ρ1 κ1 f).mesh.points.length = (relabelF ρ2 κ2 f).mesh.points.length := by
    show (ρ1.map _).length = (ρ2.map _).length
    rw [List.length_map, List.length_map, hl1, hl2]
  have hg1 : (relabelF ρ1 κ1 f).mesh.points.getD k [] = f.mesh.points.getD ρ1[k] [] := by
    show (ρ1.map fun i => f.mesh.points.getD i []).getD k [] = _
    rw [Fc.getD_of_lt _ _ (by rw [List.length_map]; exact hk1), List.getElem_map]
  have hg2 : (relabelF ρ2 κ2 f).mesh.points.getD k [] = f.mesh.points.getD ρ2[k] [] := by
    show (ρ2.map fun i => f.mesh.points.getD i []).getD k [] = _
    rw [Fc.getD_of_lt _ _ (by rw [List.length_map]; exact hk2), List.getElem_map]
  have hm1 := pitem_mem (m := f.mesh) hp1
  have hm2 := pitem_mem (m := f.mesh) hp2
  have hkv : kvec (KC A f.mesh) f.mesh.dim 0 (ρ1[k], f.mesh.points.getD ρ1[k] []) =
      kvec (KC A f.mesh) f.mesh.dim 0 (ρ2[k], f.mesh.points.getD ρ2[k] []) := by
    apply kvec_congr
    intro j _ hj
    have hj' : j < f.mesh.dim := by omega
    have hc := meshEqual_points (t := t) (m1 := (relabelF ρ1 κ1 f).mesh) (m2 := (relabelF ρ2 κ2 f).mesh) rfl hlenX (hrows ρ1 κ1 hρ1) (hrows ρ2 κ2 hρ2) heq hkX
      (show j < (relabelF ρ1 κ1 f).mesh.dim from hj')
    rw [hg1, hg2] at hc
    have hcl := (hsep.clusteredFz j hj').iff _ (List.mem_map_of_mem (f := pkey j) hm1) _
      (List.mem_map_of_mem (f := pkey j) hm2)
    have hc' : t.closeFz (pkey j (ρ1[k], f.mesh.points.getD ρ1[k] [])) (pkey j (ρ2[k], f.mesh.points.getD ρ2[k] [])) = true := hc
    rw [hcl] at hc'
    exact beq_iff_eq.mp hc'
  have := hdistinct _ hm1 _ hm2 hkv
  exact congrArg Prod.fst this

/-- the decidable "no coincident points" hypothesis, unpacked -/
theorem continuousHyp_sound {f : MeshFields} (h : continuousHyp f = true) :
    SepCols (meshTolOf f.mesh) (sepA (meshTolOf f.mesh)) (sepB (meshTolOf f.mesh))
      (pointData (sepA (meshTolOf f.mesh)) f.mesh).M pkey f.mesh.dim (pitems f.mesh) ∧
    ∀ a ∈ pitems f.mesh, ∀ b ∈ pitems f.mesh,
      kvec (KC (sepA (meshTolOf f.mesh)) f.mesh) f.mesh.dim 0 a =
        kvec (KC (sepA (meshTolOf f.mesh)) f.mesh) f.mesh.dim 0 b → a = b := by
  unfold continuousHyp at h
  simp only [Bool.and_eq_true, List.isEmpty_iff] at h
  refine ⟨(pointSep_sound h.1).sepP, ?_⟩
  intro a ha b hb hk
  by_contra hab
  have := mem_dups_of_partner ha hb hab hk
  rw [h.2] at this
  cases this

end Fc.C02
