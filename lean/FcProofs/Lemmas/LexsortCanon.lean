/-
  FcProofs.Lemmas.LexsortCanon — the fuzzy lexsort of the code sorts by cluster keys, and a list
  sorted by cluster keys is canonical:

  * `fuzzyLexSortBy_spec`: for every sorter (`IsSort`: permutation, sorted by the raw key, ties
    arbitrary) and every list whose columns satisfy `Sep` (`SepCols`), the loop-with-mask model is
    the segment sort, a permutation of the input, lexicographically sorted by the cluster keys
    `colKey` of all `ncols` columns.
  * `lexsorted_unique`: two lists that are permutations of each other and both sorted by cluster keys
    are EQUAL when the key vectors of the items are pairwise distinct (uniqueness of a strictly
    sorted permutation, `List.Perm.eq_of_pairwise`);
  * `lexsorted_keys_unique`: without distinctness, and even for two different item types / key
    functions (two noisy copies of a mesh): the *sequences of key vectors* are equal as soon as they
    are permutations of each other.
-/
import FcProofs.Lemmas.LexsortLoop
import FcProofs.Lemmas.LexsortArgsort
import FcProofs.Lemmas.LexsortSep
namespace Fc.C02
open Fc.C02.Spec
variable {α : Type}

/-- what the theorems assume about a sorting routine on items: permutation, sorted by the key
    it is given; nothing about ties -/
structure IsSort (srt : (α → Int) → List α → List α) : Prop where
  perm : ∀ k l, (srt k l).Perm l
  sorted : ∀ k l, (srt k l).Pairwise (fun a b => k a ≤ k b)

theorem isSort_sorterOf {as : List Int → List Nat} (h : IsArgsort as) :
    IsSort (fun (k : α → Int) l => sorterOf as k l) :=
  ⟨sorterOf_perm h, sorterOf_sorted h⟩

/-! ### the loop on the empty list -/

theorem applyRun_nil (f : List α → List α) (hf : f [] = []) (r : Nat × Nat) : applyRun f [] r = [] := by
  simp [applyRun, hf]

theorem lexLoop_nil {srt : (α → Int) → List α → List α} (hs : IsPermSorter srt) (close : Int → Int → Bool)
    (key : Nat → α → Int) : ∀ fuel dim eq, lexLoop srt close key fuel dim eq [] = []
  | 0, _, _ => rfl
  | fuel + 1, dim, eq => by
    unfold lexLoop
    have hnil : ∀ k, srt k [] = [] := fun k => List.perm_nil.mp (hs k [])
    have : ∀ runs : List (Nat × Nat), runs.foldl (applyRun (srt (key dim))) [] = [] := by
      intro runs
      induction runs with
      | nil => rfl
      | cons r rs ih => rw [List.foldl_cons, applyRun_nil _ (hnil _), ih]
    simp only [this]
    exact lexLoop_nil hs close key fuel (dim + 1) _

/-! ### Sep for the columns of a list of items -/

/-- `Sep` for the first `ncols` columns of the items of `l` (values `key j a`) -/
structure SepCols (t : MeshTol) (A B M : Nat) (key : Nat → α → Int) (ncols : Nat) (l : List α) : Prop where
  hAB : 2 * A ≤ B
  bounds : boundsOk t A B M = true
  sep : ∀ j, j < ncols → sepCol A B (l.map (key j)) = true
  mag : ∀ j, j < ncols → ∀ a ∈ l, (key j a).natAbs ≤ M

theorem SepCols.clusteredIs {t : MeshTol} {A B M : Nat} {key : Nat → α → Int} {ncols : Nat} {l : List α}
    (h : SepCols t A B M key ncols l) (j : Nat) (hj : j < ncols) :
    Clustered t.closeIs (l.map (key j)) (clusterKey A (l.map (key j))) :=
  clustered_closeIs (h.sep j hj) h.hAB h.bounds (by
    intro v hv
    obtain ⟨a, ha, rfl⟩ := List.mem_map.mp hv
    exact h.mag j hj a ha)

theorem SepCols.clusteredFz {t : MeshTol} {A B M : Nat} {key : Nat → α → Int} {ncols : Nat} {l : List α}
    (h : SepCols t A B M key ncols l) (j : Nat) (hj : j < ncols) :
    Clustered t.closeFz (l.map (key j)) (clusterKey A (l.map (key j))) :=
  clustered_closeFz (h.sep j hj) h.hAB h.bounds (by
    intro v hv
    obtain ⟨a, ha, rfl⟩ := List.mem_map.mp hv
    exact h.mag j hj a ha)

/-- the raw sorter is a sorter for the cluster keys (monotonicity of the cluster key) -/
theorem isSortOn_of_sep {srt : (α → Int) → List α → List α} (hs : IsSort srt) {t : MeshTol} {A B M : Nat}
    {key : Nat → α → Int} {ncols : Nat} {l : List α} (h : SepCols t A B M key ncols l) :
    IsSortOn (fun a => a ∈ l) (fun j => srt (key j)) (colKey A key l) ncols where
  perm j l' := hs.perm (key j) l'
  sorted j hj l' hl' := by
    have hc := h.clusteredIs j hj
    refine (hs.sorted (key j) l').imp_of_mem ?_
    intro a b ha hb hab
    have ha' : a ∈ l := hl' a ((hs.perm (key j) l').mem_iff.mp ha)
    have hb' : b ∈ l := hl' b ((hs.perm (key j) l').mem_iff.mp hb)
    exact hc.mono _ (List.mem_map_of_mem ha') _ (List.mem_map_of_mem hb') hab

theorem closeIsKey_of_sep {t : MeshTol} {A B M : Nat} {key : Nat → α → Int} {ncols : Nat} {l : List α}
    (h : SepCols t A B M key ncols l) :
    CloseIsKey (fun a => a ∈ l) t.closeIs key (colKey A key l) ncols := by
  intro j hj a b ha hb
  exact (h.clusteredIs j hj).iff _ (List.mem_map_of_mem ha) _ (List.mem_map_of_mem hb)

/-- **the fuzzy lexsort of the code, specified.** -/
theorem fuzzyLexSortBy_spec {srt : (α → Int) → List α → List α} (hs : IsSort srt) {t : MeshTol}
    {A B M : Nat} {key : Nat → α → Int} {ncols : Nat} {l : List α} (hn : 1 ≤ ncols)
    (h : SepCols t A B M key ncols l) :
    fuzzyLexSortBy srt t.closeIs key ncols l = segSort (fun j => srt (key j)) (colKey A key l) ncols 0 l ∧
    (fuzzyLexSortBy srt t.closeIs key ncols l).Perm l ∧
    (fuzzyLexSortBy srt t.closeIs key ncols l).Pairwise (lexLE (colKey A key l) ncols 0) := by
  have hps : IsPermSorter srt := hs.perm
  have heq : fuzzyLexSortBy srt t.closeIs key ncols l =
      segSort (fun j => srt (key j)) (colKey A key l) ncols 0 l := by
    by_cases hl : l = []
    · subst hl
      have hnil : ∀ k, srt k [] = [] := fun k => List.perm_nil.mp (hs.perm k [])
      unfold fuzzyLexSortBy
      rw [hnil, lexLoop_nil hps]
      exact (List.perm_nil.mp (segSort_perm (fun j l => hs.perm (key j) l) _ ncols 0 [])).symm
    · refine fuzzyLexSortBy_eq_segSort (P := fun a => a ∈ l) hps t.closeIs key _ ncols l hn hl
        (fun a ha => ha) ?_
      intro j hj
      exact closeIsKey_of_sep h j (by omega)
  refine ⟨heq, ?_, ?_⟩
  · rw [heq]; exact segSort_perm (fun j l => hs.perm (key j) l) _ ncols 0 l
  · rw [heq]
    exact segSort_sorted (isSortOn_of_sep hs h) ncols 0 l (by omega) (fun a ha => ha)

/-! ### lexicographic order on cluster keys: a preorder whose symmetric part is key equality -/

theorem lexLE_refl (K : Nat → α → Int) : ∀ fuel j a, lexLE K fuel j a a
  | 0, _, _ => trivial
  | fuel + 1, j, a => Or.inr ⟨rfl, lexLE_refl K fuel (j + 1) a⟩

theorem lexLE_trans (K : Nat → α → Int) : ∀ fuel j a b c,
    lexLE K fuel j a b → lexLE K fuel j b c → lexLE K fuel j a c
  | 0, _, _, _, _, _, _ => trivial
  | fuel + 1, j, a, b, c, h1, h2 => by
    simp only [lexLE] at h1 h2 ⊢
    rcases h1 with h1 | ⟨e1, h1⟩ <;> rcases h2 with h2 | ⟨e2, h2⟩
    · left; omega
    · left; omega
    · left; omega
    · right; exact ⟨by omega, lexLE_trans K fuel (j + 1) a b c h1 h2⟩

theorem lexLE_antisymm (K : Nat → α → Int) : ∀ fuel j a b,
    lexLE K fuel j a b → lexLE K fuel j b a → kvec K fuel j a = kvec K fuel j b
  | 0, _, _, _, _, _ => rfl
  | fuel + 1, j, a, b, h1, h2 => by
    simp only [lexLE] at h1 h2
    simp only [kvec]
    rcases h1 with h1 | ⟨e1, h1⟩ <;> rcases h2 with h2 | ⟨e2, h2⟩
    · omega
    · omega
    · omega
    · rw [e1, lexLE_antisymm K fuel (j + 1) a b h1 h2]

theorem lexLE_of_kvec_eq (K : Nat → α → Int) : ∀ fuel j a b,
    kvec K fuel j a = kvec K fuel j b → lexLE K fuel j a b
  | 0, _, _, _, _ => trivial
  | fuel + 1, j, a, b, h => by
    simp only [kvec, List.cons.injEq] at h
    exact Or.inr ⟨h.1, lexLE_of_kvec_eq K fuel (j + 1) a b h.2⟩

/-- the order only looks at the key vectors -/
theorem lexLE_congr {β : Type} (K : Nat → α → Int) (K' : Nat → β → Int) : ∀ fuel j a b a' b',
    kvec K fuel j a = kvec K' fuel j a' → kvec K fuel j b = kvec K' fuel j b' →
    lexLE K fuel j a b → lexLE K' fuel j a' b'
  | 0, _, _, _, _, _, _, _, _ => trivial
  | fuel + 1, j, a, b, a', b', ha, hb, h => by
    simp only [kvec, List.cons.injEq] at ha hb
    simp only [lexLE] at h ⊢
    rcases h with h | ⟨e, h⟩
    · left; omega
    · right; exact ⟨by omega, lexLE_congr K K' fuel (j + 1) a b a' b' ha.2 hb.2 h⟩

/-- **(i) canonicity, items.**  Two permutations of the same items, both sorted by cluster keys,
    are equal when the items' key vectors are pairwise distinct. -/
theorem lexsorted_unique (K : Nat → α → Int) (n : Nat) {l1 l2 : List α}
    (h1 : l1.Pairwise (lexLE K n 0)) (h2 : l2.Pairwise (lexLE K n 0)) (hp : l1.Perm l2)
    (hinj : ∀ a ∈ l1, ∀ b ∈ l1, kvec K n 0 a = kvec K n 0 b → a = b) : l1 = l2 :=
  List.Perm.eq_of_pairwise
    (fun a b ha hb hab hba => hinj a ha b (hp.mem_iff.mpr hb) (lexLE_antisymm K n 0 a b hab hba))
    h1 h2 hp

/-- the "identity" key functions on key vectors -/
def Kv : Nat → List Int → Int := fun j v => v.getD j 0

theorem kvec_Kv_aux {γ : Type} (K : Nat → γ → Int) (a : γ) : ∀ (fuel j : Nat) (pre : List Int), pre.length = j →
    kvec Kv fuel j (pre ++ kvec K fuel j a) = kvec K fuel j a := by
  intro fuel
  induction fuel with
  | zero => intros; rfl
  | succ fuel ih =>
    intro j pre hpre
    simp only [kvec]
    congr 1
    · simp [Kv, List.getD_eq_getElem?_getD, hpre]
    · have := ih (j + 1) (pre ++ [K j a]) (by simp [hpre])
      simpa [List.append_assoc] using this

/-- reading the key vector of a key vector gives it back -/
theorem kvec_Kv {γ : Type} (K : Nat → γ → Int) (n : Nat) (a : γ) :
    kvec Kv n 0 (kvec K n 0 a) = kvec K n 0 a := by
  simpa using kvec_Kv_aux K a n 0 [] rfl

/-- the lexicographic order on key vectors of length `n` -/
def vle (n : Nat) (u v : List Int) : Prop := lexLE Kv n 0 u v

theorem vle_of_lexLE (K : Nat → α → Int) (n : Nat) (a b : α) (h : lexLE K n 0 a b) :
    vle n (kvec K n 0 a) (kvec K n 0 b) :=
  lexLE_congr K Kv n 0 a b _ _ (kvec_Kv K n a).symm (kvec_Kv K n b).symm h

theorem lexLE_of_vle (K : Nat → α → Int) (n : Nat) (a b : α) (h : vle n (kvec K n 0 a) (kvec K n 0 b)) :
    lexLE K n 0 a b :=
  lexLE_congr Kv K n 0 _ _ a b (kvec_Kv K n a) (kvec_Kv K n b) h

theorem vle_antisymm {γ δ : Type} (K : Nat → γ → Int) (K' : Nat → δ → Int) (n : Nat) (a : γ) (b : δ)
    (h1 : vle n (kvec K n 0 a) (kvec K' n 0 b)) (h2 : vle n (kvec K' n 0 b) (kvec K n 0 a)) :
    kvec K n 0 a = kvec K' n 0 b := by
  have := lexLE_antisymm Kv n 0 _ _ h1 h2
  rwa [kvec_Kv, kvec_Kv] at this

/-- **(i) canonicity, key vectors.**  For two lists over possibly different item types and key
    functions (two noisy copies of one mesh), each sorted by its cluster keys: if the key vectors
    are the same up to permutation, the *sequences* of key vectors are equal. -/
theorem lexsorted_keys_unique {β : Type} (K1 : Nat → α → Int) (K2 : Nat → β → Int) (n : Nat)
    {l1 : List α} {l2 : List β}
    (h1 : l1.Pairwise (lexLE K1 n 0)) (h2 : l2.Pairwise (lexLE K2 n 0))
    (hp : (l1.map (kvec K1 n 0)).Perm (l2.map (kvec K2 n 0))) :
    l1.map (kvec K1 n 0) = l2.map (kvec K2 n 0) := by
  have hv1 : (l1.map (kvec K1 n 0)).Pairwise (vle n) := by
    rw [List.pairwise_map]
    exact h1.imp (fun {a b} h => vle_of_lexLE K1 n a b h)
  have hv2 : (l2.map (kvec K2 n 0)).Pairwise (vle n) := by
    rw [List.pairwise_map]
    exact h2.imp (fun {a b} h => vle_of_lexLE K2 n a b h)
  refine List.Perm.eq_of_pairwise ?_ hv1 hv2 hp
  intro u v hu hv huv hvu
  obtain ⟨a, _, rfl⟩ := List.mem_map.mp hu
  obtain ⟨b, _, rfl⟩ := List.mem_map.mp hv
  exact vle_antisymm K1 K2 n a b huv hvu

end Fc.C02
