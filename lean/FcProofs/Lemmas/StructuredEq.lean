/-
  FcProofs.Lemmas.StructuredEq — helper lemmas for C16: generated connectivity / points of structured
  grids are well-formed; `mesh_equal` on meshes with identical cell blocks; the point array of a
  rectilinear grid inherits entry-wise closeness from its ordinates.
-/
import FcProofs.Lemmas.MeshEqual
namespace Fc.C16
open Fc Fc.Spec Fc.C03


/-! ### structured grids: generated connectivity and points are well-formed -/

theorem uniform_map_const {α β} (l : List α) (f : α → List β) (w : Nat) (h : ∀ t, (f t).length = w) :
    Uniform (l.map f) := by
  intro r hr
  obtain ⟨t, _, rfl⟩ := List.mem_map.mp hr
  rw [h t]
  cases l with
  | nil => simp at hr
  | cons x xs => simp [h x]

theorem reorderRow_length (ct : String) (row : List Nat) :
    (reorderRow ct row).length =
      if ct == "QUAD" then Gen.C16.reorderQuadPixel.length
      else if ct == "HEXAHEDRON" then Gen.C16.reorderHexVoxel.length else row.length := by
  unfold reorderRow
  split
  · simp
  · split <;> simp

theorem structConn_uniform (ext : List Nat) (ct : String) : Uniform (structConn ext ct) := by
  unfold structConn
  simp only
  split
  · exact uniform_map_const _ _
      (if ct == "QUAD" then Gen.C16.reorderQuadPixel.length
       else if ct == "HEXAHEDRON" then Gen.C16.reorderHexVoxel.length else 2)
      (fun t => by rw [reorderRow_length]; rfl)
  · exact uniform_map_const _ _
      (if ct == "QUAD" then Gen.C16.reorderQuadPixel.length
       else if ct == "HEXAHEDRON" then Gen.C16.reorderHexVoxel.length else 4)
      (fun t => by rw [reorderRow_length]; rfl)
  · exact uniform_map_const _ _
      (if ct == "QUAD" then Gen.C16.reorderQuadPixel.length
       else if ct == "HEXAHEDRON" then Gen.C16.reorderHexVoxel.length else 8)
      (fun t => by rw [reorderRow_length]; rfl)
  · exact uniform_nil

theorem rectPoints_width (xs ys zs : List Int) : ∀ r ∈ rectPoints xs ys zs, r.length = 3 := by
  intro r hr
  unfold rectPoints at hr
  simp only [List.mem_flatMap, List.mem_map] at hr
  obtain ⟨z, _, y, _, x, _, rfl⟩ := hr
  rfl

theorem wfEq_single (dim : Nat) (pts : List (List Int)) (ct : String) (rows : List (List Nat))
    (hp : ∀ r ∈ pts, r.length = dim) (hu : Uniform rows) : (wfEq (Mesh.mk dim pts [(ct, rows)])) = true := by
  rw [wfEq_iff]
  refine ⟨hp, ?_, ?_⟩
  · simp [Mesh.cellTypes]
  · intro b hb
    simp only [List.mem_singleton] at hb
    subst hb
    exact hu

theorem RectGrid.toMesh_wfEq (g : RectGrid) : (wfEq g.toMesh) = true :=
  wfEq_single _ _ _ _ (rectPoints_width _ _ _) (structConn_uniform _ _)

theorem StructGrid.toMesh_wfEq (g : StructGrid) (h : g.ok = true) : (wfEq g.toMesh) = true := by
  refine wfEq_single _ _ _ _ ?_ (structConn_uniform _ _)
  unfold StructGrid.ok at h
  simp only [Bool.and_eq_true, List.all_eq_true, beq_iff_eq] at h
  exact h.2


/-! ### `mesh_equal` on meshes that carry the very same cell blocks -/

theorem typesSpec_self (s : List String) : typesSpec s s = true := by
  rw [typesSpec_iff]
  exact ⟨fun c hc => Or.inl hc, fun t ht => Or.inl ht⟩

theorem sameCells_self (a : List (List Nat)) : sameCells a a = true :=
  (sameCells_iff a a).mpr ⟨rfl, rfl⟩

theorem cellsEqual_same (A B : Mesh) (hA : (wfEq A) = true) (hB : (wfEq B) = true) (h : A.cells = B.cells) :
    cellsEqual A B = .ok true := by
  rw [cellsEqual_eq A B hA hB]
  have ht : A.cellTypes = B.cellTypes := by unfold Mesh.cellTypes; rw [h]
  have hc : cellsSpec A B = true := by
    rw [cellsSpec_iff]
    intro c hc
    refine ⟨c, targetType_of_mem _ _ (ht ▸ hc), ?_⟩
    have : A.cellsOf c = B.cellsOf c := by unfold Mesh.cellsOf; rw [h]
    rw [this]; exact sameCells_self _
  rw [ht, typesSpec_self, hc]; rfl

/-! ### entry-wise closeness as a relation on lists -/

/-- the documented formula holds (as a proposition) -/
def Close (rel abs : Nat) (a b : Int) : Prop := docFormula f64 a b rel abs = true

theorem forall2_iff_fuzzyList (rel abs : Nat) : ∀ (x y : List Int),
    List.Forall₂ (Close rel abs) x y ↔ x.length = y.length ∧ fuzzyList rel abs x y = true := by
  intro x
  induction x with
  | nil =>
    intro y
    cases y with
    | nil => simp [fuzzyList]
    | cons b y => simp
  | cons a x ih =>
    intro y
    cases y with
    | nil => simp
    | cons b y =>
      rw [List.forall₂_cons, ih y]
      unfold fuzzyList
      simp only [List.length_cons, Nat.add_right_cancel_iff, List.all_eq_true, List.mem_range]
      constructor
      · rintro ⟨h1, h2, h3⟩
        refine ⟨h2, ?_⟩
        intro i hi
        cases i with
        | zero => exact h1
        | succ i => simpa using h3 i (by omega)
      · rintro ⟨h2, h3⟩
        refine ⟨by simpa [Close] using h3 0 (by omega), h2, ?_⟩
        intro i hi
        simpa using h3 (i + 1) (by omega)

theorem verdict_ok_beq (b : Bool) : (Verdict.ok b == Verdict.ok true) = b := by
  cases b <;> decide

/-- `FuzzyEquality` on two 1-d arrays = entry-wise closeness of two lists of the same length -/
theorem fuzzyOk_vec_iff (rel abs : Nat) (x y : List Int) :
    fuzzyOk rel abs (vecArr x) (vecArr y) = true ↔ List.Forall₂ (Close rel abs) x y := by
  unfold fuzzyOk vecArr
  rw [fuzzyCheck_num_f64 _ _ _ _ _ _ (by simp), forall2_iff_fuzzyList]
  simp

theorem fuzzyOk_vec_eq_listWithin (rel abs : Nat) (x y : List Int) :
    fuzzyOk rel abs (vecArr x) (vecArr y) = listWithin rel abs x y := by
  unfold fuzzyOk vecArr listWithin
  rw [fuzzyCheck_num_f64 _ _ _ _ _ _ (by simp)]
  rw [verdict_ok_beq]
  unfold fuzzyList
  by_cases h : x.length = y.length
  · simp [h]
  · simp [h]

/-- the point list of a rectilinear grid: point-wise closeness follows from ordinate-wise closeness -/
theorem rectPoints_close (rel abs : Nat) (xs xs' ys ys' zs zs' : List Int)
    (hx : List.Forall₂ (Close rel abs) xs xs') (hy : List.Forall₂ (Close rel abs) ys ys')
    (hz : List.Forall₂ (Close rel abs) zs zs') :
    List.Forall₂ (List.Forall₂ (Close rel abs)) (rectPoints xs ys zs) (rectPoints xs' ys' zs') := by
  unfold rectPoints
  refine List.rel_flatMap hz ?_
  intro z z' hzz
  refine List.rel_flatMap hy ?_
  intro y y' hyy
  refine List.rel_map ?_ hx
  intro x x' hxx
  exact List.Forall₂.cons hxx (List.Forall₂.cons hyy (List.Forall₂.cons hzz List.Forall₂.nil))

/-- `FuzzyEquality` on two (n, d) point arrays holds when the point lists are point-wise close -/
theorem fuzzyOk_points_of_close (rel abs : Nat) (d : Nat) (P Q : List (List Int))
    (h : List.Forall₂ (List.Forall₂ (Close rel abs)) P Q) :
    fuzzyCheck (.num rel) (.num abs) ⟨.flt f64, [P.length, d], P.flatten⟩ ⟨.flt f64, [Q.length, d], Q.flatten⟩ =
      .ok true := by
  rw [fuzzyCheck_num_f64 _ _ _ _ _ _ (by simp)]
  have hl := h.length_eq
  have hf : List.Forall₂ (Close rel abs) P.flatten Q.flatten := List.rel_flatten h
  have := (forall2_iff_fuzzyList rel abs _ _).mp hf
  simp [hl, this.2]


/-! ### every representation exposes a well-formed explicit view -/

theorem imagePoint_width (g : ImageGrid) (t : List Nat) (p : List Int) (h : imagePoint g t = some p) :
    p.length = 3 := by
  unfold imagePoint at h
  simp only at h
  split at h
  · cases h; simp
  · cases h

theorem ImageGrid.toMesh_wfEq (g : ImageGrid) (m : Mesh) (h : g.toMesh = some m) : (wfEq m) = true := by
  unfold ImageGrid.toMesh at h
  cases hp : g.points with
  | none => rw [hp] at h; cases h
  | some ps =>
    rw [hp] at h
    simp only [Option.map_some, Option.some.injEq] at h
    subst h
    refine wfEq_single _ _ _ _ ?_ (structConn_uniform _ _)
    unfold ImageGrid.points at hp
    simp only at hp
    split at hp
    · rename_i hall
      cases hp
      intro r hr
      obtain ⟨o, ho, rfl⟩ := List.mem_map.mp hr
      rw [List.all_eq_true] at hall
      have hs := hall o ho
      cases o with
      | none => cases hs
      | some p =>
        obtain ⟨t, _, ht⟩ := List.mem_map.mp ho
        exact imagePoint_width g t p ht
    · cases hp

theorem view_wfEq (a : AnyMesh) (ha : a.ok = true) (v : TMesh) (hv : a.view = some v) : (wfEq v.mesh) = true := by
  cases a with
  | explicit m => simp only [AnyMesh.view, Option.some.injEq] at hv; subst hv; exact ha
  | permuted m => simp only [AnyMesh.view, Option.some.injEq] at hv; subst hv; exact ha
  | rect g => simp only [AnyMesh.view, Option.some.injEq] at hv; subst hv; exact RectGrid.toMesh_wfEq g
  | struct g => simp only [AnyMesh.view, Option.some.injEq] at hv; subst hv; exact StructGrid.toMesh_wfEq g ha
  | image g =>
    simp only [AnyMesh.view, ImageGrid.view] at hv
    cases hm : g.toMesh with
    | none => rw [hm] at hv; cases hv
    | some m =>
      rw [hm] at hv
      simp only [Option.map_some, Option.some.injEq] at hv
      subst hv
      exact ImageGrid.toMesh_wfEq g m hm

theorem view_tol (a : AnyMesh) (v : TMesh) (hv : a.view = some v) : (v.rel, v.abs) = a.tol := by
  cases a with
  | explicit m => simp only [AnyMesh.view, Option.some.injEq] at hv; subst hv; rfl
  | permuted m => simp only [AnyMesh.view, Option.some.injEq] at hv; subst hv; rfl
  | rect g => simp only [AnyMesh.view, Option.some.injEq] at hv; subst hv; rfl
  | struct g => simp only [AnyMesh.view, Option.some.injEq] at hv; subst hv; rfl
  | image g =>
    simp only [AnyMesh.view, ImageGrid.view] at hv
    cases hm : g.toMesh with
    | none => rw [hm] at hv; cases hv
    | some m =>
      rw [hm] at hv
      simp only [Option.map_some, Option.some.injEq] at hv
      subst hv; rfl

/-- outside the structured short-cuts `a.equals(b)` is `mesh_equal` on the two views, with the receiver's
    tolerances when the receiver is a PermutedMesh and the smaller tolerances otherwise -/
theorem equals_generic (a b : AnyMesh) (hs : shortcut a b = false) (va vb : TMesh)
    (hva : a.view = some va) (hvb : b.view = some vb) :
    equals a b = if a.isPermuted then meshEqualWith va.rel va.abs va.mesh vb.mesh
                 else meshEqualWith (min va.rel vb.rel) (min va.abs vb.abs) va.mesh vb.mesh := by
  cases a <;> cases b <;>
    simp_all [equals, viaMeshEqual, shortcut, AnyMesh.isPermuted, AnyMesh.view, meshEqual, permutedEqual]


/-! ### the structured short-cuts as conjunctions, and their symmetry for equal tolerances -/

theorem fuzzyList_symm (rel abs : Nat) (x y : List Int) (h : x.length = y.length) :
    fuzzyList rel abs x y = fuzzyList rel abs y x := by
  unfold fuzzyList
  rw [h]
  have hsym : ∀ i, docFormula f64 (x.getD i 0) (y.getD i 0) rel abs = docFormula f64 (y.getD i 0) (x.getD i 0) rel abs :=
    fun i => docFormula_symm _ _ _ _ _
  simp only [hsym]

/-- `FuzzyEquality(rel, abs)` on float64 arrays of the same rank is symmetric (consistent data lengths) -/
theorem fuzzyOk_symm (rel abs : Nat) (s s' : List Nat) (x y : List Int) (hl : s.length = s'.length)
    (hd : s = s' → x.length = y.length) :
    fuzzyOk rel abs ⟨.flt f64, s, x⟩ ⟨.flt f64, s', y⟩ = fuzzyOk rel abs ⟨.flt f64, s', y⟩ ⟨.flt f64, s, x⟩ := by
  unfold fuzzyOk
  rw [fuzzyCheck_num_f64 _ _ _ _ _ _ hl, fuzzyCheck_num_f64 _ _ _ _ _ _ hl.symm]
  by_cases h : s = s'
  · subst h
    rw [fuzzyList_symm rel abs x y (hd rfl)]
  · have h' : ¬ s' = s := fun e => h e.symm
    rw [decide_eq_false h, decide_eq_false h', Bool.false_and, Bool.false_and]

theorem basicGridEq_symm (e1 e2 : List Nat) : basicGridEq e1 e2 = basicGridEq e2 e1 := by
  unfold basicGridEq
  by_cases h : e1 = e2
  · subst h; rfl
  · have h' : ¬ e2 = e1 := fun e => h e.symm
    rw [beq_eq_false_iff_ne.mpr h, beq_eq_false_iff_ne.mpr h', Bool.false_and, Bool.false_and]

theorem rectEquals_eq (a b : RectGrid) : rectEquals a b = .ok (basicGridEq a.ext b.ext && rectOrdsEqual a b) := by
  unfold rectEquals
  cases basicGridEq a.ext b.ext <;> simp

theorem structEquals_eq (a b : StructGrid) :
    structEquals a b = .ok (basicGridEq a.ext b.ext && fuzzyOk a.rel a.abs (pointArr a.toMesh) (pointArr b.toMesh)) := by
  unfold structEquals
  cases basicGridEq a.ext b.ext <;> simp

theorem imageEquals_eq (a b : ImageGrid) :
    imageEquals a b = .ok (basicGridEq a.ext b.ext && fuzzyOk a.rel a.abs (vecArr a.origin) (vecArr b.origin) &&
      fuzzyOk a.rel a.abs (vecArr a.spacing) (vecArr b.spacing) &&
      fuzzyOk a.rel a.abs (matArr a.basis) (matArr b.basis)) := by
  unfold imageEquals
  cases basicGridEq a.ext b.ext <;> cases fuzzyOk a.rel a.abs (vecArr a.origin) (vecArr b.origin) <;>
    cases fuzzyOk a.rel a.abs (vecArr a.spacing) (vecArr b.spacing) <;> simp

theorem rectEquals_symm (a b : RectGrid) (hr : a.rel = b.rel) (ht : a.abs = b.abs) :
    rectEquals a b = rectEquals b a := by
  rw [rectEquals_eq, rectEquals_eq, basicGridEq_symm]
  congr 2
  unfold rectOrdsEqual
  rw [← hr, ← ht]
  have : ∀ d, fuzzyOk a.rel a.abs (vecArr (a.ord d)) (vecArr (b.ord d)) =
      fuzzyOk a.rel a.abs (vecArr (b.ord d)) (vecArr (a.ord d)) := by
    intro d
    unfold vecArr
    exact fuzzyOk_symm _ _ _ _ _ _ (by simp) (by intro h; simpa using h)
  simp only [this]

theorem points_flat_length (g : StructGrid) (h : g.ok = true) : g.points.flatten.length = g.points.length * g.dim := by
  apply flatten_length_of_width
  unfold StructGrid.ok at h
  simp only [Bool.and_eq_true, List.all_eq_true, beq_iff_eq] at h
  exact h.2

theorem structEquals_symm (a b : StructGrid) (ha : a.ok = true) (hb : b.ok = true)
    (hr : a.rel = b.rel) (ht : a.abs = b.abs) : structEquals a b = structEquals b a := by
  rw [structEquals_eq, structEquals_eq, basicGridEq_symm]
  congr 2
  rw [← hr, ← ht]
  unfold pointArr StructGrid.toMesh
  simp only
  apply fuzzyOk_symm _ _ _ _ _ _ (by simp)
  intro h
  rw [points_flat_length a ha, points_flat_length b hb]
  simp only [List.cons.injEq, and_true] at h
  rw [h.1, h.2]

theorem basis_flat_length (g : ImageGrid) (h : g.ok = true) : g.basis.flatten.length = 9 := by
  unfold ImageGrid.ok at h
  simp only [Bool.and_eq_true, List.all_eq_true, beq_iff_eq] at h
  rw [flatten_length_of_width 3 g.basis h.2, h.1.2]

theorem imageEquals_symm (a b : ImageGrid) (ha : a.ok = true) (hb : b.ok = true)
    (hr : a.rel = b.rel) (ht : a.abs = b.abs) : imageEquals a b = imageEquals b a := by
  rw [imageEquals_eq, imageEquals_eq, basicGridEq_symm, ← hr, ← ht]
  have h1 : ∀ x y : List Int, fuzzyOk a.rel a.abs (vecArr x) (vecArr y) = fuzzyOk a.rel a.abs (vecArr y) (vecArr x) := by
    intro x y
    unfold vecArr
    exact fuzzyOk_symm _ _ _ _ _ _ (by simp) (by intro h; simpa using h)
  have h2 : fuzzyOk a.rel a.abs (matArr a.basis) (matArr b.basis) = fuzzyOk a.rel a.abs (matArr b.basis) (matArr a.basis) := by
    unfold matArr
    exact fuzzyOk_symm _ _ _ _ _ _ rfl (fun _ => by rw [basis_flat_length a ha, basis_flat_length b hb])
  rw [h1 a.origin, h1 a.spacing, h2]

end Fc.C16
