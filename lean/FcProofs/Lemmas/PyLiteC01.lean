/-
  FcProofs.Lemmas.PyLiteC01 — presentation of arrays to PyLite for `_reshape` (C01) and the meaning of
  the external functions it calls.
-/
import FcModel.Predicates
import FcProofs.Lemmas.PyLite
namespace Fc.PyLite.C01
open Fc.PyLite

/-- an array as `_reshape` sees it: its `shape`; everything else of the object is the opaque `data` -/
def arrVal (data : Val) (shape : List Nat) : Val := .record [("data", data), ("shape", natList shape)]

/-- what `_reshape` assumes about the functions it calls:
    `as_array(x)` returns an array unchanged; `x.reshape(*dims)` is the same data with shape `dims`
    (numpy: a view; legal here because only a trailing 1 is appended). -/
def reshapeExt : Ext := fun f args =>
  if f = "as_array" then
    match args with
    | [v] => .ok v
    | _ => .stuck
  else if f = ".reshape*" then
    match args with
    | [.record fs, .list dims] =>
      match fs.lookup "data" with
      | some d => .ok (.record [("data", d), ("shape", .list dims)])
      | Option.none => .stuck
    | _ => .stuck
  else .stuck

end Fc.PyLite.C01
