/-
  FcProofs.Lemmas.Resid2Noise — canonicity of the point sort for a NOISY relabelling, stated with
  JOINT cluster keys.

  `Resid.NoisyRelabeled m₁ m₂ ρ δ`: `m₂` stores the points of `m₁` in the order `ρ`, every coordinate moved
  by at most `δ`, and the cells of `m₁` renumbered through `ρ⁻¹` (any cell / block order).

  `hrel` of `C02_canonical_points_partial` (own cluster keys on each side) is false under genuine noise
  (PHASE 3, witness `nzA`/`nzB`).  Here the comparison goes through the keys relative to the JOINT value
  sets: under the dichotomy `sepCol A B` of the joint coordinate values of every column

    * the own keys of each mesh order its values exactly like the joint keys (`own_vs_joint`: both are
      monotone class functions of the same equivalence "difference ≤ A"),
    * a point and its noisy copy have the same joint keys (`NoisyRelabeled.point_keys`),
    * a cell and its noisy copy have centres with the same keys relative to the joint candidate list
      (`NoisyRelabeled.centre_keys`, from the rounding-error bound `cellCentre_close`),

  hence the two sorted point sequences correspond position by position (`sortPoints_canonical_noisy`).
-/
import FcProofs.Lemmas.ResidNoise
namespace Fc.Resid2
open Fc Fc.C02 Fc.C02.Spec Fc.Resid

/-! ### own keys vs joint keys -/

/-- the pure nearness test "difference ≤ A" -/
def nearB (A : Nat) (u v : Int) : Bool := decide ((u - v).natAbs ≤ A)

theorem clustered_near {A B : Nat} {vals : List Int} (hsep : sepCol A B vals = true) (hAB : 2 * A ≤ B) :
    Clustered (nearB A) vals (clusterKey A vals) :=
  clustered_of_sep _ hsep hAB
    (fun _ _ _ _ h => by simp only [nearB, decide_eq_true_eq]; exact h)
    (fun _ _ _ _ h => by simp only [nearB, decide_eq_false_iff_not]; omega)

/-- **own cluster keys order the values of a sub-list exactly like the keys of the joint list** -/
theorem own_vs_joint {A B : Nat} {vals big : List Int} (hbig : sepCol A B big = true) (hAB : 2 * A ≤ B)
    (hsub : ∀ v ∈ vals, v ∈ big) {u v : Int} (hu : u ∈ vals) (hv : v ∈ vals) :
    (clusterKey A vals u < clusterKey A vals v ↔ clusterKey A big u < clusterKey A big v) ∧
    (clusterKey A vals u = clusterKey A vals v ↔ clusterKey A big u = clusterKey A big v) :=
  Clustered.order_equiv (clustered_near (sepCol_subset hbig hsub) hAB)
    ((clustered_near hbig hAB).subset hsub) hu hv

/-! ### the item correspondence of a noisy relabelling -/

/-- point item `(p, x)` of `m₁` ↦ the item of `m₂` that stores the noisy copy of `p` -/
def noisyItem (ρ : List Nat) (m2 : Mesh) (a : PItem) : PItem :=
  (ρ.idxOf a.1, m2.points.getD (ρ.idxOf a.1) [])

theorem pitem_eq {m : Mesh} {a : PItem} (ha : a ∈ pitems m) :
    a.1 < m.points.length ∧ a = (a.1, m.points.getD a.1 []) := by
  rw [pitems_eq_map] at ha
  obtain ⟨p, hp, rfl⟩ := List.mem_map.mp ha
  exact ⟨List.mem_range.mp hp, rfl⟩

section noisy
variable {m1 m2 : Mesh} {ρ : List Nat} {δ : Nat}

theorem _root_.Fc.Resid.NoisyRelabeled.nodup (h : NoisyRelabeled m1 m2 ρ δ) : ρ.Nodup :=
  (h.perm.nodup_iff).mpr List.nodup_range

theorem _root_.Fc.Resid.NoisyRelabeled.mem_iff (h : NoisyRelabeled m1 m2 ρ δ) (p : Nat) : p ∈ ρ ↔ p < m1.points.length := by
  rw [h.perm.mem_iff, List.mem_range]

theorem _root_.Fc.Resid.NoisyRelabeled.length (h : NoisyRelabeled m1 m2 ρ δ) : ρ.length = m1.points.length := by
  simpa using h.perm.length_eq

theorem _root_.Fc.Resid.NoisyRelabeled.idxOf_lt (h : NoisyRelabeled m1 m2 ρ δ) {p : Nat} (hp : p < m1.points.length) :
    ρ.idxOf p < m1.points.length := by
  rw [← h.length]
  exact List.idxOf_lt_length_iff.mpr ((h.mem_iff p).mpr hp)

/-- the point items of `m₂` are the images of the point items of `m₁` -/
theorem _root_.Fc.Resid.NoisyRelabeled.onto (h : NoisyRelabeled m1 m2 ρ δ) :
    ((pitems m1).map (noisyItem ρ m2)).Perm (pitems m2) := by
  have e2 : pitems m2 = ρ.map fun p => (ρ.idxOf p, m2.points.getD (ρ.idxOf p) []) := by
    rw [pitems_eq_map m2, h.len, ← h.length, ← map_idxOf_self ρ h.nodup, List.map_map]
    rfl
  rw [e2, pitems_eq_map m1, List.map_map]
  exact (h.perm.map _).symm

theorem _root_.Fc.Resid.NoisyRelabeled.item_mem (h : NoisyRelabeled m1 m2 ρ δ) {a : PItem} (ha : a ∈ pitems m1) :
    noisyItem ρ m2 a ∈ pitems m2 :=
  h.onto.mem_iff.mp (List.mem_map_of_mem ha)

/-- the joint coordinate values of column `j` -/
abbrev jointCol (m1 m2 : Mesh) (j : Nat) : List Int := (pitems m1 ++ pitems m2).map (pkey j)

theorem jointCol_left {a : PItem} (ha : a ∈ pitems m1) (j : Nat) : pkey j a ∈ jointCol m1 m2 j :=
  List.mem_map_of_mem (List.mem_append_left _ ha)

theorem jointCol_right {a : PItem} (ha : a ∈ pitems m2) (j : Nat) : pkey j a ∈ jointCol m1 m2 j :=
  List.mem_map_of_mem (List.mem_append_right _ ha)

/-- a point item and its noisy image have the same JOINT coordinate cluster key -/
theorem _root_.Fc.Resid.NoisyRelabeled.item_key (h : NoisyRelabeled m1 m2 ρ δ) {A B : Nat} (hAB : 2 * A ≤ B) (hδ : δ ≤ A)
    {j : Nat} (hj : j < m1.dim) (hsep : sepCol A B (jointCol m1 m2 j) = true) {a : PItem} (ha : a ∈ pitems m1) :
    clusterKey A (jointCol m1 m2 j) (pkey j (noisyItem ρ m2 a)) = clusterKey A (jointCol m1 m2 j) (pkey j a) := by
  obtain ⟨hlt, ea⟩ := pitem_eq ha
  have hi := h.idxOf_lt hlt
  have := h.point_keys hAB hδ hj hsep hi
  rw [getD_idxOf ((h.mem_iff a.1).mpr hlt) 0] at this
  have e1 : pkey j (noisyItem ρ m2 a) = (m2.points.getD (ρ.idxOf a.1) []).getD j 0 := rfl
  have e2 : pkey j a = (m1.points.getD a.1 []).getD j 0 := by
    conv_lhs => rw [ea]
    rfl
  rw [e1, e2]
  exact this

/-- a point item and its noisy image are within `δ` in every column -/
theorem _root_.Fc.Resid.NoisyRelabeled.item_near (h : NoisyRelabeled m1 m2 ρ δ) {j : Nat} (hj : j < m1.dim) {a : PItem}
    (ha : a ∈ pitems m1) : (pkey j (noisyItem ρ m2 a) - pkey j a).natAbs ≤ δ := by
  obtain ⟨hlt, ea⟩ := pitem_eq ha
  have hi := h.idxOf_lt hlt
  have := h.near (ρ.idxOf a.1) hi j hj
  rw [getD_idxOf ((h.mem_iff a.1).mpr hlt) 0] at this
  have e2 : pkey j a = (m1.points.getD a.1 []).getD j 0 := by
    conv_lhs => rw [ea]
    rfl
  rw [e2]
  exact this

/-- **coordinate keys: the own keys of `m₁` order two points like the own keys of `m₂` order their noisy
    images** (through the joint keys) -/
theorem _root_.Fc.Resid.NoisyRelabeled.KC_rel (h : NoisyRelabeled m1 m2 ρ δ) {A B : Nat} (hAB : 2 * A ≤ B) (hδ : δ ≤ A)
    {j : Nat} (hj : j < m1.dim) (hsep : sepCol A B (jointCol m1 m2 j) = true) {a b : PItem}
    (ha : a ∈ pitems m1) (hb : b ∈ pitems m1) :
    (KC A m1 j a < KC A m1 j b ↔ KC A m2 j (noisyItem ρ m2 a) < KC A m2 j (noisyItem ρ m2 b)) ∧
    (KC A m1 j a = KC A m1 j b ↔ KC A m2 j (noisyItem ρ m2 a) = KC A m2 j (noisyItem ρ m2 b)) := by
  have hsub1 : ∀ v ∈ (pitems m1).map (pkey j), v ∈ jointCol m1 m2 j := by
    intro v hv
    obtain ⟨x, hx, rfl⟩ := List.mem_map.mp hv
    exact jointCol_left hx j
  have hsub2 : ∀ v ∈ (pitems m2).map (pkey j), v ∈ jointCol m1 m2 j := by
    intro v hv
    obtain ⟨x, hx, rfl⟩ := List.mem_map.mp hv
    exact jointCol_right hx j
  have o1 := own_vs_joint hsep hAB hsub1 (List.mem_map_of_mem (f := pkey j) ha) (List.mem_map_of_mem (f := pkey j) hb)
  have o2 := own_vs_joint hsep hAB hsub2 (List.mem_map_of_mem (f := pkey j) (h.item_mem ha))
    (List.mem_map_of_mem (f := pkey j) (h.item_mem hb))
  have ka := h.item_key hAB hδ hj hsep ha
  have kb := h.item_key hAB hδ hj hsep hb
  unfold KC colKey
  rw [o1.1, o1.2, o2.1, o2.2, ka, kb]
  exact ⟨Iff.rfl, Iff.rfl⟩

theorem _root_.Fc.Resid.NoisyRelabeled.KC_lexLE (h : NoisyRelabeled m1 m2 ρ δ) {A B : Nat} (hAB : 2 * A ≤ B) (hδ : δ ≤ A)
    (hsep : ∀ j, j < m1.dim → sepCol A B (jointCol m1 m2 j) = true) {a b : PItem}
    (ha : a ∈ pitems m1) (hb : b ∈ pitems m1) :
    lexLE (KC A m1) m1.dim 0 a b ↔ lexLE (KC A m2) m1.dim 0 (noisyItem ρ m2 a) (noisyItem ρ m2 b) :=
  lexLE_congr_rel _ _ a b _ _ m1.dim 0 (fun i _ hi => h.KC_rel hAB hδ (by omega) (hsep i (by omega)) ha hb)

theorem _root_.Fc.Resid.NoisyRelabeled.KC_kvec (h : NoisyRelabeled m1 m2 ρ δ) {A B : Nat} (hAB : 2 * A ≤ B) (hδ : δ ≤ A)
    (hsep : ∀ j, j < m1.dim → sepCol A B (jointCol m1 m2 j) = true) {a b : PItem}
    (ha : a ∈ pitems m1) (hb : b ∈ pitems m1) :
    kvec (KC A m1) m1.dim 0 a = kvec (KC A m1) m1.dim 0 b ↔
      kvec (KC A m2) m1.dim 0 (noisyItem ρ m2 a) = kvec (KC A m2) m1.dim 0 (noisyItem ρ m2 b) := by
  rw [kvec_eq_iff, kvec_eq_iff]
  constructor
  · intro hk i hi hi'
    exact (h.KC_rel hAB hδ (by omega) (hsep i (by omega)) ha hb).2.mp (hk i hi hi')
  · intro hk i hi hi'
    exact (h.KC_rel hAB hδ (by omega) (hsep i (by omega)) ha hb).2.mpr (hk i hi hi')

/-! ### cells and centres -/

/-- the cells of `m₂` are exactly the renumbered cells of `m₁` -/
theorem _root_.Fc.Resid.NoisyRelabeled.rows_iff (h : NoisyRelabeled m1 m2 ρ δ) (r' : List Nat) :
    r' ∈ allRows m2 ↔ ∃ r ∈ allRows m1, r' = r.map fun p => ρ.idxOf p := by
  rw [h.rows.mem_iff, List.mem_map]
  constructor
  · rintro ⟨r, hr, e⟩; exact ⟨r, hr, e.symm⟩
  · rintro ⟨r, hr, e⟩; exact ⟨r, hr, e.symm⟩

theorem _root_.Fc.Resid.NoisyRelabeled.mem_row_iff (h : NoisyRelabeled m1 m2 ρ δ) {r : List Nat} (hr : r ∈ allRows m1) {p : Nat}
    (hp : p < m1.points.length) : ρ.idxOf p ∈ (r.map fun q => ρ.idxOf q) ↔ p ∈ r := by
  constructor
  · intro hm
    obtain ⟨q, hq, e⟩ := List.mem_map.mp hm
    have hqm : q ∈ ρ := (h.mem_iff q).mpr (h.wf r hr q hq)
    have := (List.idxOf_inj hqm).mp e
    rwa [this] at hq
  · intro hm
    exact List.mem_map_of_mem hm

/-- **minimal-centre keys: a point of `m₁` and its noisy image in `m₂` have the same key vector of the
    minimal adjacent cell centre**, relative to a joint candidate list `C` -/
theorem _root_.Fc.Resid.NoisyRelabeled.KM_kvec (h : NoisyRelabeled m1 m2 ρ δ) {as1 as2 : List Int → List Nat}
    (h1 : IsArgsort as1) (h2 : IsArgsort as2) {t1 t2 : MeshTol} {A B M : Nat} {C : List (List Int)}
    (hy1 : PointHypP t1 A B M m1 C) (hy2 : PointHypP t2 A B M m2 C)
    (hslack : ∀ r ∈ allRows m1, CentreSlack δ B M r.length)
    {a : PItem} (ha : a ∈ pitems m1) {cs1 cs2 : List (List Int)}
    (e1 : centresOf m1 a.1 = some cs1) (hs1 : ∀ x ∈ cs1, x ∈ C)
    (e2 : centresOf m2 (noisyItem ρ m2 a).1 = some cs2) (hs2 : ∀ x ∈ cs2, x ∈ C) :
    kvec (KM A C as2 t2 m2) m1.dim 0 (noisyItem ρ m2 a) = kvec (KM A C as1 t1 m1) m1.dim 0 a := by
  obtain ⟨hlt, _⟩ := pitem_eq ha
  obtain ⟨x1, ex1, mx1, min1⟩ := minCentre_spec h1 hy1.sepC hy1.dimPos e1 hs1
  obtain ⟨x2, ex2, mx2, min2⟩ := minCentre_spec h2 hy2.sepC hy2.dimPos e2 hs2
  rw [← h.dim] at min2
  obtain ⟨f1, g1⟩ := centresOf_mem e1
  obtain ⟨f2, g2⟩ := centresOf_mem e2
  have hM1 : ∀ q, q < m1.points.length → ∀ j, j < m1.dim → ((m1.points.getD q []).getD j 0).natAbs ≤ M := by
    intro q hq j hj
    exact hy1.sepP.mag j hj (q, m1.points.getD q []) (pitem_mem hq)
  have hM2 : ∀ q, q < m1.points.length → ∀ j, j < m1.dim → ((m2.points.getD q []).getD j 0).natAbs ≤ M := by
    intro q hq j hj
    exact hy2.sepP.mag j (h.dim ▸ hj) (q, m2.points.getD q []) (pitem_mem (by rw [h.len]; exact hq))
  -- corresponding cells have centres with equal key vectors
  have hkeys : ∀ r ∈ allRows m1, ∀ z z', cellCentre m1.points r = some z →
      cellCentre m2.points (r.map fun p => ρ.idxOf p) = some z' → z ∈ C → z' ∈ C →
      kvec (KG A C) m1.dim 0 z = kvec (KG A C) m1.dim 0 z' := by
    intro r hr z z' hz hz' hzC hzC'
    apply kvec_congr
    intro j _ hj
    have hj' : j < m1.dim := by omega
    exact h.centre_keys hy1.sepC.hAB hr (hslack r hr) hM1 hM2 hz hz' hzC hzC' hj' (hy1.sepC.sep j hj')
  unfold KM
  rw [kvec_comp (KG A C) (mcD as2 t2 m2) (noisyItem ρ m2 a), kvec_comp (KG A C) (mcD as1 t1 m1) a]
  have hx2 : mcD as2 t2 m2 (noisyItem ρ m2 a) = x2 := by
    unfold mcD; rw [ex2]; rfl
  have hx1 : mcD as1 t1 m1 a = x1 := by
    unfold mcD; rw [ex1]; rfl
  rw [hx1, hx2]
  apply lexLE_antisymm
  · -- x2 ≤ x1 : x1 is the centre of a cell around `a`, whose image is a cell around the image of `a`
    obtain ⟨r, hr, hpr, ez⟩ := g1 x1 mx1
    have hr' : (r.map fun p => ρ.idxOf p) ∈ allRows m2 := (h.rows_iff _).mpr ⟨r, hr, rfl⟩
    have hp' : (noisyItem ρ m2 a).1 ∈ (r.map fun p => ρ.idxOf p) := (h.mem_row_iff hr hlt).mpr hpr
    obtain ⟨z', hz', ez'⟩ := f2 _ hr' hp'
    have hk := hkeys r hr x1 z' ez ez' (hs1 x1 mx1) (hs2 z' hz')
    exact lexLE_congr _ _ _ _ _ _ _ _ rfl hk.symm (min2 z' hz')
  · obtain ⟨r', hr', hp', ez'⟩ := g2 x2 mx2
    obtain ⟨r, hr, rfl⟩ := (h.rows_iff r').mp hr'
    have hpr : a.1 ∈ r := (h.mem_row_iff hr hlt).mp hp'
    obtain ⟨z, hz, ez⟩ := f1 r hr hpr
    have hk := hkeys r hr z x2 ez ez' (hs1 z hz) (hs2 x2 mx2)
    exact lexLE_congr _ _ _ _ _ _ _ _ rfl hk (min1 z hz)

/-! ### canonicity -/

/-- **canonicity of the point sort for a noisy relabelling.**  `PointHypP` on both sides with the SAME
    margins `A`, `B`, `M` and a joint candidate list `C`; the joint coordinate values of every column
    satisfy the dichotomy; noise `δ ≤ A`; `CentreSlack δ B M k` for every cell size; coincident points of
    `m₁` distinguishable.  Then both point sorts succeed and the sorted sequence of `m₂` is the image of
    the sorted sequence of `m₁`, position by position — for any two `argsort` routines. -/
theorem sortPoints_canonical_noisy {as1 as2 : List Int → List Nat} (h1 : IsArgsort as1) (h2 : IsArgsort as2)
    {t1 t2 : MeshTol} {A B M : Nat} {C : List (List Int)}
    (hy1 : PointHypP t1 A B M m1 C) (hy2 : PointHypP t2 A B M m2 C)
    (nz : NoisyRelabeled m1 m2 ρ δ) (hδ : δ ≤ A)
    (hjoint : ∀ j, j < m1.dim → sepCol A B (jointCol m1 m2 j) = true)
    (hslack : ∀ r ∈ allRows m1, CentreSlack δ B M r.length) (hn1 : m1.points ≠ [])
    (hdist : ∀ a ∈ pitems m1, ∀ b ∈ pitems m1, kvec (KC A m1) m1.dim 0 a = kvec (KC A m1) m1.dim 0 b →
      kvec (KM A C as1 t1 m1) m1.dim 0 a = kvec (KM A C as1 t1 m1) m1.dim 0 b → a = b) :
    ∃ L1 L2, sortPointsItems as1 t1 m1 = some L1 ∧ sortPointsItems as2 t2 m2 = some L2 ∧
      L1.Perm (pitems m1) ∧ L1.map (noisyItem ρ m2) = L2 := by
  have hAB := hy1.sepP.hAB
  have hn2 : m2.points ≠ [] := by
    intro h0
    have hl := nz.len
    rw [h0] at hl
    exact hn1 (List.length_eq_zero_iff.mp hl.symm)
  obtain ⟨L1, e1, p1, s1⟩ := sortPointsItems_spec h1 hy1 hn1
  obtain ⟨L2, e2, p2, s2⟩ := sortPointsItems_spec h2 hy2 hn2
  refine ⟨L1, L2, e1, e2, p1, ?_⟩
  have hnd1 : L1.Pairwise (· ≠ ·) := (p1.nodup_iff).mpr (pitems_nodup m1)
  have hinj : ∀ a ∈ pitems m1, ∀ b ∈ pitems m1, noisyItem ρ m2 a = noisyItem ρ m2 b → a = b := by
    intro a ha b hb e
    obtain ⟨hla, ea⟩ := pitem_eq ha
    obtain ⟨hlb, eb⟩ := pitem_eq hb
    have e' : ρ.idxOf a.1 = ρ.idxOf b.1 := congrArg Prod.fst e
    have := (List.idxOf_inj ((nz.mem_iff a.1).mpr hla)).mp e'
    rw [ea, eb, this]
  -- minimal-centre keys of two different points with equal coordinate keys correspond
  have hcent : ∀ a ∈ pitems m1, ∀ b ∈ pitems m1, a ≠ b →
      kvec (KC A m1) m1.dim 0 a = kvec (KC A m1) m1.dim 0 b →
      kvec (KM A C as2 t2 m2) m1.dim 0 (noisyItem ρ m2 a) = kvec (KM A C as1 t1 m1) m1.dim 0 a := by
    intro a ha b hb hab hk
    obtain ⟨cs1, hcs1, hsub1⟩ := hy1.centres a ha b hb hab hk
    have hk2 := (nz.KC_kvec hAB hδ hjoint ha hb).mp hk
    rw [nz.dim] at hk2
    obtain ⟨cs2, hcs2, hsub2⟩ := hy2.centres _ (nz.item_mem ha) _ (nz.item_mem hb)
      (fun e => hab (hinj a ha b hb e)) hk2
    exact nz.KM_kvec h1 h2 hy1 hy2 hslack ha hcs1 hsub1 hcs2 hsub2
  have s1' : (L1.map (noisyItem ρ m2)).Pairwise (le2 (KC A m2) (KM A C as2 t2 m2) m2.dim) := by
    rw [List.pairwise_map, ← nz.dim]
    refine (s1.and hnd1).imp_of_mem ?_
    intro a b ha hb hab
    obtain ⟨hle, hne⟩ := hab
    have ha' := p1.mem_iff.mp ha
    have hb' := p1.mem_iff.mp hb
    refine ⟨(nz.KC_lexLE hAB hδ hjoint ha' hb').mp hle.1, fun he => ?_⟩
    have hk := (nz.KC_kvec hAB hδ hjoint ha' hb').mpr he
    have ma := hcent a ha' b hb' hne hk
    have mb := hcent b hb' a ha' (Ne.symm hne) hk.symm
    exact lexLE_congr (KM A C as1 t1 m1) (KM A C as2 t2 m2) m1.dim 0 a b _ _ ma.symm mb.symm (hle.2 hk)
  refine List.Perm.eq_of_pairwise ?_ s1' s2 (((p1.map _).trans nz.onto).trans p2.symm)
  intro x y hx hy hxy hyx
  obtain ⟨ek, em⟩ := le2_antisymm hxy hyx
  obtain ⟨a, ha, rfl⟩ := List.mem_map.mp hx
  obtain ⟨b, hb, rfl⟩ := List.mem_map.mp (nz.onto.mem_iff.mpr (p2.mem_iff.mp hy))
  have ha' := p1.mem_iff.mp ha
  by_cases hab : a = b
  · rw [hab]
  · rw [← nz.dim] at ek em
    have hk := (nz.KC_kvec hAB hδ hjoint ha' hb).mpr ek
    have ma := hcent a ha' b hb hab hk
    have mb := hcent b hb a ha' (Ne.symm hab) hk.symm
    have := hdist a ha' b hb hk (by rw [← ma, ← mb, em])
    exact absurd this hab

end noisy
end Fc.Resid2
