/-
  FcProofs.Lemmas.PyLiteC12Orch — phase 6 round 6: presentation of the directory-mode model (FcModel/DirMode.lean) to the
  translated `_categorize_files` and the assumptions about its externals (`CatExt`).
-/
import FcModel.DirMode
import FcProofs.Lemmas.PyLiteOrch
namespace Fc.PyLite.C12O
open Fc Fc.PyLite Fc.DirMode

variable {α : Type} [DecidableEq α]

/-- a list (or a Python `set`, in the order the model fixes) of relative paths -/
def pl (emb : α → Val) (l : List α) : Val := .list (l.map emb)

/-- a matched pair `(name, name)` -/
def pairP (emb : α → Val) (p : α) : Val := .list [emb p, emb p]

/-- the `MatchResult` of `find_matching_file_names` -/
def searchV (emb : α → Val) (r : MatchResult α) : Val :=
  .record [("matches", .list (r.matched.map (pairP emb))), ("orphans_in_source", pl emb r.orphansSource),
           ("orphans_in_reference", pl emb r.orphansReference)]

/-- the argument dict as far as it is read -/
def argsV (iv ev rav : Val) : Val :=
  .dict [(.str "include_files", iv), (.str "exclude_files", ev), (.str "read_as", rav)]

/-- the `CategorizedFiles` object -/
def catV (emb : α → Val) (c : Categories α) : Val :=
  .record [("files_to_compare", pl emb c.filesToCompare), ("missing_sources", pl emb c.missingSources),
           ("missing_references", pl emb c.missingReferences), ("discarded_files", pl emb c.discardedFiles),
           ("unsupported_files", pl emb c.unsupportedFiles), ("discarded_orphan_files", pl emb c.discardedOrphanFiles)]

/-- `x = C(args[k]) if args[k] else default()`: the filter object `v` is built from the given patterns, or is the default -/
def FilterChoice (X : Ext) (arg : Val) (ctor dflt : String) (v : Val) : Prop :=
  ∃ t, arg.truthy = .ok t ∧ (if t = true then X ctor [arg] else X dflt []) = .ok v

/-- ASSUMPTIONS about the externals of `_categorize_files`: the two pattern filters are the truth tables `incl` / `excl`;
    `find_matching_file_names(res_dir, ref_dir)` is the model's `findMatches` on the two path lists; `is_supported(join(res_dir,
    p))` is `supported p`; the `--read-as` map built from `args.get("read_as", [])` answers `None` exactly for the paths that are
    not `mapped`; a Python `set` is presented as a list in the order the MODEL fixes (FcModel/DirMode.lean: sets have no
    specified iteration order), `set(l)` as `l`, `.difference` / `.union` as the model's `setDiff` / `setUnion`; the constructor
    builds the object from its six keyword arguments. -/
structure CatExt (X : Ext) (emb : α → Val) (rd fd inclV exclV ftmV rav : Val) (resPaths refPaths : List α)
    (incl excl supported mapped : α → Bool) : Prop where
  hincl : ∀ p, X "call" [inclV, emb p] = .ok (.bool (incl p))
  hexcl : ∀ p, X "call" [exclV, emb p] = .ok (.bool (excl p))
  hftm : X "_make_file_type_map" [rav] = .ok ftmV
  hmap : ∀ p, X "call" [ftmV, emb p] = .ok (if mapped p then .str "reader" else .none)
  hfind : X "find_matching_file_names" [rd, fd] = .ok (searchV emb (findMatches resPaths refPaths))
  hjoin : ∀ p, ∃ j, X "join" [rd, emb p] = .ok j ∧ X "is_supported" [j] = .ok (.bool (supported p))
  hset : ∀ l, X "set" [pl emb l] = .ok (pl emb l)
  hdiff : ∀ a b, X ".difference" [pl emb a, pl emb b] = .ok (pl emb (setDiff a b))
  hunion : ∀ a b, X ".union" [pl emb a, pl emb b] = .ok (pl emb (setUnion a b))
  hctor : ∀ a b c d e f, X "CategorizedFiles(discarded_files=,discarded_orphan_files=,files_to_compare=,missing_references=,missing_sources=,unsupported_files=)"
      [a, b, c, d, e, f] = .ok (.record [("files_to_compare", c), ("missing_sources", e), ("missing_references", d),
        ("discarded_files", a), ("unsupported_files", f), ("discarded_orphan_files", b)])

/-- a comprehension `[x for x in xs if c(x)]` over an embedded list -/
theorem compM_filter_emb (f : Val → Res (Option Val)) (emb : α → Val) (p : α → Bool)
    (h : ∀ a, f (emb a) = .ok (if p a then some (emb a) else none)) (l : List α) :
    compM f (l.map emb) = .ok ((l.filter p).map emb) := by
  rw [compM_map_ok f emb _ h]
  congr 1
  induction l with
  | nil => rfl
  | cons a r ih => cases hp : p a <;> simp [List.filterMap_cons, List.filter_cons, hp, ih]

end Fc.PyLite.C12O
