/-
  Lemmas.CellsW — the VTU cell layout: connectivity / offsets / types written for a sequence of
  (type, corner row) pairs are read back, per type, as exactly the rows of that type in file order,
  and a cell-data array written in the same order is split consistently.
-/
import FcModel.VtuWriter
namespace Fc.W

def sumL (l : List Nat) : Nat := l.foldr (· + ·) 0

theorem sumL_cons (x : Nat) (l : List Nat) : sumL (x :: l) = x + sumL l := rfl

theorem sumL_append (a b : List Nat) : sumL (a ++ b) = sumL a + sumL b := by
  induction a with
  | nil => simp [sumL]
  | cons x r ih => simp only [List.cons_append, sumL_cons, ih]; omega

/-- entry `i` of `0 :: accumulate(lens)` is the sum of the first `i` lengths -/
theorem offs_getD (acc : Nat) : ∀ (pre suf : List Nat),
    (acc :: runningSums acc (pre ++ suf)).getD pre.length 0 = acc + sumL pre
  | [], _ => by simp [sumL]
  | x :: pre, suf => by
    have ih := offs_getD (acc + x) pre suf
    simp only [List.cons_append, runningSums, List.length_cons, List.getD_cons_succ, sumL_cons]
    rw [ih]; omega

theorem flat_length (rows : List (List Nat)) : (rows.flatMap id).length = sumL (rows.map List.length) := by
  induction rows with
  | nil => rfl
  | cons r rs ih => simp only [List.flatMap_cons, id, List.length_append, ih, List.map_cons, sumL_cons]

/-- the row at position `pre.length` is recovered from the flat connectivity with its offset -/
theorem row_at (pre : List (List Nat)) (row : List Nat) (suf : List (List Nat)) :
    (((pre ++ row :: suf).flatMap id).drop (sumL (pre.map List.length))).take row.length = row := by
  rw [List.flatMap_append, ← flat_length]
  rw [List.drop_append_of_le_length (Nat.le_refl _), List.drop_of_length_le (Nat.le_refl _)]
  simp only [List.nil_append, List.flatMap_cons, id]
  rw [List.take_append_of_le_length (Nat.le_refl _), List.take_of_length_le (Nat.le_refl _)]

/-- reading rows by index: for the suffix `suf` of the cell list, the indices of type `t` map to the rows of
    type `t` — provided every row of type `t` has `k` corners -/
theorem rows_of_type (t k : Nat) (all : List (Nat × List Nat)) :
    ∀ (pre suf : List (Nat × List Nat)), all = pre ++ suf →
      (∀ c ∈ suf, c.1 = t → c.2.length = k) →
      (idxFrom t pre.length (suf.map (·.1))).map
          (fun i => ((all.flatMap (·.2)).drop ((0 :: runningSums 0 (all.map (·.2.length))).getD i 0)).take k)
        = (suf.filter (·.1 == t)).map (·.2)
  | _, [], _, _ => by simp [idxFrom]
  | pre, c :: suf, hall, hk => by
    have ih := rows_of_type t k all (pre ++ [c]) suf (by simp [hall]) (fun d hd => hk d (by simp [hd]))
    simp only [List.length_append, List.length_cons, List.length_nil, Nat.zero_add] at ih
    simp only [List.map_cons, idxFrom]
    by_cases hc : c.1 = t
    · have hbeq : (c.1 == t) = true := by simp [hc]
      simp only [hbeq, if_true, List.map_cons, List.filter_cons]
      rw [ih]
      congr 1
      -- the row at index pre.length
      have hlen : c.2.length = k := hk c (by simp) hc
      have e1 : all.map (·.2.length) = pre.map (·.2.length) ++ (c :: suf).map (·.2.length) := by
        rw [hall, List.map_append]
      have e0 : (pre.map (·.2.length)).length = pre.length := by simp
      have hoff : (0 :: runningSums 0 (all.map (·.2.length))).getD pre.length 0 = sumL (pre.map (·.2.length)) := by
        rw [e1]
        have := offs_getD 0 (pre.map (·.2.length)) ((c :: suf).map (·.2.length))
        rw [e0] at this
        rw [this]; omega
      rw [hoff]
      have e2 : all.flatMap (·.2) = ((pre.map (·.2)) ++ c.2 :: (suf.map (·.2))).flatMap id := by
        rw [hall]; simp [List.flatMap_append, List.flatMap_map]
      have e3 : pre.map (·.2.length) = (pre.map (·.2)).map List.length := by simp
      rw [e2, e3, ← hlen]
      exact row_at _ _ _
    · have hbeq : (c.1 == t) = false := by simp [hc]
      simp only [hbeq, if_false, List.filter_cons, Bool.false_eq_true]
      exact ih

/-- corner count of the first cell of the type, as `_num_corners` computes it from the offsets -/
theorem first_corner_count (all : List (Nat × List Nat)) (pre : List (Nat × List Nat)) (c : Nat × List Nat)
    (suf : List (Nat × List Nat)) (hall : all = pre ++ c :: suf) :
    (0 :: runningSums 0 (all.map (·.2.length))).getD (pre.length + 1) 0
      - (0 :: runningSums 0 (all.map (·.2.length))).getD pre.length 0 = c.2.length := by
  have e1 : all.map (·.2.length) = pre.map (·.2.length) ++ (c :: suf).map (·.2.length) := by
    rw [hall, List.map_append]
  have e1' : all.map (·.2.length) = (pre ++ [c]).map (·.2.length) ++ suf.map (·.2.length) := by
    rw [hall]; simp
  have h0 := offs_getD 0 (pre.map (·.2.length)) ((c :: suf).map (·.2.length))
  have h1 := offs_getD 0 ((pre ++ [c]).map (·.2.length)) (suf.map (·.2.length))
  simp only [List.length_map, List.length_append, List.length_cons, List.length_nil, Nat.zero_add] at h0 h1
  rw [← e1] at h0
  rw [← e1'] at h1
  rw [h0, h1, List.map_append, sumL_append]
  simp [sumL]

theorem idxFrom_head (t : Nat) : ∀ (pre suf : List Nat) (base : Nat), (∀ x ∈ pre, x ≠ t) →
    idxFrom t base (pre ++ suf) = idxFrom t (base + pre.length) suf
  | [], _, _, _ => by simp
  | x :: pre, suf, base, h => by
    have hx : (x == t) = false := by simp [h x (by simp)]
    simp only [List.cons_append, idxFrom, hx, Bool.false_eq_true, if_false]
    rw [idxFrom_head t pre suf (base + 1) (fun y hy => h y (by simp [hy]))]
    simp only [List.length_cons]; congr 1; omega

/-- split a list at the first element satisfying `p` -/
theorem split_first {α} (p : α → Bool) : ∀ (l : List α), (∃ x ∈ l, p x = true) →
    ∃ pre c suf, l = pre ++ c :: suf ∧ p c = true ∧ ∀ x ∈ pre, p x = false
  | [], h => by obtain ⟨x, hx, _⟩ := h; cases hx
  | y :: r, h => by
    by_cases hy : p y = true
    · exact ⟨[], y, r, rfl, hy, by simp⟩
    · have hy' : p y = false := by simpa using hy
      obtain ⟨x, hx, hpx⟩ := h
      have : ∃ x ∈ r, p x = true := by
        rcases List.mem_cons.mp hx with h1 | h1
        · subst h1; rw [hpx] at hy'; cases hy'
        · exact ⟨x, h1, hpx⟩
      obtain ⟨pre, c, suf, e, hc, hpre⟩ := split_first p r this
      refine ⟨y :: pre, c, suf, by rw [e]; rfl, hc, ?_⟩
      intro x hx
      rcases List.mem_cons.mp hx with h1 | h1
      · subst h1; exact hy'
      · exact hpre x h1

/-- **cells per type**: what `_cell_type_corners_array(t)` returns for the arrays the writer produced
    from the cell sequence `all` is the sub-sequence of the rows of type `t`, in file order. -/
theorem cornersOf_written (t k : Nat) (all : List (Nat × List Nat))
    (hk : ∀ c ∈ all, c.1 = t → c.2.length = k) (hex : ∃ c ∈ all, c.1 = t) :
    cornersOf (all.flatMap (·.2)) (runningSums 0 (all.map (·.2.length))) (all.map (·.1)) t
      = some ((all.filter (·.1 == t)).map (·.2)) := by
  obtain ⟨pre, c, suf, hall, hc, hpre⟩ := split_first (fun (c : Nat × List Nat) => c.1 == t) all
    (by obtain ⟨c, hc, e⟩ := hex; exact ⟨c, hc, by simp [e]⟩)
  have hct : c.1 = t := by simpa using hc
  have hidx : typeIndices (all.map (·.1)) t = pre.length :: idxFrom t (pre.length + 1) (suf.map (·.1)) := by
    unfold typeIndices
    rw [hall, List.map_append, idxFrom_head t _ _ 0 (by
      intro x hx
      obtain ⟨d, hd, e⟩ := List.mem_map.mp hx
      have := hpre d hd
      subst e; simpa using this)]
    simp [idxFrom, hct]
  unfold cornersOf
  rw [hidx]
  simp only
  have hkc : c.2.length = k := hk c (by rw [hall]; simp) hct
  rw [first_corner_count all pre c suf hall, hkc]
  have hr := rows_of_type t k all pre (c :: suf) hall (fun d hd => hk d (by rw [hall]; simp [hd]))
  simp only [List.map_cons, idxFrom, hct, beq_self_eq_true, if_true] at hr
  rw [List.map_cons, hr]
  congr 1
  rw [hall, List.filter_append]
  have : pre.filter (fun c => c.1 == t) = [] := by
    rw [List.filter_eq_nil_iff]; intro x hx; simpa using hpre x hx
  rw [this]
  simp

end Fc.W
