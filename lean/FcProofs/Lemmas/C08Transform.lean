/-
  FcProofs.Lemmas.C08Transform — index-map lemmas for the reordering transformations:
  `_unconnected_points_filter_map` under an arbitrary argsort of the boolean mask, and the
  stable argsort the driver instantiates.
-/
import FcProofs.Lemmas.Permuted
namespace Fc

/-- a list whose boolean keys are sorted splits into a `false` part followed by a `true` part -/
theorem bool_sorted_split (key : Nat → Bool) (σ : List Nat) (h : (σ.map key).Pairwise boolLe) :
    ∃ a b, σ = a ++ b ∧ (∀ i ∈ a, key i = false) ∧ (∀ i ∈ b, key i = true) := by
  induction σ with
  | nil => exact ⟨[], [], rfl, by simp, by simp⟩
  | cons x t ih =>
    simp only [List.map_cons, List.pairwise_cons] at h
    obtain ⟨hx, ht⟩ := h
    cases hk : key x with
    | false =>
      obtain ⟨a, b, e, ha, hb⟩ := ih ht
      refine ⟨x :: a, b, by simp [e], ?_, hb⟩
      intro i hi
      rcases List.mem_cons.mp hi with rfl | hi'
      · exact hk
      · exact ha i hi'
    | true =>
      refine ⟨[], x :: t, rfl, by simp, ?_⟩
      intro i hi
      rcases List.mem_cons.mp hi with rfl | hi'
      · exact hk
      · exact hx (key i) (List.mem_map.mpr ⟨i, hi', rfl⟩) hk

theorem count_true_eq (keys : List Bool) :
    keys.count true = (List.range keys.length).countP (fun i => keys.getD i false) := by
  conv_lhs => rw [← getD_map_range keys false]
  rw [List.count_eq_countP, List.countP_map]
  congr 1
  funext i
  simp

/-- **the filter map under ANY argsort**: the kept index list is duplicate-free and contains
    exactly the indices whose key is `false` -/
theorem take_argsort_spec (keys : List Bool) (σ : List Nat) (h : IsBoolArgsort keys σ) :
    (σ.take (keys.length - keys.count true)).Nodup ∧
    ∀ i, i ∈ σ.take (keys.length - keys.count true) ↔ (i < keys.length ∧ keys.getD i false = false) := by
  obtain ⟨hperm, hsorted⟩ := h
  obtain ⟨a, b, e, ha, hb⟩ := bool_sorted_split _ σ hsorted
  have hcount : keys.count true = b.length := by
    rw [count_true_eq, ← hperm.countP_eq, e, List.countP_append]
    have h1 : a.countP (fun i => keys.getD i false) = 0 :=
      List.countP_eq_zero.mpr (fun i hi => by rw [ha i hi]; simp)
    have h2 : b.countP (fun i => keys.getD i false) = b.length :=
      List.countP_eq_length.mpr (fun i hi => hb i hi)
    omega
  have hlen : keys.length = a.length + b.length := by
    have := hperm.length_eq
    simp [e] at this
    omega
  have htake : σ.take (keys.length - keys.count true) = a := by
    rw [e]
    exact List.take_left' (by omega)
  rw [htake]
  have hnd : σ.Nodup := hperm.nodup_iff.mpr List.nodup_range
  refine ⟨(e ▸ hnd).of_append_left, ?_⟩
  intro i
  constructor
  · intro hi
    have : i ∈ σ := e ▸ List.mem_append_left b hi
    exact ⟨List.mem_range.mp (hperm.mem_iff.mp this), ha i hi⟩
  · rintro ⟨hi, hk⟩
    have : i ∈ σ := hperm.mem_iff.mpr (List.mem_range.mpr hi)
    rw [e] at this
    rcases List.mem_append.mp this with h' | h'
    · exact h'
    · rw [hb i h'] at hk; cases hk

theorem mask_getD (m : Mesh) {i : Nat} (hi : i < m.numPoints) :
    (isUnconnectedMask m).getD i false = !m.connected i := by
  unfold isUnconnectedMask
  simp [List.getD_eq_getElem?_getD, hi]

theorem mask_length (m : Mesh) : (isUnconnectedMask m).length = m.numPoints := by
  simp [isUnconnectedMask]

theorem indicesInRange_of_WFP {f : MeshFields} (h : WFP f) : f.mesh.indicesInRange = true := by
  unfold Mesh.indicesInRange
  simp only [List.all_eq_true, decide_eq_true_eq]
  exact h.inRange

/-- `_unconnected_points_filter_map` for every argsort of the mask: injective, and enumerating
    exactly the referenced points -/
theorem unconnectedFilterMap_spec {f : MeshFields} (h : WFP f) (argsortB : List Bool → List Nat)
    (hs : IsBoolArgsort (isUnconnectedMask f.mesh) (argsortB (isUnconnectedMask f.mesh))) :
    ∃ fm, unconnectedFilterMap argsortB f.mesh = some fm ∧ fm.Nodup ∧
      ∀ p, p ∈ fm ↔ f.mesh.connected p = true := by
  unfold unconnectedFilterMap
  rw [indicesInRange_of_WFP h]
  simp only [if_true]
  obtain ⟨h1, h2⟩ := take_argsort_spec _ _ hs
  refine ⟨_, rfl, h1, ?_⟩
  intro p
  rw [h2 p, mask_length]
  constructor
  · rintro ⟨hp, hk⟩
    rw [mask_getD _ hp] at hk
    simpa using hk
  · intro hc
    have hp := connected_lt h hc
    exact ⟨hp, by rw [mask_getD _ hp]; simp [hc]⟩

theorem pairwise_of_forall_mem {α} {R : α → α → Prop} {l : List α}
    (h : ∀ a ∈ l, ∀ b ∈ l, R a b) : l.Pairwise R := by
  induction l with
  | nil => exact List.Pairwise.nil
  | cons x t ih =>
    exact List.pairwise_cons.mpr
      ⟨fun a' ha' => h x (by simp) a' (by simp [ha']),
       ih (fun a ha b hb => h a (by simp [ha]) b (by simp [hb]))⟩

/-- the stable argsort is an argsort -/
theorem stableArgsortBool_isArgsort (keys : List Bool) : IsBoolArgsort keys (stableArgsortBool keys) := by
  unfold IsBoolArgsort IsArgsortBy stableArgsortBool
  constructor
  · have := List.filter_append_perm (fun i => !keys.getD i false) (List.range keys.length)
    simpa using this
  · rw [List.map_append, List.pairwise_append]
    refine ⟨?_, ?_, ?_⟩
    · rw [List.pairwise_map]
      apply pairwise_of_forall_mem
      intro a ha b _ hk
      have := (List.mem_filter.mp ha).2
      rw [hk] at this; cases this
    · rw [List.pairwise_map]
      apply pairwise_of_forall_mem
      intro a _ b hb _
      exact (List.mem_filter.mp hb).2
    · intro x hx y hy _
      obtain ⟨b, hb, rfl⟩ := List.mem_map.mp hy
      exact (List.mem_filter.mp hb).2

/-- with the stable argsort the filter map is the increasing list of the referenced points:
    relative order is kept -/
theorem unconnectedFilterMap_stable {f : MeshFields} (h : WFP f) :
    unconnectedFilterMap stableArgsortBool f.mesh = some (Spec.keptPoints f.mesh) := by
  unfold unconnectedFilterMap
  rw [indicesInRange_of_WFP h]
  simp only [if_true]
  congr 1
  unfold stableArgsortBool
  have hA : ((List.range (isUnconnectedMask f.mesh).length).filter
      (fun i => !(isUnconnectedMask f.mesh).getD i false)) = Spec.keptPoints f.mesh := by
    unfold Spec.keptPoints
    rw [mask_length]
    apply List.filter_congr
    intro i hi
    rw [mask_getD _ (List.mem_range.mp hi)]
    simp
  rw [hA]
  apply List.take_left'
  have hlen := (List.filter_append_perm (fun i => !(isUnconnectedMask f.mesh).getD i false)
    (List.range (isUnconnectedMask f.mesh).length)).length_eq
  rw [hA] at hlen
  have hB : ((List.range (isUnconnectedMask f.mesh).length).filter
      (fun x => !!(isUnconnectedMask f.mesh).getD x false)).length = (isUnconnectedMask f.mesh).count true := by
    rw [count_true_eq, List.countP_eq_length_filter]
    congr 2
    funext x
    simp
  simp only [List.length_append, List.length_range] at hlen
  omega

end Fc

namespace Fc

/-- the conservation law: `f'` is the same geometric object as `f` -/
def SameContent (f f' : MeshFields) : Prop :=
  f'.pointContent.Perm f.pointContent ∧ f'.cellContent.Perm f.cellContent

theorem SameContent.refl (f : MeshFields) : SameContent f f := ⟨List.Perm.refl _, List.Perm.refl _⟩

theorem SameContent.trans {f g k : MeshFields} (h1 : SameContent f g) (h2 : SameContent g k) :
    SameContent f k := ⟨h2.1.trans h1.1, h2.2.trans h1.2⟩

theorem sameContent_bool {f f' : MeshFields} (h : SameContent f f') : Spec.sameContent f f' = true := by
  unfold Spec.sameContent
  simp only [Bool.and_eq_true, List.isPerm_iff]
  exact ⟨h.1.symm, h.2.symm⟩

/-- what the unspecified library functions are assumed to guarantee -/
structure SortParamsOk (P : SortParams) : Prop where
  argsortB : ∀ keys, IsBoolArgsort keys (P.argsortB keys)
  sorter : ∀ m σ, P.sorter m = some σ → σ.Perm (List.range m.numPoints)
  argsortI : ∀ keys : List Int, (P.argsortI keys).Perm (List.range keys.length)

/-- one layer, packaged: result, conservation, well-formedness -/
theorem layer_spec {f : MeshFields} {pp : Option (List Nat)} {cp : Option CellPerms}
    (h : PermHyp f pp cp) :
    applyPermuted pp cp f = some (layerResult f pp cp) ∧ SameContent f (layerResult f pp cp) ∧
    WFP (layerResult f pp cp) :=
  ⟨applyPermuted_eq h, ⟨(layerResult_relabel h).pointContent_perm, (layerResult_relabel h).cellContent_perm⟩,
   layerResult_WFP h⟩

theorem applyPermuted_empty (cp : Option CellPerms) (f : MeshFields) :
    applyPermuted (some []) cp f = none := by
  simp [applyPermuted, PermutedMesh.make, makeInverse]

theorem cellPermOf_map (cells : List (String × List (List Nat))) (F : String × List (List Nat) → List Nat)
    (hnd : (cells.map (·.1)).Nodup) (b : String × List (List Nat)) (hb : b ∈ cells) :
    cellPermOf (cells.map fun b => (b.1, F b)) b.1 = some (F b) := by
  unfold cellPermOf
  induction cells with
  | nil => simp at hb
  | cons c t ih =>
    simp only [List.map_cons, List.nodup_cons] at hnd
    rcases List.mem_cons.mp hb with rfl | hb'
    · simp
    · have hne : c.1 ≠ b.1 := by
        intro e
        exact hnd.1 (e ▸ List.mem_map.mpr ⟨b, hb', rfl⟩)
      have : (c.1 == b.1) = false := by simpa using hne
      simp only [List.map_cons, List.find?_cons, this]
      exact ih hnd.2 hb'

theorem pointPermOk_of_perm {f : MeshFields} (h : WFP f) (σ : List Nat)
    (hσ : σ.Perm (List.range f.mesh.numPoints)) (hn : 0 < f.mesh.numPoints) :
    PointPermOk f.mesh σ := by
  refine ⟨?_, hσ.nodup_iff.mpr List.nodup_range, fun p hp => List.mem_range.mp (hσ.mem_iff.mp hp),
    fun p hp => hσ.mem_iff.mpr (List.mem_range.mpr (connected_lt h hp))⟩
  intro e
  have := hσ.length_eq
  simp [e] at this
  omega

end Fc
