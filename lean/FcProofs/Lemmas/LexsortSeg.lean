/-
  FcProofs.Lemmas.LexsortSeg — the *segment form* of the fuzzy lexicographic sort and its two
  basic theorems (from the validated spike of DESIGN.md Appendix C, generalised to arbitrary items
  and to splitting by an arbitrary adjacent-pair test):

    splitBy e l             =  split l after every adjacent pair (a, b) with `e a b = false`
    segSort srt K fuel j l  =  sort l by column j, split after every adjacent pair with different
                               cluster key `K j`, recurse into every segment with column j+1.

  For EVERY family of sorting routines `srt j` that returns a permutation sorted w.r.t. the cluster
  keys (ties broken arbitrarily — numpy's unstable sort included) the result is a permutation of
  the input (`segSort_perm`) and lexicographically sorted by cluster keys (`segSort_sorted`).
-/
import Mathlib.Data.List.Sort
import Mathlib.Data.List.Flatten
import Mathlib.Data.List.Perm.Basic
import Mathlib.Tactic.Linarith

namespace Fc.C02
variable {α : Type}

/-- split a list after every adjacent pair that fails the test `e` -/
def splitBy (e : α → α → Bool) : List α → List (List α)
  | [] => []
  | [a] => [[a]]
  | a :: b :: t =>
    match splitBy e (b :: t) with
    | [] => [[a]]
    | g :: gs => if e a b then (a :: g) :: gs else [a] :: g :: gs

/-- split a list after every adjacent pair with different key -/
abbrev splitKey (k : α → Int) : List α → List (List α) := splitBy fun a b => k a == k b

theorem splitBy_flatten (e : α → α → Bool) : ∀ l, (splitBy e l).flatten = l
  | [] => rfl
  | [a] => rfl
  | a :: b :: t => by
    have ih := splitBy_flatten e (b :: t)
    unfold splitBy
    split
    · rename_i h; rw [h] at ih; simp at ih
    · rename_i g gs h
      rw [h] at ih
      split <;> simp_all

/-- head of first group is head of list (first group nonempty and starts with `b`) -/
theorem splitBy_cons_head (e : α → α → Bool) (b : α) (t : List α) :
    ∃ g gs, splitBy e (b :: t) = (b :: g) :: gs := by
  induction t generalizing b with
  | nil => exact ⟨[], [], rfl⟩
  | cons c t ih =>
    obtain ⟨g, gs, h⟩ := ih c
    unfold splitBy
    rw [h]
    by_cases hk : e b c = true
    · exact ⟨c :: g, gs, by simp [hk]⟩
    · exact ⟨[], (c :: g) :: gs, by simp [hk]⟩

theorem splitBy_cons_cons (e : α → α → Bool) (a b : α) (t h : List α) (hs : List (List α))
    (hh : splitBy e (b :: t) = h :: hs) :
    splitBy e (a :: b :: t) = if e a b then (a :: h) :: hs else [a] :: h :: hs := by
  conv_lhs => unfold splitBy
  simp only [hh]

/-- every group produced by `splitBy` is non-empty -/
theorem splitBy_ne_nil (e : α → α → Bool) : ∀ l, ∀ g ∈ splitBy e l, g ≠ []
  | [], g, hg => by simp [splitBy] at hg
  | [a], g, hg => by simp [splitBy] at hg; simp [hg]
  | a :: b :: t, g, hg => by
    have ih := splitBy_ne_nil e (b :: t)
    obtain ⟨h, hs, hh⟩ := splitBy_cons_head e b t
    rw [splitBy_cons_cons e a b t _ _ hh] at hg
    rw [hh] at ih
    by_cases hk : e a b = true
    · simp only [hk, if_true] at hg
      rcases List.mem_cons.mp hg with rfl | hg
      · simp
      · exact ih g (List.mem_cons_of_mem _ hg)
    · have hk' : e a b = false := by simpa using hk
      simp only [hk', Bool.false_eq_true, if_false] at hg
      rcases List.mem_cons.mp hg with rfl | hg
      · simp
      · exact ih g hg

/-- on a list sorted w.r.t. a preorder `le` whose symmetric part is the test `e`: all members of
    a group are equivalent, and a member of an earlier group is strictly below a member of a later one -/
theorem splitBy_sorted (e : α → α → Bool) (le : α → α → Prop) (hrefl : ∀ a, le a a)
    (htrans : ∀ a b c, le a b → le b c → le a c) :
    ∀ l, l.Pairwise le → (∀ a ∈ l, ∀ b ∈ l, e a b = true ↔ (le a b ∧ le b a)) →
      (∀ g ∈ splitBy e l, ∀ a ∈ g, ∀ b ∈ g, le a b ∧ le b a) ∧
      (splitBy e l).Pairwise (fun g1 g2 => ∀ a ∈ g1, ∀ b ∈ g2, le a b ∧ ¬ le b a)
  | [], _, _ => by simp [splitBy]
  | [a], _, _ => by simp [splitBy, hrefl]
  | a :: b :: t, hs, hev => by
    have hs' : (b :: t).Pairwise le := (List.pairwise_cons.mp hs).2
    have hab : ∀ x ∈ b :: t, le a x := (List.pairwise_cons.mp hs).1
    have hbx : ∀ x ∈ b :: t, le b x := by
      intro x hx
      rcases List.mem_cons.mp hx with rfl | hx
      · exact hrefl _
      · exact (List.pairwise_cons.mp hs').1 x hx
    obtain ⟨ih1, ih2⟩ := splitBy_sorted e le hrefl htrans (b :: t) hs'
      (fun x hx y hy => hev x (List.mem_cons_of_mem _ hx) y (List.mem_cons_of_mem _ hy))
    obtain ⟨g, gs, hg⟩ := splitBy_cons_head e b t
    have hfl := splitBy_flatten e (b :: t)
    rw [hg] at ih1 ih2 hfl
    have hmem : ∀ g' ∈ (b :: g) :: gs, ∀ x ∈ g', x ∈ b :: t := by
      intro g' hg' x hx
      rw [← hfl]; exact List.mem_flatten.mpr ⟨g', hg', hx⟩
    have hevab := hev a (List.mem_cons_self ..) b (List.mem_cons_of_mem _ (List.mem_cons_self ..))
    rw [splitBy_cons_cons e a b t _ _ hg]
    by_cases hk : e a b = true
    · have hba : le b a := (hevab.mp hk).2
      have hle_ab : le a b := hab b (List.mem_cons_self ..)
      simp only [hk, if_true]
      constructor
      · intro g' hg' x hx y hy
        rcases List.mem_cons.mp hg' with rfl | hg'
        · have hb : ∀ z ∈ a :: b :: g, le z b ∧ le b z := by
            intro z hz
            rcases List.mem_cons.mp hz with rfl | hz
            · exact ⟨hle_ab, hba⟩
            · exact ih1 _ (List.mem_cons_self ..) z hz b (List.mem_cons_self ..)
          exact ⟨htrans _ _ _ (hb x hx).1 (hb y hy).2, htrans _ _ _ (hb y hy).1 (hb x hx).2⟩
        · exact ih1 g' (List.mem_cons_of_mem _ hg') x hx y hy
      · rw [List.pairwise_cons] at ih2 ⊢
        refine ⟨?_, ih2.2⟩
        intro g2 hg2 x hx y hy
        rcases List.mem_cons.mp hx with rfl | hx
        · have hyb := ih2.1 g2 hg2 b (List.mem_cons_self ..) y hy
          refine ⟨hab y (hmem g2 (List.mem_cons_of_mem _ hg2) y hy), ?_⟩
          intro hyx
          exact hyb.2 (htrans _ _ _ hyx hle_ab)
        · exact ih2.1 g2 hg2 x hx y hy
    · have hnba : ¬ le b a := fun h => hk (hevab.mpr ⟨hab b (List.mem_cons_self ..), h⟩)
      have hk' : e a b = false := by simpa using hk
      simp only [hk', Bool.false_eq_true, if_false]
      constructor
      · intro g' hg' x hx y hy
        rcases List.mem_cons.mp hg' with rfl | hg'
        · simp at hx hy; subst hx; subst hy; exact ⟨hrefl _, hrefl _⟩
        · exact ih1 g' hg' x hx y hy
      · rw [List.pairwise_cons]
        refine ⟨?_, ih2⟩
        intro g2 hg2 x hx y hy
        simp at hx; subst hx
        have hy' : y ∈ b :: t := hmem g2 hg2 y hy
        refine ⟨hab y hy', ?_⟩
        intro hyx
        exact hnba (htrans _ _ _ (hbx y hy') hyx)

/-- on a key-sorted list: every group has constant key, and groups are strictly increasing -/
theorem splitKey_sorted (k : α → Int) (l : List α) (hs : l.Pairwise (fun a b => k a ≤ k b)) :
    (∀ g ∈ splitKey k l, ∀ a ∈ g, ∀ b ∈ g, k a = k b) ∧
    (splitKey k l).Pairwise (fun g1 g2 => ∀ a ∈ g1, ∀ b ∈ g2, k a < k b) := by
  obtain ⟨h1, h2⟩ := splitBy_sorted (fun a b => k a == k b) (fun a b => k a ≤ k b)
    (fun _ => le_refl _) (fun _ _ _ => le_trans) l hs
    (fun a _ b _ => by simp only [beq_iff_eq]; omega)
  refine ⟨fun g hg a ha b hb => ?_, h2.imp ?_⟩
  · have := h1 g hg a ha b hb; omega
  · intro g1 g2 h a ha b hb
    have := h a ha b hb; omega

theorem splitKey_flatten (k : α → Int) (l : List α) : (splitKey k l).flatten = l := splitBy_flatten _ l

theorem splitKey_ne_nil (k : α → Int) (l : List α) : ∀ g ∈ splitKey k l, g ≠ [] := splitBy_ne_nil _ l

/-- `srt j` sorts by column `j` for the columns `j < n`: a permutation, sorted w.r.t. the cluster
    key `K j` on lists of items satisfying `P` (how ties are broken is left open) -/
structure IsSortOn (P : α → Prop) (srt : Nat → List α → List α) (K : Nat → α → Int) (n : Nat) : Prop where
  perm : ∀ j l, (srt j l).Perm l
  sorted : ∀ j, j < n → ∀ l, (∀ a ∈ l, P a) → (srt j l).Pairwise (fun a b => K j a ≤ K j b)

/-- segment form of the fuzzy lexsort over the columns `j, j+1, …, j+fuel-1` -/
def segSort (srt : Nat → List α → List α) (K : Nat → α → Int) : Nat → Nat → List α → List α
  | 0, _, l => l
  | fuel + 1, j, l =>
    ((splitKey (K j) (srt j l)).map (segSort srt K fuel (j + 1))).flatten

/-- lexicographic ≤ of the cluster keys of columns j … j+fuel-1 -/
def lexLE (K : Nat → α → Int) : Nat → Nat → α → α → Prop
  | 0, _, _, _ => True
  | fuel + 1, j, a, b => K j a < K j b ∨ (K j a = K j b ∧ lexLE K fuel (j + 1) a b)

theorem flatten_map_perm {f : List α → List α} (hf : ∀ g, (f g).Perm g) :
    ∀ L : List (List α), ((L.map f).flatten).Perm L.flatten
  | [] => by simp
  | g :: gs => by
    simp only [List.map_cons, List.flatten_cons]
    exact List.Perm.append (hf g) (flatten_map_perm hf gs)

theorem segSort_perm {srt : Nat → List α → List α} (hperm : ∀ j l, (srt j l).Perm l) (K : Nat → α → Int) :
    ∀ fuel j (l : List α), (segSort srt K fuel j l).Perm l
  | 0, _, _ => List.Perm.refl _
  | fuel + 1, j, l => by
    unfold segSort
    refine (flatten_map_perm (fun g => segSort_perm hperm K fuel (j + 1) g) _).trans ?_
    rw [splitKey_flatten]
    exact hperm _ _

theorem segSort_sorted {P : α → Prop} {srt K n} (h : IsSortOn P srt K n) :
    ∀ fuel j (l : List α), j + fuel ≤ n → (∀ a ∈ l, P a) →
      (segSort srt K fuel j l).Pairwise (lexLE K fuel j)
  | 0, _, l, _, _ => by simp [segSort, lexLE, List.pairwise_iff_forall_sublist]
  | fuel + 1, j, l, hn, hP => by
    unfold segSort
    obtain ⟨hc, hg⟩ := splitKey_sorted (K j) _ (h.sorted j (by omega) l hP)
    have hmemP : ∀ g ∈ splitKey (K j) (srt j l), ∀ a ∈ g, P a := by
      intro g hgm a ha
      have : a ∈ (splitKey (K j) (srt j l)).flatten := List.mem_flatten.mpr ⟨g, hgm, ha⟩
      rw [splitKey_flatten] at this
      exact hP a ((h.perm j l).mem_iff.mp this)
    rw [List.pairwise_flatten]
    constructor
    · intro g' hg'
      obtain ⟨g, hgm, rfl⟩ := List.mem_map.mp hg'
      have hs := segSort_sorted h fuel (j + 1) g (by omega) (hmemP g hgm)
      have hp := segSort_perm h.perm K fuel (j + 1) g
      refine hs.imp_of_mem ?_
      intro a b ha hb hab
      right
      exact ⟨hc g hgm a (hp.mem_iff.mp ha) b (hp.mem_iff.mp hb), hab⟩
    · rw [List.pairwise_map]
      refine hg.imp ?_
      intro g1 g2 h12 a ha b hb
      left
      exact h12 a ((segSort_perm h.perm K fuel (j + 1) g1).mem_iff.mp ha) b
        ((segSort_perm h.perm K fuel (j + 1) g2).mem_iff.mp hb)

end Fc.C02
