import Mathlib.Data.List.Sort
import Mathlib.Data.List.Flatten
import Mathlib.Data.List.Perm.Basic
import Mathlib.Tactic.Linarith

namespace Fc
variable {α : Type}

/-- split a list after every adjacent pair with different key -/
def splitKey (k : α → Int) : List α → List (List α)
  | [] => []
  | [a] => [[a]]
  | a :: b :: t =>
    match splitKey k (b :: t) with
    | [] => [[a]]
    | g :: gs => if k a = k b then (a :: g) :: gs else [a] :: g :: gs

theorem splitKey_flatten (k : α → Int) : ∀ l, (splitKey k l).flatten = l
  | [] => rfl
  | [a] => rfl
  | a :: b :: t => by
    have ih := splitKey_flatten k (b :: t)
    unfold splitKey
    split
    · rename_i h; rw [h] at ih; simp at ih
    · rename_i g gs h
      rw [h] at ih
      split <;> simp_all

/-- head of first group is head of list (first group nonempty and starts with `b`) -/
theorem splitKey_cons_head (k : α → Int) (b : α) (t : List α) :
    ∃ g gs, splitKey k (b :: t) = (b :: g) :: gs := by
  induction t generalizing b with
  | nil => exact ⟨[], [], rfl⟩
  | cons c t ih =>
    obtain ⟨g, gs, h⟩ := ih c
    unfold splitKey
    rw [h]
    by_cases hk : k b = k c
    · exact ⟨c :: g, gs, by simp [hk]⟩
    · exact ⟨[], (c :: g) :: gs, by simp [hk]⟩

/-- on a key-sorted list: every group has constant key, and groups are strictly increasing -/
theorem splitKey_sorted (k : α → Int) : ∀ l, l.Pairwise (fun a b => k a ≤ k b) →
    (∀ g ∈ splitKey k l, ∀ a ∈ g, ∀ b ∈ g, k a = k b) ∧
    (splitKey k l).Pairwise (fun g1 g2 => ∀ a ∈ g1, ∀ b ∈ g2, k a < k b)
  | [], _ => by simp [splitKey]
  | [a], _ => by simp [splitKey]
  | a :: b :: t, hs => by
    have hs' : (b :: t).Pairwise (fun a b => k a ≤ k b) := (List.pairwise_cons.mp hs).2
    have hab : ∀ x ∈ b :: t, k a ≤ k x := (List.pairwise_cons.mp hs).1
    have hbx : ∀ x ∈ b :: t, k b ≤ k x := by
      intro x hx
      rcases List.mem_cons.mp hx with rfl | hx
      · exact le_refl _
      · exact (List.pairwise_cons.mp hs').1 x hx
    obtain ⟨ih1, ih2⟩ := splitKey_sorted k (b :: t) hs'
    obtain ⟨g, gs, hg⟩ := splitKey_cons_head k b t
    have hfl := splitKey_flatten k (b :: t)
    rw [hg] at ih1 ih2 hfl
    have hmem : ∀ g' ∈ (b :: g) :: gs, ∀ x ∈ g', x ∈ b :: t := by
      intro g' hg' x hx
      rw [← hfl]; exact List.mem_flatten.mpr ⟨g', hg', hx⟩
    unfold splitKey
    rw [hg]
    by_cases hk : k a = k b
    · simp only [hk, if_true]
      constructor
      · intro g' hg' x hx y hy
        rcases List.mem_cons.mp hg' with rfl | hg'
        · have hb : ∀ z ∈ b :: g, k z = k b := fun z hz => ih1 _ (List.mem_cons_self ..) z hz b (List.mem_cons_self ..)
          have hx' : k x = k b := by
            rcases List.mem_cons.mp hx with rfl | hx
            · exact hk
            · exact hb _ hx
          have hy' : k y = k b := by
            rcases List.mem_cons.mp hy with rfl | hy
            · exact hk
            · exact hb _ hy
          rw [hx', hy']
        · exact ih1 g' (List.mem_cons_of_mem _ hg') x hx y hy
      · rw [List.pairwise_cons] at ih2 ⊢
        refine ⟨?_, ih2.2⟩
        intro g2 hg2 x hx y hy
        rcases List.mem_cons.mp hx with rfl | hx
        · rw [hk]; exact ih2.1 g2 hg2 b (List.mem_cons_self ..) y hy
        · exact ih2.1 g2 hg2 x hx y hy
    · simp only [hk, if_false]
      constructor
      · intro g' hg' x hx y hy
        rcases List.mem_cons.mp hg' with rfl | hg'
        · simp at hx hy; rw [hx, hy]
        · exact ih1 g' hg' x hx y hy
      · rw [List.pairwise_cons]
        refine ⟨?_, ih2⟩
        intro g2 hg2 x hx y hy
        simp at hx; subst hx
        have hy' : y ∈ b :: t := hmem g2 hg2 y hy
        have h1 : k x ≤ k b := hab b (List.mem_cons_self ..)
        have h2 : k b ≤ k y := hbx y hy'
        have h3 : k x ≠ k b := hk
        omega
end Fc

namespace Fc
abbrev Row := Nat → Int            -- cluster key of column j

structure IsSort (srt : (Row → Int) → List Row → List Row) : Prop where
  perm : ∀ k l, (srt k l).Perm l
  sorted : ∀ k l, (srt k l).Pairwise (fun a b => k a ≤ k b)

def lexFrom (srt : (Row → Int) → List Row → List Row) : Nat → Nat → List Row → List Row
  | 0, _, l => l
  | fuel + 1, j, l =>
    ((splitKey (fun r => r j) (srt (fun r => r j) l)).map (lexFrom srt fuel (j + 1))).flatten

/-- lexicographic ≤ on columns j … j+fuel-1 -/
def lexLE : Nat → Nat → Row → Row → Prop
  | 0, _, _, _ => True
  | fuel + 1, j, a, b => a j < b j ∨ (a j = b j ∧ lexLE fuel (j + 1) a b)

theorem lexFrom_perm {srt} (h : IsSort srt) : ∀ fuel j l, (lexFrom srt fuel j l).Perm l
  | 0, _, _ => List.Perm.refl _
  | fuel + 1, j, l => by
    unfold lexFrom
    have h1 : ∀ L : List (List Row), ((L.map (lexFrom srt fuel (j + 1))).flatten).Perm L.flatten := by
      intro L
      induction L with
      | nil => simp
      | cons g gs ih =>
        simp only [List.map_cons, List.flatten_cons]
        exact List.Perm.append (lexFrom_perm h fuel (j + 1) g) ih
    refine (h1 _).trans ?_
    rw [splitKey_flatten]
    exact h.perm _ _

theorem lexFrom_sorted {srt} (h : IsSort srt) : ∀ fuel j l,
    (lexFrom srt fuel j l).Pairwise (lexLE fuel j)
  | 0, _, l => by simp [lexFrom, lexLE, List.pairwise_iff_forall_sublist]
  | fuel + 1, j, l => by
    unfold lexFrom
    obtain ⟨hc, hg⟩ := splitKey_sorted (fun r : Row => r j) _ (h.sorted (fun r => r j) l)
    rw [List.pairwise_flatten]
    constructor
    · intro g' hg'
      obtain ⟨g, hgm, rfl⟩ := List.mem_map.mp hg'
      have hs := lexFrom_sorted h fuel (j + 1) g
      have hp := lexFrom_perm h fuel (j + 1) g
      refine hs.imp_of_mem ?_
      intro a b ha hb hab
      right
      exact ⟨hc g hgm a (hp.mem_iff.mp ha) b (hp.mem_iff.mp hb), hab⟩
    · rw [List.pairwise_map]
      refine hg.imp ?_
      intro g1 g2 h12 a ha b hb
      left
      exact h12 a ((lexFrom_perm h fuel (j + 1) g1).mem_iff.mp ha) b ((lexFrom_perm h fuel (j + 1) g2).mem_iff.mp hb)
end Fc
