/-
  FcProofs.Lemmas.LexsortSeg — the *segment form* of the fuzzy lexicographic sort and its two
  basic theorems (from the validated spike of DESIGN.md Appendix C, generalised to arbitrary items):

    segSort srt K fuel j l  =  sort l by column j, split after every adjacent pair with different
                               cluster key `K j`, recurse into every segment with column j+1.

  For EVERY family of sorting routines `srt j` that returns a permutation sorted w.r.t. the cluster
  keys (ties broken arbitrarily — numpy's unstable sort included) the result is a permutation of
  the input (`segSort_perm`) and lexicographically sorted by cluster keys (`segSort_sorted`).
-/
import Mathlib.Data.List.Sort
import Mathlib.Data.List.Flatten
import Mathlib.Data.List.Perm.Basic
import Mathlib.Tactic.Linarith

namespace Fc
variable {α : Type}

/-- split a list after every adjacent pair with different key -/
def splitKey (k : α → Int) : List α → List (List α)
  | [] => []
  | [a] => [[a]]
  | a :: b :: t =>
    match splitKey k (b :: t) with
    | [] => [[a]]
    | g :: gs => if k a = k b then (a :: g) :: gs else [a] :: g :: gs

theorem splitKey_flatten (k : α → Int) : ∀ l, (splitKey k l).flatten = l
  | [] => rfl
  | [a] => rfl
  | a :: b :: t => by
    have ih := splitKey_flatten k (b :: t)
    unfold splitKey
    split
    · rename_i h; rw [h] at ih; simp at ih
    · rename_i g gs h
      rw [h] at ih
      split <;> simp_all

/-- head of first group is head of list (first group nonempty and starts with `b`) -/
theorem splitKey_cons_head (k : α → Int) (b : α) (t : List α) :
    ∃ g gs, splitKey k (b :: t) = (b :: g) :: gs := by
  induction t generalizing b with
  | nil => exact ⟨[], [], rfl⟩
  | cons c t ih =>
    obtain ⟨g, gs, h⟩ := ih c
    unfold splitKey
    rw [h]
    by_cases hk : k b = k c
    · exact ⟨c :: g, gs, by simp [hk]⟩
    · exact ⟨[], (c :: g) :: gs, by simp [hk]⟩

/-- on a key-sorted list: every group has constant key, and groups are strictly increasing -/
theorem splitKey_sorted (k : α → Int) : ∀ l, l.Pairwise (fun a b => k a ≤ k b) →
    (∀ g ∈ splitKey k l, ∀ a ∈ g, ∀ b ∈ g, k a = k b) ∧
    (splitKey k l).Pairwise (fun g1 g2 => ∀ a ∈ g1, ∀ b ∈ g2, k a < k b)
  | [], _ => by simp [splitKey]
  | [a], _ => by simp [splitKey]
  | a :: b :: t, hs => by
    have hs' : (b :: t).Pairwise (fun a b => k a ≤ k b) := (List.pairwise_cons.mp hs).2
    have hab : ∀ x ∈ b :: t, k a ≤ k x := (List.pairwise_cons.mp hs).1
    have hbx : ∀ x ∈ b :: t, k b ≤ k x := by
      intro x hx
      rcases List.mem_cons.mp hx with rfl | hx
      · exact le_refl _
      · exact (List.pairwise_cons.mp hs').1 x hx
    obtain ⟨ih1, ih2⟩ := splitKey_sorted k (b :: t) hs'
    obtain ⟨g, gs, hg⟩ := splitKey_cons_head k b t
    have hfl := splitKey_flatten k (b :: t)
    rw [hg] at ih1 ih2 hfl
    have hmem : ∀ g' ∈ (b :: g) :: gs, ∀ x ∈ g', x ∈ b :: t := by
      intro g' hg' x hx
      rw [← hfl]; exact List.mem_flatten.mpr ⟨g', hg', hx⟩
    unfold splitKey
    rw [hg]
    by_cases hk : k a = k b
    · simp only [hk, if_true]
      constructor
      · intro g' hg' x hx y hy
        rcases List.mem_cons.mp hg' with rfl | hg'
        · have hb : ∀ z ∈ b :: g, k z = k b := fun z hz => ih1 _ (List.mem_cons_self ..) z hz b (List.mem_cons_self ..)
          have hx' : k x = k b := by
            rcases List.mem_cons.mp hx with rfl | hx
            · exact hk
            · exact hb _ hx
          have hy' : k y = k b := by
            rcases List.mem_cons.mp hy with rfl | hy
            · exact hk
            · exact hb _ hy
          rw [hx', hy']
        · exact ih1 g' (List.mem_cons_of_mem _ hg') x hx y hy
      · rw [List.pairwise_cons] at ih2 ⊢
        refine ⟨?_, ih2.2⟩
        intro g2 hg2 x hx y hy
        rcases List.mem_cons.mp hx with rfl | hx
        · rw [hk]; exact ih2.1 g2 hg2 b (List.mem_cons_self ..) y hy
        · exact ih2.1 g2 hg2 x hx y hy
    · simp only [hk, if_false]
      constructor
      · intro g' hg' x hx y hy
        rcases List.mem_cons.mp hg' with rfl | hg'
        · simp at hx hy; rw [hx, hy]
        · exact ih1 g' hg' x hx y hy
      · rw [List.pairwise_cons]
        refine ⟨?_, ih2⟩
        intro g2 hg2 x hx y hy
        simp at hx; subst hx
        have hy' : y ∈ b :: t := hmem g2 hg2 y hy
        have h1 : k x ≤ k b := hab b (List.mem_cons_self ..)
        have h2 : k b ≤ k y := hbx y hy'
        have h3 : k x ≠ k b := hk
        omega
end Fc

namespace Fc
variable {α : Type}

/-- every group produced by `splitKey` is non-empty -/
theorem splitKey_ne_nil (k : α → Int) : ∀ l, ∀ g ∈ splitKey k l, g ≠ []
  | [], g, hg => by simp [splitKey] at hg
  | [a], g, hg => by simp [splitKey] at hg; simp [hg]
  | a :: b :: t, g, hg => by
    have ih := splitKey_ne_nil k (b :: t)
    obtain ⟨h, hs, hh⟩ := splitKey_cons_head k b t
    unfold splitKey at hg
    rw [hh] at hg ih
    by_cases hk : k a = k b
    · simp only [hk, if_true] at hg
      rcases List.mem_cons.mp hg with rfl | hg
      · simp
      · exact ih g (List.mem_cons_of_mem _ hg)
    · simp only [hk, if_false] at hg
      rcases List.mem_cons.mp hg with rfl | hg
      · simp
      · exact ih g hg

/-- `srt j` sorts by column `j`: a permutation, sorted w.r.t. the cluster key `K j` on lists of
    items satisfying `P` (how ties are broken is left open) -/
structure IsSortOn (P : α → Prop) (srt : Nat → List α → List α) (K : Nat → α → Int) : Prop where
  perm : ∀ j l, (srt j l).Perm l
  sorted : ∀ j l, (∀ a ∈ l, P a) → (srt j l).Pairwise (fun a b => K j a ≤ K j b)

/-- segment form of the fuzzy lexsort over the columns `j, j+1, …, j+fuel-1` -/
def segSort (srt : Nat → List α → List α) (K : Nat → α → Int) : Nat → Nat → List α → List α
  | 0, _, l => l
  | fuel + 1, j, l =>
    ((splitKey (K j) (srt j l)).map (segSort srt K fuel (j + 1))).flatten

/-- lexicographic ≤ of the cluster keys of columns j … j+fuel-1 -/
def lexLE (K : Nat → α → Int) : Nat → Nat → α → α → Prop
  | 0, _, _, _ => True
  | fuel + 1, j, a, b => K j a < K j b ∨ (K j a = K j b ∧ lexLE K fuel (j + 1) a b)

theorem flatten_map_perm {f : List α → List α} (hf : ∀ g, (f g).Perm g) :
    ∀ L : List (List α), ((L.map f).flatten).Perm L.flatten
  | [] => by simp
  | g :: gs => by
    simp only [List.map_cons, List.flatten_cons]
    exact List.Perm.append (hf g) (flatten_map_perm hf gs)

theorem segSort_perm {P : α → Prop} {srt K} (h : IsSortOn P srt K) :
    ∀ fuel j (l : List α), (segSort srt K fuel j l).Perm l
  | 0, _, _ => List.Perm.refl _
  | fuel + 1, j, l => by
    unfold segSort
    refine (flatten_map_perm (fun g => segSort_perm h fuel (j + 1) g) _).trans ?_
    rw [splitKey_flatten]
    exact h.perm _ _

theorem segSort_sorted {P : α → Prop} {srt K} (h : IsSortOn P srt K) :
    ∀ fuel j (l : List α), (∀ a ∈ l, P a) → (segSort srt K fuel j l).Pairwise (lexLE K fuel j)
  | 0, _, l, _ => by simp [segSort, lexLE, List.pairwise_iff_forall_sublist]
  | fuel + 1, j, l, hP => by
    unfold segSort
    obtain ⟨hc, hg⟩ := splitKey_sorted (K j) _ (h.sorted j l hP)
    have hmemP : ∀ g ∈ splitKey (K j) (srt j l), ∀ a ∈ g, P a := by
      intro g hgm a ha
      have : a ∈ (splitKey (K j) (srt j l)).flatten := List.mem_flatten.mpr ⟨g, hgm, ha⟩
      rw [splitKey_flatten] at this
      exact hP a ((h.perm j l).mem_iff.mp this)
    rw [List.pairwise_flatten]
    constructor
    · intro g' hg'
      obtain ⟨g, hgm, rfl⟩ := List.mem_map.mp hg'
      have hs := segSort_sorted h fuel (j + 1) g (hmemP g hgm)
      have hp := segSort_perm h fuel (j + 1) g
      refine hs.imp_of_mem ?_
      intro a b ha hb hab
      right
      exact ⟨hc g hgm a (hp.mem_iff.mp ha) b (hp.mem_iff.mp hb), hab⟩
    · rw [List.pairwise_map]
      refine hg.imp ?_
      intro g1 g2 h12 a ha b hb
      left
      exact h12 a ((segSort_perm h fuel (j + 1) g1).mem_iff.mp ha) b
        ((segSort_perm h fuel (j + 1) g2).mem_iff.mp hb)

end Fc
