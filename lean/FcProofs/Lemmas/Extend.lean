/-
  FcProofs.Lemmas.Extend — `extend_space_dimension_to` (model, list-structured: rows with zeros
  appended) computes the entry-by-entry specification `Spec.extendSpec` (index arithmetic).
-/
import FcProofs.Lemmas.Permuted
namespace Fc
open Spec

/-- concatenating `n` chunks of `k` entries = one list indexed by `(idx / k, idx % k)` -/
theorem range_flatMap_map {β} (n k : Nat) (F : Nat → Nat → β) :
    (List.range n).flatMap (fun i => (List.range k).map (F i)) =
    (List.range (n * k)).map (fun idx => F (idx / k) (idx % k)) := by
  rcases Nat.eq_zero_or_pos k with rfl | hk
  · simp
  induction n with
  | zero => simp
  | succ n ih =>
    rw [List.range_succ, List.flatMap_append, ih, Nat.succ_mul, List.range_add, List.map_append,
      List.flatMap_singleton, List.map_map]
    congr 1
    apply List.map_congr_left
    intro j hj
    have hj' : j < k := List.mem_range.mp hj
    simp only [Function.comp]
    have e1 : (n * k + j) / k = n := by
      rw [Nat.mul_comm, Nat.mul_add_div hk, Nat.div_eq_of_lt hj']; simp
    have e2 : (n * k + j) % k = j := by
      rw [Nat.mul_comm, Nat.mul_add_mod, Nat.mod_eq_of_lt hj']
    rw [e1, e2]

/-- appending zeros, entry by entry -/
theorem append_zeros (l : List Int) (m sd : Nat) (hl : l.length = m) (hm : m ≤ sd) :
    l ++ zeros (sd - m) = (List.range sd).map (fun c => if c < m then l.getD c 0 else 0) := by
  apply List.ext_getElem
  · simp [zeros, hl]; omega
  · intro i h1 h2
    simp only [List.getElem_map, List.getElem_range]
    rw [List.getElem_append]
    by_cases hi : i < m
    · have : i < l.length := by omega
      simp [hi, this]
    · have : ¬ i < l.length := by omega
      simp [hi, this, zeros]

theorem row_getD (a : NdArr) (i c : Nat) (hc : c < a.rowSize) :
    (a.row i).getD c 0 = a.data.getD (i * a.rowSize + c) 0 := by
  unfold NdArr.row
  simp only [List.getD_eq_getElem?_getD, List.getElem?_take, List.getElem?_drop, hc, if_true]

theorem rowSize_vec (a : NdArr) {n k : Nat} (hs : a.shape = [n, k]) : a.rowSize = k := by
  simp [NdArr.rowSize, hs, prodList]

theorem rowSize_ten (a : NdArr) {n k1 k2 : Nat} (hs : a.shape = [n, k1, k2]) : a.rowSize = k1 * k2 := by
  simp [NdArr.rowSize, hs, prodList]

/-- vector field of `msd` components: the model's padded data is the specification's -/
theorem vector_data_eq (a : NdArr) (n msd sd : Nat) (hs : a.shape = [n, msd]) (ha : a.hasRows n)
    (hm : msd ≤ sd) :
    ((List.range n).flatMap fun i => resizeVectorRow msd sd msd (a.row i)) =
    padVectorData n msd sd a.data := by
  have hrs := rowSize_vec a hs
  unfold padVectorData
  rw [← range_flatMap_map n sd (fun i c => if c < msd then a.data.getD (i * msd + c) 0 else 0)]
  apply List.flatMap_congr
  intro i hi
  have hlen : (a.row i).length = msd := by
    rw [NdArr.row_length ha (List.mem_range.mp hi), hrs]
  unfold resizeVectorRow
  simp only [if_true]
  rw [append_zeros _ msd sd hlen hm]
  apply List.map_congr_left
  intro c _
  by_cases hc : c < msd
  · simp only [hc, if_true]
    rw [row_getD a i c (by rw [hrs]; exact hc), hrs]
  · simp [hc]

/-- one tensor row -/
theorem tensor_row_eq (row : List Int) (msd sd : Nat) (hlen : row.length = msd * msd) (hm : msd ≤ sd) :
    resizeTensorRow msd sd msd msd row =
    (List.range (sd * sd)).map (fun q =>
      if q / sd < msd ∧ q % sd < msd then row.getD (q / sd * msd + q % sd) 0 else 0) := by
  unfold resizeTensorRow
  simp only [and_self, if_true]
  rcases Nat.eq_zero_or_pos sd with rfl | hsd
  · have : msd = 0 := by omega
    subst this
    simp [matRows, zeros]
  have hsplit : sd * sd = msd * sd + (sd - msd) * sd := by
    rw [← Nat.add_mul]; congr 1; omega
  rw [hsplit, List.range_add, List.map_append]
  congr 1
  · -- the `msd` padded matrix rows
    unfold matRows
    rw [List.flatMap_map]
    rw [← range_flatMap_map msd sd (fun r c =>
      if r < msd ∧ c < msd then row.getD (r * msd + c) 0 else 0)]
    apply List.flatMap_congr
    intro r hr
    have hr' : r < msd := List.mem_range.mp hr
    have hl : ((row.drop (r * msd)).take msd).length = msd := by
      simp only [List.length_take, List.length_drop, hlen]
      have : (r + 1) * msd ≤ msd * msd := Nat.mul_le_mul_right _ hr'
      rw [Nat.succ_mul] at this
      omega
    rw [append_zeros _ msd sd hl hm]
    apply List.map_congr_left
    intro c _
    by_cases hc : c < msd
    · simp only [hc, hr', and_self, if_true]
      simp only [List.getD_eq_getElem?_getD, List.getElem?_take, List.getElem?_drop, hc, if_true]
    · simp [hc]
  · -- the zero rows
    rw [List.map_map]
    unfold zeros
    apply List.ext_getElem
    · simp
    · intro j h1 h2
      simp only [List.getElem_replicate, List.getElem_map, List.getElem_range, Function.comp]
      have : ¬ (msd * sd + j) / sd < msd := by
        rw [Nat.div_lt_iff_lt_mul hsd]; omega
      simp [this]

/-- tensor field of `msd × msd` components -/
theorem tensor_data_eq (a : NdArr) (n msd sd : Nat) (hs : a.shape = [n, msd, msd]) (ha : a.hasRows n)
    (hm : msd ≤ sd) :
    ((List.range n).flatMap fun i => resizeTensorRow msd sd msd msd (a.row i)) =
    padTensorData n msd sd a.data := by
  have hrs := rowSize_ten a hs
  unfold padTensorData
  have hspec : (List.range (n * (sd * sd))).map (fun idx =>
        let i := idx / (sd * sd)
        let r := idx % (sd * sd) / sd
        let c := idx % sd
        if r < msd ∧ c < msd then a.data.getD (i * (msd * msd) + r * msd + c) 0 else 0) =
      (List.range (n * (sd * sd))).map (fun idx => (fun i q =>
        if q / sd < msd ∧ q % sd < msd then a.data.getD (i * (msd * msd) + q / sd * msd + q % sd) 0 else 0)
        (idx / (sd * sd)) (idx % (sd * sd))) := by
    apply List.map_congr_left
    intro idx _
    simp only [Nat.mod_mul_left_mod]
  rw [hspec, ← range_flatMap_map n (sd * sd) (fun i q =>
    if q / sd < msd ∧ q % sd < msd then a.data.getD (i * (msd * msd) + q / sd * msd + q % sd) 0 else 0)]
  · apply List.flatMap_congr
    intro i hi
    have hlen : (a.row i).length = msd * msd := by
      rw [NdArr.row_length ha (List.mem_range.mp hi), hrs]
    rw [tensor_row_eq _ msd sd hlen hm]
    apply List.map_congr_left
    intro q _
    by_cases hq : q / sd < msd ∧ q % sd < msd
    · simp only [hq, and_self, if_true]
      have hlt : q / sd * msd + q % sd < a.rowSize := by
        rw [hrs]
        have : (q / sd + 1) * msd ≤ msd * msd := Nat.mul_le_mul_right _ hq.1
        rw [Nat.succ_mul] at this
        omega
      rw [row_getD a i _ hlt, hrs, Nat.add_assoc]
    · simp [hq]

end Fc

namespace Fc
open Spec

/-- no tensor field has an axis of length 1 that numpy would silently broadcast into the
    `msd × msd` block (see NOTES_C08, "N-bcast") -/
def NoUnitAxis (msd sd : Nat) (a : NdArr) : Prop :=
  ∀ n k1 k2, a.shape = [n, k1, k2] → k1 < sd → k2 < sd →
    bcastOk k1 msd = true → bcastOk k2 msd = true → k1 = msd ∧ k2 = msd

theorem optAll_eq_allSome {α} (l : List (Option α)) : optAll l = allSome l := by
  induction l with
  | nil => rfl
  | cons x t ih =>
    cases x with
    | none => rfl
    | some a =>
      simp only [optAll, allSome, ih]
      cases allSome t <;> rfl

theorem resizedField_eq_padField (a : NdArr) (n0 : Nat) (ha : a.hasRows n0) (msd sd : Nat)
    (hlt : msd < sd) (hnu : NoUnitAxis msd sd a) :
    resizedField msd sd a = padField msd sd a := by
  have hhead := ha.1
  rcases hs : a.shape with _ | ⟨n, _ | ⟨k, _ | ⟨k2, _ | ⟨k3, rest⟩⟩⟩⟩
  · rw [hs] at hhead; simp at hhead
  · simp [resizedField, fieldKind, padField, hs]
  · -- (n, k)
    have hn : n = n0 := by rw [hs] at hhead; simpa using hhead
    subst hn
    by_cases hk1 : k = 1
    · simp [resizedField, fieldKind, padField, hs, hk1]
    · simp only [resizedField, fieldKind, hs, hk1, if_false, resizedVector, padField]
      by_cases hk : k < sd
      · simp only [hk, if_true]
        by_cases hkm : k = msd
        · subst hkm
          simp only [bcastOk, beq_self_eq_true, Bool.true_or, if_true]
          rw [vector_data_eq a n k sd hs ha (by omega)]
        · have : bcastOk k msd = false := by simp [bcastOk, hkm, hk1]
          have h2 : ¬ sd ≤ k := by omega
          simp [this, hkm, h2]
      · have hkm : k ≠ msd := by omega
        have h2 : sd ≤ k := by omega
        simp [hk, hkm, h2]
  · -- (n, k, k2)
    have hn : n = n0 := by rw [hs] at hhead; simpa using hhead
    subst hn
    simp only [resizedField, fieldKind, hs, resizedTensor, padField]
    by_cases hk : k < sd ∧ k2 < sd
    · simp only [hk, and_self, if_true]
      by_cases hb : (bcastOk k msd && bcastOk k2 msd) = true
      · have hb' := Bool.and_eq_true_iff.mp hb
        obtain ⟨e1, e2⟩ := hnu n k k2 hs hk.1 hk.2 hb'.1 hb'.2
        simp only [e1, e2] at hs hb ⊢
        simp only [hb, if_true, and_self]
        rw [tensor_data_eq a n msd sd hs ha (by omega)]
      · have hne : ¬ (k = msd ∧ k2 = msd) := by
          rintro ⟨rfl, rfl⟩
          simp [bcastOk] at hb
        have h2 : ¬ (sd ≤ k ∨ sd ≤ k2) := by omega
        simp [hb, hne, h2]
    · have hne : ¬ (k = msd ∧ k2 = msd) := by
        rintro ⟨rfl, rfl⟩; omega
      have h2 : sd ≤ k ∨ sd ≤ k2 := by omega
      simp [hk, hne, h2]
  · simp [resizedField, fieldKind, padField, hs]

/-- **model = specification** for `extend_space_dimension_to`, for every target dimension -/
theorem extend_eq_spec (f : MeshFields) (h : WFP f) (sd : Nat)
    (hp : ∀ pf ∈ f.pointFields, NoUnitAxis f.mesh.dim sd pf.values)
    (hc : ∀ cf ∈ f.cellFields, NoUnitAxis f.mesh.dim sd cf.values) :
    extendSpaceDim sd f = extendSpec sd f := by
  unfold extendSpaceDim extendSpec
  simp only
  by_cases h1 : sd = f.mesh.dim
  · simp [h1]
  by_cases h2 : sd < f.mesh.dim
  · simp [h1, h2]
  have hlt : f.mesh.dim < sd := by omega
  simp only [h1, h2, if_false]
  have epf : (f.pointFields.map fun pf =>
      (resizedField f.mesh.dim sd pf.values).map fun v => PointField.mk pf.name v) =
      (f.pointFields.map fun pf => (padField f.mesh.dim sd pf.values).map (PointField.mk pf.name ·)) := by
    apply List.map_congr_left
    intro pf hpf
    rw [resizedField_eq_padField pf.values _ (h.pf pf hpf) _ _ hlt (hp pf hpf)]
  have ecf : (f.cellFields.map fun cf =>
      (resizedField f.mesh.dim sd cf.values).map fun v => CellField.mk cf.name cf.ctype v) =
      (f.cellFields.map fun cf => (padField f.mesh.dim sd cf.values).map (CellField.mk cf.name cf.ctype ·)) := by
    apply List.map_congr_left
    intro cf hcf
    rw [resizedField_eq_padField cf.values _ (h.cf cf hcf) _ _ hlt (hc cf hcf)]
  have epts : (f.mesh.points.map fun p => p ++ zeros (sd - f.mesh.dim)) =
      f.mesh.points.map (padCoords f.mesh.dim sd) := by
    apply List.map_congr_left
    intro p hp'
    exact append_zeros p _ sd (h.rows p hp') (by omega)
  rw [epf, ecf, epts, optAll_eq_allSome, optAll_eq_allSome]
  generalize allSome (f.pointFields.map _) = x
  generalize allSome (f.cellFields.map _) = y
  cases x <;> cases y <;> rfl

end Fc

namespace Fc
open Spec

/-- the shape of every non-trivial result of `extendSpaceDim` -/
theorem extend_some {f f' : MeshFields} {sd : Nat} (h : extendSpaceDim sd f = some f')
    (hne : sd ≠ f.mesh.dim) :
    f.mesh.dim < sd ∧
    f'.mesh = ⟨sd, f.mesh.points.map fun p => p ++ zeros (sd - f.mesh.dim), f.mesh.cells⟩ ∧
    (f.pointFields.map fun pf =>
      (resizedField f.mesh.dim sd pf.values).map fun v => PointField.mk pf.name v) = f'.pointFields.map some ∧
    (f.cellFields.map fun cf =>
      (resizedField f.mesh.dim sd cf.values).map fun v => CellField.mk cf.name cf.ctype v) = f'.cellFields.map some := by
  unfold extendSpaceDim at h
  simp only [hne, if_false] at h
  by_cases h2 : sd < f.mesh.dim
  · simp [h2] at h
  simp only [h2, if_false] at h
  cases hp : optAll (f.pointFields.map fun pf =>
      (resizedField f.mesh.dim sd pf.values).map fun v => PointField.mk pf.name v) with
  | none => simp [hp] at h
  | some pfs =>
    cases hc : optAll (f.cellFields.map fun cf =>
        (resizedField f.mesh.dim sd cf.values).map fun v => CellField.mk cf.name cf.ctype v) with
    | none => simp [hp, hc] at h
    | some cfs =>
      simp only [hp, hc, Option.some.injEq] at h
      subst h
      exact ⟨by omega, rfl, optAll_eq_some _ _ hp, optAll_eq_some _ _ hc⟩

theorem resizedField_scalar (msd sd : Nat) (a : NdArr) (h : fieldKind a.shape = .scalar) :
    resizedField msd sd a = some a := by
  unfold resizedField
  rw [h]

end Fc
