/-
  FcProofs.Lemmas.Shapes — `_reshape` + `_check_shapes` decide `shapesCompatible`.
-/
import FcModel.Spec.Predicates
namespace Fc
open Spec

theorem append_one_ne_self (s : List Nat) : s ++ [1] ≠ s := by
  intro h
  have := congrArg List.length h
  simp at this

theorem shapesCompatible_iff (s1 s2 : List Nat) :
    shapesCompatible s1 s2 = true ↔ (s1 = s2 ∨ s1 = s2 ++ [1] ∨ s2 = s1 ++ [1]) := by
  unfold shapesCompatible
  simp [Bool.or_eq_true, beq_iff_eq, or_assoc]

/-- the two reshaped shapes are equal exactly for compatible shapes, and then they are the
    longer of the two input shapes -/
theorem reshapePair_spec (s1 s2 : List Nat) :
    ((reshapePair s1 s2).1 = (reshapePair s1 s2).2 ↔ shapesCompatible s1 s2 = true) ∧
    ((reshapePair s1 s2).1 = (reshapePair s1 s2).2 →
      (reshapePair s1 s2).1 = (if s1.length ≥ s2.length then s1 else s2)) := by
  rw [shapesCompatible_iff]
  unfold reshapePair
  simp only
  by_cases c1 : s1.length = s2.length + 1 ∧ s1.getLast? = some 1
  · -- first reshape fires: second array gets a trailing 1
    have hlen : ¬ ((s2 ++ [1]).length = s1.length + 1 ∧ (s2 ++ [1]).getLast? = some 1) := by
      simp; omega
    rw [if_pos c1, if_neg hlen]
    constructor
    · constructor
      · intro h; exact Or.inr (Or.inl h)
      · rintro (h | h | h)
        · exfalso; have := congrArg List.length h; omega
        · exact h
        · exfalso; have := congrArg List.length h; simp at this; omega
    · intro _
      have : s1.length ≥ s2.length := by omega
      rw [if_pos this]
  · rw [if_neg c1]
    by_cases c2 : s2.length = s1.length + 1 ∧ s2.getLast? = some 1
    · rw [if_pos c2]
      constructor
      · constructor
        · intro h; exact Or.inr (Or.inr h.symm)
        · rintro (h | h | h)
          · exfalso; have := congrArg List.length h; omega
          · exfalso; have := congrArg List.length h; simp at this; omega
          · exact h.symm
      · intro h
        have : ¬ s1.length ≥ s2.length := by omega
        rw [if_neg this]; exact h
    · rw [if_neg c2]
      constructor
      · constructor
        · intro h; exact Or.inl h
        · rintro (h | h | h)
          · exact h
          · exfalso; apply c1; subst h; simp
          · exfalso; apply c2; subst h; simp
      · intro h
        subst h; simp

end Fc
