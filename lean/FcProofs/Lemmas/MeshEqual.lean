/-
  FcProofs.Lemmas.MeshEqual — helper lemmas for C03 / C16:
  sorted corner rows, `ExactEquality` on corner arrays, `FuzzyEquality` on point arrays,
  flat indexing of row-major arrays, the cell-type set logic of `mesh_equal`.
-/
import FcProofs.Props.C01
import FcModel.Spec.C16
import Mathlib.Data.List.Forall2
namespace Fc.C03
open Fc Fc.Spec

/-! ### `sortRow` sorts: permutation, sorted, canonical -/

theorem insertNat_perm (a : Nat) (l : List Nat) : (insertNat a l).Perm (a :: l) := by
  induction l with
  | nil => exact List.Perm.refl _
  | cons b l ih =>
    unfold insertNat
    by_cases h : a ≤ b
    · rw [if_pos h]
    · rw [if_neg h]
      exact (List.Perm.cons b ih).trans (List.Perm.swap a b l)

theorem sortRow_perm (l : List Nat) : (sortRow l).Perm l := by
  induction l with
  | nil => exact List.Perm.refl _
  | cons a l ih =>
    unfold sortRow
    exact (insertNat_perm a (sortRow l)).trans (List.Perm.cons a ih)

theorem sortRow_length (l : List Nat) : (sortRow l).length = l.length :=
  (sortRow_perm l).length_eq

theorem insertNat_sorted (a : Nat) (l : List Nat) (h : l.Pairwise (· ≤ ·)) :
    (insertNat a l).Pairwise (· ≤ ·) := by
  induction l with
  | nil => simp [insertNat]
  | cons b l ih =>
    unfold insertNat
    by_cases hab : a ≤ b
    · rw [if_pos hab]
      rw [List.pairwise_cons] at h ⊢
      refine ⟨?_, List.pairwise_cons.mpr h⟩
      intro x hx
      rcases List.mem_cons.mp hx with rfl | hx
      · exact hab
      · exact Nat.le_trans hab (h.1 x hx)
    · rw [if_neg hab]
      rw [List.pairwise_cons] at h ⊢
      refine ⟨?_, ih h.2⟩
      intro x hx
      have hx' := (insertNat_perm a l).subset hx
      rcases List.mem_cons.mp hx' with rfl | hx'
      · omega
      · exact h.1 x hx'

theorem sortRow_sorted (l : List Nat) : (sortRow l).Pairwise (· ≤ ·) := by
  induction l with
  | nil => simp [sortRow]
  | cons a l ih => unfold sortRow; exact insertNat_sorted a _ ih

/-- two rows have the same sorted form iff they are permutations of each other (same corner multiset) -/
theorem sortRow_eq_iff (a b : List Nat) : sortRow a = sortRow b ↔ a.Perm b := by
  constructor
  · intro h
    exact (sortRow_perm a).symm.trans (h ▸ sortRow_perm b)
  · intro h
    have hp : (sortRow a).Perm (sortRow b) := (sortRow_perm a).trans (h.trans (sortRow_perm b).symm)
    exact List.Perm.eq_of_pairwise (le := (· ≤ ·)) (fun x y _ _ h1 h2 => Nat.le_antisymm h1 h2)
      (sortRow_sorted a) (sortRow_sorted b) hp


/-! ### uniform rows, flatten -/

/-- all rows have the length of the first row (a rectangular numpy array) -/
def Uniform {α} (rows : List (List α)) : Prop :=
  ∀ r ∈ rows, r.length = (rows.head?.map List.length).getD 0

theorem flatten_inj_of_length {α} (w : Nat) :
    ∀ (a b : List (List α)), (∀ r ∈ a, r.length = w) → (∀ r ∈ b, r.length = w) → a.length = b.length →
      a.flatten = b.flatten → a = b := by
  intro a
  induction a with
  | nil =>
    intro b _ _ hl _
    cases b with
    | nil => rfl
    | cons => simp at hl
  | cons r a ih =>
    intro b ha hb hl hf
    cases b with
    | nil => simp at hl
    | cons s b =>
      simp only [List.flatten_cons] at hf
      have hr : r.length = w := ha r (List.mem_cons_self)
      have hs : s.length = w := hb s (List.mem_cons_self)
      have := List.append_inj hf (by omega)
      obtain ⟨h1, h2⟩ := this
      subst h1
      congr 1
      exact ih b (fun x hx => ha x (List.mem_cons_of_mem _ hx)) (fun x hx => hb x (List.mem_cons_of_mem _ hx))
        (by simpa using hl) h2

theorem uniform_width {α} (rows : List (List α)) (h : Uniform rows) :
    ∀ r ∈ rows, r.length = (rows.head?.map List.length).getD 0 := h

theorem map_ofNat_inj : ∀ (x y : List Nat), x.map Int.ofNat = y.map Int.ofNat → x = y := by
  intro x y h
  exact List.map_injective_iff.mpr (fun a b hab => Int.ofNat.inj hab) h

theorem reshapePair_same_length (s1 s2 : List Nat) (h : s1.length = s2.length) :
    reshapePair s1 s2 = (s1, s2) := by
  unfold reshapePair
  simp only
  have c1 : ¬ (s1.length = s2.length + 1 ∧ s1.getLast? = some 1) := by omega
  rw [if_neg c1]
  have c2 : ¬ (s2.length = s1.length + 1 ∧ s2.getLast? = some 1) := by omega
  rw [if_neg c2]

/-- `ExactEquality` on two corner arrays with the same number of rows decides equality of the row lists -/
theorem exactCheck_cornerArr (a b : List (List Nat)) (ha : Uniform a) (hb : Uniform b)
    (hl : a.length = b.length) :
    exactCheck (cornerArr a) (cornerArr b) = .ok (decide (a = b)) := by
  unfold exactCheck cornerArr
  rw [reshapePair_same_length _ _ (by simp)]
  simp only
  by_cases hs : [a.length, (a.head?.map List.length).getD 0] = [b.length, (b.head?.map List.length).getD 0]
  · have hw : (a.head?.map List.length).getD 0 = (b.head?.map List.length).getD 0 := by
      simpa [hl] using hs
    simp only [ne_eq, hs, not_true_eq_false, if_false]
    congr 1
    by_cases hab : a = b
    · subst hab; simp
    · simp only [hab, decide_false]
      rw [beq_eq_false_iff_ne]
      intro hd
      apply hab
      have hf := map_ofNat_inj _ _ hd
      exact flatten_inj_of_length _ a b ha (fun r hr => (hb r hr).trans hw.symm) hl hf
  · simp only [ne_eq, hs, not_false_eq_true, if_true]
    congr 1
    have hab : a ≠ b := by
      intro hab; subst hab; exact hs rfl
    simp [hab]


/-! ### `FuzzyEquality(rel, abs)` with two numbers on float64 arrays of the same rank -/

/-- every pair of entries satisfies the documented formula (index form, as `allFuzzy`) -/
def fuzzyList (rel abs : Nat) (x y : List Int) : Bool :=
  (List.range x.length).all fun i => docFormula f64 (x.getD i 0) (y.getD i 0) rel abs

theorem fuzzyCheck_num_f64 (rel abs : Nat) (s s' : List Nat) (x y : List Int) (hl : s.length = s'.length) :
    fuzzyCheck (.num rel) (.num abs) ⟨.flt f64, s, x⟩ ⟨.flt f64, s', y⟩ =
      .ok (decide (s = s') && fuzzyList rel abs x y) := by
  unfold fuzzyCheck
  rw [reshapePair_same_length _ _ hl]
  simp only
  by_cases hs : s = s'
  · subst hs
    simp only [ne_eq, not_true_eq_false, if_false, resolveTol, findFuzzy, tolShapeOk, and_self, if_true,
      decide_true, Bool.true_and]
    rw [allFuzzy_f64]
    rfl
  · simp [hs]


/-! ### row-major flat indexing -/

theorem flatten_length_of_width {α} (d : Nat) : ∀ (rows : List (List α)), (∀ r ∈ rows, r.length = d) →
    rows.flatten.length = rows.length * d := by
  intro rows
  induction rows with
  | nil => intro _; simp
  | cons r rs ih =>
    intro h
    simp only [List.flatten_cons, List.length_append, List.length_cons]
    rw [ih (fun x hx => h x (List.mem_cons_of_mem _ hx)), h r List.mem_cons_self]
    rw [Nat.add_mul]; omega

theorem flatten_getD_of_width (d : Nat) : ∀ (rows : List (List Int)) (i j : Nat), (∀ r ∈ rows, r.length = d) →
    j < d → rows.flatten.getD (i * d + j) 0 = (rows.getD i []).getD j 0 := by
  intro rows
  induction rows with
  | nil => intro i j _ _; simp
  | cons r rs ih =>
    intro i j h hj
    have hr : r.length = d := h r List.mem_cons_self
    cases i with
    | zero =>
      simp only [Nat.zero_mul, Nat.zero_add, List.flatten_cons, List.getD_cons_zero]
      rw [List.getD_eq_getElem?_getD, List.getD_eq_getElem?_getD, List.getElem?_append_left (by omega)]
    | succ i =>
      simp only [List.flatten_cons, List.getD_cons_succ]
      rw [← ih i j (fun x hx => h x (List.mem_cons_of_mem _ hx)) hj]
      rw [List.getD_eq_getElem?_getD, List.getD_eq_getElem?_getD, List.getElem?_append_right (by rw [hr, Nat.add_mul]; omega)]
      congr 2
      rw [hr, Nat.add_mul]; omega

/-- entry-wise statement over the (point, coordinate) index pairs = flat statement over the data -/
theorem fuzzyList_flatten (rel abs : Nat) (d : Nat) (P Q : List (List Int))
    (hP : ∀ r ∈ P, r.length = d) (hQ : ∀ r ∈ Q, r.length = d) :
    fuzzyList rel abs P.flatten Q.flatten =
      (List.range P.length).all fun i => (List.range d).all fun j =>
        docFormula f64 ((P.getD i []).getD j 0) ((Q.getD i []).getD j 0) rel abs := by
  rw [Bool.eq_iff_iff]
  unfold fuzzyList
  simp only [List.all_eq_true, List.mem_range]
  rw [flatten_length_of_width d P hP]
  constructor
  · intro h i hi j hj
    have := h (i * d + j) (by
      calc i * d + j < i * d + d := by omega
        _ = (i + 1) * d := by rw [Nat.add_mul]; omega
        _ ≤ P.length * d := Nat.mul_le_mul_right d hi)
    rw [flatten_getD_of_width d P i j hP hj, flatten_getD_of_width d Q i j hQ hj] at this
    exact this
  · intro h k hk
    have hd : 0 < d := by
      rcases Nat.eq_zero_or_pos d with h0 | h0
      · subst h0; simp at hk
      · exact h0
    have hi : k / d < P.length := (Nat.div_lt_iff_lt_mul hd).mpr hk
    have hj : k % d < d := Nat.mod_lt _ hd
    have := h (k / d) hi (k % d) hj
    rw [← flatten_getD_of_width d P _ _ hP hj, ← flatten_getD_of_width d Q _ _ hQ hj] at this
    have hk' : k / d * d + k % d = k := by rw [Nat.mul_comm]; exact Nat.div_add_mod k d
    rw [hk'] at this
    exact this


/-! ### facts about the REGENERATED compatibility table (re-checked by `decide` on every build) -/

theorem compatPairs_symm : ∀ p ∈ Gen.C16.compatPairs, (p.2, p.1) ∈ Gen.C16.compatPairs := by decide

theorem compatPairs_functional :
    ∀ p ∈ Gen.C16.compatPairs, ∀ q ∈ Gen.C16.compatPairs, p.1 = q.1 → p.2 = q.2 := by decide

theorem compatible_iff (a b : String) : compatible a b = true ↔ (a = b ∨ (a, b) ∈ Gen.C16.compatPairs) := by
  unfold compatible
  simp [Bool.or_eq_true]

theorem compatible_refl (a : String) : compatible a a = true := by
  rw [compatible_iff]; exact Or.inl rfl

theorem compatible_symm (a b : String) : compatible a b = compatible b a := by
  rw [Bool.eq_iff_iff, compatible_iff, compatible_iff]
  constructor
  · rintro (h | h)
    · exact Or.inl h.symm
    · exact Or.inr (compatPairs_symm _ h)
  · rintro (h | h)
    · exact Or.inl h.symm
    · exact Or.inr (compatPairs_symm _ h)

/-- a type has at most one compatible partner besides itself -/
theorem compatible_unique (c t t' : String) (h1 : compatible c t = true) (h2 : compatible c t' = true)
    (n1 : c ≠ t) (n2 : c ≠ t') : t = t' := by
  rw [compatible_iff] at h1 h2
  rcases h1 with h1 | h1
  · exact absurd h1 n1
  rcases h2 with h2 | h2
  · exact absurd h2 n2
  exact compatPairs_functional _ h1 _ h2 rfl

/-! ### the cell-type set logic -/

theorem mem_toRemove (so tb : List String) (c : String) :
    c ∈ (so.flatMap fun c1 => tb.flatMap fun c2 => if compatible c1 c2 then [c1, c2] else []) ↔
      ∃ c1 ∈ so, ∃ c2 ∈ tb, compatible c1 c2 = true ∧ (c = c1 ∨ c = c2) := by
  simp only [List.mem_flatMap]
  constructor
  · rintro ⟨c1, h1, c2, h2, h⟩
    by_cases hc : compatible c1 c2 = true
    · rw [if_pos hc] at h
      simp at h
      exact ⟨c1, h1, c2, h2, hc, h⟩
    · rw [if_neg hc] at h
      simp at h
  · rintro ⟨c1, h1, c2, h2, hc, h⟩
    refine ⟨c1, h1, c2, h2, ?_⟩
    rw [if_pos hc]
    simpa using h

theorem withoutCompatibles_nil (so tb : List String) :
    (withoutCompatibles so tb).length = 0 ↔
      ∀ c, (c ∈ so ∨ c ∈ tb) → ∃ c1 ∈ so, ∃ c2 ∈ tb, compatible c1 c2 = true ∧ (c = c1 ∨ c = c2) := by
  unfold withoutCompatibles
  rw [List.length_eq_zero_iff, List.filter_eq_nil_iff]
  constructor
  · intro h c hc
    have := h c (List.mem_append.mpr hc)
    rw [← mem_toRemove]
    by_contra hn
    apply this
    simp only [Bool.not_eq_true', List.contains_eq_mem, decide_eq_false_iff_not]
    exact hn
  · intro h c hc
    have := (mem_toRemove so tb c).mpr (h c (List.mem_append.mp hc))
    simp only [Bool.not_eq_true', List.contains_eq_mem, decide_eq_false_iff_not, not_not]
    exact this

theorem typesSpec_iff (sa sb : List String) :
    typesSpec sa sb = true ↔
      (∀ c ∈ sa, c ∈ sb ∨ ∃ t ∈ sb, t ∉ sa ∧ compatible c t = true) ∧
      (∀ t ∈ sb, t ∈ sa ∨ ∃ c ∈ sa, c ∉ sb ∧ compatible c t = true) := by
  unfold typesSpec
  simp only [Bool.and_eq_true, List.all_eq_true, Bool.or_eq_true, List.any_eq_true,
    List.contains_eq_mem, decide_eq_true_eq, Bool.not_eq_true', decide_eq_false_iff_not]

/-- `_without_compatibles(source_only, target_only)` is empty exactly when the type sets agree up
    to compatible pairs in both directions -/
theorem withoutCompatibles_empty_iff (sa sb : List String) :
    (withoutCompatibles (sa.filter fun c => !sb.contains c) (sb.filter fun c => !sa.contains c)).length = 0 ↔
      typesSpec sa sb = true := by
  rw [withoutCompatibles_nil, typesSpec_iff]
  have memA : ∀ c, c ∈ sa.filter (fun c => !sb.contains c) ↔ c ∈ sa ∧ c ∉ sb := by
    intro c; simp [List.mem_filter]
  have memB : ∀ c, c ∈ sb.filter (fun c => !sa.contains c) ↔ c ∈ sb ∧ c ∉ sa := by
    intro c; simp [List.mem_filter]
  simp only [memA, memB]
  constructor
  · intro h
    constructor
    · intro c hc
      by_cases hcb : c ∈ sb
      · exact Or.inl hcb
      · right
        obtain ⟨c1, ⟨h1, h1'⟩, c2, ⟨h2, h2'⟩, hcomp, hor⟩ := h c (Or.inl ⟨hc, hcb⟩)
        rcases hor with rfl | rfl
        · exact ⟨c2, h2, h2', hcomp⟩
        · exact absurd hc h2'
    · intro t ht
      by_cases hta : t ∈ sa
      · exact Or.inl hta
      · right
        obtain ⟨c1, ⟨h1, h1'⟩, c2, ⟨h2, h2'⟩, hcomp, hor⟩ := h t (Or.inr ⟨ht, hta⟩)
        rcases hor with rfl | rfl
        · exact absurd ht h1'
        · exact ⟨c1, h1, h1', hcomp⟩
  · rintro ⟨hA, hB⟩ c hc
    rcases hc with ⟨hc, hcb⟩ | ⟨hc, hca⟩
    · rcases hA c hc with h | ⟨t, ht, hta, hcomp⟩
      · exact absurd h hcb
      · exact ⟨c, ⟨hc, hcb⟩, t, ⟨ht, hta⟩, hcomp, Or.inl rfl⟩
    · rcases hB c hc with h | ⟨c1, h1, h1b, hcomp⟩
      · exact absurd h hca
      · exact ⟨c1, ⟨h1, h1b⟩, c, ⟨hc, hca⟩, hcomp, Or.inr rfl⟩


theorem targetType_mem (sb : List String) (c t : String) (h : targetType sb c = some t) :
    t ∈ sb ∧ compatible t c = true := by
  unfold targetType at h
  by_cases hc : sb.contains c = true
  · rw [if_pos hc] at h
    cases h
    exact ⟨by simpa using hc, compatible_refl c⟩
  · rw [if_neg hc] at h
    unfold findCompatible at h
    exact ⟨List.mem_of_find?_eq_some h, by simpa using List.find?_some h⟩

theorem targetType_of_mem (sb : List String) (c : String) (h : c ∈ sb) : targetType sb c = some c := by
  unfold targetType
  rw [if_pos (by simpa using h)]

/-- under matching type sets every source type finds its (unique) partner -/
theorem targetType_of_typesSpec (sa sb : List String) (h : typesSpec sa sb = true) (c : String) (hc : c ∈ sa) :
    ∃ t, targetType sb c = some t ∧ t ∈ sb ∧ (t = c ∨ (c ∉ sb ∧ t ∉ sa ∧ compatible c t = true)) := by
  rw [typesSpec_iff] at h
  by_cases hcb : c ∈ sb
  · exact ⟨c, targetType_of_mem sb c hcb, hcb, Or.inl rfl⟩
  · rcases h.1 c hc with h' | ⟨t0, ht0, ht0a, hcomp⟩
    · exact absurd h' hcb
    · have hex : ∃ t, sb.find? (fun x => compatible x c) = some t := by
        cases hf : sb.find? (fun x => compatible x c) with
        | some t => exact ⟨t, rfl⟩
        | none =>
          rw [List.find?_eq_none] at hf
          have := hf t0 ht0
          rw [compatible_symm] at this
          exact absurd hcomp this
      obtain ⟨t, ht⟩ := hex
      have htt : targetType sb c = some t := by
        unfold targetType findCompatible
        rw [if_neg (by simpa using hcb)]
        exact ht
      obtain ⟨htm, htc⟩ := targetType_mem sb c t htt
      rw [compatible_symm] at htc
      have hne : c ≠ t := fun e => hcb (e ▸ htm)
      have hne0 : c ≠ t0 := fun e => hcb (e ▸ ht0)
      have : t = t0 := compatible_unique c t t0 htc hcomp hne hne0
      subst this
      exact ⟨t, htt, htm, Or.inr ⟨hcb, ht0a, hcomp⟩⟩

/-! ### rows of a block -/

theorem uniform_nil {α} : Uniform ([] : List (List α)) := by
  intro r hr; cases hr

theorem uniform_sortedRows (a : List (List Nat)) (h : Uniform a) : Uniform (sortedRows a) := by
  unfold sortedRows
  intro r hr
  obtain ⟨r0, hr0, rfl⟩ := List.mem_map.mp hr
  rw [sortRow_length, h r0 hr0]
  cases a with
  | nil => rfl
  | cons x xs => simp [sortRow_length]

theorem cellsOf_uniform (m : Mesh) (h : (wfEq m) = true) (ct : String) : Uniform (m.cellsOf ct) := by
  unfold Mesh.cellsOf
  cases hf : m.cells.find? (fun b => b.1 == ct) with
  | none => exact uniform_nil
  | some b =>
    have hb : b ∈ m.cells := List.mem_of_find?_eq_some hf
    unfold wfEq at h
    simp only [Bool.and_eq_true, List.all_eq_true] at h
    intro r hr
    have := h.2 b hb r hr
    simpa using this

theorem sameCells_iff (a b : List (List Nat)) :
    sameCells a b = true ↔ a.length = b.length ∧ sortedRows a = sortedRows b := by
  unfold sameCells sortedRows
  simp only [Bool.and_eq_true, beq_iff_eq, List.all_eq_true, List.mem_range]
  constructor
  · rintro ⟨hl, h⟩
    refine ⟨hl, ?_⟩
    apply List.ext_getElem (by simp [hl])
    intro i h1 h2
    simp only [List.getElem_map]
    have := h i (by simpa using h1)
    rw [List.getD_eq_getElem?_getD, List.getD_eq_getElem?_getD,
      List.getElem?_eq_getElem (by simpa using h1), List.getElem?_eq_getElem (by simpa using h2)] at this
    simpa using this
  · rintro ⟨hl, h⟩
    refine ⟨hl, ?_⟩
    intro i hi
    have hi' : i < b.length := hl ▸ hi
    rw [List.getD_eq_getElem?_getD, List.getD_eq_getElem?_getD,
      List.getElem?_eq_getElem hi, List.getElem?_eq_getElem hi']
    simp only [Option.getD_some]
    have := congrArg (fun l => l[i]?) h
    simp only [List.getElem?_map, List.getElem?_eq_getElem hi, List.getElem?_eq_getElem hi', Option.map_some,
      Option.some.injEq] at this
    exact this

/-- the loop over the source's cell types computes the conjunction of the per-type checks as soon
    as every type has a partner -/
theorem cellLoop_eq (A B : Mesh) (hA : (wfEq A) = true) (hB : (wfEq B) = true) :
    ∀ l : List String, (∀ c ∈ l, targetType B.cellTypes c ≠ none) →
      cellLoop A B l = .ok (l.all (cellOk A B)) := by
  intro l
  induction l with
  | nil => intro _; rfl
  | cons c rest ih =>
    intro h
    have hc := h c List.mem_cons_self
    have ih' := ih (fun x hx => h x (List.mem_cons_of_mem _ hx))
    unfold cellLoop
    cases ht : targetType B.cellTypes c with
    | none => exact absurd ht hc
    | some t =>
      simp only [List.all_cons, cellOk, ht]
      by_cases hl : (A.cellsOf c).length = (B.cellsOf t).length
      · rw [if_neg (by simpa using hl)]
        have hu1 := uniform_sortedRows _ (cellsOf_uniform A hA c)
        have hu2 := uniform_sortedRows _ (cellsOf_uniform B hB t)
        rw [exactCheck_cornerArr _ _ hu1 hu2 (by simp [sortedRows, hl])]
        by_cases he : sortedRows (A.cellsOf c) = sortedRows (B.cellsOf t)
        · have hs : sameCells (A.cellsOf c) (B.cellsOf t) = true := (sameCells_iff _ _).mpr ⟨hl, he⟩
          simp only [he, decide_true, hs, Bool.true_and]
          exact ih'
        · have hs : sameCells (A.cellsOf c) (B.cellsOf t) = false := by
            rw [Bool.eq_false_iff]; intro hh; exact he ((sameCells_iff _ _).mp hh).2
          simp [he, hs]
      · rw [if_pos (by simpa using hl)]
        have hs : sameCells (A.cellsOf c) (B.cellsOf t) = false := by
          rw [Bool.eq_false_iff]; intro hh; exact hl ((sameCells_iff _ _).mp hh).1
        simp [hs]

/-- the cell-type part of `mesh_equal` computes the spec and never raises -/
theorem cellsEqual_eq (A B : Mesh) (hA : (wfEq A) = true) (hB : (wfEq B) = true) :
    cellsEqual A B = .ok (typesSpec A.cellTypes B.cellTypes && cellsSpec A B) := by
  unfold cellsEqual
  simp only
  by_cases ht : typesSpec A.cellTypes B.cellTypes = true
  · have := (withoutCompatibles_empty_iff A.cellTypes B.cellTypes).mpr ht
    rw [if_neg (by simpa using this)]
    rw [cellLoop_eq A B hA hB]
    · simp [ht, cellsSpec]
    · intro c hc
      obtain ⟨t, h1, _⟩ := targetType_of_typesSpec _ _ ht c hc
      rw [h1]; simp
  · have hne : ¬ (withoutCompatibles (A.cellTypes.filter fun c => !B.cellTypes.contains c)
        (B.cellTypes.filter fun c => !A.cellTypes.contains c)).length = 0 :=
      fun h => ht ((withoutCompatibles_empty_iff _ _).mp h)
    rw [if_pos hne]
    simp [ht]


theorem wfEq_points (m : Mesh) (h : (wfEq m) = true) : ∀ r ∈ m.points, r.length = m.dim := by
  unfold wfEq at h
  simp only [Bool.and_eq_true, List.all_eq_true] at h
  intro r hr
  simpa using h.1.1 r hr

/-- the point comparison of `mesh_equal` computes `pointsSpec` -/
theorem pointsCheck_eq (rel abs : Nat) (A B : Mesh) (hA : (wfEq A) = true) (hB : (wfEq B) = true) :
    fuzzyCheck (.num rel) (.num abs) (pointArr A) (pointArr B) = .ok (pointsSpec rel abs A B) := by
  unfold pointArr
  rw [fuzzyCheck_num_f64 _ _ _ _ _ _ (by simp)]
  congr 1
  unfold pointsSpec
  by_cases hs : A.points.length = B.points.length ∧ A.dim = B.dim
  · obtain ⟨h1, h2⟩ := hs
    have hQ : ∀ r ∈ B.points, r.length = A.dim := fun r hr => (wfEq_points B hB r hr).trans h2.symm
    rw [fuzzyList_flatten rel abs A.dim A.points B.points (wfEq_points A hA) hQ]
    simp [h1, h2]
  · have h1 : decide ([A.points.length, A.dim] = [B.points.length, B.dim]) = false := by
      simp only [decide_eq_false_iff_not, List.cons.injEq, and_true]
      exact hs
    have h2 : (A.points.length == B.points.length && A.dim == B.dim) = false := by
      rw [Bool.eq_false_iff]
      intro h
      simp only [Bool.and_eq_true, beq_iff_eq] at h
      exact hs h
    rw [h1, h2]
    simp

/-- **model = spec** for `mesh_equal`: on well-formed meshes the modelled verdict is never an
    exception and equals the declarative statement -/
theorem meshEqualWith_eq_spec (rel abs : Nat) (A B : Mesh) (hA : (wfEq A) = true) (hB : (wfEq B) = true) :
    meshEqualWith rel abs A B = .ok (meshEqualSpec rel abs A B) := by
  unfold meshEqualWith meshEqualSpec
  rw [pointsCheck_eq rel abs A B hA hB]
  cases hp : pointsSpec rel abs A B with
  | true =>
    simp only [Bool.true_and]
    exact cellsEqual_eq A B hA hB
  | false => simp


/-! ### symmetry of the specification -/

/-- the documented formula is symmetric in its two operands (|b-a| = |a-b|, max is commutative) -/
theorem docFormula_symm (F : Fmt) (a b : Int) (rel abs : Nat) :
    docFormula F a b rel abs = docFormula F b a rel abs := by
  have h1 : (b - a).natAbs = (a - b).natAbs := by omega
  have h2 : max a.natAbs b.natAbs = max b.natAbs a.natAbs := Nat.max_comm _ _
  simp only [docFormula, h1, h2]

theorem pointsSpec_symm (rel abs : Nat) (A B : Mesh) : pointsSpec rel abs A B = pointsSpec rel abs B A := by
  unfold pointsSpec
  by_cases h1 : A.points.length = B.points.length
  · by_cases h2 : A.dim = B.dim
    · rw [h1, h2]
      have hsym : ∀ i j, docFormula f64 ((A.points.getD i []).getD j 0) ((B.points.getD i []).getD j 0) rel abs =
          docFormula f64 ((B.points.getD i []).getD j 0) ((A.points.getD i []).getD j 0) rel abs :=
        fun i j => docFormula_symm _ _ _ _ _
      simp only [hsym]
    · have e1 : (A.dim == B.dim) = false := by simpa using h2
      have e2 : (B.dim == A.dim) = false := by simpa using fun e : B.dim = A.dim => h2 e.symm
      rw [e1, e2]; simp
  · have e1 : (A.points.length == B.points.length) = false := by simpa using h1
    have e2 : (B.points.length == A.points.length) = false := by
      simpa using fun e : B.points.length = A.points.length => h1 e.symm
    rw [e1, e2]; simp

theorem typesSpec_symm (sa sb : List String) : typesSpec sa sb = typesSpec sb sa := by
  rw [Bool.eq_iff_iff, typesSpec_iff, typesSpec_iff]
  constructor
  · rintro ⟨h1, h2⟩
    refine ⟨fun c hc => ?_, fun t ht => ?_⟩
    · rcases h2 c hc with h | ⟨x, hx, hxb, hcomp⟩
      · exact Or.inl h
      · exact Or.inr ⟨x, hx, hxb, by rw [compatible_symm]; exact hcomp⟩
    · rcases h1 t ht with h | ⟨x, hx, hxa, hcomp⟩
      · exact Or.inl h
      · exact Or.inr ⟨x, hx, hxa, by rw [compatible_symm]; exact hcomp⟩
  · rintro ⟨h1, h2⟩
    refine ⟨fun c hc => ?_, fun t ht => ?_⟩
    · rcases h2 c hc with h | ⟨x, hx, hxb, hcomp⟩
      · exact Or.inl h
      · exact Or.inr ⟨x, hx, hxb, by rw [compatible_symm]; exact hcomp⟩
    · rcases h1 t ht with h | ⟨x, hx, hxa, hcomp⟩
      · exact Or.inl h
      · exact Or.inr ⟨x, hx, hxa, by rw [compatible_symm]; exact hcomp⟩

theorem sameCells_symm (a b : List (List Nat)) : sameCells a b = sameCells b a := by
  rw [Bool.eq_iff_iff, sameCells_iff, sameCells_iff]
  constructor <;> rintro ⟨h1, h2⟩ <;> exact ⟨h1.symm, h2.symm⟩

theorem cellsSpec_iff (A B : Mesh) :
    cellsSpec A B = true ↔ ∀ c ∈ A.cellTypes, ∃ t, targetType B.cellTypes c = some t ∧
      sameCells (A.cellsOf c) (B.cellsOf t) = true := by
  unfold cellsSpec
  rw [List.all_eq_true]
  constructor
  · intro h c hc
    have := h c hc
    unfold cellOk at this
    cases ht : targetType B.cellTypes c with
    | none => rw [ht] at this; exact absurd this (by simp)
    | some t => rw [ht] at this; exact ⟨t, rfl, this⟩
  · intro h c hc
    obtain ⟨t, ht, hs⟩ := h c hc
    unfold cellOk
    rw [ht]; exact hs

/-- the partner relation is one-to-one: if `c` (a type of A) is matched with `t`, then `t` (a type of B)
    is matched back with `c` -/
theorem targetType_back (sa sb : List String) (h : typesSpec sa sb = true) (c t : String) (hc : c ∈ sa)
    (ht : targetType sb c = some t) : targetType sa t = some c := by
  obtain ⟨t', ht', htm, hcase⟩ := targetType_of_typesSpec sa sb h c hc
  rw [ht] at ht'
  cases ht'
  rcases hcase with rfl | ⟨hcb, hta, hcomp⟩
  · exact targetType_of_mem sa t hc
  · have h' : typesSpec sb sa = true := by rw [typesSpec_symm]; exact h
    obtain ⟨c', hc', hcm, hcase'⟩ := targetType_of_typesSpec sb sa h' t htm
    rcases hcase' with rfl | ⟨_, _, hcomp'⟩
    · exact absurd hcm hta
    · have hne : t ≠ c := fun e => hta (e ▸ hc)
      have hne' : t ≠ c' := fun e => hta (e ▸ hcm)
      have : c' = c := compatible_unique t c' c hcomp' (by rw [compatible_symm]; exact hcomp) hne' hne
      rw [hc', this]

theorem cellsSpec_swap (A B : Mesh) (ht : typesSpec A.cellTypes B.cellTypes = true)
    (h : cellsSpec A B = true) : cellsSpec B A = true := by
  rw [cellsSpec_iff] at h ⊢
  intro t htb
  have ht' : typesSpec B.cellTypes A.cellTypes = true := by rw [typesSpec_symm]; exact ht
  obtain ⟨c, hc, hcm, _⟩ := targetType_of_typesSpec _ _ ht' t htb
  refine ⟨c, hc, ?_⟩
  have hback := targetType_back _ _ ht' t c htb hc
  obtain ⟨t2, ht2, hs⟩ := h c hcm
  rw [hback] at ht2
  cases ht2
  rw [sameCells_symm]; exact hs

/-- **the specification of mesh equality is symmetric** -/
theorem meshEqualSpec_symm (rel abs : Nat) (A B : Mesh) :
    meshEqualSpec rel abs A B = meshEqualSpec rel abs B A := by
  unfold meshEqualSpec
  rw [pointsSpec_symm rel abs A B, typesSpec_symm A.cellTypes B.cellTypes]
  cases hp : pointsSpec rel abs B A with
  | false => simp
  | true =>
    cases ht : typesSpec B.cellTypes A.cellTypes with
    | false => simp
    | true =>
      simp only [Bool.and_self, Bool.true_and]
      have ht' : typesSpec A.cellTypes B.cellTypes = true := by rw [typesSpec_symm]; exact ht
      rw [Bool.eq_iff_iff]
      exact ⟨cellsSpec_swap A B ht', cellsSpec_swap B A ht⟩


/-! ### the readable form of "the meshes are equal" -/

/-- coordinate `j` of point `i` -/
def coord (m : Mesh) (i j : Nat) : Int := (m.points.getD i []).getD j 0

/-- `t` (a type of B) is the partner of `c` (a type of A): the same type, or a compatible type where
    each of the two exists on its own side only -/
def Partner (A B : Mesh) (c t : String) : Prop :=
  t = c ∨ (c ∉ B.cellTypes ∧ t ∉ A.cellTypes ∧ compatible c t = true)

/-- same number of cells, and cell by cell the same corner points (as multisets: the rows are
    permutations of each other) -/
def CellsMatch (a b : List (List Nat)) : Prop :=
  a.length = b.length ∧ ∀ k, k < a.length → (a.getD k []).Perm (b.getD k [])

theorem cellsMatch_of_sameCells (a b : List (List Nat)) (h : sameCells a b = true) : CellsMatch a b := by
  unfold sameCells at h
  simp only [Bool.and_eq_true, beq_iff_eq, List.all_eq_true, List.mem_range] at h
  exact ⟨h.1, fun k hk => (sortRow_eq_iff _ _).mp (h.2 k hk)⟩

theorem sameCells_of_cellsMatch (a b : List (List Nat)) (h : CellsMatch a b) : sameCells a b = true := by
  unfold sameCells
  simp only [Bool.and_eq_true, beq_iff_eq, List.all_eq_true, List.mem_range]
  exact ⟨h.1, fun k hk => (sortRow_eq_iff _ _).mpr (h.2 k hk)⟩

theorem pointsSpec_iff (rel abs : Nat) (A B : Mesh) :
    pointsSpec rel abs A B = true ↔
      A.numPoints = B.numPoints ∧ A.dim = B.dim ∧
      ∀ i j, i < A.numPoints → j < A.dim → docFormula f64 (coord A i j) (coord B i j) rel abs = true := by
  unfold pointsSpec Mesh.numPoints coord
  simp only [Bool.and_eq_true, beq_iff_eq, List.all_eq_true, List.mem_range, and_assoc]
  constructor
  · rintro ⟨h1, h2, h3⟩
    exact ⟨h1, h2, fun i j hi hj => h3 i hi j hj⟩
  · rintro ⟨h1, h2, h3⟩
    exact ⟨h1, h2, fun i hi j hj => h3 i j hi hj⟩

/-- the partner of a type is unique -/
theorem partner_unique (A B : Mesh) (c t t' : String) (ht : t ∈ B.cellTypes) (ht' : t' ∈ B.cellTypes)
    (h : Partner A B c t) (h' : Partner A B c t') : t = t' := by
  rcases h with rfl | ⟨hcb, _, hcomp⟩
  · rcases h' with rfl | ⟨hcb', _, _⟩
    · rfl
    · exact absurd ht hcb'
  · rcases h' with rfl | ⟨_, _, hcomp'⟩
    · exact absurd ht' hcb
    · exact compatible_unique c t t' hcomp hcomp' (fun e => hcb (e ▸ ht)) (fun e => hcb (e ▸ ht'))

/-- the declarative spec, spelled out with quantifiers (both directions over the type sets) -/
theorem meshEqualSpec_elim (rel abs : Nat) (A B : Mesh) (h : meshEqualSpec rel abs A B = true) :
    (A.numPoints = B.numPoints ∧ A.dim = B.dim ∧
      ∀ i j, i < A.numPoints → j < A.dim → docFormula f64 (coord A i j) (coord B i j) rel abs = true) ∧
    (∀ c ∈ A.cellTypes, ∃ t ∈ B.cellTypes, Partner A B c t ∧ CellsMatch (A.cellsOf c) (B.cellsOf t)) ∧
    (∀ t ∈ B.cellTypes, ∃ c ∈ A.cellTypes, Partner A B c t ∧ CellsMatch (A.cellsOf c) (B.cellsOf t)) := by
  have h' : meshEqualSpec rel abs B A = true := by rw [← meshEqualSpec_symm]; exact h
  unfold meshEqualSpec at h h'
  simp only [Bool.and_eq_true] at h h'
  obtain ⟨⟨hp, ht⟩, hc⟩ := h
  obtain ⟨⟨_, ht'⟩, hc'⟩ := h'
  refine ⟨(pointsSpec_iff rel abs A B).mp hp, ?_, ?_⟩
  · intro c hcm
    obtain ⟨t, htt, htm, hcase⟩ := targetType_of_typesSpec _ _ ht c hcm
    obtain ⟨t2, ht2, hs⟩ := (cellsSpec_iff A B).mp hc c hcm
    rw [htt] at ht2; cases ht2
    exact ⟨t, htm, hcase, cellsMatch_of_sameCells _ _ hs⟩
  · intro t htm
    obtain ⟨c, hcc, hcm, hcase⟩ := targetType_of_typesSpec _ _ ht' t htm
    obtain ⟨c2, hc2, hs⟩ := (cellsSpec_iff B A).mp hc' t htm
    rw [hcc] at hc2; cases hc2
    refine ⟨c, hcm, ?_, ?_⟩
    · rcases hcase with rfl | ⟨h1, h2, h3⟩
      · exact Or.inl rfl
      · exact Or.inr ⟨h2, h1, by rw [compatible_symm]; exact h3⟩
    · have := cellsMatch_of_sameCells _ _ hs
      exact ⟨this.1.symm, fun k hk => (this.2 k (this.1.symm ▸ hk)).symm⟩


/-- what `C03_ladder_sound` says about a ladder result -/
def LadderInv {α} (ops : LadderOps α) (Rel : α → α → Prop) (S R : α) (r : LadderResult α) : Prop :=
  Rel r.src S ∧ Rel r.ref R ∧ (r.domainEq, r.suite) = ops.compare r.src r.ref

theorem ladderSort_inv {α} (ops : LadderOps α) (Rel : α → α → Prop)
    (htrans : ∀ x y z, Rel x y → Rel y z → Rel x z)
    (hperm : ∀ x, Rel (ops.permute x) x) (hsort : ∀ x, Rel (ops.sortCells x) x) (S R : α) :
    LadderInv ops Rel S R (ladderSort ops S R) := by
  unfold ladderSort LadderInv
  simp only
  by_cases h : (ops.compare (ops.permute S) (ops.permute R)).1 = true
  · rw [if_pos h]
    exact ⟨hperm S, hperm R, rfl⟩
  · rw [if_neg h]
    exact ⟨htrans _ _ _ (hsort _) (hperm S), htrans _ _ _ (hsort _) (hperm R), rfl⟩

theorem ladderReorder_inv {α} (ops : LadderOps α) (fl : LadderFlags) (Rel : α → α → Prop)
    (hrefl : ∀ x, Rel x x) (htrans : ∀ x y z, Rel x y → Rel y z → Rel x z)
    (hperm : ∀ x, Rel (ops.permute x) x) (hsort : ∀ x, Rel (ops.sortCells x) x) (S R : α)
    (last : Bool × Bool) (hlast : last = ops.compare S R) :
    LadderInv ops Rel S R (ladderReorder ops fl S R last) := by
  unfold ladderReorder
  by_cases h1 : fl.disableReordering = true
  · rw [if_pos h1]; exact ⟨hrefl S, hrefl R, by rw [hlast]⟩
  · rw [if_neg h1]
    by_cases h2 : ops.bothStructured S R = true
    · rw [if_pos h2]; exact ⟨hrefl S, hrefl R, by rw [hlast]⟩
    · rw [if_neg h2]; exact ladderSort_inv ops Rel htrans hperm hsort S R

theorem ladder_inv {α} (ops : LadderOps α) (fl : LadderFlags) (Rel : α → α → Prop)
    (hrefl : ∀ x, Rel x x) (htrans : ∀ x y z, Rel x y → Rel y z → Rel x z)
    (hext : ∀ d x, Rel (ops.extend d x) x)
    (hperm : ∀ x, Rel (ops.permute x) x) (hsort : ∀ x, Rel (ops.sortCells x) x) (S R : α) :
    LadderInv ops Rel S R (ladder ops fl S R) := by
  unfold ladder
  simp only
  by_cases h0 : (ops.compare S R).1 = true
  · rw [if_pos h0]; exact ⟨hrefl S, hrefl R, rfl⟩
  · rw [if_neg h0]
    by_cases hd : ops.spaceDim S ≠ ops.spaceDim R ∧ (!fl.disableDimMatching) = true
    · rw [if_pos hd]
      by_cases h1 : (ops.compare (ops.extend (max (ops.spaceDim S) (ops.spaceDim R)) S)
          (ops.extend (max (ops.spaceDim S) (ops.spaceDim R)) R)).1 = true
      · rw [if_pos h1]; exact ⟨hext _ S, hext _ R, rfl⟩
      · rw [if_neg h1]
        have := ladderReorder_inv ops fl Rel hrefl htrans hperm hsort
          (ops.extend (max (ops.spaceDim S) (ops.spaceDim R)) S)
          (ops.extend (max (ops.spaceDim S) (ops.spaceDim R)) R) _ rfl
        exact ⟨htrans _ _ _ this.1 (hext _ S), htrans _ _ _ this.2.1 (hext _ R), this.2.2⟩
    · rw [if_neg hd]
      exact ladderReorder_inv ops fl Rel hrefl htrans hperm hsort S R _ rfl


/-! ### single-site modifications keep the mesh well-formed and change what they say they change -/

theorem wfEq_iff (m : Mesh) : (wfEq m) = true ↔
    (∀ r ∈ m.points, r.length = m.dim) ∧ m.cellTypes.Nodup ∧ ∀ b ∈ m.cells, Uniform b.2 := by
  unfold wfEq Uniform
  simp only [Bool.and_eq_true, List.all_eq_true, beq_iff_eq, decide_eq_true_eq, and_assoc]

theorem wfEq_setCoord (m : Mesh) (h : (wfEq m) = true) (i j : Nat) (x : Int) : (wfEq (setCoord m i j x)) = true := by
  rw [wfEq_iff] at h ⊢
  obtain ⟨h1, h2, h3⟩ := h
  refine ⟨?_, h2, h3⟩
  intro r hr
  unfold setCoord at hr
  simp only at hr
  by_cases hi : i < m.points.length
  · rcases List.mem_or_eq_of_mem_set hr with hr | rfl
    · exact h1 r hr
    · rw [List.length_set, List.getD_eq_getElem?_getD, List.getElem?_eq_getElem hi]
      exact h1 _ (List.getElem_mem hi)
  · rw [List.set_eq_of_length_le (by omega)] at hr
    exact h1 r hr

theorem coord_setCoord (m : Mesh) (i j : Nat) (x : Int) (hi : i < m.points.length)
    (hj : j < (m.points.getD i []).length) : coord (setCoord m i j x) i j = x := by
  unfold coord setCoord
  simp only
  have e1 : (m.points.set i ((m.points.getD i []).set j x)).getD i [] = (m.points.getD i []).set j x := by
    rw [List.getD_eq_getElem?_getD, List.getElem?_set_self hi]; rfl
  rw [e1, List.getD_eq_getElem?_getD, List.getElem?_set_self hj]
  rfl

theorem cellTypes_dropBlock (m : Mesh) (ct t : String) :
    t ∈ (dropBlock m ct).cellTypes ↔ t ∈ m.cellTypes ∧ t ≠ ct := by
  unfold dropBlock Mesh.cellTypes
  simp only [List.mem_map, List.mem_filter, bne_iff_ne, ne_eq]
  constructor
  · rintro ⟨b, ⟨hb, hne⟩, rfl⟩
    exact ⟨⟨b, hb, rfl⟩, hne⟩
  · rintro ⟨⟨b, hb, rfl⟩, hne⟩
    exact ⟨b, ⟨hb, hne⟩, rfl⟩

theorem wfEq_dropBlock (m : Mesh) (h : (wfEq m) = true) (ct : String) : (wfEq (dropBlock m ct)) = true := by
  rw [wfEq_iff] at h ⊢
  obtain ⟨h1, h2, h3⟩ := h
  refine ⟨h1, ?_, ?_⟩
  · unfold dropBlock Mesh.cellTypes
    exact h2.sublist (List.filter_sublist.map _)
  · intro b hb
    unfold dropBlock at hb
    exact h3 b (List.mem_filter.mp hb).1


/-! ### modifications of one block -/

theorem uniform_of_width {α} (l : List (List α)) (w : Nat) (h : ∀ r ∈ l, r.length = w) : Uniform l := by
  intro r hr
  rw [h r hr]
  cases l with
  | nil => cases hr
  | cons x xs => simp [h x List.mem_cons_self]

theorem width_of_uniform {α} (l : List (List α)) (h : Uniform l) :
    ∀ r ∈ l, r.length = (l.head?.map List.length).getD 0 := h

theorem cellTypes_mapBlock (m : Mesh) (ct : String) (f : List (List Nat) → List (List Nat)) :
    (mapBlock m ct f).cellTypes = m.cellTypes := by
  unfold mapBlock Mesh.cellTypes
  simp only [List.map_map]
  apply List.map_congr_left
  intro b _
  simp only [Function.comp]
  split <;> rfl

theorem find_mapBlock_aux (ct : String) (f : List (List Nat) → List (List Nat)) :
    ∀ (cells : List (String × List (List Nat))), ct ∈ cells.map (·.1) →
      (match (cells.map fun b => if b.1 == ct then (b.1, f b.2) else b).find? (·.1 == ct) with
        | some b => b.2 | none => []) =
      f (match cells.find? (·.1 == ct) with | some b => b.2 | none => []) := by
  intro cells
  induction cells with
  | nil => intro h; simp at h
  | cons b bs ih =>
    intro hct
    by_cases hb : (b.1 == ct) = true
    · simp only [List.map_cons, hb, if_true, List.find?_cons]
    · have hb' : (b.1 == ct) = false := by simpa using hb
      have hmem : ct ∈ bs.map (·.1) := by
        rcases List.mem_map.mp hct with ⟨x, hx, hx1⟩
        rcases List.mem_cons.mp hx with rfl | hx
        · simp [hx1] at hb'
        · exact List.mem_map.mpr ⟨x, hx, hx1⟩
      simp only [List.map_cons, hb', Bool.false_eq_true, if_false, List.find?_cons]
      exact ih hmem

theorem cellsOf_mapBlock (m : Mesh) (ct : String) (f : List (List Nat) → List (List Nat))
    (hct : ct ∈ m.cellTypes) : (mapBlock m ct f).cellsOf ct = f (m.cellsOf ct) := by
  unfold mapBlock Mesh.cellsOf
  exact find_mapBlock_aux ct f m.cells hct

theorem wfEq_mapBlock (m : Mesh) (h : wfEq m = true) (ct : String) (f : List (List Nat) → List (List Nat))
    (hf : ∀ rows, Uniform rows → (∃ b ∈ m.cells, b.2 = rows) → Uniform (f rows)) : wfEq (mapBlock m ct f) = true := by
  rw [wfEq_iff] at h ⊢
  obtain ⟨h1, h2, h3⟩ := h
  refine ⟨h1, by rw [cellTypes_mapBlock]; exact h2, ?_⟩
  intro b hb
  unfold mapBlock at hb
  simp only at hb
  obtain ⟨b0, hb0, rfl⟩ := List.mem_map.mp hb
  split
  · exact hf b0.2 (h3 b0 hb0) ⟨b0, hb0, rfl⟩
  · exact h3 b0 hb0

end Fc.C03
