/-
  FcProofs.Lemmas.LexsortHyp — the decidable hypothesis the driver evaluates (`Spec.pointSep`,
  `Spec.distinguishable`, together `Spec.pointHyp`) implies the Prop-level hypotheses of the
  theorems (`PointHypP`, distinguishability w.r.t. the stable argsort).
-/
import FcProofs.Lemmas.LexsortLadder
namespace Fc.C02
open Fc.C02.Spec

theorem mem_dups_of_partner {A : Nat} {m : Mesh} {a b : PItem} (ha : a ∈ pitems m) (hb : b ∈ pitems m)
    (hab : a ≠ b) (hk : kvec (KC A m) m.dim 0 a = kvec (KC A m) m.dim 0 b) :
    (a, kvec (KC A m) m.dim 0 a) ∈ (pointData A m).dups := by
  unfold pointData
  simp only
  rw [List.mem_filter]
  refine ⟨List.mem_map.mpr ⟨a, ha, rfl⟩, ?_⟩
  rw [List.any_eq_true]
  refine ⟨(b, kvec (KC A m) m.dim 0 b), List.mem_map.mpr ⟨b, hb, rfl⟩, ?_⟩
  simp only [Bool.and_eq_true, bne_iff_ne, ne_eq, beq_iff_eq]
  exact ⟨fun e => hab e.symm, hk.symm⟩

theorem mem_cands_of_dup {A : Nat} {m : Mesh} {x : PItem × List Int} (hx : x ∈ (pointData A m).dups)
    {cs : List (List Int)} (hcs : centresOf m x.1.1 = some cs) : ∀ c ∈ cs, c ∈ (pointData A m).cands := by
  intro c hc
  have hx' := hx
  unfold pointData at hx' ⊢
  simp only at hx' ⊢
  rw [List.mem_flatMap]
  exact ⟨x, hx', by rw [hcs]; exact hc⟩

/-- the decidable `Sep` check implies the Prop-level hypothesis of the point-sort theorems -/
theorem pointSep_sound {t : MeshTol} {m : Mesh} (h : pointSep t m = true) :
    PointHypP t (sepA t) (sepB t) (pointData (sepA t) m).M m (pointData (sepA t) m).cands := by
  unfold pointSep at h
  simp only [Bool.and_eq_true, List.all_eq_true, decide_eq_true_eq, List.mem_range] at h
  obtain ⟨⟨⟨⟨⟨hdim, hrows⟩, hb⟩, hP⟩, hC⟩, hdup⟩ := h
  refine ⟨hdim, hrows, ⟨sepA_sepB t, hb, fun j hj => (hP j hj).1, fun j hj a ha => (hP j hj).2 a ha⟩,
    ⟨sepA_sepB t, hb, fun j hj => (hC j hj).1, fun j hj c hc => (hC j hj).2 c hc⟩, ?_⟩
  intro a ha b hb' hab hk
  have hx := mem_dups_of_partner ha hb' hab hk
  have hsome := hdup _ hx
  cases hcs : centresOf m a.1 with
  | none => simp [hcs] at hsome
  | some cs => exact ⟨cs, rfl, mem_cands_of_dup hx hcs⟩

/-- the decidable distinguishability check, unpacked -/
theorem distinguishable_sound {t : MeshTol} {m : Mesh}
    (h : distinguishable t (sepA t) m (pointData (sepA t) m) = true) :
    ∀ a ∈ pitems m, ∀ b ∈ pitems m,
      kvec (KC (sepA t) m) m.dim 0 a = kvec (KC (sepA t) m) m.dim 0 b →
      kvec (KM (sepA t) (pointData (sepA t) m).cands argsortStable t m) m.dim 0 a =
        kvec (KM (sepA t) (pointData (sepA t) m).cands argsortStable t m) m.dim 0 b → a = b := by
  intro a ha b hb hk hm
  by_contra hab
  have hxa := mem_dups_of_partner ha hb hab hk
  have hxb := mem_dups_of_partner hb ha (Ne.symm hab) hk.symm
  unfold distinguishable at h
  simp only [List.all_eq_true, List.mem_map, forall_exists_index, and_imp, forall_apply_eq_imp_iff₂,
    Bool.or_eq_true, beq_iff_eq, bne_iff_ne, ne_eq] at h
  rcases h _ hxa _ hxb with (h1 | h1) | h1
  · exact hab h1
  · exact h1 hk
  · exact h1 hm

end Fc.C02
