/-
  FcProofs.Lemmas.PyLiteOrch — phase 6: lemmas about the interpreter's statements for orchestration code
  (`callFn`, `tryExcept`, `setAttr`, effect traces; FcModel/PyLite.lean) that the `Cxx_source_*` theorems of
  Props/C11_Orchestration.lean, C02_Orchestration.lean share.

  How a caller's proof uses a callee's theorem: `exec X (.callFn x f.params f.body args) st` unfolds (by `exec`) to
  `callRet x st (enterCall f.params vs (execBlock X f.body))`; `enterCall`/`callRet` are NOT unfolded by `pylite_eval`,
  and `callRet_of_runTr (callee's theorem)` rewrites the whole call to the `.next` state it leaves behind.
-/
import FcProofs.Lemmas.PyLiteLoops
namespace Fc.PyLite

/-! ### truthiness of constructor-headed values (so that the truth value of a SYMBOLIC value stays folded and can be
    rewritten with a hypothesis `v.truthy = …`) -/
theorem truthy_int (n : Int) : Val.truthy (.int n) = .ok (n != 0) := rfl
theorem truthy_bool (b : Bool) : Val.truthy (.bool b) = .ok b := rfl
theorem truthy_str (s : String) : Val.truthy (.str s) = .ok (s != "") := rfl
theorem truthy_none : Val.truthy .none = .ok false := rfl
theorem truthy_list (xs : List Val) : Val.truthy (.list xs) = .ok (!xs.isEmpty) := rfl
theorem truthy_dict (kvs : List (Val × Val)) : Val.truthy (.dict kvs) = .ok (!kvs.isEmpty) := rfl
theorem truthy_record (fs : List (String × Val)) :
    Val.truthy (.record fs) =
      match fs.lookup "__bool__" with
      | some (.bool b) => .ok b
      | some _ => .stuck
      | Option.none => .ok true := rfl

/-- `pylite_eval` that does not unfold the truthiness of a symbolic value -/
syntax "orch_eval" ("[" Lean.Parser.Tactic.simpLemma,* "]")? : tactic
macro_rules
  | `(tactic| orch_eval) =>
    `(tactic| simp [Fn.run, Fn.runGen, Fn.runTr, Fn.flow, initEnv, execBlock, exec, eval, evalList, withVal, withBool, bindAll,
        St.set, Res.bind, Res.map, getAttr, binop, cmpop, ordOp, memOf, Val.eqv, Val.eqv.eqvList, truthy_int, truthy_bool,
        truthy_str, truthy_none, truthy_list, truthy_dict, truthy_record,
        Val.asList, Val.asInt, isNone, builtin, intsOf, anyM, allM, compM, forLoop, List.lookup])
  | `(tactic| orch_eval [$ls,*]) =>
    `(tactic| simp [Fn.run, Fn.runGen, Fn.runTr, Fn.flow, initEnv, execBlock, exec, eval, evalList, withVal, withBool, bindAll,
        St.set, Res.bind, Res.map, getAttr, binop, cmpop, ordOp, memOf, Val.eqv, Val.eqv.eqvList, truthy_int, truthy_bool,
        truthy_str, truthy_none, truthy_list, truthy_dict, truthy_record,
        Val.asList, Val.asInt, isNone, builtin, intsOf, anyM, allM, compM, forLoop, List.lookup, $ls,*])

/-- running a block that is written as two pieces -/
theorem execBlock_append (X : Ext) (a b : List Stmt) (st : St) :
    execBlock X (a ++ b) st = match execBlock X a st with | .next st' => execBlock X b st' | r => r := by
  induction a generalizing st with
  | nil => simp [execBlock]
  | cons x xs ih =>
    simp only [List.cons_append, execBlock]
    cases exec X x st <;> simp [ih]

/-- what a METHOD call leaves behind, read off its final flow: returned value, effect trace, final value of `self`
    (the variable `self`) -/
def obsFlow (self : String) : Flow → Res (Val × List Val × Val)
  | .next st => match st.env.lookup self with | some s => .ok (.none, st.out, s) | Option.none => .stuck
  | .ret v st => match st.env.lookup self with | some s => .ok (v, st.out, s) | Option.none => .stuck
  | .raise e => .raise e
  | .stuck => .stuck

theorem runSelf_eq_obsFlow (X : Ext) (f : Fn) (args : List Val) (p : String) (ps : List String) (h : f.params = p :: ps) :
    f.runSelf X args = obsFlow p (f.flow X args) := by
  unfold Fn.runSelf obsFlow
  rw [h]
  cases f.flow X args <;> rfl

/-- `orch_eval` that leaves `builtin` calls and comprehensions (`compM`) folded, so that they can be rewritten with lemmas about
    embedded lists (`compM_map_ok`, `sum_ones`, …) before they get stuck on a symbolic list -/
syntax "orch_eval_nb" ("[" Lean.Parser.Tactic.simpLemma,* "]")? : tactic
macro_rules
  | `(tactic| orch_eval_nb [$ls,*]) =>
    `(tactic| simp [Fn.run, Fn.runGen, Fn.runTr, Fn.flow, initEnv, execBlock, exec, eval, evalList, withVal, withBool, bindAll,
        St.set, Res.bind, Res.map, getAttr, binop, cmpop, ordOp, memOf, Val.eqv, Val.eqv.eqvList, truthy_int, truthy_bool,
        truthy_str, truthy_none, truthy_list, truthy_dict, truthy_record,
        Val.asList, Val.asInt, isNone, intsOf, anyM, allM, forLoop, List.lookup, $ls,*])

/-- `orch_eval` that also uses every hypothesis in scope -/
macro "orch_eval_all" : tactic =>
  `(tactic| simp [*, Fn.run, Fn.runGen, Fn.runTr, Fn.flow, initEnv, execBlock, exec, eval, evalList, withVal, withBool, bindAll,
      St.set, Res.bind, Res.map, getAttr, binop, cmpop, ordOp, memOf, Val.eqv, Val.eqv.eqvList, truthy_int, truthy_bool,
      truthy_str, truthy_none, truthy_list, truthy_dict, truthy_record,
      Val.asList, Val.asInt, isNone, builtin, intsOf, anyM, allM, compM, forLoop, List.lookup])

/-- entering a call with the callee's own parameter list and body is `Fn.flow` of the callee -/
theorem enterCall_eq_flow (X : Ext) (f : Fn) (vs : List Val) :
    enterCall f.params vs (execBlock X f.body) = f.flow X vs := by
  unfold enterCall Fn.flow
  cases initEnv f.params vs <;> rfl

/-- a call of a translated function that returns `v` with trace `tr`: `x` is bound, the trace appended -/
theorem callRet_of_runTr {X : Ext} {f : Fn} {vs : List Val} {v : Val} {tr : List Val}
    (h : f.runTr X vs = .ok (v, tr)) (x : String) (st : St) :
    callRet x st (enterCall f.params vs (execBlock X f.body)) = .next ⟨(x, v) :: st.env, st.out ++ tr⟩ := by
  rw [enterCall_eq_flow]
  unfold Fn.runTr at h
  cases hf : f.flow X vs with
  | next s => rw [hf] at h; cases h; rfl
  | ret w s => rw [hf] at h; cases h; rfl
  | raise e => rw [hf] at h; cases h
  | stuck => rw [hf] at h; cases h

/-- … that raises: the exception propagates to the caller -/
theorem callRet_of_runTr_raise {X : Ext} {f : Fn} {vs : List Val} {e : String}
    (h : f.runTr X vs = .raise e) (x : String) (st : St) :
    callRet x st (enterCall f.params vs (execBlock X f.body)) = .raise e := by
  rw [enterCall_eq_flow]
  unfold Fn.runTr at h
  cases hf : f.flow X vs with
  | next s => rw [hf] at h; cases h
  | ret w s => rw [hf] at h; cases h
  | raise e' => rw [hf] at h; cases h; rfl
  | stuck => rw [hf] at h; cases h

/-- `Fn.run` of a procedure forgets the trace of `Fn.runTr` -/
theorem run_of_runTr {X : Ext} {f : Fn} {vs : List Val} {v : Val} {tr : List Val}
    (h : f.runTr X vs = .ok (v, tr)) : f.run X vs = .ok v := by
  unfold Fn.runTr at h
  unfold Fn.run
  cases hf : f.flow X vs with
  | next s => rw [hf] at h; cases h; rfl
  | ret w s => rw [hf] at h; cases h; rfl
  | raise e => rw [hf] at h; cases h
  | stuck => rw [hf] at h; cases h

/-- a comprehension without filter over an embedded list whose element expression always evaluates -/
theorem compM_map_total {α : Type} (f : Val → Res (Option Val)) (emb : α → Val) (g : α → Val)
    (h : ∀ a, f (emb a) = .ok (some (g a))) (l : List α) : compM f (l.map emb) = .ok (l.map g) := by
  rw [compM_map_ok f emb (fun a => some (g a)) h l]
  congr 1
  induction l with
  | nil => rfl
  | cons a r ih => simp [ih]

end Fc.PyLite
