/-
  FcProofs.Lemmas.PyLiteOrch — phase 6: lemmas about the interpreter's statements for orchestration code
  (`callFn`, `tryExcept`, `setAttr`, effect traces; FcModel/PyLite.lean) that the `Cxx_source_*` theorems of
  Props/C11_Orchestration.lean, C02_Orchestration.lean share.

  How a caller's proof uses a callee's theorem: `exec X (.callFn x f.params f.body args) st` unfolds (by `exec`) to
  `callRet x st (enterCall f.params vs (execBlock X f.body))`; `enterCall`/`callRet` are NOT unfolded by `pylite_eval`,
  and `callRet_of_runTr (callee's theorem)` rewrites the whole call to the `.next` state it leaves behind.
-/
import FcProofs.Lemmas.PyLiteLoops
namespace Fc.PyLite

/-- entering a call with the callee's own parameter list and body is `Fn.flow` of the callee -/
theorem enterCall_eq_flow (X : Ext) (f : Fn) (vs : List Val) :
    enterCall f.params vs (execBlock X f.body) = f.flow X vs := by
  unfold enterCall Fn.flow
  cases initEnv f.params vs <;> rfl

/-- a call of a translated function that returns `v` with trace `tr`: `x` is bound, the trace appended -/
theorem callRet_of_runTr {X : Ext} {f : Fn} {vs : List Val} {v : Val} {tr : List Val}
    (h : f.runTr X vs = .ok (v, tr)) (x : String) (st : St) :
    callRet x st (enterCall f.params vs (execBlock X f.body)) = .next ⟨(x, v) :: st.env, st.out ++ tr⟩ := by
  rw [enterCall_eq_flow]
  unfold Fn.runTr at h
  cases hf : f.flow X vs with
  | next s => rw [hf] at h; cases h; rfl
  | ret w s => rw [hf] at h; cases h; rfl
  | raise e => rw [hf] at h; cases h
  | stuck => rw [hf] at h; cases h

/-- … that raises: the exception propagates to the caller -/
theorem callRet_of_runTr_raise {X : Ext} {f : Fn} {vs : List Val} {e : String}
    (h : f.runTr X vs = .raise e) (x : String) (st : St) :
    callRet x st (enterCall f.params vs (execBlock X f.body)) = .raise e := by
  rw [enterCall_eq_flow]
  unfold Fn.runTr at h
  cases hf : f.flow X vs with
  | next s => rw [hf] at h; cases h
  | ret w s => rw [hf] at h; cases h
  | raise e' => rw [hf] at h; cases h; rfl
  | stuck => rw [hf] at h; cases h

/-- `Fn.run` of a procedure forgets the trace of `Fn.runTr` -/
theorem run_of_runTr {X : Ext} {f : Fn} {vs : List Val} {v : Val} {tr : List Val}
    (h : f.runTr X vs = .ok (v, tr)) : f.run X vs = .ok v := by
  unfold Fn.runTr at h
  unfold Fn.run
  cases hf : f.flow X vs with
  | next s => rw [hf] at h; cases h; rfl
  | ret w s => rw [hf] at h; cases h; rfl
  | raise e => rw [hf] at h; cases h
  | stuck => rw [hf] at h; cases h

/-- a comprehension without filter over an embedded list whose element expression always evaluates -/
theorem compM_map_total {α : Type} (f : Val → Res (Option Val)) (emb : α → Val) (g : α → Val)
    (h : ∀ a, f (emb a) = .ok (some (g a))) (l : List α) : compM f (l.map emb) = .ok (l.map g) := by
  rw [compM_map_ok f emb (fun a => some (g a)) h l]
  congr 1
  induction l with
  | nil => rfl
  | cons a r ih => simp [ih]

end Fc.PyLite
