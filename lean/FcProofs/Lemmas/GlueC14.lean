/-
  FcProofs.Lemmas.GlueC14 — composing C02's canonicity of the point sort with the field transport
  of `PermutedMesh` views (C02's model `applyPointMap` / `permuteRows`): a data set and a relabelled
  copy of it hold IDENTICAL coordinates and IDENTICAL point-field arrays after `sort_points`.
-/
import FcProofs.Lemmas.GlueC02
import FcProofs.Props.C14
namespace Fc.Glue
open Fc Fc.C02 Fc.C02.Spec

/-- the point fields of a copy whose points are stored in the order `ρ` (new ↦ old) -/
def relabelPointFields (ρ : List Nat) (pfs : List PointField) : List PointField :=
  pfs.map fun pf => { pf with values := permuteRows pf.values ρ }

theorem gather_eq_permuteRows (v : NdArr) (n : Nat) (hv : v.hasRows n) (idx : List Nat)
    (hidx : ∀ i ∈ idx, i < n) : v.gather idx = some (permuteRows v idx) := by
  unfold NdArr.gather
  have hall : idx.all (· < v.numRows) = true := by
    simp only [List.all_eq_true, decide_eq_true_eq]
    intro i hi; rw [(NdArr.hasRows_data hv).2]; exact hidx i hi
  simp only [hall, if_true]
  rfl

/-- row `j` of `v[idx]` is row `idx[j]` of `v` -/
theorem permuteRows_row (v : NdArr) (n : Nat) (hv : v.hasRows n) (idx : List Nat)
    (hidx : ∀ i ∈ idx, i < n) (j : Nat) (hj : j < idx.length) :
    (permuteRows v idx).row j = v.row idx[j] :=
  (NdArr.gather_row hv idx hidx _ (gather_eq_permuteRows v n hv idx hidx) j hj).1

/-- `v[ρ][ρ⁻¹ ∘ pm] = v[pm]` -/
theorem permuteRows_comp (v : NdArr) (n : Nat) (hv : v.hasRows n) (ρ pm : List Nat)
    (hρ : ρ.Perm (List.range n)) (hpm : ∀ p ∈ pm, p < n) :
    permuteRows (permuteRows v ρ) (pm.map ρ.idxOf) = permuteRows v pm := by
  have hρr : ∀ i ∈ ρ, i < n := fun i hi => List.mem_range.mp (hρ.mem_iff.mp hi)
  have hdata : (pm.map ρ.idxOf).flatMap (permuteRows v ρ).row = pm.flatMap v.row := by
    rw [List.flatMap_map]
    apply List.flatMap_congr
    intro p hp
    have hmem : p ∈ ρ := hρ.mem_iff.mpr (List.mem_range.mpr (hpm p hp))
    have hlt : ρ.idxOf p < ρ.length := List.idxOf_lt_length_iff.mpr hmem
    rw [permuteRows_row v n hv ρ hρr _ hlt, List.getElem_idxOf hlt]
  unfold permuteRows at hdata ⊢
  simp only [List.length_map, List.tail_cons]
  rw [hdata]

/-- **relabelled copies sort to identical points and identical point fields (C02's model).**
    `R` stores the mesh of `S` with the points in the order `ρ` (cells/blocks in any order:
    `Relabeled`) and the point fields relabelled accordingly.  Under the hypotheses of
    `C02_canonical_points`, for ANY two argsort routines both `sort_points` succeed and the sorted
    views have the same point coordinates and the same point-field arrays, entry by entry. -/
theorem sorted_fields_identical {as1 as2 : List Int → List Nat} (h1 : IsArgsort as1) (h2 : IsArgsort as2)
    {t1 t2 : MeshTol} {A B1 M1 B2 M2 : Nat} {S R : MeshFields} {c1 c2 : List (List Int)} {ρ : List Nat}
    (hy1 : PointHypP t1 A B1 M1 S.mesh c1) (hy2 : PointHypP t2 A B2 M2 R.mesh c2)
    (hc : ∀ x, x ∈ c1 ↔ x ∈ c2) (hrel : Relabeled S.mesh R.mesh ρ)
    (hpf : R.pointFields = relabelPointFields ρ S.pointFields)
    (hrows : ∀ pf ∈ S.pointFields, pf.values.hasRows S.mesh.points.length)
    (hn1 : S.mesh.points ≠ [])
    (hdist : ∀ a ∈ pitems S.mesh, ∀ b ∈ pitems S.mesh,
      kvec (KC A S.mesh) S.mesh.dim 0 a = kvec (KC A S.mesh) S.mesh.dim 0 b →
      kvec (KM A c1 as1 t1 S.mesh) S.mesh.dim 0 a = kvec (KM A c1 as1 t1 S.mesh) S.mesh.dim 0 b → a = b) :
    ∃ S' R' pm, C02.sortPoints as1 t1 S = some S' ∧ C02.sortPoints as2 t2 R = some R' ∧
      S'.mesh.points = R'.mesh.points ∧ S'.pointFields = R'.pointFields ∧
      S'.pointFields = relabelPointFields pm S.pointFields := by
  obtain ⟨L1, L2, e1, e2, hmap, hcoords⟩ := C02_canonical_points h1 h2 hy1 hy2 hc hrel hn1 hdist
  obtain ⟨L1', e1', p1, _⟩ := C02_sort_points_sorted h1 hy1 hn1
  rw [e1] at e1'; cases e1'
  have hn2 : R.mesh.points ≠ [] := by
    intro h0
    have hl : R.mesh.points.length = S.mesh.points.length := by
      rw [hrel.points, List.length_map, hrel.length]
    rw [h0] at hl
    exact hn1 (List.length_eq_zero_iff.mp hl.symm)
  obtain ⟨L2', e2', p2, _⟩ := C02_sort_points_sorted h2 hy2 hn2
  rw [e2] at e2'; cases e2'
  obtain ⟨hc1, hperm1⟩ := items_perm_facts S.mesh L1 p1
  obtain ⟨hc2, _⟩ := items_perm_facts R.mesh L2 p2
  have hpm2 : L2.map (·.1) = (L1.map (·.1)).map ρ.idxOf := by
    rw [← hmap, List.map_map, List.map_map]; rfl
  refine ⟨applyPointMap S (L1.map (·.1)), applyPointMap R (L2.map (·.1)), L1.map (·.1), ?_, ?_, ?_, ?_, rfl⟩
  · unfold C02.sortPoints sortPointsIdx; rw [e1]; rfl
  · unfold C02.sortPoints sortPointsIdx; rw [e2]; rfl
  · show (L1.map (·.1)).map (fun i => S.mesh.points.getD i []) = (L2.map (·.1)).map (fun i => R.mesh.points.getD i [])
    rw [← hc1, ← hc2, hcoords]
  · show S.pointFields.map _ = R.pointFields.map _
    rw [hpf, relabelPointFields, List.map_map]
    apply List.map_congr_left
    intro pf hpfm
    simp only [Function.comp]
    rw [hpm2, permuteRows_comp pf.values _ (hrows pf hpfm) ρ (L1.map (·.1)) hrel.perm
      (fun p hp => List.mem_range.mp (hperm1.mem_iff.mp hp))]

/-- C02's model of `fieldcompare.mesh.sort` (strip orphans, sort points with the tolerances of the
    mesh itself, sort cells) as the `sortF` parameter of C14's CLI model; a raise leaves the data set
    as it is (it does not happen under the hypotheses of `C14_reordered_zero`) -/
def sortC02 (as : List Int → List Nat) (h : List Nat → Int) (f : MeshFields) : MeshFields :=
  (C02.sortMesh as h (meshTolOf f.mesh) f).getD f

theorem sortC02_pointFields (as : List Int → List Nat) (h : List Nat → Int) (f f' : MeshFields)
    (hs : C02.sortPoints as (meshTolOf f.mesh) (stripOrphans as f) = some f') :
    (sortC02 as h f).pointFields = f'.pointFields := by
  unfold sortC02 sortMesh
  rw [hs]
  rfl

end Fc.Glue
