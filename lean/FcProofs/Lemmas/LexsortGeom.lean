/-
  FcProofs.Lemmas.LexsortGeom — canonicity of the point sort from a *geometric* correspondence:
  if the points of two meshes correspond one-to-one such that corresponding points have the same
  coordinates and the same adjacent cell centres up to order (`SameGeometry` — what a relabelling
  of points, cells and cell-type blocks produces), the two sorted point sequences correspond
  position by position; in particular the sorted coordinates are identical.
-/
import FcProofs.Lemmas.LexsortHyp
namespace Fc.C02
open Fc.C02.Spec

/-- one-to-one correspondence `σ` of the point items of `m1` with those of `m2`: same coordinates,
    same adjacent cell centres up to order (both sides raise / are not finite together) -/
structure SameGeometry (m1 m2 : Mesh) (σ : PItem → PItem) : Prop where
  dim : m1.dim = m2.dim
  onto : ((pitems m1).map σ).Perm (pitems m2)
  row : ∀ a ∈ pitems m1, (σ a).2 = a.2
  centres : ∀ a ∈ pitems m1,
    (centresOf m1 a.1 = none ∧ centresOf m2 (σ a).1 = none) ∨
    (∃ c1 c2, centresOf m1 a.1 = some c1 ∧ centresOf m2 (σ a).1 = some c2 ∧ c1.Perm c2)

theorem KG_congr {A : Nat} {c1 c2 : List (List Int)} (hc : ∀ x, x ∈ c1 ↔ x ∈ c2) : KG A c1 = KG A c2 := by
  funext j r
  unfold KG colKey
  apply clusterKey_congr
  intro w
  constructor
  · intro hw
    obtain ⟨x, hx, rfl⟩ := List.mem_map.mp hw
    exact List.mem_map_of_mem ((hc x).mp hx)
  · intro hw
    obtain ⟨x, hx, rfl⟩ := List.mem_map.mp hw
    exact List.mem_map_of_mem ((hc x).mpr hx)

section geom
variable {as1 as2 : List Int → List Nat} {t1 t2 : MeshTol} {A B1 M1 B2 M2 : Nat} {m1 m2 : Mesh}
  {c1 c2 : List (List Int)} {σ : PItem → PItem}

/-- coordinate key vectors correspond -/
theorem geom_KC (geo : SameGeometry m1 m2 σ) {a : PItem} (ha : a ∈ pitems m1) :
    kvec (KC A m2) m2.dim 0 (σ a) = kvec (KC A m1) m1.dim 0 a := by
  rw [← geo.dim]
  apply kvec_congr
  intro i _ _
  unfold KC colKey
  have hrow : pkey i (σ a) = pkey i a := by simp only [pkey, geo.row a ha]
  rw [hrow]
  apply clusterKey_congr
  intro w
  constructor
  · intro hw
    obtain ⟨y, hy, rfl⟩ := List.mem_map.mp hw
    obtain ⟨b, hb, rfl⟩ := List.mem_map.mp (geo.onto.mem_iff.mpr hy)
    exact List.mem_map.mpr ⟨b, hb, by simp only [pkey, geo.row b hb]⟩
  · intro hw
    obtain ⟨b, hb, rfl⟩ := List.mem_map.mp hw
    exact List.mem_map.mpr ⟨σ b, geo.onto.mem_iff.mp (List.mem_map_of_mem hb), by simp only [pkey, geo.row b hb]⟩

/-- minimal-centre key vectors correspond, for points whose centres are among the candidates -/
theorem geom_KM (h1 : IsArgsort as1) (h2 : IsArgsort as2) (hy1 : PointHypP t1 A B1 M1 m1 c1)
    (hy2 : PointHypP t2 A B2 M2 m2 c2) (hc : ∀ x, x ∈ c1 ↔ x ∈ c2) (geo : SameGeometry m1 m2 σ)
    {a : PItem} (ha : a ∈ pitems m1) {cs : List (List Int)} (hcs : centresOf m1 a.1 = some cs)
    (hsub : ∀ c ∈ cs, c ∈ c1) :
    kvec (KM A c2 as2 t2 m2) m2.dim 0 (σ a) = kvec (KM A c1 as1 t1 m1) m1.dim 0 a := by
  rcases geo.centres a ha with ⟨hn, _⟩ | ⟨cs1, cs2, e1, e2, hp⟩
  · rw [hcs] at hn; exact absurd hn (by simp)
  · rw [hcs] at e1
    have : cs = cs1 := Option.some.inj e1
    subst this
    have hsub2 : ∀ c ∈ cs2, c ∈ c2 := fun c hc2 => (hc c).mp (hsub c (hp.mem_iff.mpr hc2))
    obtain ⟨x1, ex1, mx1, min1⟩ := minCentre_spec h1 hy1.sepC hy1.dimPos hcs hsub
    obtain ⟨x2, ex2, mx2, min2⟩ := minCentre_spec h2 hy2.sepC hy2.dimPos e2 hsub2
    unfold KM
    rw [kvec_comp (KG A c2) (mcD as2 t2 m2) (σ a), kvec_comp (KG A c1) (mcD as1 t1 m1) a]
    simp only [mcD, ex1, ex2, Option.getD_some]
    rw [← KG_congr hc, ← geo.dim] at *
    exact lexLE_antisymm _ _ _ _ _ (min2 x1 (hp.mem_iff.mp mx1)) (min1 x2 (hp.mem_iff.mpr mx2))

/-- **canonicity of the point sort from geometry.**  Under `SameGeometry`, `PointHypP` on both
    sides (same margin `A`, candidate lists with the same members) and distinguishability on side 1:
    the sorted point sequence of `m2` is the image of that of `m1` — for any two `argsort` routines. -/
theorem sortPoints_canonical_geom (h1 : IsArgsort as1) (h2 : IsArgsort as2)
    (hy1 : PointHypP t1 A B1 M1 m1 c1) (hy2 : PointHypP t2 A B2 M2 m2 c2)
    (hc : ∀ x, x ∈ c1 ↔ x ∈ c2) (geo : SameGeometry m1 m2 σ) (hn1 : m1.points ≠ []) (hn2 : m2.points ≠ [])
    (hdist : ∀ a ∈ pitems m1, ∀ b ∈ pitems m1, kvec (KC A m1) m1.dim 0 a = kvec (KC A m1) m1.dim 0 b →
      kvec (KM A c1 as1 t1 m1) m1.dim 0 a = kvec (KM A c1 as1 t1 m1) m1.dim 0 b → a = b) :
    ∃ L1 L2, sortPointsItems as1 t1 m1 = some L1 ∧ sortPointsItems as2 t2 m2 = some L2 ∧ L1.map σ = L2 := by
  obtain ⟨L1, e1, p1, s1⟩ := sortPointsItems_spec h1 hy1 hn1
  obtain ⟨L2, e2, p2, s2⟩ := sortPointsItems_spec h2 hy2 hn2
  refine ⟨L1, L2, e1, e2, ?_⟩
  have hnd1 : L1.Pairwise (· ≠ ·) := (p1.nodup_iff).mpr (pitems_nodup m1)
  -- centres of two different points with equal coordinate keys are among the candidates
  have hcent : ∀ a ∈ pitems m1, ∀ b ∈ pitems m1, a ≠ b →
      kvec (KC A m1) m1.dim 0 a = kvec (KC A m1) m1.dim 0 b →
      kvec (KM A c2 as2 t2 m2) m2.dim 0 (σ a) = kvec (KM A c1 as1 t1 m1) m1.dim 0 a := by
    intro a ha b hb hab hk
    obtain ⟨cs, hcs, hsub⟩ := hy1.centres a ha b hb hab hk
    exact geom_KM h1 h2 hy1 hy2 hc geo ha hcs hsub
  have s1' : (L1.map σ).Pairwise (le2 (KC A m2) (KM A c2 as2 t2 m2) m2.dim) := by
    rw [List.pairwise_map]
    refine (s1.and hnd1).imp_of_mem ?_
    intro a b ha hb hab
    obtain ⟨hle, hne⟩ := hab
    have ha' := p1.mem_iff.mp ha
    have hb' := p1.mem_iff.mp hb
    have ka := geom_KC (A := A) geo ha'
    have kb := geom_KC (A := A) geo hb'
    rw [← geo.dim] at ka kb ⊢
    refine ⟨lexLE_congr (KC A m1) (KC A m2) m1.dim 0 a b _ _ ka.symm kb.symm hle.1, fun he => ?_⟩
    have hk : kvec (KC A m1) m1.dim 0 a = kvec (KC A m1) m1.dim 0 b := by rw [← ka, ← kb, he]
    have ma := hcent a ha' b hb' hne hk
    have mb := hcent b hb' a ha' (Ne.symm hne) hk.symm
    rw [← geo.dim] at ma mb
    exact lexLE_congr (KM A c1 as1 t1 m1) (KM A c2 as2 t2 m2) m1.dim 0 a b _ _ ma.symm mb.symm (hle.2 hk)
  refine List.Perm.eq_of_pairwise ?_ s1' s2 (((p1.map σ).trans geo.onto).trans p2.symm)
  intro x y hx hy hxy hyx
  obtain ⟨ek, em⟩ := le2_antisymm hxy hyx
  obtain ⟨a, ha, rfl⟩ := List.mem_map.mp hx
  obtain ⟨b, hb, rfl⟩ := List.mem_map.mp (geo.onto.mem_iff.mpr (p2.mem_iff.mp hy))
  have ha' := p1.mem_iff.mp ha
  by_cases hab : a = b
  · rw [hab]
  · have hk : kvec (KC A m1) m1.dim 0 a = kvec (KC A m1) m1.dim 0 b := by
      rw [← geom_KC (A := A) geo ha', ← geom_KC (A := A) geo hb, ek]
    have ma := hcent a ha' b hb hab hk
    have mb := hcent b hb a ha' (Ne.symm hab) hk.symm
    have := hdist a ha' b hb hk (by rw [← ma, ← mb, em])
    exact absurd this hab

end geom
end Fc.C02
