/-
  Lemmas.C18Comp — the compressed-payload reader (`compReadE`) on a strict prefix of what is stored for a
  compressed array.  Proved once for an abstract encoder that is "prefix safe" (decoding a strict prefix of an
  encoding raises or yields a strict prefix of the encoded bytes); base64 and raw are instances.
-/
import FcProofs.Lemmas.PrefixW
namespace Fc.W

/-! ### list facts -/

theorem take_take_append {α} (a b : List α) (m : Nat) : ((a ++ b).take m).take a.length = a.take m := by
  rw [List.take_take]
  by_cases h : m ≤ a.length
  · rw [Nat.min_eq_right h, List.take_append_of_le_length h]
  · have h' : a.length ≤ m := by omega
    rw [Nat.min_eq_left h', List.take_append_of_le_length (Nat.le_refl _), List.take_of_length_le (Nat.le_refl _),
      List.take_of_length_le h']

theorem drop_take_append {α} (a b : List α) (m : Nat) : ((a ++ b).take m).drop a.length = b.take (m - a.length) := by
  rw [List.drop_take, List.drop_left]

theorem sumList_append (a b : List Nat) : sumList (a ++ b) = sumList a + sumList b := by
  induction a with
  | nil => simp [sumList]
  | cons x r ih => simp only [sumList, List.cons_append, List.foldr_cons] at ih ⊢; omega

theorem flatten_length_sumList (L : List (List Nat)) : L.flatten.length = sumList (L.map List.length) := by
  induction L with
  | nil => rfl
  | cons x r ih => simp only [List.flatten_cons, List.length_append, ih, List.map_cons, sumList, List.foldr_cons]

/-- `np.cumsum` entries are the partial sums -/
theorem offsetsOf_getD : ∀ (S : List Nat) (acc i : Nat), i ≤ S.length →
    (offsetsOf acc S).getD i 0 = acc + sumList (S.take i)
  | [], acc, i, h => by
    have : i = 0 := by simpa using h
    subst this; simp [offsetsOf, sumList]
  | x :: r, acc, 0, _ => by simp [offsetsOf, sumList]
  | x :: r, acc, i + 1, h => by
    have ih := offsetsOf_getD r (acc + x) i (by simpa using h)
    simp only [offsetsOf, List.getD_cons_succ, ih, List.take_succ_cons, sumList, List.foldr_cons]
    omega

/-- the `i`-th list of a concatenation, cut out by the partial sums of the lengths -/
theorem flatten_slice : ∀ (L : List (List Nat)) (i : Nat), i < L.length →
    (L.flatten.drop (sumList ((L.map List.length).take i))).take (L.getD i []).length = L.getD i []
  | [], i, h => by simp at h
  | x :: r, 0, _ => by simp [sumList]
  | x :: r, i + 1, h => by
    have ih := flatten_slice r i (by simpa using h)
    simp only [List.flatten_cons, List.map_cons, List.take_succ_cons, sumList, List.foldr_cons, List.getD_cons_succ]
    simp only [sumList] at ih
    rw [List.drop_append, List.drop_of_length_le (by omega), List.nil_append]
    have : x.length + List.foldr (· + ·) 0 (List.take i (List.map List.length r)) - x.length =
        List.foldr (· + ·) 0 (List.take i (List.map List.length r)) := by omega
    rw [this]
    exact ih

theorem mapM'_none {α β} (f : α → Option β) : ∀ (l : List α) (x : α), x ∈ l → f x = none → mapM' f l = none
  | y :: r, x, hx, hf => by
    rcases List.mem_cons.mp hx with e | e
    · subst e; simp [mapM', hf]
    · have := mapM'_none f r x e hf
      simp only [mapM', this]
      cases f y <;> rfl

theorem mapM'_some {α β} (f : α → Option β) (g : α → β) : ∀ (l : List α) (ys : List β),
    (∀ x ∈ l, ∀ y, f x = some y → y = g x) → mapM' f l = some ys → ys = l.map g
  | [], ys, _, h => by simp only [mapM', Option.some.injEq] at h; subst h; rfl
  | x :: r, ys, hg, h => by
    simp only [mapM'] at h
    cases hx : f x with
    | none => rw [hx] at h; cases h
    | some y =>
      cases hr : mapM' f r with
      | none => rw [hx, hr] at h; cases h
      | some ys' =>
        rw [hx, hr] at h
        simp only [Option.some.injEq] at h
        subst h
        rw [List.map_cons, hg x (by simp) y hx, mapM'_some f g r ys' (fun z hz => hg z (by simp [hz])) hr]

theorem map_range_getD {α} (L : List α) (dflt : α) (k : Nat) (h : k ≤ L.length) :
    (List.range k).map (fun i => L.getD i dflt) = L.take k := by
  apply List.ext_getElem
  · simp [Nat.min_eq_left h]
  · intro i h1 h2
    simp only [List.length_map, List.length_range] at h1
    simp [List.getD_eq_getElem?_getD, List.getElem?_eq_getElem (show i < L.length by omega)]

/-! ### items ↔ bytes on prefixes -/

theorem itemsToBytes_take (h : Nat) : ∀ (xs : List Nat) (q : Nat),
    (itemsToBytes h xs).take (q * h) = itemsToBytes h (xs.take q)
  | [], q => by simp [itemsToBytes]
  | x :: r, 0 => by simp [itemsToBytes]
  | x :: r, q + 1 => by
    have e : ∀ l, itemsToBytes h (x :: l) = leBytes h x ++ itemsToBytes h l := by intro l; simp [itemsToBytes]
    rw [List.take_succ_cons, e, e, List.take_append, leBytes_length,
      List.take_of_length_le (by rw [leBytes_length]; rw [Nat.add_mul]; omega)]
    have : (q + 1) * h - h = q * h := by rw [Nat.add_mul]; omega
    rw [this, itemsToBytes_take h r q]

/-- `np.frombuffer` on the first `j` bytes of `xs.tobytes()`: an error or the first `j / h` items -/
theorem frombuffer_take (h : Nat) (xs : List Nat) (hx : ∀ x ∈ xs, x < 256 ^ h) (j : Nat)
    (hj : j ≤ (itemsToBytes h xs).length) (ys : List Nat)
    (hf : frombuffer h ((itemsToBytes h xs).take j) = some ys) : ys = xs.take (j / h) ∧ j % h = 0 ∧ h ≠ 0 := by
  unfold frombuffer at hf
  rw [List.length_take, Nat.min_eq_left hj] at hf
  by_cases hc : h = 0 ∨ j % h ≠ 0
  · rw [if_pos hc] at hf; cases hf
  · rw [if_neg hc] at hf
    have h0 : h ≠ 0 := by omega
    have hm : j % h = 0 := by omega
    have hq : j = j / h * h := by
      have := Nat.div_add_mod j h
      rw [hm, Nat.add_zero, Nat.mul_comm] at this
      exact this.symm
    have hf2 : frombuffer h ((itemsToBytes h xs).take j) = some ys := by
      unfold frombuffer
      rw [List.length_take, Nat.min_eq_left hj, if_neg hc]; exact hf
    rw [hq, itemsToBytes_take] at hf2
    rw [frombuffer_itemsToBytes h0 _ (fun x hx' => hx x (List.mem_of_mem_take hx'))] at hf2
    exact ⟨(Option.some.inj hf2).symm, hm, h0⟩

/-! ### prefix-safe encoders -/

/-- what the proof needs from the encoder -/
structure SafeEnc (E : Enc) : Prop where
  dec_nil : E.decode [] = some []
  dec_enc : ∀ x : Bytes, (∀ b ∈ x, b < 256) → E.decode (E.encode x) = some x
  enc_len : ∀ x : Bytes, (E.encode x).length = E.encodedBytes x.length
  eb_ge : ∀ n, n ≤ E.encodedBytes n
  dec_take : ∀ x : Bytes, (∀ b ∈ x, b < 256) → ∀ j, j < (E.encode x).length → ∀ out,
    E.decode ((E.encode x).take j) = some out → ∃ t, t < x.length ∧ out = x.take t
  /-- the header `[#blocks, block size, last]` and the block sizes may be encoded as one stream -/
  enc_split : ∀ (h : Nat) (x y : Bytes), x.length = 3 * h → E.encode (x ++ y) = E.encode x ++ E.encode y

theorem b64enc_append3 : ∀ (n : Nat) (x y : Bytes), x.length = 3 * n → b64enc (x ++ y) = b64enc x ++ b64enc y
  | 0, x, y, h => by
    have : x = [] := List.eq_nil_of_length_eq_zero (by simpa using h)
    subst this; simp [b64enc]
  | n + 1, a :: b :: c :: r, y, h => by
    have hr : r.length = 3 * n := by simp only [List.length_cons] at h; omega
    simp only [List.cons_append, b64enc, b64enc_append3 n r y hr]
  | n + 1, [], _, h => by simp only [List.length_cons, List.length_nil] at h; omega
  | n + 1, [_], _, h => by simp only [List.length_cons, List.length_nil] at h; omega
  | n + 1, [_, _], _, h => by simp only [List.length_cons, List.length_nil] at h; omega

theorem safe_raw : SafeEnc rawE where
  dec_nil := rfl
  dec_enc := fun _ _ => rfl
  enc_len := fun _ => rfl
  eb_ge := fun _ => Nat.le_refl _
  dec_take := by
    intro x _ j hj out ho
    simp only [rawE, id] at hj ho
    exact ⟨j, hj, (Option.some.inj ho).symm⟩
  enc_split := fun _ _ _ _ => rfl

theorem safe_b64 : SafeEnc b64E where
  dec_nil := by simp [b64E, b64dec, decGo]
  dec_enc := fun x hx => b64dec_b64enc x hx
  enc_len := fun x => b64enc_length x
  eb_ge := by intro n; simp only [b64E]; omega
  dec_take := by
    intro x hx j hj out ho
    simp only [b64E] at hj ho
    have hp : (b64enc x).take j <+: b64enc x := List.take_prefix _ _
    have hne : (b64enc x).take j ≠ b64enc x := by
      intro e
      have := congrArg List.length e
      rw [List.length_take] at this
      omega
    obtain ⟨k, hk, hk2⟩ := b64dec_strict_prefix x hx _ hp hne out ho
    exact ⟨3 * k, hk2, hk⟩
  enc_split := fun h x y hx => b64enc_append3 h x y hx

/-! ### the blocks of a compressed array -/

theorem sumList_take_succ : ∀ (S : List Nat) (i : Nat), i < S.length →
    sumList (S.take (i + 1)) = sumList (S.take i) + S.getD i 0
  | [], i, h => by simp at h
  | x :: r, 0, _ => by simp [sumList]
  | x :: r, i + 1, h => by
    have ih := sumList_take_succ r i (by simpa using h)
    simp only [sumList, List.take_succ_cons, List.foldr_cons, List.getD_cons_succ] at ih ⊢
    omega

/-- the block a byte position falls into -/
theorem find_block : ∀ (S : List Nat) (m : Nat), m < sumList S →
    ∃ j, j < S.length ∧ sumList (S.take j) ≤ m ∧ m < sumList (S.take (j + 1))
  | [], m, h => by simp [sumList] at h
  | x :: r, m, h => by
    by_cases hx : m < x
    · refine ⟨0, by simp, by simp [sumList], ?_⟩
      simpa [sumList] using hx
    · have hlt : m - x < sumList r := by
        simp only [sumList, List.foldr_cons] at h ⊢; omega
      obtain ⟨j, hj, h1, h2⟩ := find_block r (m - x) hlt
      refine ⟨j + 1, by simpa using hj, ?_, ?_⟩
      · simp only [List.take_succ_cons, sumList, List.foldr_cons] at h1 ⊢; omega
      · simp only [List.take_succ_cons, sumList, List.foldr_cons] at h2 ⊢; omega

/-- what `decoded[offsets[i] : offsets[i + 1]]` is when only the first `m` bytes of the blocks are there -/
theorem block_arg (L : List Bytes) (i m : Nat) (hi : i < L.length) :
    ((L.flatten.take m).take (sumList ((L.map List.length).take (i + 1)))).drop (sumList ((L.map List.length).take i))
      = (L.getD i []).take
          (min (sumList ((L.map List.length).take (i + 1))) m - sumList ((L.map List.length).take i)) := by
  have hs := flatten_slice L i hi
  have h1 := sumList_take_succ (L.map List.length) i (by simpa using hi)
  have hg : (L.map List.length).getD i 0 = (L.getD i []).length := by
    simp [List.getD_eq_getElem?_getD, List.getElem?_eq_getElem hi]
  rw [hg] at h1
  generalize sumList ((L.map List.length).take (i + 1)) = o1 at *
  generalize sumList ((L.map List.length).take i) = o0 at *
  rw [List.take_take, List.drop_take]
  conv => rhs; rw [← hs]
  rw [List.take_take]
  congr 1
  omega

theorem mapM'_len_le {α} (f : α → Option Bytes) (w : α → Nat) : ∀ (l : List α) (ys : List Bytes),
    (∀ x ∈ l, ∀ y, f x = some y → y.length ≤ w x) → mapM' f l = some ys → ys.flatten.length ≤ sumList (l.map w)
  | [], ys, _, h => by simp only [mapM', Option.some.injEq] at h; subst h; simp [sumList]
  | x :: r, ys, hw, h => by
    simp only [mapM'] at h
    cases hx : f x with
    | none => rw [hx] at h; cases h
    | some y =>
      cases hr : mapM' f r with
      | none => rw [hx, hr] at h; cases h
      | some ys' =>
        rw [hx, hr] at h
        simp only [Option.some.injEq] at h
        subst h
        have ih := mapM'_len_le f w r ys' (fun z hz => hw z (by simp [hz])) hr
        have := hw x (by simp) y hx
        simp only [List.flatten_cons, List.length_append, List.map_cons, sumList, List.foldr_cons] at ih ⊢
        omega

theorem mapM'_len_lt {α} (f : α → Option Bytes) (w : α → Nat) (x0 : α) : ∀ (l : List α) (ys : List Bytes),
    (∀ x ∈ l, ∀ y, f x = some y → y.length ≤ w x) → x0 ∈ l → (∀ y, f x0 = some y → y.length < w x0) →
    mapM' f l = some ys → ys.flatten.length < sumList (l.map w)
  | [], _, _, hm, _, _ => by simp at hm
  | x :: r, ys, hw, hm, h0, h => by
    simp only [mapM'] at h
    cases hx : f x with
    | none => rw [hx] at h; cases h
    | some y =>
      cases hr : mapM' f r with
      | none => rw [hx, hr] at h; cases h
      | some ys' =>
        rw [hx, hr] at h
        simp only [Option.some.injEq] at h
        subst h
        have hle := mapM'_len_le f w r ys' (fun z hz => hw z (by simp [hz])) hr
        have hy := hw x (by simp) y hx
        simp only [List.flatten_cons, List.length_append, List.map_cons, sumList, List.foldr_cons] at hle ⊢
        rcases List.mem_cons.mp hm with e | e
        · subst e
          have := h0 y hx
          omega
        · have ih := mapM'_len_lt f w x0 r ys' (fun z hz => hw z (by simp [hz])) e h0 hr
          simp only [sumList] at ih
          omega

theorem sum_range_lengths (L : List Bytes) (k : Nat) (hk : k ≤ L.length) :
    sumList ((List.range k).map fun i => (L.getD i []).length) = (L.take k).flatten.length := by
  rw [flatten_length_sumList, ← map_range_getD L [] k hk, List.map_map]
  rfl

/-- **the block loop on a prefix.**  `k` block sizes are known, only the first `m` bytes of the compressed
    blocks are there.  Codec: `decompress ∘ compress = id` on the blocks; a strict prefix of a compressed block
    raises or decompresses to FEWER bytes than the block has (zlib / lzma always raise; an LZ4 block has no end
    marker and can decode to a shorter output).  If the loop succeeds, what it returns is no longer than the first
    `k` blocks, and strictly shorter if some of their compressed bytes are missing. -/
theorem blocks_core (compress : Bytes → Bytes) (decompress : Bytes → Option Bytes) (blocks : List Bytes)
    (H1 : ∀ b ∈ blocks, decompress (compress b) = some b)
    (H2 : ∀ b ∈ blocks, ∀ t, t < (compress b).length → ∀ y, decompress ((compress b).take t) = some y →
      y.length < b.length)
    (k m : Nat) (hk : k ≤ blocks.length) (bs : List Nat)
    (hbs : bs = (((blocks.map compress).map List.length).take k)) (parts : List Bytes)
    (hmap : mapM' (fun i => decompress (List.drop ((offsetsOf 0 bs).getD i 0)
        (List.take ((offsetsOf 0 bs).getD (i + 1) 0) ((blocks.map compress).flatten.take m))))
        (List.range bs.length) = some parts) :
    parts.flatten.length ≤ (blocks.take k).flatten.length ∧
      (m < sumList bs → parts.flatten.length < (blocks.take k).flatten.length) := by
  have hlen : bs.length = k := by rw [hbs]; simp [Nat.min_eq_left hk]
  -- the argument of the codec for block i < k
  have harg : ∀ i, i < k → List.drop ((offsetsOf 0 bs).getD i 0)
        (List.take ((offsetsOf 0 bs).getD (i + 1) 0) ((blocks.map compress).flatten.take m)) =
      (compress (blocks.getD i [])).take (min (sumList (bs.take (i + 1))) m - sumList (bs.take i)) := by
    intro i hi
    have hi' : i < (blocks.map compress).length := by simp; omega
    rw [offsetsOf_getD bs 0 i (by omega), offsetsOf_getD bs 0 (i + 1) (by omega), Nat.zero_add, Nat.zero_add]
    have t1 : bs.take i = ((blocks.map compress).map List.length).take i := by
      rw [hbs, List.take_take, Nat.min_eq_left (by omega)]
    have t2 : bs.take (i + 1) = ((blocks.map compress).map List.length).take (i + 1) := by
      rw [hbs, List.take_take, Nat.min_eq_left (by omega)]
    rw [t1, t2, block_arg _ i m hi']
    congr 1
    simp [List.getD_eq_getElem?_getD, List.getElem?_eq_getElem (show i < blocks.length by omega)]
  have hmem : ∀ i, i < k → blocks.getD i [] ∈ blocks := by
    intro i hi
    simp [List.getD_eq_getElem?_getD, List.getElem?_eq_getElem (show i < blocks.length by omega)]
  have hsz : ∀ i, i < k → sumList (bs.take (i + 1)) = sumList (bs.take i) + (compress (blocks.getD i [])).length := by
    intro i hi
    rw [sumList_take_succ bs i (by omega)]
    congr 1
    rw [hbs]
    simp [List.getD_eq_getElem?_getD, hi, List.getElem?_eq_getElem (show i < blocks.length by omega)]
  -- no block comes out longer than it is
  have hle : ∀ i ∈ List.range bs.length, ∀ y, decompress (List.drop ((offsetsOf 0 bs).getD i 0)
        (List.take ((offsetsOf 0 bs).getD (i + 1) 0) ((blocks.map compress).flatten.take m))) = some y →
      y.length ≤ (blocks.getD i []).length := by
    intro i hi y hy
    have hi : i < k := by rw [hlen] at hi; exact List.mem_range.mp hi
    rw [harg i hi] at hy
    by_cases hlt : min (sumList (bs.take (i + 1))) m - sumList (bs.take i) < (compress (blocks.getD i [])).length
    · exact Nat.le_of_lt (H2 _ (hmem i hi) _ hlt y hy)
    · rw [List.take_of_length_le (by omega), H1 _ (hmem i hi)] at hy
      rw [← Option.some.inj hy]
      exact Nat.le_refl _
  rw [← sum_range_lengths blocks k hk, ← hlen]
  constructor
  · exact mapM'_len_le _ _ _ parts hle hmap
  · intro hcon
    obtain ⟨j, hj, h1, h2⟩ := find_block bs m hcon
    have hjk : j < k := by omega
    refine mapM'_len_lt _ _ j _ parts hle (List.mem_range.mpr hj) ?_ hmap
    intro y hy
    rw [harg j hjk] at hy
    apply H2 _ (hmem j hjk) _ _ y hy
    have := hsz j hjk
    omega

/-! ### blocks of a payload -/

theorem chunksAux_spec (bsz : Nat) (hb : 0 < bsz) : ∀ (fuel : Nat) (bs : Bytes), bs.length ≤ fuel →
    (chunksAux bsz fuel bs).flatten = bs ∧ ∀ b ∈ chunksAux bsz fuel bs, b ≠ []
  | 0, bs, h => by
    have : bs = [] := List.eq_nil_of_length_eq_zero (by omega)
    subst this; simp [chunksAux]
  | fuel + 1, bs, h => by
    unfold chunksAux
    cases bs with
    | nil => simp
    | cons x r =>
      have hlen : ((x :: r).drop bsz).length ≤ fuel := by
        rw [List.length_drop]; simp only [List.length_cons] at h ⊢; omega
      obtain ⟨ih1, ih2⟩ := chunksAux_spec bsz hb fuel ((x :: r).drop bsz) hlen
      simp only [List.isEmpty_cons, Bool.false_eq_true, if_false, List.flatten_cons, ih1, List.take_append_drop,
        List.mem_cons, true_and]
      intro b hb'
      rcases hb' with rfl | hb'
      · cases bsz with
        | zero => omega
        | succ k => simp
      · exact ih2 b hb'

theorem chunks_flatten (bsz : Nat) (hb : 0 < bsz) (bs : Bytes) : (chunks bsz bs).flatten = bs :=
  (chunksAux_spec bsz hb bs.length bs (Nat.le_refl _)).1

theorem chunks_ne_nil (bsz : Nat) (hb : 0 < bsz) (bs : Bytes) : ∀ b ∈ chunks bsz bs, b ≠ [] :=
  (chunksAux_spec bsz hb bs.length bs (Nat.le_refl _)).2

theorem length_le_flatten_length : ∀ (L : List Bytes), (∀ b ∈ L, b ≠ []) → L.length ≤ L.flatten.length
  | [], _ => by simp
  | x :: r, h => by
    have ih := length_le_flatten_length r (fun b hb => h b (by simp [hb]))
    have hx : 0 < x.length := List.length_pos_iff.mpr (h x (by simp))
    simp only [List.length_cons, List.flatten_cons, List.length_append]
    omega

/-- the first `k < n` blocks are shorter than the array -/
theorem flatten_take_lt (L : List Bytes) (hL : ∀ b ∈ L, b ≠ []) (k : Nat) (hk : k < L.length) :
    (L.take k).flatten.length < L.flatten.length := by
  have e : L.flatten = (L.take k).flatten ++ (L.drop k).flatten := by
    rw [← List.flatten_append, List.take_append_drop]
  have hd : (L.drop k).length ≤ (L.drop k).flatten.length :=
    length_le_flatten_length _ (fun b hb => hL b (List.mem_of_mem_drop hb))
  rw [List.length_drop] at hd
  rw [e, List.length_append]
  omega

/-! ### the reader on a strict prefix -/

theorem itemsToBytes_append (h : Nat) (a b : List Nat) :
    itemsToBytes h (a ++ b) = itemsToBytes h a ++ itemsToBytes h b := by
  simp [itemsToBytes, List.flatMap_append]

/-- **the compressed reader on a strict prefix**: whatever it returns is shorter than the array. -/
theorem compRead_prefix (h : Nat) (E : Enc) (hE : SafeEnc E) (compress : Bytes → Bytes)
    (decompress : Bytes → Option Bytes) (bsz last : Nat) (blocks : List Bytes) (hh : h ≠ 0) (hne : blocks ≠ [])
    (hb : ∀ b ∈ blocks, ∀ x ∈ compress b, x < 256)
    (hn : blocks.length < 256 ^ h) (hbsz : bsz < 256 ^ h) (hlast : last < 256 ^ h)
    (hsz : ∀ b ∈ blocks, (compress b).length < 256 ^ h)
    (H1 : ∀ b ∈ blocks, decompress (compress b) = some b)
    (H2 : ∀ b ∈ blocks, ∀ t, t < (compress b).length → ∀ y, decompress ((compress b).take t) = some y →
      y.length < b.length)
    (hbl : ∀ b ∈ blocks, b ≠ [])
    (m : Nat) (hm : m < (encodeCompE h E compress bsz last blocks).length) (out : Bytes)
    (hr : compReadE h E decompress ((encodeCompE h E compress bsz last blocks).take m) = some out) :
    out.length < blocks.flatten.length := by
  have hn0 : 0 < blocks.length := List.length_pos_iff.mpr hne
  have hpos : 0 < blocks.flatten.length := by
    have := length_le_flatten_length blocks hbl
    omega
  -- the three encoded streams
  have hH3len : (itemsToBytes h [blocks.length, bsz, last]).length = 3 * h := by
    rw [itemsToBytes_length]; rfl
  have henc : encodeCompE h E compress bsz last blocks =
      E.encode (itemsToBytes h [blocks.length, bsz, last]) ++
        (E.encode (itemsToBytes h ((blocks.map compress).map List.length)) ++
          E.encode (blocks.map compress).flatten) := by
    unfold encodeCompE
    simp only []
    rw [itemsToBytes_append, hE.enc_split h _ _ hH3len, List.append_assoc]
  have hSlen : ((blocks.map compress).map List.length).length = blocks.length := by simp
  have hSbnd : ∀ x ∈ (blocks.map compress).map List.length, x < 256 ^ h := by
    intro x hx
    simp only [List.mem_map] at hx
    obtain ⟨c, ⟨b, hb', rfl⟩, rfl⟩ := hx
    exact hsz b hb'
  have hHbnd : ∀ x ∈ [blocks.length, bsz, last], x < 256 ^ h := by
    intro x hx
    simp only [List.mem_cons, List.not_mem_nil, or_false] at hx
    rcases hx with rfl | rfl | rfl <;> assumption
  have hBlt : ∀ x ∈ (blocks.map compress).flatten, x < 256 := by
    intro x hx
    simp only [List.mem_flatten, List.mem_map] at hx
    obtain ⟨c, ⟨b, hb', rfl⟩, hx⟩ := hx
    exact hb b hb' x hx
  have hBlen := flatten_length_sumList (blocks.map compress)
  rw [henc] at hr hm
  generalize hS : (blocks.map compress).map List.length = S at *
  generalize hB : (blocks.map compress).flatten = B at *
  have l1 : (E.encode (itemsToBytes h [blocks.length, bsz, last])).length = E.encodedBytes (3 * h) := by rw [hE.enc_len, hH3len]
  have l2 : (E.encode (itemsToBytes h S)).length = E.encodedBytes (blocks.length * h) := by
    rw [hE.enc_len, itemsToBytes_length, hSlen]
  have l3 : (E.encode B).length = E.encodedBytes (sumList S) := by rw [hE.enc_len, hBlen]
  have hH3lt : ∀ b ∈ itemsToBytes h [blocks.length, bsz, last], b < 256 := itemsToBytes_lt _ _
  unfold compReadE at hr
  simp only [Option.bind_eq_bind, Option.bind_eq_some_iff] at hr
  obtain ⟨hbytes, hd1, header, hf1, nb, hnb, sb, hd2, sizes, hf2, x1, hx1, decoded, hd3, hfin⟩ := hr
  rw [← l1, take_take_append] at hd1
  by_cases c1 : m < (E.encode (itemsToBytes h [blocks.length, bsz, last])).length
  · -- the cut is inside the header [#blocks, block size, last]
    obtain ⟨t, ht, rfl⟩ := hE.dec_take (itemsToBytes h [blocks.length, bsz, last]) hH3lt m c1 hbytes hd1
    rw [List.take_take, Nat.min_eq_right (by omega)] at hf1
    obtain ⟨rfl, _, _⟩ := frombuffer_take h _ hHbnd t (by omega) header hf1
    have hq : t / h < 3 := by
      rw [hH3len] at ht
      exact Nat.div_lt_of_lt_mul (by omega)
    have hdrop : List.drop (E.encodedBytes (3 * h))
        (List.take m (E.encode (itemsToBytes h [blocks.length, bsz, last]) ++ (E.encode (itemsToBytes h S) ++ E.encode B))) = [] := by
      apply List.drop_of_length_le
      rw [List.length_take]; omega
    rw [hdrop, List.take_nil, hE.dec_nil] at hd2
    cases Option.some.inj hd2
    have hf2' : sizes = [] := by
      simp only [List.take_nil, frombuffer] at hf2
      rw [if_neg (by simp [hh])] at hf2
      simpa [takeItems] using (Option.some.inj hf2).symm
    subst hf2'
    match hq' : t / h, hq with
    | 0, _ => rw [hq'] at hnb; simp at hnb
    | 1, _ => rw [hq'] at hx1; simp at hx1
    | 2, _ =>
      rw [hq'] at hfin
      simp only [List.take_succ_cons, List.take_zero, List.append_nil, List.drop_succ_cons, List.drop_nil,
        List.isEmpty_nil, if_true] at hfin
      rw [← Option.some.inj hfin]; exact hpos
  · -- the header is complete
    rw [List.take_of_length_le (by omega), hE.dec_enc (itemsToBytes h [blocks.length, bsz, last]) hH3lt] at hd1
    cases Option.some.inj hd1
    rw [← hH3len, List.take_of_length_le (Nat.le_refl _), frombuffer_itemsToBytes hh _ hHbnd] at hf1
    cases Option.some.inj hf1
    simp only [List.getElem?_cons_zero, Option.some.injEq] at hnb
    subst hnb
    rw [← l1, ← l2, drop_take_append, take_take_append] at hd2
    by_cases c2 : m - (E.encode (itemsToBytes h [blocks.length, bsz, last])).length
        < (E.encode (itemsToBytes h S)).length
    · -- the cut is inside the list of block sizes
      obtain ⟨t, ht, rfl⟩ := hE.dec_take _ (itemsToBytes_lt h S) _ c2 sb hd2
      rw [List.take_take] at hf2
      have ht' : min (E.encodedBytes (blocks.length * h)) t < blocks.length * h := by
        rw [itemsToBytes_length, hSlen] at ht; omega
      obtain ⟨rfl, _, _⟩ := frombuffer_take h S hSbnd _ (by rw [itemsToBytes_length, hSlen]; omega) sizes hf2
      generalize hk : min (E.encodedBytes (blocks.length * h)) t / h = k at *
      have hklt : k < blocks.length := by
        rw [← hk]; exact Nat.div_lt_of_lt_mul (Nat.lt_of_lt_of_eq ht' (Nat.mul_comm _ _))
      have hdrop : List.drop (E.encodedBytes (3 * h) + E.encodedBytes (blocks.length * h))
          (List.take m (E.encode (itemsToBytes h [blocks.length, bsz, last]) ++
            (E.encode (itemsToBytes h S) ++ E.encode B))) = [] := by
        apply List.drop_of_length_le
        rw [List.length_take]; omega
      rw [hdrop, List.take_nil, hE.dec_nil] at hd3
      cases Option.some.inj hd3
      simp only [List.cons_append, List.drop_succ_cons, List.drop_zero, List.nil_append] at hfin
      by_cases hemp : (List.take k S).isEmpty = true
      · rw [if_pos hemp] at hfin
        rw [← Option.some.inj hfin]; exact hpos
      · rw [if_neg hemp] at hfin
        simp only [Option.bind_eq_some_iff] at hfin
        obtain ⟨parts, hmap, hout⟩ := hfin
        have hmap' : mapM' (fun i => decompress (List.drop ((offsetsOf 0 (List.take k S)).getD i 0)
            (List.take ((offsetsOf 0 (List.take k S)).getD (i + 1) 0) ((blocks.map compress).flatten.take 0))))
            (List.range (List.take k S).length) = some parts := by
          simpa using hmap
        obtain ⟨hp, _⟩ := blocks_core compress decompress blocks H1 H2 k 0 (by omega) (List.take k S)
          (by rw [hS]) parts hmap'
        rw [← Option.some.inj hout, List.flatMap_id]
        exact Nat.lt_of_le_of_lt hp (flatten_take_lt blocks hbl k hklt)
    · -- header and block sizes are complete: the cut is inside the compressed blocks
      rw [List.take_of_length_le (by omega), hE.dec_enc _ (itemsToBytes_lt h S)] at hd2
      cases Option.some.inj hd2
      have hge := hE.eb_ge (blocks.length * h)
      rw [List.take_of_length_le (by rw [itemsToBytes_length, hSlen]; omega),
        frombuffer_itemsToBytes hh S hSbnd] at hf2
      cases Option.some.inj hf2
      simp only [List.cons_append, List.drop_succ_cons, List.drop_zero, List.nil_append] at hfin hd3
      have hdrop : List.drop (E.encodedBytes (3 * h) + E.encodedBytes (blocks.length * h))
          (List.take m (E.encode (itemsToBytes h [blocks.length, bsz, last]) ++
            (E.encode (itemsToBytes h S) ++ E.encode B))) =
          (E.encode B).take (m - (E.encodedBytes (3 * h) + E.encodedBytes (blocks.length * h))) := by
        rw [← List.append_assoc, ← l1, ← l2, ← List.length_append, drop_take_append]
      rw [hdrop, ← l3, List.take_take] at hd3
      have hm' : min (E.encode B).length (m - (E.encodedBytes (3 * h) + E.encodedBytes (blocks.length * h)))
          < (E.encode B).length := by
        simp only [List.length_append] at hm; omega
      obtain ⟨t, ht, rfl⟩ := hE.dec_take B hBlt _ hm' decoded hd3
      have hSne : S.isEmpty = false := by
        cases hSe : S with
        | nil => rw [hSe] at hSlen; simp at hSlen; omega
        | cons _ _ => rfl
      rw [hSne] at hfin
      simp only [Bool.false_eq_true, if_false, Option.bind_eq_some_iff] at hfin
      obtain ⟨parts, hmap, hout⟩ := hfin
      have hmap' : mapM' (fun i => decompress (List.drop ((offsetsOf 0 S).getD i 0)
          (List.take ((offsetsOf 0 S).getD (i + 1) 0) ((blocks.map compress).flatten.take t))))
          (List.range S.length) = some parts := by
        rw [hB]; exact hmap
      obtain ⟨_, hlt⟩ := blocks_core compress decompress blocks H1 H2 blocks.length t (Nat.le_refl _) S
        (by rw [hS, List.take_of_length_le (by omega)]) parts hmap'
      rw [← Option.some.inj hout, List.flatMap_id]
      have := hlt (by omega)
      rwa [List.take_of_length_le (Nat.le_refl _)] at this

/-- what is assumed about the codec (a parameter of the model), for the blocks of one array:
    compressed data are bytes, a compressed block fits the header type, `decompress ∘ compress = id`, and
    decompressing a strict prefix of a compressed block raises OR yields fewer bytes than the block has
    (zlib and lzma always raise: `CodecOK.of_raises`; an LZ4 block has no end marker, a prefix that ends at a
    sequence boundary decodes to a shorter output) -/
structure CodecOK (compress : Bytes → Bytes) (decompress : Bytes → Option Bytes) (h : Nat) (blocks : List Bytes) :
    Prop where
  bytes : ∀ b ∈ blocks, ∀ x ∈ compress b, x < 256
  small : ∀ b ∈ blocks, (compress b).length < 256 ^ h
  roundtrip : ∀ b ∈ blocks, decompress (compress b) = some b
  prefix_fails : ∀ b ∈ blocks, ∀ p, p <+: compress b → p ≠ compress b → ∀ y, decompress p = some y →
    y.length < b.length

/-- the hypothesis in its simple form: "decompressing a strict prefix of a compressed block raises" -/
theorem CodecOK.of_raises {compress : Bytes → Bytes} {decompress : Bytes → Option Bytes} {h : Nat}
    {blocks : List Bytes} (hbytes : ∀ b ∈ blocks, ∀ x ∈ compress b, x < 256)
    (hsmall : ∀ b ∈ blocks, (compress b).length < 256 ^ h)
    (hrt : ∀ b ∈ blocks, decompress (compress b) = some b)
    (hraise : ∀ b ∈ blocks, ∀ p, p <+: compress b → p ≠ compress b → decompress p = none) :
    CodecOK compress decompress h blocks :=
  ⟨hbytes, hsmall, hrt, fun b hb p hp hne y hy => by rw [hraise b hb p hp hne] at hy; cases hy⟩

/-- `compRead_prefix` + the length assertion, for an arbitrary partition of the payload into non-empty blocks -/
theorem compRead_checkDeclared (h size : Nat) (E : Enc) (hE : SafeEnc E) (compress : Bytes → Bytes)
    (decompress : Bytes → Option Bytes) (bsz last : Nat) (blocks : List Bytes) (items avail : List Nat)
    (hh : h ≠ 0) (hitems : items ≠ [])
    (hpay : blocks.flatten = itemsToBytes size items) (hbl : ∀ b ∈ blocks, b ≠ [])
    (hn : blocks.length < 256 ^ h) (hbsz : bsz < 256 ^ h) (hlast : last < 256 ^ h)
    (hc : CodecOK compress decompress h blocks)
    (hp : avail <+: encodeCompE h E compress bsz last blocks)
    (hne : avail ≠ encodeCompE h E compress bsz last blocks) :
    checkDeclared size items.length (compReadE h E decompress avail) = none := by
  cases hr : compReadE h E decompress avail with
  | none => rfl
  | some out =>
    by_cases hbe : blocks = []
    · -- an array of zero-byte items: `np.frombuffer` has no such dtype
      subst hbe
      have hz : items.length * size = 0 := by
        rw [← itemsToBytes_length, ← hpay]; rfl
      have hs : size = 0 := by
        have : 0 < items.length := List.length_pos_iff.mpr hitems
        rcases Nat.mul_eq_zero.mp hz with h0 | h0
        · omega
        · exact h0
      subst hs
      simp [checkDeclared, frombuffer]
    · have hav : avail = (encodeCompE h E compress bsz last blocks).take avail.length :=
        List.prefix_iff_eq_take.mp hp
      have hm : avail.length < (encodeCompE h E compress bsz last blocks).length := by
        rcases Nat.lt_or_eq_of_le (List.IsPrefix.length_le hp) with hlt | heq
        · exact hlt
        · exfalso; apply hne; rw [hav]; exact List.take_of_length_le (by omega)
      rw [hav] at hr
      have H2 : ∀ b ∈ blocks, ∀ t, t < (compress b).length → ∀ y, decompress ((compress b).take t) = some y →
          y.length < b.length := by
        intro b hb t ht
        apply hc.prefix_fails b hb _ (List.take_prefix _ _)
        intro e
        have := congrArg List.length e
        rw [List.length_take] at this
        omega
      have hlt := compRead_prefix h E hE compress decompress bsz last blocks hh hbe hc.bytes hn hbsz
        hlast hc.small hc.roundtrip H2 hbl avail.length hm out hr
      apply checkDeclared_short
      rw [← itemsToBytes_length, ← hpay]
      exact hlt

end Fc.W
