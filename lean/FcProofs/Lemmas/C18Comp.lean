/-
  Lemmas.C18Comp — the compressed-payload reader (`compReadE`) on a strict prefix of what is stored for a
  compressed array.  Proved once for an abstract encoder that is "prefix safe" (decoding a strict prefix of an
  encoding raises or yields a strict prefix of the encoded bytes); base64 and raw are instances.
-/
import FcProofs.Lemmas.PrefixW
namespace Fc.W

/-! ### list facts -/

theorem take_take_append {α} (a b : List α) (m : Nat) : ((a ++ b).take m).take a.length = a.take m := by
  rw [List.take_take]
  by_cases h : m ≤ a.length
  · rw [Nat.min_eq_right h, List.take_append_of_le_length h]
  · have h' : a.length ≤ m := by omega
    rw [Nat.min_eq_left h', List.take_append_of_le_length (Nat.le_refl _), List.take_of_length_le (Nat.le_refl _),
      List.take_of_length_le h']

theorem drop_take_append {α} (a b : List α) (m : Nat) : ((a ++ b).take m).drop a.length = b.take (m - a.length) := by
  rw [List.drop_take, List.drop_left]

theorem sumList_append (a b : List Nat) : sumList (a ++ b) = sumList a + sumList b := by
  induction a with
  | nil => simp [sumList]
  | cons x r ih => simp only [sumList, List.cons_append, List.foldr_cons] at ih ⊢; omega

theorem flatten_length_sumList (L : List (List Nat)) : L.flatten.length = sumList (L.map List.length) := by
  induction L with
  | nil => rfl
  | cons x r ih => simp only [List.flatten_cons, List.length_append, ih, List.map_cons, sumList, List.foldr_cons]

/-- `np.cumsum` entries are the partial sums -/
theorem offsetsOf_getD : ∀ (S : List Nat) (acc i : Nat), i ≤ S.length →
    (offsetsOf acc S).getD i 0 = acc + sumList (S.take i)
  | [], acc, i, h => by
    have : i = 0 := by simpa using h
    subst this; simp [offsetsOf, sumList]
  | x :: r, acc, 0, _ => by simp [offsetsOf, sumList]
  | x :: r, acc, i + 1, h => by
    have ih := offsetsOf_getD r (acc + x) i (by simpa using h)
    simp only [offsetsOf, List.getD_cons_succ, ih, List.take_succ_cons, sumList, List.foldr_cons]
    omega

/-- the `i`-th list of a concatenation, cut out by the partial sums of the lengths -/
theorem flatten_slice : ∀ (L : List (List Nat)) (i : Nat), i < L.length →
    (L.flatten.drop (sumList ((L.map List.length).take i))).take (L.getD i []).length = L.getD i []
  | [], i, h => by simp at h
  | x :: r, 0, _ => by simp [sumList]
  | x :: r, i + 1, h => by
    have ih := flatten_slice r i (by simpa using h)
    simp only [List.flatten_cons, List.map_cons, List.take_succ_cons, sumList, List.foldr_cons, List.getD_cons_succ]
    simp only [sumList] at ih
    rw [List.drop_append, List.drop_of_length_le (by omega), List.nil_append]
    have : x.length + List.foldr (· + ·) 0 (List.take i (List.map List.length r)) - x.length =
        List.foldr (· + ·) 0 (List.take i (List.map List.length r)) := by omega
    rw [this]
    exact ih

theorem mapM'_none {α β} (f : α → Option β) : ∀ (l : List α) (x : α), x ∈ l → f x = none → mapM' f l = none
  | y :: r, x, hx, hf => by
    rcases List.mem_cons.mp hx with e | e
    · subst e; simp [mapM', hf]
    · have := mapM'_none f r x e hf
      simp only [mapM', this]
      cases f y <;> rfl

theorem mapM'_some {α β} (f : α → Option β) (g : α → β) : ∀ (l : List α) (ys : List β),
    (∀ x ∈ l, ∀ y, f x = some y → y = g x) → mapM' f l = some ys → ys = l.map g
  | [], ys, _, h => by simp only [mapM', Option.some.injEq] at h; subst h; rfl
  | x :: r, ys, hg, h => by
    simp only [mapM'] at h
    cases hx : f x with
    | none => rw [hx] at h; cases h
    | some y =>
      cases hr : mapM' f r with
      | none => rw [hx, hr] at h; cases h
      | some ys' =>
        rw [hx, hr] at h
        simp only [Option.some.injEq] at h
        subst h
        rw [List.map_cons, hg x (by simp) y hx, mapM'_some f g r ys' (fun z hz => hg z (by simp [hz])) hr]

theorem map_range_getD {α} (L : List α) (dflt : α) (k : Nat) (h : k ≤ L.length) :
    (List.range k).map (fun i => L.getD i dflt) = L.take k := by
  apply List.ext_getElem
  · simp [Nat.min_eq_left h]
  · intro i h1 h2
    simp only [List.length_map, List.length_range] at h1
    simp [List.getD_eq_getElem?_getD, List.getElem?_eq_getElem (show i < L.length by omega)]

/-! ### items ↔ bytes on prefixes -/

theorem itemsToBytes_take (h : Nat) : ∀ (xs : List Nat) (q : Nat),
    (itemsToBytes h xs).take (q * h) = itemsToBytes h (xs.take q)
  | [], q => by simp [itemsToBytes]
  | x :: r, 0 => by simp [itemsToBytes]
  | x :: r, q + 1 => by
    have e : ∀ l, itemsToBytes h (x :: l) = leBytes h x ++ itemsToBytes h l := by intro l; simp [itemsToBytes]
    rw [List.take_succ_cons, e, e, List.take_append, leBytes_length,
      List.take_of_length_le (by rw [leBytes_length]; rw [Nat.add_mul]; omega)]
    have : (q + 1) * h - h = q * h := by rw [Nat.add_mul]; omega
    rw [this, itemsToBytes_take h r q]

/-- `np.frombuffer` on the first `j` bytes of `xs.tobytes()`: an error or the first `j / h` items -/
theorem frombuffer_take (h : Nat) (xs : List Nat) (hx : ∀ x ∈ xs, x < 256 ^ h) (j : Nat)
    (hj : j ≤ (itemsToBytes h xs).length) (ys : List Nat)
    (hf : frombuffer h ((itemsToBytes h xs).take j) = some ys) : ys = xs.take (j / h) ∧ j % h = 0 ∧ h ≠ 0 := by
  unfold frombuffer at hf
  rw [List.length_take, Nat.min_eq_left hj] at hf
  by_cases hc : h = 0 ∨ j % h ≠ 0
  · rw [if_pos hc] at hf; cases hf
  · rw [if_neg hc] at hf
    have h0 : h ≠ 0 := by omega
    have hm : j % h = 0 := by omega
    have hq : j = j / h * h := by
      have := Nat.div_add_mod j h
      rw [hm, Nat.add_zero, Nat.mul_comm] at this
      exact this.symm
    have hf2 : frombuffer h ((itemsToBytes h xs).take j) = some ys := by
      unfold frombuffer
      rw [List.length_take, Nat.min_eq_left hj, if_neg hc]; exact hf
    rw [hq, itemsToBytes_take] at hf2
    rw [frombuffer_itemsToBytes h0 _ (fun x hx' => hx x (List.mem_of_mem_take hx'))] at hf2
    exact ⟨(Option.some.inj hf2).symm, hm, h0⟩

/-! ### prefix-safe encoders -/

/-- what the proof needs from the encoder -/
structure SafeEnc (E : Enc) : Prop where
  dec_nil : E.decode [] = some []
  dec_enc : ∀ x : Bytes, (∀ b ∈ x, b < 256) → E.decode (E.encode x) = some x
  enc_len : ∀ x : Bytes, (E.encode x).length = E.encodedBytes x.length
  eb_ge : ∀ n, n ≤ E.encodedBytes n
  dec_take : ∀ x : Bytes, (∀ b ∈ x, b < 256) → ∀ j, j < (E.encode x).length → ∀ out,
    E.decode ((E.encode x).take j) = some out → ∃ t, t < x.length ∧ out = x.take t
  /-- the header `[#blocks, block size, last]` and the block sizes may be encoded as one stream -/
  enc_split : ∀ (h : Nat) (x y : Bytes), x.length = 3 * h → E.encode (x ++ y) = E.encode x ++ E.encode y

theorem b64enc_append3 : ∀ (n : Nat) (x y : Bytes), x.length = 3 * n → b64enc (x ++ y) = b64enc x ++ b64enc y
  | 0, x, y, h => by
    have : x = [] := List.eq_nil_of_length_eq_zero (by simpa using h)
    subst this; simp [b64enc]
  | n + 1, a :: b :: c :: r, y, h => by
    have hr : r.length = 3 * n := by simp only [List.length_cons] at h; omega
    simp only [List.cons_append, b64enc, b64enc_append3 n r y hr]
  | n + 1, [], _, h => by simp only [List.length_cons, List.length_nil] at h; omega
  | n + 1, [_], _, h => by simp only [List.length_cons, List.length_nil] at h; omega
  | n + 1, [_, _], _, h => by simp only [List.length_cons, List.length_nil] at h; omega

theorem safe_raw : SafeEnc rawE where
  dec_nil := rfl
  dec_enc := fun _ _ => rfl
  enc_len := fun _ => rfl
  eb_ge := fun _ => Nat.le_refl _
  dec_take := by
    intro x _ j hj out ho
    simp only [rawE, id] at hj ho
    exact ⟨j, hj, (Option.some.inj ho).symm⟩
  enc_split := fun _ _ _ _ => rfl

theorem safe_b64 : SafeEnc b64E where
  dec_nil := by simp [b64E, b64dec, decGo]
  dec_enc := fun x hx => b64dec_b64enc x hx
  enc_len := fun x => b64enc_length x
  eb_ge := by intro n; simp only [b64E]; omega
  dec_take := by
    intro x hx j hj out ho
    simp only [b64E] at hj ho
    have hp : (b64enc x).take j <+: b64enc x := List.take_prefix _ _
    have hne : (b64enc x).take j ≠ b64enc x := by
      intro e
      have := congrArg List.length e
      rw [List.length_take] at this
      omega
    obtain ⟨k, hk, hk2⟩ := b64dec_strict_prefix x hx _ hp hne out ho
    exact ⟨3 * k, hk2, hk⟩
  enc_split := fun h x y hx => b64enc_append3 h x y hx

end Fc.W
