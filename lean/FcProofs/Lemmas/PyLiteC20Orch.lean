/-
  FcProofs.Lemmas.PyLiteC20Orch — phase 6 round 4: presentation of the JUnit model (FcModel/Junit.lean) to the translated
  `_cli/_junit.py`, the assumptions about the XML externals, and the TRACE of element operations that renders a `JSuite`.
-/
import FcModel.Junit
import FcProofs.Lemmas.PyLiteOrch
namespace Fc.PyLite.C20O
open Fc Fc.PyLite Fc.C04

/-- an XML element handle: its tag and its parent (`None` for the root) -/
def elemV (tag : String) (parent : Val) : Val := .record [("tag", .str tag), ("parent", parent)]

/-- the record of one `element.set(key, value)` call -/
def setV (e : Val) (k : String) (v : Val) : Val := .list [.str "set", e, .str k, v]

def strV (v : Val) : Val := .list [.str "str", v]

def tsV (s : TestStatus) : Val := .enum "TestStatus" s.name

/-- a `TestResult`: name, status, no cpu time, some captured output; its truth value is the status's -/
def testV (t : Test) : Val :=
  .record [("name", .str t.name), ("status", tsV t.status), ("cpu_time", .none), ("stdout", .str "out"),
           ("__bool__", .bool t.status.truthy)]

/-- a `TestSuite` as the report reads it: name, no cpu time, the tests its iteration yields -/
def jsuiteV (name : String) (s : Suite) : Val :=
  .record [("name", .str name), ("cpu_time", .none), ("__iter__", .list (s.tests.map testV))]

/-- ASSUMPTIONS about the externals of `_junit.py`: `Element` / `SubElement` create element handles, `set` returns the record
    of the call (so the effect trace lists the attribute assignments in order), `str`, `.replace`, `remove_color_codes` build
    opaque strings -/
structure JExt (X : Ext) : Prop where
  helem : ∀ t, X "Element" [.str t] = .ok (elemV t .none)
  hsub : ∀ p t, X "SubElement" [p, .str t] = .ok (elemV t p)
  hset : ∀ e k v, k ≠ "message" → X ".set" [e, .str k, v] = .ok (setV e k v)
  /-- a `message` attribute is recorded WITHOUT its text: the wording of the messages is not part of the statement -/
  hsetm : ∀ e v, X ".set" [e, .str "message", v] = .ok (setV e "message" .none)
  hstr : ∀ v, X "str" [v] = .ok (strV v)
  hrepl : ∀ a b c, X ".replace" [a, b, c] = .ok a
  hrcc : ∀ v, X "remove_color_codes" [v] = .ok v

/-- the outcome children by status, spelled out (NOT through the table `Gen.cliJunitChildren`, which is regenerated from the same
    source): failed → failure; error → failure and error; skipped → skipped; passed → none -/
def childrenSpec : TestStatus → List String
  | .failed => ["failure"]
  | .error => ["failure", "error"]
  | .skipped => ["skipped"]
  | .passed => []

/-- the element operations `_add_test_case(tree, test, classname)` performs, in order: the four attributes of the new `testcase`
    element and one `message` per outcome child — the children are the MODEL's `junitChildren` of the status -/
def caseTrace (tree cn : Val) (c : TestCase) (st : TestStatus) : List Val :=
  let tc := elemV "testcase" tree
  [setV tc "name" (.str c.name), setV tc "classname" cn, setV tc "status" (strV (tsV st)), setV tc "time" (.str "n/a")]
    ++ c.children.map fun ch => setV (elemV ch tc) "message" .none

/-- the element operations that render a `JSuite` (FcModel/Junit.lean): the count attributes are the model's counts -/
def headerTrace (tree ts : Val) (j : JSuite) : List Val :=
  [setV tree "name" (strV (.str j.name)), setV tree "tests" (strV (.int j.tests)), setV tree "disabled" (.str "0"),
   setV tree "errors" (strV (.int j.errors)), setV tree "failures" (strV (.int j.failures)),
   setV tree "skipped" (strV (.int j.skipped)), setV tree "timestamp" ts, setV tree "time" (.str "n/a"),
   elemV "properties" tree]

/-- `sum(1 for a in l if p a)` -/
theorem sum_ones {α : Type} (l : List α) (p : α → Bool) :
    builtin .sum [.list (l.filterMap fun a => if p a then some (Val.int 1) else none)] = .ok (.int (l.filter p).length) := by
  have h : ∀ (l : List α) (k : Int), intsOf (l.filterMap fun a => if p a then some (Val.int 1) else none) =
      some (List.replicate (l.filter p).length 1) := by
    intro l
    induction l with
    | nil => intro k; rfl
    | cons a r ih =>
      intro k
      cases hp : p a <;> simp [List.filterMap_cons, hp, intsOf, Val.asInt, ih k, List.replicate_succ]
  have hs : ∀ (n : Nat) (k : Int), (List.replicate n (1 : Int)).foldl (· + ·) k = k + n := by
    intro n
    induction n with
    | zero => intro k; simp
    | succ n ih => intro k; simp [List.replicate_succ, ih]; omega
  simp [builtin, h l 0, hs]

/-- `sum(1 for _ in l)` -/
theorem sum_all {α : Type} (l : List α) :
    builtin .sum [.list (l.map fun _ => Val.int 1)] = .ok (.int l.length) := by
  have h := sum_ones l (fun _ => true)
  have hf : l.filter (fun _ => true) = l := by induction l with
    | nil => rfl
    | cons a r ih => simp
  rw [hf] at h
  simpa using h

/-- `sum_ones` for a decidable proposition (the form `simp` normalises `if (x == y) = true` to) -/
theorem sum_ones_prop {α : Type} (l : List α) (p : α → Prop) [DecidablePred p] :
    builtin .sum [.list (l.filterMap fun a => if p a then some (Val.int 1) else none)] =
      .ok (.int (l.filter fun a => decide (p a)).length) := by
  have h := sum_ones l (fun a => decide (p a))
  simpa using h

/-- the test of `t.status == TestStatus.<which>` on a presented test -/
theorem status_eq (t : Test) (which : String) :
    Val.eqv (tsV t.status) (.enum "TestStatus" which) = some (t.status.name == which) := by
  simp [tsV, Val.eqv]

section
variable {X : Ext} (hX : JExt X)
include hX
/-! `hset` for the attribute keys the source uses (each is different from "message") -/
theorem JExt.set_name (e v : Val) : X ".set" [e, .str "name", v] = .ok (setV e "name" v) := hX.hset e _ v (by decide)
theorem JExt.set_classname (e v : Val) : X ".set" [e, .str "classname", v] = .ok (setV e "classname" v) := hX.hset e _ v (by decide)
theorem JExt.set_status (e v : Val) : X ".set" [e, .str "status", v] = .ok (setV e "status" v) := hX.hset e _ v (by decide)
theorem JExt.set_time (e v : Val) : X ".set" [e, .str "time", v] = .ok (setV e "time" v) := hX.hset e _ v (by decide)
theorem JExt.set_tests (e v : Val) : X ".set" [e, .str "tests", v] = .ok (setV e "tests" v) := hX.hset e _ v (by decide)
theorem JExt.set_disabled (e v : Val) : X ".set" [e, .str "disabled", v] = .ok (setV e "disabled" v) := hX.hset e _ v (by decide)
theorem JExt.set_errors (e v : Val) : X ".set" [e, .str "errors", v] = .ok (setV e "errors" v) := hX.hset e _ v (by decide)
theorem JExt.set_failures (e v : Val) : X ".set" [e, .str "failures", v] = .ok (setV e "failures" v) := hX.hset e _ v (by decide)
theorem JExt.set_skipped (e v : Val) : X ".set" [e, .str "skipped", v] = .ok (setV e "skipped" v) := hX.hset e _ v (by decide)
theorem JExt.set_timestamp (e v : Val) : X ".set" [e, .str "timestamp", v] = .ok (setV e "timestamp" v) := hX.hset e _ v (by decide)
end

end Fc.PyLite.C20O
