/-
  Lemmas.BytesW — little-endian integers, items ↔ bytes, and the data-array element:
  `readItems (makeDataArray …)` returns the written items for every payload length
  (header arithmetic + base64 round trip + the "header only" branch of NoCompressor for empty payloads).
-/
import FcProofs.Lemmas.Base64W
namespace Fc.W

theorem leBytes_length : ∀ (k n : Nat), (leBytes k n).length = k
  | 0, _ => rfl
  | k + 1, n => by simp [leBytes, leBytes_length k]

theorem leBytes_lt : ∀ (k n : Nat), ∀ b ∈ leBytes k n, b < 256
  | 0, _ => by simp [leBytes]
  | k + 1, n => by
    intro b hb
    simp only [leBytes, List.mem_cons] at hb
    rcases hb with h | h
    · omega
    · exact leBytes_lt k _ b h

theorem fromLe_leBytes : ∀ (k n : Nat), fromLe (leBytes k n) = n % 256 ^ k
  | 0, n => by simp [leBytes, fromLe, Nat.mod_one]
  | k + 1, n => by
    simp only [leBytes, fromLe, fromLe_leBytes k]
    rw [Nat.pow_succ, Nat.mul_comm (256 ^ k) 256, Nat.mod_mul]

theorem fromLe_leBytes_of_lt {k n : Nat} (h : n < 256 ^ k) : fromLe (leBytes k n) = n := by
  rw [fromLe_leBytes, Nat.mod_eq_of_lt h]

theorem itemsToBytes_length (size : Nat) : ∀ (items : List Nat), (itemsToBytes size items).length = items.length * size
  | [] => by simp [itemsToBytes]
  | x :: r => by
    have ih := itemsToBytes_length size r
    unfold itemsToBytes at ih ⊢
    simp only [List.flatMap_cons, List.length_append, leBytes_length, ih, List.length_cons]
    rw [Nat.add_mul, Nat.one_mul, Nat.add_comm]

theorem itemsToBytes_lt (size : Nat) (items : List Nat) : ∀ b ∈ itemsToBytes size items, b < 256 := by
  intro b hb
  unfold itemsToBytes at hb
  rw [List.mem_flatMap] at hb
  obtain ⟨x, _, hx⟩ := hb
  exact leBytes_lt size x b hx

theorem takeItems_itemsToBytes (size : Nat) : ∀ (items : List Nat), (∀ x ∈ items, x < 256 ^ size) →
    takeItems size items.length (itemsToBytes size items) = items
  | [], _ => rfl
  | x :: r, h => by
    have hx : x < 256 ^ size := h x (by simp)
    have ih := takeItems_itemsToBytes size r (fun y hy => h y (by simp [hy]))
    have e : itemsToBytes size (x :: r) = leBytes size x ++ itemsToBytes size r := by
      simp [itemsToBytes]
    rw [e]
    simp only [List.length_cons, takeItems]
    have ht : (leBytes size x ++ itemsToBytes size r).take size = leBytes size x := by
      rw [List.take_append_of_le_length (by rw [leBytes_length]; exact Nat.le_refl _)]
      rw [List.take_of_length_le (by rw [leBytes_length]; exact Nat.le_refl _)]
    have hd : (leBytes size x ++ itemsToBytes size r).drop size = itemsToBytes size r := by
      rw [List.drop_append_of_le_length (by rw [leBytes_length]; exact Nat.le_refl _)]
      rw [List.drop_of_length_le (by rw [leBytes_length]; exact Nat.le_refl _)]
      rfl
    rw [ht, hd, fromLe_leBytes_of_lt hx, ih]

/-- `np.frombuffer(values.tobytes(), dtype)` is the identity on the items -/
theorem frombuffer_itemsToBytes {size : Nat} (hs : size ≠ 0) (items : List Nat)
    (h : ∀ x ∈ items, x < 256 ^ size) : frombuffer size (itemsToBytes size items) = some items := by
  unfold frombuffer
  rw [itemsToBytes_length]
  have hpos : 0 < size := Nat.pos_of_ne_zero hs
  rw [if_neg (by simp [hs, Nat.mul_mod_left])]
  rw [Nat.mul_div_cancel _ hpos, takeItems_itemsToBytes size items h]

/-- **the data-array payload round trip** (all lengths, the empty payload included):
    `NoCompressor` applied to `b64encode(uint64(n) ++ payload)` returns the payload -/
theorem noCompRead_encodeText (payload : Bytes) (hb : ∀ b ∈ payload, b < 256) (hn : payload.length < 256 ^ 8) :
    noCompRead (encodeText payload.length payload) = some payload := by
  unfold noCompRead encodeText
  have hall : ∀ b ∈ leBytes 8 payload.length ++ payload, b < 256 := by
    intro b hb'
    rcases List.mem_append.mp hb' with h | h
    · exact leBytes_lt _ _ b h
    · exact hb b h
  rw [b64dec_b64enc _ hall]
  simp only [List.length_append, leBytes_length]
  have htake : (leBytes 8 payload.length ++ payload).take 8 = leBytes 8 payload.length := by
    rw [List.take_append_of_le_length (by rw [leBytes_length]; exact Nat.le_refl _)]
    rw [List.take_of_length_le (by rw [leBytes_length]; exact Nat.le_refl _)]
  have hdrop : (leBytes 8 payload.length ++ payload).drop 8 = payload := by
    rw [List.drop_append_of_le_length (by rw [leBytes_length]; exact Nat.le_refl _)]
    rw [List.drop_of_length_le (by rw [leBytes_length]; exact Nat.le_refl _)]
    rfl
  rw [if_neg (by omega), htake, hdrop, fromLe_leBytes_of_lt hn]
  by_cases h0 : payload.length = 0
  · have : payload = [] := List.eq_nil_of_length_eq_zero h0
    subst this
    simp [b64dec, decGo]
  · rw [if_neg (by omega)]
    simp
