/-
  FcProofs.Lemmas.PyLiteC15Orch — phase 6 round 3: presentation of the sequence model (FcModel/Seq.lean) to the translated
  orchestration code (`FieldDataSequence`, `FileComparison._compare_field_sequences`) and the assumptions about its externals.
-/
import FcModel.Seq
import FcProofs.Lemmas.PyLiteC15
import FcProofs.Lemmas.PyLiteOrch
namespace Fc.PyLite.C15O
open Fc Fc.PyLite Fc.PyLite.C15

/-- the data of one step of a sequence: opaque, identified by its index -/
def stepV (i : Nat) : Val := .int i

/-- a `TestSuite` object as the step loop reads it: the `status` PROPERTY (`TSuite.statusProp`, cf.
    `C15_source_test_suite_status`), its `shortlog` (opaque) and the tests `list(suite)` yields -/
def tsObj (s : TSuite) : Val :=
  .record [("status", tsVal s.statusProp), ("shortlog", .str "log"), ("__iter__", .list (s.tests.map testVal))]

/-- a `FieldDataSequence` as the step loop reads it: `number_of_steps` and the steps its iteration yields -/
def seqObj (n : Nat) (items : List Nat) : Val :=
  .record [("number_of_steps", .int n), ("__iter__", .list (items.map stepV))]

/-- the `FileComparison` object: its options and its logger -/
def fcSelfV (o : SeqOpts) (lg : Val) : Val :=
  .record [("_opts", .record [("ignore_missing_sequence_steps", .bool o.ignoreMissing),
                              ("force_sequence_comparison", .bool o.force)]), ("_logger", lg)]

/-- ASSUMPTIONS about the externals of `_compare_field_sequences`: `_make_test_suite` builds the suite object from the
    tests and the explicit status (name / shortlog opaque); `self._compare_field_data(res_step, ref_step)` is the model's
    `step i j`; logging and writing diff files return `None` (their output is outside the modelled result). -/
structure SeqExt (X : Ext) (o : SeqOpts) (lg : Val) (step : Nat → Nat → TSuite) : Prop where
  hmk : ∀ (nm sl : Val) (st : Option TStatus) (ts : List TStatus),
    X "_make_test_suite(name=,shortlog=,status=,tests=)" [nm, sl, optTsVal st, .list (ts.map testVal)] = .ok (tsObj ⟨ts, st⟩)
  hstep : ∀ i j, X "._compare_field_data" [fcSelfV o lg, stepV i, stepV j] = .ok (tsObj (step i j))
  hlog : ∀ m, X ".log" [lg, m] = .ok .none
  hlogv : ∀ m v, X ".log(verbosity_level=)" [lg, m, v] = .ok .none
  hdiff : ∀ sv nm a b, X "._write_diff_file" [sv, nm, a, b] = .ok .none

/-- one round of the step loop on (suite so far, counter) -/
def seqStep (step : Nat → Nat → TSuite) (acc : TSuite × Nat) (p : Nat × Nat) : TSuite × Nat :=
  (mergeSuites acc.1 (step p.1 p.2), acc.2 + 1)

theorem foldl_seqStep (step : Nat → Nat → TSuite) (ps : List (Nat × Nat)) (a : TSuite) (k : Nat) :
    ps.foldl (seqStep step) (a, k) = (ps.foldl (fun acc p => mergeSuites acc (step p.1 p.2)) a, k + ps.length) := by
  induction ps generalizing a k with
  | nil => simp
  | cons p r ih => simp [List.foldl_cons, seqStep, ih]; omega

/-- the pairs `zip(res, ref)` yields, as presented -/
def pairStepV (p : Nat × Nat) : Val := .list [stepV p.1, stepV p.2]

theorem zipWith_stepV (rs fs : List Nat) :
    List.zipWith (fun a b => Val.list [a, b]) (rs.map stepV) (fs.map stepV) = (rs.zip fs).map pairStepV := by
  induction rs generalizing fs with
  | nil => simp
  | cons a r ih => cases fs with
    | nil => simp
    | cons b f => simp [ih, pairStepV]

theorem zipWith_stepV' (rs fs : List Nat) :
    List.zipWith (fun a b => Val.list [stepV a, stepV b]) rs fs = (rs.zip fs).map pairStepV := by
  induction rs generalizing fs with
  | nil => simp
  | cons a r ih => cases fs with
    | nil => simp
    | cons b f => simp [ih, pairStepV]

theorem int_beq_natCast (a b : Nat) : ((a : Int) == (b : Int)) = (a == b) := by
  rw [Bool.eq_iff_iff, beq_iff_eq, beq_iff_eq]
  omega

/-! ### `FieldDataSequence.__iter__`: the `while` loop against `iterLoop` -/

/-- the source object (`_PVDSequenceSource` / `_XDMFSequenceSource`): number of steps and cursor -/
def srcV (s : Src) : Val := .record [("n", .int s.n), ("cur", .int s.cur)]

/-- a `FieldDataSequence` object -/
def seqSelfV (s : Src) : Val := .record [("_source", srcV s)]

/-- ASSUMPTIONS about the stateful externals of `__iter__`: the source's `reset / step / get` are the cursor machine of
    FcModel/Seq.lean (each returns its result and the source afterwards; `get` beyond the end raises IndexError), and the
    fuel handed to the `while` loop is `fuel` -/
structure SrcExt (X : Ext) (fuel : Nat) : Prop where
  hreset : ∀ s : Src, X ".reset!" [srcV s] = .ok (.list [.none, srcV s.reset])
  hstep : ∀ s : Src, X ".step!" [srcV s] = .ok (.list [.bool (s.step).2, srcV (s.step).1])
  hget : ∀ s : Src, X ".get!" [srcV s] =
    match s.get with
    | some i => .ok (.list [stepV i, srcV s])
    | none => .raise "IndexError"
  hfuel : X "while-fuel" [] = .ok (.int fuel)

/-- all items of an iteration, if no `get` raised -/
def allSome : List (Option Nat) → Option (List Nat)
  | [] => some []
  | none :: _ => none
  | some i :: r => (allSome r).map (i :: ·)

theorem allSome_map_some (l : List Nat) : allSome (l.map some) = some l := by
  induction l with
  | nil => rfl
  | cons a r ih => simp [allSome, ih]

/-- simulation: a `while` loop whose condition reads the result of the last `step` and whose body yields the step the source
    is at and steps on, run with enough fuel from a state presenting "`t` has just been stepped", performs exactly `iterLoop t` -/
theorem whileLoop_iterLoop (cond : St → Res Bool) (body : St → Flow) (Inv : Src → St → Prop)
    (hcond : ∀ t st, Inv t st → cond st = .ok (t.step).2)
    (hbody : ∀ t st, Inv t st → (t.step).2 = true →
      ∃ st', body st = .next st' ∧ Inv (t.step).1 st' ∧ st'.out = st.out ++ [stepV (t.cur + 1)]) :
    ∀ (k : Nat) (t : Src) (st : St), Inv t st → t.n - (t.cur + 1) ≤ k →
      ∃ (st' : St) (items : List Nat) (tf : Src), whileLoop cond body k st = .next st' ∧ (iterLoop t).1 = items.map some ∧
        st'.out = st.out ++ items.map stepV ∧ Inv tf st' ∧ (tf.step).1 = (iterLoop t).2 := by
  intro k
  induction k with
  | zero =>
    intro t st hi hk
    have hlt : ¬ (t.cur + 1 < t.n) := by omega
    refine ⟨st, [], t, ?_, ?_, by simp, hi, ?_⟩
    · simp [whileLoop, hcond t st hi, Src.step, hlt]
    · rw [iterLoop]; simp [hlt]
    · rw [iterLoop]; simp [hlt]
  | succ k ih =>
    intro t st hi hk
    by_cases hlt : t.cur + 1 < t.n
    · have hb : (t.step).2 = true := by simp [Src.step, hlt]
      obtain ⟨st1, h1, hi1, ho1⟩ := hbody t st hi hb
      have hk1 : (t.step).1.n - ((t.step).1.cur + 1) ≤ k := by simp [Src.step]; omega
      obtain ⟨st2, items, tf, h2, hl2, ho2, hi2, hf2⟩ := ih (t.step).1 st1 hi1 hk1
      refine ⟨st2, (t.cur + 1) :: items, tf, ?_, ?_, ?_, hi2, ?_⟩
      · simp [whileLoop, hcond t st hi, hb, h1, h2]
      · rw [iterLoop]; simp [hlt, Src.step, Src.get]; simpa [Src.step] using hl2
      · rw [ho2, ho1]; simp
      · rw [hf2]; conv => rhs; rw [iterLoop]
        simp [hlt, Src.step]
    · refine ⟨st, [], t, ?_, ?_, by simp, hi, ?_⟩
      · simp [whileLoop, hcond t st hi, Src.step, hlt]
      · rw [iterLoop]; simp [hlt]
      · rw [iterLoop]; simp [hlt]

end Fc.PyLite.C15O
