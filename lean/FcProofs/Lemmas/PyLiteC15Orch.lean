/-
  FcProofs.Lemmas.PyLiteC15Orch — phase 6 round 3: presentation of the sequence model (FcModel/Seq.lean) to the translated
  orchestration code (`FieldDataSequence`, `FileComparison._compare_field_sequences`) and the assumptions about its externals.
-/
import FcModel.Seq
import FcProofs.Lemmas.PyLiteC15
import FcProofs.Lemmas.PyLiteOrch
namespace Fc.PyLite.C15O
open Fc Fc.PyLite Fc.PyLite.C15

/-- the data of one step of a sequence: opaque, identified by its index -/
def stepV (i : Nat) : Val := .int i

/-- a `TestSuite` object as the step loop reads it: the `status` PROPERTY (`TSuite.statusProp`, cf.
    `C15_source_test_suite_status`), its `shortlog` (opaque) and the tests `list(suite)` yields -/
def tsObj (s : TSuite) : Val :=
  .record [("status", tsVal s.statusProp), ("shortlog", .str "log"), ("__iter__", .list (s.tests.map testVal))]

/-- a `FieldDataSequence` as the step loop reads it: `number_of_steps` and the steps its iteration yields -/
def seqObj (n : Nat) (items : List Nat) : Val :=
  .record [("number_of_steps", .int n), ("__iter__", .list (items.map stepV))]

/-- the `FileComparison` object: its options and its logger -/
def fcSelfV (o : SeqOpts) (lg : Val) : Val :=
  .record [("_opts", .record [("ignore_missing_sequence_steps", .bool o.ignoreMissing),
                              ("force_sequence_comparison", .bool o.force)]), ("_logger", lg)]

/-- ASSUMPTIONS about the externals of `_compare_field_sequences`: `_make_test_suite` builds the suite object from the
    tests and the explicit status (name / shortlog opaque); `self._compare_field_data(res_step, ref_step)` is the model's
    `step i j`; logging and writing diff files return `None` (their output is outside the modelled result). -/
structure SeqExt (X : Ext) (o : SeqOpts) (lg : Val) (step : Nat → Nat → TSuite) : Prop where
  hmk : ∀ (nm sl : Val) (st : Option TStatus) (ts : List TStatus),
    X "_make_test_suite(name=,shortlog=,status=,tests=)" [nm, sl, optTsVal st, .list (ts.map testVal)] = .ok (tsObj ⟨ts, st⟩)
  hstep : ∀ i j, X "._compare_field_data" [fcSelfV o lg, stepV i, stepV j] = .ok (tsObj (step i j))
  hlog : ∀ m, X ".log" [lg, m] = .ok .none
  hlogv : ∀ m v, X ".log(verbosity_level=)" [lg, m, v] = .ok .none
  hdiff : ∀ sv nm a b, X "._write_diff_file" [sv, nm, a, b] = .ok .none

/-- one round of the step loop on (suite so far, counter) -/
def seqStep (step : Nat → Nat → TSuite) (acc : TSuite × Nat) (p : Nat × Nat) : TSuite × Nat :=
  (mergeSuites acc.1 (step p.1 p.2), acc.2 + 1)

theorem foldl_seqStep (step : Nat → Nat → TSuite) (ps : List (Nat × Nat)) (a : TSuite) (k : Nat) :
    ps.foldl (seqStep step) (a, k) = (ps.foldl (fun acc p => mergeSuites acc (step p.1 p.2)) a, k + ps.length) := by
  induction ps generalizing a k with
  | nil => simp
  | cons p r ih => simp [List.foldl_cons, seqStep, ih]; omega

/-- the pairs `zip(res, ref)` yields, as presented -/
def pairStepV (p : Nat × Nat) : Val := .list [stepV p.1, stepV p.2]

theorem zipWith_stepV (rs fs : List Nat) :
    List.zipWith (fun a b => Val.list [a, b]) (rs.map stepV) (fs.map stepV) = (rs.zip fs).map pairStepV := by
  induction rs generalizing fs with
  | nil => simp
  | cons a r ih => cases fs with
    | nil => simp
    | cons b f => simp [ih, pairStepV]

theorem zipWith_stepV' (rs fs : List Nat) :
    List.zipWith (fun a b => Val.list [stepV a, stepV b]) rs fs = (rs.zip fs).map pairStepV := by
  induction rs generalizing fs with
  | nil => simp
  | cons a r ih => cases fs with
    | nil => simp
    | cons b f => simp [ih, pairStepV]

theorem int_beq_natCast (a b : Nat) : ((a : Int) == (b : Int)) = (a == b) := by
  rw [Bool.eq_iff_iff, beq_iff_eq, beq_iff_eq]
  omega

end Fc.PyLite.C15O
