/-
  FcProofs.Lemmas.Junit — helper lemmas for C20 (JUnit report).
-/
import FcProofs.Lemmas.Cli
import FcModel.Spec.C20
namespace Fc.C04
open Fc

/-! ### the tables of `_junit.py` (re-checked against the regenerated source tables) -/

/-- how a consumer classifies the test case written for a test of status `st` -/
def kindOfStatus : TestStatus → CaseKind
  | .passed => .passed
  | .failed => .failure
  | .error => .error
  | .skipped => .skipped

theorem kind_of_case (n : String) (st : TestStatus) :
    (⟨n, junitChildren st⟩ : TestCase).kind = kindOfStatus st := by
  have h : (⟨n, junitChildren st⟩ : TestCase).kind = (⟨"", junitChildren st⟩ : TestCase).kind := rfl
  rw [h]
  cases st <;> decide

theorem countAttr_tests (ts : List Test) : countAttr "tests" ts = ts.length := by
  simp [countAttr, Gen.cliJunitCounts, List.lookup]

theorem status_name_eq (st : TestStatus) (k : TestStatus) : (st.name == k.name) = (st == k) := by
  cases st <;> cases k <;> decide

theorem countAttr_failures (ts : List Test) :
    countAttr "failures" ts = (ts.filter fun t => t.status == .failed).length := by
  have : ∀ t : Test, (t.status.name == "failed") = (t.status == .failed) := fun t => status_name_eq t.status .failed
  simp [countAttr, Gen.cliJunitCounts, List.lookup, this]

theorem countAttr_errors (ts : List Test) :
    countAttr "errors" ts = (ts.filter fun t => t.status == .error).length := by
  have : ∀ t : Test, (t.status.name == "error") = (t.status == .error) := fun t => status_name_eq t.status .error
  simp [countAttr, Gen.cliJunitCounts, List.lookup, this]

theorem countAttr_skipped (ts : List Test) :
    countAttr "skipped" ts = (ts.filter fun t => t.status == .skipped).length := by
  have : ∀ t : Test, (t.status.name == "skipped") = (t.status == .skipped) := fun t => status_name_eq t.status .skipped
  simp [countAttr, Gen.cliJunitCounts, List.lookup, this]

/-- number of test cases of kind `k` in the element = number of tests whose status maps to `k` -/
theorem count_cases (name : String) (s : Suite) (k : CaseKind) :
    (junitElement name s).count k = (s.tests.filter fun t => kindOfStatus t.status == k).length := by
  unfold JSuite.count junitElement
  simp only
  induction s.tests with
  | nil => rfl
  | cons t ts ih =>
    simp only [List.map_cons, List.filter_cons, kind_of_case]
    split <;> simp [ih]

theorem kind_failure_iff (st : TestStatus) : (kindOfStatus st == .failure) = (st == .failed) := by
  cases st <;> decide
theorem kind_error_iff (st : TestStatus) : (kindOfStatus st == .error) = (st == .error) := by
  cases st <;> decide
theorem kind_skipped_iff (st : TestStatus) : (kindOfStatus st == .skipped) = (st == .skipped) := by
  cases st <;> decide

/-- a test case shows a failure or an error exactly when its test's status is falsy -/
theorem shows_iff_falsy (st : TestStatus) :
    (kindOfStatus st == .failure || kindOfStatus st == .error) = !suiteIsTrue st := by
  cases st <;> decide

theorem showsFailure_single (name : String) (s : Suite) :
    Spec.showsFailure [junitElement name s] = !(s.tests.all fun t => suiteIsTrue t.status) := by
  unfold Spec.showsFailure junitElement
  simp only [List.any_cons, List.any_nil, Bool.or_false, List.any_map, Function.comp_def, kind_of_case,
    shows_iff_falsy]
  induction s.tests with
  | nil => rfl
  | cons t ts ih => simp [List.any_cons, List.all_cons, ih, Bool.not_and]

theorem exit_ne_zero (b : Bool) : (ExitOutcome.exit (boolToExitCode b) != ExitOutcome.exit 0) = !b := by
  cases b <;> decide

/-! ### every suite the comparison produces keeps the invariant `testsOk` -/

theorem runComparison_testsOk (o : Opts) (s : Scenario) (su : Suite) (h : runComparison o s = .suite su) :
    su.testsOk := by
  unfold runComparison at h
  cases hr : s.readRes with
  | ioerror => rw [hr] at h; simp only [CmpRes.suite.injEq] at h; subst h; exact testsOk_nil _
  | exception => rw [hr] at h; simp at h
  | ok =>
    rw [hr] at h
    simp only at h
    cases hf : s.readRef with
    | ioerror => rw [hf] at h; simp only [CmpRes.suite.injEq] at h; subst h; exact testsOk_nil _
    | exception => rw [hf] at h; simp at h
    | ok =>
      rw [hf] at h
      simp only at h
      cases hp : s.payload with
      | mixed => rw [hp] at h; simp at h
      | single p => rw [hp] at h; exact compareFieldData_testsOk o p su h
      | seqs n m steps =>
        rw [hp] at h
        simp only [compareSequences] at h
        split at h
        · simp only [CmpRes.suite.injEq] at h; subst h; exact testsOk_nil _
        · exact (seqLoop_passes o (fun p => (compareFieldData o p).passes) _ _ (testsOk_nil _)
            (fun _ _ => rfl)).2 su h

/-! ### agreement of one suite with its verdict -/

theorem suite_agrees_iff (name : String) (su : Suite) (hinv : su.testsOk) :
    Spec.agrees (.exit (boolToExitCode su.bool)) [junitElement name su] = true ↔ Spec.unbacked su = false := by
  unfold Spec.agrees
  rw [exit_ne_zero, showsFailure_single]
  unfold Spec.unbacked
  cases hb : su.bool with
  | true =>
    have hall := hinv hb
    simp only [hall, Bool.not_true, beq_self_eq_true, true_iff]
    cases hs : su.status with
    | none => rfl
    | some st =>
      have : suiteIsTrue st = true := by simpa [Suite.bool, hs] using hb
      simp [this]
  | false =>
    cases hs : su.status with
    | none =>
      have : (su.tests.all fun t => suiteIsTrue t.status) = false := by simpa [Suite.bool, hs] using hb
      simp [this]
    | some st =>
      have : suiteIsTrue st = false := by simpa [Suite.bool, hs] using hb
      cases hall : (su.tests.all fun t => suiteIsTrue t.status) <;> simp [this]

theorem showsFailure_cons (j : JSuite) (js : List JSuite) :
    Spec.showsFailure (j :: js) = (Spec.showsFailure [j] || Spec.showsFailure js) := by
  simp [Spec.showsFailure]

/-- a list of backed suites shows a failure iff one of them is false -/
theorem showsFailure_suites (suites : List (String × Suite))
    (hinv : ∀ su ∈ suites, su.2.testsOk) (hb : ∀ su ∈ suites, Spec.unbacked su.2 = false) :
    Spec.showsFailure (suites.map fun s => junitElement s.1 s.2) = !(suites.all fun s => s.2.bool) := by
  induction suites with
  | nil => rfl
  | cons x xs ih =>
    have hx := (suite_agrees_iff x.1 x.2 (hinv x (by simp))).mpr (hb x (by simp))
    unfold Spec.agrees at hx
    rw [exit_ne_zero] at hx
    have ih' := ih (fun su h => hinv su (by simp [h])) (fun su h => hb su (by simp [h]))
    rw [List.map_cons, showsFailure_cons, ih', List.all_cons, Bool.not_and]
    have : Spec.showsFailure [junitElement x.1 x.2] = !x.2.bool := by
      cases hsf : Spec.showsFailure [junitElement x.1 x.2] <;> cases hxb : x.2.bool <;>
        simp [hsf, hxb] at hx ⊢
    rw [this]

/-! ### directory mode: all suites keep the invariant; the dummy suites are backed -/

theorem skippedFileSuite_ok (b : Bool) (n : String) :
    (skippedFileSuite b n).2.testsOk ∧ Spec.unbacked (skippedFileSuite b n).2 = false := by
  cases b <;> refine ⟨?_, ?_⟩ <;> simp [skippedFileSuite, Suite.testsOk, Suite.bool, Spec.unbacked] <;> decide

theorem dirFileSuite_testsOk (pf : String → FloatLit) (f : DirFile) : (dirFileSuite pf f).2.testsOk := by
  unfold dirFileSuite
  cases ho : mkOpts pf { f.scen with forceSeq := false } with
  | none => exact testsOk_nil _
  | some o =>
    simp only
    cases hc : runComparison o { f.scen with forceSeq := false } with
    | exc => exact testsOk_nil _
    | suite su => exact runComparison_testsOk o _ su hc

theorem dirSuites_testsOk (pf : String → FloatLit) (d : DirScenario) :
    ∀ su ∈ dirSuites pf d, su.2.testsOk := by
  intro su hsu
  simp only [dirSuites, List.mem_append, List.mem_map] at hsu
  rcases hsu with (((⟨f, _, rfl⟩ | ⟨n, _, rfl⟩) | ⟨n, _, rfl⟩) | ⟨n, _, rfl⟩) | ⟨n, _, rfl⟩
  · exact dirFileSuite_testsOk pf f
  · exact (skippedFileSuite_ok _ n).1
  · exact (skippedFileSuite_ok _ n).1
  · exact (skippedFileSuite_ok _ n).1
  · exact (skippedFileSuite_ok _ n).1

theorem dirSuites_backed (pf : String → FloatLit) (d : DirScenario)
    (hb : ∀ f ∈ d.compared, Spec.unbacked (dirFileSuite pf f).2 = false) :
    ∀ su ∈ dirSuites pf d, Spec.unbacked su.2 = false := by
  intro su hsu
  simp only [dirSuites, List.mem_append, List.mem_map] at hsu
  rcases hsu with (((⟨f, hf, rfl⟩ | ⟨n, _, rfl⟩) | ⟨n, _, rfl⟩) | ⟨n, _, rfl⟩) | ⟨n, _, rfl⟩
  · exact hb f hf
  · exact (skippedFileSuite_ok _ n).2
  · exact (skippedFileSuite_ok _ n).2
  · exact (skippedFileSuite_ok _ n).2
  · exact (skippedFileSuite_ok _ n).2

/-! ### skipped entries -/

theorem mem_skippedNames (o : Opts) (name : String) (cs : List (String × FcStatus)) (n : String) :
    n ∈ Spec.skippedNames (junitElement name (toTestSuite o cs)) ↔
      ∃ c ∈ cs, c.1 = n ∧ parseStatus o.ignSrc o.ignRef c.2 = .skipped := by
  simp only [Spec.skippedNames, junitElement, toTestSuite, List.map_map, List.mem_map, List.mem_filter,
    Function.comp_def]
  constructor
  · rintro ⟨tc, ⟨⟨c, hc, rfl⟩, hk⟩, rfl⟩
    rw [kind_of_case, kind_skipped_iff] at hk
    exact ⟨c, hc, rfl, by simpa using hk⟩
  · rintro ⟨c, hc, rfl, hs⟩
    refine ⟨_, ⟨⟨c, hc, rfl⟩, ?_⟩, rfl⟩
    rw [kind_of_case, kind_skipped_iff, hs]
    rfl

theorem compared_not_skipped (o : Opts) (a b : Field) :
    parseStatus o.ignSrc o.ignRef (fieldStatus o a b) ≠ .skipped := by
  unfold fieldStatus fieldVerdict
  generalize defaultCheck _ _ _ _ = v
  rcases v with (_ | _) | _ <;> simp [verdictStatus, parseStatus]

theorem missingSource_skipped (o : Opts) : parseStatus o.ignSrc o.ignRef .missingSource = .skipped ↔ o.ignSrc = true := by
  cases o.ignSrc <;> simp [parseStatus]

theorem missingReference_skipped (o : Opts) : parseStatus o.ignSrc o.ignRef .missingReference = .skipped ↔ o.ignRef = true := by
  cases o.ignRef <;> simp [parseStatus]

end Fc.C04
