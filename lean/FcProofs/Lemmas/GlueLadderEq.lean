/-
  FcProofs.Lemmas.GlueLadderEq — the hypothesis `wfEq` of the C03 theorems (rectangular type blocks)
  survives the ladder's transformations.  Separate file because it needs C03's lemma file
  (`Lemmas/MeshEqual.lean`, which also carries the facts about the regenerated cell-type table):
  only `Props/C03_Glue.lean` imports it, so the C19 / C17 glue does not depend on that table.
-/
import FcProofs.Lemmas.GlueLadder
import FcProofs.Lemmas.MeshEqual
namespace Fc.Glue
open Fc Fc.Spec

theorem wfEq_of_padContent {k : Nat} {b a : MeshFields} (h : PadContent k b a) (hwa : WFP a)
    (hwb : C03.wfEq b.mesh = true) : C03.wfEq a.mesh = true := by
  rw [C03.wfEq_iff] at hwb ⊢
  obtain ⟨_, hnd, hu⟩ := hwb
  refine ⟨hwa.rows, hwa.types, ?_⟩
  intro β hβ
  apply C03.uniform_of_width β.2 (((b.mesh.cellsOf β.1).head?.map List.length).getD 0)
  intro r hr
  obtain ⟨c, hc, rfl⟩ := List.getElem_of_mem hr
  -- the cell item of this row occurs in `a`'s content, hence (up to padding) in `b`'s
  have hmem : (β.1, (β.2[c]).map fun p => a.mesh.points.getD p []) ∈
      a.cellContent.map fun it => (it.ctype, it.corners) := by
    apply List.mem_map.mpr
    refine ⟨a.cellItem β.1 c (β.2.getD c []), ?_, ?_⟩
    · unfold MeshFields.cellContent
      apply List.mem_flatMap.mpr
      exact ⟨β, hβ, List.mem_map.mpr ⟨c, List.mem_range.mpr hc, rfl⟩⟩
    · simp [MeshFields.cellItem, List.getD_eq_getElem?_getD, List.getElem?_eq_getElem hc]
  have hmem' := h.cells.subset hmem
  obtain ⟨it, hit, heq⟩ := List.mem_map.mp hmem'
  unfold MeshFields.cellContent at hit
  obtain ⟨β', hβ', hit'⟩ := List.mem_flatMap.mp hit
  obtain ⟨c', hc', rfl⟩ := List.mem_map.mp hit'
  have hc'' : c' < β'.2.length := List.mem_range.mp hc'
  simp only [MeshFields.cellItem, Prod.mk.injEq] at heq
  obtain ⟨ht, hcor⟩ := heq
  have hlen := congrArg List.length hcor
  simp only [List.length_map] at hlen
  have hrow : β'.2.getD c' [] ∈ b.mesh.cellsOf β.1 := by
    rw [← ht, cellsOf_of_mem b.mesh hnd β' hβ', List.getD_eq_getElem?_getD,
      List.getElem?_eq_getElem hc'']
    exact List.getElem_mem hc''
  have hU : C03.Uniform (b.mesh.cellsOf β.1) := by
    rw [← ht, cellsOf_of_mem b.mesh hnd β' hβ']; exact hu β' hβ'
  rw [← hlen]
  exact hU _ hrow

end Fc.Glue
