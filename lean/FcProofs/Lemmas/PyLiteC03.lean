/-
  FcProofs.Lemmas.PyLiteC03 — presentation of sets of cell types (FcModel/MeshEqual.lean: lists of VTK names)
  to PyLite, and the list facts behind `_without_compatibles`.
-/
import FcModel.MeshEqual
import FcProofs.Lemmas.PyLiteLoops
namespace Fc.PyLite.C03
open Fc.PyLite

/-- a cell type (identified by its VTK name, as in the model) -/
def ctv (c : String) : Val := .str c

/-- a set / list of cell types, in the iteration order the model fixes -/
def cts (l : List String) : Val := .list (l.map ctv)

/-- `itertools.product(a, b)` in its documented (row-major) order -/
def pairs (a b : List String) : List (String × String) := a.flatMap fun c1 => b.map fun c2 => (c1, c2)
def pairVal (p : String × String) : Val := .list [ctv p.1, ctv p.2]
def productVal (a b : List String) : Val := .list ((pairs a b).map pairVal)

/-- What the theorems assume about the callees of `_without_compatibles` / `_find_compatible`: Python sets are
    presented as lists (`cts`); `set()` is the empty one, `set(xs)` keeps the elements, `a.union(b)` is a list
    holding the elements of both (here: `a ++ b`), `a.difference(b)` keeps the elements of `a` that are not in
    `b`, `product` enumerates the pairs, `c1.is_compatible_with(c2)` is the model's `compatible`.  Every use the
    model makes of the results (emptiness, membership) does not depend on order or repetitions. -/
structure SetExt (X : Ext) : Prop where
  empty : X "set" [] = .ok (cts [])
  ofList : ∀ l, X "set" [cts l] = .ok (cts l)
  union : ∀ a b, X ".union" [cts a, cts b] = .ok (cts (a ++ b))
  difference : ∀ a b, X ".difference" [cts a, cts b] = .ok (cts (a.filter fun c => !b.contains c))
  product : ∀ a b, X "product" [cts a, cts b] = .ok (productVal a b)
  compatible : ∀ c1 c2, X ".is_compatible_with" [ctv c1, ctv c2] = .ok (.bool (Fc.C03.compatible c1 c2))

theorem foldl_append_flatMap {α β : Type} (g : α → List β) (l : List α) (init : List β) :
    l.foldl (fun acc a => acc ++ g a) init = init ++ l.flatMap g := by
  induction l generalizing init with
  | nil => simp
  | cons a r ih => simp [ih]

theorem flatMap_product {α β γ : Type} (g : α × β → List γ) (a : List α) (b : List β) :
    (a.flatMap fun c1 => b.map fun c2 => (c1, c2)).flatMap g = a.flatMap fun c1 => b.flatMap fun c2 => g (c1, c2) := by
  induction a with
  | nil => rfl
  | cons x r ih => simp [List.flatMap_cons, List.flatMap_append, ih, List.flatMap_map]

end Fc.PyLite.C03
