/-
  FcProofs.Lemmas.EffectsRun — helpers of the C19 theorems: configuration of a predicate object is invariant under calls;
  well-formed worlds; the written set along a history.
-/
import FcProofs.Lemmas.Effects
namespace Fc.C19

theorem PredObj.call_config (p : PredObj) (a b : NdArr) :
    (p.call a b).1.kind = p.kind ∧ (p.call a b).1.rel = p.rel ∧ (p.call a b).1.abs = p.abs := by
  simp only [PredObj.call, PredObj.remember]
  repeat' split
  all_goals exact ⟨rfl, rfl, rfl⟩

theorem PredObj.call_verdict (p : PredObj) (a b : NdArr) :
    (p.call a b).2 = verdictOf p.kind p.rel p.abs a b := rfl

/-- everything reachable from the objects of the initial world exists (`< next`) -/
def World.wf (w : World) : Prop := ∀ i ∈ w.reachable, i < w.next

theorem runSteps_written (w : World) (steps : List EStep) (hc : ∀ s ∈ steps, s.op.isCurrent = true) :
    w.next ≤ (runSteps w steps).next ∧ ∀ i ∈ (runSteps w steps).written, i ∈ w.written ∨ w.next ≤ i := by
  induction steps generalizing w with
  | nil => exact ⟨Nat.le_refl _, fun i hi => Or.inl hi⟩
  | cons s r ih =>
    have h1 := stepEffect_spec w s
    have h2 := ih (stepEffect w s).1 (fun t ht => hc t (List.mem_cons_of_mem _ ht))
    simp only [runSteps]
    refine ⟨Nat.le_trans h1.1 h2.1, ?_⟩
    intro i hi
    rcases h2.2 i hi with h | h
    · exact (h1.2 (hc s List.mem_cons_self)).2 i h
    · right; exact Nat.le_trans h1.1 h


end Fc.C19
