/-
  FcProofs.Lemmas.ResidCentre — the rounding-error bound for `cellCentre` (sequential binary64 sum of
  the corner rows + one binary64 division) that the notes of C02 name as the missing ingredient of
  `hrigid` and `hrel`:

    two cells with the same number `k` of corners whose corner coordinates correspond one-to-one
    (in ANY order) up to `δ`, all magnitudes `≤ M`:   for every column

        2^53 · |centre − centre'|  ≤  2^53 · δ + (2k + 4) · M + 2^53

  i.e. `|centre − centre'| ≤ δ + (2k+4)·M·2^-53 + 1 unit`.  Built from the half-ulp bound
  `rndRaw_error` / `ulp_bound` (FcProofs/Lemmas/RoundingError.lean).
-/
import FcModel.SortPoints
import FcProofs.Lemmas.RoundingError
import Mathlib.Tactic.Ring
import Mathlib.Tactic.Linarith
namespace Fc.Resid
open Fc Fc.C02

/-! ### one rounding -/

/-- binary64, scale 0: relative error `2^-53` (exact in the subnormal range) -/
theorem rndRaw_rel (a : Nat) :
    9007199254740992 * rndRaw f64 a 0 ≤ 9007199254740993 * a ∧
    9007199254740991 * a ≤ 9007199254740992 * rndRaw f64 a 0 := by
  rcases Nat.eq_zero_or_pos a with rfl | ha
  · simp [rndRaw_zero]
  · have he := rndRaw_error f64 a 0
    simp only [Nat.pow_zero, Nat.mul_one] at he
    rcases ulp_bound f64 a 0 (by omega) with hs | hs
    · have : ulpShift f64 a 0 = 0 := by simpa [f64] using hs
      rw [this] at he
      simp only [Nat.pow_zero] at he
      omega
    · have hs' : 2 ^ ulpShift f64 a 0 * 4503599627370496 ≤ a := by simpa [f64] using hs
      generalize 2 ^ ulpShift f64 a 0 = E at he hs'
      omega

/-- `fadd`-style rounding of an integer number of units: `2^53 · |r − n| ≤ |n|` -/
theorem rndInt_rel {n r : Int} (h : rndInt f64 n 0 = some r) :
    9007199254740992 * (r - n).natAbs ≤ n.natAbs := by
  unfold rndInt rndMag at h
  simp only at h
  split at h
  · cases h
  · rename_i r' hr'
    split at hr'
    · cases hr'
    · cases hr'
      have hb := rndRaw_rel n.natAbs
      cases h
      split <;> omega

theorem fadd_rel {a b r : Int} (h : fadd a b = some r) :
    9007199254740992 * (r - (a + b)).natAbs ≤ (a + b).natAbs :=
  rndInt_rel h

/-! ### the sequential sum -/

/-- invariant of the running binary64 sum: after `i` terms of magnitude `≤ M` the distance to the
    exact sum `X` is at most `i² · M · 2^-53` -/
theorem fsum_error (M : Nat) (xs : List Int) : ∀ (acc X : Int) (i : Nat) (s : Int),
    xs.foldlM fadd acc = some s → (∀ x ∈ xs, x.natAbs ≤ M) → i + xs.length ≤ 9007199254740992 →
    9007199254740992 * (acc - X).natAbs ≤ i * i * M → X.natAbs ≤ i * M →
    9007199254740992 * (s - (X + xs.sum)).natAbs ≤ (i + xs.length) * (i + xs.length) * M ∧
      (X + xs.sum).natAbs ≤ (i + xs.length) * M := by
  induction xs with
  | nil =>
    intro acc X i s h _ _ hd hX
    simp only [List.foldlM_nil, Option.pure_def, Option.some.injEq] at h
    subst h
    simpa using ⟨hd, hX⟩
  | cons x t ih =>
    intro acc X i s h hM hi hd hX
    simp only [List.foldlM_cons, Option.bind_eq_bind] at h
    cases h1 : fadd acc x with
    | none => rw [h1] at h; cases h
    | some a1 =>
      rw [h1, Option.bind_some] at h
      have hx : x.natAbs ≤ M := hM x (List.mem_cons_self ..)
      have hr := fadd_rel h1
      simp only [List.length_cons] at hi
      -- `d ≤ i·M`
      have hdi : (acc - X).natAbs ≤ i * M := by
        have h1' : i * i * M ≤ 9007199254740992 * (i * M) := by
          have : i ≤ 9007199254740992 := by omega
          calc i * i * M = i * (i * M) := by ring
            _ ≤ 9007199254740992 * (i * M) := Nat.mul_le_mul_right _ this
        exact Nat.le_of_mul_le_mul_left (Nat.le_trans hd h1') (by decide)
      have e2 : (i + 1) * (i + 1) * M = i * i * M + 2 * (i * M) + M := by ring
      have e3 : (i + 1) * M = i * M + M := by ring
      have hd' : 9007199254740992 * (a1 - (X + x)).natAbs ≤ (i + 1) * (i + 1) * M := by
        rw [e2]
        omega
      have hX' : (X + x).natAbs ≤ (i + 1) * M := by
        rw [e3]; omega
      have ih' := ih a1 (X + x) (i + 1) s h
        (fun y hy => hM y (List.mem_cons_of_mem _ hy)) (by omega) hd' hX'
      have e4 : i + 1 + t.length = i + (t.length + 1) := by omega
      rw [e4] at ih'
      simpa [List.sum_cons, add_assoc] using ih'

/-- the sum of a row `x0 :: xs` of `k` values of magnitude `≤ M` -/
theorem frow_error {M : Nat} {x0 : Int} {xs : List Int} {s : Int} (h : xs.foldlM fadd x0 = some s)
    (h0 : x0.natAbs ≤ M) (hM : ∀ x ∈ xs, x.natAbs ≤ M) (hk : xs.length + 1 ≤ 9007199254740992) :
    9007199254740992 * (s - (x0 :: xs).sum).natAbs ≤ (xs.length + 1) * (xs.length + 1) * M ∧
      ((x0 :: xs).sum).natAbs ≤ (xs.length + 1) * M := by
  have := fsum_error M xs x0 x0 1 s h hM (by omega) (by simp) (by simpa using h0)
  simpa [List.sum_cons, Nat.add_comm] using this

/-! ### the division by the number of corners -/

theorem rneDiv_eq_rneP (a d : Nat) : rneDiv a d = rneP a d := rfl

/-- `2^53 · |k·z − a| ≤ |a| + 2^52·k`: relative error `2^-53`, or half a unit per corner when the
    quotient is subnormal -/
theorem fdivNat_error {a z : Int} {k : Nat} (h : fdivNat a k = some z) :
    0 < k ∧ 9007199254740992 * ((k : Int) * z - a).natAbs ≤ a.natAbs + 4503599627370496 * k := by
  unfold fdivNat at h
  split at h
  · cases h
  · rename_i hk0
    have hk : 0 < k := Nat.pos_of_ne_zero hk0
    refine ⟨hk, ?_⟩
    simp only at h
    split at h
    · cases h
    · simp only [Option.some.injEq] at h
      set m := a.natAbs with hm
      set sh := (m / k).log2 - 52 with hsh
      have hd : 0 < k * 2 ^ sh := Nat.mul_pos hk (two_pow_pos' _)
      have hhalf := rneP_half m (k * 2 ^ sh) hd
      rw [← rneDiv_eq_rneP] at hhalf
      set q := rneDiv m (k * 2 ^ sh) with hq
      -- k · r = q · (k·2^sh)
      have hkr : k * (q * 2 ^ sh) = q * (k * 2 ^ sh) := by ring
      -- the quantum: `k·2^sh·2^52 ≤ m` or `sh = 0`
      have hquant : sh = 0 ∨ k * 2 ^ sh * 4503599627370496 ≤ m := by
        by_cases h0 : (m / k).log2 ≤ 52
        · left; omega
        · right
          have hne : m / k ≠ 0 := by
            intro e
            rw [e] at h0
            simp [Nat.log2_zero] at h0
          have h2 := Nat.log2_self_le hne
          have hpow : 2 ^ (m / k).log2 = 2 ^ sh * 4503599627370496 := by
            have : (m / k).log2 = sh + 52 := by omega
            rw [this, Nat.pow_add]
          rw [hpow] at h2
          have h3 : k * (m / k) ≤ m := Nat.mul_div_le m k
          calc k * 2 ^ sh * 4503599627370496 = k * (2 ^ sh * 4503599627370496) := by ring
            _ ≤ k * (m / k) := Nat.mul_le_mul_left k h2
            _ ≤ m := h3
      have key : 9007199254740992 * ((k : Int) * ((q * 2 ^ sh : Nat) : Int) - (m : Int)).natAbs ≤
          m + 4503599627370496 * k := by
        have hcast : (k : Int) * ((q * 2 ^ sh : Nat) : Int) = ((q * (k * 2 ^ sh) : Nat) : Int) := by
          rw [← hkr]; push_cast; ring
        rw [hcast]
        rcases hquant with h0 | h0
        · rw [h0] at hhalf ⊢
          simp only [Nat.pow_zero, Nat.mul_one] at hhalf ⊢
          omega
        · generalize q * (k * 2 ^ sh) = W at hhalf ⊢
          generalize k * 2 ^ sh = D at hhalf h0
          omega
      by_cases hneg : a < 0
      · simp only [hneg, if_true] at h
        subst h
        have ha : a = -(m : Int) := by omega
        have : (k : Int) * -((q * 2 ^ sh : Nat) : Int) - a =
            -((k : Int) * ((q * 2 ^ sh : Nat) : Int) - (m : Int)) := by rw [ha]; ring
        rw [this, Int.natAbs_neg]
        exact key
      · simp only [hneg, if_false] at h
        subst h
        have ha : a = (m : Int) := by omega
        have : (k : Int) * ((q * 2 ^ sh : Nat) : Int) - a =
            (k : Int) * ((q * 2 ^ sh : Nat) : Int) - (m : Int) := by rw [ha]
        rw [this]
        exact key

/-! ### two rows whose values correspond up to `δ`, in any order -/

theorem sum_perm {l1 l2 : List Int} (h : l1.Perm l2) : l1.sum = l2.sum := by
  induction h with
  | nil => rfl
  | cons x _ ih => simp [List.sum_cons, ih]
  | swap x y l => simp only [List.sum_cons]; omega
  | trans _ _ ih1 ih2 => rw [ih1, ih2]

theorem sum_close {δ : Nat} : ∀ {l1 l2 : List Int}, List.Forall₂ (fun x w => (w - x).natAbs ≤ δ) l1 l2 →
    (l2.sum - l1.sum).natAbs ≤ l1.length * δ
  | _, _, .nil => by simp
  | _, _, .cons h t => by
    have ih := sum_close t
    simp only [List.sum_cons, List.length_cons]
    have e : ∀ n : Nat, (n + 1) * δ = n * δ + δ := fun n => by ring
    rw [e]
    omega

/-- **the numeric core**: the centres (one column) of two `k`-corner cells whose corner values
    correspond one-to-one up to `δ`, in any order -/
theorem centre_core {δ M : Nat} {x0 y0 : Int} {xs ys ws : List Int} {s s' z z' : Int}
    (hs : xs.foldlM fadd x0 = some s) (hs' : ys.foldlM fadd y0 = some s')
    (hz : fdivNat s (xs.length + 1) = some z) (hz' : fdivNat s' (xs.length + 1) = some z')
    (hlen : ys.length = xs.length)
    (hperm : (y0 :: ys).Perm ws) (hclose : List.Forall₂ (fun x w => (w - x).natAbs ≤ δ) (x0 :: xs) ws)
    (hMx : ∀ x ∈ x0 :: xs, x.natAbs ≤ M) (hMy : ∀ y ∈ y0 :: ys, y.natAbs ≤ M)
    (hk : xs.length + 1 ≤ 9007199254740992) :
    9007199254740992 * (z - z').natAbs ≤ 9007199254740992 * δ + (2 * (xs.length + 1) + 4) * M + 9007199254740992 := by
  obtain ⟨e1, b1⟩ := frow_error hs (hMx x0 (List.mem_cons_self ..))
    (fun x hx => hMx x (List.mem_cons_of_mem _ hx)) hk
  obtain ⟨e2, b2⟩ := frow_error hs' (hMy y0 (List.mem_cons_self ..))
    (fun y hy => hMy y (List.mem_cons_of_mem _ hy)) (by rw [hlen]; exact hk)
  rw [hlen] at e2 b2
  obtain ⟨hkpos, d1⟩ := fdivNat_error hz
  obtain ⟨_, d2⟩ := fdivNat_error hz'
  have hsum : ((y0 :: ys).sum - (x0 :: xs).sum).natAbs ≤ (xs.length + 1) * δ := by
    rw [sum_perm hperm]
    have := sum_close hclose
    simpa using this
  generalize (x0 :: xs).sum = X at *
  generalize (y0 :: ys).sum = Y at *
  generalize xs.length + 1 = k at *
  -- `|s| ≤ 2kM`, `|s'| ≤ 2kM`
  have hkk : k * k * M ≤ 9007199254740992 * (k * M) := by
    calc k * k * M = k * (k * M) := by ring
      _ ≤ 9007199254740992 * (k * M) := Nat.mul_le_mul_right _ hk
  have hs1 : (s - X).natAbs ≤ k * M := Nat.le_of_mul_le_mul_left (Nat.le_trans e1 hkk) (by decide)
  have hs2 : (s' - Y).natAbs ≤ k * M := Nat.le_of_mul_le_mul_left (Nat.le_trans e2 hkk) (by decide)
  -- everything multiplied by k: five error terms
  have htri : ((k : Int) * z - (k : Int) * z').natAbs ≤
      ((k : Int) * z - s).natAbs + (s - X).natAbs + (Y - X).natAbs + (s' - Y).natAbs +
        ((k : Int) * z' - s').natAbs := by
    generalize (k : Int) * z = U
    generalize (k : Int) * z' = V
    omega
  have hsa : s.natAbs ≤ 2 * (k * M) := by omega
  have hsa' : s'.natAbs ≤ 2 * (k * M) := by omega
  generalize ((k : Int) * z - s).natAbs = n1 at htri d1
  generalize ((k : Int) * z' - s').natAbs = n5 at htri d2
  generalize (s - X).natAbs = n2 at htri e1 hs1
  generalize (s' - Y).natAbs = n4 at htri e2 hs2
  generalize (Y - X).natAbs = n3 at htri hsum
  generalize s.natAbs = a1 at d1 hsa
  generalize s'.natAbs = a2 at d2 hsa'
  have hmain : 9007199254740992 * ((k : Int) * z - (k : Int) * z').natAbs ≤
      9007199254740992 * (k * δ) + 2 * (k * k * M) + 4 * (k * M) + 9007199254740992 * k := by
    generalize ((k : Int) * z - (k : Int) * z').natAbs = n0 at htri
    have h3 : 9007199254740992 * n3 ≤ 9007199254740992 * (k * δ) := Nat.mul_le_mul_left _ hsum
    clear b1 b2 hs1 hs2 hsum hkk
    omega
  have hfac : ((k : Int) * z - (k : Int) * z').natAbs = k * (z - z').natAbs := by
    rw [← mul_sub, Int.natAbs_mul, Int.natAbs_natCast]
  rw [hfac] at hmain
  have hrhs : 9007199254740992 * (k * δ) + 2 * (k * k * M) + 4 * (k * M) + 9007199254740992 * k =
      k * (9007199254740992 * δ + (2 * k + 4) * M + 9007199254740992) := by ring
  have hlhs : 9007199254740992 * (k * (z - z').natAbs) = k * (9007199254740992 * (z - z').natAbs) := by ring
  rw [hrhs, hlhs] at hmain
  exact Nat.le_of_mul_le_mul_left hmain hkpos

/-! ### columns of `cellCentre` -/

theorem addRows_col (a : List Int) : ∀ (b r : List Int) (d : Nat), addRows a b = some r → a.length = d →
    b.length = d → r.length = d ∧ ∀ j, j < d → fadd (a.getD j 0) (b.getD j 0) = some (r.getD j 0) := by
  induction a with
  | nil =>
    intro b r d h ha hb
    simp only [List.length_nil] at ha
    subst ha
    have hb0 : b = [] := List.length_eq_zero_iff.mp hb
    subst hb0
    simp only [addRows, Option.some.injEq] at h
    subst h
    exact ⟨rfl, fun j hj => absurd hj (Nat.not_lt_zero _)⟩
  | cons x a ih =>
    intro b r d h ha hb
    cases b with
    | nil => simp at ha hb; omega
    | cons y b =>
      simp only [addRows, Option.bind_eq_bind, Option.pure_def] at h
      cases h1 : fadd x y with
      | none => rw [h1] at h; cases h
      | some s0 =>
        rw [h1, Option.bind_some] at h
        cases h2 : addRows a b with
        | none => rw [h2] at h; cases h
        | some r0 =>
          rw [h2, Option.bind_some, Option.some.injEq] at h
          subst h
          cases d with
          | zero => simp at ha
          | succ d =>
            simp only [List.length_cons, Nat.add_right_cancel_iff] at ha hb
            obtain ⟨hl, hc⟩ := ih b r0 d h2 ha hb
            refine ⟨by simp [hl], ?_⟩
            intro j hj
            cases j with
            | zero => simpa using h1
            | succ j => simpa using hc j (by omega)

theorem foldlM_addRows_col (rows : Nat → List Int) (d : Nat) : ∀ (qs : List Nat) (init s : List Int),
    qs.foldlM (fun acc q => addRows acc (rows q)) init = some s → init.length = d →
    (∀ q ∈ qs, (rows q).length = d) →
    s.length = d ∧ ∀ j, j < d →
      (qs.map fun q => (rows q).getD j 0).foldlM fadd (init.getD j 0) = some (s.getD j 0)
  | [], init, s, h, hi, _ => by
    simp only [List.foldlM_nil, Option.pure_def, Option.some.injEq] at h
    subst h
    exact ⟨hi, fun j _ => rfl⟩
  | q :: qs, init, s, h, hi, hr => by
    simp only [List.foldlM_cons, Option.bind_eq_bind] at h
    cases h1 : addRows init (rows q) with
    | none => rw [h1] at h; cases h
    | some a1 =>
      rw [h1, Option.bind_some] at h
      obtain ⟨hl1, hc1⟩ := addRows_col init (rows q) a1 d h1 hi (hr q (List.mem_cons_self ..))
      obtain ⟨hl, hc⟩ := foldlM_addRows_col rows d qs a1 s h hl1
        (fun q' hq' => hr q' (List.mem_cons_of_mem _ hq'))
      refine ⟨hl, fun j hj => ?_⟩
      simp only [List.map_cons, List.foldlM_cons, Option.bind_eq_bind]
      rw [hc1 j hj, Option.bind_some]
      exact hc j hj

theorem mapM_col {f : Int → Option Int} : ∀ (s z : List Int), s.mapM f = some z →
    z.length = s.length ∧ ∀ j, j < s.length → f (s.getD j 0) = some (z.getD j 0)
  | [], z, h => by
    simp only [List.mapM_nil, Option.pure_def, Option.some.injEq] at h
    subst h
    exact ⟨rfl, fun j hj => absurd hj (Nat.not_lt_zero _)⟩
  | x :: s, z, h => by
    simp only [List.mapM_cons, Option.bind_eq_bind, Option.pure_def] at h
    cases h1 : f x with
    | none => rw [h1] at h; cases h
    | some y =>
      rw [h1, Option.bind_some] at h
      cases h2 : s.mapM f with
      | none => rw [h2] at h; cases h
      | some z0 =>
        rw [h2, Option.bind_some, Option.some.injEq] at h
        subst h
        obtain ⟨hl, hc⟩ := mapM_col s z0 h2
        refine ⟨by simp [hl], ?_⟩
        intro j hj
        cases j with
        | zero => simpa using h1
        | succ j => simpa using hc j (by simpa using hj)

/-- a defined centre, column by column: the binary64 running sum of the corner values, divided by
    the number of corners -/
theorem cellCentre_col {pts : List (List Int)} {d : Nat} {p : Nat} {ps : List Nat} {z : List Int}
    (h : cellCentre pts (p :: ps) = some z) (hin : ∀ q ∈ p :: ps, (pts.getD q []).length = d) :
    z.length = d ∧ ∀ j, j < d → ∃ s,
      (ps.map fun q => (pts.getD q []).getD j 0).foldlM fadd ((pts.getD p []).getD j 0) = some s ∧
      fdivNat s (ps.length + 1) = some (z.getD j 0) := by
  unfold cellCentre at h
  simp only [Option.bind_eq_bind, List.length_cons] at h
  cases h1 : ps.foldlM (fun acc q => addRows acc (pts.getD q [])) (pts.getD p []) with
  | none => rw [h1] at h; cases h
  | some s =>
    rw [h1, Option.bind_some] at h
    obtain ⟨hl, hc⟩ := foldlM_addRows_col (fun q => pts.getD q []) d ps _ s h1
      (hin p (List.mem_cons_self ..)) (fun q hq => hin q (List.mem_cons_of_mem _ hq))
    obtain ⟨hzl, hzc⟩ := mapM_col s z h
    refine ⟨by rw [hzl, hl], fun j hj => ⟨s.getD j 0, hc j hj, ?_⟩⟩
    exact hzc j (by rw [hl]; exact hj)

/-- **the rounding-error bound for cell centres.**  Two cells `r` (corners in the point array `pts`)
    and `r'` (in `pts'`) such that `r'` lists, in ANY order, the images `φ q` of the corners `q` of
    `r`, each image within `δ` of its original in every column, all magnitudes `≤ M`: the two centres
    differ, in every column, by at most `δ + (2k+4)·M·2^-53 + 1 unit`. -/
theorem cellCentre_close {pts pts' : List (List Int)} {d : Nat} {r r' : List Nat} {φ : Nat → Nat}
    {z z' : List Int} {δ M : Nat}
    (hz : cellCentre pts r = some z) (hz' : cellCentre pts' r' = some z')
    (hperm : r'.Perm (r.map φ))
    (hlen : ∀ q ∈ r, (pts.getD q []).length = d) (hlen' : ∀ q ∈ r', (pts'.getD q []).length = d)
    (hM : ∀ q ∈ r, ∀ j, j < d → ((pts.getD q []).getD j 0).natAbs ≤ M)
    (hM' : ∀ q ∈ r', ∀ j, j < d → ((pts'.getD q []).getD j 0).natAbs ≤ M)
    (hδ : ∀ q ∈ r, ∀ j, j < d → ((pts'.getD (φ q) []).getD j 0 - (pts.getD q []).getD j 0).natAbs ≤ δ)
    (hk : r.length ≤ 9007199254740992) :
    ∀ j, j < d → 9007199254740992 * (z.getD j 0 - z'.getD j 0).natAbs ≤
      9007199254740992 * δ + (2 * r.length + 4) * M + 9007199254740992 := by
  intro j hj
  cases r with
  | nil => simp [cellCentre] at hz
  | cons p ps =>
    cases r' with
    | nil => simp [cellCentre] at hz'
    | cons p' ps' =>
      obtain ⟨_, hc⟩ := cellCentre_col hz hlen
      obtain ⟨_, hc'⟩ := cellCentre_col hz' hlen'
      obtain ⟨s, hs, hzj⟩ := hc j hj
      obtain ⟨s', hs', hzj'⟩ := hc' j hj
      have hl : ps'.length = ps.length := by
        have := hperm.length_eq
        simpa using this
      rw [hl] at hzj'
      have hpermv : (((pts'.getD p' []).getD j 0) :: ps'.map fun q => (pts'.getD q []).getD j 0).Perm
          ((p :: ps).map fun q => (pts'.getD (φ q) []).getD j 0) := by
        have := hperm.map fun q => (pts'.getD q []).getD j 0
        simpa [List.map_map, Function.comp_def] using this
      have hclose : List.Forall₂ (fun x w => (w - x).natAbs ≤ δ)
          (((pts.getD p []).getD j 0) :: ps.map fun q => (pts.getD q []).getD j 0)
          ((p :: ps).map fun q => (pts'.getD (φ q) []).getD j 0) := by
        have : ∀ l : List Nat, (∀ q ∈ l, q ∈ p :: ps) → List.Forall₂ (fun x w => (w - x).natAbs ≤ δ)
            (l.map fun q => (pts.getD q []).getD j 0) (l.map fun q => (pts'.getD (φ q) []).getD j 0) := by
          intro l
          induction l with
          | nil => intro _; exact .nil
          | cons a t ih =>
            intro hsub
            exact .cons (hδ a (hsub a (List.mem_cons_self ..)) j hj)
              (ih fun q hq => hsub q (List.mem_cons_of_mem _ hq))
        exact this (p :: ps) (fun _ h => h)
      have := centre_core (δ := δ) (M := M) (xs := ps.map fun q => (pts.getD q []).getD j 0)
        (ys := ps'.map fun q => (pts'.getD q []).getD j 0) (s := s) (s' := s') (z := z.getD j 0) (z' := z'.getD j 0)
        hs hs' (by simpa using hzj) (by simpa using hzj') (by simp [hl]) hpermv hclose
        (by
          intro x hx
          have hx' : x ∈ (p :: ps).map fun q => (pts.getD q []).getD j 0 := by simpa using hx
          obtain ⟨q, hq, rfl⟩ := List.mem_map.mp hx'
          exact hM q hq j hj)
        (by
          intro y hy
          have hy' : y ∈ (p' :: ps').map fun q => (pts'.getD q []).getD j 0 := by simpa using hy
          obtain ⟨q, hq, rfl⟩ := List.mem_map.mp hy'
          exact hM' q hq j hj)
        (by simpa using hk)
      simpa using this

end Fc.Resid
