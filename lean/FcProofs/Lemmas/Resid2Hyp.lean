/-
  FcProofs.Lemmas.Resid2Hyp — soundness of the decidable hypotheses of FcModel/Spec/Resid2.lean (what the
  driver can evaluate) w.r.t. the Prop-level hypotheses of the noisy theorems.
-/
import FcProofs.Lemmas.Resid2Ladder
namespace Fc.Resid2
open Fc Fc.C02 Fc.C02.Spec Fc.Resid

theorem allRowsB_eq (m : Mesh) : allRowsB m = allRows m := rfl

theorem centreSlackB_iff (A B M k : Nat) : centreSlackB A B M k = true ↔ CentreSlack A B M k := by
  unfold centreSlackB CentreSlack
  simp only [Bool.and_eq_true, decide_eq_true_eq]

/-- the core-only copy the driver evaluates IS `Resid.storedHyp` -/
theorem storedHypB_eq (f : MeshFields) : storedHypB f = Resid.storedHyp f := by
  unfold storedHypB Resid.storedHyp
  simp only [allRowsB_eq]
  congr 1
  apply List.all_congr rfl
  intro r
  rw [Bool.eq_iff_iff, centreSlackB_iff, decide_eq_true_eq]

/-- the parameterised point hypothesis, unpacked -/
theorem pointHypWith_sound {t : MeshTol} {A B M : Nat} {C : List (List Int)} {m : Mesh}
    (h : pointHypWith t A B M C m = true) :
    PointHypP t A B M m C ∧
    (∀ a ∈ pitems m, ∀ b ∈ pitems m, kvec (KC A m) m.dim 0 a = kvec (KC A m) m.dim 0 b →
      kvec (KM A C argsortStable t m) m.dim 0 a = kvec (KM A C argsortStable t m) m.dim 0 b → a = b) := by
  unfold pointHypWith at h
  simp only [Bool.and_eq_true, List.all_eq_true, decide_eq_true_eq, List.mem_range] at h
  obtain ⟨⟨⟨⟨⟨⟨⟨hdim, hrows⟩, hAB⟩, hb⟩, hP⟩, hC⟩, hdup⟩, hdist⟩ := h
  constructor
  · refine ⟨hdim, hrows, ⟨hAB, hb, fun j hj => (hP j hj).1, fun j hj a ha => (hP j hj).2 a ha⟩,
      ⟨hAB, hb, fun j hj => (hC j hj).1, fun j hj c hc => (hC j hj).2 c hc⟩, ?_⟩
    intro a ha b hb' hab hk
    have hx := mem_dups_of_partner ha hb' hab hk
    have hsome := hdup _ hx
    cases hcs : centresOf m a.1 with
    | none => simp [hcs] at hsome
    | some cs =>
      refine ⟨cs, rfl, ?_⟩
      intro c hc
      simp only [hcs, List.all_eq_true] at hsome
      exact List.contains_iff_mem.mp (hsome c hc)
  · intro a ha b hb' hk hm
    by_contra hab
    have hxa := mem_dups_of_partner ha hb' hab hk
    have hxb := mem_dups_of_partner hb' ha (Ne.symm hab) hk.symm
    simp only [List.mem_map, forall_exists_index, and_imp, forall_apply_eq_imp_iff₂,
      Bool.or_eq_true, beq_iff_eq, bne_iff_ne, ne_eq] at hdist
    rcases hdist _ hxa _ hxb with (h1 | h1) | h1
    · exact hab h1
    · exact h1 hk
    · exact h1 hm

/-- the parameterised base hypothesis, unpacked -/
theorem baseHypWith_sound {h : List Nat → Int} {A B M : Nat} {C : List (List Int)} {f : MeshFields}
    (hb : baseHypWith h A B M C f = true) : BaseHyp h f A B M C := by
  unfold baseHypWith at hb
  simp only [Bool.and_eq_true, Bool.not_eq_true', decide_eq_true_eq] at hb
  obtain ⟨⟨⟨⟨⟨hwf, hty⟩, hcf⟩, hne⟩, hpt⟩, hhash⟩ := hb
  have hwf2 : f.wf2 = true := by
    unfold MeshFields.wf2
    simp only [Bool.and_eq_true, decide_eq_true_eq]
    exact ⟨⟨hwf, hty⟩, hcf⟩
  obtain ⟨hy, hd⟩ := pointHypWith_sound hpt
  refine ⟨Fc.wf2_WFP f hwf2, ?_, hy, hd, ?_⟩
  · intro e
    rw [e] at hne
    simp at hne
  · intro I0 hI0 b hbm
    show (b.2.map fun r => h (sortNat r)).Nodup
    rw [hI0] at hhash
    simp only [List.all_eq_true, decide_eq_true_eq] at hhash
    exact hhash b hbm

theorem nearPtsB_sound {d : Nat} {P P' : List (List Int)} {δ : Nat} (h : nearPtsB d P P' δ = true) :
    NearPts d P P' δ := by
  unfold nearPtsB at h
  simp only [Bool.and_eq_true, beq_iff_eq, List.all_eq_true, List.mem_range, decide_eq_true_eq] at h
  exact ⟨h.1, fun i hi j hj => h.2 i hi j hj⟩

theorem nearPts_self (d : Nat) (P : List (List Int)) (δ : Nat) : NearPts d P P δ :=
  ⟨rfl, fun _ _ _ _ => by simp⟩

/-- **soundness of the decidable noisy hypothesis** (noise bound `δ = A`) -/
theorem noisyHypWith_sound {h : List Nat → Int} {f : MeshFields} {P' : List (List Int)} {p : NoisyPar}
    (hb : noisyHypWith h f P' p = true) : NoisyHyp h f P' p.A p.A p.B p.M p.C := by
  unfold noisyHypWith at hb
  simp only [Bool.and_eq_true, List.all_eq_true, List.mem_range] at hb
  obtain ⟨⟨⟨⟨h1, h2⟩, h3⟩, h4⟩, h5⟩ := hb
  refine ⟨baseHypWith_sound h1, baseHypWith_sound h2, nearPtsB_sound h3, le_refl _, h4, ?_⟩
  intro r hr
  exact (centreSlackB_iff _ _ _ _).mp (h5 r hr)

/-- **soundness of the decidable stored joint hypothesis**, in both roles -/
theorem storedJointWith_sound {f : MeshFields} {P' : List (List Int)} {p : NoisyPar}
    (hb : storedJointWith f P' p = true) :
    StoredJoint f P' f.mesh.points p.A p.B p.M ∧ StoredJoint f f.mesh.points P' p.A p.B p.M := by
  unfold storedJointWith at hb
  simp only [Bool.and_eq_true, List.all_eq_true, List.mem_range, decide_eq_true_eq] at hb
  obtain ⟨⟨⟨⟨hAB, hcols⟩, hmin⟩, h0⟩, hnear⟩ := hb
  have np := nearPtsB_sound hnear
  have hsub1 : ∀ j, ∀ v ∈ storedCol f P' f.mesh.points j, v ∈ (f.mesh.points ++ P').map (rowKey j) := by
    intro j v hv
    unfold storedCol at hv
    obtain ⟨r, hr, rfl⟩ := List.mem_map.mp hv
    apply List.mem_map_of_mem
    simp only [List.mem_append] at hr ⊢
    rcases hr with (hr | hr) | hr
    · exact Or.inl hr
    · exact Or.inr hr
    · exact Or.inl hr
  have hsub2 : ∀ j, ∀ v ∈ storedCol f f.mesh.points P' j, v ∈ (f.mesh.points ++ P').map (rowKey j) := by
    intro j v hv
    unfold storedCol at hv
    obtain ⟨r, hr, rfl⟩ := List.mem_map.mp hv
    apply List.mem_map_of_mem
    simp only [List.mem_append] at hr ⊢
    rcases hr with (hr | hr) | hr
    · exact Or.inl hr
    · exact Or.inl hr
    · exact Or.inr hr
  have hmag : ∀ j, j < f.mesh.dim → ∀ v ∈ (f.mesh.points ++ P').map (rowKey j), v.natAbs ≤ p.M := by
    intro j hj v hv
    obtain ⟨r, hr, rfl⟩ := List.mem_map.mp hv
    exact (hcols j hj).2 r hr
  constructor
  · refine ⟨hAB, fun j hj => sepCol_subset (hcols j hj).1 (hsub1 j),
      fun j hj v hv => hmag j hj v (hsub1 j v hv), ?_, h0, np, nearPts_self _ _ _⟩
    show boundsOk ⟨min (meshTolOf (withPoints f P').mesh).atol (meshTolOf f.mesh).atol,
      min (meshTolOf (withPoints f P').mesh).rtol (meshTolOf f.mesh).rtol⟩ p.A p.B p.M = true
    rw [Nat.min_comm (meshTolOf (withPoints f P').mesh).atol, Nat.min_comm (meshTolOf (withPoints f P').mesh).rtol]
    exact hmin
  · exact ⟨hAB, fun j hj => sepCol_subset (hcols j hj).1 (hsub2 j),
      fun j hj v hv => hmag j hj v (hsub2 j v hv), hmin, h0, nearPts_self _ _ _, np⟩

/-- under the parameterised point hypothesis every `argsort` returns the index map of the stable one (lets the
    witnesses evaluate the kernel-reducible insertion-sort instance instead) -/
theorem sortIdx_with {as : List Int → List Nat} (has : IsArgsort as) {t : MeshTol} {A B M : Nat}
    {C : List (List Int)} {m : Mesh} (h : pointHypWith t A B M C m = true) :
    sortPointsIdx as t m = sortPointsIdx argsortStable t m := by
  obtain ⟨hy, hd⟩ := pointHypWith_sound h
  unfold sortPointsIdx
  rw [sortPointsItems_tie_independent isArgsort_stable has hy hd]

end Fc.Resid2
