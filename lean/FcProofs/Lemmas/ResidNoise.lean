/-
  FcProofs.Lemmas.ResidNoise — the NOISY relabelling (`relabel ρ` + coordinate noise `≤ δ`):
  corresponding points and corresponding cell centres have the same cluster keys RELATIVE TO THE JOINT
  value sets of both meshes (`Spec.jointSep` is a dichotomy on exactly these joint sets).

  Remark on `hrel` of `C02_canonical_points_partial`: it compares `KC A₁ m₁` with `KC A₂ m₂`, and a
  cluster key is the smallest value OCCURRING IN THE OWN MESH within `A`; with genuine noise the two
  smallest values differ, so the two key-vector multisets are different lists of integers and `hrel`
  is false (witness in Witness/C02_Resid.lean).  The invariant statement needs joint keys — below.
-/
import FcProofs.Lemmas.ResidRigid
namespace Fc.Resid
open Fc Fc.C02 Fc.C02.Spec

/-- `m2` stores `m1` with its points in the order `ρ` (new ↦ old), every coordinate moved by at most
    `δ`, and the cells of `m1` — in any order — with every corner renumbered through `ρ⁻¹` -/
structure NoisyRelabeled (m1 m2 : Mesh) (ρ : List Nat) (δ : Nat) : Prop where
  dim : m1.dim = m2.dim
  perm : ρ.Perm (List.range m1.points.length)
  len : m2.points.length = m1.points.length
  rowLen1 : ∀ r ∈ m1.points, r.length = m1.dim
  rowLen2 : ∀ r ∈ m2.points, r.length = m1.dim
  near : ∀ i, i < m1.points.length → ∀ j, j < m1.dim →
    ((m2.points.getD i []).getD j 0 - (m1.points.getD (ρ.getD i 0) []).getD j 0).natAbs ≤ δ
  wf : ∀ row ∈ allRows m1, ∀ p ∈ row, p < m1.points.length
  rows : (allRows m2).Perm ((allRows m1).map fun row => row.map fun p => ρ.idxOf p)

/-- the noise-free relabelling is the case `δ = 0` -/
theorem noisy_of_relabeled {m1 m2 : Mesh} {ρ : List Nat} (h : Relabeled m1 m2 ρ)
    (hrow : ∀ r ∈ m1.points, r.length = m1.dim) : NoisyRelabeled m1 m2 ρ 0 where
  dim := h.dim
  perm := h.perm
  len := by rw [h.points, List.length_map, h.length]
  rowLen1 := hrow
  rowLen2 := by
    intro r hr
    rw [h.points] at hr
    obtain ⟨i, hi, rfl⟩ := List.mem_map.mp hr
    have hi' : i < m1.points.length := (h.mem_iff i).mp hi
    rw [Fc.getD_of_lt _ _ hi']
    exact hrow _ (List.getElem_mem hi')
  near := by
    intro i hi j _
    have hl : i < ρ.length := by rw [h.length]; exact hi
    have : m2.points.getD i [] = m1.points.getD (ρ.getD i 0) [] := by
      rw [h.points, Fc.getD_of_lt _ _ (by rw [List.length_map]; exact hl), List.getElem_map,
        Fc.getD_of_lt ρ 0 hl]
    rw [this]
    simp
  wf := h.wf
  rows := h.rows

section noisy
variable {m1 m2 : Mesh} {ρ : List Nat} {δ : Nat}

/-- **corresponding points have the same joint coordinate cluster keys** -/
theorem NoisyRelabeled.point_keys (h : NoisyRelabeled m1 m2 ρ δ) {A B : Nat} (hAB : 2 * A ≤ B) (hδ : δ ≤ A)
    {j : Nat} (hj : j < m1.dim)
    (hsep : sepCol A B ((pitems m1 ++ pitems m2).map (pkey j)) = true) {i : Nat} (hi : i < m1.points.length) :
    clusterKey A ((pitems m1 ++ pitems m2).map (pkey j)) ((m2.points.getD i []).getD j 0) =
      clusterKey A ((pitems m1 ++ pitems m2).map (pkey j)) ((m1.points.getD (ρ.getD i 0) []).getD j 0) := by
  have hl : i < ρ.length := by
    have := h.perm.length_eq
    simp only [List.length_range] at this
    omega
  have hq : ρ.getD i 0 < m1.points.length := List.mem_range.mp (h.perm.mem_iff.mp (getD_mem hl 0))
  have hm2 : (m2.points.getD i []).getD j 0 ∈ (pitems m1 ++ pitems m2).map (pkey j) := by
    apply List.mem_map.mpr
    exact ⟨(i, m2.points.getD i []), List.mem_append_right _ (pitem_mem (by rw [h.len]; exact hi)), rfl⟩
  have hm1 : (m1.points.getD (ρ.getD i 0) []).getD j 0 ∈ (pitems m1 ++ pitems m2).map (pkey j) := by
    apply List.mem_map.mpr
    exact ⟨(ρ.getD i 0, m1.points.getD (ρ.getD i 0) []), List.mem_append_left _ (pitem_mem hq), rfl⟩
  exact clusterKey_eq_of_near hsep hAB hm2 hm1 (Nat.le_trans (h.near i hi j hj) hδ)

/-- **corresponding cells have centres with the same joint cluster keys**: `r` a cell of `m1`,
    `r.map ρ⁻¹` the same cell in `m2`; `C` any list of candidate centres containing both centres and
    satisfying the dichotomy; slack `δ + (2k+4)·M·2^-53 + 1 unit ≤ B` -/
theorem NoisyRelabeled.centre_keys (h : NoisyRelabeled m1 m2 ρ δ) {A B M : Nat} (hAB : 2 * A ≤ B)
    {r : List Nat} (hr : r ∈ allRows m1) (hslack : CentreSlack δ B M r.length)
    (hM1 : ∀ q, q < m1.points.length → ∀ j, j < m1.dim → ((m1.points.getD q []).getD j 0).natAbs ≤ M)
    (hM2 : ∀ q, q < m1.points.length → ∀ j, j < m1.dim → ((m2.points.getD q []).getD j 0).natAbs ≤ M)
    {z z' : List Int} (hz : cellCentre m1.points r = some z)
    (hz' : cellCentre m2.points (r.map fun p => ρ.idxOf p) = some z')
    {C : List (List Int)} (hzC : z ∈ C) (hzC' : z' ∈ C) {j : Nat} (hj : j < m1.dim)
    (hsep : sepCol A B (C.map (rowKey j)) = true) :
    clusterKey A (C.map (rowKey j)) (rowKey j z) = clusterKey A (C.map (rowKey j)) (rowKey j z') := by
  have hin : ∀ q ∈ r, q < m1.points.length := h.wf r hr
  have hmemρ : ∀ q ∈ r, q ∈ ρ := fun q hq => h.perm.mem_iff.mpr (List.mem_range.mpr (hin q hq))
  have hidx : ∀ q ∈ r, ρ.idxOf q < m1.points.length := by
    intro q hq
    have := List.idxOf_lt_length_iff.mpr (hmemρ q hq)
    have hl := h.perm.length_eq
    simp only [List.length_range] at hl
    omega
  have hrow1 : ∀ q, q < m1.points.length → (m1.points.getD q []).length = m1.dim := by
    intro q hq
    rw [Fc.getD_of_lt _ _ hq]
    exact h.rowLen1 _ (List.getElem_mem hq)
  have hrow2 : ∀ q, q < m1.points.length → (m2.points.getD q []).length = m1.dim := by
    intro q hq
    have hq2 : q < m2.points.length := by rw [h.len]; exact hq
    rw [Fc.getD_of_lt _ _ hq2]
    exact h.rowLen2 _ (List.getElem_mem hq2)
  have hb := cellCentre_close (pts := m1.points) (pts' := m2.points) (d := m1.dim) (φ := fun p => ρ.idxOf p)
    (δ := δ) (M := M) hz hz' (List.Perm.refl _)
    (fun q hq => hrow1 q (hin q hq))
    (fun q' hq' => by
      obtain ⟨q, hq, rfl⟩ := List.mem_map.mp hq'
      exact hrow2 _ (hidx q hq))
    (fun q hq j hj => hM1 q (hin q hq) j hj)
    (fun q' hq' j hj => by
      obtain ⟨q, hq, rfl⟩ := List.mem_map.mp hq'
      exact hM2 _ (hidx q hq) j hj)
    (fun q hq j hj => by
      have := h.near (ρ.idxOf q) (hidx q hq) j hj
      rwa [getD_idxOf (hmemρ q hq) 0] at this)
    hslack.1 j hj
  have hle : (z.getD j 0 - z'.getD j 0).natAbs ≤ B :=
    Nat.le_of_mul_le_mul_left (Nat.le_trans hb hslack.2) (by decide)
  have hm1 : rowKey j z ∈ C.map (rowKey j) := List.mem_map_of_mem hzC
  have hm2 : rowKey j z' ∈ C.map (rowKey j) := List.mem_map_of_mem hzC'
  have hnear : (rowKey j z - rowKey j z').natAbs ≤ A := by
    rcases (sepCol_iff A B _).mp hsep _ hm1 _ hm2 with h' | h'
    · exact h'
    · exact absurd hle (by unfold rowKey at h'; omega)
  exact clusterKey_eq_of_near hsep hAB hm1 hm2 hnear

end noisy

end Fc.Resid
